import EAO.Model.CHP
import EAO.Lemmas.UC
/-!
# EAO.Lemmas.CHPCommit — bridge from the commitment rows that `assembleCHP` GENERATES (0/1 inequality rows
over `Rat`, initial-state bounds set by slice assignment) to their Boolean reading `UC.RowsF`, and from
there (by `UC.commit_rowsF_iff_specF`) to the run-length specification `UC.MinUpDown`.
-/
namespace EAO.CHPCommit
open EAO EAO.UC

/-- what `resolveCHP` guarantees about its result and the bridge needs -/
structure CommitWF (r : CHPR) : Prop where
  hT  : 0 < r.T
  hl  : r.base.l.length = r.T
  hu  : r.base.u.length = r.T
  hc  : r.base.c.length = r.T
  hm  : r.base.mapping.length = r.T
  hd  : r.heat = true → ∀ m ∈ r.base.mapping, m.kind = VarKind.d
  hR  : 1 < r.R → r.incStart = true
  hD  : 1 < r.D → r.incOn = true
  hso : r.incStart = true → r.incOn = true

def b2r (b : Bool) : Rat := if b then 1 else 0

/-- the pattern `on` (as 0/1 values of the on variables) extends to a 0/1 assignment of the start variables
    that satisfies the generated start-definition, min-runtime and min-downtime rows and the bounds of the
    on and start variables (which carry the initial state) -/
def CommitFeasible (r : CHPR) (on : List Bool) : Prop :=
  ∃ x : Vec,
    (∀ t, t < r.T → x (r.layout.on t) = b2r (on.getD t false)) ∧
    (r.incStart = true → ∀ t, t < r.T → x (r.layout.start t) = 0 ∨ x (r.layout.start t) = 1) ∧
    (∀ row ∈ r.commitRows, row.Sat x) ∧
    (r.incOn = true → ∀ t, t < r.T →
      r.lower.getD (r.layout.on t) 0 ≤ x (r.layout.on t) ∧ x (r.layout.on t) ≤ r.upper.getD (r.layout.on t) 0) ∧
    (r.incStart = true → ∀ t, t < r.T →
      r.lower.getD (r.layout.start t) 0 ≤ x (r.layout.start t) ∧ x (r.layout.start t) ≤ r.upper.getD (r.layout.start t) 0)

def ucp (r : CHPR) : UCP := { R := r.R, D := r.D, tar := r.tar, tao := r.tao }

/-! ## (A) membership -/
theorem mem_startRows (r : CHPR) (row : Row) :
    row ∈ r.startRows ↔ r.incStart = true ∧
      ((∃ i, i < r.T - 1 ∧ row = r.startDefRow i) ∨ (r.tar = 0 ∧ row = r.startFirstRow)) := by
  unfold CHPR.startRows
  by_cases hs : r.incStart = true
  · by_cases h0 : r.tar = 0
    · simp [hs, h0, List.mem_append, List.mem_map, List.mem_range, eq_comm]
    · simp [hs, h0, List.mem_map, List.mem_range, eq_comm]
  · simp [hs]

theorem mem_runtimeRows (r : CHPR) (row : Row) :
    row ∈ r.runtimeRows ↔ r.incStart = true ∧ 1 < r.R ∧
      ∃ t i, t < r.T ∧ 1 ≤ i ∧ i < r.R ∧ i ≤ t ∧ row = r.runtimeRow t i := by
  unfold CHPR.runtimeRows
  by_cases hs : r.incStart = true ∧ 1 < r.R
  · rw [if_pos hs]
    simp only [List.mem_flatMap, List.mem_map, List.mem_filter, List.mem_range, List.mem_range'_1,
      decide_eq_true_eq]
    constructor
    · rintro ⟨t, ht, i, ⟨⟨h1, h2⟩, h3⟩, rfl⟩
      exact ⟨hs.1, hs.2, t, i, ht, h1, by omega, h3, rfl⟩
    · rintro ⟨_, _, t, i, ht, h1, h2, h3, rfl⟩
      exact ⟨t, ht, i, ⟨⟨h1, by omega⟩, h3⟩, rfl⟩
  · rw [if_neg hs]
    simp only [List.not_mem_nil, false_iff]
    rintro ⟨h1, h2, _⟩
    exact hs ⟨h1, h2⟩

theorem mem_downtimeRows (r : CHPR) (row : Row) :
    row ∈ r.downtimeRows ↔ 1 < r.D ∧
      ∃ t i, t < r.T ∧ 1 ≤ i ∧ i < r.D ∧ i ≤ t ∧ row = r.downtimeRow t i := by
  unfold CHPR.downtimeRows
  by_cases hs : 1 < r.D
  · rw [if_pos hs]
    simp only [List.mem_flatMap, List.mem_map, List.mem_filter, List.mem_range, List.mem_range'_1,
      decide_eq_true_eq]
    constructor
    · rintro ⟨t, ht, i, ⟨⟨h1, h2⟩, h3⟩, rfl⟩
      exact ⟨hs, t, i, ht, h1, by omega, h3, rfl⟩
    · rintro ⟨_, t, i, ht, h1, h2, h3, rfl⟩
      exact ⟨t, ht, i, ⟨⟨h1, by omega⟩, h3⟩, rfl⟩
  · rw [if_neg hs]
    simp only [List.not_mem_nil, false_iff]
    rintro ⟨h1, _⟩
    exact hs h1

/-! ## (B) Sat -/
theorem sat_startDef (r : CHPR) (x : Vec) (i : Nat) :
    (r.startDefRow i).Sat x ↔ x (r.layout.on (i+1)) - x (r.layout.on i) - x (r.layout.start (i+1)) ≤ 0 := by
  simp [Row.Sat, Row.eval, CHPR.startDefRow]
  grind

theorem sat_startFirst (r : CHPR) (x : Vec) :
    (r.startFirstRow).Sat x ↔ x (r.layout.on 0) = x (r.layout.start 0) := by
  simp [Row.Sat, Row.eval, CHPR.startFirstRow]
  grind

theorem sat_runtime (r : CHPR) (x : Vec) (t i : Nat) :
    (r.runtimeRow t i).Sat x ↔ x (r.layout.start (t-i)) ≤ x (r.layout.on t) := by
  simp [Row.Sat, Row.eval, CHPR.runtimeRow]
  grind

theorem sat_downtime_lt (r : CHPR) (x : Vec) (t i : Nat) (h : i < t) :
    (r.downtimeRow t i).Sat x ↔
      x (r.layout.on t) - x (r.layout.on (t-i)) + x (r.layout.on (t-i-1)) ≤ 1 := by
  simp [Row.Sat, Row.eval, CHPR.downtimeRow, h]
  grind

theorem sat_downtime_eq (r : CHPR) (x : Vec) (t : Nat) :
    (r.downtimeRow t t).Sat x ↔
      x (r.layout.on t) - x (r.layout.on 0) ≤ (if r.tao = 0 then 0 else 1) := by
  simp [Row.Sat, Row.eval, CHPR.downtimeRow]
  grind

/-! ## (C) bounds -/
theorem getD_setSliceFrom (xs : List Rat) (i a b : Nat) (v : Rat) (j : Nat) (d : Rat) :
    (setSliceFrom xs i a b v).getD j d = if a ≤ i + j ∧ i + j < b ∧ j < xs.length then v else xs.getD j d := by
  induction xs generalizing i j with
  | nil => simp [setSliceFrom]
  | cons y ys ih =>
    cases j with
    | zero => simp [setSliceFrom]
    | succ j =>
      simp only [setSliceFrom, List.getD_cons_succ, ih, List.length_cons]
      have : i + 1 + j = i + (j + 1) := by omega
      rw [this]
      simp

theorem getD_setSlice (xs : List Rat) (a b : Nat) (v : Rat) (j : Nat) (d : Rat) :
    (setSlice xs a b v).getD j d = if a ≤ j ∧ j < b ∧ j < xs.length then v else xs.getD j d := by
  unfold setSlice
  rw [getD_setSliceFrom]
  simp

theorem onIdx_eq (r : CHPR) (hwf : CommitWF r) : r.layout.onIdx = if r.heat = true then 2 * r.T else r.T := by
  unfold CHPR.layout
  by_cases hh : r.heat = true
  · have : r.base.mapping.filter (fun m => m.kind == VarKind.d) = r.base.mapping :=
      List.filter_eq_self.2 (fun m hm => by simp [hwf.hd hh m hm])
    simp [hh, this, hwf.hm]
  · simp [hh, hwf.hm]

theorem getD_blk1 (P : List Rat) (o T : Nat) (c : Rat) (hP : P.length = o) (t : Nat) (ht : t < T) :
    (P ++ List.replicate T c).getD (o + t) 0 = c := by
  subst hP
  simp [List.getD_eq_getElem?_getD, List.getElem?_append_right, List.getElem?_replicate, ht]

theorem getD_blk2 (P : List Rat) (o T : Nat) (c c' : Rat) (hP : P.length = o) (t : Nat) (ht : t < T) :
    (P ++ List.replicate T c ++ List.replicate T c').getD (o + t) 0 = c := by
  subst hP
  rw [List.getD_eq_getElem?_getD, List.getElem?_append_left (by simp; omega)]
  simp [List.getElem?_append_right, List.getElem?_replicate, ht]

theorem getD_blk3 (P : List Rat) (o T : Nat) (c c' : Rat) (hP : P.length = o) (t : Nat) (ht : t < T) :
    (P ++ List.replicate T c ++ List.replicate T c').getD (o + T + t) 0 = c' := by
  subst hP
  rw [List.getD_eq_getElem?_getD, List.getElem?_append_right (by simp)]
  simp [ht]

theorem lower_pre_len (r : CHPR) (hwf : CommitWF r) :
    (if r.heat = true then List.replicate (2 * r.base.c.length) (0 : Rat)
      else (if r.incOn = true then r.base.l.map fun _ => (0 : Rat) else r.base.l)).length = r.layout.onIdx := by
  rw [onIdx_eq r hwf]
  by_cases hh : r.heat = true
  · simp [hh, hwf.hc]
  · by_cases ho : r.incOn = true <;> simp [hh, ho, hwf.hl]

theorem upper_pre_len (r : CHPR) (hwf : CommitWF r) :
    (if r.heat = true then r.base.u ++ r.uHeat else r.base.u).length = r.layout.onIdx := by
  rw [onIdx_eq r hwf]
  by_cases hh : r.heat = true
  · have : r.uHeat.length = r.T := by
      unfold CHPR.uHeat CHPR.n
      cases r.share <;> simp [hwf.hl]
    simp [hh, hwf.hu, this]; omega
  · simp [hh, hwf.hu]

theorem lower_on (r : CHPR) (hwf : CommitWF r) (hon : r.incOn = true) (t : Nat) (ht : t < r.T) :
    r.lower.getD (r.layout.on t) 0 =
      if (r.incStart = true ∧ 1 < r.R ∧ 0 < r.tar ∧ r.tar < r.R ∧ t < r.R - r.tar) then 1 else 0 := by
  have hP := lower_pre_len r hwf
  simp only [CHPR.lower, CHPLayout.on]
  generalize (if r.heat = true then List.replicate (2 * r.base.c.length) (0 : Rat)
      else (if r.incOn = true then r.base.l.map fun _ => (0 : Rat) else r.base.l)) = P at hP ⊢
  generalize r.layout.onIdx = o at hP ⊢
  by_cases hs : r.incStart = true
  · simp only [hon, hs, and_self, if_true, true_and]
    by_cases hc : 1 < r.R ∧ 0 < r.tar ∧ r.tar < r.R
    · rw [if_pos hc, getD_setSlice, getD_blk2 P o r.T 0 0 hP t ht]
      have hl : o + t < (P ++ List.replicate r.T (0 : Rat) ++ List.replicate r.T (0 : Rat)).length := by
        simp [hP] <;> omega
      by_cases h : t < r.R - r.tar
      · rw [if_pos ⟨by omega, by omega, hl⟩, if_pos ⟨hc.1, hc.2.1, hc.2.2, h⟩]
      · rw [if_neg (fun h' => h (by have := h'.2.1; omega)), if_neg (fun h' => h h'.2.2.2)]
    · rw [if_neg hc, getD_blk2 P o r.T 0 0 hP t ht]
      rw [if_neg (by intro h; exact hc ⟨h.1, h.2.1, h.2.2.1⟩)]
  · have hs' : r.incStart = false := by simpa using hs
    simp only [hon, hs', Bool.false_eq_true, and_false, false_and, ↓reduceIte]
    rw [getD_blk1 P o r.T 0 hP t ht]


theorem upper_on (r : CHPR) (hwf : CommitWF r) (hon : r.incOn = true) (t : Nat) (ht : t < r.T) :
    r.upper.getD (r.layout.on t) 0 =
      if (1 < r.D ∧ 0 < r.tao ∧ r.tao < r.D ∧ t < r.D - r.tao) then 0 else 1 := by
  have hP := upper_pre_len r hwf
  simp only [CHPR.upper, CHPLayout.on]
  generalize (if r.heat = true then r.base.u ++ r.uHeat else r.base.u) = P at hP ⊢
  generalize r.layout.onIdx = o at hP ⊢
  by_cases hc : 1 < r.D ∧ 0 < r.tao ∧ r.tao < r.D
  · rw [if_pos hc, getD_setSlice]
    by_cases hs : r.incStart = true
    · simp only [hon, hs, and_self, if_true]
      rw [getD_blk2 P o r.T 1 1 hP t ht]
      have hl : o + t < (P ++ List.replicate r.T (1 : Rat) ++ List.replicate r.T (1 : Rat)).length := by
        simp [hP] <;> omega
      by_cases h : t < r.D - r.tao
      · rw [if_pos ⟨by omega, by omega, hl⟩, if_pos ⟨hc.1, hc.2.1, hc.2.2, h⟩]
      · rw [if_neg (fun h' => h (by have := h'.2.1; omega)), if_neg (fun h' => h h'.2.2.2)]
    · have hs' : r.incStart = false := by simpa using hs
      simp only [hon, hs', Bool.false_eq_true, and_false, ↓reduceIte]
      rw [getD_blk1 P o r.T 1 hP t ht]
      have hl : o + t < (P ++ List.replicate r.T (1 : Rat)).length := by
        simp [hP] <;> omega
      by_cases h : t < r.D - r.tao
      · rw [if_pos ⟨by omega, by omega, hl⟩, if_pos ⟨hc.1, hc.2.1, hc.2.2, h⟩]
      · rw [if_neg (fun h' => h (by have := h'.2.1; omega)), if_neg (fun h' => h h'.2.2.2)]
  · have hrhs : (if (1 < r.D ∧ 0 < r.tao ∧ r.tao < r.D ∧ t < r.D - r.tao) then (0 : Rat) else 1) = 1 :=
      if_neg (by intro h; exact hc ⟨h.1, h.2.1, h.2.2.1⟩)
    rw [hrhs, if_neg hc]
    by_cases hs : r.incStart = true
    · simp only [hon, hs, and_self, if_true]
      rw [getD_blk2 P o r.T 1 1 hP t ht]
    · have hs' : r.incStart = false := by simpa using hs
      simp only [hon, hs', Bool.false_eq_true, and_false, ↓reduceIte]
      rw [getD_blk1 P o r.T 1 hP t ht]

theorem lower_start (r : CHPR) (hwf : CommitWF r) (hs : r.incStart = true) (t : Nat) (ht : t < r.T) :
    r.lower.getD (r.layout.start t) 0 =
      0 := by
  have hon := hwf.hso hs
  have hP := lower_pre_len r hwf
  have hst : r.layout.startIdx = r.layout.onIdx + r.T := rfl
  simp only [CHPR.lower, CHPLayout.start, hst]
  generalize (if r.heat = true then List.replicate (2 * r.base.c.length) (0 : Rat)
      else (if r.incOn = true then r.base.l.map fun _ => (0 : Rat) else r.base.l)) = P at hP ⊢
  generalize r.layout.onIdx = o at hP ⊢
  simp only [hon, hs, and_self, if_true, true_and]
  by_cases hc : 1 < r.R ∧ 0 < r.tar ∧ r.tar < r.R
  · rw [if_pos hc, getD_setSlice, getD_blk3 P o r.T 0 0 hP t ht]
    rw [if_neg (fun h' => by have := h'.2.1; omega)]
  · rw [if_neg hc, getD_blk3 P o r.T 0 0 hP t ht]

theorem upper_start (r : CHPR) (hwf : CommitWF r) (hs : r.incStart = true) (t : Nat) (ht : t < r.T) :
    r.upper.getD (r.layout.start t) 0 =
      1 := by
  have hon := hwf.hso hs
  have hP := upper_pre_len r hwf
  have hst : r.layout.startIdx = r.layout.onIdx + r.T := rfl
  simp only [CHPR.upper, CHPLayout.start, hst]
  generalize (if r.heat = true then r.base.u ++ r.uHeat else r.base.u) = P at hP ⊢
  generalize r.layout.onIdx = o at hP ⊢
  simp only [hon, hs, and_self, if_true]
  by_cases hc : 1 < r.D ∧ 0 < r.tao ∧ r.tao < r.D
  · rw [if_pos hc, getD_setSlice, getD_blk3 P o r.T 1 1 hP t ht]
    rw [if_neg (fun h' => by have := h'.2.1; omega)]
  · rw [if_neg hc, getD_blk3 P o r.T 1 1 hP t ht]

theorem startDef_bool (r : CHPR) (x : Vec) (i : Nat) (a b c : Bool)
    (h1 : x (r.layout.on (i+1)) = b2r a) (h2 : x (r.layout.on i) = b2r b) (h3 : x (r.layout.start (i+1)) = b2r c) :
    (r.startDefRow i).Sat x ↔ (a = true → b = false → c = true) := by
  rw [sat_startDef, h1, h2, h3]
  cases a <;> cases b <;> cases c <;> simp [b2r] <;> grind

theorem startFirst_bool (r : CHPR) (x : Vec) (a c : Bool)
    (h1 : x (r.layout.on 0) = b2r a) (h3 : x (r.layout.start 0) = b2r c) :
    (r.startFirstRow).Sat x ↔ a = c := by
  rw [sat_startFirst, h1, h3]
  cases a <;> cases c <;> simp [b2r] <;> grind

theorem runtime_bool (r : CHPR) (x : Vec) (t i : Nat) (a c : Bool)
    (h1 : x (r.layout.on t) = b2r a) (h3 : x (r.layout.start (t-i)) = b2r c) :
    (r.runtimeRow t i).Sat x ↔ (c = true → a = true) := by
  rw [sat_runtime, h1, h3]
  cases a <;> cases c <;> simp [b2r] <;> grind

theorem downtime_lt_bool (r : CHPR) (x : Vec) (t i : Nat) (hi : i < t) (a b c : Bool)
    (h1 : x (r.layout.on t) = b2r a) (h2 : x (r.layout.on (t-i)) = b2r b) (h3 : x (r.layout.on (t-i-1)) = b2r c) :
    (r.downtimeRow t i).Sat x ↔ (a = true → b = false → c = true → False) := by
  rw [sat_downtime_lt r x t i hi, h1, h2, h3]
  cases a <;> cases b <;> cases c <;> simp [b2r] <;> grind

theorem downtime_eq_bool (r : CHPR) (x : Vec) (t : Nat) (a b : Bool)
    (h1 : x (r.layout.on t) = b2r a) (h2 : x (r.layout.on 0) = b2r b) :
    (r.downtimeRow t t).Sat x ↔ (r.tao = 0 → a = true → b = false → False) := by
  rw [sat_downtime_eq, h1, h2]
  by_cases h0 : r.tao = 0 <;> cases a <;> cases b <;> simp [b2r, h0] <;> grind

theorem ge_one_bool (a : Bool) (P : Prop) [Decidable P] :
    ((if P then (1 : Rat) else 0) ≤ b2r a) ↔ (P → a = true) := by
  by_cases hP : P <;> cases a <;> simp [b2r, hP] <;> grind

theorem le_zero_bool (a : Bool) (P : Prop) [Decidable P] :
    (b2r a ≤ (if P then (0 : Rat) else 1)) ↔ (P → a = false) := by
  by_cases hP : P <;> cases a <;> simp [b2r, hP] <;> grind

theorem le_one_bool (a : Bool) (P : Prop) [Decidable P] :
    (b2r a ≤ (if P then (1 : Rat) else 0)) ↔ (a = true → P) := by
  by_cases hP : P <;> cases a <;> simp [b2r, hP] <;> grind

theorem ge_zero_bool (a : Bool) (P : Prop) [Decidable P] :
    ((if P then (0 : Rat) else 1) ≤ b2r a) ↔ (a = false → P) := by
  by_cases hP : P <;> cases a <;> simp [b2r, hP] <;> grind

variable (r : CHPR) (x : Vec) (onf stf : Nat → Bool)

theorem P_start (hwf : CommitWF r) (hs : r.incStart = true)
    (hon : ∀ t, t < r.T → x (r.layout.on t) = b2r (onf t))
    (hst : ∀ t, t < r.T → x (r.layout.start t) = b2r (stf t)) :
    (∀ row ∈ r.startRows, row.Sat x) ↔
      ((∀ t, t + 1 < r.T → onf (t+1) = true → onf t = false → stf (t+1) = true) ∧
       (r.tar = 0 → stf 0 = onf 0)) := by
  constructor
  · intro h
    constructor
    · intro t ht
      have := h (r.startDefRow t) ((mem_startRows r _).2 ⟨hs, Or.inl ⟨t, by omega, rfl⟩⟩)
      exact (startDef_bool r x t _ _ _ (hon (t+1) ht) (hon t (by omega)) (hst (t+1) ht)).1 this
    · intro h0
      have := h r.startFirstRow ((mem_startRows r _).2 ⟨hs, Or.inr ⟨h0, rfl⟩⟩)
      exact ((startFirst_bool r x _ _ (hon 0 hwf.hT) (hst 0 hwf.hT)).1 this).symm
  · rintro ⟨h1, h2⟩ row hrow
    rcases (mem_startRows r row).1 hrow with ⟨_, ⟨i, hi, rfl⟩ | ⟨h0, rfl⟩⟩
    · exact (startDef_bool r x i _ _ _ (hon (i+1) (by omega)) (hon i (by omega)) (hst (i+1) (by omega))).2
        (h1 i (by omega))
    · exact (startFirst_bool r x _ _ (hon 0 hwf.hT) (hst 0 hwf.hT)).2 (h2 h0).symm

theorem P_run (hs : r.incStart = true)
    (hon : ∀ t, t < r.T → x (r.layout.on t) = b2r (onf t))
    (hst : ∀ t, t < r.T → x (r.layout.start t) = b2r (stf t)) :
    (∀ row ∈ r.runtimeRows, row.Sat x) ↔
      (∀ t, t < r.T → ∀ i, 1 ≤ i → i < r.R → i ≤ t → stf (t - i) = true → onf t = true) := by
  constructor
  · intro h t ht i h1 h2 h3
    have := h (r.runtimeRow t i) ((mem_runtimeRows r _).2 ⟨hs, by omega, t, i, ht, h1, h2, h3, rfl⟩)
    exact (runtime_bool r x t i _ _ (hon t ht) (hst (t-i) (by omega))).1 this
  · rintro h row hrow
    obtain ⟨_, _, t, i, ht, h1, h2, h3, rfl⟩ := (mem_runtimeRows r row).1 hrow
    exact (runtime_bool r x t i _ _ (hon t ht) (hst (t-i) (by omega))).2 (h t ht i h1 h2 h3)

theorem P_down
    (hon : ∀ t, t < r.T → x (r.layout.on t) = b2r (onf t)) :
    (∀ row ∈ r.downtimeRows, row.Sat x) ↔
      ((∀ t, t < r.T → ∀ i, 1 ≤ i → i < r.D → i < t →
          onf t = true → onf (t-i) = false → onf (t-i-1) = true → False) ∧
       (∀ t, t < r.T → 1 ≤ t → t < r.D → r.tao = 0 → onf t = true → onf 0 = false → False)) := by
  constructor
  · intro h
    constructor
    · intro t ht i h1 h2 h3
      have := h (r.downtimeRow t i) ((mem_downtimeRows r _).2 ⟨by omega, t, i, ht, h1, h2, by omega, rfl⟩)
      exact (downtime_lt_bool r x t i h3 _ _ _ (hon t ht) (hon (t-i) (by omega)) (hon (t-i-1) (by omega))).1 this
    · intro t ht h1 h2
      have := h (r.downtimeRow t t) ((mem_downtimeRows r _).2 ⟨by omega, t, t, ht, h1, h2, by omega, rfl⟩)
      exact (downtime_eq_bool r x t _ _ (hon t ht) (hon 0 (by omega))).1 this
  · rintro ⟨hA, hB⟩ row hrow
    obtain ⟨_, t, i, ht, h1, h2, h3, rfl⟩ := (mem_downtimeRows r row).1 hrow
    by_cases hit : i < t
    · exact (downtime_lt_bool r x t i hit _ _ _ (hon t ht) (hon (t-i) (by omega)) (hon (t-i-1) (by omega))).2
        (hA t ht i h1 h2 hit)
    · have : i = t := by omega
      subst this
      exact (downtime_eq_bool r x i _ _ (hon i ht) (hon 0 (by omega))).2 (hB i ht h1 h2)

theorem P_bon (hwf : CommitWF r) (ho : r.incOn = true)
    (hon : ∀ t, t < r.T → x (r.layout.on t) = b2r (onf t)) :
    (∀ t, t < r.T → r.lower.getD (r.layout.on t) 0 ≤ x (r.layout.on t) ∧
        x (r.layout.on t) ≤ r.upper.getD (r.layout.on t) 0) ↔
      ((0 < r.tar → ∀ t, t < r.R - r.tar → t < r.T → onf t = true) ∧
       (0 < r.tao → ∀ t, t < r.D - r.tao → t < r.T → onf t = false)) := by
  constructor
  · intro h
    constructor
    · intro h0 t h1 ht
      have := (h t ht).1
      rw [lower_on r hwf ho t ht, hon t ht, ge_one_bool] at this
      exact this ⟨hwf.hR (by omega), by omega, h0, by omega, h1⟩
    · intro h0 t h1 ht
      have := (h t ht).2
      rw [upper_on r hwf ho t ht, hon t ht, le_zero_bool] at this
      exact this ⟨by omega, h0, by omega, h1⟩
  · rintro ⟨hA, hB⟩ t ht
    rw [lower_on r hwf ho t ht, upper_on r hwf ho t ht, hon t ht, ge_one_bool, le_zero_bool]
    exact ⟨fun h => hA h.2.2.1 t h.2.2.2.2 ht, fun h => hB h.2.1 t h.2.2.2 ht⟩

theorem P_bst (hwf : CommitWF r) (hs : r.incStart = true)
    (hst : ∀ t, t < r.T → x (r.layout.start t) = b2r (stf t)) :
    ∀ t, t < r.T → r.lower.getD (r.layout.start t) 0 ≤ x (r.layout.start t) ∧
        x (r.layout.start t) ≤ r.upper.getD (r.layout.start t) 0 := by
  intro t ht
  rw [lower_start r hwf hs t ht, upper_start r hwf hs t ht, hst t ht]
  cases stf t <;> simp [b2r] <;> grind

theorem b2r_cases (b : Bool) : b2r b = 0 ∨ b2r b = 1 := by cases b <;> simp [b2r]

theorem specF_of_R_le_one (p : UCP) (T : Nat) (on : Nat → Bool) (hR : p.R ≤ 1)
    (hD : ∀ t, t < T → ∀ i, 1 ≤ i → i < p.D → i < t →
      on t = true → on (t-i) = false → on (t-i-1) = true → False)
    (hD0 : ∀ t, t < T → 1 ≤ t → t < p.D → p.tao = 0 → on t = true → on 0 = false → False)
    (hDinit : 0 < p.tao → ∀ t, t < p.D - p.tao → t < T → on t = false) : SpecF p T on := by
  refine ⟨?_, ?_, ?_, ?_, ?_, hDinit⟩
  · intro s hsT hs hon hoff k hk hskT
    have : k = 0 := by omega
    subst this; simpa using hon
  · intro htar hon k hk hkT
    have : k = 0 := by omega
    subst this; exact hon
  · intro htar t ht; omega
  · intro s hsT hs hoff hon k hk hskT
    by_cases hk0 : k = 0
    · subst hk0; simpa using hoff
    · cases hv : on (s+k) with
      | false => rfl
      | true =>
        exfalso
        have h1 : s + k - k = s := by omega
        exact hD (s+k) hskT k (by omega) hk (by omega) hv (by rw [h1]; exact hoff)
          (by rw [h1]; exact hon)
  · intro htao hoff k hk hkT
    by_cases hk0 : k = 0
    · subst hk0; exact hoff
    · cases hv : on k with
      | false => rfl
      | true => exact absurd (hD0 k hkT (by omega) hk htao hv hoff) id

theorem commit_feasible_imp_spec (r : CHPR) (hwf : CommitWF r) (on : List Bool) (hlen : on.length = r.T) :
    CommitFeasible r on → MinUpDown (ucp r) on := by
  rintro ⟨x, hon, h01, hrows, hbon, _⟩
  unfold MinUpDown; rw [hlen]
  have hon' : ∀ t, t < r.T → x (r.layout.on t) = b2r (fn on t) := hon
  have hrowsS : ∀ row ∈ r.startRows, row.Sat x := fun row h =>
    hrows row (by unfold CHPR.commitRows; simp [h])
  have hrowsR : ∀ row ∈ r.runtimeRows, row.Sat x := fun row h =>
    hrows row (by unfold CHPR.commitRows; simp [h])
  have hrowsD : ∀ row ∈ r.downtimeRows, row.Sat x := fun row h =>
    hrows row (by unfold CHPR.commitRows; simp [h])
  obtain ⟨c6, c7⟩ := (P_down r x (fn on) hon').1 hrowsD
  have c8 : 0 < r.tao → ∀ t, t < r.D - r.tao → t < r.T → fn on t = false := by
    by_cases hD : 1 < r.D
    · exact ((P_bon r x (fn on) hwf (hwf.hD hD) hon').1 (hbon (hwf.hD hD))).2
    · intro h0 t ht; omega
  by_cases hs : r.incStart = true
  · let stf : Nat → Bool := fun t => decide (x (r.layout.start t) = 1)
    have hst : ∀ t, t < r.T → x (r.layout.start t) = b2r (stf t) := by
      intro t ht
      rcases h01 hs t ht with h | h
      · have : stf t = false := by
          show decide (x (r.layout.start t) = 1) = false
          rw [h]; simp
        rw [this, h]; rfl
      · have : stf t = true := by
          show decide (x (r.layout.start t) = 1) = true
          rw [h]; simp
        rw [this, h]; rfl
    obtain ⟨c1, c2⟩ := (P_start r x (fn on) stf hwf hs hon' hst).1 hrowsS
    have c3 := (P_run r x (fn on) stf hs hon' hst).1 hrowsR
    obtain ⟨c4, _⟩ := (P_bon r x (fn on) hwf (hwf.hso hs) hon').1 (hbon (hwf.hso hs))
    exact rowsF_imp_specF (ucp r) r.T (fn on) stf ⟨c1, c2, c3, c4, c6, c7, c8⟩
  · have hR : r.R ≤ 1 := by
      apply Nat.le_of_not_lt; intro h; exact hs (hwf.hR h)
    exact specF_of_R_le_one (ucp r) r.T (fn on) hR c6 c7 c8

theorem spec_imp_commit_feasible (r : CHPR) (hwf : CommitWF r) (on : List Bool) (hlen : on.length = r.T) :
    MinUpDown (ucp r) on → CommitFeasible r on := by
  intro h
  unfold MinUpDown at h; rw [hlen] at h
  obtain ⟨c1, c2, c3, c4, c6, c7, c8⟩ := specF_imp_rowsF (ucp r) r.T (fn on) h
  let stf := startOf (ucp r) r.T (fn on)
  let o := r.layout.onIdx
  let x : Vec := fun j =>
    if o ≤ j ∧ j < o + r.T then b2r (fn on (j - o))
    else if o + r.T ≤ j ∧ j < o + r.T + r.T then b2r (stf (j - o - r.T)) else 0
  have hon : ∀ t, t < r.T → x (r.layout.on t) = b2r (fn on t) := by
    intro t ht
    have e1 : r.layout.on t = o + t := rfl
    rw [e1]
    show (if o ≤ o + t ∧ o + t < o + r.T then b2r (fn on (o + t - o)) else _) = _
    rw [if_pos ⟨by omega, by omega⟩, Nat.add_sub_cancel_left]
  have hst : ∀ t, t < r.T → x (r.layout.start t) = b2r (stf t) := by
    intro t ht
    have e2 : r.layout.start t = o + r.T + t := rfl
    rw [e2]
    show (if o ≤ o + r.T + t ∧ o + r.T + t < o + r.T then _
      else if o + r.T ≤ o + r.T + t ∧ o + r.T + t < o + r.T + r.T then b2r (stf (o + r.T + t - o - r.T)) else _) = _
    rw [if_neg (by omega), if_pos ⟨by omega, by omega⟩]
    have : o + r.T + t - o - r.T = t := by omega
    rw [this]
  refine ⟨x, hon, ?_, ?_, ?_, ?_⟩
  · intro _ t ht; rw [hst t ht]; exact b2r_cases _
  · intro row hrow
    unfold CHPR.commitRows at hrow
    rcases List.mem_append.1 hrow with hrow | hrow
    · rcases List.mem_append.1 hrow with hrow | hrow
      · have hs := ((mem_startRows r row).1 hrow).1
        exact (P_start r x (fn on) stf hwf hs hon hst).2 ⟨c1, c2⟩ row hrow
      · have hs := ((mem_runtimeRows r row).1 hrow).1
        exact (P_run r x (fn on) stf hs hon hst).2 c3 row hrow
    · exact (P_down r x (fn on) hon).2 ⟨c6, c7⟩ row hrow
  · intro ho; exact (P_bon r x (fn on) hwf ho hon).2 ⟨c4, c8⟩
  · intro hs; exact P_bst r x stf hwf hs hst

theorem commit_rows_iff_spec (r : CHPR) (hwf : CommitWF r) (on : List Bool) (hlen : on.length = r.T) :
    CommitFeasible r on ↔ MinUpDown (ucp r) on :=
  ⟨commit_feasible_imp_spec r hwf on hlen, spec_imp_commit_feasible r hwf on hlen⟩

/-! ## the hypotheses are satisfiable on a non-trivial instance
(T = 3, R = 2, D = 2, already off for 1 step, no heat node) -/
def exBase : AssetProblem :=
  { name := "a", nodes := ["n"], c := [0, 0, 0], l := [0, 0, 0], u := [1, 1, 1], rows := [],
    mapping := [default, default, default] }

def exR : CHPR :=
  { (default : CHPR) with
    T := 3, idx := [0, 1, 2], base := exBase, heat := false, R := 2, D := 2, tar := 0, tao := 1,
    incOn := true, incStart := true }

example : CommitWF exR :=
  { hT := (by decide), hl := (by decide), hu := (by decide), hc := (by decide), hm := (by decide),
    hd := (by intro h; cases h), hR := fun _ => rfl, hD := fun _ => rfl, hso := fun _ => rfl }

example : MinUpDown (ucp exR) [false, true, true] ∧ ¬ MinUpDown (ucp exR) [true, true, false] ∧
    ¬ MinUpDown (ucp exR) [false, true, false] := by decide

end EAO.CHPCommit

/-
`#print axioms` (scratch file importing this module):
'EAO.CHPCommit.commit_rows_iff_spec' depends on axioms: [propext, Classical.choice, Quot.sound]
(same for commit_feasible_imp_spec, spec_imp_commit_feasible)
-/
