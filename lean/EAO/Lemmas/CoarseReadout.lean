import EAO.Model.CoarseStorage
import EAO.Model.Assemble
import EAO.Lemmas.StorageReadout
import EAO.Lemmas.CoarseStorage
/-! helper lemmas for `EAO/Properties/C05Coarse.lean`: the read-outs of a storage with a coarse frequency
    (`fillIncCoarse`, `fillLevelCoarse` of `EAO/Model/CoarseStorage.lean`; `chargeOut`, `dischargeOut` of
    `EAO/Model/Storage.lean`) applied to a PORTFOLIO mapping built by `assemble` only see the storage's own mapping
    rows, shifted by the storage's offset; they only read the variables named in the mapping; the variables named in
    the mapping of a coarse storage are its own; and the charge / discharge columns on the extended mapping of a coarse
    storage as sums over its fine steps. -/
namespace EAO.CoarseReadout
open EAO EAO.Storage EAO.StorageReadout EAO.CoarseBuild EAO.CoarseStorage

/-! ### the fill-level read-out of a coarse storage on an embedded mapping -/

/-- the row filter of `fillIncCoarse` -/
def fcSel (name : String) (t : Nat) (m : MapRow) : Bool := m.asset == name && m.kind == .d && m.step == t

theorem fcSel_shift (name : String) (t : Nat) (o : Nat) (m : MapRow) : fcSel name t (m.shift o) = fcSel name t m := rfl

theorem fcSel_other (name : String) (t : Nat) (m : MapRow) (h : m.asset ≠ name) : fcSel name t m = false := by
  unfold fcSel
  have : (m.asset == name) = false := by simpa using h
  rw [this]
  rfl

/-- **fill-level increment of a coarse storage, embedded**: on the mapping of a portfolio in which no other asset's
    rows carry the storage's name, `fillIncCoarse` is `fillIncCoarse` on the asset's own mapping and own slice -/
theorem fillIncCoarse_embedded (p : StorageP) (cg : CoarseGrid) (dtF : List Rat) (pre suf : List AssetProblem)
    (a : AssetProblem) (gridI : List Nat) (skip : List String)
    (hoth : ∀ b ∈ pre ++ suf, ∀ m ∈ b.mapping, m.asset ≠ p.name) (x : Vec) (t : Nat) :
    fillIncCoarse p (assemble (pre ++ a :: suf) gridI skip).mapping cg dtF x t
      = fillIncCoarse p a.mapping cg dtF (slice (offsetOf pre) x) t := by
  unfold fillIncCoarse
  congr 1
  show ((((assemble (pre ++ a :: suf) gridI skip).mapping.filter (fcSel p.name t))).map _).sum
    = ((a.mapping.filter (fcSel p.name t)).map _).sum
  rw [filter_assemble (fcSel p.name t) (fcSel_shift p.name t) pre suf a gridI skip
    (fun b hb m hm => fcSel_other p.name t m (hoth b hb m hm)), List.map_map]
  rfl

theorem fillLevelCoarse_embedded (p : StorageP) (cg : CoarseGrid) (dtF : List Rat) (pre suf : List AssetProblem)
    (a : AssetProblem) (gridI : List Nat) (skip : List String)
    (hoth : ∀ b ∈ pre ++ suf, ∀ m ∈ b.mapping, m.asset ≠ p.name) (x : Vec) (Tfull : Nat) :
    fillLevelCoarse p (assemble (pre ++ a :: suf) gridI skip).mapping cg dtF Tfull x
      = fillLevelCoarse p a.mapping cg dtF Tfull (slice (offsetOf pre) x) := by
  unfold fillLevelCoarse
  have : fillIncCoarse p (assemble (pre ++ a :: suf) gridI skip).mapping cg dtF x
      = fillIncCoarse p a.mapping cg dtF (slice (offsetOf pre) x) := by
    funext t
    exact fillIncCoarse_embedded p cg dtF pre suf a gridI skip hoth x t
  rw [this]

/-! ### the read-out only reads the variables named in the mapping -/

theorem fillIncCoarse_congr (p : StorageP) (M : List MapRow) (cg : CoarseGrid) (dtF : List Rat) (n : Nat)
    (hM : ∀ m ∈ M, m.var < n) (y y' : Vec) (h : ∀ j, j < n → y j = y' j) (t : Nat) :
    fillIncCoarse p M cg dtF y t = fillIncCoarse p M cg dtF y' t := by
  unfold fillIncCoarse
  congr 2
  apply List.map_congr_left
  intro m hm
  rw [h m.var (hM m (List.mem_filter.mp hm).1)]

theorem fillLevelCoarse_congr (p : StorageP) (M : List MapRow) (cg : CoarseGrid) (dtF : List Rat) (n : Nat)
    (hM : ∀ m ∈ M, m.var < n) (y y' : Vec) (h : ∀ j, j < n → y j = y' j) (Tfull : Nat) :
    fillLevelCoarse p M cg dtF Tfull y = fillLevelCoarse p M cg dtF Tfull y' := by
  unfold fillLevelCoarse
  have : fillIncCoarse p M cg dtF y = fillIncCoarse p M cg dtF y' := by
    funext t; exact fillIncCoarse_congr p M cg dtF n hM y y' h t
  rw [this]

/-! ### the mapping of a coarse storage -/

/-- every mapping row of a coarse storage names one of the storage's own variables and carries its name -/
theorem coarse_mapping_var_name {p : StorageP} {cg : CoarseGrid} {dtF : List Rat} {prices : Prices} {fullT : Nat}
    {Pc : AssetProblem} (h : buildCoarseStorage p cg dtF prices fullT = .ok Pc) :
    ∀ m ∈ Pc.mapping, m.var < Pc.n ∧ m.asset = p.name := by
  intro m hm
  by_cases hne : cg.grid.dt.length = 0
  · unfold buildCoarseStorage at h
    rw [if_pos hne] at h
    cases h
    simp at hm
  · obtain ⟨price, bl, _, _, _, rfl⟩ := buildCoarseStorage_ok h hne
    have hm' : m ∈ (Storage.mapping p cg.grid cg.grid.T).flatMap (extendRow cg dtF) := hm
    obtain ⟨r, hr, hmr⟩ := List.mem_flatMap.mp hm'
    obtain ⟨_, hasset, hvar, _⟩ := extendRow_keeps cg dtF r m hmr
    have hw := storage_mapping_wf p cg.grid cg.grid.T r hr
    refine ⟨?_, by rw [hasset]; exact hw.1⟩
    show m.var < (costVec p cg.grid cg.grid.T _).length
    rw [costVec_length, hvar]
    exact hw.2.1

/-- one bound pair per variable -/
theorem coarse_bounds_len {p : StorageP} {cg : CoarseGrid} {dtF : List Rat} {prices : Prices} {fullT : Nat}
    {Pc : AssetProblem} (h : buildCoarseStorage p cg dtF prices fullT = .ok Pc) :
    Pc.l.length = Pc.n ∧ Pc.u.length = Pc.n := by
  by_cases hne : cg.grid.dt.length = 0
  · unfold buildCoarseStorage at h
    rw [if_pos hne] at h
    cases h
    exact ⟨rfl, rfl⟩
  · obtain ⟨price, bl, _, _, _, rfl⟩ := buildCoarseStorage_ok h hne
    constructor
    · show (lowerVec p cg.grid cg.grid.T).length = (costVec p cg.grid cg.grid.T _).length
      rw [lowerVec_length, costVec_length]
    · show (upperVec p cg.grid cg.grid.T).length = (costVec p cg.grid cg.grid.T _).length
      rw [upperVec_length, costVec_length]

/-! ### charge / discharge columns on the extended mapping -/

section charge
variable {ref : Grid} {cg : CoarseGrid}

/-- on the extended mapping of a coarse storage the node test of `chargeOut` / `dischargeOut` is always passed by
    the dispatch rows: the filter is the one of `fillIncCoarse` -/
theorem cdSel_extended (p : StorageP) (hn : p.nodes ≠ []) (dtF : List Rat) (t : Nat) :
    ((Storage.mapping p cg.grid cg.grid.T).flatMap (extendRow cg dtF)).filter (cdSel p t)
      = ((Storage.mapping p cg.grid cg.grid.T).flatMap (extendRow cg dtF)).filter (fcSel p.name t) := by
  apply List.filter_congr
  intro m hm
  obtain ⟨r, hr, hmr⟩ := List.mem_flatMap.mp hm
  obtain ⟨hkind, _, _, hnode⟩ := extendRow_keeps cg dtF r m hmr
  rw [cdSel_eq]
  unfold fcSel
  by_cases hk : m.kind = .d
  · have hok : nodeOk p m.node = true := by
      rw [hnode]
      have hin := nodeIn_ok p hn
      have hout := nodeOut_ok p hn
      unfold Storage.mapping at hr
      rcases List.mem_append.mp hr with hr | hr
      · rcases List.mem_append.mp hr with hr | hr
        · unfold dispMap at hr
          by_cases hs : sep p = true
          · simp only [hs, if_true, List.mem_append, List.mem_map] at hr
            rcases hr with ⟨k, _, rfl⟩ | ⟨k, _, rfl⟩
            · exact hin
            · exact hout
          · simp only [hs, Bool.false_eq_true, if_false, List.mem_map] at hr
            obtain ⟨k, _, rfl⟩ := hr
            exact hin
        · exfalso
          split at hr
          · exact boolMap_kind _ _ _ _ _ r hr (by rw [← hkind]; exact hk)
          · simp at hr
      · exfalso
        split at hr
        · exact boolMap_kind _ _ _ _ _ r hr (by rw [← hkind]; exact hk)
        · simp at hr
    rw [hok, Bool.and_true]
  · have : (m.kind == VarKind.d) = false := by simpa using hk
    simp [this]

/-- sum of `c (z var) · factor` over the rows of the extended mapping booked at full-grid step `t`, as a sum over the
    fine steps of the storage: the fine steps that are `t` contribute `c` of the variable(s) of their coarse step
    times the weight `dt_fine/dt_coarse` -/
theorem sum_extended_step (hwf : cg.WellFormed ref.dt) (p : StorageP) (hn : p.nodes ≠ []) (z : Vec) (t : Nat)
    (c : Rat → Rat) :
    ((((Storage.mapping p cg.grid cg.grid.T).flatMap (extendRow cg ref.dt)).filter (fcSel p.name t)).map
        fun m => c (z m.var) * m.factor).sum
      = rsum cg.owner.length (fun k => if cg.minor.flatten.getD k 0 = t
          then (if sep p then c (z (cg.owner.getD k 0)) + c (z (cg.grid.T + cg.owner.getD k 0))
                else c (z (cg.owner.getD k 0))) * (cg.weights ref.dt).getD k 0 else 0) := by
  unfold Storage.mapping
  rw [List.flatMap_append, List.flatMap_append, sum_filter_append, sum_filter_append]
  have hb : ∀ M : List MapRow, (∀ m ∈ M, m.kind ≠ .d) →
      (((M.flatMap (extendRow cg ref.dt)).filter (fcSel p.name t)).map
        (fun m => c (z m.var) * m.factor)).sum = 0 := by
    intro M hM
    exact sum_nondisp p.name t _ (flatMap_extend_kind cg ref.dt M hM) _
  have hb1 := hb (if hasNS p then boolMap p cg.grid cg.grid.T (2 * cg.grid.T) "bool_1" else []) (by
    split
    · exact boolMap_kind _ _ _ _ _
    · intro m hm; simp at hm)
  have hb2 := hb (if p.maxStoreDuration.isSome then boolMap p cg.grid cg.grid.T (mHold p cg.grid.T) "bool_2" else []) (by
    split
    · exact boolMap_kind _ _ _ _ _
    · intro m hm; simp at hm)
  rw [hb1, hb2]
  obtain ⟨nIn, nOut, _, _, hC⟩ := dispMap_eq_genBlocks p cg.grid cg.grid.T hwf.ok.1 hn
  rw [hC]
  have hz : ∀ a b : Rat, a + 0 + 0 = a := fun a b => by grind
  by_cases hs : sep p = true
  · simp only [hs, if_true]
    rw [List.flatMap_append, sum_filter_append, extend_genBlock_cg hwf, extend_genBlock_cg hwf]
    have e1 := block_sum_at (ref := ref) (cg := cg) p.name nIn "disp_in" (cg.grid.T * 0) t (fun v => c (z v))
    have e2 := block_sum_at (ref := ref) (cg := cg) p.name nOut "disp_out" (cg.grid.T * 1) t (fun v => c (z v))
    unfold fcSel
    rw [e1, e2, hz _ 0, ← rsum_add_fn]
    apply rsum_congr
    intro k _
    simp only [Nat.mul_zero, Nat.zero_add, Nat.mul_one]
    split <;> grind
  · simp only [hs, Bool.false_eq_true, if_false]
    rw [extend_genBlock_cg hwf]
    have e1 := block_sum_at (ref := ref) (cg := cg) p.name nIn "disp" (cg.grid.T * 0) t (fun v => c (z v))
    unfold fcSel
    rw [e1, hz _ 0]
    apply rsum_congr
    intro k _
    simp only [Nat.mul_zero, Nat.zero_add]

/-- **charge / discharge columns of a coarse storage on its own mapping**, all options, any `z`: at full-grid step
    `t` the columns show, for every fine step of the storage that is `t`, what the code reports for the coarse step
    (`repCharge` / `repDischarge`) times `dt_fine/dt_coarse` -/
theorem charge_coarse_formula (hwf : cg.WellFormed ref.dt) (p : StorageP) (hn : p.nodes ≠ []) (z : Vec) (t : Nat) :
    chargeOut p ((Storage.mapping p cg.grid cg.grid.T).flatMap (extendRow cg ref.dt)) z t
      = rsum cg.owner.length (fun k => if cg.minor.flatten.getD k 0 = t
          then repCharge p cg.grid.T z (cg.owner.getD k 0) * (cg.weights ref.dt).getD k 0 else 0) ∧
    dischargeOut p ((Storage.mapping p cg.grid cg.grid.T).flatMap (extendRow cg ref.dt)) z t
      = rsum cg.owner.length (fun k => if cg.minor.flatten.getD k 0 = t
          then repDischarge p cg.grid.T z (cg.owner.getD k 0) * (cg.weights ref.dt).getD k 0 else 0) := by
  constructor
  · show (((((Storage.mapping p cg.grid cg.grid.T).flatMap (extendRow cg ref.dt)).filter (cdSel p t))).map
        fun m => posPart (-(z m.var)) * m.factor).sum = _
    rw [cdSel_extended p hn ref.dt t]
    exact sum_extended_step hwf p hn z t (fun v => posPart (-v))
  · show (((((Storage.mapping p cg.grid cg.grid.T).flatMap (extendRow cg ref.dt)).filter (cdSel p t))).map
        fun m => negPart (-(z m.var)) * m.factor).sum = _
    rw [cdSel_extended p hn ref.dt t]
    exact sum_extended_step hwf p hn z t (fun v => negPart (-v))

/-- with the minor steps in increasing order, exactly one fine step of the storage is the full-grid step of fine step
    `k` -/
theorem rsum_pick (hinc : cg.minor.flatten.Pairwise (· < ·)) (k : Nat) (hk : k < cg.owner.length) (f : Nat → Rat) :
    rsum cg.owner.length (fun j => if cg.minor.flatten.getD j 0 = cg.minor.flatten.getD k 0 then f j else 0) = f k := by
  have hI := idxInc_minorGrid (ref := cg.grid) hinc
  have hidx : ∀ j, idxAt (minorGrid cg.grid cg) j = cg.minor.flatten.getD j 0 := fun _ => rfl
  rw [rsum_congr cg.owner.length _ (fun j => if j = k then f j else 0) (fun j hj => ?_), rsum_single _ k hk]
  by_cases hjk : j = k
  · subst hjk; simp
  · have hne : cg.minor.flatten.getD j 0 ≠ cg.minor.flatten.getD k 0 := by
      rcases Nat.lt_or_gt_of_ne hjk with h | h
      · have := hI j k h hk
        rw [hidx, hidx] at this
        omega
      · have := hI k j h hj
        rw [hidx, hidx] at this
        omega
    rw [if_neg hne, if_neg hjk]

/-- **charge / discharge at the full-grid step of fine step `k`** (minor steps in increasing order): what the code
    reports for the coarse step of `k`, times `dt_fine/dt_coarse` -/
theorem charge_coarse_at (hwf : cg.WellFormed ref.dt) (hinc : cg.minor.flatten.Pairwise (· < ·)) (p : StorageP)
    (hn : p.nodes ≠ []) (z : Vec) (k : Nat) (hk : k < cg.owner.length) :
    chargeOut p ((Storage.mapping p cg.grid cg.grid.T).flatMap (extendRow cg ref.dt)) z (cg.minor.flatten.getD k 0)
      = repCharge p cg.grid.T z (cg.owner.getD k 0) * (cg.weights ref.dt).getD k 0 ∧
    dischargeOut p ((Storage.mapping p cg.grid cg.grid.T).flatMap (extendRow cg ref.dt)) z (cg.minor.flatten.getD k 0)
      = repDischarge p cg.grid.T z (cg.owner.getD k 0) * (cg.weights ref.dt).getD k 0 := by
  obtain ⟨h1, h2⟩ := charge_coarse_formula hwf p hn z (cg.minor.flatten.getD k 0)
  rw [h1, h2]
  exact ⟨rsum_pick hinc k hk _, rsum_pick hinc k hk _⟩

/-- at a full-grid step that is no fine step of the storage both columns are 0 -/
theorem charge_coarse_off (hwf : cg.WellFormed ref.dt) (p : StorageP) (hn : p.nodes ≠ []) (z : Vec) (t : Nat)
    (ht : ∀ k, k < cg.owner.length → cg.minor.flatten.getD k 0 ≠ t) :
    chargeOut p ((Storage.mapping p cg.grid cg.grid.T).flatMap (extendRow cg ref.dt)) z t = 0 ∧
    dischargeOut p ((Storage.mapping p cg.grid cg.grid.T).flatMap (extendRow cg ref.dt)) z t = 0 := by
  obtain ⟨h1, h2⟩ := charge_coarse_formula hwf p hn z t
  rw [h1, h2]
  exact ⟨rsum_eq_zero _ _ (fun k hk => if_neg (ht k hk)), rsum_eq_zero _ _ (fun k hk => if_neg (ht k hk))⟩

theorem posPart_scale (a w : Rat) (hw : 0 < w) : posPart (-(a * w)) = posPart (-a) * w := by
  unfold posPart
  by_cases h : 0 ≤ -a
  · have h1 : 0 ≤ -(a * w) := by
      have := Rat.mul_nonneg h (Rat.le_of_lt hw)
      grind
    rw [if_pos h, if_pos h1]; grind
  · have ha : 0 < a := by grind
    have h0 := Rat.mul_pos ha hw
    have h1 : ¬ 0 ≤ -(a * w) := by grind
    rw [if_neg h, if_neg h1]; grind

theorem negPart_scale (a w : Rat) (hw : 0 < w) : negPart (-(a * w)) = negPart (-a) * w := by
  unfold negPart
  by_cases h : -a ≤ 0
  · have h1 : -(a * w) ≤ 0 := by
      have ha : 0 ≤ a := by grind
      have := Rat.mul_nonneg ha (Rat.le_of_lt hw)
      grind
    rw [if_pos h, if_pos h1]; grind
  · have ha : 0 < -a := by grind
    have h0 := Rat.mul_pos ha hw
    have h1 : ¬ -(a * w) ≤ 0 := by grind
    rw [if_neg h, if_neg h1]; grind

/-- what the code reports as charge / discharge for a fine step of the expanded schedule = what it reports for the
    coarse step, times the weight -/
theorem repCharge_expand (hwf : cg.WellFormed ref.dt) (p : StorageP) {z x : Vec} (h : IsExpansion ref cg z x) (k : Nat)
    (hk : k < cg.owner.length) :
    repCharge p cg.owner.length x k = repCharge p cg.grid.T z (cg.owner.getD k 0) * (cg.weights ref.dt).getD k 0 ∧
    repDischarge p cg.owner.length x k
      = repDischarge p cg.grid.T z (cg.owner.getD k 0) * (cg.weights ref.dt).getD k 0 := by
  have hw := weight_pos hwf k hk
  unfold repCharge repDischarge
  rw [isExp_b0 h k hk, isExp_b1 h k hk, posPart_scale _ _ hw, posPart_scale _ _ hw, negPart_scale _ _ hw,
    negPart_scale _ _ hw]
  constructor <;> split <;> grind

end charge

end EAO.CoarseReadout
