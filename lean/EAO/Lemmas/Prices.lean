import EAO.Model.Prices
import EAO.Model.Grid
/-!
# EAO.Lemmas.Prices — helper lemmas about the model of `Timegrid.prices_to_grid` (`EAO/Model/Prices.lean`)

Core Lean only.  Main result: for a column whose rows are sorted by instant (distinct instants) the whole pipeline
union → interpolation → selection is the pointwise function `p ↦ npInterp (definedRows rows) p`
(`gridColumn_eq`); everything else is a statement about `npInterp` on a sorted list of defined rows.
-/
namespace EAO.Prices
open EAO

/-- rows sorted by instant, distinct instants -/
abbrev Sorted (rows : List PRow) : Prop := rows.Pairwise fun a b => a.1 < b.1
/-- defined rows sorted by instant, distinct instants -/
abbrev SortedK (known : List (Int × Rat)) : Prop := known.Pairwise fun a b => a.1 < b.1

scoped instance exceptDecEqPrices {ε α} [DecidableEq ε] [DecidableEq α] : DecidableEq (Except ε α)
  | .ok a, .ok b => if h : a = b then isTrue (by rw [h]) else isFalse (by intro e; cases e; exact h rfl)
  | .error a, .error b => if h : a = b then isTrue (by rw [h]) else isFalse (by intro e; cases e; exact h rfl)
  | .ok _, .error _ => isFalse (by intro e; cases e)
  | .error _, .ok _ => isFalse (by intro e; cases e)

/-! ## defined rows -/

theorem mem_definedRows {rows : List PRow} {p : Int} {v : Rat} :
    (p, v) ∈ definedRows rows ↔ (p, some v) ∈ rows := by
  unfold definedRows
  rw [List.mem_filterMap]
  constructor
  · rintro ⟨⟨t, o⟩, hm, h⟩
    cases o with
    | none => simp at h
    | some u =>
      simp at h
      obtain ⟨rfl, rfl⟩ := h
      exact hm
  · intro h
    exact ⟨(p, some v), h, by simp⟩

theorem sortedK_definedRows {rows : List PRow} (h : Sorted rows) : SortedK (definedRows rows) := by
  unfold definedRows
  refine List.Pairwise.filterMap _ ?_ h
  intro a a' hlt b hb b' hb'
  cases ha : a.2 with
  | none => simp [ha] at hb
  | some u =>
    cases ha' : a'.2 with
    | none => simp [ha'] at hb'
    | some u' =>
      simp [ha] at hb
      simp [ha'] at hb'
      subst hb; subst hb'
      exact hlt

theorem definedRows_cons_none (t : Int) (rows : List PRow) : definedRows ((t, none) :: rows) = definedRows rows := by
  simp [definedRows]

theorem definedRows_cons (r : PRow) (rows : List PRow) :
    definedRows (r :: rows) = (match r.2 with | some v => [(r.1, v)] | none => []) ++ definedRows rows := by
  obtain ⟨t, o⟩ := r
  cases o <;> simp [definedRows]

/-! ## one grid point joins the column -/

theorem definedRows_insertPt (p : Int) (rows : List PRow) : definedRows (insertPt p rows) = definedRows rows := by
  induction rows with
  | nil => simp [insertPt, definedRows]
  | cons r rs ih =>
    unfold insertPt
    split
    · rw [definedRows_cons_none]
    · split
      · rfl
      · rw [definedRows_cons, definedRows_cons, ih]

theorem mem_insertPt {p : Int} {rows : List PRow} {x : PRow} (h : x ∈ insertPt p rows) : x = (p, none) ∨ x ∈ rows := by
  induction rows with
  | nil => simp [insertPt] at h; exact Or.inl h
  | cons r rs ih =>
    unfold insertPt at h
    split at h
    · simp at h
      rcases h with h | h | h
      · exact Or.inl h
      · exact Or.inr (by simp [h])
      · exact Or.inr (by simp [h])
    · split at h
      · exact Or.inr h
      · simp at h
        rcases h with h | h
        · exact Or.inr (by simp [h])
        · rcases ih h with h | h
          · exact Or.inl h
          · exact Or.inr (by simp [h])

theorem mem_insertPt_of_mem {p : Int} {rows : List PRow} {x : PRow} (h : x ∈ rows) : x ∈ insertPt p rows := by
  induction rows with
  | nil => simp at h
  | cons r rs ih =>
    unfold insertPt
    split
    · simp at h ⊢
      rcases h with h | h
      · exact Or.inr (Or.inl h)
      · exact Or.inr (Or.inr h)
    · split
      · exact h
      · simp at h ⊢
        rcases h with h | h
        · exact Or.inl h
        · exact Or.inr (ih h)

theorem mem_insertPt_self (p : Int) (rows : List PRow) : ∃ o, (p, o) ∈ insertPt p rows := by
  induction rows with
  | nil => exact ⟨none, by simp [insertPt]⟩
  | cons r rs ih =>
    unfold insertPt
    split
    · exact ⟨none, by simp⟩
    · split
      · rename_i h
        exact ⟨r.2, by rw [h]; simp⟩
      · obtain ⟨o, ho⟩ := ih
        exact ⟨o, by simp [ho]⟩

theorem sorted_insertPt (p : Int) {rows : List PRow} (h : Sorted rows) : Sorted (insertPt p rows) := by
  induction rows with
  | nil => simp [insertPt, Sorted]
  | cons r rs ih =>
    have hr := List.pairwise_cons.mp h
    unfold insertPt
    split
    · rename_i hlt
      refine List.pairwise_cons.mpr ⟨?_, h⟩
      intro x hx
      simp at hx
      rcases hx with rfl | hx
      · exact hlt
      · exact Int.lt_trans hlt (hr.1 x hx)
    · split
      · exact h
      · rename_i h1 h2
        refine List.pairwise_cons.mpr ⟨?_, ih hr.2⟩
        intro x hx
        rcases mem_insertPt hx with rfl | hx
        · show r.1 < p
          omega
        · exact hr.1 x hx

/-! ## the union with the grid -/

theorem definedRows_mergeRows (rows : List PRow) (pts : List Int) : definedRows (mergeRows rows pts) = definedRows rows := by
  unfold mergeRows
  induction pts generalizing rows with
  | nil => rfl
  | cons p ps ih => rw [List.foldl_cons, ih, definedRows_insertPt]

theorem sorted_mergeRows {rows : List PRow} (pts : List Int) (h : Sorted rows) : Sorted (mergeRows rows pts) := by
  unfold mergeRows
  induction pts generalizing rows with
  | nil => exact h
  | cons p ps ih => rw [List.foldl_cons]; exact ih (sorted_insertPt p h)

theorem mem_mergeRows_of_mem {rows : List PRow} (pts : List Int) {x : PRow} (h : x ∈ rows) : x ∈ mergeRows rows pts := by
  unfold mergeRows
  induction pts generalizing rows with
  | nil => exact h
  | cons p ps ih => rw [List.foldl_cons]; exact ih (mem_insertPt_of_mem h)

theorem mem_mergeRows_pt {rows : List PRow} {pts : List Int} {p : Int} (h : p ∈ pts) : ∃ o, (p, o) ∈ mergeRows rows pts := by
  induction pts generalizing rows with
  | nil => simp at h
  | cons q qs ih =>
    simp at h
    rcases h with rfl | h
    · obtain ⟨o, ho⟩ := mem_insertPt_self p rows
      refine ⟨o, ?_⟩
      show (p, o) ∈ mergeRows (insertPt p rows) qs
      exact mem_mergeRows_of_mem qs ho
    · exact ih (rows := insertPt q rows) h

/-! ## selection of a grid point after the interpolation -/

theorem find_sorted {col : List PRow} (h : Sorted col) {p : Int} {o : Option Rat} (hm : (p, o) ∈ col) :
    col.find? (fun r => r.1 == p) = some (p, o) := by
  induction col with
  | nil => simp at hm
  | cons r rs ih =>
    have hr := List.pairwise_cons.mp h
    simp at hm
    rcases hm with rfl | hm
    · simp
    · have : r.1 < p := hr.1 _ hm
      rw [List.find?_cons_of_neg (by simp; omega)]
      exact ih hr.2 hm

theorem fillRow_fst (valid : List (Int × Rat)) (r : PRow) : (fillRow valid r).1 = r.1 := by
  obtain ⟨t, o⟩ := r
  cases o <;> rfl

theorem locRow_interpolateCol {col : List PRow} (h : Sorted col) {p : Int} {o : Option Rat} (hm : (p, o) ∈ col) :
    locRow (interpolateCol col) p = o.or (npInterp (definedRows col) p) := by
  unfold locRow interpolateCol
  rw [List.find?_map]
  have : ((fun r : PRow => r.1 == p) ∘ fillRow (definedRows col)) = fun r : PRow => r.1 == p := by
    funext r
    simp [Function.comp, fillRow_fst]
  rw [this, find_sorted h hm]
  cases o <;> rfl

/-! ## `np.interp` on sorted defined rows -/

theorem npInterp_knot {known : List (Int × Rat)} (h : SortedK known) {p : Int} {v : Rat} (hm : (p, v) ∈ known) :
    npInterp known p = some v := by
  induction known with
  | nil => simp at hm
  | cons q rest ih =>
    cases rest with
    | nil =>
      simp at hm
      subst hm
      rfl
    | cons r rest' =>
      have hq := List.pairwise_cons.mp h
      simp only [List.mem_cons] at hm
      unfold npInterp
      rcases hm with rfl | hm
      · simp
      · have hlt : q.1 < p := by
          rcases hm with rfl | hm
          · exact hq.1 (p, v) (by simp)
          · exact hq.1 (p, v) (by simp [hm])
        have hge : r.1 ≤ p := by
          rcases hm with rfl | hm
          · exact Int.le_refl _
          · exact Int.le_of_lt ((List.pairwise_cons.mp hq.2).1 _ hm)
        rw [if_neg (by omega), if_neg (by omega)]
        exact ih hq.2 (by simp only [List.mem_cons]; exact hm)

theorem npInterp_eq_none {known : List (Int × Rat)} {p : Int} : npInterp known p = none ↔ known = [] := by
  induction known with
  | nil => simp [npInterp]
  | cons q rest ih =>
    cases rest with
    | nil => simp [npInterp]
    | cons r rest' =>
      unfold npInterp
      split
      · simp
      · split
        · simp
        · simpa using ih

theorem npInterp_left {q : Int × Rat} {rest : List (Int × Rat)} {p : Int} (h : p ≤ q.1) : npInterp (q :: rest) p = some q.2 := by
  cases rest with
  | nil => rfl
  | cons r rest' => unfold npInterp; rw [if_pos h]

theorem npInterp_right {pre : List (Int × Rat)} {q : Int × Rat} {p : Int} (h : SortedK (pre ++ [q])) (hp : q.1 ≤ p) :
    npInterp (pre ++ [q]) p = some q.2 := by
  induction pre with
  | nil => rfl
  | cons a pre' ih =>
    have ha := List.pairwise_cons.mp (show SortedK (a :: (pre' ++ [q])) from h)
    cases hpre : pre' ++ [q] with
    | nil => simp at hpre
    | cons b rest =>
      have hb : b ∈ pre' ++ [q] := by rw [hpre]; simp
      have hab : a.1 < b.1 := ha.1 b hb
      have hbq : b.1 ≤ q.1 := by
        have hs : SortedK (pre' ++ [q]) := ha.2
        rw [hpre] at hs
        by_cases hbq : b = q
        · rw [hbq]; exact Int.le_refl _
        · have hq : q ∈ b :: rest := by rw [← hpre]; simp
          simp only [List.mem_cons] at hq
          rcases hq with hq | hq
          · exact absurd hq.symm hbq
          · exact Int.le_of_lt ((List.pairwise_cons.mp hs).1 q hq)
      show npInterp (a :: (pre' ++ [q])) p = some q.2
      rw [hpre]
      unfold npInterp
      rw [if_neg (by omega), if_neg (by omega), ← hpre]
      exact ih ha.2

/-- the value between two neighbouring defined rows (literal form of `np.interp`) -/
theorem npInterp_segment {pre post : List (Int × Rat)} {q r : Int × Rat} {p : Int}
    (h : SortedK (pre ++ q :: r :: post)) (hq : q.1 ≤ p) (hr : p ≤ r.1) :
    npInterp (pre ++ q :: r :: post) p
      = some ((r.2 - q.2) / ((r.1 - q.1 : Int) : Rat) * ((p - q.1 : Int) : Rat) + q.2) := by
  induction pre with
  | nil =>
    have hqr : q.1 < r.1 := (List.pairwise_cons.mp h).1 r (by simp)
    show npInterp (q :: r :: post) p = _
    unfold npInterp
    by_cases h1 : p ≤ q.1
    · rw [if_pos h1]
      have : p - q.1 = 0 := by omega
      rw [this]
      simp
      grind
    · rw [if_neg h1]
      by_cases h2 : p < r.1
      · rw [if_pos h2]
      · rw [if_neg h2]
        have hpr : p = r.1 := by omega
        rw [npInterp_left (by omega)]
        rw [hpr]
        have hne : ((r.1 - q.1 : Int) : Rat) ≠ 0 := by
          have : (0 : Rat) < ((r.1 - q.1 : Int) : Rat) := Rat.intCast_pos.mpr (by omega)
          exact (Rat.ne_of_lt this).symm
        rw [Rat.div_mul_cancel hne]
        congr 1
        grind
  | cons a pre' ih =>
    have ha := List.pairwise_cons.mp (show SortedK (a :: (pre' ++ q :: r :: post)) from h)
    cases hpre : pre' ++ q :: r :: post with
    | nil => simp at hpre
    | cons b rest =>
      have hb : b ∈ pre' ++ q :: r :: post := by rw [hpre]; simp
      have hab : a.1 < b.1 := ha.1 b hb
      have hbq : b.1 ≤ q.1 := by
        have hs : SortedK (pre' ++ q :: r :: post) := ha.2
        rw [hpre] at hs
        by_cases hbq : b = q
        · rw [hbq]; exact Int.le_refl _
        · have hq' : q ∈ b :: rest := by rw [← hpre]; simp
          simp only [List.mem_cons] at hq'
          rcases hq' with hq' | hq'
          · exact absurd hq'.symm hbq
          · exact Int.le_of_lt ((List.pairwise_cons.mp hs).1 q hq')
      show npInterp (a :: (pre' ++ q :: r :: post)) p = _
      rw [hpre]
      unfold npInterp
      rw [if_neg (by omega), if_neg (by omega), ← hpre]
      exact ih ha.2

/-- the interpolated value lies between the neighbouring values -/
theorem segment_between (v w : Rat) (a b p : Int) (hab : a < b) (ha : a ≤ p) (hb : p ≤ b) :
    let r := (w - v) / ((b - a : Int) : Rat) * ((p - a : Int) : Rat) + v
    (v ≤ w → v ≤ r ∧ r ≤ w) ∧ (w ≤ v → w ≤ r ∧ r ≤ v) := by
  intro r
  have hd : (0 : Rat) < ((b - a : Int) : Rat) := Rat.intCast_pos.mpr (by omega)
  have hdne : ((b - a : Int) : Rat) ≠ 0 := (Rat.ne_of_lt hd).symm
  have he0 : (0 : Rat) ≤ ((p - a : Int) : Rat) := Rat.intCast_nonneg.mpr (by omega)
  have hed : ((p - a : Int) : Rat) ≤ ((b - a : Int) : Rat) := Rat.intCast_le_intCast.mpr (by omega)
  have hinv : (0 : Rat) < ((b - a : Int) : Rat)⁻¹ := Rat.inv_pos.mpr hd
  -- t = (p-a)/(b-a) in [0,1]
  have ht0 : (0 : Rat) ≤ ((p - a : Int) : Rat) * ((b - a : Int) : Rat)⁻¹ := Rat.mul_nonneg he0 (Rat.le_of_lt hinv)
  have ht1 : ((p - a : Int) : Rat) * ((b - a : Int) : Rat)⁻¹ ≤ 1 := by
    have := Rat.mul_le_mul_of_nonneg_right hed (Rat.le_of_lt hinv)
    rwa [Rat.mul_inv_cancel _ hdne] at this
  have hr : r = v + (w - v) * (((p - a : Int) : Rat) * ((b - a : Int) : Rat)⁻¹) := by
    show (w - v) / ((b - a : Int) : Rat) * ((p - a : Int) : Rat) + v = _
    rw [Rat.div_def]
    grind
  constructor
  · intro hvw
    have h0 : (0 : Rat) ≤ w - v := by grind
    have h1 := Rat.mul_nonneg h0 ht0
    have h2 := Rat.mul_le_mul_of_nonneg_left ht1 h0
    rw [hr]
    constructor <;> grind
  · intro hwv
    have h0 : (0 : Rat) ≤ v - w := by grind
    have h1 := Rat.mul_nonneg h0 ht0
    have h2 := Rat.mul_le_mul_of_nonneg_left ht1 h0
    rw [hr]
    constructor <;> grind

/-! ## the column on the grid is pointwise -/

theorem gridColumn_eq {rows : List PRow} (pts : List Int) (h : Sorted rows) :
    gridColumn pts rows = pts.map (npInterp (definedRows rows)) := by
  unfold gridColumn
  apply List.map_congr_left
  intro p hp
  obtain ⟨o, ho⟩ := mem_mergeRows_pt (rows := rows) hp
  rw [locRow_interpolateCol (sorted_mergeRows pts h) ho, definedRows_mergeRows]
  cases o with
  | none => rfl
  | some v =>
    have : (p, v) ∈ definedRows rows := by
      rw [← definedRows_mergeRows rows pts]
      exact mem_definedRows.mpr ho
    exact (npInterp_knot (sortedK_definedRows h) this).symm

theorem gridColumn_nil (rows : List PRow) : gridColumn [] rows = [] := rfl

theorem length_gridColumn (pts : List Int) (rows : List PRow) : (gridColumn pts rows).length = pts.length := by
  simp [gridColumn]

/-! ## zipping values onto sorted instants -/

theorem sorted_zip {ts : List Int} (vs : List (Option Rat)) (h : ts.Pairwise (· < ·)) : Sorted (ts.zip vs) := by
  induction ts generalizing vs with
  | nil => simp [Sorted]
  | cons t ts ih =>
    cases vs with
    | nil => simp [Sorted]
    | cons v vs =>
      have ht := List.pairwise_cons.mp h
      rw [List.zip_cons_cons]
      refine List.pairwise_cons.mpr ⟨?_, ih vs ht.2⟩
      intro x hx
      exact ht.1 _ (List.of_mem_zip hx).1

theorem nodup_zip {ts : List Int} (vs : List (Option Rat)) (h : ts.Nodup) : ((ts.zip vs).map (·.1)).Nodup := by
  induction ts generalizing vs with
  | nil => simp
  | cons t ts ih =>
    cases vs with
    | nil => simp
    | cons v vs =>
      have ht := List.nodup_cons.mp h
      rw [List.zip_cons_cons, List.map_cons]
      refine List.nodup_cons.mpr ⟨?_, ih vs ht.2⟩
      intro hm
      obtain ⟨x, hx, hxt⟩ := List.mem_map.mp hm
      have := (List.of_mem_zip hx).1
      rw [hxt] at this
      exact ht.1 this

theorem mem_zip_map {ts : List Int} {f : Int → Option Rat} {p : Int} (hp : p ∈ ts) : (p, f p) ∈ ts.zip (ts.map f) := by
  induction ts with
  | nil => simp at hp
  | cons t ts ih =>
    simp only [List.map_cons, List.zip_cons_cons, List.mem_cons] at hp ⊢
    rcases hp with rfl | hp
    · exact Or.inl rfl
    · exact Or.inr (ih hp)

theorem definedRows_zip_none {ts : List Int} {f : Int → Option Rat} (h : ∀ p ∈ ts, f p = none) :
    definedRows (ts.zip (ts.map f)) = [] := by
  induction ts with
  | nil => rfl
  | cons t ts ih =>
    simp only [List.map_cons, List.zip_cons_cons]
    rw [definedRows_cons, ih (fun p hp => h p (by simp [hp]))]
    simp [h t (by simp)]

/-- gridding the gridded column again changes nothing -/
theorem gridColumn_idem {rows : List PRow} {pts : List Int} (hp : pts.Pairwise (· < ·)) (h : Sorted rows) :
    gridColumn pts (pts.zip (gridColumn pts rows)) = gridColumn pts rows := by
  rw [gridColumn_eq pts h]
  rw [gridColumn_eq pts (sorted_zip _ hp)]
  apply List.map_congr_left
  intro p hpm
  cases hv : npInterp (definedRows rows) p with
  | some v =>
    have hm : (p, some v) ∈ pts.zip (pts.map (npInterp (definedRows rows))) := by
      have := mem_zip_map (f := npInterp (definedRows rows)) hpm
      rwa [hv] at this
    exact npInterp_knot (sortedK_definedRows (sorted_zip _ hp)) (mem_definedRows.mpr hm)
  | none =>
    have hk : definedRows rows = [] := npInterp_eq_none.mp hv
    rw [definedRows_zip_none]
    · rfl
    · intro q _
      rw [hk]; rfl

/-! ## masks -/

theorem sel_map {α β} (f : α → β) (m : List Bool) (l : List α) : sel m (l.map f) = (sel m l).map f := by
  induction m generalizing l with
  | nil => cases l <;> simp [sel]
  | cons b m ih =>
    cases l with
    | nil => cases b <;> simp [sel]
    | cons x xs => cases b <;> simp [sel, ih]

/-! ## sorting the rows -/

theorem mem_insertRow {r x : PRow} {rows : List PRow} : x ∈ insertRow r rows ↔ x = r ∨ x ∈ rows := by
  induction rows with
  | nil => simp [insertRow]
  | cons s ss ih =>
    unfold insertRow
    split
    · simp
    · simp [ih]
      constructor
      · rintro (h | h | h)
        · exact Or.inr (Or.inl h)
        · exact Or.inl h
        · exact Or.inr (Or.inr h)
      · rintro (h | h | h)
        · exact Or.inr (Or.inl h)
        · exact Or.inl h
        · exact Or.inr (Or.inr h)

theorem insertRow_perm (r : PRow) (rows : List PRow) : (insertRow r rows).Perm (r :: rows) := by
  induction rows with
  | nil => simp [insertRow]
  | cons s ss ih =>
    unfold insertRow
    split
    · exact List.Perm.refl _
    · exact (List.Perm.cons s ih).trans (List.Perm.swap r s ss)

theorem sortRows_perm (rows : List PRow) : (sortRows rows).Perm rows := by
  induction rows with
  | nil => exact List.Perm.refl _
  | cons r rs ih =>
    show (insertRow r (sortRows rs)).Perm (r :: rs)
    exact (insertRow_perm r _).trans (List.Perm.cons r ih)

theorem sorted_insertRow {r : PRow} {rows : List PRow} (h : Sorted rows) (hr : ∀ x ∈ rows, x.1 ≠ r.1) :
    Sorted (insertRow r rows) := by
  induction rows with
  | nil => simp [insertRow, Sorted]
  | cons s ss ih =>
    have hs := List.pairwise_cons.mp h
    unfold insertRow
    split
    · rename_i hlt
      refine List.pairwise_cons.mpr ⟨?_, h⟩
      intro x hx
      simp only [List.mem_cons] at hx
      rcases hx with rfl | hx
      · exact hlt
      · exact Int.lt_trans hlt (hs.1 x hx)
    · rename_i hnlt
      have hne : s.1 ≠ r.1 := hr s (by simp)
      refine List.pairwise_cons.mpr ⟨?_, ih hs.2 (fun x hx => hr x (by simp [hx]))⟩
      intro x hx
      rcases mem_insertRow.mp hx with rfl | hx
      · omega
      · exact hs.1 x hx

theorem sorted_sortRows {rows : List PRow} (h : (rows.map (·.1)).Nodup) : Sorted (sortRows rows) := by
  induction rows with
  | nil => simp [sortRows, Sorted]
  | cons r rs ih =>
    rw [List.map_cons] at h
    have hr := List.nodup_cons.mp h
    show Sorted (insertRow r (sortRows rs))
    refine sorted_insertRow (ih hr.2) ?_
    intro x hx heq
    have hx' : x ∈ rs := (sortRows_perm rs).mem_iff.mp hx
    exact hr.1 (by rw [← heq]; exact List.mem_map.mpr ⟨x, hx', rfl⟩)

theorem sortRows_of_sorted {rows : List PRow} (h : Sorted rows) : sortRows rows = rows := by
  induction rows with
  | nil => rfl
  | cons r rs ih =>
    have hr := List.pairwise_cons.mp h
    show insertRow r (sortRows rs) = r :: rs
    rw [ih hr.2]
    cases rs with
    | nil => rfl
    | cons s ss =>
      unfold insertRow
      rw [if_pos (hr.1 s (by simp))]

/-- two sorted lists of rows with the same members are equal -/
theorem sorted_ext {l₁ l₂ : List PRow} (h₁ : Sorted l₁) (h₂ : Sorted l₂) (h : ∀ x, x ∈ l₁ ↔ x ∈ l₂) : l₁ = l₂ := by
  induction l₁ generalizing l₂ with
  | nil =>
    cases l₂ with
    | nil => rfl
    | cons y ys => exact absurd ((h y).mpr (by simp)) (by simp)
  | cons x xs ih =>
    cases l₂ with
    | nil => exact absurd ((h x).mp (by simp)) (by simp)
    | cons y ys =>
      have hx := List.pairwise_cons.mp h₁
      have hy := List.pairwise_cons.mp h₂
      have hxy : x = y := by
        have h1 : x ∈ y :: ys := (h x).mp (by simp)
        have h2 : y ∈ x :: xs := (h y).mpr (by simp)
        simp only [List.mem_cons] at h1 h2
        rcases h1 with h1 | h1
        · exact h1
        · rcases h2 with h2 | h2
          · exact h2.symm
          · have a := hy.1 x h1
            have b := hx.1 y h2
            omega
      subst hxy
      congr 1
      apply ih hx.2 hy.2
      intro z
      constructor
      · intro hz
        have : z ∈ x :: ys := (h z).mp (by simp [hz])
        simp only [List.mem_cons] at this
        rcases this with rfl | this
        · exact absurd (hx.1 z hz) (by omega)
        · exact this
      · intro hz
        have : z ∈ x :: xs := (h z).mpr (by simp [hz])
        simp only [List.mem_cons] at this
        rcases this with rfl | this
        · exact absurd (hy.1 z hz) (by omega)
        · exact this

theorem sortRows_perm_eq {l₁ l₂ : List PRow} (hp : l₁.Perm l₂) (hn : (l₁.map (·.1)).Nodup) : sortRows l₁ = sortRows l₂ := by
  have hn2 : (l₂.map (·.1)).Nodup := (hp.map _).nodup_iff.mp hn
  apply sorted_ext (sorted_sortRows hn) (sorted_sortRows hn2)
  intro x
  rw [(sortRows_perm l₁).mem_iff, (sortRows_perm l₂).mem_iff, hp.mem_iff]

/-! ## the frame -/

/-- what a successful call returns, column by column -/
theorem pricesToGrid_ok_cols {pts : List Int} {aw : Bool} {f : PriceFrame} {out : List (String × List (Option Rat))}
    (hp : pts.Pairwise (· < ·)) (h : pricesToGrid pts aw f = .ok out) :
    ∀ c ∈ out, ∃ rows, Sorted rows ∧ c.2 = gridColumn pts rows := by
  unfold pricesToGrid at h
  split at h
  · split at h
    · cases h
    · injection h with h
      subst h
      intro c hc
      obtain ⟨c', _, rfl⟩ := List.mem_map.mp hc
      exact ⟨_, sorted_zip _ hp, rfl⟩
  · rename_i a ts hidx
    split at h
    · cases h
    · rename_i hdup
      split at h
      · cases h
      · injection h with h
        subst h
        intro c hc
        obtain ⟨c', _, rfl⟩ := List.mem_map.mp hc
        cases pts with
        | nil => exact ⟨[], by simp [Sorted], rfl⟩
        | cons p ps =>
          have hnd : ts.Nodup := by simpa using hdup
          exact ⟨_, sorted_sortRows (nodup_zip _ hnd), rfl⟩

theorem nodup_of_sorted {pts : List Int} (hp : pts.Pairwise (· < ·)) : pts.Nodup :=
  hp.imp (fun h => Int.ne_of_lt h)

end EAO.Prices
