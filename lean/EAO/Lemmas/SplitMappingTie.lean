import EAO.Properties.C07Split
import EAO.Properties.C08
import EAO.Lemmas.SplitBuild
/-!
# Helper lemmas for `EAO.Properties.C07SplitTie` — the builders produce `AssetWF` problems, `setupSplit` produces
`Assembled` intervals

* `assetWF_of_builtWf`: the bridge from `BuiltWf` (`EAO/Lemmas/Contract.lean`, what `EAO.C08.built_wf` proves for the five
  contract / transport builders) to `EAO.C07.AssetWF`;
* `passInterval` / `splitIntervals`: the passes of the loop of `setupSplit` (`EAO/Model/SplitBuild.lean`) written as
  `IntervalIn` (`EAO/Model/FixSplit.lean`): original steps `tmp_I`, points of the interval grid, the interval problem BEFORE
  its nodal record is re-labelled;
* `setupSplit_kept`: what `setupSplit` returns is, element by element, `relabelNodal iv.steps iv.prob` of the contributing
  passes; `kept_facts`: every contributing pass is the assembly of builder outputs on the re-based grid, `Assembled`,
  `IntervalIn.wf`, with rows over its own variables; `kept_disjoint`, `kept_nodup` for the step lists.
-/
namespace EAO.SplitMappingTie
open EAO EAO.FixSplit EAO.SplitMapping EAO.SplitBuild

/-! ### `BuiltWf` gives `AssetWF` -/

theorem assetWF_of_builtWf {name : String} {nodes : List String} {g : Grid} {P : AssetProblem} {gridI : List Nat}
    (hw : BuiltWf name nodes g P) (hI : ∀ t ∈ g.idx, t ∈ gridI) : EAO.C07.AssetWF gridI P := by
  refine ⟨hw.l_len, hw.u_len, fun r hr => (hw.rows_ok r hr).2.1, ?_, ?_, ?_⟩
  · intro m hm
    obtain ⟨h1, h2, _⟩ := hw.map_ok m hm
    exact ⟨by rw [h2, hw.name_eq], h1⟩
  · intro m hm n _ hn
    obtain ⟨_, _, _, h4, ⟨n', hn', hnode⟩, _⟩ := hw.map_ok m hm
    rw [hnode] at hn
    injection hn with hn
    subst hn
    exact ⟨by rw [hw.nodes_eq]; exact hn', hI _ h4⟩
  · intro r hr hk
    rcases (hw.rows_ok r hr).2.2 with h | h <;> rw [h] at hk <;> cases hk

/-- what `buildSpec` returns is `BuiltWf` on the asset's restricted grid -/
theorem buildSpec_builtWf (a : AssetSpec) (grid : Grid) (prices : Prices) (u : Nat) (A : AssetProblem)
    (hg : (({ grid with df := a.df } : Grid).restrict a.start a.stop).Ok)
    (hA : buildSpec a grid prices u = .ok A) :
    ∃ name nodes, BuiltWf name nodes (({ grid with df := a.df } : Grid).restrict a.start a.stop) A := by
  unfold buildSpec at hA
  cases hs : a.spec with
  | simple p => simp only [hs] at hA; exact ⟨_, _, simpleContract_wf hg hA⟩
  | contract p => simp only [hs] at hA; exact ⟨_, _, contract_wf' hg hA⟩
  | multi p f => simp only [hs] at hA; exact ⟨_, _, multi_wf' hg hA⟩
  | transport p => simp only [hs] at hA; exact ⟨_, _, transport_wf' hg hA⟩
  | extTransport p => simp only [hs] at hA; exact ⟨_, _, extTransport_wf' hg hA⟩

/-- what the portfolio needs of a grid it is set up on: steps `0 .. T-1`, one `dt` per step, and every asset has one
    discount factor per step -/
def GridFits (specs : List AssetSpec) (grid : Grid) : Prop :=
  grid.idx = List.range grid.T ∧ grid.dt.length = grid.T ∧ ∀ a ∈ specs, a.df.length = grid.T

/-- every asset problem of `buildAll` on a fitting grid: `AssetWF` on the grid's steps, every mapping row at a step of the
    grid, rows over the asset's own variables -/
theorem buildAll_facts (specs : List AssetSpec) (grid : Grid) (prices : Prices) (u : Nat) (as : List AssetProblem)
    (hfit : GridFits specs grid) (has : buildAll specs grid prices u = .ok as) :
    ∀ A ∈ as, EAO.C07.AssetWF (List.range grid.T) A ∧ (∀ m ∈ A.mapping, m.step < grid.T) ∧
      (∀ r ∈ A.rows, r.coeffs ≠ []) := by
  obtain ⟨hidx, hdt, hdf⟩ := hfit
  intro A hA
  obtain ⟨a, ha, hb⟩ := mapM_mem _ specs as has A hA
  have hg := restrict_ok grid a.df a.start a.stop hidx hdt (hdf a ha)
  have hlt : ∀ t ∈ (({ grid with df := a.df } : Grid).restrict a.start a.stop).idx, t < grid.T :=
    restrict_idx_lt ({ grid with df := a.df } : Grid) a.start a.stop hidx
  obtain ⟨name, nodes, hw⟩ := buildSpec_builtWf a grid prices u A hg hb
  refine ⟨assetWF_of_builtWf hw (fun t ht => List.mem_range.mpr (hlt t ht)), ?_, fun r hr => (hw.rows_ok r hr).1⟩
  intro m hm
  exact hlt _ (hw.map_ok m hm).2.2.2.1

/-! ### the interval grid fits -/

theorem interval_fits (specs : List AssetSpec) (ref : Grid) (ab : Int × Int) (hfit : GridFits specs ref) :
    GridFits (specs.map fun a => a.onInterval ref ab) (ref.interval ab.1 ab.2) := by
  obtain ⟨hidx, hdt, hdf⟩ := hfit
  have h1 : ref.idx.length = ref.pts.length := by rw [hidx]; simp [Grid.T]
  refine ⟨rfl, ?_, ?_⟩
  · show (sel (ref.mask ab.1 ab.2) ref.dt).length = (sel (ref.mask ab.1 ab.2) ref.pts).length
    exact sel_length_eq _ _ _ hdt
  · intro a' ha'
    obtain ⟨a, ha, rfl⟩ := List.mem_map.mp ha'
    show (sel (ref.mask ab.1 ab.2) a.df).length = (sel (ref.mask ab.1 ab.2) ref.pts).length
    exact sel_length_eq _ _ _ (hdf a ha)

/-! ### the passes of the loop as `IntervalIn` -/

/-- one pass of the loop of `setupSplit` as `IntervalIn`: the original steps `tmp_I`, the points of the interval grid,
    and the interval problem `setupPortfolio` builds on the interval grid (nodal record in LOCAL steps; the empty problem
    where the set-up is not reached or fails) -/
def passInterval (specs : List AssetSpec) (ref : Grid) (prices : Prices) (unitSec : Nat) (skip : List String)
    (ab : Int × Int) : IntervalIn :=
  { steps := intervalSteps ref ab, pts := (ref.interval ab.1 ab.2).pts,
    prob := match setupPortfolio (specs.map fun a => a.onInterval ref ab) (ref.interval ab.1 ab.2)
                (intervalPrices ref ab prices) unitSec skip with
      | .ok P => P
      | .error _ => ⟨[], [], [], [], [], []⟩ }

/-- all passes of the loop -/
def splitIntervals (specs : List AssetSpec) (ref : Grid) (cuts : List Int) (prices : Prices) (unitSec : Nat)
    (skip : List String) : List IntervalIn :=
  (splitPairs cuts).map (passInterval specs ref prices unitSec skip)

/-- does the pass contribute (the filter of `keptIntervals`) -/
def isKept (iv : IntervalIn) : Bool := !iv.steps.isEmpty && !decide (iv.prob.n = 0)

theorem keptIntervals_eq (ivs : List IntervalIn) : keptIntervals ivs = ivs.filter isKept := rfl

/-- one pass: what `setupInterval` returns, and where the problem of a contributing pass comes from -/
theorem setupInterval_pass (specs : List AssetSpec) (ref : Grid) (prices : Prices) (u : Nat) (skip : List String)
    (ab : Int × Int) (q : Option Problem) (hidx : ref.idx = List.range ref.T)
    (h : setupInterval specs ref prices u skip ab = .ok q) :
    q = (if isKept (passInterval specs ref prices u skip ab)
          then some (relabelNodal (passInterval specs ref prices u skip ab).steps (passInterval specs ref prices u skip ab).prob)
          else none) ∧
    (isKept (passInterval specs ref prices u skip ab) = true →
      ∃ as, buildAll (specs.map fun a => a.onInterval ref ab) (ref.interval ab.1 ab.2) (intervalPrices ref ab prices) u = .ok as ∧
        (passInterval specs ref prices u skip ab).prob =
          assemble as (List.range (passInterval specs ref prices u skip ab).steps.length) skip) := by
  have hT := interval_T ref ab hidx
  unfold setupInterval at h
  by_cases h0 : (ref.interval ab.1 ab.2).T = 0
  · have hs : (passInterval specs ref prices u skip ab).steps = [] :=
      List.eq_nil_of_length_eq_zero (by show (intervalSteps ref ab).length = 0; rw [← hT]; exact h0)
    have hk : isKept (passInterval specs ref prices u skip ab) = false := by simp [isKept, hs]
    simp only [h0, if_true, pure, Except.pure] at h
    injection h with h
    rw [hk]
    exact ⟨h.symm, fun hc => by cases hc⟩
  · simp only [h0, if_false] at h
    have hsne : (passInterval specs ref prices u skip ab).steps.isEmpty = false := by
      show (intervalSteps ref ab).isEmpty = false
      cases hh : intervalSteps ref ab with
      | nil => rw [hh] at hT; exact absurd hT h0
      | cons _ _ => rfl
    cases hP : setupPortfolio (specs.map fun a => a.onInterval ref ab) (ref.interval ab.1 ab.2)
        (intervalPrices ref ab prices) u skip with
    | error e => simp [hP, bind, Except.bind] at h
    | ok P =>
      have hprob : (passInterval specs ref prices u skip ab).prob = P := by
        simp only [passInterval, hP]
      simp only [hP, bind, Except.bind, pure, Except.pure] at h
      obtain ⟨as, has, hPe⟩ := setupPortfolio_ok hP
      have hJidx : (ref.interval ab.1 ab.2).idx = List.range (intervalSteps ref ab).length := by
        show List.range _ = _
        rw [← hT]; rfl
      by_cases hn : P.n = 0
      · simp only [hn, if_true] at h
        injection h with h
        have hk : isKept (passInterval specs ref prices u skip ab) = false := by simp [isKept, hprob, hn]
        rw [hk]
        exact ⟨h.symm, fun hc => by cases hc⟩
      · simp only [hn, if_false] at h
        injection h with h
        have hk : isKept (passInterval specs ref prices u skip ab) = true := by simp [isKept, hprob, hn, hsne]
        rw [hk, hprob]
        refine ⟨h.symm, fun _ => ⟨as, has, ?_⟩⟩
        rw [hPe, hJidx]; rfl

theorem mapM_filterMap {α β γ} (f : α → Except BuildError (Option β)) (g : α → γ) (k : γ → Bool) (hh : γ → β)
    (L : List α) (qs : List (Option β))
    (hpt : ∀ x ∈ L, ∀ q, f x = .ok q → q = if k (g x) then some (hh (g x)) else none)
    (hm : L.mapM f = .ok qs) : qs.filterMap id = ((L.map g).filter k).map hh := by
  induction L generalizing qs with
  | nil =>
    have : qs = [] := by simpa [List.mapM_nil, pure, Except.pure] using hm.symm
    subst this; rfl
  | cons x xs ih =>
    obtain ⟨y, ys, h1, h2, rfl⟩ := (mapM_ok_cons f x xs qs).mp hm
    have hy := hpt x (by simp) y h1
    have hrest := ih ys (fun x' hx' => hpt x' (by simp [hx'])) h2
    by_cases hk : k (g x) = true
    · simp [hy, hk, hrest]
    · simp [hy, hk, hrest]

/-- unfolding `setupSplit`: the price arrays are on the grid, every pass succeeds, and the result is the list of the
    problems of the passes that are not skipped -/
theorem setupSplit_ok (specs : List AssetSpec) (ref : Grid) (cuts : List Int) (prices : Prices) (u : Nat)
    (skip : List String) (ps : List Problem) (h : setupSplit specs ref cuts prices u skip = .ok ps) :
    ∃ qs, (splitPairs cuts).mapM (setupInterval specs ref prices u skip) = .ok qs ∧ ps = qs.filterMap id ∧ ps ≠ [] := by
  unfold setupSplit at h
  by_cases hp : (prices.any fun kv => kv.2.length != ref.T) = true
  · simp [hp, bind, Except.bind, throw, throwThe, MonadExceptOf.throw] at h
  · simp only [hp, Bool.false_eq_true, if_false, bind, Except.bind, pure, Except.pure] at h
    cases hm : (splitPairs cuts).mapM (setupInterval specs ref prices u skip) with
    | error e => simp [hm] at h
    | ok qs =>
      simp only [hm] at h
      by_cases he : (qs.filterMap id).isEmpty = true
      · simp [he, throw, throwThe, MonadExceptOf.throw] at h
      · simp only [he, Bool.false_eq_true, if_false] at h
        injection h with h
        refine ⟨qs, rfl, h.symm, ?_⟩
        intro hnil
        rw [← h] at hnil
        rw [hnil] at he
        exact he rfl

/-- **what `setupSplit` returns**: element by element the interval problem of a contributing pass with its nodal record
    re-labelled — `relabelNodal (intervalSteps ref ab) (assemble as J.idx skip)` -/
theorem setupSplit_kept (specs : List AssetSpec) (ref : Grid) (cuts : List Int) (prices : Prices) (u : Nat)
    (skip : List String) (ps : List Problem) (hidx : ref.idx = List.range ref.T)
    (h : setupSplit specs ref cuts prices u skip = .ok ps) :
    ps = (keptIntervals (splitIntervals specs ref cuts prices u skip)).map fun iv => relabelNodal iv.steps iv.prob := by
  obtain ⟨qs, hm, rfl, _⟩ := setupSplit_ok specs ref cuts prices u skip ps h
  exact mapM_filterMap _ (passInterval specs ref prices u skip) isKept (fun iv => relabelNodal iv.steps iv.prob) _ qs
    (fun ab _ q hq => (setupInterval_pass specs ref prices u skip ab q hidx hq).1) hm

/-- a contributing pass of a successful `setupSplit` comes from a pair of cuts and is the assembly of what the builders
    return on the interval grid -/
theorem kept_origin (specs : List AssetSpec) (ref : Grid) (cuts : List Int) (prices : Prices) (u : Nat)
    (skip : List String) (ps : List Problem) (hidx : ref.idx = List.range ref.T)
    (h : setupSplit specs ref cuts prices u skip = .ok ps) :
    ∀ iv ∈ keptIntervals (splitIntervals specs ref cuts prices u skip), ∃ ab ∈ splitPairs cuts,
      iv = passInterval specs ref prices u skip ab ∧ iv.steps = intervalSteps ref ab ∧
      (ref.interval ab.1 ab.2).T = iv.steps.length ∧
      ∃ as, buildAll (specs.map fun a => a.onInterval ref ab) (ref.interval ab.1 ab.2) (intervalPrices ref ab prices) u = .ok as ∧
        iv.prob = assemble as (List.range iv.steps.length) skip := by
  obtain ⟨qs, hm, -, -⟩ := setupSplit_ok specs ref cuts prices u skip ps h
  intro iv hiv
  rw [keptIntervals_eq, List.mem_filter] at hiv
  obtain ⟨hmem, hk⟩ := hiv
  obtain ⟨ab, hab, rfl⟩ := List.mem_map.mp hmem
  -- the pass `ab` succeeded
  have hq : ∃ q, setupInterval specs ref prices u skip ab = .ok q := by
    clear hk hmem
    generalize splitPairs cuts = L at hm hab
    induction L generalizing qs with
    | nil => cases hab
    | cons x xs ih =>
      obtain ⟨y, ys, h1, h2, _⟩ := (mapM_ok_cons _ x xs qs).mp hm
      rcases List.mem_cons.mp hab with rfl | hab'
      · exact ⟨y, h1⟩
      · exact ih ys h2 hab'
  obtain ⟨q, hq⟩ := hq
  obtain ⟨as, has, hp⟩ := (setupInterval_pass specs ref prices u skip ab q hidx hq).2 hk
  exact ⟨ab, hab, rfl, rfl, interval_T ref ab hidx, as, has, hp⟩

/-- every contributing pass is `Assembled` (the assembly of `AssetWF` asset problems on the re-based grid), indexed as
    `IntervalIn.wf` asks, with rows over its own variables, none of them empty -/
theorem kept_facts (specs : List AssetSpec) (ref : Grid) (cuts : List Int) (prices : Prices) (u : Nat)
    (skip : List String) (ps : List Problem) (hfit : GridFits specs ref)
    (h : setupSplit specs ref cuts prices u skip = .ok ps) :
    ∀ iv ∈ keptIntervals (splitIntervals specs ref cuts prices u skip),
      EAO.C07S.Assembled skip iv ∧ iv.wf ∧ (∀ r ∈ iv.prob.rows, ∀ q ∈ r.coeffs, q.1 < iv.prob.n) := by
  intro iv hiv
  obtain ⟨ab, _, _, _, hT, as, has, hp⟩ := kept_origin specs ref cuts prices u skip ps hfit.1 h iv hiv
  have hf := buildAll_facts _ _ _ u as (interval_fits specs ref ab hfit) has
  rw [hT] at hf
  have hwfa : ∀ a ∈ as, EAO.C07.AssetWF (List.range iv.steps.length) a := fun a ha => (hf a ha).1
  have hsz := EAO.C07.assemble_sizes as (List.range iv.steps.length) skip hwfa
  have hcols := EAO.C07.assemble_cols as (List.range iv.steps.length) skip hwfa
  refine ⟨⟨as, hwfa, hp⟩, ?_, ?_⟩
  · unfold IntervalIn.wf
    rw [hp]
    refine ⟨hsz.2.1, hsz.2.2, ?_, ?_⟩
    · intro m hm
      obtain ⟨_, _, _, _, _, hlt, _⟩ := EAO.C07.assemble_mapping_faithful as _ skip hwfa m hm
      exact hlt
    · intro m hm
      obtain ⟨i, hi, _, _, _, _, m', hm', rfl⟩ := EAO.C07.assemble_mapping_faithful as _ skip hwfa m hm
      exact (hf _ (List.getElem_mem hi)).2.1 m' hm'
  · rw [hp]
    exact hcols.2.2

theorem kept_nodup (specs : List AssetSpec) (ref : Grid) (cuts : List Int) (prices : Prices) (u : Nat)
    (skip : List String) (hidx : ref.idx = List.range ref.T) :
    ∀ iv ∈ keptIntervals (splitIntervals specs ref cuts prices u skip), iv.steps.Nodup := by
  intro iv hiv
  rw [keptIntervals_eq, List.mem_filter] at hiv
  obtain ⟨ab, _, rfl⟩ := List.mem_map.mp hiv.1
  exact intervalSteps_nodup ref ab hidx

/-- cuts in increasing order: no original step belongs to two passes -/
theorem kept_disjoint (specs : List AssetSpec) (ref : Grid) (cuts : List Int) (prices : Prices) (u : Nat)
    (skip : List String) (hidx : ref.idx = List.range ref.T) (hs : cuts.Pairwise (· ≤ ·)) :
    StepsDisjoint (keptIntervals (splitIntervals specs ref cuts prices u skip)) := by
  apply stepsDisjoint_kept
  have := pairwiseDisjoint_spec _ (splitPairs_disjoint ref hidx cuts hs)
  unfold StepsDisjoint splitIntervals
  rw [List.pairwise_map] at this ⊢
  exact this

end EAO.SplitMappingTie
