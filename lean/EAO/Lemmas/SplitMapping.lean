import EAO.Model.FixSplit
import EAO.Model.PriceSplit
import EAO.Lemmas.Wf
import EAO.Lemmas.Nodal
import EAO.Lemmas.Blocks
import EAO.Lemmas.FixSplit
/-!
# Helper lemmas for `EAO.Properties.C07Split` — the joint mapping of a split set-up

`SplitOptimProblem.mapping` (portfolio.py 296-306) is the concatenation of the interval mappings with the variable index
shifted by `len_res` and the step written as ORIGINAL step `tmp_I[time_step]`; `SplitOptimProblem.map_nodal_restr`
(optimization.py 428-437) is the concatenation of the re-labelled nodal records.  `jointMapping` / `jointNodal` are these
two lists; the lemmas say that they are the mapping of `splitProblem` (`EAO.Model.FixSplit`) and what each entry is.
-/
namespace EAO.SplitMapping
open EAO EAO.FixSplit

/-! ### definitions the property file is stated with -/

/-- the rows the interval `p.2`, reached with `len_res = p.1`, writes into the joint mapping:
    `mapping_tmp.index += len_res`, `mapping_tmp["time_step"] = [tmp_I[a] for a in mapping_tmp["time_step"]]` -/
def jointRows (p : Nat × IntervalIn) : List MapRow :=
  p.2.prob.mapping.map fun m => { m with var := p.1 + m.var, step := p.2.steps.getD m.step 0 }

/-- `SplitOptimProblem.mapping = pd.concat(mappings)` -/
def jointMapping (ivs : List IntervalIn) : List MapRow := (withOffsets 0 (keptIntervals ivs)).flatMap jointRows

/-- `SplitOptimProblem.map_nodal_restr`: the re-labelled nodal records of the contributing intervals, one after the other -/
def jointNodal (ivs : List IntervalIn) : List (Nat × String) := splitNodal ((keptIntervals ivs).map IntervalIn.orig)

/-- the rows of interval `p.2` as rows of the joint problem -/
def jointRowsOf (p : Nat × IntervalIn) : List Row := p.2.prob.rows.map (Row.rename (p.1 + ·))

/-- number of variables of the contributing intervals before the `k`-th contributing interval -/
def splitOffset (ivs : List IntervalIn) (k : Nat) : Nat := (((keptIntervals ivs).take k).map fun iv => iv.prob.n).sum

/-- no original step belongs to two intervals -/
def StepsDisjoint (L : List IntervalIn) : Prop := L.Pairwise fun a b => ∀ t ∈ a.steps, t ∉ b.steps

/-- the block sum of the interval problems (mapping in original steps) from running offset `off` -/
abbrev asm (off : Nat) (L : List IntervalIn) : Problem := assembleFrom off (L.map fun iv => iv.orig.toAsset)

/-! ### the block sum, field by field -/

theorem splitProblem_eq (ivs : List IntervalIn) : splitProblem ivs = asm 0 (keptIntervals ivs) := by
  unfold splitProblem blockSum asm
  rw [List.map_map]
  rfl

theorem asm_cons_c (off : Nat) (iv : IntervalIn) (L : List IntervalIn) :
    (asm off (iv :: L)).c = iv.prob.c ++ (asm (off + iv.prob.n) L).c := rfl
theorem asm_cons_l (off : Nat) (iv : IntervalIn) (L : List IntervalIn) :
    (asm off (iv :: L)).l = iv.prob.l ++ (asm (off + iv.prob.n) L).l := rfl
theorem asm_cons_u (off : Nat) (iv : IntervalIn) (L : List IntervalIn) :
    (asm off (iv :: L)).u = iv.prob.u ++ (asm (off + iv.prob.n) L).u := rfl
theorem asm_cons_rows (off : Nat) (iv : IntervalIn) (L : List IntervalIn) :
    (asm off (iv :: L)).rows = jointRowsOf (off, iv) ++ (asm (off + iv.prob.n) L).rows := rfl
theorem asm_cons_mapping (off : Nat) (iv : IntervalIn) (L : List IntervalIn) :
    (asm off (iv :: L)).mapping = jointRows (off, iv) ++ (asm (off + iv.prob.n) L).mapping := by
  show (iv.orig.toAsset.mapping.map (MapRow.shift off)) ++ _ = _
  congr 1
  simp [IntervalIn.orig, Problem.toAsset, jointRows, MapRow.shift, List.map_map, Function.comp_def]

theorem asm_mapping (L : List IntervalIn) (off : Nat) :
    (asm off L).mapping = (withOffsets off L).flatMap jointRows := by
  induction L generalizing off with
  | nil => rfl
  | cons iv L ih => rw [asm_cons_mapping, ih]; rfl

theorem asm_rows (L : List IntervalIn) (off : Nat) :
    (asm off L).rows = (withOffsets off L).flatMap jointRowsOf := by
  induction L generalizing off with
  | nil => rfl
  | cons iv L ih => rw [asm_cons_rows, ih]; rfl

theorem asm_n (L : List IntervalIn) (off : Nat) : (asm off L).n = (L.map fun iv => iv.prob.n).sum := by
  induction L generalizing off with
  | nil => rfl
  | cons iv L ih =>
    have h1 : (asm (off + iv.prob.n) L).c.length = (L.map fun iv => iv.prob.n).sum := ih (off + iv.prob.n)
    show (asm off (iv :: L)).c.length = _
    rw [asm_cons_c, List.length_append, h1]
    simp [Problem.n]

theorem asm_l_len (L : List IntervalIn) (hl : ∀ iv ∈ L, iv.prob.l.length = iv.prob.n) (off : Nat) :
    (asm off L).l.length = (asm off L).n := by
  induction L generalizing off with
  | nil => rfl
  | cons iv L ih =>
    have h1 : (asm (off + iv.prob.n) L).l.length = (asm (off + iv.prob.n) L).c.length :=
      ih (fun b hb => hl b (List.mem_cons_of_mem _ hb)) (off + iv.prob.n)
    show (asm off (iv :: L)).l.length = (asm off (iv :: L)).c.length
    rw [asm_cons_l, asm_cons_c, List.length_append, List.length_append, h1, hl iv List.mem_cons_self]
    rfl

theorem asm_u_len (L : List IntervalIn) (hu : ∀ iv ∈ L, iv.prob.u.length = iv.prob.n) (off : Nat) :
    (asm off L).u.length = (asm off L).n := by
  induction L generalizing off with
  | nil => rfl
  | cons iv L ih =>
    have h1 : (asm (off + iv.prob.n) L).u.length = (asm (off + iv.prob.n) L).c.length :=
      ih (fun b hb => hu b (List.mem_cons_of_mem _ hb)) (off + iv.prob.n)
    show (asm off (iv :: L)).u.length = (asm off (iv :: L)).c.length
    rw [asm_cons_u, asm_cons_c, List.length_append, List.length_append, h1, hu iv List.mem_cons_self]
    rfl

/-! ### offsets -/

theorem withOffsets_ge (L : List IntervalIn) (off : Nat) : ∀ p ∈ withOffsets off L, off ≤ p.1 := by
  induction L generalizing off with
  | nil => intro p hp; simp [withOffsets] at hp
  | cons iv L ih =>
    intro p hp
    simp only [withOffsets, List.mem_cons] at hp
    rcases hp with rfl | hp
    · exact Nat.le_refl _
    · have := ih (off + iv.prob.n) p hp
      omega

/-- every block ends inside the joint vector -/
theorem withOffsets_end_le (L : List IntervalIn) (off : Nat) :
    ∀ p ∈ withOffsets off L, p.1 + p.2.prob.n ≤ off + (L.map fun iv => iv.prob.n).sum := by
  induction L generalizing off with
  | nil => intro p hp; simp [withOffsets] at hp
  | cons iv L ih =>
    intro p hp
    simp only [withOffsets, List.mem_cons] at hp
    simp only [List.map_cons, List.sum_cons]
    rcases hp with rfl | hp
    · show off + iv.prob.n ≤ _
      omega
    · have := ih (off + iv.prob.n) p hp
      omega

/-- the blocks follow each other without overlap -/
theorem withOffsets_pairwise (L : List IntervalIn) (off : Nat) :
    (withOffsets off L).Pairwise fun p q => p.1 + p.2.prob.n ≤ q.1 := by
  induction L generalizing off with
  | nil => exact List.Pairwise.nil
  | cons iv L ih =>
    simp only [withOffsets]
    refine List.pairwise_cons.mpr ⟨?_, ih _⟩
    intro q hq
    exact withOffsets_ge L _ q hq

theorem withOffsets_getElem_snd (L : List IntervalIn) :
    ∀ (off k : Nat) (h : k < (withOffsets off L).length),
      ((withOffsets off L)[k]).2 = L[k]'(by rw [withOffsets_length] at h; exact h) := by
  induction L with
  | nil => intro off k h; simp [withOffsets] at h
  | cons a L ih =>
    intro off k h
    cases k with
    | zero => simp [withOffsets]
    | succ k =>
      simp only [withOffsets, List.getElem_cons_succ]
      exact ih _ k (by simpa [withOffsets] using h)

/-- a pair of `withOffsets 0 (keptIntervals ivs)` is (offset of `k`, `k`-th contributing interval) -/
theorem mem_withOffsets_index (ivs : List IntervalIn) (p : Nat × IntervalIn)
    (hp : p ∈ withOffsets 0 (keptIntervals ivs)) :
    ∃ k, ∃ hk : k < (keptIntervals ivs).length, p = (splitOffset ivs k, (keptIntervals ivs)[k]) := by
  obtain ⟨k, hk, rfl⟩ := List.getElem_of_mem hp
  have hk' : k < (keptIntervals ivs).length := by rw [withOffsets_length] at hk; exact hk
  refine ⟨k, hk', ?_⟩
  apply Prod.ext
  · rw [withOffsets_getElem _ 0 k hk, Nat.zero_add]; rfl
  · exact withOffsets_getElem_snd _ 0 k hk

theorem index_mem_withOffsets (ivs : List IntervalIn) (k : Nat) (hk : k < (keptIntervals ivs).length) :
    (splitOffset ivs k, (keptIntervals ivs)[k]) ∈ withOffsets 0 (keptIntervals ivs) := by
  have hk' : k < (withOffsets 0 (keptIntervals ivs)).length := by rw [withOffsets_length]; exact hk
  have : (withOffsets 0 (keptIntervals ivs))[k] = (splitOffset ivs k, (keptIntervals ivs)[k]) := by
    apply Prod.ext
    · rw [withOffsets_getElem _ 0 k hk', Nat.zero_add]; rfl
    · exact withOffsets_getElem_snd _ 0 k hk'
  rw [← this]
  exact List.getElem_mem hk'

/-- earlier contributing intervals end before later ones begin -/
theorem splitOffset_mono (ivs : List IntervalIn) (i k : Nat) (hik : i < k) (hk : k < (keptIntervals ivs).length) :
    splitOffset ivs i + ((keptIntervals ivs)[i]'(by omega)).prob.n ≤ splitOffset ivs k := by
  have hk' : k < (withOffsets 0 (keptIntervals ivs)).length := by rw [withOffsets_length]; exact hk
  have hi' : i < (withOffsets 0 (keptIntervals ivs)).length := by omega
  have hpw := List.pairwise_iff_getElem.mp (withOffsets_pairwise (keptIntervals ivs) 0) i k hi' hk' hik
  rw [withOffsets_getElem _ 0 i hi', withOffsets_getElem _ 0 k hk', withOffsets_getElem_snd _ 0 i hi'] at hpw
  simpa [splitOffset] using hpw

/-! ### cost and bounds of a block -/

theorem getD_app_l (a b : List Rat) (j : Nat) (h : j < a.length) : (a ++ b).getD j 0 = a.getD j 0 := by
  simp [List.getD, List.getElem?_append_left h]

theorem getD_app_r (a b : List Rat) (j : Nat) (h : a.length ≤ j) : (a ++ b).getD j 0 = b.getD (j - a.length) 0 := by
  simp [List.getD, List.getElem?_append_right h]

theorem asm_block (L : List IntervalIn) (hl : ∀ iv ∈ L, iv.prob.l.length = iv.prob.n)
    (hu : ∀ iv ∈ L, iv.prob.u.length = iv.prob.n) (off : Nat) :
    ∀ p ∈ withOffsets off L, ∀ j, j < p.2.prob.n →
      (asm off L).c.getD (p.1 - off + j) 0 = p.2.prob.c.getD j 0 ∧
      (asm off L).l.getD (p.1 - off + j) 0 = p.2.prob.l.getD j 0 ∧
      (asm off L).u.getD (p.1 - off + j) 0 = p.2.prob.u.getD j 0 := by
  induction L generalizing off with
  | nil => intro p hp; simp [withOffsets] at hp
  | cons iv L ih =>
    intro p hp j hj
    have hliv : iv.prob.l.length = iv.prob.c.length := hl iv List.mem_cons_self
    have huiv : iv.prob.u.length = iv.prob.c.length := hu iv List.mem_cons_self
    simp only [withOffsets, List.mem_cons] at hp
    rw [asm_cons_c, asm_cons_l, asm_cons_u]
    rcases hp with rfl | hp
    · have hj' : j < iv.prob.c.length := hj
      simp only [Nat.sub_self, Nat.zero_add]
      exact ⟨getD_app_l _ _ _ hj', getD_app_l _ _ _ (by omega), getD_app_l _ _ _ (by omega)⟩
    · have hge := withOffsets_ge L _ p hp
      obtain ⟨h1, h2, h3⟩ := ih (fun b hb => hl b (List.mem_cons_of_mem _ hb))
        (fun b hb => hu b (List.mem_cons_of_mem _ hb)) (off + iv.prob.n) p hp j hj
      have hn : iv.prob.c.length = iv.prob.n := rfl
      have e : p.1 - off + j - iv.prob.n = p.1 - (off + iv.prob.n) + j := by omega
      refine ⟨?_, ?_, ?_⟩
      · rw [getD_app_r _ _ _ (by omega), hn, e]; exact h1
      · rw [getD_app_r _ _ _ (by omega), hliv, hn, e]; exact h2
      · rw [getD_app_r _ _ _ (by omega), huiv, hn, e]; exact h3

/-! ### rows and mapping rows of a block -/

theorem mem_jointRows (p : Nat × IntervalIn) (m : MapRow) :
    m ∈ jointRows p ↔ ∃ m' ∈ p.2.prob.mapping,
      m = { m' with var := p.1 + m'.var, step := p.2.steps.getD m'.step 0 } := by
  simp only [jointRows, List.mem_map]
  constructor
  · rintro ⟨m', h, rfl⟩; exact ⟨m', h, rfl⟩
  · rintro ⟨m', h, rfl⟩; exact ⟨m', h, rfl⟩

theorem getD_mem_nat (L : List Nat) (s : Nat) (h : s < L.length) : L.getD s 0 ∈ L := by
  rw [EAO.Split.getD_eq_getElem _ _ h]; exact List.getElem_mem h

/-- reading a duplicate-free list is injective on its positions -/
theorem getD_inj_of_nodup (L : List Nat) (hn : L.Nodup) (s s' : Nat) (hs : s < L.length) (hs' : s' < L.length)
    (h : L.getD s 0 = L.getD s' 0) : s = s' := by
  rw [EAO.Split.getD_eq_getElem _ _ hs, EAO.Split.getD_eq_getElem _ _ hs'] at h
  exact (List.getElem_inj hn).mp h

theorem stepsDisjoint_kept (ivs : List IntervalIn) (h : StepsDisjoint ivs) : StepsDisjoint (keptIntervals ivs) :=
  List.Pairwise.filter _ h

/-- two positions of a list of contributing intervals with disjoint steps that share a step are the same position -/
theorem index_of_step (L : List IntervalIn) (hd : StepsDisjoint L) (i k : Nat) (hi : i < L.length) (hk : k < L.length)
    (t : Nat) (hti : t ∈ (L[i]).steps) (htk : t ∈ (L[k]).steps) : i = k := by
  have hpw := List.pairwise_iff_getElem.mp hd
  rcases Nat.lt_trichotomy i k with h | h | h
  · exact absurd htk (hpw i k hi hk h t hti)
  · exact h
  · exact absurd hti (hpw k i hk hi h t htk)


/-- a joint variable index belongs to one block only -/
theorem block_unique (ivs : List IntervalIn) (i k : Nat) (hi : i < (keptIntervals ivs).length)
    (hk : k < (keptIntervals ivs).length) (a b : Nat) (ha : a < ((keptIntervals ivs)[i]).prob.n)
    (hb : b < ((keptIntervals ivs)[k]).prob.n) (h : splitOffset ivs i + a = splitOffset ivs k + b) : i = k := by
  rcases Nat.lt_trichotomy i k with hlt | heq | hgt
  · have := splitOffset_mono ivs i k hlt hk; omega
  · exact heq
  · have := splitOffset_mono ivs k i hgt hi; omega

/-- rows of the joint problem: the shifted rows of one contributing interval -/
theorem mem_joint_rows (ivs : List IntervalIn) (r : Row) :
    r ∈ (splitProblem ivs).rows ↔ ∃ k, ∃ hk : k < (keptIntervals ivs).length,
      ∃ r' ∈ ((keptIntervals ivs)[k]).prob.rows, r = r'.rename (splitOffset ivs k + ·) := by
  rw [splitProblem_eq, asm_rows, List.mem_flatMap]
  constructor
  · rintro ⟨p, hp, hr⟩
    obtain ⟨k, hk, rfl⟩ := mem_withOffsets_index ivs p hp
    obtain ⟨r', hr', rfl⟩ := List.mem_map.mp hr
    exact ⟨k, hk, r', hr', rfl⟩
  · rintro ⟨k, hk, r', hr', rfl⟩
    exact ⟨_, index_mem_withOffsets ivs k hk, List.mem_map_of_mem hr'⟩

/-- mapping rows of the joint problem: the shifted, re-labelled rows of one contributing interval -/
theorem mem_joint_mapping (ivs : List IntervalIn) (m : MapRow) :
    m ∈ jointMapping ivs ↔ ∃ k, ∃ hk : k < (keptIntervals ivs).length,
      ∃ m' ∈ ((keptIntervals ivs)[k]).prob.mapping,
        m = { m' with var := splitOffset ivs k + m'.var, step := ((keptIntervals ivs)[k]).steps.getD m'.step 0 } := by
  unfold jointMapping
  rw [List.mem_flatMap]
  constructor
  · rintro ⟨p, hp, hr⟩
    obtain ⟨k, hk, rfl⟩ := mem_withOffsets_index ivs p hp
    obtain ⟨m', hm', rfl⟩ := (mem_jointRows _ _).mp hr
    exact ⟨k, hk, m', hm', rfl⟩
  · rintro ⟨k, hk, m', hm', rfl⟩
    exact ⟨_, index_mem_withOffsets ivs k hk, (mem_jointRows _ _).mpr ⟨m', hm', rfl⟩⟩

theorem splitProblem_mapping (ivs : List IntervalIn) : (splitProblem ivs).mapping = jointMapping ivs := by
  rw [splitProblem_eq, asm_mapping]; rfl

/-- cost and bounds of variable `offset k + j` -/
theorem joint_block (ivs : List IntervalIn) (hl : ∀ iv ∈ keptIntervals ivs, iv.prob.l.length = iv.prob.n)
    (hu : ∀ iv ∈ keptIntervals ivs, iv.prob.u.length = iv.prob.n) (k : Nat) (hk : k < (keptIntervals ivs).length)
    (j : Nat) (hj : j < ((keptIntervals ivs)[k]).prob.n) :
    (splitProblem ivs).c.getD (splitOffset ivs k + j) 0 = ((keptIntervals ivs)[k]).prob.c.getD j 0 ∧
    (splitProblem ivs).l.getD (splitOffset ivs k + j) 0 = ((keptIntervals ivs)[k]).prob.l.getD j 0 ∧
    (splitProblem ivs).u.getD (splitOffset ivs k + j) 0 = ((keptIntervals ivs)[k]).prob.u.getD j 0 ∧
    splitOffset ivs k + j < (splitProblem ivs).n := by
  have hp := index_mem_withOffsets ivs k hk
  have hb := asm_block (keptIntervals ivs) hl hu 0 _ hp j hj
  have he := withOffsets_end_le (keptIntervals ivs) 0 _ hp
  simp only [Nat.sub_zero, Nat.zero_add] at hb he
  rw [splitProblem_eq, asm_n]
  refine ⟨hb.1, hb.2.1, hb.2.2, ?_⟩
  omega

/-! ### the nodal record -/

theorem jointNodal_eq (ivs : List IntervalIn) :
    jointNodal ivs = (keptIntervals ivs).flatMap fun iv => iv.prob.nodal.map fun p => (iv.steps.getD p.1 0, p.2) := by
  unfold jointNodal splitNodal
  rw [List.flatMap_map]
  rfl

theorem mem_jointNodal (ivs : List IntervalIn) (t : Nat) (n : String) :
    (t, n) ∈ jointNodal ivs ↔ ∃ iv ∈ keptIntervals ivs, ∃ s, (s, n) ∈ iv.prob.nodal ∧ t = iv.steps.getD s 0 := by
  rw [jointNodal_eq]
  simp only [List.mem_flatMap, List.mem_map, Prod.mk.injEq, Prod.exists]
  constructor
  · rintro ⟨iv, hiv, s, n', hm, rfl, rfl⟩; exact ⟨iv, hiv, s, hm, rfl⟩
  · rintro ⟨iv, hiv, s, hm, rfl⟩; exact ⟨iv, hiv, s, n, hm, rfl, rfl⟩

/-- duplicate-free interval records with entries at steps of the interval, duplicate-free and pairwise disjoint step
    lists: the joint record has no duplicates -/
theorem nodup_flat_nodal (L : List IntervalIn) (hd : StepsDisjoint L)
    (hs : ∀ iv ∈ L, iv.steps.Nodup)
    (hn : ∀ iv ∈ L, iv.prob.nodal.Nodup ∧ ∀ q ∈ iv.prob.nodal, q.1 < iv.steps.length) :
    (L.flatMap fun iv => iv.prob.nodal.map fun p => (iv.steps.getD p.1 0, p.2)).Nodup := by
  rw [List.Nodup, List.pairwise_flatMap]
  constructor
  · intro iv hiv
    rw [List.pairwise_map]
    refine List.Pairwise.imp_of_mem ?_ (hn iv hiv).1
    intro a b ha hb hab heq
    apply hab
    have h1 := congrArg Prod.fst heq
    have h2 := congrArg Prod.snd heq
    simp only at h1 h2
    exact Prod.ext (getD_inj_of_nodup _ (hs iv hiv) _ _ ((hn iv hiv).2 a ha) ((hn iv hiv).2 b hb) h1) h2
  · refine List.Pairwise.imp_of_mem ?_ hd
    intro a b ha hb hab x hx y hy heq
    obtain ⟨qa, hqa, rfl⟩ := List.mem_map.mp hx
    obtain ⟨qb, hqb, rfl⟩ := List.mem_map.mp hy
    have h1 := congrArg Prod.fst heq
    simp only at h1
    have ta := getD_mem_nat a.steps qa.1 ((hn a ha).2 qa hqa)
    have tb := getD_mem_nat b.steps qb.1 ((hn b hb).2 qb hqb)
    rw [← h1] at tb
    exact hab _ ta tb

/-! ### skipped intervals -/

theorem kept_skip (a b : List IntervalIn) (iv : IntervalIn) (h : iv.steps = [] ∨ iv.prob.n = 0) :
    keptIntervals (a ++ iv :: b) = keptIntervals (a ++ b) := by
  unfold keptIntervals
  rw [List.filter_append, List.filter_append, List.filter_cons]
  have : (!iv.steps.isEmpty && !decide (iv.prob.n = 0)) = false := by
    rcases h with h | h <;> simp [h]
  rw [this]
  rfl

theorem kept_kept (ivs : List IntervalIn) : keptIntervals (keptIntervals ivs) = keptIntervals ivs := by
  unfold keptIntervals
  rw [List.filter_filter]
  congr 1
  funext iv
  simp

theorem kept_mem (ivs : List IntervalIn) (iv : IntervalIn) (h : iv ∈ keptIntervals ivs) :
    iv ∈ ivs ∧ iv.steps ≠ [] ∧ iv.prob.n ≠ 0 := by
  unfold keptIntervals at h
  rw [List.mem_filter] at h
  refine ⟨h.1, ?_, ?_⟩
  · intro he; simp [he] at h
  · intro he; simp [he] at h

/-! ### the nodal rows of the joint mapping -/

/-- the dispatch rows of the joint rows of another interval never sit at a step of this one -/
theorem filter_other_nil (p' : Nat × IntervalIn) (hwf : p'.2.wf) (n : String) (t : Nat)
    (ht : t ∉ p'.2.steps) : (jointRows p').filter (isDisp n t) = [] := by
  rw [List.filter_eq_nil_iff]
  intro m hm hd
  obtain ⟨m', hm', rfl⟩ := (mem_jointRows _ _).mp hm
  have h3 := ((isDisp_iff _ _ _).mp hd).2.2
  simp only at h3
  exact ht (h3 ▸ getD_mem_nat _ _ (hwf.2.2.2 m' hm'))

theorem filter_own (p : Nat × IntervalIn) (hwf : p.2.wf) (hn : p.2.steps.Nodup) (n : String) (s : Nat)
    (hs : s < p.2.steps.length) :
    ((jointRows p).filter (isDisp n (p.2.steps.getD s 0))).map (fun m => (m.var, m.factor)) =
      ((p.2.prob.mapping.filter (isDisp n s)).map fun m => (m.var, m.factor)).map fun q => (p.1 + q.1, q.2) := by
  unfold jointRows
  rw [List.filter_map, List.map_map, List.map_map]
  have : p.2.prob.mapping.filter ((isDisp n (p.2.steps.getD s 0)) ∘
      fun m => { m with var := p.1 + m.var, step := p.2.steps.getD m.step 0 }) =
      p.2.prob.mapping.filter (isDisp n s) := by
    apply List.filter_congr
    intro m hm
    have hms := hwf.2.2.2 m hm
    simp only [Function.comp, isDisp]
    congr 1
    by_cases h : m.step = s
    · simp [h]
    · have : p.2.steps.getD m.step 0 ≠ p.2.steps.getD s 0 :=
        fun he => h (getD_inj_of_nodup _ hn _ _ hms hs he)
      have e1 : (p.2.steps.getD m.step 0 == p.2.steps.getD s 0) = false := beq_eq_false_iff_ne.mpr this
      have e2 : (m.step == s) = false := beq_eq_false_iff_ne.mpr h
      rw [e1, e2]
  rw [this]
  rfl

theorem flatMap_single {α β} (pre post : List α) (p : α) (f : α → List β)
    (h1 : ∀ a ∈ pre, f a = []) (h2 : ∀ a ∈ post, f a = []) : (pre ++ p :: post).flatMap f = f p := by
  have e1 : pre.flatMap f = [] := by
    rw [List.flatMap_eq_nil_iff]; exact h1
  have e2 : post.flatMap f = [] := by
    rw [List.flatMap_eq_nil_iff]; exact h2
  rw [List.flatMap_append, List.flatMap_cons, e1, e2]
  simp


/-- the nodal row of the joint mapping at an original step of interval `p` is the interval's nodal row, shifted -/
theorem nodalRow_joint (L : List IntervalIn) (off : Nat) (hwf : ∀ iv ∈ L, iv.wf) (hd : StepsDisjoint L)
    (hn : ∀ iv ∈ L, iv.steps.Nodup) (p : Nat × IntervalIn) (hp : p ∈ withOffsets off L) (n : String) (s : Nat)
    (hs : s < p.2.steps.length) :
    nodalRow ((withOffsets off L).flatMap jointRows) n (p.2.steps.getD s 0) =
      (nodalRow p.2.prob.mapping n s).rename (p.1 + ·) := by
  have hpw : (withOffsets off L).Pairwise fun a b => ∀ t ∈ a.2.steps, t ∉ b.2.steps := by
    have : ((withOffsets off L).map (·.2)).Pairwise fun a b => ∀ t ∈ a.steps, t ∉ b.steps := by
      rw [withOffsets_snd]; exact hd
    exact List.pairwise_map.mp this
  obtain ⟨pre, post, he⟩ := List.append_of_mem hp
  rw [he] at hpw
  obtain ⟨_, h2, h3⟩ := List.pairwise_append.mp hpw
  have h4 := (List.pairwise_cons.mp h2).1
  have hstep := getD_mem_nat _ _ hs
  have hmem : ∀ a ∈ withOffsets off L, a.2.wf := fun a ha => hwf _ (mem_withOffsets_snd ha)
  have key : ((withOffsets off L).flatMap jointRows).filter (isDisp n (p.2.steps.getD s 0)) =
      (jointRows p).filter (isDisp n (p.2.steps.getD s 0)) := by
    rw [List.filter_flatMap, he]
    apply flatMap_single
    · intro a ha
      exact filter_other_nil a (hmem a (by rw [he]; simp [ha])) n _ (fun hc => h3 a ha p List.mem_cons_self _ hc hstep)
    · intro a ha
      exact filter_other_nil a (hmem a (by rw [he]; simp [ha])) n _ (h4 a ha _ hstep)
  unfold nodalRow Row.rename
  simp only
  rw [key, filter_own p (hmem p hp) (hn _ (mem_withOffsets_snd hp)) n s hs]


theorem flatMap_snd {β} (g : IntervalIn → List β) (L : List IntervalIn) (off : Nat) :
    (withOffsets off L).flatMap (fun p => g p.2) = L.flatMap g := by
  induction L generalizing off with
  | nil => rfl
  | cons iv L ih => simp only [withOffsets, List.flatMap_cons, ih]

/-- the rows of type `N` of the block sum are, in order, the nodal rows of the joint mapping at the entries of the
    joint nodal record -/
theorem asm_filter_N (L : List IntervalIn) (off : Nat) (hwf : ∀ iv ∈ L, iv.wf) (hd : StepsDisjoint L)
    (hn : ∀ iv ∈ L, iv.steps.Nodup)
    (hN : ∀ iv ∈ L, iv.prob.rows.filter (·.kind == .N) =
      iv.prob.nodal.map fun q => nodalRow iv.prob.mapping q.2 q.1)
    (hq : ∀ iv ∈ L, ∀ q ∈ iv.prob.nodal, q.1 < iv.steps.length) :
    ((withOffsets off L).flatMap jointRowsOf).filter (·.kind == .N) =
      (L.flatMap fun iv => iv.prob.nodal.map fun q => (iv.steps.getD q.1 0, q.2)).map
        fun q => nodalRow ((withOffsets off L).flatMap jointRows) q.2 q.1 := by
  rw [← flatMap_snd (fun iv => iv.prob.nodal.map fun q => (iv.steps.getD q.1 0, q.2)) L off,
    List.filter_flatMap, List.map_flatMap, List.flatMap_def, List.flatMap_def]
  congr 1
  apply List.map_congr_left
  intro p hp
  have hiv := mem_withOffsets_snd hp
  unfold jointRowsOf
  rw [List.filter_map]
  have hk : ((fun r : Row => r.kind == .N) ∘ Row.rename (p.1 + ·)) = fun r : Row => r.kind == .N := rfl
  rw [hk, hN _ hiv, List.map_map, List.map_map]
  apply List.map_congr_left
  intro q hq'
  simp only [Function.comp]
  exact (nodalRow_joint L off hwf hd hn p hp q.2 q.1 (hq _ hiv q hq')).symm

end EAO.SplitMapping
