import EAO.Model.CoarseBuild
import EAO.Model.Readout
import EAO.Lemmas.Blocks
import EAO.Lemmas.Merge
import EAO.Lemmas.Contract
import EAO.Lemmas.Grid
/-!
# helper lemmas for `EAO/Properties/C13Builders.lean` (builders with a coarse asset frequency)

Part A: sums over ranges, regrouping a sum over the fine steps by coarse step.
Part B: the abstract statement on functions: owner / weight data (`Spread`), cost and bounds of a problem "spread" over
        the fine steps (`B` blocks of variables), same rate of an expansion, every same-rate point is an expansion.
Part C: the lists made from the minor lists (`ownerFrom`, `weightFrom`, `cellMapFrom`), what `extendMinor` writes for a
        mapping block, dispatch read-out of an extended coarse block = of the fine block at the expanded point.
Part D: two asset problems in the spread relation (`SpreadProblem`) are equivalent (`spreadProblem_equiv`).
Part E: a well-formed coarse grid gives a `Spread`; the fine grid `minorGrid` entry by entry.
Part F: inversion of `buildCoarseTransport` and the cores.      Part G: the transport is a `SpreadProblem`.
Part H: `expand` / `SameRate` of the model.                     Part I: the simple contract (inversion, parameter vectors
        on both grids, sign tests, one- and two-variable form as `SpreadProblem`).
Part M: `Grid.coarsen` on a top-level grid is well formed; whole coarse steps: `minorGrid = restrict`.
Part N: scalars are constant inside coarse steps; factor sums.  Part O: shape of the mappings the builders return.
Part P: the `freq=None` builders are the cores after the sampled series.   Part Q: discount factor of a coarse step.
Part R: the fine simple contract is built whenever the coarse one is.
-/
namespace EAO.CoarseBuild
open EAO EAO.Merge

/-! ## Part A: sums over ranges -/

/-- `Σ_{k<n} f k` -/
def rsum (n : Nat) (f : Nat → Rat) : Rat := ((List.range n).map f).sum

@[simp] theorem rsum_zero (f : Nat → Rat) : rsum 0 f = 0 := by simp [rsum]

theorem rsum_succ (n : Nat) (f : Nat → Rat) : rsum (n + 1) f = rsum n f + f n := by
  simp [rsum, List.range_succ, List.sum_append]
  grind

theorem rsum_congr (n : Nat) (f g : Nat → Rat) (h : ∀ k, k < n → f k = g k) : rsum n f = rsum n g := by
  unfold rsum
  congr 1
  apply List.map_congr_left
  intro k hk
  exact h k (List.mem_range.mp hk)

theorem rsum_const_zero (n : Nat) : rsum n (fun _ => 0) = 0 := by
  induction n with
  | zero => simp
  | succ n ih => rw [rsum_succ, ih]; grind

theorem rsum_add_fn (n : Nat) (f g : Nat → Rat) : rsum n (fun k => f k + g k) = rsum n f + rsum n g := by
  induction n with
  | zero => simp only [rsum_zero]; grind
  | succ n ih => rw [rsum_succ, rsum_succ, rsum_succ, ih]; grind

theorem rsum_mul_left (n : Nat) (a : Rat) (f : Nat → Rat) : rsum n (fun k => a * f k) = a * rsum n f := by
  induction n with
  | zero => simp
  | succ n ih => rw [rsum_succ, rsum_succ, ih]; grind

theorem rsum_mul_right (n : Nat) (a : Rat) (f : Nat → Rat) : rsum n (fun k => f k * a) = rsum n f * a := by
  induction n with
  | zero => simp
  | succ n ih => rw [rsum_succ, rsum_succ, ih]; grind

/-- `Σ_{k<a+b} = Σ_{k<a} + Σ_{k<b} f (a+k)` -/
theorem rsum_add (a b : Nat) (f : Nat → Rat) : rsum (a + b) f = rsum a f + rsum b (fun k => f (a + k)) := by
  induction b with
  | zero => simp only [Nat.add_zero, rsum_zero]; grind
  | succ b ih =>
    rw [show a + (b + 1) = (a + b) + 1 by omega, rsum_succ, rsum_succ, ih]
    grind

theorem rsum_single (n a : Nat) (ha : a < n) (f : Nat → Rat) :
    rsum n (fun j => if j = a then f j else 0) = f a := sum_range_single n a ha f

theorem costAt_eq_rsum (c : List Rat) (off : Nat) (x : Vec) :
    costAt c off x = rsum c.length (fun j => c.getD j 0 * x (off + j)) := costAt_eq_sum_range c off x

/-- regrouping by owner: `Σ_k h(o k)·w k = Σ_i h i · Σ_{k : o k = i} w k` -/
theorem rsum_regroup (n Tc : Nat) (o : Nat → Nat) (w : Nat → Rat) (h : Nat → Rat) (hlt : ∀ k, k < n → o k < Tc) :
    rsum n (fun k => h (o k) * w k) = rsum Tc (fun i => h i * rsum n (fun k => if o k = i then w k else 0)) := by
  induction n with
  | zero =>
    simp only [rsum_zero]
    rw [rsum_congr Tc _ (fun _ => 0) (fun i _ => by grind), rsum_const_zero]
  | succ n ih =>
    rw [rsum_succ, ih (fun k hk => hlt k (by omega))]
    have hstep : ∀ i, i < Tc → h i * rsum (n + 1) (fun k => if o k = i then w k else 0)
        = h i * rsum n (fun k => if o k = i then w k else 0) + (if i = o n then h i * w n else 0) := by
      intro i _
      rw [rsum_succ]
      by_cases hi : o n = i
      · rw [if_pos hi, if_pos hi.symm]; grind
      · rw [if_neg hi, if_neg (fun e => hi e.symm)]; grind
    rw [rsum_congr Tc _ _ hstep, rsum_add_fn, rsum_single Tc (o n) (hlt n (by omega)) (fun i => h i * w n)]

/-! ## Part B: a problem spread over the fine steps -/

/-- owner `o k` and weight `w k` of the fine steps `k < n` over `Tc` coarse steps: weights positive, adding up to one
    per coarse step (so every coarse step has a fine step) -/
structure Spread (o : Nat → Nat) (w : Nat → Rat) (n Tc : Nat) : Prop where
  lt : ∀ k, k < n → o k < Tc
  pos : ∀ k, k < n → 0 < w k
  one : ∀ i, i < Tc → rsum n (fun k => if o k = i then w k else 0) = 1

theorem Spread.surj {o : Nat → Nat} {w : Nat → Rat} {n Tc : Nat} (S : Spread o w n Tc) (i : Nat) (hi : i < Tc) :
    ∃ k, k < n ∧ o k = i := by
  apply Classical.byContradiction
  intro hne
  have h0 : rsum n (fun k => if o k = i then w k else 0) = 0 := by
    rw [rsum_congr n _ (fun _ => 0) (fun k hk => by
      have : ¬ o k = i := fun e => hne ⟨k, hk, e⟩
      simp [this]), rsum_const_zero]
  have := S.one i hi
  rw [h0] at this
  exact absurd this (by decide +kernel)

theorem Spread.n_pos {o : Nat → Nat} {w : Nat → Rat} {n Tc : Nat} (S : Spread o w n Tc) (hT : 0 < Tc) : 0 < n := by
  obtain ⟨k, hk, _⟩ := S.surj 0 hT
  omega

theorem block_lt (n b B k : Nat) (hb : b < B) (hk : k < n) : n * b + k < n * B := by
  have : n * (b + 1) ≤ n * B := Nat.mul_le_mul_left n (by omega)
  rw [Nat.mul_succ] at this
  omega

theorem block_div (n b k : Nat) (hk : k < n) : (n * b + k) / n = b := by
  rw [Nat.mul_add_div (by omega), Nat.div_eq_of_lt hk]; omega

theorem block_mod (n b k : Nat) (hk : k < n) : (n * b + k) % n = k := by
  rw [Nat.mul_add_mod, Nat.mod_eq_of_lt hk]

theorem block_split (n j : Nat) : n * (j / n) + j % n = j := Nat.div_add_mod j n

theorem div_lt_of_lt_mul (n B j : Nat) (h : j < n * B) : j / n < B := by
  have hn : 0 < n := by
    rcases Nat.eq_zero_or_pos n with h0 | h0
    · subst h0; simp at h
    · exact h0
  exact (Nat.div_lt_iff_lt_mul hn).mpr (by rw [Nat.mul_comm]; exact h)

theorem pos_of_lt_mul (n B j : Nat) (h : j < n * B) : 0 < n := by
  rcases Nat.eq_zero_or_pos n with h0 | h0
  · subst h0; simp at h
  · exact h0

/-- value: the spread cost at the expanded point is the coarse cost at the coarse point -/
theorem cost_spread {o : Nat → Nat} {w : Nat → Rat} {n Tc : Nat} (S : Spread o w n Tc) (B : Nat)
    (cf cc : Nat → Rat) (x z : Vec)
    (hc : ∀ b, b < B → ∀ k, k < n → cf (n * b + k) = cc (Tc * b + o k))
    (hx : ∀ b, b < B → ∀ k, k < n → x (n * b + k) = z (Tc * b + o k) * w k) :
    rsum (n * B) (fun j => cf j * x j) = rsum (Tc * B) (fun j => cc j * z j) := by
  induction B with
  | zero => simp
  | succ B ih =>
    rw [Nat.mul_succ, Nat.mul_succ, rsum_add, rsum_add,
      ih (fun b hb => hc b (by omega)) (fun b hb => hx b (by omega))]
    congr 1
    rw [rsum_congr n _ (fun k => (cc (Tc * B + o k) * z (Tc * B + o k)) * w k) (fun k hk => by
      rw [hc B (by omega) k hk, hx B (by omega) k hk]; grind)]
    rw [rsum_regroup n Tc o w (fun i => cc (Tc * B + i) * z (Tc * B + i)) S.lt]
    apply rsum_congr
    intro i hi
    rw [S.one i hi]; grind

/-- bounds: the expanded point is within the spread bounds iff the coarse point is within the coarse bounds -/
theorem bounds_spread {o : Nat → Nat} {w : Nat → Rat} {n Tc : Nat} (S : Spread o w n Tc) (B : Nat)
    (lf uf lc uc : Nat → Rat) (x z : Vec)
    (hl : ∀ b, b < B → ∀ k, k < n → lf (n * b + k) = lc (Tc * b + o k) * w k)
    (hu : ∀ b, b < B → ∀ k, k < n → uf (n * b + k) = uc (Tc * b + o k) * w k)
    (hx : ∀ b, b < B → ∀ k, k < n → x (n * b + k) = z (Tc * b + o k) * w k) :
    (∀ j, j < n * B → lf j ≤ x j ∧ x j ≤ uf j) ↔ (∀ j, j < Tc * B → lc j ≤ z j ∧ z j ≤ uc j) := by
  constructor
  · intro h j hj
    have hT := pos_of_lt_mul Tc B j hj
    have hb := div_lt_of_lt_mul Tc B j hj
    obtain ⟨k, hk, hok⟩ := S.surj (j % Tc) (Nat.mod_lt _ hT)
    have := h (n * (j / Tc) + k) (block_lt n _ B k hb hk)
    rw [hl _ hb k hk, hu _ hb k hk, hx _ hb k hk, hok, block_split] at this
    exact ⟨Rat.le_of_mul_le_mul_right this.1 (S.pos k hk), Rat.le_of_mul_le_mul_right this.2 (S.pos k hk)⟩
  · intro h j hj
    have hn := pos_of_lt_mul n B j hj
    have hb := div_lt_of_lt_mul n B j hj
    have hk : j % n < n := Nat.mod_lt _ hn
    have := h (Tc * (j / n) + o (j % n)) (block_lt Tc _ B _ hb (S.lt _ hk))
    have e := block_split n j
    have hl' := hl _ hb _ hk
    have hu' := hu _ hb _ hk
    have hx' := hx _ hb _ hk
    rw [e] at hl' hu' hx'
    rw [hl', hu', hx']
    exact ⟨Rat.mul_le_mul_of_nonneg_right this.1 (Rat.le_of_lt (S.pos _ hk)),
      Rat.mul_le_mul_of_nonneg_right this.2 (Rat.le_of_lt (S.pos _ hk))⟩

/-- same rate: function form of `EAO.SameRate` -/
def SameRateF (n : Nat) (o : Nat → Nat) (dts : Nat → Rat) (N : Nat) (x : Vec) : Prop :=
  ∀ j k, j < N → k < N → j / n = k / n → o (j % n) = o (k % n) → x j * dts (k % n) = x k * dts (j % n)

/-- the expansion of any coarse point has the same rate inside every coarse step -/
theorem sameRate_expand (n Tc : Nat) (o : Nat → Nat) (dts dC : Nat → Rat) (N : Nat) (z : Vec) :
    SameRateF n o dts N (fun j => z (Tc * (j / n) + o (j % n)) * (dts (j % n) / dC (o (j % n)))) := by
  intro j k _ _ hb ho
  simp only [hb, ho, Rat.div_def]
  grind

theorem rat_cancel (a b p q D : Rat) (h : a * q = b * p) (hp : p ≠ 0) (hD : D ≠ 0) :
    a * D * p⁻¹ * (q * D⁻¹) = b := by
  have h1 := Rat.mul_inv_cancel p hp
  have h2 := Rat.mul_inv_cancel D hD
  calc a * D * p⁻¹ * (q * D⁻¹) = (a * q) * (D * D⁻¹) * p⁻¹ := by grind
    _ = b * (p * p⁻¹) := by rw [h, h2]; grind
    _ = b := by rw [h1]; grind

/-- first fine step of coarse step `i` -/
def firstOf (n : Nat) (o : Nat → Nat) (i : Nat) : Nat := ((List.range n).find? fun k => o k == i).getD 0

theorem firstOf_spec (n : Nat) (o : Nat → Nat) (i k : Nat) (hk : k < n) (hok : o k = i) :
    firstOf n o i < n ∧ o (firstOf n o i) = i := by
  unfold firstOf
  cases hf : (List.range n).find? (fun k => o k == i) with
  | none =>
    have := List.find?_eq_none.mp hf k (List.mem_range.mpr hk)
    simp [hok] at this
  | some k0 =>
    have h1 := List.find?_some hf
    have h2 := List.mem_of_find?_eq_some hf
    simp only [Option.getD_some]
    exact ⟨List.mem_range.mp h2, by simpa using h1⟩

/-- every point with the same rate inside every coarse step is the expansion of a coarse point -/
theorem expand_surj {o : Nat → Nat} {w : Nat → Rat} {n Tc : Nat} (S : Spread o w n Tc) (B : Nat)
    (dts dC : Nat → Rat) (hw : ∀ k, k < n → w k = dts k / dC (o k))
    (x : Vec) (hx : SameRateF n o dts (n * B) x) :
    ∃ z : Vec, ∀ j, j < n * B → x j = z (Tc * (j / n) + o (j % n)) * w (j % n) := by
  refine ⟨fun j' => x (n * (j' / Tc) + firstOf n o (j' % Tc)) * dC (j' % Tc) * (dts (firstOf n o (j' % Tc)))⁻¹, ?_⟩
  intro j hj
  have hn := pos_of_lt_mul n B j hj
  have hb := div_lt_of_lt_mul n B j hj
  have hk : j % n < n := Nat.mod_lt _ hn
  have hoT := S.lt _ hk
  obtain ⟨hf1, hf2⟩ := firstOf_spec n o (o (j % n)) (j % n) hk rfl
  simp only [block_div Tc (j / n) _ hoT, block_mod Tc (j / n) _ hoT]
  -- positivity of the step lengths involved
  have hwk := S.pos _ hk
  have hwf := S.pos _ hf1
  rw [hw _ hk] at hwk
  rw [hw _ hf1, hf2] at hwf
  have hD : dC (o (j % n)) ≠ 0 := by
    intro h0
    rw [h0, Rat.div_def, Rat.inv_zero, Rat.mul_zero] at hwk
    exact absurd hwk (by decide +kernel)
  have hp : dts (firstOf n o (o (j % n))) ≠ 0 := by
    intro h0
    rw [h0, Rat.div_def, Rat.zero_mul] at hwf
    exact absurd hwf (by decide +kernel)
  have hsr := hx (n * (j / n) + firstOf n o (o (j % n))) j (block_lt n _ B _ hb hf1) hj
    (by rw [block_div n _ _ hf1]) (by rw [block_mod n _ _ hf1, hf2])
  rw [block_mod n _ _ hf1] at hsr
  rw [hw _ hk, Rat.div_def]
  exact (rat_cancel _ _ _ _ _ hsr hp hD).symm

/-! ## Part C: the lists made from the minor lists -/

/-- `f owner step` for every minor step, coarse steps counted from `i0` -/
def cellMapFrom {β : Type} (f : Nat → Nat → β) (i0 : Nat) : List (List Nat) → List β
  | [] => []
  | cell :: rest => cell.map (f i0) ++ cellMapFrom f (i0 + 1) rest

theorem ownerFrom_eq (i0 : Nat) (cells : List (List Nat)) :
    ownerFrom i0 cells = cellMapFrom (fun i _ => i) i0 cells := by
  induction cells generalizing i0 with
  | nil => rfl
  | cons c rest ih => simp [ownerFrom, cellMapFrom, ih]

theorem weightFrom_eq (dtF dtC : List Rat) (i0 : Nat) (cells : List (List Nat)) :
    weightFrom dtF dtC i0 cells = cellMapFrom (fun i t => dtF.getD t 0 / dtC.getD i 0) i0 cells := by
  induction cells generalizing i0 with
  | nil => rfl
  | cons c rest ih => simp [weightFrom, cellMapFrom, ih]

theorem flatten_eq (i0 : Nat) (cells : List (List Nat)) :
    cells.flatten = cellMapFrom (fun _ t => t) i0 cells := by
  induction cells generalizing i0 with
  | nil => rfl
  | cons c rest ih => simp [cellMapFrom, ← ih]

theorem cellMapFrom_map {β γ : Type} (f : Nat → Nat → β) (g : β → γ) (i0 : Nat) (cells : List (List Nat)) :
    (cellMapFrom f i0 cells).map g = cellMapFrom (fun i t => g (f i t)) i0 cells := by
  induction cells generalizing i0 with
  | nil => rfl
  | cons c rest ih => simp [cellMapFrom, ih]

/-- (owner, step) of every minor step -/
def ot (i0 : Nat) (cells : List (List Nat)) : List (Nat × Nat) := cellMapFrom (fun i t => (i, t)) i0 cells

theorem cellMapFrom_eq_ot {β : Type} (f : Nat → Nat → β) (i0 : Nat) (cells : List (List Nat)) :
    cellMapFrom f i0 cells = (ot i0 cells).map fun p => f p.1 p.2 := by
  unfold ot; rw [cellMapFrom_map]

theorem mem_ot (i0 : Nat) (cells : List (List Nat)) (p : Nat × Nat) (h : p ∈ ot i0 cells) :
    i0 ≤ p.1 ∧ p.1 < i0 + cells.length ∧ p.2 ∈ cells.getD (p.1 - i0) [] := by
  induction cells generalizing i0 with
  | nil => simp [ot, cellMapFrom] at h
  | cons c rest ih =>
    simp only [ot, cellMapFrom, List.mem_append, List.mem_map] at h
    rcases h with ⟨t, ht, rfl⟩ | h
    · simp [ht]
    · obtain ⟨h1, h2, h3⟩ := ih (i0 + 1) h
      refine ⟨by omega, by simp; omega, ?_⟩
      have : p.1 - i0 = (p.1 - (i0 + 1)) + 1 := by omega
      rw [this, List.getD_cons_succ]; exact h3

theorem getD_map' {α β : Type} (L : List α) (f : α → β) (k : Nat) (hk : k < L.length) (d : α) (e : β) :
    (L.map f).getD k e = f (L.getD k d) := by
  simp [List.getD_eq_getElem?_getD, List.getElem?_eq_getElem hk]

theorem ot_length (i0 : Nat) (cells : List (List Nat)) : (ot i0 cells).length = cells.flatten.length := by
  rw [flatten_eq i0 cells, cellMapFrom_eq_ot]; simp

/-- `k`-th entry of any list made from the minor lists, through the `k`-th (owner, step) pair -/
theorem getD_cellMapFrom {β : Type} (f : Nat → Nat → β) (i0 : Nat) (cells : List (List Nat)) (k : Nat)
    (hk : k < cells.flatten.length) (d : β) :
    (cellMapFrom f i0 cells).getD k d = f ((ot i0 cells).getD k (0, 0)).1 ((ot i0 cells).getD k (0, 0)).2 := by
  rw [cellMapFrom_eq_ot, getD_map' _ _ k (by rw [ot_length]; exact hk) (0, 0)]

theorem owner_getD (i0 : Nat) (cells : List (List Nat)) (k : Nat) (hk : k < cells.flatten.length) :
    (ownerFrom i0 cells).getD k 0 = ((ot i0 cells).getD k (0, 0)).1 := by
  rw [ownerFrom_eq, getD_cellMapFrom _ _ _ _ hk]

theorem flat_getD (i0 : Nat) (cells : List (List Nat)) (k : Nat) (hk : k < cells.flatten.length) :
    cells.flatten.getD k 0 = ((ot i0 cells).getD k (0, 0)).2 := by
  have := getD_cellMapFrom (fun _ t => t) i0 cells k hk 0
  rw [← flatten_eq] at this
  exact this

theorem ot_getD_mem (i0 : Nat) (cells : List (List Nat)) (k : Nat) (hk : k < cells.flatten.length) :
    (ot i0 cells).getD k (0, 0) ∈ ot i0 cells := by
  have hk' : k < (ot i0 cells).length := by rw [ot_length]; exact hk
  rw [List.getD_eq_getElem?_getD, List.getElem?_eq_getElem hk', Option.getD_some]
  exact List.getElem_mem hk'

theorem ownerFrom_length (i0 : Nat) (cells : List (List Nat)) : (ownerFrom i0 cells).length = cells.flatten.length := by
  rw [ownerFrom_eq, cellMapFrom_eq_ot, List.length_map, ot_length]

theorem weightFrom_length (dtF dtC : List Rat) (i0 : Nat) (cells : List (List Nat)) :
    (weightFrom dtF dtC i0 cells).length = cells.flatten.length := by
  rw [weightFrom_eq, cellMapFrom_eq_ot, List.length_map, ot_length]

/-- a list made from the minor lists, entry by entry, through owner and step -/
theorem getD_cellMapFrom' {β : Type} (f : Nat → Nat → β) (cells : List (List Nat)) (k : Nat)
    (hk : k < cells.flatten.length) (d : β) :
    (cellMapFrom f 0 cells).getD k d = f ((ownerFrom 0 cells).getD k 0) (cells.flatten.getD k 0) := by
  rw [getD_cellMapFrom _ _ _ _ hk, owner_getD _ _ _ hk, flat_getD 0 _ _ hk]

theorem rsum_succ_front (n : Nat) (f : Nat → Rat) : rsum (n + 1) f = f 0 + rsum n (fun k => f (k + 1)) := by
  simp [rsum, List.range_succ_eq_map, List.map_map, Function.comp_def]

theorem rsum_getD {α : Type} (L : List α) (d : α) (G : α → Rat) :
    rsum L.length (fun k => G (L.getD k d)) = (L.map G).sum := by
  induction L with
  | nil => simp
  | cons a L ih =>
    rw [List.length_cons, rsum_succ_front]
    simp only [List.getD_cons_zero, List.getD_cons_succ, List.map_cons, List.sum_cons, ih]

/-- what the minor lists, the fine and the coarse step lengths must satisfy (true for `Grid.coarsen` on a grid with
    positive step lengths): the coarse step is as long as its minor steps together, which exist and have positive length -/
structure CellsOK (cells : List (List Nat)) (dtF dtC : List Rat) : Prop where
  sum : ∀ i, i < cells.length → dtC.getD i 0 = ((cells.getD i []).map (dtF.getD · 0)).sum
  pos : ∀ cell, cell ∈ cells → ∀ t, t ∈ cell → 0 < dtF.getD t 0
  nonempty : ∀ cell, cell ∈ cells → cell ≠ []

theorem sum_pos_of_pos (L : List Nat) (f : Nat → Rat) (hne : L ≠ []) (hpos : ∀ t, t ∈ L → 0 < f t) :
    0 < (L.map f).sum := by
  induction L with
  | nil => exact absurd rfl hne
  | cons a L ih =>
    rw [List.map_cons, List.sum_cons]
    have ha := hpos a List.mem_cons_self
    cases L with
    | nil => simp; grind
    | cons b L' =>
      have := ih (by simp) (fun t ht => hpos t (List.mem_cons_of_mem _ ht))
      grind

theorem getD_mem_of_lt {α : Type} (L : List α) (i : Nat) (hi : i < L.length) (d : α) : L.getD i d ∈ L := by
  rw [List.getD_eq_getElem?_getD, List.getElem?_eq_getElem hi, Option.getD_some]
  exact List.getElem_mem hi

theorem CellsOK.dtC_pos {cells : List (List Nat)} {dtF dtC : List Rat} (h : CellsOK cells dtF dtC) (i : Nat)
    (hi : i < cells.length) : 0 < dtC.getD i 0 := by
  rw [h.sum i hi]
  have hm := getD_mem_of_lt cells i hi []
  exact sum_pos_of_pos _ _ (h.nonempty _ hm) (h.pos _ hm)

/-- sum over all minor steps of an expression that vanishes off coarse step `i` -/
theorem sum_ot_single (g : Nat → Nat → Rat) (i : Nat) (i0 : Nat) (cells : List (List Nat)) :
    ((ot i0 cells).map fun p => if p.1 = i then g p.1 p.2 else 0).sum
      = if i0 ≤ i ∧ i < i0 + cells.length then ((cells.getD (i - i0) []).map (g i)).sum else 0 := by
  induction cells generalizing i0 with
  | nil => simp [ot, cellMapFrom]
  | cons c rest ih =>
    have hot : ot i0 (c :: rest) = c.map (fun t => (i0, t)) ++ ot (i0 + 1) rest := rfl
    rw [hot, List.map_append, List.sum_append, ih (i0 + 1), List.map_map]
    by_cases h0 : i0 = i
    · subst h0
      have h1 : ¬ (i0 + 1 ≤ i0 ∧ i0 < i0 + 1 + rest.length) := by omega
      have h2 : (i0 ≤ i0 ∧ i0 < i0 + (c :: rest).length) := by simp
      rw [if_neg h1, if_pos h2]
      simp only [Function.comp_def, if_true, Nat.sub_self, List.getD_cons_zero]
      grind
    · have hz : (c.map ((fun p : Nat × Nat => if p.1 = i then g p.1 p.2 else 0) ∘ fun t => (i0, t))).sum = 0 := by
        apply sum_map_eq_zero
        intro t _
        simp [h0]
      rw [hz]
      by_cases h1 : i0 + 1 ≤ i ∧ i < i0 + 1 + rest.length
      · have h2 : i0 ≤ i ∧ i < i0 + (c :: rest).length := by simp; omega
        rw [if_pos h1, if_pos h2]
        have : i - i0 = (i - (i0 + 1)) + 1 := by omega
        rw [this, List.getD_cons_succ]; grind
      · have h2 : ¬ (i0 ≤ i ∧ i < i0 + (c :: rest).length) := by simp; omega
        rw [if_neg h1, if_neg h2]; grind

/-- the owner and weight lists of a coarse grid form a `Spread` -/
theorem spread_of_cells {cells : List (List Nat)} {dtF dtC : List Rat} (h : CellsOK cells dtF dtC) :
    Spread (fun k => (ownerFrom 0 cells).getD k 0) (fun k => (weightFrom dtF dtC 0 cells).getD k 0)
      cells.flatten.length cells.length := by
  refine ⟨fun k hk => ?_, fun k hk => ?_, fun i hi => ?_⟩
  · rw [owner_getD 0 _ _ hk]
    have := (mem_ot 0 cells _ (ot_getD_mem 0 cells k hk)).2.1
    omega
  · show 0 < (weightFrom dtF dtC 0 cells).getD k 0
    rw [weightFrom_eq, getD_cellMapFrom _ _ _ _ hk]
    obtain ⟨_, h2, h3⟩ := mem_ot 0 cells _ (ot_getD_mem 0 cells k hk)
    have hi : ((ot 0 cells).getD k (0, 0)).1 < cells.length := by omega
    have hD := h.dtC_pos _ hi
    have hF := h.pos _ (getD_mem_of_lt cells _ hi []) _ h3
    rw [Rat.div_def]
    exact Rat.mul_pos hF (Rat.inv_pos.mpr hD)
  · have hcong : rsum cells.flatten.length (fun k => if (ownerFrom 0 cells).getD k 0 = i then (weightFrom dtF dtC 0 cells).getD k 0 else 0)
        = rsum (ot 0 cells).length (fun k => (fun p : Nat × Nat => if p.1 = i then dtF.getD p.2 0 / dtC.getD p.1 0 else 0)
            ((ot 0 cells).getD k (0, 0))) := by
      rw [ot_length]
      apply rsum_congr
      intro k hk
      rw [owner_getD 0 _ _ hk, weightFrom_eq, getD_cellMapFrom _ _ _ _ hk]
    rw [hcong, rsum_getD (ot 0 cells) (0, 0) (fun p : Nat × Nat => if p.1 = i then dtF.getD p.2 0 / dtC.getD p.1 0 else 0),
      sum_ot_single (fun i t => dtF.getD t 0 / dtC.getD i 0) i 0 cells,
      if_pos ⟨by omega, by omega⟩, Nat.sub_zero]
    have hD := h.dtC_pos i hi
    have e : ((cells.getD i []).map fun t => dtF.getD t 0 / dtC.getD i 0)
        = ((cells.getD i []).map (dtF.getD · 0)).map (· / dtC.getD i 0) := by rw [List.map_map]; rfl
    rw [e, sum_map_div, ← h.sum i hi, Rat.div_def]
    exact Rat.mul_inv_cancel _ (fun e0 => by rw [e0] at hD; exact absurd hD (by decide +kernel))

/-! ### mapping blocks and their extension to the minor grid -/

/-- a dispatch mapping row with factor `f` -/
def genRow (asset node varName : String) (f : Rat) (var step : Nat) : MapRow :=
  { var := var, asset := asset, node := some node, kind := .d, step := step, factor := f, isBool := false,
    varName := varName }

/-- one variable per step of the grid, numbered from `off`: the shape of `dispBlock` and `transportBlock` -/
def genBlock (asset node varName : String) (f : Rat) (off : Nat) (g : Grid) : List MapRow :=
  g.idx.zipIdx.map fun ti => genRow asset node varName f (off + ti.2) ti.1

theorem dispBlock_eq (asset node varName : String) (off : Nat) (g : Grid) :
    dispBlock asset node varName off g = genBlock asset node varName 1 off g := rfl

theorem transportBlock_eq (asset node : String) (f : Rat) (g : Grid) :
    transportBlock asset node f g = genBlock asset node "disp" f 0 g := by
  simp [transportBlock, genBlock, genRow]

theorem flatMap_congr' {α β : Type} (L : List α) (f g : α → List β) (h : ∀ a, a ∈ L → f a = g a) :
    L.flatMap f = L.flatMap g := by
  induction L with
  | nil => rfl
  | cons a L ih =>
    rw [List.flatMap_cons, List.flatMap_cons, h a List.mem_cons_self,
      ih (fun b hb => h b (List.mem_cons_of_mem _ hb))]

theorem range_flatMap_getD {β : Type} (f : Nat → Nat → β) (i0 : Nat) (cells : List (List Nat)) :
    (List.range cells.length).flatMap (fun i => (cells.getD i []).map (f (i0 + i))) = cellMapFrom f i0 cells := by
  induction cells generalizing i0 with
  | nil => rfl
  | cons c rest ih =>
    rw [List.length_cons, List.range_succ_eq_map, List.flatMap_cons, List.flatMap_map]
    simp only [List.getD_cons_zero, List.getD_cons_succ, Nat.add_zero, cellMapFrom]
    congr 1
    rw [← ih (i0 + 1)]
    apply flatMap_congr'
    intro i _
    rw [show i0 + Nat.succ i = i0 + 1 + i by omega]

/-- what `__extend_mapping_to_minor_grid__` makes of a block: one row per minor step, variable of the coarse step,
    factor `dt_fine/dt_coarse · f` -/
theorem extend_genBlock (asset node varName : String) (f : Rat) (off : Nat) (cg : CoarseGrid) (dtF : List Rat)
    (hnd : cg.grid.idx.Nodup) (hlen : cg.minor.length = cg.grid.idx.length) :
    (genBlock asset node varName f off cg.grid).flatMap (extendRow cg dtF)
      = cellMapFrom (fun i t => genRow asset node varName (dtF.getD t 0 / cg.grid.dt.getD i 0 * f) (off + i) t) 0 cg.minor := by
  unfold genBlock
  rw [List.flatMap_map]
  have hrow : ∀ si, si ∈ cg.grid.idx.zipIdx →
      extendRow cg dtF (genRow asset node varName f (off + si.2) si.1)
        = (cg.minor.getD si.2 []).map (fun t => genRow asset node varName (dtF.getD t 0 / cg.grid.dt.getD si.2 0 * f) (off + si.2) t) := by
    intro si hsi
    obtain ⟨s, i⟩ := si
    obtain ⟨hi, hs⟩ := List.mem_zipIdx' hsi
    have hmaj : majorOf cg (genRow asset node varName f (off + i) s) = some i := by
      show cg.grid.idx.idxOf? s = some i
      rw [idxOf?_eq, if_pos (by rw [hs]; exact List.getElem_mem hi), hs, hnd.idxOf_getElem i hi]
    unfold extendRow
    rw [hmaj]
    rfl
  rw [flatMap_congr' _ _ _ hrow]
  have h2 : cg.grid.idx.zipIdx.flatMap (fun si => (cg.minor.getD si.2 []).map
        (fun t => genRow asset node varName (dtF.getD t 0 / cg.grid.dt.getD si.2 0 * f) (off + si.2) t))
      = (cg.grid.idx.zipIdx.map Prod.snd).flatMap (fun i => (cg.minor.getD i []).map
        (fun t => genRow asset node varName (dtF.getD t 0 / cg.grid.dt.getD i 0 * f) (off + i) t)) := by
    rw [List.flatMap_map]
  rw [h2, List.zipIdx_map_snd, ← List.range_eq_range', ← hlen]
  have := range_flatMap_getD (fun i t => genRow asset node varName (dtF.getD t 0 / cg.grid.dt.getD i 0 * f) (off + i) t) 0 cg.minor
  simpa using this

theorem dispatchOut_append (M1 M2 : List MapRow) (a n : String) (t : Nat) (x : Vec) :
    dispatchOut (M1 ++ M2) a n t x = dispatchOut M1 a n t x + dispatchOut M2 a n t x := by
  simp [dispatchOut, List.filter_append, List.map_append, List.sum_append]

/-- two mappings made row by row from one list, with the same selection and the same contribution per row -/
theorem dispatchOut_map_congr {α : Type} (L : List α) (r1 r2 : α → MapRow) (a n : String) (t : Nat) (z x : Vec)
    (h : ∀ e, e ∈ L → (r1 e).asset = (r2 e).asset ∧ (r1 e).node = (r2 e).node ∧ (r1 e).kind = (r2 e).kind ∧
      (r1 e).step = (r2 e).step ∧ (r1 e).contrib z = (r2 e).contrib x) :
    dispatchOut (L.map r1) a n t z = dispatchOut (L.map r2) a n t x := by
  unfold dispatchOut
  induction L with
  | nil => rfl
  | cons e L ih =>
    obtain ⟨h1, h2, h3, h4, h5⟩ := h e List.mem_cons_self
    have hc : ((r1 e).asset == a && isDisp n t (r1 e)) = ((r2 e).asset == a && isDisp n t (r2 e)) := by
      simp [isDisp, h1, h2, h3, h4]
    have ih' := ih (fun e' he' => h e' (List.mem_cons_of_mem _ he'))
    simp only [List.map_cons, List.filter_cons, hc]
    split
    · simp only [List.map_cons, List.sum_cons, h5, ih']
    · exact ih'

/-- dispatch read off the extended coarse block at the coarse point = dispatch read off the fine block at the
    expanded point, at every node and step -/
theorem dispatch_block (asset node varName : String) (f : Rat) (offC offF : Nat) (cells : List (List Nat))
    (dtF dtC : List Rat) (gf : Grid) (hidx : gf.idx = cells.flatten) (z x : Vec)
    (hx : ∀ k, k < cells.flatten.length →
      x (offF + k) = z (offC + (ownerFrom 0 cells).getD k 0) * (weightFrom dtF dtC 0 cells).getD k 0)
    (a n : String) (t : Nat) :
    dispatchOut (cellMapFrom (fun i s => genRow asset node varName (dtF.getD s 0 / dtC.getD i 0 * f) (offC + i) s) 0 cells)
        a n t z
      = dispatchOut (genBlock asset node varName f offF gf) a n t x := by
  have e1 : cellMapFrom (fun i s => genRow asset node varName (dtF.getD s 0 / dtC.getD i 0 * f) (offC + i) s) 0 cells
      = ((ot 0 cells).zipIdx).map (fun q => genRow asset node varName (dtF.getD q.1.2 0 / dtC.getD q.1.1 0 * f) (offC + q.1.1) q.1.2) := by
    rw [cellMapFrom_eq_ot]
    conv => lhs; rw [← List.zipIdx_map_fst 0 (ot 0 cells), List.map_map]
    rfl
  have e2 : genBlock asset node varName f offF gf
      = ((ot 0 cells).zipIdx).map (fun q => genRow asset node varName f (offF + q.2) q.1.2) := by
    unfold genBlock
    rw [hidx, flatten_eq 0 cells, cellMapFrom_eq_ot, List.zipIdx_map, List.map_map]
    rfl
  rw [e1, e2]
  apply dispatchOut_map_congr
  intro q hq
  obtain ⟨p, k⟩ := q
  obtain ⟨hk, hp⟩ := List.mem_zipIdx' hq
  rw [ot_length] at hk
  refine ⟨rfl, rfl, rfl, rfl, ?_⟩
  have hpk : (ot 0 cells).getD k (0, 0) = p := by
    have hk' : k < (ot 0 cells).length := by rw [ot_length]; exact hk
    rw [List.getD_eq_getElem?_getD, List.getElem?_eq_getElem hk', Option.getD_some, hp]
  have ho := owner_getD 0 cells k hk
  have hw : (weightFrom dtF dtC 0 cells).getD k 0 = dtF.getD p.2 0 / dtC.getD p.1 0 := by
    rw [weightFrom_eq, getD_cellMapFrom _ _ _ _ hk, hpk]
  rw [hpk] at ho
  show z (offC + p.1) * (dtF.getD p.2 0 / dtC.getD p.1 0 * f) = x (offF + k) * f
  rw [hx k hk, ho, hw]
  grind

/-! ## Part D: two problems in the spread relation -/

/-- `Pf` is `Pc` spread over the fine steps: `B` blocks of variables; cost of a fine variable = cost of its coarse
    variable, bounds = coarse bounds times the weight, no rows, and the two mappings read the same dispatch off a
    coarse point and its expansion -/
structure SpreadProblem (B : Nat) (o : Nat → Nat) (w : Nat → Rat) (n Tc : Nat) (Pc Pf : AssetProblem) : Prop where
  cLenC : Pc.c.length = Tc * B
  lLenC : Pc.l.length = Tc * B
  cLenF : Pf.c.length = n * B
  lLenF : Pf.l.length = n * B
  c : ∀ b, b < B → ∀ k, k < n → Pf.c.getD (n * b + k) 0 = Pc.c.getD (Tc * b + o k) 0
  l : ∀ b, b < B → ∀ k, k < n → Pf.l.getD (n * b + k) 0 = Pc.l.getD (Tc * b + o k) 0 * w k
  u : ∀ b, b < B → ∀ k, k < n → Pf.u.getD (n * b + k) 0 = Pc.u.getD (Tc * b + o k) 0 * w k
  rowsC : Pc.rows = []
  rowsF : Pf.rows = []
  disp : ∀ z x : Vec, (∀ b, b < B → ∀ k, k < n → x (n * b + k) = z (Tc * b + o k) * w k) →
    ∀ a nd t, dispatchOut Pf.mapping a nd t x = dispatchOut Pc.mapping a nd t z

theorem spreadProblem_equiv {B : Nat} {o : Nat → Nat} {w : Nat → Rat} {n Tc : Nat} {Pc Pf : AssetProblem}
    (S : Spread o w n Tc) (SP : SpreadProblem B o w n Tc Pc Pf) (z x : Vec)
    (hx : ∀ b, b < B → ∀ k, k < n → x (n * b + k) = z (Tc * b + o k) * w k) :
    (Pc.FeasibleRelaxed z ↔ Pf.FeasibleRelaxed x) ∧ costAt Pf.c 0 x = costAt Pc.c 0 z ∧
    ∀ a nd t, dispatchOut Pf.mapping a nd t x = dispatchOut Pc.mapping a nd t z := by
  refine ⟨?_, ?_, SP.disp z x hx⟩
  · unfold AssetProblem.FeasibleRelaxed InBounds
    rw [SP.rowsC, SP.rowsF, SP.lLenC, SP.lLenF]
    have := bounds_spread S B (fun j => Pf.l.getD j 0) (fun j => Pf.u.getD j 0) (fun j => Pc.l.getD j 0)
      (fun j => Pc.u.getD j 0) x z SP.l SP.u hx
    simp only [List.not_mem_nil, false_imp_iff, implies_true, and_true]
    exact this.symm
  · rw [costAt_eq_rsum, costAt_eq_rsum, SP.cLenC, SP.cLenF]
    simp only [Nat.zero_add]
    exact cost_spread S B (fun j => Pf.c.getD j 0) (fun j => Pc.c.getD j 0) x z SP.c hx

/-- the expansion of the model (`EAO.expand`) satisfies the block equations -/
theorem expand_blocks (owner : List Nat) (wl : List Rat) (Tc : Nat) (z : Vec) (b k : Nat) (hk : k < owner.length) :
    expand owner wl Tc z (owner.length * b + k) = z (Tc * b + owner.getD k 0) * wl.getD k 0 := by
  unfold expand
  rw [block_div _ _ _ hk, block_mod _ _ _ hk]

theorem getD_zipWith_mul (a b : List Rat) (k : Nat) :
    (List.zipWith (· * ·) a b).getD k 0 = a.getD k 0 * b.getD k 0 := by
  induction a generalizing b k with
  | nil => simp [Rat.zero_mul]
  | cons x xs ih =>
    cases b with
    | nil => simp [Rat.mul_zero]
    | cons y ys =>
      cases k with
      | zero => simp
      | succ k =>
        simp only [List.zipWith_cons_cons, List.getD_cons_succ]
        exact ih ys k

theorem getD_zipWith_sub (a b : List Rat) (k : Nat) (h : a.length = b.length) :
    (List.zipWith (· - ·) a b).getD k 0 = a.getD k 0 - b.getD k 0 := by
  induction a generalizing b k with
  | nil =>
    cases b with
    | nil => simp; grind
    | cons y ys => simp at h
  | cons x xs ih =>
    cases b with
    | nil => simp at h
    | cons y ys =>
      cases k with
      | zero => simp
      | succ k =>
        simp only [List.zipWith_cons_cons, List.getD_cons_succ]
        exact ih ys k (by simpa using h)

theorem getD_zipWith_add (a b : List Rat) (k : Nat) (h : a.length = b.length) :
    (List.zipWith (· + ·) a b).getD k 0 = a.getD k 0 + b.getD k 0 := by
  induction a generalizing b k with
  | nil =>
    cases b with
    | nil => simp; grind
    | cons y ys => simp at h
  | cons x xs ih =>
    cases b with
    | nil => simp at h
    | cons y ys =>
      cases k with
      | zero => simp
      | succ k =>
        simp only [List.zipWith_cons_cons, List.getD_cons_succ]
        exact ih ys k (by simpa using h)

theorem getD_map_rat (L : List Rat) (f : Rat → Rat) (k : Nat) (hk : k < L.length) :
    (L.map f).getD k 0 = f (L.getD k 0) := getD_map' L f k hk 0 0

theorem getD_spreadList (owner : List Nat) (v : List Rat) (k : Nat) (hk : k < owner.length) :
    (spreadList owner v).getD k 0 = v.getD (owner.getD k 0) 0 := by
  unfold spreadList
  exact getD_map' owner _ k hk 0 0

/-- `all` of a predicate that is invariant under the spread -/
theorem all_spread {o : Nat → Nat} {w : Nat → Rat} {n Tc : Nat} (S : Spread o w n Tc) (lf lc : List Rat)
    (hf : lf.length = n) (hc : lc.length = Tc) (P : Rat → Bool)
    (h : ∀ k, k < n → P (lf.getD k 0) = P (lc.getD (o k) 0)) : lf.all P = lc.all P := by
  rw [Bool.eq_iff_iff, List.all_eq_true, List.all_eq_true]
  constructor
  · intro hall v hv
    obtain ⟨i, hi, rfl⟩ := List.getElem_of_mem hv
    obtain ⟨k, hk, hok⟩ := S.surj i (by omega)
    have := hall (lf.getD k 0) (getD_mem_of_lt lf k (by omega) 0)
    rw [h k hk, hok, List.getD_eq_getElem?_getD, List.getElem?_eq_getElem hi, Option.getD_some] at this
    exact this
  · intro hall v hv
    obtain ⟨k, hk, rfl⟩ := List.getElem_of_mem hv
    have h1 := h k (by omega)
    have h2 := hall (lc.getD (o k) 0) (getD_mem_of_lt lc (o k) (by have := S.lt k (by omega); omega) 0)
    rw [List.getD_eq_getElem?_getD, List.getElem?_eq_getElem hk, Option.getD_some] at h1
    rw [h1]; exact h2

/-! ## Part E: the coarse grid as a spread -/

section ctx
variable {ref : Grid} {cg : CoarseGrid}

theorem cellsOK_of_wf (hwf : cg.WellFormed ref.dt) : CellsOK cg.minor ref.dt cg.grid.dt :=
  ⟨hwf.dtSum, hwf.dtPos, hwf.nonempty⟩

theorem owner_length : cg.owner.length = cg.minor.flatten.length := ownerFrom_length 0 cg.minor

theorem weights_length : (cg.weights ref.dt).length = cg.minor.flatten.length := weightFrom_length _ _ 0 cg.minor

/-- owner and weights of a well-formed coarse grid form a `Spread` over its `T` coarse steps -/
theorem spread_of_wf (hwf : cg.WellFormed ref.dt) :
    Spread (fun k => cg.owner.getD k 0) (fun k => (cg.weights ref.dt).getD k 0) cg.owner.length cg.grid.T := by
  have := spread_of_cells (cellsOK_of_wf hwf)
  rw [owner_length, ← hwf.minorLen]
  exact this

theorem minorGrid_T : (minorGrid ref cg).T = cg.owner.length := by
  show (cg.minor.flatten.map _).length = _
  rw [List.length_map, owner_length]

theorem minorGrid_ok : (minorGrid ref cg).Ok := by
  unfold Grid.Ok Grid.T
  refine ⟨?_, ?_, ?_⟩ <;> simp only [minorGrid, List.length_map]

theorem minorGrid_dt_getD (k : Nat) (hk : k < cg.owner.length) :
    (minorGrid ref cg).dt.getD k 0 = ref.dt.getD (cg.minor.flatten.getD k 0) 0 := by
  rw [owner_length] at hk
  exact getD_map' cg.minor.flatten _ k hk 0 0

theorem minorGrid_df_getD (k : Nat) (hk : k < cg.owner.length) :
    (minorGrid ref cg).df.getD k 0 = ref.df.getD (cg.minor.flatten.getD k 0) 0 := by
  rw [owner_length] at hk
  exact getD_map' cg.minor.flatten _ k hk 0 0

theorem owner_lt (hwf : cg.WellFormed ref.dt) (k : Nat) (hk : k < cg.owner.length) : cg.owner.getD k 0 < cg.grid.T :=
  (spread_of_wf hwf).lt k hk

/-- the `k`-th fine step is a minor step of its owner -/
theorem flat_mem_owner (k : Nat) (hk : k < cg.owner.length) :
    cg.minor.flatten.getD k 0 ∈ cg.minor.getD (cg.owner.getD k 0) [] := by
  rw [owner_length] at hk
  have := (mem_ot 0 cg.minor _ (ot_getD_mem 0 cg.minor k hk)).2.2
  rw [Nat.sub_zero] at this
  show cg.minor.flatten.getD k 0 ∈ cg.minor.getD ((ownerFrom 0 cg.minor).getD k 0) []
  rw [owner_getD 0 _ _ hk, flat_getD 0 _ _ hk]
  exact this

theorem weight_eq (k : Nat) (hk : k < cg.owner.length) :
    (cg.weights ref.dt).getD k 0 = (minorGrid ref cg).dt.getD k 0 / cg.grid.dt.getD (cg.owner.getD k 0) 0 := by
  rw [minorGrid_dt_getD k hk]
  rw [owner_length] at hk
  show (weightFrom ref.dt cg.grid.dt 0 cg.minor).getD k 0 = _
  rw [weightFrom_eq, getD_cellMapFrom' _ _ _ hk]
  rfl

theorem dtC_ne (hwf : cg.WellFormed ref.dt) (k : Nat) (hk : k < cg.owner.length) :
    cg.grid.dt.getD (cg.owner.getD k 0) 0 ≠ 0 := by
  have h1 := owner_lt hwf k hk
  rw [← hwf.minorLen] at h1
  have := (cellsOK_of_wf hwf).dtC_pos _ h1
  intro e
  rw [e] at this
  exact absurd this (by decide +kernel)

/-- coarse step length times weight = fine step length -/
theorem dtC_mul_weight (hwf : cg.WellFormed ref.dt) (k : Nat) (hk : k < cg.owner.length) :
    cg.grid.dt.getD (cg.owner.getD k 0) 0 * (cg.weights ref.dt).getD k 0 = (minorGrid ref cg).dt.getD k 0 := by
  rw [weight_eq k hk, Rat.div_def]
  have := Rat.mul_inv_cancel _ (dtC_ne hwf k hk)
  calc cg.grid.dt.getD (cg.owner.getD k 0) 0 * ((minorGrid ref cg).dt.getD k 0 * (cg.grid.dt.getD (cg.owner.getD k 0) 0)⁻¹)
      = (minorGrid ref cg).dt.getD k 0 * (cg.grid.dt.getD (cg.owner.getD k 0) 0 * (cg.grid.dt.getD (cg.owner.getD k 0) 0)⁻¹) := by grind
    _ = (minorGrid ref cg).dt.getD k 0 := by rw [this]; grind

/-- equal discount factors inside a coarse step, read at the fine positions -/
theorem df_spread (hdf : EqualDiscount ref cg) (hwf : cg.WellFormed ref.dt) (k : Nat) (hk : k < cg.owner.length) :
    (minorGrid ref cg).df.getD k 0 = cg.grid.df.getD (cg.owner.getD k 0) 0 := by
  rw [minorGrid_df_getD k hk]
  have h1 := owner_lt hwf k hk
  rw [← hwf.minorLen] at h1
  exact hdf _ h1 _ (flat_mem_owner k hk)

theorem weight_pos (hwf : cg.WellFormed ref.dt) (k : Nat) (hk : k < cg.owner.length) : 0 < (cg.weights ref.dt).getD k 0 :=
  (spread_of_wf hwf).pos k hk

/-- multiplying by a positive weight does not change the sign tests of the builders -/
theorem decide_le_zero_mul (a w : Rat) (hw : 0 < w) : decide (a * w ≤ 0) = decide (a ≤ 0) := by
  rw [decide_eq_decide]
  constructor
  · intro h
    have : a * w ≤ 0 * w := by rw [Rat.zero_mul]; exact h
    exact Rat.le_of_mul_le_mul_right this hw
  · intro h
    have := Rat.mul_le_mul_of_nonneg_right h (Rat.le_of_lt hw)
    rwa [Rat.zero_mul] at this

theorem decide_zero_le_mul (a w : Rat) (hw : 0 < w) : decide (0 ≤ a * w) = decide (0 ≤ a) := by
  rw [decide_eq_decide]
  constructor
  · intro h
    have : 0 * w ≤ a * w := by rw [Rat.zero_mul]; exact h
    exact Rat.le_of_mul_le_mul_right this hw
  · intro h
    have := Rat.mul_le_mul_of_nonneg_right h (Rat.le_of_lt hw)
    rwa [Rat.zero_mul] at this

/-- the two mapping blocks, for any block offsets -/
theorem dispatch_block_cg (hwf : cg.WellFormed ref.dt) (asset node varName : String) (f : Rat) (b : Nat) (z x : Vec)
    (hx : ∀ k, k < cg.owner.length →
      x (cg.owner.length * b + k) = z (cg.grid.T * b + cg.owner.getD k 0) * (cg.weights ref.dt).getD k 0)
    (a n : String) (t : Nat) :
    dispatchOut ((genBlock asset node varName f (cg.grid.T * b) cg.grid).flatMap (extendRow cg ref.dt)) a n t z
      = dispatchOut (genBlock asset node varName f (cg.owner.length * b) (minorGrid ref cg)) a n t x := by
  rw [extend_genBlock _ _ _ _ _ _ _ hwf.nodup (by rw [hwf.minorLen, hwf.ok.1])]
  exact dispatch_block asset node varName f _ _ cg.minor ref.dt cg.grid.dt (minorGrid ref cg) rfl z x
    (fun k hk => hx k (by rw [owner_length]; exact hk)) a n t

end ctx

/-! ## Part F: inversion of the builders -/

theorem extendMapping_ok {M M' : List MapRow} {cg : CoarseGrid} {dtF : List Rat}
    (h : extendMapping M cg dtF = .ok M') : M' = M.flatMap (extendRow cg dtF) := by
  unfold extendMapping extendMinor at h
  split at h
  · rename_i M'' hm
    split at hm
    · injection hm with hm
      simp only [pure, Except.pure] at h
      injection h with h
      rw [← h, ← hm]
    · cases hm
  · simp [throw, throwThe, MonadExceptOf.throw] at h

theorem meanVector_ok {arr : List Rat} {minor : List (List Nat)} {r : List Rat}
    (h : meanVector arr minor = .ok r) : r = minor.map (meanAt arr) := by
  unfold meanVector at h
  split at h
  · simp only [pure, Except.pure] at h
    injection h with h
    exact h.symm
  · simp [throw, throwThe, MonadExceptOf.throw] at h

theorem coarseCosts_length {key : Option String} {minor : List (List Nat)} {prices : Prices} {fullT : Nat}
    {r : List Rat} (h : coarseCosts key minor prices fullT = .ok r) : r.length = minor.length := by
  unfold coarseCosts at h
  cases key with
  | none => simp only at h; rw [meanVector_ok h]; simp
  | some k =>
    simp only at h
    cases hl : prices.lookup k with
    | none => simp [hl, throw, throwThe, MonadExceptOf.throw] at h
    | some arr =>
      simp only [hl] at h
      split at h
      · rw [meanVector_ok h]; simp
      · simp [throw, throwThe, MonadExceptOf.throw] at h

theorem coarsePrice_length {key : Option String} {minor : List (List Nat)} {prices : Prices} {fullT : Nat}
    {r : List Rat} (h : coarsePrice key minor prices fullT = .ok r) : r.length = minor.length := by
  unfold coarsePrice at h
  cases key with
  | none => simp only at h; rw [meanVector_ok h]; simp
  | some k =>
    simp only at h
    cases hl : prices.lookup k with
    | none => simp [hl, throw, throwThe, MonadExceptOf.throw] at h
    | some arr =>
      simp only [hl] at h
      split at h
      · rw [meanVector_ok h]; simp
      · simp [throw, throwThe, MonadExceptOf.throw] at h

/-- the sign / zero tests of `Transport.setup_optim_problem` -/
def trFlags (p : TransportP) (g : Grid) (cts : List Rat) : Bool :=
  (g.dt.map (p.maxCap * ·)).all (fun v => decide (v ≤ 0)) || (g.dt.map (p.minCap * ·)).all (fun v => decide (0 ≤ v))
    || (cts.map (· + p.costsConst)).all (fun v => v == 0)

theorem transportCore_ok {p : TransportP} {n0 n1 : String} {g : Grid} {cts : List Rat} {a : AssetProblem}
    (h : transportCore p n0 n1 g cts = .ok a) : a = trProblem p g n0 n1 cts ∧ trFlags p g cts = true := by
  unfold transportCore at h
  simp only [bind, Except.bind, pure, Except.pure] at h
  split at h
  · simp [throw, throwThe, MonadExceptOf.throw] at h
  · rename_i hfl
    injection h with h
    refine ⟨by rw [← h]; rfl, ?_⟩
    have hfl' : ¬ ((!(trFlags p g cts)) = true) := hfl
    cases hX : trFlags p g cts
    · simp [hX] at hfl'
    · rfl

theorem transportCore_of_flags (p : TransportP) (n0 n1 : String) (g : Grid) (cts : List Rat)
    (h : trFlags p g cts = true) : transportCore p n0 n1 g cts = .ok (trProblem p g n0 n1 cts) := by
  unfold transportCore
  simp only [bind, Except.bind, pure, Except.pure]
  split
  · rename_i hc
    have hc' : (!(trFlags p g cts)) = true := hc
    rw [h] at hc'
    cases hc'
  · rfl

theorem buildCoarseTransport_ok {p : TransportP} {cg : CoarseGrid} {dtF : List Rat} {prices : Prices} {fullT : Nat}
    {Pc : AssetProblem} (h : buildCoarseTransport p cg dtF prices fullT = .ok Pc) :
    ∃ n0 n1 cts, p.nodes = [n0, n1] ∧ ¬ p.maxCap < p.minCap ∧ 0 < p.efficiency ∧
      coarseCosts p.costsKey cg.minor prices fullT = .ok cts ∧ trFlags p cg.grid cts = true ∧
      Pc = { trProblem p cg.grid n0 n1 cts with
             mapping := (trProblem p cg.grid n0 n1 cts).mapping.flatMap (extendRow cg dtF) } := by
  unfold buildCoarseTransport at h
  split at h
  · rename_i n0 n1 hn
    simp only [bind, Except.bind, pure, Except.pure] at h
    split at h
    · simp [throw, throwThe, MonadExceptOf.throw] at h
    rename_i h1
    split at h
    · simp [throw, throwThe, MonadExceptOf.throw] at h
    rename_i h2
    cases hc : coarseCosts p.costsKey cg.minor prices fullT with
    | error e => simp [hc] at h
    | ok cts =>
      simp only [hc] at h
      cases ha : transportCore p n0 n1 cg.grid cts with
      | error e => simp [ha] at h
      | ok a =>
        simp only [ha] at h
        cases hm : extendMapping a.mapping cg dtF with
        | error e => simp [hm] at h
        | ok M =>
          simp only [hm] at h
          injection h with h
          obtain ⟨rfl, hfl⟩ := transportCore_ok ha
          refine ⟨n0, n1, cts, hn, h1, by simpa using h2, rfl, hfl, ?_⟩
          rw [← h, extendMapping_ok hm]
  · simp [throw, throwThe, MonadExceptOf.throw] at h

theorem trProblem_c_getD (p : TransportP) (g : Grid) (n0 n1 : String) (cts : List Rat) (k : Nat) (hk : k < cts.length) :
    (trProblem p g n0 n1 cts).c.getD k 0
      = (if (g.dt.map (p.maxCap * ·)).all (fun v => decide (v ≤ 0)) then -(cts.getD k 0 + p.costsConst)
         else cts.getD k 0 + p.costsConst) * g.df.getD k 0 := by
  show (List.zipWith (· * ·) _ g.df).getD k 0 = _
  rw [getD_zipWith_mul]
  congr 1
  split
  · rw [List.map_map, getD_map_rat _ _ k hk]; rfl
  · rw [getD_map_rat _ _ k hk]

/-! ## Part G: the transport -/

section transport
variable {ref : Grid} {cg : CoarseGrid}

/-- capacity vectors `rate · dt`: fine entry = coarse entry of the owner times the weight -/
theorem cap_spread (hwf : cg.WellFormed ref.dt) (r : Rat) (k : Nat) (hk : k < cg.owner.length) :
    ((minorGrid ref cg).dt.map (r * ·)).getD k 0
      = (cg.grid.dt.map (r * ·)).getD (cg.owner.getD k 0) 0 * (cg.weights ref.dt).getD k 0 := by
  have hT := owner_lt hwf k hk
  rw [getD_map_rat _ _ k (by rw [minorGrid_ok.2.1, minorGrid_T]; exact hk),
    getD_map_rat _ _ _ (by rw [hwf.ok.2.1]; exact hT), ← dtC_mul_weight hwf k hk]
  grind

theorem trFlags_spread (hwf : cg.WellFormed ref.dt) (p : TransportP) (cts : List Rat) (hlen : cts.length = cg.minor.length) :
    ((minorGrid ref cg).dt.map (p.maxCap * ·)).all (fun v => decide (v ≤ 0))
        = (cg.grid.dt.map (p.maxCap * ·)).all (fun v => decide (v ≤ 0)) ∧
    trFlags p (minorGrid ref cg) (spreadList cg.owner cts) = trFlags p cg.grid cts := by
  have S := spread_of_wf hwf
  have hlf : ∀ r, ((minorGrid ref cg).dt.map (r * ·)).length = cg.owner.length := by
    intro r; rw [List.length_map, minorGrid_ok.2.1, minorGrid_T]
  have hlc : ∀ r, (cg.grid.dt.map (r * ·)).length = cg.grid.T := by
    intro r; rw [List.length_map, hwf.ok.2.1]
  have h1 := all_spread S _ _ (hlf p.maxCap) (hlc p.maxCap) (fun v => decide (v ≤ 0)) (fun k hk => by
    show decide (_ ≤ 0) = decide (_ ≤ 0)
    rw [cap_spread hwf _ k hk]
    exact decide_le_zero_mul _ _ (weight_pos hwf k hk))
  have h2 := all_spread S _ _ (hlf p.minCap) (hlc p.minCap) (fun v => decide (0 ≤ v)) (fun k hk => by
    show decide (0 ≤ _) = decide (0 ≤ _)
    rw [cap_spread hwf _ k hk]
    exact decide_zero_le_mul _ _ (weight_pos hwf k hk))
  have h3 := all_spread S ((spreadList cg.owner cts).map (· + p.costsConst)) (cts.map (· + p.costsConst))
    (by simp [spreadList]) (by rw [List.length_map, hlen, hwf.minorLen]) (fun v => v == 0) (fun k hk => by
      have hT := owner_lt hwf k hk
      rw [getD_map_rat _ _ k (by simp [spreadList]; exact hk), getD_map_rat _ _ _ (by rw [hlen, hwf.minorLen]; exact hT),
        getD_spreadList _ _ k hk])
  refine ⟨h1, ?_⟩
  unfold trFlags
  rw [h1, h2, h3]

theorem transport_spread (hwf : cg.WellFormed ref.dt) (hdf : EqualDiscount ref cg) (p : TransportP) (n0 n1 : String)
    (cts : List Rat) (hlen : cts.length = cg.minor.length) :
    SpreadProblem 1 (fun k => cg.owner.getD k 0) (fun k => (cg.weights ref.dt).getD k 0) cg.owner.length cg.grid.T
      { trProblem p cg.grid n0 n1 cts with
        mapping := (trProblem p cg.grid n0 n1 cts).mapping.flatMap (extendRow cg ref.dt) }
      (trProblem p (minorGrid ref cg) n0 n1 (spreadList cg.owner cts)) := by
  have hflag := (trFlags_spread hwf p cts hlen).1
  have hctsT : cts.length = cg.grid.T := by rw [hlen, hwf.minorLen]
  have hsl : (spreadList cg.owner cts).length = cg.owner.length := by simp [spreadList]
  refine
    { cLenC := ?_, lLenC := ?_, cLenF := ?_, lLenF := ?_, c := ?_, l := ?_, u := ?_, rowsC := rfl, rowsF := rfl, disp := ?_ }
  · show (List.zipWith (· * ·) _ cg.grid.df).length = _
    rw [List.length_zipWith, hwf.ok.2.2]
    split <;> simp [hctsT]
  · show (cg.grid.dt.map _).length = _
    rw [List.length_map, hwf.ok.2.1]; omega
  · show (List.zipWith (· * ·) _ (minorGrid ref cg).df).length = _
    rw [List.length_zipWith, minorGrid_ok.2.2, minorGrid_T]
    split <;> simp [hsl]
  · show ((minorGrid ref cg).dt.map _).length = _
    rw [List.length_map, minorGrid_ok.2.1, minorGrid_T]; omega
  · intro b hb k hk
    obtain rfl : b = 0 := by omega
    simp only [Nat.mul_zero, Nat.zero_add]
    have hT := owner_lt hwf k hk
    show (trProblem p (minorGrid ref cg) n0 n1 (spreadList cg.owner cts)).c.getD k 0
      = (trProblem p cg.grid n0 n1 cts).c.getD (cg.owner.getD k 0) 0
    rw [trProblem_c_getD _ _ _ _ _ k (by rw [hsl]; exact hk), trProblem_c_getD _ _ _ _ _ _ (by rw [hctsT]; exact hT),
      hflag, getD_spreadList _ _ k hk, df_spread hdf hwf k hk]
  · intro b hb k hk
    obtain rfl : b = 0 := by omega
    simp only [Nat.mul_zero, Nat.zero_add]
    exact cap_spread hwf p.minCap k hk
  · intro b hb k hk
    obtain rfl : b = 0 := by omega
    simp only [Nat.mul_zero, Nat.zero_add]
    exact cap_spread hwf p.maxCap k hk
  · intro z x hx a nd t
    have hx0 : ∀ k, k < cg.owner.length →
        x (cg.owner.length * 0 + k) = z (cg.grid.T * 0 + cg.owner.getD k 0) * (cg.weights ref.dt).getD k 0 :=
      fun k hk => hx 0 (by omega) k hk
    show dispatchOut (transportBlock p.name n0 (-1) (minorGrid ref cg) ++ transportBlock p.name n1 p.efficiency (minorGrid ref cg)) a nd t x
      = dispatchOut ((transportBlock p.name n0 (-1) cg.grid ++ transportBlock p.name n1 p.efficiency cg.grid).flatMap (extendRow cg ref.dt)) a nd t z
    rw [List.flatMap_append, dispatchOut_append, dispatchOut_append]
    simp only [transportBlock_eq]
    have e1 := dispatch_block_cg hwf p.name n0 "disp" (-1) 0 z x hx0 a nd t
    have e2 := dispatch_block_cg hwf p.name n1 "disp" p.efficiency 0 z x hx0 a nd t
    simp only [Nat.mul_zero] at e1 e2
    rw [e1, e2]

end transport

/-! ## Part H: `expand` and `SameRate` of the model -/

section rate
variable {ref : Grid} {cg : CoarseGrid}

/-- the expansion of any coarse point has the same rate in all fine steps of a coarse step -/
theorem sameRate_expand_cg (B : Nat) (z : Vec) :
    SameRate cg.owner (minorGrid ref cg).dt (cg.owner.length * B)
      (expand cg.owner (cg.weights ref.dt) cg.grid.T z) := by
  intro j k hj hk hb ho
  have hn := pos_of_lt_mul _ _ _ hj
  have hjm : j % cg.owner.length < cg.owner.length := Nat.mod_lt _ hn
  have hkm : k % cg.owner.length < cg.owner.length := Nat.mod_lt _ hn
  unfold expand
  rw [weight_eq _ hjm, weight_eq _ hkm, hb, ho]
  simp only [Rat.div_def]
  grind

/-- every point with the same rate inside every coarse step is the expansion of a coarse point -/
theorem expand_surj_cg (hwf : cg.WellFormed ref.dt) (B : Nat) (x : Vec)
    (hx : SameRate cg.owner (minorGrid ref cg).dt (cg.owner.length * B) x) :
    ∃ z : Vec, ∀ j, j < cg.owner.length * B → x j = expand cg.owner (cg.weights ref.dt) cg.grid.T z j :=
  expand_surj (spread_of_wf hwf) B (fun k => (minorGrid ref cg).dt.getD k 0) (fun i => cg.grid.dt.getD i 0)
    (fun k hk => weight_eq k hk) x hx

/-- the block equations for the model's `expand` -/
theorem expand_hx (B : Nat) (z : Vec) :
    ∀ b, b < B → ∀ k, k < cg.owner.length →
      expand cg.owner (cg.weights ref.dt) cg.grid.T z (cg.owner.length * b + k)
        = z (cg.grid.T * b + cg.owner.getD k 0) * (cg.weights ref.dt).getD k 0 :=
  fun b _ k hk => expand_blocks cg.owner (cg.weights ref.dt) cg.grid.T z b k hk

end rate

/-! ## Part I: the simple contract -/

theorem simpleCore_ok {p : ContractP} {g : Grid} {prices : Prices} {price : List Rat} {P : AssetProblem}
    (h : simpleCore p g prices price = .ok P) :
    ∃ d : SCData, ∃ minO maxO ecO, d.price = price ∧
      contractVectors p g prices = .ok (minO, maxO, ecO) ∧
      allSome ecO = .ok d.ec ∧ allSome minO = .ok d.minC ∧ allSome maxO = .ok d.maxC ∧
      (∃ rest, p.nodes = d.node :: rest) ∧
      P = if oneVariable d.ec d.minC d.maxC then scOne p g d else scTwo p g d := by
  unfold simpleCore at h
  simp only [bind, Except.bind, pure, Except.pure] at h
  cases hv : contractVectors p g prices with
  | error e => simp [hv] at h
  | ok v =>
  obtain ⟨minO, maxO, ecO⟩ := v
  cases hn : p.nodes with
  | nil => simp [hv, hn, throw, throwThe, MonadExceptOf.throw] at h
  | cons n rest =>
  cases he : allSome ecO with
  | error e => simp [hv, hn, he] at h
  | ok ec =>
  cases hmi : allSome minO with
  | error e => simp [hv, hn, he, hmi] at h
  | ok minC =>
  cases hma : allSome maxO with
  | error e => simp [hv, hn, he, hmi, hma] at h
  | ok maxC =>
  simp only [hv, hn, he, hmi, hma] at h
  refine ⟨⟨price, ec, minC, maxC, n⟩, minO, maxO, ecO, rfl, rfl, he, hmi, hma, ⟨rest, rfl⟩, ?_⟩
  by_cases h1 : oneVariable ec minC maxC = true
  · simp only [h1, if_true] at h ⊢
    injection h with h
    rw [← h]; simp [scOne, hn]
  · simp only [h1] at h ⊢
    injection h with h
    rw [← h]; simp [scTwo, hn]

theorem buildCoarseSimpleContract_ok {p : ContractP} {cg : CoarseGrid} {dtF : List Rat} {prices : Prices} {fullT : Nat}
    {Pc : AssetProblem} (h : buildCoarseSimpleContract p cg dtF prices fullT = .ok Pc) :
    scalarIllPosed p.minCap p.maxCap = false ∧
    ∃ price a, coarsePrice p.price cg.minor prices fullT = .ok price ∧ simpleCore p cg.grid prices price = .ok a ∧
      Pc = { a with mapping := a.mapping.flatMap (extendRow cg dtF) } := by
  unfold buildCoarseSimpleContract at h
  simp only [bind, Except.bind, pure, Except.pure] at h
  split at h
  · simp [throw, throwThe, MonadExceptOf.throw] at h
  rename_i hill
  cases hp : coarsePrice p.price cg.minor prices fullT with
  | error e => simp [hp] at h
  | ok price =>
    simp only [hp] at h
    cases ha : simpleCore p cg.grid prices price with
    | error e => simp [ha] at h
    | ok a =>
      simp only [ha] at h
      cases hm : extendMapping a.mapping cg dtF with
      | error e => simp [hm] at h
      | ok M =>
        simp only [hm] at h
        injection h with h
        refine ⟨by simpa using hill, price, a, by first | rfl | assumption, by first | rfl | assumption, ?_⟩
        rw [← h, extendMapping_ok hm]

theorem fineSimpleContract_eq {p : ContractP} {ref : Grid} {cg : CoarseGrid} {prices : Prices} {fullT : Nat}
    {price : List Rat} (hill : scalarIllPosed p.minCap p.maxCap = false)
    (hp : coarsePrice p.price cg.minor prices fullT = .ok price) :
    fineSimpleContract p ref cg prices fullT = simpleCore p (minorGrid ref cg) prices (spreadList cg.owner price) := by
  unfold fineSimpleContract
  rw [hill, hp]
  rfl

theorem getD_map_some (L : List Rat) (k : Nat) (hk : k < L.length) : (L.map some).getD k none = some (L.getD k 0) :=
  getD_map' L some k hk 0 none

section contract
variable {ref : Grid} {cg : CoarseGrid}

/-- `make_vector(…, convert=True)` on the fine and on the coarse grid, for a parameter that is constant inside
    every coarse step: fine entry = coarse entry of the owner times the weight -/
theorem vec_spread_conv (hwf : cg.WellFormed ref.dt) {v : ParamValue} {prices : Prices}
    {xsC xsF : List (Option Rat)} {ysC ysF : List Rat}
    (hC : makeVector v cg.grid prices none true = .ok xsC) (haC : allSome xsC = .ok ysC)
    (hF : makeVector v (minorGrid ref cg) prices none true = .ok xsF) (haF : allSome xsF = .ok ysF)
    (hcap : baseVector v (minorGrid ref cg) prices none = (baseVector v cg.grid prices none).map (spreadO cg.owner))
    (k : Nat) (hk : k < cg.owner.length) :
    ysF.getD k 0 = ysC.getD (cg.owner.getD k 0) 0 * (cg.weights ref.dt).getD k 0 := by
  obtain ⟨rC, hbC, hlC, rfl⟩ := capVector_eq hwf.ok hC haC
  obtain ⟨rF, hbF, hlF, rfl⟩ := capVector_eq minorGrid_ok hF haF
  rw [hbC, hbF] at hcap
  have hcap' : rF.map some = spreadO cg.owner (rC.map some) := by
    simp only [Except.map] at hcap
    injection hcap
  have hT := owner_lt hwf k hk
  have hkF : k < rF.length := by rw [hlF, minorGrid_T]; exact hk
  have e : (rF.map some).getD k none = (spreadO cg.owner (rC.map some)).getD k none := by rw [hcap']
  rw [getD_map_some _ _ hkF] at e
  unfold spreadO at e
  rw [getD_map' cg.owner _ k hk 0 none, getD_map_some _ _ (by rw [hlC]; exact hT)] at e
  injection e with e
  rw [getD_zipWith_mul, getD_zipWith_mul, e, ← dtC_mul_weight hwf k hk]
  grind

/-- `make_vector(…, default 0)` without conversion: fine entry = coarse entry of the owner -/
theorem vec_spread_noconv (hwf : cg.WellFormed ref.dt) {v : ParamValue} {prices : Prices}
    {xsC xsF : List (Option Rat)} {ysC ysF : List Rat}
    (hC : makeVector v cg.grid prices (some 0) false = .ok xsC) (haC : allSome xsC = .ok ysC)
    (hF : makeVector v (minorGrid ref cg) prices (some 0) false = .ok xsF) (haF : allSome xsF = .ok ysF)
    (hcap : baseVector v (minorGrid ref cg) prices (some 0) = (baseVector v cg.grid prices (some 0)).map (spreadO cg.owner))
    (k : Nat) (hk : k < cg.owner.length) :
    ysF.getD k 0 = ysC.getD (cg.owner.getD k 0) 0 := by
  obtain ⟨bC, hbC, hxC⟩ := makeVector_ok hC
  obtain ⟨bF, hbF, hxF⟩ := makeVector_ok hF
  simp only [Bool.false_eq_true, if_false] at hxC hxF
  subst hxC hxF
  have hlC := baseVector_length hwf.ok hbC
  rw [hbC, hbF] at hcap
  have hcap' : xsF = spreadO cg.owner xsC := by
    simp only [Except.map] at hcap
    injection hcap
  rw [(allSome_ok haC).1, (allSome_ok haF).1]
  have hT := owner_lt hwf k hk
  rw [hcap']
  unfold spreadO
  rw [getD_map' _ (fun o : Option Rat => o.getD 0) k (by simp; exact hk) none 0,
    getD_map' cg.owner _ k hk 0 none,
    getD_map' xsC (fun o : Option Rat => o.getD 0) _ (by rw [hlC]; exact hT) none 0]

end contract

/-! ### cost and bounds of the two forms -/

theorem oneVarPrice_getD (price ec minC maxC : List Rat) (hl : price.length = ec.length) (k : Nat) :
    (oneVarPrice price ec minC maxC).getD k 0
      = price.getD k 0 +
        (if ec.any (fun e => e != 0) then
          (if maxC.all (fun v => decide (v ≤ 0)) then - ec.getD k 0 else 0)
          + (if minC.all (fun v => decide (0 ≤ v)) then ec.getD k 0 else 0)
         else 0) := by
  unfold oneVarPrice
  by_cases h0 : ec.any (fun e => e != 0) = true
  · rw [if_pos h0, if_pos h0]
    by_cases h1 : maxC.all (fun v => decide (v ≤ 0)) = true
    · by_cases h2 : minC.all (fun v => decide (0 ≤ v)) = true
      · simp only [h1, h2, if_true]
        rw [getD_zipWith_add _ _ _ (by simp [hl]), getD_zipWith_sub _ _ _ hl]; grind
      · simp only [h1, h2, if_true, if_false, Bool.false_eq_true]
        rw [getD_zipWith_sub _ _ _ hl]; grind
    · by_cases h2 : minC.all (fun v => decide (0 ≤ v)) = true
      · simp only [h1, h2, if_true, if_false, Bool.false_eq_true]
        rw [getD_zipWith_add _ _ _ hl]; grind
      · simp only [h1, h2, if_false, Bool.false_eq_true]; grind
  · rw [if_neg h0, if_neg h0]; grind

theorem rmin_zero_mul (a w : Rat) (hw : 0 < w) : rmin 0 (a * w) = rmin 0 a * w := by
  unfold rmin
  have h := decide_zero_le_mul a w hw
  rw [decide_eq_decide] at h
  by_cases ha : 0 ≤ a
  · rw [if_pos (h.mpr ha), if_pos ha]; grind
  · rw [if_neg (fun e => ha (h.mp e)), if_neg ha]

theorem rmax_zero_mul (a w : Rat) (hw : 0 < w) : rmax 0 (a * w) = rmax 0 a * w := by
  unfold rmax
  have h := decide_zero_le_mul a w hw
  rw [decide_eq_decide] at h
  by_cases ha : 0 ≤ a
  · rw [if_pos (h.mpr ha), if_pos ha]
  · rw [if_neg (fun e => ha (h.mp e)), if_neg ha]; grind

section contract2
variable {ref : Grid} {cg : CoarseGrid}

/-- what the coarse and the fine build looked at, entry by entry -/
structure DataSpread (ref : Grid) (cg : CoarseGrid) (dC dF : SCData) : Prop where
  node : dF.node = dC.node
  lenC : dC.price.length = cg.grid.T ∧ dC.ec.length = cg.grid.T ∧ dC.minC.length = cg.grid.T ∧ dC.maxC.length = cg.grid.T
  lenF : dF.price.length = cg.owner.length ∧ dF.ec.length = cg.owner.length ∧ dF.minC.length = cg.owner.length ∧
         dF.maxC.length = cg.owner.length
  price : ∀ k, k < cg.owner.length → dF.price.getD k 0 = dC.price.getD (cg.owner.getD k 0) 0
  ec : ∀ k, k < cg.owner.length → dF.ec.getD k 0 = dC.ec.getD (cg.owner.getD k 0) 0
  minC : ∀ k, k < cg.owner.length → dF.minC.getD k 0 = dC.minC.getD (cg.owner.getD k 0) 0 * (cg.weights ref.dt).getD k 0
  maxC : ∀ k, k < cg.owner.length → dF.maxC.getD k 0 = dC.maxC.getD (cg.owner.getD k 0) 0 * (cg.weights ref.dt).getD k 0

theorem flags_spread (hwf : cg.WellFormed ref.dt) {dC dF : SCData} (D : DataSpread ref cg dC dF) :
    dF.ec.all (fun e => e == 0) = dC.ec.all (fun e => e == 0) ∧
    dF.ec.any (fun e => e != 0) = dC.ec.any (fun e => e != 0) ∧
    dF.maxC.all (fun v => decide (v ≤ 0)) = dC.maxC.all (fun v => decide (v ≤ 0)) ∧
    dF.minC.all (fun v => decide (0 ≤ v)) = dC.minC.all (fun v => decide (0 ≤ v)) := by
  have S := spread_of_wf hwf
  have h1 := all_spread S dF.ec dC.ec D.lenF.2.1 D.lenC.2.1 (fun e => e == 0) (fun k hk => by rw [D.ec k hk])
  have h1' := all_spread S dF.ec dC.ec D.lenF.2.1 D.lenC.2.1 (fun e => !(e != 0)) (fun k hk => by rw [D.ec k hk])
  have h2 := all_spread S dF.maxC dC.maxC D.lenF.2.2.2 D.lenC.2.2.2 (fun v => decide (v ≤ 0)) (fun k hk => by
    show decide (_ ≤ 0) = decide (_ ≤ 0)
    rw [D.maxC k hk]; exact decide_le_zero_mul _ _ (weight_pos hwf k hk))
  have h3 := all_spread S dF.minC dC.minC D.lenF.2.2.1 D.lenC.2.2.1 (fun v => decide (0 ≤ v)) (fun k hk => by
    show decide (0 ≤ _) = decide (0 ≤ _)
    rw [D.minC k hk]; exact decide_zero_le_mul _ _ (weight_pos hwf k hk))
  refine ⟨h1, ?_, h2, h3⟩
  rw [List.any_eq_not_all_not, List.any_eq_not_all_not, h1']

theorem oneVariable_spread (hwf : cg.WellFormed ref.dt) {dC dF : SCData} (D : DataSpread ref cg dC dF) :
    oneVariable dF.ec dF.minC dF.maxC = oneVariable dC.ec dC.minC dC.maxC := by
  obtain ⟨h1, _, h2, h3⟩ := flags_spread hwf D
  unfold oneVariable
  rw [h1, h2, h3]

end contract2

section contract3
variable {ref : Grid} {cg : CoarseGrid}

/-- one variable per step -/
theorem scOne_spread (hwf : cg.WellFormed ref.dt) (hdf : EqualDiscount ref cg) (p : ContractP) {dC dF : SCData}
    (D : DataSpread ref cg dC dF) :
    SpreadProblem 1 (fun k => cg.owner.getD k 0) (fun k => (cg.weights ref.dt).getD k 0) cg.owner.length cg.grid.T
      { scOne p cg.grid dC with mapping := (scOne p cg.grid dC).mapping.flatMap (extendRow cg ref.dt) }
      (scOne p (minorGrid ref cg) dF) := by
  obtain ⟨_, hany, hneg, hpos⟩ := flags_spread hwf D
  obtain ⟨lpC, leC, lminC, lmaxC⟩ := D.lenC
  obtain ⟨lpF, leF, lminF, lmaxF⟩ := D.lenF
  refine
    { cLenC := ?_, lLenC := ?_, cLenF := ?_, lLenF := ?_, c := ?_, l := ?_, u := ?_, rowsC := rfl, rowsF := rfl, disp := ?_ }
  · show (List.zipWith (· * ·) (oneVarPrice dC.price dC.ec dC.minC dC.maxC) cg.grid.df).length = _
    rw [List.length_zipWith, oneVarPrice_length lpC leC, hwf.ok.2.2]; omega
  · show dC.minC.length = _
    omega
  · show (List.zipWith (· * ·) (oneVarPrice dF.price dF.ec dF.minC dF.maxC) (minorGrid ref cg).df).length = _
    rw [List.length_zipWith, oneVarPrice_length lpF leF, minorGrid_ok.2.2, minorGrid_T]; omega
  · show dF.minC.length = _
    omega
  · intro b hb k hk
    obtain rfl : b = 0 := by omega
    simp only [Nat.mul_zero, Nat.zero_add]
    show (List.zipWith (· * ·) (oneVarPrice dF.price dF.ec dF.minC dF.maxC) (minorGrid ref cg).df).getD k 0
      = (List.zipWith (· * ·) (oneVarPrice dC.price dC.ec dC.minC dC.maxC) cg.grid.df).getD (cg.owner.getD k 0) 0
    rw [getD_zipWith_mul, getD_zipWith_mul, oneVarPrice_getD _ _ _ _ (by omega), oneVarPrice_getD _ _ _ _ (by omega),
      hany, hneg, hpos, D.price k hk, D.ec k hk, df_spread hdf hwf k hk]
  · intro b hb k hk
    obtain rfl : b = 0 := by omega
    simp only [Nat.mul_zero, Nat.zero_add]
    exact D.minC k hk
  · intro b hb k hk
    obtain rfl : b = 0 := by omega
    simp only [Nat.mul_zero, Nat.zero_add]
    exact D.maxC k hk
  · intro z x hx a nd t
    have hx0 : ∀ k, k < cg.owner.length →
        x (cg.owner.length * 0 + k) = z (cg.grid.T * 0 + cg.owner.getD k 0) * (cg.weights ref.dt).getD k 0 :=
      fun k hk => hx 0 (by omega) k hk
    show dispatchOut (dispBlock p.name dF.node "disp" 0 (minorGrid ref cg)) a nd t x
      = dispatchOut ((dispBlock p.name dC.node "disp" 0 cg.grid).flatMap (extendRow cg ref.dt)) a nd t z
    rw [D.node]
    simp only [dispBlock_eq]
    have e1 := dispatch_block_cg hwf p.name dC.node "disp" 1 0 z x hx0 a nd t
    simp only [Nat.mul_zero] at e1
    rw [e1]

/-- two variables per step: `disp_in | disp_out` -/
theorem scTwo_spread (hwf : cg.WellFormed ref.dt) (hdf : EqualDiscount ref cg) (p : ContractP) {dC dF : SCData}
    (D : DataSpread ref cg dC dF) :
    SpreadProblem 2 (fun k => cg.owner.getD k 0) (fun k => (cg.weights ref.dt).getD k 0) cg.owner.length cg.grid.T
      { scTwo p cg.grid dC with mapping := (scTwo p cg.grid dC).mapping.flatMap (extendRow cg ref.dt) }
      (scTwo p (minorGrid ref cg) dF) := by
  obtain ⟨lpC, leC, lminC, lmaxC⟩ := D.lenC
  obtain ⟨lpF, leF, lminF, lmaxF⟩ := D.lenF
  have hdfC := hwf.ok.2.2
  have hdfF : (minorGrid ref cg).df.length = cg.owner.length := by rw [minorGrid_ok.2.2, minorGrid_T]
  -- lengths of the first halves
  have c1C : (List.zipWith (· * ·) (List.zipWith (· - ·) dC.price dC.ec) cg.grid.df).length = cg.grid.T := by
    simp only [List.length_zipWith]; omega
  have c2C : (List.zipWith (· * ·) (List.zipWith (· + ·) dC.price dC.ec) cg.grid.df).length = cg.grid.T := by
    simp only [List.length_zipWith]; omega
  have c1F : (List.zipWith (· * ·) (List.zipWith (· - ·) dF.price dF.ec) (minorGrid ref cg).df).length = cg.owner.length := by
    simp only [List.length_zipWith]; omega
  have c2F : (List.zipWith (· * ·) (List.zipWith (· + ·) dF.price dF.ec) (minorGrid ref cg).df).length = cg.owner.length := by
    simp only [List.length_zipWith]; omega
  refine
    { cLenC := ?_, lLenC := ?_, cLenF := ?_, lLenF := ?_, c := ?_, l := ?_, u := ?_, rowsC := rfl, rowsF := rfl, disp := ?_ }
  · show (_ ++ _ : List Rat).length = _
    rw [List.length_append, c1C, c2C]; omega
  · show (dC.minC.map (rmin 0) ++ dC.minC.map (rmax 0)).length = _
    simp only [List.length_append, List.length_map]; omega
  · show (_ ++ _ : List Rat).length = _
    rw [List.length_append, c1F, c2F]; omega
  · show (dF.minC.map (rmin 0) ++ dF.minC.map (rmax 0)).length = _
    simp only [List.length_append, List.length_map]; omega
  · intro b hb k hk
    have hT := owner_lt hwf k hk
    show (List.zipWith (· * ·) (List.zipWith (· - ·) dF.price dF.ec) (minorGrid ref cg).df
          ++ List.zipWith (· * ·) (List.zipWith (· + ·) dF.price dF.ec) (minorGrid ref cg).df).getD (cg.owner.length * b + k) 0
      = (List.zipWith (· * ·) (List.zipWith (· - ·) dC.price dC.ec) cg.grid.df
          ++ List.zipWith (· * ·) (List.zipWith (· + ·) dC.price dC.ec) cg.grid.df).getD (cg.grid.T * b + cg.owner.getD k 0) 0
    have hb' : b = 0 ∨ b = 1 := by omega
    rcases hb' with rfl | rfl
    · simp only [Nat.mul_zero, Nat.zero_add]
      rw [getD_append_left' _ _ _ (by rw [c1F]; exact hk), getD_append_left' _ _ _ (by rw [c1C]; exact hT),
        getD_zipWith_mul, getD_zipWith_mul, getD_zipWith_sub _ _ _ (by omega), getD_zipWith_sub _ _ _ (by omega),
        D.price k hk, D.ec k hk, df_spread hdf hwf k hk]
    · simp only [Nat.mul_one]
      conv => lhs; rw [← c1F]
      conv => rhs; rw [← c1C]
      rw [getD_append_right', getD_append_right',
        getD_zipWith_mul, getD_zipWith_mul, getD_zipWith_add _ _ _ (by omega), getD_zipWith_add _ _ _ (by omega),
        D.price k hk, D.ec k hk, df_spread hdf hwf k hk]
  · intro b hb k hk
    have hT := owner_lt hwf k hk
    have hw := weight_pos hwf k hk
    show (dF.minC.map (rmin 0) ++ dF.minC.map (rmax 0)).getD (cg.owner.length * b + k) 0
      = (dC.minC.map (rmin 0) ++ dC.minC.map (rmax 0)).getD (cg.grid.T * b + cg.owner.getD k 0) 0 * _
    have hb' : b = 0 ∨ b = 1 := by omega
    rcases hb' with rfl | rfl
    · simp only [Nat.mul_zero, Nat.zero_add]
      rw [getD_append_left' _ _ _ (by rw [List.length_map]; omega), getD_append_left' _ _ _ (by rw [List.length_map]; omega),
        getD_map_rat _ _ _ (by omega), getD_map_rat _ _ _ (by omega), D.minC k hk]
      exact rmin_zero_mul _ _ hw
    · simp only [Nat.mul_one]
      have e1 : cg.owner.length = (dF.minC.map (rmin 0)).length := by rw [List.length_map]; omega
      have e2 : cg.grid.T = (dC.minC.map (rmin 0)).length := by rw [List.length_map]; omega
      conv => lhs; rw [e1]
      conv => rhs; lhs; rw [e2]
      rw [getD_append_right', getD_append_right',
        getD_map_rat _ _ _ (by omega), getD_map_rat _ _ _ (by omega), D.minC k hk]
      exact rmax_zero_mul _ _ hw
  · intro b hb k hk
    have hT := owner_lt hwf k hk
    have hw := weight_pos hwf k hk
    show (dF.maxC.map (rmin 0) ++ dF.maxC.map (rmax 0)).getD (cg.owner.length * b + k) 0
      = (dC.maxC.map (rmin 0) ++ dC.maxC.map (rmax 0)).getD (cg.grid.T * b + cg.owner.getD k 0) 0 * _
    have hb' : b = 0 ∨ b = 1 := by omega
    rcases hb' with rfl | rfl
    · simp only [Nat.mul_zero, Nat.zero_add]
      rw [getD_append_left' _ _ _ (by rw [List.length_map]; omega), getD_append_left' _ _ _ (by rw [List.length_map]; omega),
        getD_map_rat _ _ _ (by omega), getD_map_rat _ _ _ (by omega), D.maxC k hk]
      exact rmin_zero_mul _ _ hw
    · simp only [Nat.mul_one]
      have e1 : cg.owner.length = (dF.maxC.map (rmin 0)).length := by rw [List.length_map]; omega
      have e2 : cg.grid.T = (dC.maxC.map (rmin 0)).length := by rw [List.length_map]; omega
      conv => lhs; rw [e1]
      conv => rhs; lhs; rw [e2]
      rw [getD_append_right', getD_append_right',
        getD_map_rat _ _ _ (by omega), getD_map_rat _ _ _ (by omega), D.maxC k hk]
      exact rmax_zero_mul _ _ hw
  · intro z x hx a nd t
    show dispatchOut (dispBlock p.name dF.node "disp_in" 0 (minorGrid ref cg)
          ++ dispBlock p.name dF.node "disp_out" (minorGrid ref cg).T (minorGrid ref cg)) a nd t x
      = dispatchOut ((dispBlock p.name dC.node "disp_in" 0 cg.grid
          ++ dispBlock p.name dC.node "disp_out" cg.grid.T cg.grid).flatMap (extendRow cg ref.dt)) a nd t z
    rw [D.node, List.flatMap_append, dispatchOut_append, dispatchOut_append, minorGrid_T]
    simp only [dispBlock_eq]
    have e1 := dispatch_block_cg hwf p.name dC.node "disp_in" 1 0 z x (fun k hk => hx 0 (by omega) k hk) a nd t
    have e2 := dispatch_block_cg hwf p.name dC.node "disp_out" 1 1 z x (fun k hk => hx 1 (by omega) k hk) a nd t
    simp only [Nat.mul_zero, Nat.mul_one] at e1 e2
    rw [e1, e2]

end contract3

section contract4
variable {ref : Grid} {cg : CoarseGrid}

/-- from the hypothesis on the parameters to the entry-by-entry relation of the two builds -/
theorem dataSpread_of (hwf : cg.WellFormed ref.dt) {p : ContractP} {prices : Prices} (hcap : ConstInside p ref cg prices)
    {dC dF : SCData} {minOC maxOC ecOC minOF maxOF ecOF : List (Option Rat)}
    (hpl : dC.price.length = cg.minor.length) (hpF : dF.price = spreadList cg.owner dC.price)
    (hvC : contractVectors p cg.grid prices = .ok (minOC, maxOC, ecOC))
    (heC : allSome ecOC = .ok dC.ec) (hmiC : allSome minOC = .ok dC.minC) (hmaC : allSome maxOC = .ok dC.maxC)
    (hvF : contractVectors p (minorGrid ref cg) prices = .ok (minOF, maxOF, ecOF))
    (heF : allSome ecOF = .ok dF.ec) (hmiF : allSome minOF = .ok dF.minC) (hmaF : allSome maxOF = .ok dF.maxC)
    (hnode : dF.node = dC.node) : DataSpread ref cg dC dF := by
  obtain ⟨c1, c2, _, c3⟩ := contractVectors_ok hvC
  obtain ⟨f1, f2, _, f3⟩ := contractVectors_ok hvF
  have hgF : (minorGrid ref cg).Ok := minorGrid_ok
  refine
    { node := hnode, lenC := ⟨by rw [hpl, hwf.minorLen], ?_, ?_, ?_⟩, lenF := ⟨by rw [hpF]; simp [spreadList], ?_, ?_, ?_⟩,
      price := fun k hk => by rw [hpF]; exact getD_spreadList _ _ k hk,
      ec := fun k hk => vec_spread_noconv hwf c3 heC f3 heF hcap.extra k hk,
      minC := fun k hk => vec_spread_conv hwf c2 hmiC f2 hmiF hcap.minCap k hk,
      maxC := fun k hk => vec_spread_conv hwf c1 hmaC f1 hmaF hcap.maxCap k hk }
  · rw [allSome_length heC, makeVector_length hwf.ok c3]
  · rw [allSome_length hmiC, makeVector_length hwf.ok c2]
  · rw [allSome_length hmaC, makeVector_length hwf.ok c1]
  · rw [allSome_length heF, makeVector_length hgF f3, minorGrid_T]
  · rw [allSome_length hmiF, makeVector_length hgF f2, minorGrid_T]
  · rw [allSome_length hmaF, makeVector_length hgF f1, minorGrid_T]

end contract4

/-! ## Part M: what `Grid.coarsen` guarantees on a top-level grid -/

theorem sel_map {α β : Type} (m : List Bool) (L : List α) (f : α → β) : sel m (L.map f) = (sel m L).map f := by
  induction m generalizing L with
  | nil => simp [sel_nil_left]
  | cons b m ih =>
    cases L with
    | nil => simp [sel_nil_right]
    | cons x xs => cases b <;> simp [ih]

theorem eq_map_range {α : Type} (xs : List α) (d : α) : xs = (List.range xs.length).map (xs.getD · d) := by
  apply List.ext_getElem
  · simp
  · intro i h1 h2
    simp [List.getD_eq_getElem?_getD, List.getElem?_eq_getElem h1]

/-- a selection from a list is the selection of the positions, read in the list -/
theorem sel_of_range {α : Type} (m : List Bool) (xs : List α) (d : α) :
    sel m xs = (sel m (List.range xs.length)).map (xs.getD · d) := by
  conv => lhs; rw [eq_map_range xs d]
  exact sel_map m _ _

theorem nodup_of_flatten {α : Type} (cells : List α) (minor : α → List Nat) (I : α → Nat)
    (hI : ∀ c, c ∈ cells → I c ∈ minor c) (hp : (cells.map minor).flatten.Pairwise (· < ·)) : (cells.map I).Nodup := by
  induction cells with
  | nil => simp
  | cons c rest ih =>
    rw [List.map_cons, List.flatten_cons, List.pairwise_append] at hp
    rw [List.map_cons, List.nodup_cons]
    refine ⟨?_, ih (fun c' hc' => hI c' (List.mem_cons_of_mem _ hc')) hp.2.1⟩
    intro hmem
    obtain ⟨c', hc', he⟩ := List.mem_map.mp hmem
    have h1 := hI c List.mem_cons_self
    have h2 : I c' ∈ (rest.map minor).flatten :=
      List.mem_flatten.mpr ⟨minor c', List.mem_map.mpr ⟨c', hc', rfl⟩, hI c' (List.mem_cons_of_mem _ hc')⟩
    have := hp.2.2 _ h1 _ h2
    omega

theorem filterMap_length_of_isSome {α β : Type} (L : List α) (f : α → Option β) (h : ∀ a, a ∈ L → (f a).isSome = true) :
    (L.filterMap f).length = L.length := by
  induction L with
  | nil => rfl
  | cons a L ih =>
    have ha := h a List.mem_cons_self
    cases hf : f a with
    | none => rw [hf] at ha; cases ha
    | some b =>
      rw [List.filterMap_cons, hf]
      simp [ih (fun a' ha' => h a' (List.mem_cons_of_mem _ ha'))]

/-- **the hypotheses on the coarse grid hold for what `Grid.coarsen` makes of a top-level grid** -/
theorem coarsen_wellFormed' (ref : Grid) (cuts : List Int) (cg : CoarseGrid) (htl : ref.TopLevel)
    (h : ref.coarsen cuts = .ok cg) (hc : cuts.Pairwise (· ≤ ·)) : cg.WellFormed ref.dt := by
  have hpts : ref.pts.Pairwise (· ≤ ·) := htl.pts.imp (fun h => by omega)
  unfold Grid.coarsen at h
  cases hcells : coarseCells ref cuts with
  | error e => rw [hcells] at h; cases h
  | ok cells =>
    rw [hcells] at h
    cases h
    obtain ⟨hminor, hdt, hall⟩ := coarseCells_spec ref cuts cells hcells
    -- every cell, seen through the positions of the reference grid
    have hcell : ∀ c, c ∈ cells → c.minor ≠ [] ∧ c.I ∈ c.minor ∧ (∀ t, t ∈ c.minor → t < ref.pts.length) ∧
        c.dt = (c.minor.map (ref.dt.getD · 0)).sum ∧ c.df.isSome = true := by
      intro c hcm
      obtain ⟨hne, ab, _, _, hcc⟩ := hall c hcm
      obtain ⟨hmin, _, hcdt, _, _, _, hdf⟩ := coarseCell_ok ref ab.1 ab.2 c hcc
      have hfirst := (coarseCell_first ref ab.1 ab.2 c hcc htl.idx htl.DtLen).1
      have hlt : ∀ t, t ∈ c.minor → t < ref.pts.length := by
        intro t ht
        rw [hmin, htl.idx] at ht
        exact List.mem_range.mp ((sel_sublist _ _).subset ht)
      refine ⟨hne, ?_, hlt, ?_, ?_⟩
      · cases hm : c.minor with
        | nil => exact absurd hm hne
        | cons i is => rw [hm] at hfirst; simp at hfirst; rw [← hfirst]; simp
      · rw [hcdt, sel_of_range _ ref.dt 0, htl.dtLen, ← htl.idx, ← hmin]
      · unfold dfAt at hdf
        split at hdf
        · rename_i hemp
          have : ref.df.length = 0 := by simpa using hemp
          have hT : ref.pts.length = 0 := by rw [← htl.dfLen]; exact this
          have hI := hlt c.I (by
            cases hm : c.minor with
            | nil => exact absurd hm hne
            | cons i is => rw [hm] at hfirst; simp at hfirst; rw [← hfirst]; simp)
          omega
        · cases hd : ref.df[c.I]? with
          | none => rw [hd] at hdf; simp at hdf
          | some v => rw [hd] at hdf; simp at hdf; rw [← hdf]; rfl
    have hflat : (cells.map (·.minor)).flatten.Pairwise (· < ·) := by
      cases hcuts : cuts with
      | nil => rw [hcuts] at hcells; simp [coarseCells] at hcells; subst hcells; simp
      | cons c0 rest =>
        have hlast : ∃ cn, cuts.getLast? = some cn := by
          cases hg : cuts.getLast? with
          | some cn => exact ⟨cn, rfl⟩
          | none => rw [List.getLast?_eq_none_iff] at hg; rw [hg] at hcuts; cases hcuts
        obtain ⟨cn, hn⟩ := hlast
        have hcov := (coarseCells_cover ref hpts cuts cells hcells hc c0 cn (by rw [hcuts]; rfl) hn).1
        rw [hcov, htl.idx]
        exact List.pairwise_lt_range.sublist (sel_sublist _ _)
    refine
      { ok := ?_, minorLen := ?_, nodup := ?_, dtSum := ?_, dtPos := ?_, nonempty := ?_ }
    · refine ⟨?_, ?_, ?_⟩
      · show (cells.map (·.I)).length = (cells.map (·.pt)).length
        simp
      · show (cells.map (·.dt)).length = (cells.map (·.pt)).length
        simp
      · show (cells.filterMap (·.df)).length = (cells.map (·.pt)).length
        rw [filterMap_length_of_isSome _ _ (fun c hcm => (hcell c hcm).2.2.2.2)]; simp
    · show (cells.map (·.minor)).length = (cells.map (·.pt)).length
      simp
    · show (cells.map (·.I)).Nodup
      exact nodup_of_flatten cells (·.minor) (·.I) (fun c hcm => (hcell c hcm).2.1) hflat
    · intro i hi
      have hi' : i < cells.length := by simpa using hi
      show (cells.map (·.dt)).getD i 0 = (((cells.map (·.minor)).getD i []).map (ref.dt.getD · 0)).sum
      rw [List.getD_eq_getElem?_getD, List.getD_eq_getElem?_getD, List.getElem?_map, List.getElem?_map,
        List.getElem?_eq_getElem hi']
      simp only [Option.map_some, Option.getD_some]
      exact (hcell _ (List.getElem_mem hi')).2.2.2.1
    · intro cell hcm t ht
      obtain ⟨c, hc', rfl⟩ := List.mem_map.mp hcm
      have hlt := (hcell c hc').2.2.1 t ht
      have hlt' : t < ref.dt.length := by rw [htl.dtLen]; exact hlt
      rw [List.getD_eq_getElem?_getD, List.getElem?_eq_getElem hlt', Option.getD_some]
      exact htl.dtPos _ (List.getElem_mem hlt')
    · intro cell hcm
      obtain ⟨c, hc', rfl⟩ := List.mem_map.mp hcm
      exact (hcell c hc').1

/-- for a window of whole coarse steps (first cut = start, last cut = end: `coarse_partition_whole` of C19) the fine
    steps of the coarse grid are the asset's fine restricted grid -/
theorem minorGrid_eq_restrict' (ref : Grid) (cg : CoarseGrid) (s e : Int) (htl : ref.TopLevel)
    (hflat : cg.minor.flatten = (ref.restrict s e).idx) : minorGrid ref cg = ref.restrict s e := by
  have hidx : (ref.restrict s e).idx = sel (ref.mask s e) (List.range ref.pts.length) := by
    show sel _ ref.idx = _
    rw [htl.idx]
  unfold minorGrid
  rw [hflat, hidx]
  show _ = ({ pts := sel _ ref.pts, idx := sel _ ref.idx, dt := sel _ ref.dt, Dt := sel _ ref.Dt, df := sel _ ref.df } : Grid)
  rw [sel_of_range _ ref.pts 0, sel_of_range _ ref.dt 0, sel_of_range _ ref.Dt 0, sel_of_range _ ref.df 0,
    htl.dtLen, htl.DtLen, htl.dfLen, htl.idx]

/-! ## Part N: scalars are constant inside a coarse step; the weights written by the builders -/

section scalars
variable {ref : Grid} {cg : CoarseGrid}

theorem owner_mem_lt (hwf : cg.WellFormed ref.dt) (i : Nat) (hi : i ∈ cg.owner) : i < cg.grid.T := by
  obtain ⟨k, hk, rfl⟩ := List.getElem_of_mem hi
  have := owner_lt hwf k hk
  rwa [List.getD_eq_getElem?_getD, List.getElem?_eq_getElem hk, Option.getD_some] at this

theorem map_const_of_length {α β γ : Type} (L1 : List α) (L2 : List β) (c : γ) (h : L1.length = L2.length) :
    L1.map (fun _ => c) = L2.map (fun _ => c) := by
  induction L1 generalizing L2 with
  | nil => cases L2 with
    | nil => rfl
    | cons _ _ => simp at h
  | cons a L1 ih => cases L2 with
    | nil => simp at h
    | cons b L2 => simp [ih L2 (by simpa using h)]

theorem baseVector_scalar_spread (hwf : cg.WellFormed ref.dt) (r : Rat) (prices : Prices) (d : Option Rat) :
    baseVector (.scalar r) (minorGrid ref cg) prices d
      = (baseVector (.scalar r) cg.grid prices d).map (spreadO cg.owner) := by
  rw [baseVector_scalar, baseVector_scalar]
  show Except.ok _ = Except.ok _
  congr 1
  unfold spreadO
  have h1 : (minorGrid ref cg).pts.map (fun _ => some r) = cg.owner.map (fun _ => some r) :=
    map_const_of_length _ _ _ (by have := @minorGrid_T ref cg; simpa [Grid.T] using this)
  rw [h1]
  apply List.map_congr_left
  intro i hi
  have hT := owner_mem_lt hwf i hi
  rw [getD_map' cg.grid.pts (fun _ => some r) i hT 0 none]

end scalars

theorem mem_cellMapFrom {β : Type} (f : Nat → Nat → β) (cells : List (List Nat)) (m : β) (h : m ∈ cellMapFrom f 0 cells) :
    ∃ i t, i < cells.length ∧ t ∈ cells.getD i [] ∧ m = f i t := by
  rw [cellMapFrom_eq_ot] at h
  obtain ⟨q, hq, rfl⟩ := List.mem_map.mp h
  obtain ⟨_, h2, h3⟩ := mem_ot 0 cells q hq
  exact ⟨q.1, q.2, by omega, by simpa using h3, rfl⟩

theorem sum_filter_map {α : Type} (L : List α) (q : α → Bool) (h : α → Rat) :
    ((L.filter q).map h).sum = (L.map fun e => if q e then h e else 0).sum := by
  induction L with
  | nil => rfl
  | cons a L ih =>
    rw [List.filter_cons]
    cases hq : q a
    · simp only [Bool.false_eq_true, if_false, List.map_cons, List.sum_cons, hq, ih]; grind
    · simp only [if_true, List.map_cons, List.sum_cons, hq, ih]

/-- the factors written for coarse variable `off + i` by an extended block add up to the factor of the block -/
theorem block_factor_sum {cells : List (List Nat)} {dtF dtC : List Rat} (h : CellsOK cells dtF dtC)
    (asset node varName : String) (f : Rat) (off v : Nat) :
    (((cellMapFrom (fun i t => genRow asset node varName (dtF.getD t 0 / dtC.getD i 0 * f) (off + i) t) 0 cells).filter
        (fun m => m.var == v)).map (·.factor)).sum
      = if off ≤ v ∧ v < off + cells.length then f else 0 := by
  rw [sum_filter_map, cellMapFrom_eq_ot, List.map_map]
  have e : (ot 0 cells).map ((fun m : MapRow => if (m.var == v) = true then m.factor else 0) ∘
        fun p => genRow asset node varName (dtF.getD p.2 0 / dtC.getD p.1 0 * f) (off + p.1) p.2)
      = (ot 0 cells).map (fun p => if p.1 = v - off then (if off ≤ v then dtF.getD p.2 0 / dtC.getD p.1 0 * f else 0) else 0) := by
    apply List.map_congr_left
    intro q _
    simp only [Function.comp_def, genRow, beq_iff_eq]
    by_cases h1 : off + q.1 = v
    · have h2 : q.1 = v - off := by omega
      have h3 : off ≤ v := by omega
      rw [if_pos h1, if_pos h2, if_pos h3]
    · by_cases h3 : off ≤ v
      · have h2 : ¬ q.1 = v - off := by omega
        rw [if_neg h1, if_neg h2]
      · rw [if_neg h1, if_neg h3]; simp
  rw [e, sum_ot_single (fun i t => if off ≤ v then dtF.getD t 0 / dtC.getD i 0 * f else 0) (v - off) 0 cells]
  by_cases hr : off ≤ v ∧ v < off + cells.length
  · have hi : v - off < cells.length := by omega
    rw [if_pos hr, if_pos ⟨by omega, by omega⟩, Nat.sub_zero]
    simp only [hr.1, if_true]
    have hD := h.dtC_pos _ hi
    have e2 : ((cells.getD (v - off) []).map fun t => dtF.getD t 0 / dtC.getD (v - off) 0 * f)
        = (((cells.getD (v - off) []).map (dtF.getD · 0)).map (· / dtC.getD (v - off) 0)).map (· * f) := by
      rw [List.map_map, List.map_map]; rfl
    rw [e2, sum_map_mul_right, sum_map_div, ← h.sum _ hi, Rat.div_def,
      Rat.mul_inv_cancel _ (fun e0 => by rw [e0] at hD; exact absurd hD (by decide +kernel))]
    grind
  · rw [if_neg hr]
    by_cases h3 : off ≤ v
    · have : ¬ (0 ≤ v - off ∧ v - off < 0 + cells.length) := by omega
      rw [if_neg this]
    · split
      · apply sum_map_eq_zero
        intro t _
        rfl
      · rfl

/-! ## Part O: the mappings the coarse builders return -/

section mappings
variable {ref : Grid} {cg : CoarseGrid}

/-- row written for coarse step `i`, minor step `t` by a block with factor `f` whose variables start at `off` -/
def extRow (ref : Grid) (cg : CoarseGrid) (asset node varName : String) (f : Rat) (off : Nat) (i t : Nat) : MapRow :=
  genRow asset node varName (ref.dt.getD t 0 / cg.grid.dt.getD i 0 * f) (off + i) t

theorem extend_genBlock_cg (hwf : cg.WellFormed ref.dt) (asset node varName : String) (f : Rat) (off : Nat) :
    (genBlock asset node varName f off cg.grid).flatMap (extendRow cg ref.dt)
      = cellMapFrom (extRow ref cg asset node varName f off) 0 cg.minor :=
  extend_genBlock _ _ _ _ _ _ _ hwf.nodup (by rw [hwf.minorLen, hwf.ok.1])

/-- the mapping of a coarse simple contract: one extended block `disp`, or two `disp_in | disp_out` -/
theorem contract_mapping_form (hwf : cg.WellFormed ref.dt) {p : ContractP} {prices : Prices} {fullT : Nat} {Pc : AssetProblem}
    (hc : buildCoarseSimpleContract p cg ref.dt prices fullT = .ok Pc) :
    ∃ node, Pc.mapping = cellMapFrom (extRow ref cg p.name node "disp" 1 0) 0 cg.minor ∨
      Pc.mapping = cellMapFrom (extRow ref cg p.name node "disp_in" 1 0) 0 cg.minor
        ++ cellMapFrom (extRow ref cg p.name node "disp_out" 1 cg.grid.T) 0 cg.minor := by
  obtain ⟨_, price, a, _, ha, rfl⟩ := buildCoarseSimpleContract_ok hc
  obtain ⟨dC, _, _, _, _, _, _, _, _, _, rfl⟩ := simpleCore_ok ha
  refine ⟨dC.node, ?_⟩
  split
  · left
    show (dispBlock p.name dC.node "disp" 0 cg.grid).flatMap (extendRow cg ref.dt) = _
    rw [dispBlock_eq, extend_genBlock_cg hwf]
  · right
    show (dispBlock p.name dC.node "disp_in" 0 cg.grid ++ dispBlock p.name dC.node "disp_out" cg.grid.T cg.grid).flatMap
      (extendRow cg ref.dt) = _
    rw [List.flatMap_append, dispBlock_eq, dispBlock_eq, extend_genBlock_cg hwf, extend_genBlock_cg hwf]

/-- the mapping of a coarse transport: the block of the first node (factor −1) and of the second (efficiency) -/
theorem transport_mapping_form (hwf : cg.WellFormed ref.dt) {p : TransportP} {prices : Prices} {fullT : Nat} {Pc : AssetProblem}
    (hc : buildCoarseTransport p cg ref.dt prices fullT = .ok Pc) :
    ∃ n0 n1, p.nodes = [n0, n1] ∧
      Pc.mapping = cellMapFrom (extRow ref cg p.name n0 "disp" (-1) 0) 0 cg.minor
        ++ cellMapFrom (extRow ref cg p.name n1 "disp" p.efficiency 0) 0 cg.minor := by
  obtain ⟨n0, n1, cts, hn, _, _, _, _, rfl⟩ := buildCoarseTransport_ok hc
  refine ⟨n0, n1, hn, ?_⟩
  show (transportBlock p.name n0 (-1) cg.grid ++ transportBlock p.name n1 p.efficiency cg.grid).flatMap
    (extendRow cg ref.dt) = _
  rw [List.flatMap_append, transportBlock_eq, transportBlock_eq, extend_genBlock_cg hwf, extend_genBlock_cg hwf]

theorem extBlock_factor_sum (hwf : cg.WellFormed ref.dt) (asset node varName : String) (f : Rat) (off v : Nat) :
    (((cellMapFrom (extRow ref cg asset node varName f off) 0 cg.minor).filter (fun m => m.var == v)).map (·.factor)).sum
      = if off ≤ v ∧ v < off + cg.grid.T then f else 0 := by
  rw [← hwf.minorLen]
  exact block_factor_sum (cellsOK_of_wf hwf) asset node varName f off v

theorem mem_extBlock (asset node varName : String) (f : Rat) (off : Nat) (m : MapRow)
    (h : m ∈ cellMapFrom (extRow ref cg asset node varName f off) 0 cg.minor) :
    ∃ i, i < cg.minor.length ∧ m.step ∈ cg.minor.getD i [] ∧ m.var = off + i ∧
      m.factor = ref.dt.getD m.step 0 / cg.grid.dt.getD i 0 * f := by
  obtain ⟨i, t, hi, ht, rfl⟩ := mem_cellMapFrom _ _ _ h
  exact ⟨i, hi, ht, rfl, rfl⟩

theorem filter_sum_append (M1 M2 : List MapRow) (q : MapRow → Bool) :
    (((M1 ++ M2).filter q).map (·.factor)).sum = ((M1.filter q).map (·.factor)).sum + ((M2.filter q).map (·.factor)).sum := by
  rw [List.filter_append, List.map_append, List.sum_append]

/-- rate of a row: volume on its fine step over the step's length -/
theorem rate_of_row (hwf : cg.WellFormed ref.dt) (m : MapRow) (i : Nat) (hi : i < cg.minor.length)
    (hs : m.step ∈ cg.minor.getD i []) (f : Rat) (hf : m.factor = ref.dt.getD m.step 0 / cg.grid.dt.getD i 0 * f) (x : Vec) :
    m.contrib x / ref.dt.getD m.step 0 = x m.var * f / cg.grid.dt.getD i 0 := by
  have hpos := hwf.dtPos _ (getD_mem_of_lt cg.minor i hi []) _ hs
  have hne : ref.dt.getD m.step 0 ≠ 0 := fun e => by rw [e] at hpos; exact absurd hpos (by decide +kernel)
  have hc := Rat.mul_inv_cancel _ hne
  unfold MapRow.contrib
  rw [hf]
  simp only [Rat.div_def]
  calc x m.var * (ref.dt.getD m.step 0 * (cg.grid.dt.getD i 0)⁻¹ * f) * (ref.dt.getD m.step 0)⁻¹
      = x m.var * f * (cg.grid.dt.getD i 0)⁻¹ * (ref.dt.getD m.step 0 * (ref.dt.getD m.step 0)⁻¹) := by grind
    _ = x m.var * f * (cg.grid.dt.getD i 0)⁻¹ := by rw [hc]; grind

end mappings

/-! ## Part P: the `freq=None` builders are the cores applied to the sampled series -/

theorem buildSimpleContract_eq_core (p : ContractP) (g : Grid) (prices : Prices) (fullT : Nat) :
    buildSimpleContract p g prices fullT
      = (if scalarIllPosed p.minCap p.maxCap then throw .illPosed
         else priceVector p.price g prices fullT >>= simpleCore p g prices) := by
  unfold buildSimpleContract simpleCore
  by_cases h : scalarIllPosed p.minCap p.maxCap = true
  · rw [if_pos h, if_pos h]; rfl
  · rw [if_neg h, if_neg h]; rfl

theorem buildTransport_eq_core (p : TransportP) (g : Grid) (prices : Prices) (fullT : Nat) (n0 n1 : String)
    (hn : p.nodes = [n0, n1]) :
    buildTransport p g prices fullT
      = (if p.maxCap < p.minCap then throw .assertion
         else if ¬ (0 < p.efficiency) then throw .assertion
         else transportCosts p.costsKey g prices fullT >>= transportCore p n0 n1 g) := by
  unfold buildTransport transportCore
  rw [hn]
  by_cases h1 : p.maxCap < p.minCap
  · simp only [h1, if_true]; rfl
  · by_cases h2 : ¬ (0 < p.efficiency)
    · simp only [h1, h2, if_false]; rfl
    · simp only [h1, h2, if_false]

/-! ## Part Q: the discount factor of a coarse step is that of one of its minor steps -/

theorem filterMap_getD_of_isSome {α : Type} (L : List α) (f : α → Option Rat) (h : ∀ a, a ∈ L → (f a).isSome = true)
    (i : Nat) (hi : i < L.length) : (L.filterMap f).getD i 0 = (f (L.getD i (L[i]'hi))).getD 0 := by
  induction L generalizing i with
  | nil => simp at hi
  | cons a L ih =>
    have ha := h a List.mem_cons_self
    cases hf : f a with
    | none => rw [hf] at ha; cases ha
    | some b =>
      rw [List.filterMap_cons, hf]
      cases i with
      | zero => simp [hf]
      | succ i =>
        have hi' : i < L.length := by simpa using hi
        have := ih (fun a' ha' => h a' (List.mem_cons_of_mem _ ha')) i hi'
        simp only [List.getD_cons_succ] at this ⊢
        rw [this]
        simp [List.getD_eq_getElem?_getD, List.getElem?_eq_getElem hi']

/-- on a top-level grid the discount factor of coarse step `i` is the reference's factor at one of its minor steps -/
theorem coarsen_df (ref : Grid) (cuts : List Int) (cg : CoarseGrid) (htl : ref.TopLevel)
    (h : ref.coarsen cuts = .ok cg) (i : Nat) (hi : i < cg.minor.length) :
    ∃ t, t ∈ cg.minor.getD i [] ∧ cg.grid.df.getD i 0 = ref.df.getD t 0 := by
  unfold Grid.coarsen at h
  cases hcells : coarseCells ref cuts with
  | error e => rw [hcells] at h; cases h
  | ok cells =>
    rw [hcells] at h
    cases h
    obtain ⟨_, _, hall⟩ := coarseCells_spec ref cuts cells hcells
    have hi' : i < cells.length := by simpa using hi
    have hcell : ∀ c, c ∈ cells → c.I ∈ c.minor ∧ c.df = some (ref.df.getD c.I 0) := by
      intro c hcm
      obtain ⟨hne, ab, _, _, hcc⟩ := hall c hcm
      obtain ⟨hmin, _, _, _, _, _, hdf⟩ := coarseCell_ok ref ab.1 ab.2 c hcc
      have hfirst := (coarseCell_first ref ab.1 ab.2 c hcc htl.idx htl.DtLen).1
      have hI : c.I ∈ c.minor := by
        cases hm : c.minor with
        | nil => exact absurd hm hne
        | cons j js => rw [hm] at hfirst; simp at hfirst; rw [← hfirst]; simp
      have hlt : c.I < ref.pts.length := by
        rw [hmin, htl.idx] at hI
        exact List.mem_range.mp ((sel_sublist _ _).subset hI)
      refine ⟨hI, ?_⟩
      unfold dfAt at hdf
      split at hdf
      · rename_i hemp
        have : ref.df.length = 0 := by simpa using hemp
        rw [htl.dfLen] at this
        omega
      · have hlt' : c.I < ref.df.length := by rw [htl.dfLen]; exact hlt
        rw [List.getElem?_eq_getElem hlt'] at hdf
        simp only [Option.map_some, Option.some.injEq] at hdf
        rw [← hdf, List.getD_eq_getElem?_getD, List.getElem?_eq_getElem hlt', Option.getD_some]
    have hc := hcell _ (List.getElem_mem hi')
    refine ⟨(cells[i]).I, ?_, ?_⟩
    · show (cells[i]).I ∈ (cells.map (·.minor)).getD i []
      rw [List.getD_eq_getElem?_getD, List.getElem?_map, List.getElem?_eq_getElem hi']
      exact hc.1
    · show (cells.filterMap (·.df)).getD i 0 = _
      rw [filterMap_getD_of_isSome cells (·.df) (fun c hcm => by rw [(hcell c hcm).2]; rfl) i hi']
      have : cells.getD i (cells[i]) = cells[i] := by
        rw [List.getD_eq_getElem?_getD, List.getElem?_eq_getElem hi', Option.getD_some]
      rw [this, hc.2, Option.getD_some]

/-! ## Part R: the fine simple contract exists whenever the coarse one is built -/

theorem contractVectors_of {p : ContractP} {g : Grid} {prices : Prices} {minO maxO ecO : List (Option Rat)}
    (h1 : makeVector p.maxCap g prices none true = .ok maxO) (h2 : makeVector p.minCap g prices none true = .ok minO)
    (h3 : anyGt minO maxO = false) (h4 : makeVector p.extraCosts g prices (some 0) false = .ok ecO) :
    contractVectors p g prices = .ok (minO, maxO, ecO) := by
  unfold contractVectors
  simp only [bind, Except.bind, h1, h2, h3, h4]
  rfl

theorem simpleCore_of {p : ContractP} {g : Grid} {prices : Prices} {price : List Rat}
    {minO maxO ecO : List (Option Rat)} {ec minC maxC : List Rat} {n : String} {rest : List String}
    (hv : contractVectors p g prices = .ok (minO, maxO, ecO)) (hn : p.nodes = n :: rest)
    (he : allSome ecO = .ok ec) (hmi : allSome minO = .ok minC) (hma : allSome maxO = .ok maxC) :
    simpleCore p g prices price
      = .ok (if oneVariable ec minC maxC then scOne p g ⟨price, ec, minC, maxC, n⟩ else scTwo p g ⟨price, ec, minC, maxC, n⟩) := by
  unfold simpleCore
  simp only [bind, Except.bind, hv, hn, he, hmi, hma, pure, Except.pure]
  split <;> simp [scOne, scTwo, hn]

/-- a coarse vector (possibly with NaN) times `dt`, seen at the fine steps: entry of the owner times the weight -/
def spreadW (owner : List Nat) (w : List Rat) (xs : List (Option Rat)) : List (Option Rat) :=
  List.zipWith (fun i wk => (xs.getD i none).map (· * wk)) owner w

section fineExists
variable {ref : Grid} {cg : CoarseGrid}

theorem getElem_getD {α : Type} (L : List α) (k : Nat) (hk : k < L.length) (d : α) : L[k] = L.getD k d := by
  rw [List.getD_eq_getElem?_getD, List.getElem?_eq_getElem hk, Option.getD_some]

theorem makeVector_conv_fine (hwf : cg.WellFormed ref.dt) {v : ParamValue} {prices : Prices} {xsC : List (Option Rat)}
    (hC : makeVector v cg.grid prices none true = .ok xsC)
    (hcap : baseVector v (minorGrid ref cg) prices none = (baseVector v cg.grid prices none).map (spreadO cg.owner)) :
    makeVector v (minorGrid ref cg) prices none true = .ok (spreadW cg.owner (cg.weights ref.dt) xsC) := by
  obtain ⟨bC, hbC, rfl⟩ := makeVector_ok hC
  have hlC := baseVector_length hwf.ok hbC
  unfold makeVector
  rw [hcap, hbC]
  simp only [Except.map, bind, Except.bind, if_true, pure, Except.pure]
  congr 1
  unfold timesDt spreadW spreadO
  apply List.ext_getElem
  · simp only [List.length_map, List.length_zip, List.length_zipWith]
    rw [minorGrid_ok.2.1, minorGrid_T, weights_length, ← owner_length]
  · intro k h1 h2
    have hk : k < cg.owner.length := by
      simp only [List.length_zipWith] at h2; omega
    have hT := owner_lt hwf k hk
    have hkw : k < (cg.weights ref.dt).length := by rw [weights_length, ← owner_length]; exact hk
    have hkd : k < (minorGrid ref cg).dt.length := by rw [minorGrid_ok.2.1, minorGrid_T]; exact hk
    simp only [List.getElem_map, List.getElem_zip, List.getElem_zipWith]
    rw [getElem_getD cg.owner k hk 0, getElem_getD _ k hkw 0, getElem_getD _ k hkd 0, ← dtC_mul_weight hwf k hk]
    have hz : ((bC.zip cg.grid.dt).map fun p => Option.map (fun x => x * p.2) p.1).getD (cg.owner.getD k 0) none
        = (bC.getD (cg.owner.getD k 0) none).map (· * cg.grid.dt.getD (cg.owner.getD k 0) 0) := by
      have h3 : cg.owner.getD k 0 < (bC.zip cg.grid.dt).length := by simp [hlC, hwf.ok.2.1]; exact hT
      rw [getD_map' _ _ _ h3 (none, 0) none, List.getD_eq_getElem?_getD, List.getElem?_eq_getElem h3, Option.getD_some,
        List.getElem_zip, getElem_getD bC _ (by rw [hlC]; exact hT) none, getElem_getD cg.grid.dt _ (by rw [hwf.ok.2.1]; exact hT) 0]
    rw [hz]
    cases bC.getD (cg.owner.getD k 0) none with
    | none => rfl
    | some b => simp only [Option.map_some]; congr 1; grind

theorem makeVector_noconv_fine {v : ParamValue} {prices : Prices} {xsC : List (Option Rat)}
    (hC : makeVector v cg.grid prices (some 0) false = .ok xsC)
    (hcap : baseVector v (minorGrid ref cg) prices (some 0) = (baseVector v cg.grid prices (some 0)).map (spreadO cg.owner)) :
    makeVector v (minorGrid ref cg) prices (some 0) false = .ok (spreadO cg.owner xsC) := by
  obtain ⟨bC, hbC, hx⟩ := makeVector_ok hC
  simp only [Bool.false_eq_true, if_false] at hx
  subst hx
  unfold makeVector
  rw [hcap, hbC]
  rfl

theorem spreadW_length (xs : List (Option Rat)) :
    (spreadW cg.owner (cg.weights ref.dt) xs).length = cg.owner.length := by
  unfold spreadW
  rw [List.length_zipWith, weights_length, ← owner_length]; omega

theorem spreadW_getElem (xs : List (Option Rat)) (k : Nat) (hk : k < (spreadW cg.owner (cg.weights ref.dt) xs).length) :
    (spreadW cg.owner (cg.weights ref.dt) xs)[k]
      = (xs.getD (cg.owner.getD k 0) none).map (· * (cg.weights ref.dt).getD k 0) := by
  have hk' : k < cg.owner.length := by rw [spreadW_length _] at hk; exact hk
  have hkw : k < (cg.weights ref.dt).length := by rw [weights_length, ← owner_length]; exact hk'
  simp only [spreadW, List.getElem_zipWith]
  rw [getElem_getD cg.owner k hk' 0, getElem_getD _ k hkw 0]

/-- the vector-wise `min_cap > max_cap` check has the same outcome -/
theorem anyGt_spreadW (hwf : cg.WellFormed ref.dt) (a b : List (Option Rat)) (ha : a.length = cg.grid.T)
    (hb : b.length = cg.grid.T) (h : anyGt a b = false) :
    anyGt (spreadW cg.owner (cg.weights ref.dt) a) (spreadW cg.owner (cg.weights ref.dt) b) = false := by
  unfold anyGt at h ⊢
  rw [List.any_eq_false] at h ⊢
  intro q hq
  obtain ⟨k, hk, rfl⟩ := List.getElem_of_mem hq
  have hk' : k < cg.owner.length := by
    simp only [List.length_zip, spreadW_length _] at hk; omega
  have hT := owner_lt hwf k hk'
  have hw := weight_pos hwf k hk'
  rw [List.getElem_zip, spreadW_getElem, spreadW_getElem]
  have hmem : (a.getD (cg.owner.getD k 0) none, b.getD (cg.owner.getD k 0) none) ∈ a.zip b := by
    have h3 : cg.owner.getD k 0 < (a.zip b).length := by simp [ha, hb]; exact hT
    have := List.getElem_mem h3
    rw [List.getElem_zip, getElem_getD a _ (by rw [ha]; exact hT) none, getElem_getD b _ (by rw [hb]; exact hT) none] at this
    exact this
  have hc := h _ hmem
  cases hx : a.getD (cg.owner.getD k 0) none with
  | none => simp
  | some x =>
    cases hy : b.getD (cg.owner.getD k 0) none with
    | none => simp
    | some y =>
      rw [hx, hy] at hc
      simp only [Option.map_some, decide_eq_true_eq] at hc ⊢
      intro hlt
      exact hc ((Rat.mul_lt_mul_right hw).mp hlt)

theorem allSome_ok_of_all {xs : List (Option Rat)} (h : xs.all Option.isSome = true) :
    allSome xs = .ok (xs.map fun o => o.getD 0) := by
  unfold allSome
  rw [if_pos h]; rfl

theorem all_isSome_getD {xs : List (Option Rat)} (h : xs.all Option.isSome = true) (i : Nat) (hi : i < xs.length) :
    (xs.getD i none).isSome = true := by
  rw [List.all_eq_true] at h
  exact h _ (getD_mem_of_lt xs i hi none)

theorem allSome_spreadW (hwf : cg.WellFormed ref.dt) {xs : List (Option Rat)} {ys : List Rat} (hl : xs.length = cg.grid.T)
    (h : allSome xs = .ok ys) : ∃ ys', allSome (spreadW cg.owner (cg.weights ref.dt) xs) = .ok ys' := by
  refine ⟨_, allSome_ok_of_all ?_⟩
  rw [List.all_eq_true]
  intro o ho
  obtain ⟨k, hk, rfl⟩ := List.getElem_of_mem ho
  have hk' : k < cg.owner.length := by rw [spreadW_length _] at hk; exact hk
  rw [spreadW_getElem]
  have := all_isSome_getD (allSome_ok h).2 (cg.owner.getD k 0) (by rw [hl]; exact owner_lt hwf k hk')
  cases hx : xs.getD (cg.owner.getD k 0) none with
  | none => rw [hx] at this; cases this
  | some x => rfl

theorem allSome_spreadO (hwf : cg.WellFormed ref.dt) {xs : List (Option Rat)} {ys : List Rat} (hl : xs.length = cg.grid.T)
    (h : allSome xs = .ok ys) : ∃ ys', allSome (spreadO cg.owner xs) = .ok ys' := by
  refine ⟨_, allSome_ok_of_all ?_⟩
  rw [List.all_eq_true]
  intro o ho
  unfold spreadO at ho
  obtain ⟨i, hi, rfl⟩ := List.mem_map.mp ho
  exact all_isSome_getD (allSome_ok h).2 i (by rw [hl]; exact owner_mem_lt hwf i hi)

/-- **the fine problem exists whenever the coarse one is built** (under the hypothesis on the parameters) -/
theorem fine_builds (hwf : cg.WellFormed ref.dt) {p : ContractP} {prices : Prices} {fullT : Nat} {Pc : AssetProblem}
    (hcap : ConstInside p ref cg prices)
    (hc : buildCoarseSimpleContract p cg ref.dt prices fullT = .ok Pc) :
    ∃ Pf, fineSimpleContract p ref cg prices fullT = .ok Pf := by
  obtain ⟨hill, price, a, hprice, ha, _⟩ := buildCoarseSimpleContract_ok hc
  rw [fineSimpleContract_eq hill hprice]
  obtain ⟨dC, minOC, maxOC, ecOC, _, hvC, heC, hmiC, hmaC, ⟨rest, hn⟩, _⟩ := simpleCore_ok ha
  obtain ⟨c1, c2, c3, c4⟩ := contractVectors_ok hvC
  have l1 := makeVector_length hwf.ok c1
  have l2 := makeVector_length hwf.ok c2
  have l4 := makeVector_length hwf.ok c4
  have hvF := contractVectors_of (makeVector_conv_fine hwf c1 hcap.maxCap) (makeVector_conv_fine hwf c2 hcap.minCap)
    (anyGt_spreadW hwf _ _ l2 l1 c3) (makeVector_noconv_fine c4 hcap.extra)
  obtain ⟨ecF, heF⟩ := allSome_spreadO hwf l4 heC
  obtain ⟨minF, hmiF⟩ := allSome_spreadW hwf l2 hmiC
  obtain ⟨maxF, hmaF⟩ := allSome_spreadW hwf l1 hmaC
  exact ⟨_, simpleCore_of hvF hn heF hmiF hmaF⟩

end fineExists

end EAO.CoarseBuild
