import EAO.Model.CoarseBuild
import EAO.Model.Readout
import EAO.Lemmas.Blocks
import EAO.Lemmas.Merge
import EAO.Lemmas.Contract
/-!
# helper lemmas for `EAO/Properties/C13Builders.lean` (builders with a coarse asset frequency)

Part A: sums over ranges, regrouping a sum over the fine steps by coarse step.
Part B: the abstract statement: a problem whose cost / bounds are those of a coarse problem "spread" over the fine
        steps (`B` blocks of variables) is the coarse problem seen through `expand`.
Part C: the owner / weight lists made from the minor lists (`ownerFrom`, `weightFrom`) and what `extendMinor` writes.
Part D: inversion of the builders of `EAO/Model/CoarseBuild.lean`.
-/
namespace EAO.CoarseBuild
open EAO EAO.Merge

/-! ## Part A: sums over ranges -/

/-- `Σ_{k<n} f k` -/
def rsum (n : Nat) (f : Nat → Rat) : Rat := ((List.range n).map f).sum

@[simp] theorem rsum_zero (f : Nat → Rat) : rsum 0 f = 0 := by simp [rsum]

theorem rsum_succ (n : Nat) (f : Nat → Rat) : rsum (n + 1) f = rsum n f + f n := by
  simp [rsum, List.range_succ, List.sum_append]
  grind

theorem rsum_congr (n : Nat) (f g : Nat → Rat) (h : ∀ k, k < n → f k = g k) : rsum n f = rsum n g := by
  unfold rsum
  congr 1
  apply List.map_congr_left
  intro k hk
  exact h k (List.mem_range.mp hk)

theorem rsum_const_zero (n : Nat) : rsum n (fun _ => 0) = 0 := by
  induction n with
  | zero => simp
  | succ n ih => rw [rsum_succ, ih]; grind

theorem rsum_add_fn (n : Nat) (f g : Nat → Rat) : rsum n (fun k => f k + g k) = rsum n f + rsum n g := by
  induction n with
  | zero => simp
  | succ n ih => rw [rsum_succ, rsum_succ, rsum_succ, ih]; grind

theorem rsum_mul_left (n : Nat) (a : Rat) (f : Nat → Rat) : rsum n (fun k => a * f k) = a * rsum n f := by
  induction n with
  | zero => simp
  | succ n ih => rw [rsum_succ, rsum_succ, ih]; grind

theorem rsum_mul_right (n : Nat) (a : Rat) (f : Nat → Rat) : rsum n (fun k => f k * a) = rsum n f * a := by
  induction n with
  | zero => simp
  | succ n ih => rw [rsum_succ, rsum_succ, ih]; grind

/-- `Σ_{k<a+b} = Σ_{k<a} + Σ_{k<b} f (a+k)` -/
theorem rsum_add (a b : Nat) (f : Nat → Rat) : rsum (a + b) f = rsum a f + rsum b (fun k => f (a + k)) := by
  induction b with
  | zero => simp
  | succ b ih =>
    rw [show a + (b + 1) = (a + b) + 1 by omega, rsum_succ, rsum_succ, ih]
    grind

theorem rsum_single (n a : Nat) (ha : a < n) (f : Nat → Rat) :
    rsum n (fun j => if j = a then f j else 0) = f a := sum_range_single n a ha f

theorem costAt_eq_rsum (c : List Rat) (off : Nat) (x : Vec) :
    costAt c off x = rsum c.length (fun j => c.getD j 0 * x (off + j)) := costAt_eq_sum_range c off x

/-- regrouping by owner: `Σ_k h(o k)·w k = Σ_i h i · Σ_{k : o k = i} w k` -/
theorem rsum_regroup (n Tc : Nat) (o : Nat → Nat) (w : Nat → Rat) (h : Nat → Rat) (hlt : ∀ k, k < n → o k < Tc) :
    rsum n (fun k => h (o k) * w k) = rsum Tc (fun i => h i * rsum n (fun k => if o k = i then w k else 0)) := by
  induction n with
  | zero =>
    simp only [rsum_zero]
    rw [rsum_congr Tc _ (fun _ => 0) (fun i _ => by grind), rsum_const_zero]
  | succ n ih =>
    rw [rsum_succ, ih (fun k hk => hlt k (by omega))]
    have hstep : ∀ i, i < Tc → h i * rsum (n + 1) (fun k => if o k = i then w k else 0)
        = h i * rsum n (fun k => if o k = i then w k else 0) + (if i = o n then h i * w n else 0) := by
      intro i _
      rw [rsum_succ]
      by_cases hi : o n = i
      · have : i = o n := hi.symm
        simp only [hi, this, if_true]; grind
      · have : ¬ i = o n := fun e => hi e.symm
        simp only [hi, this, if_false]; grind
    rw [rsum_congr Tc _ _ hstep, rsum_add_fn, rsum_single Tc (o n) (hlt n (by omega)) (fun i => h i * w n)]

end EAO.CoarseBuild
