import EAO.Model.Assemble
import EAO.Model.Translate
/-! helper lemmas: embedding of blocks by index shift (`assembleFrom`), used by C03, C14 (and C01/C04/C07) -/
namespace EAO

/-! ### rows under renaming of the variables -/

theorem eval_rename (g : Nat → Nat) (r : Row) (x : Vec) :
    (r.rename g).eval x = r.eval (fun j => x (g j)) := by
  unfold Row.rename Row.eval
  simp [List.map_map, Function.comp_def]

@[simp] theorem rename_kind (g : Nat → Nat) (r : Row) : (r.rename g).kind = r.kind := rfl
@[simp] theorem rename_rhs (g : Nat → Nat) (r : Row) : (r.rename g).rhs = r.rhs := rfl

theorem sat_rename (g : Nat → Nat) (r : Row) (x : Vec) :
    (r.rename g).Sat x ↔ r.Sat (fun j => x (g j)) := by
  have he := eval_rename g r x
  unfold Row.Sat
  rw [rename_kind, rename_rhs, he]

/-- rows of a renamed list hold iff the original rows hold on the pulled-back point -/
theorem rows_sat_map_rename (g : Nat → Nat) (rows : List Row) (x : Vec) :
    (∀ r ∈ rows.map (Row.rename g), r.Sat x) ↔ ∀ r ∈ rows, r.Sat (fun j => x (g j)) := by
  constructor
  · intro h r hr
    exact (sat_rename g r x).mp (h _ (List.mem_map.mpr ⟨r, hr, rfl⟩))
  · intro h r hr
    obtain ⟨r', hr', rfl⟩ := List.mem_map.mp hr
    exact (sat_rename g r' x).mpr (h r' hr')

/-- the relation selected by a row kind -/
def RowKind.rel (k : RowKind) (r : Row) (x : Vec) : Prop :=
  match k with
  | .U => r.eval x ≤ r.rhs
  | .L => r.rhs ≤ r.eval x
  | .S => r.eval x = r.rhs
  | .N => r.eval x = r.rhs

/-- a row holds at `x` iff the relation selected by its own kind holds -/
theorem sat_iff_rel (r : Row) (x : Vec) : r.Sat x ↔ r.kind.rel r x := Iff.rfl

theorem blockSat_iff_rel (b : CvxBlock) (x : Vec) : b.Sat x ↔ ∀ r ∈ b.rows, b.kind.rel r x := Iff.rfl

/-! ### the objective -/

@[simp] theorem costAt_nil (off : Nat) (x : Vec) : costAt [] off x = 0 := by simp [costAt]
@[simp] theorem costAt_cons (a : Rat) (c : List Rat) (off : Nat) (x : Vec) :
    costAt (a :: c) off x = a * x off + costAt c (off + 1) x := by simp [costAt]

theorem costAt_append (c1 c2 : List Rat) (off : Nat) (x : Vec) :
    costAt (c1 ++ c2) off x = costAt c1 off x + costAt c2 (off + c1.length) x := by
  induction c1 generalizing off with
  | nil => simp [Rat.zero_add]
  | cons a as ih =>
    simp only [List.cons_append, costAt_cons, ih, List.length_cons]
    have : off + 1 + as.length = off + (as.length + 1) := by omega
    rw [this]; grind

/-- shifting the start offset = shifting the point -/
theorem costAt_shift_add (c : List Rat) (off k : Nat) (x : Vec) :
    costAt c (off + k) x = costAt c k (fun j => x (off + j)) := by
  induction c generalizing k with
  | nil => simp
  | cons a as ih =>
    simp only [costAt_cons]
    rw [← ih (k + 1)]; rfl

theorem costAt_shift (c : List Rat) (off : Nat) (x : Vec) :
    costAt c off x = costAt c 0 (fun j => x (off + j)) :=
  costAt_shift_add c off 0 x

/-- the objective only reads the point on `[off, off + c.length)` -/
theorem costAt_congr (c : List Rat) (off : Nat) (x y : Vec)
    (h : ∀ j, j < c.length → x (off + j) = y (off + j)) : costAt c off x = costAt c off y := by
  induction c generalizing off with
  | nil => simp
  | cons a as ih =>
    simp only [costAt_cons]
    have h0 := h 0 (by simp)
    rw [Nat.add_zero] at h0
    rw [h0, ih (off + 1) (fun j hj => by
      have := h (j + 1) (by simp; omega)
      rwa [show off + 1 + j = off + (j + 1) by omega])]

/-! ### bounds -/

theorem getD_append_left' (l1 l2 : List Rat) (j : Nat) (h : j < l1.length) :
    (l1 ++ l2).getD j 0 = l1.getD j 0 := by
  simp [List.getD_eq_getElem?_getD, List.getElem?_append_left h]

theorem getD_append_right' (l1 l2 : List Rat) (j : Nat) :
    (l1 ++ l2).getD (l1.length + j) 0 = l2.getD j 0 := by
  simp [List.getD_eq_getElem?_getD, List.getElem?_append_right]

/-- bounds of a concatenation read block-wise (needs the first blocks of equal length) -/
theorem inBounds_append (l1 u1 l2 u2 : List Rat) (n : Nat) (hl : l1.length = n) (hu : u1.length = n)
    (x : Vec) :
    InBounds (l1 ++ l2) (u1 ++ u2) x ↔
      InBounds l1 u1 x ∧ InBounds l2 u2 (fun j => x (n + j)) := by
  subst hl
  unfold InBounds
  constructor
  · intro h
    refine ⟨fun j hj => ?_, fun j hj => ?_⟩
    · have := h j (by simp; omega)
      rwa [getD_append_left' _ _ _ hj, getD_append_left' _ _ _ (by omega)] at this
    · have := h (l1.length + j) (by simp; omega)
      rwa [getD_append_right', ← hu, getD_append_right', hu] at this
  · rintro ⟨h1, h2⟩ j hj
    by_cases hlt : j < l1.length
    · rw [getD_append_left' _ _ _ hlt, getD_append_left' _ _ _ (by omega)]
      exact h1 j hlt
    · obtain ⟨k, rfl⟩ : ∃ k, j = l1.length + k := ⟨j - l1.length, by omega⟩
      have := h2 k (by simp at hj; omega)
      rw [getD_append_right']
      conv => rhs; rhs; rw [← hu, getD_append_right']
      exact this

/-! ### block offsets and indexed statements about `assembleFrom` -/

/-- offset of block `i` relative to the start of the concatenation -/
def blockOffset (as : List AssetProblem) (i : Nat) : Nat := ((as.take i).map (·.n)).sum

@[simp] theorem blockOffset_zero (as : List AssetProblem) : blockOffset as 0 = 0 := by
  simp [blockOffset]

@[simp] theorem blockOffset_cons_succ (a : AssetProblem) (as : List AssetProblem) (i : Nat) :
    blockOffset (a :: as) (i + 1) = a.n + blockOffset as i := by
  simp [blockOffset]

/-- quantification over the positions of `a :: as` -/
theorem forall_lt_cons {α : Type} (a : α) (as : List α) (Q : Nat → α → Prop) :
    (∀ i, (h : i < (a :: as).length) → Q i ((a :: as)[i])) ↔
      Q 0 a ∧ ∀ i, (h : i < as.length) → Q (i + 1) (as[i]) := by
  constructor
  · intro h
    exact ⟨h 0 (by simp), fun i hi => h (i + 1) (by simp; omega)⟩
  · rintro ⟨h0, hs⟩ i hi
    cases i with
    | zero => exact h0
    | succ i => exact hs i (by simpa using hi)

@[simp] theorem assembleFrom_nil (off : Nat) : assembleFrom off [] = ⟨[], [], [], [], [], []⟩ := rfl

theorem assembleFrom_cons_c (off : Nat) (a : AssetProblem) (as : List AssetProblem) :
    (assembleFrom off (a :: as)).c = a.c ++ (assembleFrom (off + a.n) as).c := rfl
theorem assembleFrom_cons_l (off : Nat) (a : AssetProblem) (as : List AssetProblem) :
    (assembleFrom off (a :: as)).l = a.l ++ (assembleFrom (off + a.n) as).l := rfl
theorem assembleFrom_cons_u (off : Nat) (a : AssetProblem) (as : List AssetProblem) :
    (assembleFrom off (a :: as)).u = a.u ++ (assembleFrom (off + a.n) as).u := rfl
theorem assembleFrom_cons_rows (off : Nat) (a : AssetProblem) (as : List AssetProblem) :
    (assembleFrom off (a :: as)).rows =
      a.rows.map (Row.rename (off + ·)) ++ (assembleFrom (off + a.n) as).rows := rfl
theorem assembleFrom_cons_mapping (off : Nat) (a : AssetProblem) (as : List AssetProblem) :
    (assembleFrom off (a :: as)).mapping =
      a.mapping.map (MapRow.shift off) ++ (assembleFrom (off + a.n) as).mapping := rfl

/-- cost, lower and upper bounds of the concatenation do not depend on the start offset -/
theorem assembleFrom_c_off (off off' : Nat) (as : List AssetProblem) :
    (assembleFrom off as).c = (assembleFrom off' as).c := by
  induction as generalizing off off' with
  | nil => rfl
  | cons a as ih => rw [assembleFrom_cons_c, assembleFrom_cons_c, ih (off + a.n) (off' + a.n)]

theorem assembleFrom_l_off (off off' : Nat) (as : List AssetProblem) :
    (assembleFrom off as).l = (assembleFrom off' as).l := by
  induction as generalizing off off' with
  | nil => rfl
  | cons a as ih => rw [assembleFrom_cons_l, assembleFrom_cons_l, ih (off + a.n) (off' + a.n)]

theorem assembleFrom_u_off (off off' : Nat) (as : List AssetProblem) :
    (assembleFrom off as).u = (assembleFrom off' as).u := by
  induction as generalizing off off' with
  | nil => rfl
  | cons a as ih => rw [assembleFrom_cons_u, assembleFrom_cons_u, ih (off + a.n) (off' + a.n)]

/-- number of variables of the concatenation -/
theorem assembleFrom_n (off : Nat) (as : List AssetProblem) :
    (assembleFrom off as).n = (as.map (·.n)).sum := by
  induction as generalizing off with
  | nil => rfl
  | cons a as ih =>
    have := ih (off + a.n)
    unfold Problem.n at this ⊢
    rw [assembleFrom_cons_c, List.length_append, this]
    simp [AssetProblem.n]

/-- rows of the concatenation hold iff every asset's rows hold on its own slice -/
theorem assembleFrom_rows_sat (as : List AssetProblem) (off : Nat) (x : Vec) :
    (∀ r ∈ (assembleFrom off as).rows, r.Sat x) ↔
      ∀ i, (h : i < as.length) → ∀ r ∈ (as[i]).rows, r.Sat (fun j => x (off + blockOffset as i + j)) := by
  induction as generalizing off with
  | nil => simp
  | cons a as ih =>
    rw [forall_lt_cons a as (fun i b => ∀ r ∈ b.rows, r.Sat (fun j => x (off + blockOffset (a :: as) i + j)))]
    rw [assembleFrom_cons_rows]
    simp only [List.forall_mem_append, rows_sat_map_rename, ih (off + a.n), blockOffset_zero,
      blockOffset_cons_succ, Nat.add_zero, Nat.add_assoc]

/-- the objective of the concatenation splits over the blocks -/
theorem assembleFrom_cost (as : List AssetProblem) (off : Nat) (x : Vec) :
    costAt (assembleFrom off as).c off x =
      ((List.range as.length).map fun i =>
        costAt (as.getD i default).c 0 (fun j => x (off + blockOffset as i + j))).sum := by
  induction as generalizing off with
  | nil => simp
  | cons a as ih =>
    rw [assembleFrom_cons_c, costAt_append, List.length_cons, List.range_succ_eq_map]
    simp only [List.map_cons, List.sum_cons, List.map_map, Function.comp_def, Nat.succ_eq_add_one,
      blockOffset_zero, blockOffset_cons_succ, Nat.add_zero, List.getD_cons_zero, List.getD_cons_succ]
    rw [← costAt_shift a.c off x]
    show _ + costAt (assembleFrom (off + a.n) as).c (off + a.n) x = _
    rw [ih (off + a.n)]
    simp only [Nat.add_assoc]

/-- bounds of the concatenation hold iff every asset's bounds hold on its own slice
    (each asset's `l`, `u` must have the asset's number of variables as length) -/
theorem assembleFrom_inBounds (as : List AssetProblem)
    (hwf : ∀ a ∈ as, a.l.length = a.n ∧ a.u.length = a.n) (off k : Nat) (x : Vec) :
    InBounds (assembleFrom off as).l (assembleFrom off as).u (fun j => x (k + j)) ↔
      ∀ i, (h : i < as.length) →
        InBounds (as[i]).l (as[i]).u (fun j => x (k + blockOffset as i + j)) := by
  induction as generalizing off k with
  | nil => simp [InBounds]
  | cons a as ih =>
    rw [forall_lt_cons a as (fun i b => InBounds b.l b.u (fun j => x (k + blockOffset (a :: as) i + j)))]
    rw [assembleFrom_cons_l, assembleFrom_cons_u,
      inBounds_append _ _ _ _ a.n (hwf a (by simp)).1 (hwf a (by simp)).2]
    have ih' := ih (fun b hb => hwf b (by simp [hb])) (off + a.n) (k + a.n)
    simp only [blockOffset_zero, blockOffset_cons_succ, Nat.add_zero, Nat.add_assoc] at ih' ⊢
    rw [ih']

/-- relaxed feasibility of the concatenation (from offset 0) = relaxed feasibility of every block -/
theorem assembleFrom_feasibleRelaxed (as : List AssetProblem)
    (hwf : ∀ a ∈ as, a.l.length = a.n ∧ a.u.length = a.n) (x : Vec) :
    (assembleFrom 0 as).FeasibleRelaxed x ↔
      ∀ i, (h : i < as.length) → (as[i]).FeasibleRelaxed (fun j => x (blockOffset as i + j)) := by
  have hb := assembleFrom_inBounds as hwf 0 0 x
  have hr := assembleFrom_rows_sat as 0 x
  simp only [Nat.zero_add] at hb hr
  unfold Problem.FeasibleRelaxed AssetProblem.FeasibleRelaxed
  rw [show (fun j => x j) = x from rfl] at hb
  rw [hb, hr]
  constructor
  · rintro ⟨h1, h2⟩ i hi
    exact ⟨h1 i hi, h2 i hi⟩
  · intro h
    exact ⟨fun i hi => (h i hi).1, fun i hi => (h i hi).2⟩

/-! ### the cvxpy hand-off -/

/-- the block of kind `k` holds iff every row of that kind holds -/
theorem block_rowsOfKind_sat (rows : List Row) (k : RowKind) (x : Vec) :
    (CvxBlock.mk k (rowsOfKind rows k)).Sat x ↔ ∀ r ∈ rows, r.kind = k → r.Sat x := by
  rw [blockSat_iff_rel]
  unfold rowsOfKind
  simp only [List.mem_filter, beq_iff_eq]
  constructor
  · intro h r hr hk
    rw [sat_iff_rel, hk]; exact h r ⟨hr, hk⟩
  · rintro h r ⟨hr, hk⟩
    have := h r hr hk
    rwa [sat_iff_rel, hk] at this

/-- the blocks of the hand-off together say exactly that every row holds -/
theorem translate_blocks_sat (P : Problem) (x : Vec) :
    (∀ b ∈ (translate P).blocks, b.Sat x) ↔ ∀ r ∈ P.rows, r.Sat x := by
  unfold translate
  simp only [List.mem_filterMap]
  constructor
  · intro h r hr
    have hne : (rowsOfKind P.rows r.kind).isEmpty = false := by
      rw [List.isEmpty_eq_false_iff]
      intro he
      have : r ∈ rowsOfKind P.rows r.kind := by
        unfold rowsOfKind; simp [List.mem_filter, hr]
      rw [he] at this; cases this
    have hk : r.kind ∈ [RowKind.U, .L, .S, .N] := by cases r.kind <;> simp
    have := h ⟨r.kind, rowsOfKind P.rows r.kind⟩ ⟨r.kind, hk, by simp [hne]⟩
    exact (block_rowsOfKind_sat P.rows r.kind x).mp this r hr rfl
  · rintro h b ⟨k, _, hb⟩
    by_cases he : (rowsOfKind P.rows k).isEmpty
    · simp [he] at hb
    · simp only [he] at hb
      cases hb
      exact (block_rowsOfKind_sat P.rows k x).mpr (fun r hr _ => h r hr)

/-! ### concatenation of solution vectors -/

theorem concatVec_cons_lt (xs : List Rat) (rest : List (List Rat)) (j : Nat) (h : j < xs.length) :
    concatVec (xs :: rest) j = xs.getD j 0 := by
  simp [concatVec, h]

theorem concatVec_cons_add (xs : List Rat) (rest : List (List Rat)) (j : Nat) :
    concatVec (xs :: rest) (xs.length + j) = concatVec rest j := by
  have : ¬ (xs.length + j < xs.length) := by omega
  simp [concatVec, this]

/-! ### minimum of a list of rationals -/

theorem min?_map_spec {α : Type} (f : α → Rat) (l : List α) (v : Rat) (h : (l.map f).min? = some v) :
    (∀ a ∈ l, v ≤ f a) ∧ ∃ a ∈ l, v = f a := by
  rw [List.min?_eq_some_iff] at h
  obtain ⟨hm, hle⟩ := h
  refine ⟨fun a ha => hle _ (List.mem_map.mpr ⟨a, ha, rfl⟩), ?_⟩
  obtain ⟨a, ha, rfl⟩ := List.mem_map.mp hm
  exact ⟨a, ha, rfl⟩

/-! ### sums of rationals -/

theorem sum_map_neg {α : Type} (f : α → Rat) (l : List α) :
    (l.map fun a => - f a).sum = - (l.map f).sum := by
  induction l with
  | nil => simp
  | cons a as ih => simp only [List.map_cons, List.sum_cons, ih]; grind

theorem sum_map_le {α : Type} (f g : α → Rat) (l : List α) (h : ∀ a ∈ l, f a ≤ g a) :
    (l.map f).sum ≤ (l.map g).sum := by
  induction l with
  | nil => simp
  | cons a as ih =>
    simp only [List.map_cons, List.sum_cons]
    have h1 := h a (by simp)
    have h2 := ih (fun b hb => h b (by simp [hb]))
    grind

/-- position `sum (take i ns) + j` of the concatenation of blocks of lengths `ns` is entry `j` of
    block `i` -/
theorem concatVec_take_sum (ns : List Nat) (xs : List (List Rat)) (hlen : xs.length = ns.length)
    (hn : ∀ i, (h : i < ns.length) → (xs.getD i []).length = ns[i])
    (i : Nat) (hi : i < ns.length) (j : Nat) (hj : j < ns[i]) :
    concatVec xs ((ns.take i).sum + j) = (xs.getD i []).getD j 0 := by
  induction ns generalizing xs i with
  | nil => simp at hi
  | cons n ns ih =>
    cases xs with
    | nil => simp at hlen
    | cons y rest =>
      have hy : y.length = n := by
        have h0 := hn 0 (by simp)
        simpa using h0
      cases i with
      | zero =>
        simp only [List.take_zero, List.sum_nil, Nat.zero_add, List.getD_cons_zero]
        exact concatVec_cons_lt y rest j (by simpa [hy] using hj)
      | succ i =>
        simp only [List.take_succ_cons, List.sum_cons, List.getD_cons_succ]
        rw [← hy, Nat.add_assoc, concatVec_cons_add]
        refine ih rest (by simpa using hlen) (fun k hk => ?_) i (by simpa using hi) (by simpa using hj)
        have hk1 := hn (k + 1) (by simp; omega)
        simpa using hk1

/-! ### decidability (for concrete instances) -/

instance (l u : List Rat) (x : Vec) : Decidable (InBounds l u x) := by
  unfold InBounds; exact inferInstance
instance (P : Problem) (x : Vec) : Decidable (P.FeasibleRelaxed x) := by
  unfold Problem.FeasibleRelaxed; exact inferInstance
instance (P : Problem) (x : Vec) : Decidable (P.Feasible x) := by
  unfold Problem.Feasible; exact inferInstance
instance (a : AssetProblem) (x : Vec) : Decidable (a.FeasibleRelaxed x) := by
  unfold AssetProblem.FeasibleRelaxed; exact inferInstance
instance (k : RowKind) (r : Row) (x : Vec) : Decidable (k.rel r x) := by
  unfold RowKind.rel; cases k <;> exact inferInstance
instance (b : CvxBlock) (x : Vec) : Decidable (b.Sat x) :=
  decidable_of_iff _ (blockSat_iff_rel b x).symm
instance (Q : CvxProblem) (x : Vec) : Decidable (Q.Sat x) := by
  unfold CvxProblem.Sat; exact inferInstance

end EAO
