import EAO.Spec.UnitCommit

/-!
# EAO.Lemmas.UC — unit commitment (property C06)

* `RowsF` — Boolean reading of the rows the builder generates for minimum runtime / minimum downtime /
  declared initial state, and `commit_rowsF_iff_specF`: some start-flag vector satisfies the rows iff
  the on/off pattern satisfies the run-length specification `SpecF`.
* `st` — the automaton of `EAO.Spec.UnitCommit` as an indexed state function; `specF_iff_st`:
  under the constructor's guard the specification holds iff the automaton does not get stuck;
  `spec_iff_automaton`: the same for the list automaton `accepts`.

Core Lean only.
-/

namespace EAO.UC

/-- the start-definition, min-runtime and min-downtime rows and initial-state bounds, Boolean reading -/
def RowsF (p : UCP) (T : Nat) (on start : Nat → Bool) : Prop :=
  (∀ t, t + 1 < T → on (t+1) = true → on t = false → start (t+1) = true) ∧
  (p.tar = 0 → start 0 = on 0) ∧
  (∀ t, t < T → ∀ i, 1 ≤ i → i < p.R → i ≤ t → start (t - i) = true → on t = true) ∧
  (0 < p.tar → ∀ t, t < p.R - p.tar → t < T → on t = true) ∧
  (∀ t, t < T → ∀ i, 1 ≤ i → i < p.D → i < t →
      on t = true → on (t-i) = false → on (t-i-1) = true → False) ∧
  (∀ t, t < T → 1 ≤ t → t < p.D → p.tao = 0 → on t = true → on 0 = false → False) ∧
  (0 < p.tao → ∀ t, t < p.D - p.tao → t < T → on t = false)

/-- the switch-on indicator (the argument `T` is unused; kept for the callers) -/
def startOf (p : UCP) (_T : Nat) (on : Nat → Bool) (t : Nat) : Bool :=
  if t = 0 then (decide (p.tar = 0) && on 0) else (on t && !on (t-1))

theorem rowsF_imp_specF (p : UCP) (T : Nat) (on start : Nat → Bool) :
    RowsF p T on start → SpecF p T on := by
  intro h
  obtain ⟨hS1, hS0, hR, hR0, hD, hD0, hDinit⟩ := h
  refine ⟨?_, ?_, hR0, ?_, ?_, hDinit⟩
  · intro s hsT hs hon hoff k hk hskT
    obtain ⟨s', rfl⟩ : ∃ s', s = s' + 1 := ⟨s - 1, by omega⟩
    have hoff' : on s' = false := by simpa using hoff
    have hst : start (s'+1) = true := hS1 s' hsT hon hoff'
    by_cases hk0 : k = 0
    · subst hk0; simpa using hon
    · have h1 : s' + 1 + k - k = s' + 1 := by omega
      exact hR (s'+1+k) hskT k (by omega) hk (by omega) (by rw [h1]; exact hst)
  · intro htar hon k hk hkT
    by_cases hk0 : k = 0
    · subst hk0; exact hon
    · have hst : start 0 = true := by rw [hS0 htar]; exact hon
      have h1 : k - k = 0 := by omega
      exact hR k hkT k (by omega) hk (by omega) (by rw [h1]; exact hst)
  · intro s hsT hs hoff hon k hk hskT
    by_cases hk0 : k = 0
    · subst hk0; simpa using hoff
    · cases hv : on (s+k) with
      | false => rfl
      | true =>
        exfalso
        have h1 : s + k - k = s := by omega
        exact hD (s+k) hskT k (by omega) hk (by omega) hv (by rw [h1]; exact hoff)
          (by rw [h1]; exact hon)
  · intro htao hoff k hk hkT
    by_cases hk0 : k = 0
    · subst hk0; exact hoff
    · cases hv : on k with
      | false => rfl
      | true => exact absurd (hD0 k hkT (by omega) hk htao hv hoff) id

theorem specF_imp_rowsF (p : UCP) (T : Nat) (on : Nat → Bool) :
    SpecF p T on → RowsF p T on (startOf p T on) := by
  intro h
  obtain ⟨hU1, hU0, hUi, hD1, hD0, hDi⟩ := h
  refine ⟨?_, ?_, ?_, hUi, ?_, ?_, hDi⟩
  · intro t _ hon hoff
    simp [startOf, hon, hoff]
  · intro htar
    simp [startOf, htar]
  · intro t htT i hi hiR hit hst
    unfold startOf at hst
    by_cases h0 : t - i = 0
    · have hti : i = t := by omega
      rw [if_pos h0] at hst
      simp only [Bool.and_eq_true, decide_eq_true_eq] at hst
      exact hU0 hst.1 hst.2 t (by omega) htT
    · rw [if_neg h0] at hst
      simp only [Bool.and_eq_true, Bool.not_eq_true'] at hst
      have := hU1 (t-i) (by omega) (by omega) hst.1 hst.2 i hiR (by omega)
      have h1 : t - i + i = t := by omega
      rw [h1] at this; exact this
  · intro t htT i hi hiD hit hon hoff hon'
    have := hD1 (t-i) (by omega) (by omega) hoff hon' i hiD (by omega)
    have h1 : t - i + i = t := by omega
    rw [h1] at this
    rw [hon] at this; exact Bool.noConfusion this
  · intro t htT ht1 htD htao hon hoff
    have := hD0 htao hoff t htD htT
    rw [hon] at this; exact Bool.noConfusion this

theorem commit_rowsF_iff_specF (p : UCP) (T : Nat) (on : Nat → Bool) :
    (∃ start, RowsF p T on start) ↔ SpecF p T on :=
  ⟨fun ⟨s, h⟩ => rowsF_imp_specF p T on s h, fun h => ⟨startOf p T on, specF_imp_rowsF p T on h⟩⟩

theorem commit_rows_iff_spec_bool (p : UCP) (on : List Bool) :
    (∃ start : Nat → Bool, RowsF p on.length (fn on) start) ↔ MinUpDown p on :=
  commit_rowsF_iff_specF p on.length (fn on)

/-! ## the automaton as an indexed state function -/

theorem thr_true (p : UCP) : thr p true = p.R := by simp [thr]
theorem thr_false (p : UCP) : thr p false = p.D := by simp [thr]

theorem initSt_of_tar (p : UCP) (h : 0 < p.tar) : initSt p = (true, p.tar) := by
  unfold initSt; rw [if_pos h]
theorem initSt_of_tao (p : UCP) (h : ¬ 0 < p.tar) (h2 : 0 < p.tao) : initSt p = (false, p.tao) := by
  unfold initSt; rw [if_neg h, if_pos h2]
theorem initSt_of_none (p : UCP) (h : ¬ 0 < p.tar) (h2 : ¬ 0 < p.tao) : initSt p = (false, p.D) := by
  unfold initSt; rw [if_neg h, if_neg h2]

theorem initSt_fst (p : UCP) : (initSt p).1 = decide (0 < p.tar) := by
  by_cases h : 0 < p.tar
  · rw [initSt_of_tar p h]; simp [h]
  · by_cases h2 : 0 < p.tao
    · rw [initSt_of_tao p h h2]; simp [h]
    · rw [initSt_of_none p h h2]; simp [h]

theorem initSt_snd_tar (p : UCP) (h : 0 < p.tar) : (initSt p).2 = p.tar := by
  rw [initSt_of_tar p h]
theorem initSt_snd_tao (p : UCP) (h : ¬ 0 < p.tar) (h2 : 0 < p.tao) : (initSt p).2 = p.tao := by
  rw [initSt_of_tao p h h2]
theorem initSt_snd_none (p : UCP) (h : ¬ 0 < p.tar) (h2 : ¬ 0 < p.tao) : (initSt p).2 = p.D := by
  rw [initSt_of_none p h h2]

/-- state of the automaton after reading `on 0 … on (t-1)` (`none`: stuck) -/
def st (p : UCP) (on : Nat → Bool) : Nat → Option St
  | 0 => some (initSt p)
  | t+1 => (st p on t).bind (fun s => step p s (on t))

theorem st_zero (p : UCP) (on : Nat → Bool) : st p on 0 = some (initSt p) := rfl
theorem st_succ (p : UCP) (on : Nat → Bool) (t : Nat) :
    st p on (t+1) = (st p on t).bind (fun s => step p s (on t)) := rfl

theorem step_same (p : UCP) (c : Bool) (k : Nat) : step p (c, k) c = some (c, k+1) := by
  simp [step]

theorem step_switch (p : UCP) (c v : Bool) (k : Nat) (hv : v ≠ c) :
    step p (c, k) v = if thr p c ≤ k then some (v, 1) else none := by
  simp [step, hv]

theorem st_none_mono (p : UCP) (on : Nat → Bool) (t d : Nat) (h : st p on t = none) :
    st p on (t+d) = none := by
  induction d with
  | zero => exact h
  | succ d ih => rw [← Nat.add_assoc, st_succ, ih]; rfl

theorem st_some_of_le (p : UCP) (on : Nat → Bool) (t T : Nat) (hle : t ≤ T)
    (h : (st p on T).isSome) : (st p on t).isSome := by
  cases hst : st p on t with
  | some s => rfl
  | none =>
    have := st_none_mono p on t (T - t) hst
    rw [Nat.add_sub_cancel' hle] at this
    rw [this] at h; exact Bool.noConfusion h

/-- while in state (c, j) with j below the threshold, the next symbol must be c -/
theorem forced (p : UCP) (on : Nat → Bool) (t : Nat) (c : Bool) (j : Nat)
    (hst : st p on t = some (c, j)) (hj : j < thr p c) (hnext : (st p on (t+1)).isSome) :
    on t = c ∧ st p on (t+1) = some (c, j+1) := by
  rw [st_succ, hst, Option.bind_some] at hnext ⊢
  by_cases h : on t = c
  · rw [h, step_same]; exact ⟨rfl, rfl⟩
  · rw [step_switch p c (on t) j h, if_neg (by omega)] at hnext
    exact Bool.noConfusion hnext

/-- after entering state (c, j0) at time s+1, an accepted word keeps c up to the threshold -/
theorem hold (p : UCP) (T : Nat) (on : Nat → Bool) (s : Nat) (c : Bool) (j0 : Nat)
    (hst : st p on (s+1) = some (c, j0)) (hon : on s = c) (hacc : (st p on T).isSome) :
    ∀ k, j0 + k ≤ thr p c → s + k < T → on (s+k) = c ∧ st p on (s+k+1) = some (c, j0 + k) := by
  intro k
  induction k with
  | zero => intro _ _; exact ⟨hon, hst⟩
  | succ k ih =>
    intro hk hT
    have ⟨_, hs⟩ := ih (by omega) (by omega)
    have hsome : (st p on (s+k+1+1)).isSome := st_some_of_le p on _ T (by omega) hacc
    have := forced p on (s+k+1) c (j0+k) hs (by omega) hsome
    exact ⟨this.1, this.2⟩

/-- state right after a switch at time t -/
theorem switch_state (p : UCP) (on : Nat → Bool) (t : Nat) (c : Bool) (k : Nat)
    (hst : st p on t = some (c, k)) (hv : on t ≠ c) (hsome : (st p on (t+1)).isSome) :
    st p on (t+1) = some (on t, 1) ∧ thr p c ≤ k := by
  rw [st_succ, hst, Option.bind_some, step_switch p c (on t) k hv] at hsome ⊢
  by_cases h : thr p c ≤ k
  · rw [if_pos h]; exact ⟨rfl, h⟩
  · rw [if_neg h] at hsome; exact Bool.noConfusion hsome

/-- the current symbol of the state is the previous input -/
theorem st_cur (p : UCP) (on : Nat → Bool) (t : Nat) (c : Bool) (k : Nat)
    (hst : st p on (t+1) = some (c, k)) : on t = c := by
  rw [st_succ] at hst
  cases h : st p on t with
  | none => rw [h, Option.bind_none] at hst; cases hst
  | some s =>
    obtain ⟨c0, k0⟩ := s
    rw [h, Option.bind_some] at hst
    by_cases hv : on t = c0
    · rw [hv, step_same] at hst
      have := congrArg Prod.fst (Option.some.inj hst)
      rw [hv]; exact this
    · rw [step_switch p c0 (on t) k0 hv] at hst
      by_cases h2 : thr p c0 ≤ k0
      · rw [if_pos h2] at hst
        exact congrArg Prod.fst (Option.some.inj hst)
      · rw [if_neg h2] at hst; cases hst

/-- from the initial state `(c, j0)`, an accepted word keeps `c` while below the threshold -/
theorem hold_init (p : UCP) (T : Nat) (on : Nat → Bool) (c : Bool) (j0 : Nat)
    (hinit : st p on 0 = some (c, j0)) (hacc : (st p on T).isSome) :
    ∀ k, j0 + k < thr p c → k < T → on k = c ∧ st p on (k+1) = some (c, j0 + k + 1) := by
  intro k
  induction k with
  | zero =>
    intro h1 h2
    have hsome : (st p on 1).isSome := st_some_of_le p on _ T (by omega) hacc
    exact forced p on 0 c j0 hinit (by omega) hsome
  | succ k ih =>
    intro h1 h2
    have ⟨_, hs⟩ := ih (by omega) (by omega)
    have hsome : (st p on (k+1+1)).isSome := st_some_of_le p on _ T (by omega) hacc
    have := forced p on (k+1) c (j0 + k + 1) hs (by omega) hsome
    exact ⟨this.1, this.2⟩

/-- Direction A: acceptance implies the run-length specification -/
theorem st_imp_specF (p : UCP) (T : Nat) (on : Nat → Bool) (hg : GuardOK p)
    (hacc : (st p on T).isSome) : SpecF p T on := by
  refine ⟨?_, ?_, ?_, ?_, ?_, ?_⟩
  · -- switch-on at s ≥ 1
    intro s hsT hs hon hoff k hk hskT
    obtain ⟨s', rfl⟩ : ∃ s', s = s' + 1 := ⟨s - 1, by omega⟩
    have hoff' : on s' = false := by simpa using hoff
    have hsome1 : (st p on (s'+1)).isSome := st_some_of_le p on _ T (by omega) hacc
    have hsome2 : (st p on (s'+1+1)).isSome := st_some_of_le p on _ T (by omega) hacc
    obtain ⟨⟨c, j⟩, hst⟩ := Option.isSome_iff_exists.mp hsome1
    have hc : on s' = c := st_cur p on s' c j hst
    have hne : on (s'+1) ≠ c := by rw [← hc, hon, hoff']; decide
    have hsw := (switch_state p on (s'+1) c j hst hne hsome2).1
    rw [hon] at hsw
    exact (hold p T on (s'+1) true 1 hsw hon hacc k (by rw [thr_true]; omega) hskT).1
  · -- start at step 0 after being off
    intro htar hon k hk hkT
    have hsome1 : (st p on 1).isSome := st_some_of_le p on _ T (by omega) hacc
    have hinit : st p on 0 = some (false, (initSt p).2) := by
      have h1 : (initSt p).1 = false := by rw [initSt_fst]; simp [htar]
      rw [st_zero, ← h1]
    have hne : on 0 ≠ false := by rw [hon]; decide
    have hsw := (switch_state p on 0 false _ hinit hne hsome1).1
    rw [hon] at hsw
    have := hold p T on 0 true 1 hsw hon hacc k (by rw [thr_true]; omega) (by omega)
    simpa using this.1
  · -- already running for tar < R
    intro htar t ht htT
    have hinit : st p on 0 = some (true, p.tar) := by rw [st_zero, initSt_of_tar p htar]
    exact (hold_init p T on true p.tar hinit hacc t (by rw [thr_true]; omega) htT).1
  · -- switch-off at s ≥ 1
    intro s hsT hs hoff hon k hk hskT
    obtain ⟨s', rfl⟩ : ∃ s', s = s' + 1 := ⟨s - 1, by omega⟩
    have hon' : on s' = true := by simpa using hon
    have hsome1 : (st p on (s'+1)).isSome := st_some_of_le p on _ T (by omega) hacc
    have hsome2 : (st p on (s'+1+1)).isSome := st_some_of_le p on _ T (by omega) hacc
    obtain ⟨⟨c, j⟩, hst⟩ := Option.isSome_iff_exists.mp hsome1
    have hc : on s' = c := st_cur p on s' c j hst
    have hne : on (s'+1) ≠ c := by rw [← hc, hon', hoff]; decide
    have hsw := (switch_state p on (s'+1) c j hst hne hsome2).1
    rw [hoff] at hsw
    exact (hold p T on (s'+1) false 1 hsw hoff hacc k (by rw [thr_false]; omega) hskT).1
  · -- stop at step 0 after running (tao = 0)
    intro htao hoff k hk hkT
    by_cases htar : 0 < p.tar
    · have hinit : st p on 0 = some (true, p.tar) := by rw [st_zero, initSt_of_tar p htar]
      have hsome1 : (st p on 1).isSome := st_some_of_le p on _ T (by omega) hacc
      have hne : on 0 ≠ true := by rw [hoff]; decide
      have hsw := (switch_state p on 0 true _ hinit hne hsome1).1
      rw [hoff] at hsw
      have := hold p T on 0 false 1 hsw hoff hacc k (by rw [thr_false]; omega) (by omega)
      simpa using this.1
    · -- neither running nor off history: the constructor guard gives D ≤ 1, so only k = 0 is asked
      have hD : p.D ≤ 1 := by
        by_cases h : 1 < p.D
        · rcases hg h with ⟨h1, _⟩ | ⟨_, h2⟩
          · exact absurd h1 htar
          · omega
        · omega
      have : k = 0 := by omega
      subst this; exact hoff
  · -- already off for tao < D
    intro htao t ht htT
    have htar : ¬ 0 < p.tar := by
      intro h
      rcases hg (by omega) with ⟨_, h1⟩ | ⟨h1, _⟩ <;> omega
    have hinit : st p on 0 = some (false, p.tao) := by rw [st_zero, initSt_of_tao p htar htao]
    exact (hold_init p T on false p.tao hinit hacc t (by rw [thr_false]; omega) htT).1

/-- invariant for direction B -/
def Origin (p : UCP) (on : Nat → Bool) (t : Nat) (c : Bool) (k : Nat) : Prop :=
  (∃ s, 0 < s ∧ s + k = t ∧ on s = c ∧ on (s-1) = !c) ∨
  (0 < t ∧ k = t ∧ (initSt p).1 = !c ∧ on 0 = c) ∨
  (c = (initSt p).1 ∧ k = (initSt p).2 + t ∧ ∀ j, j < t → on j = c)

/-- a switch out of state `(c, k)` at time `t` meets the threshold when the specification holds -/
theorem thr_le_of_spec (p : UCP) (T : Nat) (on : Nat → Bool) (hg : GuardOK p) (hs : SpecF p T on)
    (t : Nat) (htT : t + 1 ≤ T) (c : Bool) (k : Nat) (hv : on t ≠ c) (horig : Origin p on t c k) :
    thr p c ≤ k := by
  obtain ⟨hU1, hU0, hUi, hD1, hD0, hDi⟩ := hs
  apply Nat.le_of_not_lt
  intro hlt
  cases c with
  | true =>
    rw [thr_true] at hlt
    have hoff : on t = false := by cases h : on t <;> simp_all
    rcases horig with ⟨s, hs0, hsk, h1, h2⟩ | ⟨ht0, hk, h1, h2⟩ | ⟨h1, hk, hall⟩
    · have := hU1 s (by omega) hs0 h1 (by simpa using h2) k hlt (by omega)
      rw [hsk, hoff] at this; exact Bool.noConfusion this
    · have htar : p.tar = 0 := by
        rw [initSt_fst] at h1; simp at h1; omega
      have := hU0 htar h2 t (by omega) (by omega)
      rw [hoff] at this; exact Bool.noConfusion this
    · have htar : 0 < p.tar := by
        rw [initSt_fst] at h1; simpa using h1.symm
      have hk' : k = p.tar + t := by
        rw [initSt_snd_tar p htar] at hk; exact hk
      have := hUi htar t (by omega) (by omega)
      rw [hoff] at this; exact Bool.noConfusion this
  | false =>
    rw [thr_false] at hlt
    have hon : on t = true := by cases h : on t <;> simp_all
    rcases horig with ⟨s, hs0, hsk, h1, h2⟩ | ⟨ht0, hk, h1, h2⟩ | ⟨h1, hk, hall⟩
    · have := hD1 s (by omega) hs0 h1 (by simpa using h2) k hlt (by omega)
      rw [hsk, hon] at this; exact Bool.noConfusion this
    · have htar : 0 < p.tar := by
        rw [initSt_fst] at h1; simpa using h1
      have htao : p.tao = 0 := by
        rcases hg (by omega) with ⟨_, h3⟩ | ⟨h3, _⟩ <;> omega
      have := hD0 htao h2 t (by omega) (by omega)
      rw [hon] at this; exact Bool.noConfusion this
    · have htar : ¬ 0 < p.tar := by
        rw [initSt_fst] at h1; simpa using h1.symm
      by_cases htao : 0 < p.tao
      · have hk' : k = p.tao + t := by
          rw [initSt_snd_tao p htar htao] at hk; exact hk
        have := hDi htao t (by omega) (by omega)
        rw [hon] at this; exact Bool.noConfusion this
      · have hk' : k = p.D + t := by
          rw [initSt_snd_none p htar htao] at hk; exact hk
        omega

theorem specF_imp_inv (p : UCP) (T : Nat) (on : Nat → Bool) (hg : GuardOK p) (hs : SpecF p T on) :
    ∀ t, t ≤ T → ∃ c k, st p on t = some (c, k) ∧ (0 < t → on (t-1) = c) ∧ Origin p on t c k := by
  intro t
  induction t with
  | zero =>
    intro _
    exact ⟨(initSt p).1, (initSt p).2, rfl, by omega,
      Or.inr (Or.inr ⟨rfl, by omega, by omega⟩)⟩
  | succ t ih =>
    intro htT
    obtain ⟨c, k, hst, hprev, horig⟩ := ih (by omega)
    by_cases hv : on t = c
    · -- no switch
      refine ⟨c, k+1, ?_, fun _ => hv, ?_⟩
      · rw [st_succ, hst, Option.bind_some, hv, step_same]
      · rcases horig with ⟨s, hs0, hsk, h1, h2⟩ | ⟨ht0, hk, h1, h2⟩ | ⟨h1, hk, hall⟩
        · exact Or.inl ⟨s, hs0, by omega, h1, h2⟩
        · exact Or.inr (Or.inl ⟨by omega, by omega, h1, h2⟩)
        · refine Or.inr (Or.inr ⟨h1, by omega, ?_⟩)
          intro j hj
          by_cases hjt : j = t
          · subst hjt; exact hv
          · exact hall j (by omega)
    · -- switch at t : the threshold is met, by the specification
      have hthr : thr p c ≤ k := thr_le_of_spec p T on hg hs t htT c k hv horig
      have hflip : c = !on t := by cases c <;> cases h : on t <;> simp_all
      refine ⟨on t, 1, ?_, fun _ => rfl, ?_⟩
      · rw [st_succ, hst, Option.bind_some, step_switch p c (on t) k hv, if_pos hthr]
      · by_cases ht0 : t = 0
        · subst ht0
          refine Or.inr (Or.inl ⟨by omega, rfl, ?_, rfl⟩)
          -- at time 0 the state is the initial one
          have h0 : c = (initSt p).1 := by
            rw [st_zero] at hst
            exact (congrArg Prod.fst (Option.some.inj hst)).symm
          rw [← h0]; exact hflip
        · refine Or.inl ⟨t, by omega, rfl, rfl, ?_⟩
          rw [hprev (by omega)]; exact hflip

theorem specF_imp_st (p : UCP) (T : Nat) (on : Nat → Bool) (hg : GuardOK p) (hs : SpecF p T on) :
    (st p on T).isSome := by
  obtain ⟨c, k, h, _⟩ := specF_imp_inv p T on hg hs T (Nat.le_refl _)
  rw [h]; rfl

theorem specF_iff_st (p : UCP) (T : Nat) (on : Nat → Bool) (hg : GuardOK p) :
    SpecF p T on ↔ (st p on T).isSome :=
  ⟨specF_imp_st p T on hg, st_imp_specF p T on hg⟩

/-! ## bridge to the list automaton -/

theorem run_append_singleton (p : UCP) (s : St) (l : List Bool) (v : Bool) :
    run p s (l ++ [v]) = (run p s l).bind (fun s' => step p s' v) := by
  induction l generalizing s with
  | nil =>
    show run p s [v] = (run p s []).bind _
    simp only [run, Option.bind_some]
    cases step p s v <;> rfl
  | cons a l ih =>
    show run p s (a :: (l ++ [v])) = (run p s (a :: l)).bind _
    simp only [run]
    cases step p s a with
    | none => rfl
    | some s' => exact ih s'

theorem st_eq_run_take (p : UCP) (on : List Bool) (t : Nat) (ht : t ≤ on.length) :
    st p (fn on) t = run p (initSt p) (on.take t) := by
  induction t with
  | zero => rfl
  | succ t ih =>
    have hlt : t < on.length := by omega
    have htake : on.take (t+1) = on.take t ++ [fn on t] := by
      rw [List.take_add_one]
      simp [fn, List.getD, List.getElem?_eq_getElem hlt]
    rw [st_succ, ih (by omega), htake, run_append_singleton]

theorem spec_iff_automaton (p : UCP) (on : List Bool) (hg : GuardOK p) :
    MinUpDown p on ↔ accepts p on = true := by
  unfold MinUpDown accepts
  rw [specF_iff_st p on.length (fn on) hg, st_eq_run_take p on on.length (Nat.le_refl _),
    List.take_length]

/-- the hypotheses are satisfiable on a non-trivial instance (R = 2, D = 2, already off for 1 step) -/
example : GuardOK ⟨2, 2, 0, 1⟩ ∧ MinUpDown ⟨2, 2, 0, 1⟩ [false, true, true, false, false, true] ∧
    accepts ⟨2, 2, 0, 1⟩ [false, true, true, false, false, true] = true := by decide

/-- … and a pattern violating the minimum downtime is rejected by both readings -/
example : ¬ MinUpDown ⟨2, 2, 0, 1⟩ [false, true, true, false, true] ∧
    accepts ⟨2, 2, 0, 1⟩ [false, true, true, false, true] = false := by decide

end EAO.UC

/-
`#print axioms` (checked in a scratch file importing `EAO.Lemmas.UC`):

'EAO.UC.commit_rows_iff_spec_bool' depends on axioms: [propext, Quot.sound]
'EAO.UC.spec_iff_automaton' depends on axioms: [propext, Quot.sound]
(also: commit_rowsF_iff_specF, specF_iff_st, rowsF_imp_specF, specF_imp_rowsF: [propext, Quot.sound])
-/
