import EAO.Model.CoarseStorage
import EAO.Model.Readout
import EAO.Lemmas.CoarseBuild
import EAO.Lemmas.Storage
/-!
# helper lemmas for `EAO/Properties/C13Storage.lean` (storage with a coarse asset frequency)

Part A: sums (`sumTo` / `rsum`), sums of non-negative terms, the last index with a property.
Part B: a monotone owner map: prefix sums of an expanded schedule, the elapsed share `cwF` of a coarse step.
Part C: the owner list of a coarse grid is monotone; `cumWeight` of the model is `cwF`.
Part D: inversion of the builders (`buildCoarseStorage`, `fineStorage`, `storageCore`), `buildStorage` is the core.
Part E: levels: flow and inflow of an expanded schedule, the interpolation formula, the fill-level rows as level
        conditions, feasibility in both directions.
Part F: bounds, costs, mapping blocks and dispatch (all options).
Part G: the reported fill level of a coarse storage is the one the fine storage reports at the expanded schedule.
Part H: the LP form as a whole (bounds / rows / value at a coarse point and its expansion).
Part I: the no-simultaneous form (`disp_in | disp_out | bool_1`): bounds, rows, value, surjectivity of `expandNS`.
Part J: the rows of the extended mapping (step, variable, factor).
-/
namespace EAO.CoarseStorage
open EAO EAO.Merge EAO.CoarseBuild EAO.Storage

/-! ## Part A: sums -/

theorem sumTo_eq_rsum (f : Nat → Rat) (k : Nat) : sumTo f k = rsum k f := by
  induction k with
  | zero => simp [sumTo]
  | succ k ih => rw [sumTo_succ, rsum_succ, ih]

theorem rsum_nonneg (n : Nat) (f : Nat → Rat) (h : ∀ k, k < n → 0 ≤ f k) : 0 ≤ rsum n f := by
  induction n with
  | zero => simp
  | succ n ih =>
    rw [rsum_succ]
    have h1 := ih (fun k hk => h k (by omega))
    have h2 := h n (by omega)
    grind

theorem rsum_eq_zero (n : Nat) (f : Nat → Rat) (h : ∀ k, k < n → f k = 0) : rsum n f = 0 := by
  rw [rsum_congr n f (fun _ => 0) h, rsum_const_zero]

/-- a sum whose terms vanish from `m` on -/
theorem rsum_support (n m : Nat) (hm : m ≤ n) (f : Nat → Rat) (h : ∀ k, m ≤ k → k < n → f k = 0) :
    rsum n f = rsum m f := by
  have e : n = m + (n - m) := by omega
  rw [e, rsum_add, rsum_eq_zero (n - m) _ (fun k hk => h (m + k) (by omega) (by omega))]
  grind

/-- the last index below `n` with a property -/
theorem exists_last (P : Nat → Prop) (n : Nat) (h : ∃ k, k < n ∧ P k) :
    ∃ k, k < n ∧ P k ∧ ∀ s, k < s → s < n → ¬ P s := by
  induction n with
  | zero => obtain ⟨k, hk, _⟩ := h; omega
  | succ n ih =>
    by_cases hn : P n
    · exact ⟨n, by omega, hn, fun s h1 h2 => by omega⟩
    · obtain ⟨k, hk, hpk⟩ := h
      have hkn : k < n := by
        rcases Nat.lt_or_ge k n with h1 | h1
        · exact h1
        · have : k = n := by omega
          subst this; exact absurd hpk hn
      obtain ⟨k', h1, h2, h3⟩ := ih ⟨k, hkn, hpk⟩
      refine ⟨k', by omega, h2, fun s hs1 hs2 => ?_⟩
      by_cases hsn : s = n
      · subst hsn; exact hn
      · exact h3 s hs1 (by omega)

/-! ## Part B: a monotone owner map -/

/-- the owner map does not decrease along the fine steps -/
def Mono (o : Nat → Nat) (n : Nat) : Prop := ∀ s k, s ≤ k → k < n → o s ≤ o k

/-- elapsed share of its coarse step at the end of fine step `k` -/
def cwF (o : Nat → Nat) (w : Nat → Rat) (k : Nat) : Rat := rsum (k + 1) (fun s => if o s = o k then w s else 0)

section mono
variable {o : Nat → Nat} {w : Nat → Rat} {n Tc : Nat}

theorem cwF_pos (S : Spread o w n Tc) (k : Nat) (hk : k < n) : 0 < cwF o w k := by
  unfold cwF
  rw [rsum_succ, if_pos rfl]
  have h1 : 0 ≤ rsum k (fun s => if o s = o k then w s else 0) := by
    apply rsum_nonneg
    intro s hs
    split
    · exact Rat.le_of_lt (S.pos s (by omega))
    · exact Rat.le_refl
  have h2 := S.pos k hk
  grind

theorem cwF_le_one (S : Spread o w n Tc) (k : Nat) (hk : k < n) : cwF o w k ≤ 1 := by
  have h1 := S.one (o k) (S.lt k hk)
  have e : n = (k + 1) + (n - (k + 1)) := by omega
  rw [e, rsum_add] at h1
  have h2 : 0 ≤ rsum (n - (k + 1)) (fun j => if o (k + 1 + j) = o k then w (k + 1 + j) else 0) := by
    apply rsum_nonneg
    intro s hs
    split
    · exact Rat.le_of_lt (S.pos _ (by omega))
    · exact Rat.le_refl
  unfold cwF
  grind

/-- at the last fine step of a coarse step the whole step has elapsed -/
theorem cwF_last (S : Spread o w n Tc) (k : Nat) (hk : k < n) (hlast : ∀ s, k < s → s < n → o s ≠ o k) :
    cwF o w k = 1 := by
  have h1 := S.one (o k) (S.lt k hk)
  rw [rsum_support n (k + 1) (by omega) _ (fun s h1 h2 => by rw [if_neg (hlast s (by omega) h2)])] at h1
  exact h1

/-- **prefix sums of an expanded schedule**: up to and including fine step `k`, the coarse steps before the one
    of `k` count completely, the one of `k` with its elapsed share -/
theorem prefix_sum (S : Spread o w n Tc) (hm : Mono o n) (h : Nat → Rat) (k : Nat) (hk : k < n) :
    rsum (k + 1) (fun s => h (o s) * w s) = rsum (o k) h + h (o k) * cwF o w k := by
  rw [rsum_regroup (k + 1) Tc o w h (fun s hs => S.lt s (by omega))]
  have hok := S.lt k hk
  rw [rsum_support Tc (o k + 1) (by omega) _ (fun i h1 h2 => by
    rw [rsum_eq_zero (k + 1) _ (fun s hs => by
      have := hm s k (by omega) hk
      rw [if_neg (by omega)])]
    grind)]
  rw [rsum_succ]
  congr 1
  apply rsum_congr
  intro i hi
  have h1 := S.one i (by omega)
  rw [rsum_support n (k + 1) (by omega) _ (fun s hs1 hs2 => by
    have := hm k s (by omega) hs2
    rw [if_neg (by omega)])] at h1
  rw [h1]; grind

/-- every coarse step has a last fine step -/
theorem last_of_step (S : Spread o w n Tc) (i : Nat) (hi : i < Tc) :
    ∃ k, k < n ∧ o k = i ∧ ∀ s, k < s → s < n → o s ≠ i :=
  exists_last (fun k => o k = i) n (S.surj i hi)

/-- the last fine step belongs to the last coarse step -/
theorem owner_last (S : Spread o w n Tc) (hm : Mono o n) (hT : 0 < Tc) : o (n - 1) = Tc - 1 := by
  have hn := S.n_pos hT
  obtain ⟨k, hk, hok⟩ := S.surj (Tc - 1) (by omega)
  have h1 := hm k (n - 1) (by omega) (by omega)
  have h2 := S.lt (n - 1) (by omega)
  omega

/-- a fine step whose successor exists and belongs to the same or a later coarse step … the last fine step of a
    coarse step other than the last one has a successor -/
theorem last_not_end (S : Spread o w n Tc) (hm : Mono o n) (i k : Nat) (hi : i + 1 < Tc) (hk : k < n) (hok : o k = i) :
    k + 1 < n := by
  have h1 := owner_last S hm (by omega)
  rcases Nat.lt_or_ge (k + 1) n with h | h
  · exact h
  · have : k = n - 1 := by omega
    rw [this] at hok
    omega

end mono

/-! ## Part C: the owner list of a coarse grid -/

theorem ownerFrom_ge (i0 : Nat) (cells : List (List Nat)) : ∀ a, a ∈ ownerFrom i0 cells → i0 ≤ a := by
  induction cells generalizing i0 with
  | nil => intro a h; simp [ownerFrom] at h
  | cons c rest ih =>
    intro a h
    simp only [ownerFrom, List.mem_append, List.mem_map] at h
    rcases h with ⟨_, _, rfl⟩ | h
    · exact Nat.le_refl _
    · have := ih (i0 + 1) a h; omega

theorem ownerFrom_sorted (i0 : Nat) (cells : List (List Nat)) : (ownerFrom i0 cells).Pairwise (· ≤ ·) := by
  induction cells generalizing i0 with
  | nil => simp [ownerFrom]
  | cons c rest ih =>
    simp only [ownerFrom]
    rw [List.pairwise_append]
    refine ⟨?_, ih (i0 + 1), ?_⟩
    · rw [List.pairwise_map]
      exact List.pairwise_of_forall (fun _ _ => Nat.le_refl _)
    · intro a ha b hb
      obtain ⟨_, _, rfl⟩ := List.mem_map.mp ha
      have := ownerFrom_ge (i0 + 1) rest b hb
      omega

theorem owner_mono (cg : CoarseGrid) : Mono (fun k => cg.owner.getD k 0) cg.owner.length := by
  intro s k hsk hk
  rcases Nat.eq_or_lt_of_le hsk with h | h
  · subst h; exact Nat.le_refl _
  · have hs : s < cg.owner.length := by omega
    have := List.pairwise_iff_getElem.mp (ownerFrom_sorted 0 cg.minor) s k hs hk h
    simp only [List.getD_eq_getElem?_getD, List.getElem?_eq_getElem hs, List.getElem?_eq_getElem hk, Option.getD_some]
    exact this

/-- the model's `cumWeight` (a filtered list) is the function form `cwF` -/
theorem cumWeight_eq (owner : List Nat) (w : List Rat) (k : Nat) :
    cumWeight owner w k = cwF (fun s => owner.getD s 0) (fun s => w.getD s 0) k := by
  unfold cumWeight cwF rsum
  rw [sum_filter_map]
  congr 1
  apply List.map_congr_left
  intro s _
  simp only [beq_iff_eq]

/-! ## Part D: inversion of the builders -/

/-- the problem `storageCore` returns for the block list `bl` -/
def coreProblem (p : StorageP) (g : Grid) (pr : Nat → Rat) (bl : List (Nat × Nat)) : AssetProblem :=
  { name := p.name, nodes := p.nodes,
    c := costVec p g g.T pr, l := lowerVec p g g.T, u := upperVec p g g.T,
    rows := upperRows p g g.T bl ++ lowerRows p g g.T bl ++ nsRows p g g.T ++ holdRows p g g.T,
    mapping := Storage.mapping p g g.T }

theorem storageCore_ok {p : StorageP} {g : Grid} {pr : Nat → Rat} {a : AssetProblem}
    (h : storageCore p g pr = .ok a) :
    ∃ bl, blocksOf p g.T = .ok bl ∧ p.nodes ≠ [] ∧ a = coreProblem p g pr bl := by
  unfold storageCore at h
  split at h
  · cases h
  · rename_i hn
    split at h
    · cases h
    · rename_i bl hbl
      refine ⟨bl, hbl, ?_, ?_⟩
      · intro h0; apply hn; simp [h0]
      · cases h; rfl

theorem storageCore_of {p : StorageP} {g : Grid} {pr : Nat → Rat} {bl : List (Nat × Nat)}
    (hn : p.nodes ≠ []) (hbl : blocksOf p g.T = .ok bl) : storageCore p g pr = .ok (coreProblem p g pr bl) := by
  unfold storageCore
  have : p.nodes.isEmpty = false := by
    cases hp : p.nodes with
    | nil => exact absurd hp hn
    | cons a l => rfl
  rw [this, hbl]
  rfl

/-- `buildStorage` is the empty-window test, the sampled price and then `storageCore` -/
theorem buildStorage_eq_core (p : StorageP) (g : Grid) (T : Nat) (prices : Prices) :
    buildStorage p g T prices
      = (if g.dt.length = 0 then
           .ok { name := p.name, nodes := p.nodes, c := [], l := [], u := [], rows := [], mapping := [] }
         else match priceVec p g T prices with
           | .error e => .error e
           | .ok pr => storageCore p g pr) := by
  unfold buildStorage storageCore
  rfl

theorem coarseStoragePrice_length {p : StorageP} {minor : List (List Nat)} {prices : Prices} {fullT : Nat}
    {r : List Rat} (h : coarseStoragePrice p minor prices fullT = .ok r) : r.length = minor.length := by
  unfold coarseStoragePrice at h
  cases hk : p.price with
  | none =>
    simp only [hk, pure, Except.pure] at h
    injection h with h
    rw [← h]; simp
  | some k =>
    simp only [hk] at h
    cases hl : prices.lookup k with
    | none => simp [hl, throw, throwThe, MonadExceptOf.throw] at h
    | some arr =>
      simp only [hl] at h
      split at h
      · simp [throw, throwThe, MonadExceptOf.throw] at h
      · rw [meanVector_ok h]; simp

/-- a non-empty successful coarse set-up: the core on the coarse grid with the averaged price, mapping extended -/
theorem buildCoarseStorage_ok {p : StorageP} {cg : CoarseGrid} {dtF : List Rat} {prices : Prices} {fullT : Nat}
    {Pc : AssetProblem} (h : buildCoarseStorage p cg dtF prices fullT = .ok Pc) (hne : cg.grid.dt.length ≠ 0) :
    ∃ price bl, coarseStoragePrice p cg.minor prices fullT = .ok price ∧ blocksOf p cg.grid.T = .ok bl ∧ p.nodes ≠ [] ∧
      Pc = { coreProblem p cg.grid (fun i => price.getD i 0) bl with
             mapping := (Storage.mapping p cg.grid cg.grid.T).flatMap (extendRow cg dtF) } := by
  unfold buildCoarseStorage at h
  rw [if_neg hne] at h
  simp only [bind, Except.bind, pure, Except.pure] at h
  cases hp : coarseStoragePrice p cg.minor prices fullT with
  | error e => simp [hp] at h
  | ok price =>
    simp only [hp] at h
    split at h
    · cases h
    · rename_i a ha
      split at h
      · cases h
      · rename_i M hm
        injection h with h
        have ha' : storageCore p cg.grid (fun i => price.getD i 0) = .ok a := ha
        obtain ⟨bl, hbl, hn, rfl⟩ := storageCore_ok ha'
        refine ⟨price, bl, rfl, hbl, hn, ?_⟩
        rw [← h, extendMapping_ok hm]
        rfl

theorem fineStorageP_of_none (p : StorageP) (cg : CoarseGrid) (h : p.blocks = none) : fineStorageP p cg = p := by
  cases p
  simp only [fineStorageP] at *
  subst h
  rfl

theorem blocksOf_none (p : StorageP) (n : Nat) (h : p.blocks = none) : blocksOf p n = .ok [(0, n)] := by
  unfold blocksOf; rw [h]

/-- the fine problem of a storage without time blocks, once the price is known -/
theorem fineStorage_eq {p : StorageP} {ref : Grid} {cg : CoarseGrid} {prices : Prices} {fullT : Nat} {price : List Rat}
    (hne : cg.grid.dt.length ≠ 0) (hbl : p.blocks = none) (hn : p.nodes ≠ [])
    (hp : coarseStoragePrice p cg.minor prices fullT = .ok price) :
    fineStorage p ref cg prices fullT
      = .ok (coreProblem p (minorGrid ref cg) (fun k => price.getD (cg.owner.getD k 0) 0) [(0, (minorGrid ref cg).T)]) := by
  unfold fineStorage
  rw [if_neg hne, hp, fineStorageP_of_none p cg hbl]
  simp only [bind, Except.bind]
  exact storageCore_of hn (blocksOf_none p _ hbl)

/-! ## Part E: levels -/

/-- a convex combination stays between the bounds of its ends -/
theorem interp_bounds (a b c lo hi : Rat) (hc0 : 0 ≤ c) (hc1 : c ≤ 1) (ha : lo ≤ a ∧ a ≤ hi) (hb : lo ≤ b ∧ b ≤ hi) :
    lo ≤ a + c * (b - a) ∧ a + c * (b - a) ≤ hi := by
  have h1 : 0 ≤ (1 - c) * (a - lo) := Rat.mul_nonneg (by grind) (by grind)
  have h2 : 0 ≤ c * (b - lo) := Rat.mul_nonneg hc0 (by grind)
  have h3 : 0 ≤ (1 - c) * (hi - a) := Rat.mul_nonneg (by grind) (by grind)
  have h4 : 0 ≤ c * (hi - b) := Rat.mul_nonneg hc0 (by grind)
  constructor <;> grind

/-- the level conditions the fill-level rows of a window without time blocks express: inside `[0, size]` after every
    step but the last, the end level after the last -/
def LevOK (size e : Rat) (n : Nat) (L : Nat → Rat) : Prop :=
  (∀ i, i + 1 < n → 0 ≤ L (i + 1) ∧ L (i + 1) ≤ size) ∧ L n = e

section levels
variable {o : Nat → Nat} {w : Nat → Rat} {n Tc : Nat}

/-- fine levels that interpolate the coarse ones: fine conditions ⇒ coarse conditions (no hypothesis on the data) -/
theorem levOK_coarse_of_fine (S : Spread o w n Tc) (hm : Mono o n) (hT : 0 < Tc) (size e : Rat) (Lc Lf : Nat → Rat)
    (hI : ∀ k, k < n → Lf (k + 1) = Lc (o k) + cwF o w k * (Lc (o k + 1) - Lc (o k)))
    (hf : LevOK size e n Lf) : LevOK size e Tc Lc := by
  have hn := S.n_pos hT
  constructor
  · intro i hi
    obtain ⟨k, hk, hok, hlast⟩ := last_of_step S i (by omega)
    have hk1 := last_not_end S hm i k hi hk hok
    have hc := cwF_last S k hk (fun s h1 h2 => by rw [hok]; exact hlast s h1 h2)
    have := hf.1 k hk1
    rw [hI k hk, hc, hok] at this
    constructor <;> grind
  · have hk : n - 1 < n := by omega
    have hok := owner_last S hm hT
    have hc := cwF_last S (n - 1) hk (fun s h1 h2 => by omega)
    have h1 := hI (n - 1) hk
    have e1 : n - 1 + 1 = n := by omega
    have e2 : Tc - 1 + 1 = Tc := by omega
    rw [hc, hok, e1, e2] at h1
    have := hf.2
    grind

/-- coarse conditions ⇒ fine conditions when the start level and the end level lie in `[0, size]` -/
theorem levOK_fine_of_coarse (S : Spread o w n Tc) (hm : Mono o n) (hT : 0 < Tc) (size e : Rat) (Lc Lf : Nat → Rat)
    (hI : ∀ k, k < n → Lf (k + 1) = Lc (o k) + cwF o w k * (Lc (o k + 1) - Lc (o k)))
    (hs : 0 ≤ Lc 0 ∧ Lc 0 ≤ size) (he : 0 ≤ e ∧ e ≤ size)
    (hc : LevOK size e Tc Lc) : LevOK size e n Lf := by
  have hn := S.n_pos hT
  have hall : ∀ j, j ≤ Tc → 0 ≤ Lc j ∧ Lc j ≤ size := by
    intro j hj
    by_cases h0 : j = 0
    · subst h0; exact hs
    · by_cases h1 : j = Tc
      · subst h1; rw [hc.2]; exact he
      · have := hc.1 (j - 1) (by omega)
        have e1 : j - 1 + 1 = j := by omega
        rw [e1] at this
        exact this
  constructor
  · intro k hk
    have hk' : k < n := by omega
    have hok := S.lt k hk'
    rw [hI k hk']
    exact interp_bounds _ _ _ 0 size (Rat.le_of_lt (cwF_pos S k hk')) (cwF_le_one S k hk')
      (hall _ (by omega)) (hall _ (by omega))
  · have hk : n - 1 < n := by omega
    have hok := owner_last S hm hT
    have hcw := cwF_last S (n - 1) hk (fun s h1 h2 => by omega)
    have h1 := hI (n - 1) hk
    have e1 : n - 1 + 1 = n := by omega
    have e2 : Tc - 1 + 1 = Tc := by omega
    rw [hcw, hok, e1, e2] at h1
    have := hc.2
    grind

end levels

/-- the fill-level rows of a window without time blocks say `LevOK` of the level `lev` -/
theorem levelIneq_iff_levOK (p : StorageP) (g : Grid) (n : Nat) (x : Vec) (hn : 0 < n) :
    LevelIneq p g n x 0 n ↔ LevOK p.size p.endLevel n (lev p g n x) := by
  have hs0 : sumTo (flow p n x) 0 = 0 := rfl
  have hc0 : cumInfl p g 0 = 0 := rfl
  have hb0 : blockStart p 0 = p.startLevel := by simp [blockStart]
  constructor
  · intro h
    constructor
    · intro i hi
      obtain ⟨h1, h2⟩ := h i (by omega) (by omega)
      have hne : ¬ i + 1 = n := by omega
      simp only [upRhs, loRhs, hne, if_false, blockInfl, hs0, hc0, hb0] at h1 h2
      unfold lev
      constructor <;> grind
    · obtain ⟨h1, h2⟩ := h (n - 1) (by omega) (by omega)
      have he : n - 1 + 1 = n := by omega
      simp only [upRhs, loRhs, he, if_true, blockInfl, hs0, hc0, hb0] at h1 h2
      unfold lev
      grind
  · intro h i _ hi
    by_cases hl : i + 1 = n
    · have h2 := h.2
      simp only [upRhs, loRhs, hl, if_true, blockInfl, hs0, hc0, hb0]
      unfold lev at h2
      constructor <;> grind
    · have h1 := h.1 i (by omega)
      simp only [upRhs, loRhs, hl, if_false, blockInfl, hs0, hc0, hb0]
      unfold lev at h1
      constructor <;> grind

/-- without a maximum holding duration the fill-level rows are the plain inequalities (as
    `EAO.levelIneq_of_rows_none` of `Lemmas/StorageReadout.lean`, restated to keep the imports small) -/
theorem levelIneq_of_rows_none' (p : StorageP) (g : Grid) (n : Nat) (x : Vec) (bl : List (Nat × Nat))
    (hmh : p.maxStoreDuration = none)
    (hU : ∀ r ∈ upperRows p g n bl, r.Sat x) (hL : ∀ r ∈ lowerRows p g n bl, r.Sat x) :
    ∀ ae ∈ bl, LevelIneq p g n x ae.1 ae.2 := by
  intro ae hae i h1 h2
  have hu := hU _ (mem_upperRows p g n bl ae hae i h1 h2)
  have hi : ae.1 + (i + 1 - ae.1) = i + 1 := by omega
  constructor
  · unfold upperRow at hu
    rw [hmh] at hu
    simp only [Row.Sat] at hu
    rw [eval_levelCoeffs, hi] at hu
    exact hu
  · exact lowerIneq_of_rows p g n x bl hL ae hae i h1 h2

/-- the fill-level rows of a window without time blocks and without a holding-duration limit are exactly the level
    inequalities -/
theorem levelRows_iff (p : StorageP) (g : Grid) (x : Vec) (hmh : p.maxStoreDuration = none) :
    (∀ r ∈ upperRows p g g.T [(0, g.T)] ++ lowerRows p g g.T [(0, g.T)], r.Sat x) ↔ LevelIneq p g g.T x 0 g.T := by
  constructor
  · intro h
    have := levelIneq_of_rows_none' p g g.T x [(0, g.T)] hmh
      (fun r hr => h r (List.mem_append_left _ hr)) (fun r hr => h r (List.mem_append_right _ hr)) (0, g.T) (by simp)
    exact this
  · intro h r hr
    rcases List.mem_append.mp hr with hr | hr
    · simp only [upperRows, List.flatMap_cons, List.flatMap_nil, List.append_nil, List.mem_map, List.mem_range'_1] at hr
      obtain ⟨i, ⟨_, hi⟩, rfl⟩ := hr
      have := (h i (by omega) (by omega)).1
      unfold upperRow
      rw [hmh]
      simp only [Row.Sat]
      rw [eval_levelCoeffs]
      have e : 0 + (i + 1 - 0) = i + 1 := by omega
      rw [e]; exact this
    · simp only [lowerRows, List.flatMap_cons, List.flatMap_nil, List.append_nil, List.mem_map, List.mem_range'_1] at hr
      obtain ⟨i, ⟨_, hi⟩, rfl⟩ := hr
      have := (h i (by omega) (by omega)).2
      unfold lowerRow
      simp only [Row.Sat]
      rw [eval_levelCoeffs]
      have e : 0 + (i + 1 - 0) = i + 1 := by omega
      rw [e]; exact this

/-- the rows of the LP form without time blocks are exactly the level inequalities -/
theorem rows_iff_levelIneq (p : StorageP) (g : Grid) (pr : Nat → Rat) (x : Vec)
    (hmh : p.maxStoreDuration = none) (hns : hasNS p = false) :
    (∀ r ∈ (coreProblem p g pr [(0, g.T)]).rows, r.Sat x) ↔ LevelIneq p g g.T x 0 g.T := by
  have hnsr : nsRows p g g.T = [] := by simp [nsRows, hns]
  have hhr : holdRows p g g.T = [] := by simp [holdRows, hmh]
  simp only [coreProblem, hnsr, hhr, List.append_nil]
  exact levelRows_iff p g x hmh

section expandLevels
variable {ref : Grid} {cg : CoarseGrid}

theorem isExpansion_expand (z : Vec) : IsExpansion ref cg z (expand cg.owner (cg.weights ref.dt) cg.grid.T z) :=
  fun b _ k hk => expand_blocks cg.owner (cg.weights ref.dt) cg.grid.T z b k hk

theorem isExp_b0 {z x : Vec} (h : IsExpansion ref cg z x) (k : Nat) (hk : k < cg.owner.length) :
    x k = z (cg.owner.getD k 0) * (cg.weights ref.dt).getD k 0 := by
  have := h 0 (by omega) k hk
  simpa using this

theorem isExp_b1 {z x : Vec} (h : IsExpansion ref cg z x) (k : Nat) (hk : k < cg.owner.length) :
    x (cg.owner.length + k) = z (cg.grid.T + cg.owner.getD k 0) * (cg.weights ref.dt).getD k 0 := by
  have := h 1 (by omega) k hk
  simpa using this

/-- net volume entering the reservoir in a fine step = that of its coarse step times the weight -/
theorem flow_expand (p : StorageP) {z x : Vec} (h : IsExpansion ref cg z x) (k : Nat) (hk : k < cg.owner.length) :
    flow p cg.owner.length x k = flow p cg.grid.T z (cg.owner.getD k 0) * (cg.weights ref.dt).getD k 0 := by
  unfold flow
  rw [isExp_b0 h k hk, isExp_b1 h k hk]
  split <;> grind

/-- inflow of a fine step = that of its coarse step times the weight -/
theorem infl_expand (hwf : cg.WellFormed ref.dt) (p : StorageP) (k : Nat) (hk : k < cg.owner.length) :
    infl p (minorGrid ref cg) k = infl p cg.grid (cg.owner.getD k 0) * (cg.weights ref.dt).getD k 0 := by
  unfold infl dtAt
  rw [← dtC_mul_weight hwf k hk]
  grind

/-- **the level of the expanded schedule interpolates the coarse levels** -/
theorem lev_expand (hwf : cg.WellFormed ref.dt) (p : StorageP) {z x : Vec} (h : IsExpansion ref cg z x)
    (k : Nat) (hk : k < cg.owner.length) :
    lev p (minorGrid ref cg) cg.owner.length x (k + 1)
      = lev p cg.grid cg.grid.T z (cg.owner.getD k 0)
        + cwF (fun s => cg.owner.getD s 0) (fun s => (cg.weights ref.dt).getD s 0) k
          * (lev p cg.grid cg.grid.T z (cg.owner.getD k 0 + 1) - lev p cg.grid cg.grid.T z (cg.owner.getD k 0)) := by
  have S := spread_of_wf hwf
  have hm := owner_mono cg
  have hsum : sumTo (flow p cg.owner.length x) (k + 1) + cumInfl p (minorGrid ref cg) (k + 1)
      = rsum (k + 1) (fun s => (fun i => flow p cg.grid.T z i + infl p cg.grid i) (cg.owner.getD s 0)
          * (cg.weights ref.dt).getD s 0) := by
    unfold cumInfl
    rw [← sumTo_add, sumTo_eq_rsum]
    apply rsum_congr
    intro s hs
    rw [flow_expand p h s (by omega), infl_expand hwf p s (by omega)]
    grind
  have hpre := prefix_sum S hm (fun i => flow p cg.grid.T z i + infl p cg.grid i) k hk
  have hc : ∀ j, lev p cg.grid cg.grid.T z j
      = p.startLevel + rsum j (fun i => flow p cg.grid.T z i + infl p cg.grid i) := by
    intro j
    unfold lev cumInfl
    rw [← sumTo_eq_rsum, sumTo_add]
    grind
  rw [hc, hc, rsum_succ]
  unfold lev
  have e : p.startLevel + sumTo (flow p cg.owner.length x) (k + 1) + cumInfl p (minorGrid ref cg) (k + 1)
      = p.startLevel + (sumTo (flow p cg.owner.length x) (k + 1) + cumInfl p (minorGrid ref cg) (k + 1)) := by grind
  rw [e, hsum, hpre]
  grind

end expandLevels

/-! ## Part F: bounds, costs and dispatch -/

/-- number of dispatch variables per step -/
def nBlocks (p : StorageP) : Nat := if sep p then 2 else 1

theorem nd_eq (p : StorageP) (n : Nat) : nd p n = n * nBlocks p := by
  unfold nd nBlocks; split <;> omega

theorem nVars_lp (p : StorageP) (n : Nat) (hmh : p.maxStoreDuration = none) (hns : hasNS p = false) :
    nVars p n = n * nBlocks p := by
  unfold nVars mHold
  rw [hns, hmh, nd_eq]
  simp

theorem nBlocks_le (p : StorageP) : nBlocks p ≤ 2 := by unfold nBlocks; split <;> omega

/-- cost of the dispatch variables, two-variable form -/
theorem cost_two (p : StorageP) (g : Grid) (n t : Nat) (pr : Nat → Rat) (hs : sep p = true) (ht : t < n) :
    (costVec p g n pr).getD t 0 = (-(p.costIn) - pr t) * Storage.dfAt g t - (storeTail p g n).getD t 0 * p.effIn ∧
    (costVec p g n pr).getD (n + t) 0 = (p.costOut - pr t) * Storage.dfAt g t - (storeTail p g n).getD t 0 := by
  unfold costVec
  simp only [hs, if_true]
  constructor
  · rw [getD_app_left _ _ _ (by simp; omega), getD_app_left _ _ _ (by simp; omega), getD_map_range _ _ _ ht]
  · rw [getD_app_left _ _ _ (by simp; omega), getD_app_right _ _ _ (by simp)]
    simp only [List.length_map, List.length_range, Nat.add_sub_cancel_left]
    rw [getD_map_range _ _ _ ht]

/-- cost of the dispatch variables, one-variable form -/
theorem cost_one (p : StorageP) (g : Grid) (n t : Nat) (pr : Nat → Rat) (hs : sep p = false) (ht : t < n) :
    (costVec p g n pr).getD t 0 = 0 - pr t * Storage.dfAt g t - (storeTail p g n).getD t 0 := by
  unfold costVec
  simp only [hs, Bool.false_eq_true, if_false]
  rw [getD_app_left _ _ _ (by simp; omega), getD_map_range _ _ _ ht]

theorem storeTail_zero (p : StorageP) (g : Grid) (n t : Nat) (h : p.costStore = 0) : (storeTail p g n).getD t 0 = 0 := by
  unfold storeTail
  rw [if_pos h, List.getD_eq_getElem?_getD, List.getElem?_map]
  cases (List.range n)[t]? <;> rfl

section lp
variable {ref : Grid} {cg : CoarseGrid}

/-- bounds of the dispatch variables: fine bound = coarse bound times the weight -/
theorem bounds_expand (hwf : cg.WellFormed ref.dt) (p : StorageP) (b : Nat) (hb : b < nBlocks p) (k : Nat)
    (hk : k < cg.owner.length) :
    (lowerVec p (minorGrid ref cg) cg.owner.length).getD (cg.owner.length * b + k) 0
      = (lowerVec p cg.grid cg.grid.T).getD (cg.grid.T * b + cg.owner.getD k 0) 0 * (cg.weights ref.dt).getD k 0 ∧
    (upperVec p (minorGrid ref cg) cg.owner.length).getD (cg.owner.length * b + k) 0
      = (upperVec p cg.grid cg.grid.T).getD (cg.grid.T * b + cg.owner.getD k 0) 0 * (cg.weights ref.dt).getD k 0 := by
  have ho := owner_lt hwf k hk
  have hd := dtC_mul_weight hwf k hk
  unfold nBlocks at hb
  by_cases hs : sep p = true
  · obtain ⟨f1, f2, f3, f4⟩ := bounds_two p (minorGrid ref cg) cg.owner.length k hs hk
    obtain ⟨c1, c2, c3, c4⟩ := bounds_two p cg.grid cg.grid.T _ hs ho
    rw [if_pos hs] at hb
    have hb' : b = 0 ∨ b = 1 := by omega
    rcases hb' with rfl | rfl
    · simp only [Nat.mul_zero, Nat.zero_add]
      rw [f1, f2, c1, c2]
      unfold cp dtAt
      constructor <;> grind
    · simp only [Nat.mul_one]
      rw [f3, f4, c3, c4]
      unfold ct dtAt
      constructor <;> grind
  · have hs' : sep p = false := by simpa using hs
    obtain ⟨f1, f2⟩ := bounds_one p (minorGrid ref cg) cg.owner.length k hs' hk
    obtain ⟨c1, c2⟩ := bounds_one p cg.grid cg.grid.T _ hs' ho
    rw [if_neg hs] at hb
    have hb' : b = 0 := by omega
    subst hb'
    simp only [Nat.mul_zero, Nat.zero_add]
    rw [f1, f2, c1, c2]
    unfold cp ct dtAt
    constructor <;> grind

/-- costs of the dispatch variables: with equal discount factors inside the coarse steps and no holding costs the
    cost of a fine variable is the cost of its coarse variable -/
theorem cost_expand (hwf : cg.WellFormed ref.dt) (hdf : EqualDiscount ref cg) (p : StorageP) (hcs : p.costStore = 0)
    (prC : Nat → Rat) (b : Nat) (hb : b < nBlocks p) (k : Nat) (hk : k < cg.owner.length) :
    (costVec p (minorGrid ref cg) cg.owner.length (fun s => prC (cg.owner.getD s 0))).getD (cg.owner.length * b + k) 0
      = (costVec p cg.grid cg.grid.T prC).getD (cg.grid.T * b + cg.owner.getD k 0) 0 := by
  have ho := owner_lt hwf k hk
  have hd : Storage.dfAt (minorGrid ref cg) k = Storage.dfAt cg.grid (cg.owner.getD k 0) := df_spread hdf hwf k hk
  unfold nBlocks at hb
  by_cases hs : sep p = true
  · obtain ⟨f1, f2⟩ := cost_two p (minorGrid ref cg) cg.owner.length k (fun s => prC (cg.owner.getD s 0)) hs hk
    obtain ⟨c1, c2⟩ := cost_two p cg.grid cg.grid.T _ prC hs ho
    rw [if_pos hs] at hb
    have hb' : b = 0 ∨ b = 1 := by omega
    rcases hb' with rfl | rfl
    · simp only [Nat.mul_zero, Nat.zero_add]
      rw [f1, c1, storeTail_zero _ _ _ _ hcs, storeTail_zero _ _ _ _ hcs, hd]
    · simp only [Nat.mul_one]
      rw [f2, c2, storeTail_zero _ _ _ _ hcs, storeTail_zero _ _ _ _ hcs, hd]
  · have hs' : sep p = false := by simpa using hs
    have f1 := cost_one p (minorGrid ref cg) cg.owner.length k (fun s => prC (cg.owner.getD s 0)) hs' hk
    have c1 := cost_one p cg.grid cg.grid.T _ prC hs' ho
    rw [if_neg hs] at hb
    have hb' : b = 0 := by omega
    subst hb'
    simp only [Nat.mul_zero, Nat.zero_add]
    rw [f1, c1, storeTail_zero _ _ _ _ hcs, storeTail_zero _ _ _ _ hcs, hd]

end lp

/-! ### the mapping -/

theorem zipIdx_map_eq_range {β : Type} (L : List Nat) (F : Nat × Nat → β) :
    L.zipIdx.map F = (List.range L.length).map fun k => F (L.getD k 0, k) := by
  apply List.ext_getElem
  · simp
  · intro i h1 h2
    simp only [List.length_map, List.length_zipIdx] at h1
    simp [List.getD_eq_getElem?_getD, List.getElem?_eq_getElem h1]

/-- a block of dispatch rows of the storage's mapping is a `genBlock` -/
theorem dispRows_eq_genBlock (name node vn : String) (off : Nat) (g : Grid) (n : Nat) (hlen : g.idx.length = n) :
    ((List.range n).map fun k => genRow name node vn 1 (off + k) (idxAt g k))
      = genBlock name node vn 1 off g := by
  unfold genBlock
  rw [zipIdx_map_eq_range, hlen]
  rfl

theorem nodeIn_some (p : StorageP) (h : p.nodes ≠ []) : ∃ nd, nodeIn p = some nd := by
  unfold nodeIn
  cases hp : p.nodes with
  | nil => exact absurd hp h
  | cons a l => exact ⟨a, rfl⟩

theorem nodeOut_some (p : StorageP) (h : p.nodes ≠ []) : ∃ nd, nodeOut p = some nd := by
  unfold nodeOut
  cases hp : p.nodes with
  | nil => exact absurd hp h
  | cons a l =>
    cases l with
    | nil => exact ⟨a, by simp⟩
    | cons b l' =>
      cases l' with
      | nil => exact ⟨b, by simp⟩
      | cons c l'' => exact ⟨a, by simp⟩

/-- the dispatch rows of a storage on a grid whose index list has the window's length, as blocks -/
theorem dispMap_eq_genBlocks (p : StorageP) (g : Grid) (n : Nat) (hlen : g.idx.length = n) (hn : p.nodes ≠ []) :
    ∃ nIn nOut, nodeIn p = some nIn ∧ nodeOut p = some nOut ∧
      dispMap p g n = if sep p then genBlock p.name nIn "disp_in" 1 (n * 0) g ++ genBlock p.name nOut "disp_out" 1 (n * 1) g
                      else genBlock p.name nIn "disp" 1 (n * 0) g := by
  obtain ⟨nIn, hIn⟩ := nodeIn_some p hn
  obtain ⟨nOut, hOut⟩ := nodeOut_some p hn
  refine ⟨nIn, nOut, hIn, hOut, ?_⟩
  unfold dispMap
  rw [hIn, hOut]
  split
  · rw [← dispRows_eq_genBlock p.name nIn "disp_in" (n * 0) g n hlen,
      ← dispRows_eq_genBlock p.name nOut "disp_out" (n * 1) g n hlen]
    simp [genRow]
  · rw [← dispRows_eq_genBlock p.name nIn "disp" (n * 0) g n hlen]
    simp [genRow]

theorem extendRow_keeps (cg : CoarseGrid) (dtF : List Rat) (r m : MapRow) (h : m ∈ extendRow cg dtF r) :
    m.kind = r.kind ∧ m.asset = r.asset ∧ m.var = r.var ∧ m.node = r.node := by
  unfold extendRow at h
  split at h
  · simp at h
  · unfold extendSteps at h
    obtain ⟨t, _, rfl⟩ := List.mem_map.mp h
    exact ⟨rfl, rfl, rfl, rfl⟩

theorem dispatchOut_nondisp (M : List MapRow) (h : ∀ m ∈ M, m.kind ≠ .d) (a nd : String) (t : Nat) (x : Vec) :
    dispatchOut M a nd t x = 0 := by
  unfold dispatchOut
  have : M.filter (fun m => m.asset == a && isDisp nd t m) = [] := by
    apply List.filter_eq_nil_iff.mpr
    intro m hm
    have := h m hm
    simp [isDisp, this]
  rw [this]; rfl

theorem boolMap_kind (p : StorageP) (g : Grid) (n off : Nat) (nm : String) : ∀ m ∈ boolMap p g n off nm, m.kind ≠ .d := by
  intro m hm
  unfold boolMap at hm
  obtain ⟨k, _, rfl⟩ := List.mem_map.mp hm
  simp

theorem flatMap_extend_kind (cg : CoarseGrid) (dtF : List Rat) (M : List MapRow) (h : ∀ m ∈ M, m.kind ≠ .d) :
    ∀ m ∈ M.flatMap (extendRow cg dtF), m.kind ≠ .d := by
  intro m hm
  obtain ⟨r, hr, hmr⟩ := List.mem_flatMap.mp hm
  rw [(extendRow_keeps cg dtF r m hmr).1]
  exact h r hr

section dispatch
variable {ref : Grid} {cg : CoarseGrid}

/-- **dispatch**, all options: the extended coarse mapping reads off a coarse point what the fine storage's own
    mapping reads off its expansion, at every asset, node and fine step -/
theorem dispatch_expand (hwf : cg.WellFormed ref.dt) (p : StorageP) (hn : p.nodes ≠ []) {z x : Vec}
    (h : IsExpansion ref cg z x) (a nd : String) (t : Nat) :
    dispatchOut (Storage.mapping p (minorGrid ref cg) cg.owner.length) a nd t x
      = dispatchOut ((Storage.mapping p cg.grid cg.grid.T).flatMap (extendRow cg ref.dt)) a nd t z := by
  unfold Storage.mapping
  rw [List.flatMap_append, List.flatMap_append, dispatchOut_append, dispatchOut_append, dispatchOut_append,
    dispatchOut_append]
  have hb1 : ∀ (g : Grid) (n : Nat) (y : Vec),
      dispatchOut (if hasNS p then boolMap p g n (2 * n) "bool_1" else []) a nd t y = 0 := by
    intro g n y
    apply dispatchOut_nondisp
    split
    · exact boolMap_kind _ _ _ _ _
    · intro m hm; simp at hm
  have hb2 : ∀ (g : Grid) (n : Nat) (y : Vec),
      dispatchOut (if p.maxStoreDuration.isSome then boolMap p g n (mHold p n) "bool_2" else []) a nd t y = 0 := by
    intro g n y
    apply dispatchOut_nondisp
    split
    · exact boolMap_kind _ _ _ _ _
    · intro m hm; simp at hm
  have he1 : dispatchOut ((if hasNS p then boolMap p cg.grid cg.grid.T (2 * cg.grid.T) "bool_1" else []).flatMap
      (extendRow cg ref.dt)) a nd t z = 0 := by
    apply dispatchOut_nondisp
    apply flatMap_extend_kind
    split
    · exact boolMap_kind _ _ _ _ _
    · intro m hm; simp at hm
  have he2 : dispatchOut ((if p.maxStoreDuration.isSome then boolMap p cg.grid cg.grid.T (mHold p cg.grid.T) "bool_2" else []).flatMap
      (extendRow cg ref.dt)) a nd t z = 0 := by
    apply dispatchOut_nondisp
    apply flatMap_extend_kind
    split
    · exact boolMap_kind _ _ _ _ _
    · intro m hm; simp at hm
  rw [hb1, hb2, he1, he2]
  congr 2
  have hlenF : (minorGrid ref cg).idx.length = cg.owner.length := by
    show cg.minor.flatten.length = _
    rw [owner_length]
  obtain ⟨nIn, nOut, _, _, hF⟩ := dispMap_eq_genBlocks p (minorGrid ref cg) cg.owner.length hlenF hn
  obtain ⟨nIn', nOut', hi', ho', hC⟩ := dispMap_eq_genBlocks p cg.grid cg.grid.T hwf.ok.1 hn
  have e1 : nIn' = nIn := by rename_i h1 _; rw [h1] at hi'; injection hi' with h; exact h.symm
  have e2 : nOut' = nOut := by rename_i _ h2; rw [h2] at ho'; injection ho' with h; exact h.symm
  subst e1 e2
  rw [hF, hC]
  split
  · rw [List.flatMap_append, dispatchOut_append, dispatchOut_append,
      dispatch_block_cg hwf p.name nIn' "disp_in" 1 0 z x (h 0 (by omega)),
      dispatch_block_cg hwf p.name nOut' "disp_out" 1 1 z x (h 1 (by omega))]
  · rw [dispatch_block_cg hwf p.name nIn' "disp" 1 0 z x (h 0 (by omega))]

end dispatch

/-! ## Part H: the LP form (no holding-duration limit, no no-simultaneous booleans, no time blocks) as a whole -/

section whole
variable {ref : Grid} {cg : CoarseGrid}

theorem lev_zero' (p : StorageP) (g : Grid) (n : Nat) (x : Vec) : lev p g n x 0 = p.startLevel := by
  simp [lev, cumInfl, sumTo]; grind

theorem isExpansion_blocks (p : StorageP) {z x : Vec} (h : IsExpansion ref cg z x) :
    ∀ b, b < nBlocks p → ∀ k, k < cg.owner.length →
      x (cg.owner.length * b + k) = z (cg.grid.T * b + cg.owner.getD k 0) * (cg.weights ref.dt).getD k 0 :=
  fun b hb k hk => h b (by have := nBlocks_le p; omega) k hk

/-- bounds: the expansion is within the fine bounds iff the coarse point is within the coarse bounds -/
theorem inBounds_expand (hwf : cg.WellFormed ref.dt) (p : StorageP) (hmh : p.maxStoreDuration = none)
    (hns : hasNS p = false) {z x : Vec} (h : IsExpansion ref cg z x) :
    InBounds (lowerVec p (minorGrid ref cg) cg.owner.length) (upperVec p (minorGrid ref cg) cg.owner.length) x
      ↔ InBounds (lowerVec p cg.grid cg.grid.T) (upperVec p cg.grid cg.grid.T) z := by
  unfold InBounds
  rw [lowerVec_length, lowerVec_length, nVars_lp p _ hmh hns, nVars_lp p _ hmh hns]
  exact bounds_spread (spread_of_wf hwf) (nBlocks p) _ _ _ _ x z
    (fun b hb k hk => (bounds_expand hwf p b hb k hk).1) (fun b hb k hk => (bounds_expand hwf p b hb k hk).2)
    (isExpansion_blocks p h)

/-- rows: fine rows at the expansion ⇒ coarse rows at the coarse point -/
theorem rows_coarse_of_fine (hwf : cg.WellFormed ref.dt) (hT : 0 < cg.grid.T) (p : StorageP)
    (hmh : p.maxStoreDuration = none) (hns : hasNS p = false) (prC prF : Nat → Rat) {z x : Vec}
    (h : IsExpansion ref cg z x)
    (hf : ∀ r ∈ (coreProblem p (minorGrid ref cg) prF [(0, (minorGrid ref cg).T)]).rows, r.Sat x) :
    ∀ r ∈ (coreProblem p cg.grid prC [(0, cg.grid.T)]).rows, r.Sat z := by
  have S := spread_of_wf hwf
  have hn := S.n_pos hT
  rw [rows_iff_levelIneq p _ _ _ hmh hns, minorGrid_T, levelIneq_iff_levOK _ _ _ _ hn] at hf
  rw [rows_iff_levelIneq p _ _ _ hmh hns, levelIneq_iff_levOK _ _ _ _ hT]
  exact levOK_coarse_of_fine S (owner_mono cg) hT _ _ _ _ (fun k hk => lev_expand hwf p h k hk) hf

/-- rows: coarse rows at the coarse point ⇒ fine rows at the expansion, when start and end level lie in `[0, size]` -/
theorem rows_fine_of_coarse (hwf : cg.WellFormed ref.dt) (hT : 0 < cg.grid.T) (p : StorageP)
    (hmh : p.maxStoreDuration = none) (hns : hasNS p = false) (prC prF : Nat → Rat) {z x : Vec}
    (h : IsExpansion ref cg z x)
    (hs : 0 ≤ p.startLevel ∧ p.startLevel ≤ p.size) (he : 0 ≤ p.endLevel ∧ p.endLevel ≤ p.size)
    (hc : ∀ r ∈ (coreProblem p cg.grid prC [(0, cg.grid.T)]).rows, r.Sat z) :
    ∀ r ∈ (coreProblem p (minorGrid ref cg) prF [(0, (minorGrid ref cg).T)]).rows, r.Sat x := by
  have S := spread_of_wf hwf
  have hn := S.n_pos hT
  rw [rows_iff_levelIneq p _ _ _ hmh hns, levelIneq_iff_levOK _ _ _ _ hT] at hc
  rw [rows_iff_levelIneq p _ _ _ hmh hns, minorGrid_T, levelIneq_iff_levOK _ _ _ _ hn]
  exact levOK_fine_of_coarse S (owner_mono cg) hT _ _ _ _ (fun k hk => lev_expand hwf p h k hk)
    (by rw [lev_zero']; exact hs) he hc

/-- value: with equal discount factors inside the coarse steps and no holding costs the expansion costs the same -/
theorem costAt_expand (hwf : cg.WellFormed ref.dt) (hdf : EqualDiscount ref cg) (p : StorageP)
    (hmh : p.maxStoreDuration = none) (hns : hasNS p = false) (hcs : p.costStore = 0) (prC : Nat → Rat) {z x : Vec}
    (h : IsExpansion ref cg z x) :
    costAt (costVec p (minorGrid ref cg) cg.owner.length (fun s => prC (cg.owner.getD s 0))) 0 x
      = costAt (costVec p cg.grid cg.grid.T prC) 0 z := by
  rw [costAt_eq_rsum, costAt_eq_rsum, costVec_length, costVec_length, nVars_lp p _ hmh hns, nVars_lp p _ hmh hns]
  simp only [Nat.zero_add]
  exact cost_spread (spread_of_wf hwf) (nBlocks p) _ _ x z
    (fun b hb k hk => cost_expand hwf hdf p hcs prC b hb k hk) (isExpansion_blocks p h)

end whole

/-! ## Part G: the reported fill level -/

theorem isExpansion_expandNS {ref : Grid} {cg : CoarseGrid} (z : Vec) :
    IsExpansion ref cg z (expandNS cg.owner (cg.weights ref.dt) cg.grid.T z) := by
  intro b hb k hk
  unfold expandNS
  rw [block_div _ _ _ hk, if_pos hb]
  exact expand_blocks cg.owner (cg.weights ref.dt) cg.grid.T z b k hk

/-- what `Storage.fill_level` makes of the value `v` of a dispatch variable -/
def netIn (e v : Rat) : Rat := posPart (-v) * e + negPart (-v)

/-- scaling a variable by a positive weight scales what `fill_level` books for it -/
theorem netIn_scale (e a w : Rat) (hw : 0 < w) : netIn e (a * w) = netIn e a * w := by
  unfold netIn posPart negPart
  by_cases h : 0 ≤ -a
  · have h1 : 0 ≤ -(a * w) := by
      have := Rat.mul_nonneg h (Rat.le_of_lt hw)
      grind
    by_cases h2 : -a ≤ 0
    · have h3 : a = 0 := by grind
      subst h3
      simp [Rat.zero_mul]
      grind
    · have h3 : ¬ -(a * w) ≤ 0 := by
        have : 0 < -a := by grind
        have := Rat.mul_pos this hw
        grind
      rw [if_pos h, if_pos h1, if_neg h2, if_neg h3]; grind
  · have ha : 0 < a := by grind
    have h0 := Rat.mul_pos ha hw
    have h1 : ¬ 0 ≤ -(a * w) := by grind
    have h2 : -a ≤ 0 := by grind
    have h3 : -(a * w) ≤ 0 := by grind
    rw [if_neg h, if_neg h1, if_pos h2, if_pos h3]; grind

theorem repFlow_eq_netIn (p : StorageP) (n : Nat) (x : Vec) (k : Nat) :
    repFlow p n x k = if sep p then netIn p.effIn (x k) + netIn p.effIn (x (n + k)) else netIn p.effIn (x k) := rfl

section readout
variable {ref : Grid} {cg : CoarseGrid}

/-- what the code books for a fine step of the expanded schedule = what it books for the coarse step, times the weight -/
theorem repFlow_expand (hwf : cg.WellFormed ref.dt) (p : StorageP) {z x : Vec} (h : IsExpansion ref cg z x) (k : Nat)
    (hk : k < cg.owner.length) :
    repFlow p cg.owner.length x k = repFlow p cg.grid.T z (cg.owner.getD k 0) * (cg.weights ref.dt).getD k 0 := by
  have hw := weight_pos hwf k hk
  rw [repFlow_eq_netIn, repFlow_eq_netIn, isExp_b0 h k hk, isExp_b1 h k hk, netIn_scale _ _ _ hw, netIn_scale _ _ _ hw]
  split <;> grind

/-- the `k`-th (owner, step) pair of a coarse grid -/
theorem ot_getD_cg (k : Nat) (hk : k < cg.owner.length) :
    (ot 0 cg.minor).getD k (0, 0) = (cg.owner.getD k 0, cg.minor.flatten.getD k 0) := by
  rw [owner_length] at hk
  have h1 := owner_getD 0 cg.minor k hk
  have h2 := flat_getD 0 cg.minor k hk
  show _ = ((ownerFrom 0 cg.minor).getD k 0, _)
  rw [h1, h2]

theorem ot_length_cg : (ot 0 cg.minor).length = cg.owner.length := by rw [ot_length, owner_length]

/-- a sum over the rows of one extended block that are booked at step `t`, as a sum over the fine steps -/
theorem block_sum_at (name node vn : String) (off : Nat) (t : Nat) (v : Nat → Rat) :
    (((cellMapFrom (extRow ref cg name node vn 1 off) 0 cg.minor).filter
        fun m => m.asset == name && m.kind == .d && m.step == t).map fun m => v m.var * m.factor).sum
      = rsum cg.owner.length (fun k => if cg.minor.flatten.getD k 0 = t
          then v (off + cg.owner.getD k 0) * (cg.weights ref.dt).getD k 0 else 0) := by
  rw [sum_filter_map, cellMapFrom_eq_ot, List.map_map, ← ot_length_cg,
    ← rsum_getD (ot 0 cg.minor) (0, 0)]
  apply rsum_congr
  intro k hk
  rw [ot_length_cg] at hk
  rw [ot_getD_cg k hk]
  have hw : (cg.weights ref.dt).getD k 0
      = ref.dt.getD (cg.minor.flatten.getD k 0) 0 / cg.grid.dt.getD (cg.owner.getD k 0) 0 := by
    rw [weight_eq k hk, minorGrid_dt_getD k hk]
  simp only [Function.comp_def, extRow, genRow, beq_self_eq_true, Bool.true_and, beq_iff_eq, hw]
  split <;> grind

/-- rows of another kind are not booked -/
theorem sum_nondisp (name : String) (t : Nat) (M : List MapRow) (h : ∀ m ∈ M, m.kind ≠ .d) (c : MapRow → Rat) :
    ((M.filter fun m => m.asset == name && m.kind == .d && m.step == t).map c).sum = 0 := by
  have : M.filter (fun m => m.asset == name && m.kind == .d && m.step == t) = [] := by
    apply List.filter_eq_nil_iff.mpr
    intro m hm
    have := h m hm
    simp [this]
  rw [this]; rfl

theorem sum_filter_append (M1 M2 : List MapRow) (q : MapRow → Bool) (c : MapRow → Rat) :
    (((M1 ++ M2).filter q).map c).sum = ((M1.filter q).map c).sum + ((M2.filter q).map c).sum := by
  rw [List.filter_append, List.map_append, List.sum_append]

/-- **increment of the reported fill level**, all options, any `z`: at a full-grid step `t` the repaired
    `Storage.fill_level` books, for every fine step of the storage that is `t`, the net volume of its coarse step
    times `dt_fine/dt_coarse` plus the inflow of the fine step -/
theorem fillIncCoarse_formula (hwf : cg.WellFormed ref.dt) (p : StorageP) (hn : p.nodes ≠ []) (z : Vec) (t : Nat) :
    fillIncCoarse p ((Storage.mapping p cg.grid cg.grid.T).flatMap (extendRow cg ref.dt)) cg ref.dt z t
      = rsum cg.owner.length (fun k => if cg.minor.flatten.getD k 0 = t
          then repFlow p cg.grid.T z (cg.owner.getD k 0) * (cg.weights ref.dt).getD k 0
               + p.inflow * ref.dt.getD (cg.minor.flatten.getD k 0) 0 else 0) := by
  unfold fillIncCoarse
  have hinfl : ((cg.minor.flatten.filter fun s => s == t).map fun s => p.inflow * ref.dt.getD s 0).sum
      = rsum cg.owner.length (fun k => if cg.minor.flatten.getD k 0 = t
          then p.inflow * ref.dt.getD (cg.minor.flatten.getD k 0) 0 else 0) := by
    rw [sum_filter_map, owner_length, ← rsum_getD cg.minor.flatten 0]
    apply rsum_congr
    intro k _
    simp only [beq_iff_eq]
  rw [hinfl]
  unfold Storage.mapping
  rw [List.flatMap_append, List.flatMap_append, sum_filter_append, sum_filter_append]
  have hb : ∀ M : List MapRow, (∀ m ∈ M, m.kind ≠ .d) →
      (((M.flatMap (extendRow cg ref.dt)).filter (fun m => m.asset == p.name && m.kind == .d && m.step == t)).map
        (fun m => (posPart (-(z m.var)) * p.effIn + negPart (-(z m.var))) * m.factor)).sum = 0 := by
    intro M hM
    apply sum_nondisp
    exact flatMap_extend_kind cg ref.dt M hM
  have hb1 := hb (if hasNS p then boolMap p cg.grid cg.grid.T (2 * cg.grid.T) "bool_1" else []) (by
    split
    · exact boolMap_kind _ _ _ _ _
    · intro m hm; simp at hm)
  have hb2 := hb (if p.maxStoreDuration.isSome then boolMap p cg.grid cg.grid.T (mHold p cg.grid.T) "bool_2" else []) (by
    split
    · exact boolMap_kind _ _ _ _ _
    · intro m hm; simp at hm)
  rw [hb1, hb2]
  obtain ⟨nIn, nOut, _, _, hC⟩ := dispMap_eq_genBlocks p cg.grid cg.grid.T hwf.ok.1 hn
  rw [hC]
  have hval : ∀ M : List MapRow, ((M.filter fun m => m.asset == p.name && m.kind == .d && m.step == t).map
        fun m => (posPart (-(z m.var)) * p.effIn + negPart (-(z m.var))) * m.factor).sum
      = ((M.filter fun m => m.asset == p.name && m.kind == .d && m.step == t).map
        fun m => netIn p.effIn (z m.var) * m.factor).sum := fun _ => rfl
  have hz : ∀ a b : Rat, a + 0 + 0 + b = a + b := fun a b => by grind
  by_cases hs : sep p = true
  · simp only [hs, if_true]
    rw [List.flatMap_append, sum_filter_append, extend_genBlock_cg hwf, extend_genBlock_cg hwf, hval, hval,
      block_sum_at p.name nIn "disp_in" (cg.grid.T * 0) t (fun v => netIn p.effIn (z v)),
      block_sum_at p.name nOut "disp_out" (cg.grid.T * 1) t (fun v => netIn p.effIn (z v)), ← rsum_add_fn]
    rw [hz, ← rsum_add_fn]
    apply rsum_congr
    intro k _
    rw [repFlow_eq_netIn]
    simp only [hs, if_true, Nat.mul_zero, Nat.zero_add, Nat.mul_one]
    split <;> grind
  · simp only [hs, Bool.false_eq_true, if_false]
    rw [extend_genBlock_cg hwf, hval, block_sum_at p.name nIn "disp" (cg.grid.T * 0) t (fun v => netIn p.effIn (z v)),
      hz, ← rsum_add_fn]
    apply rsum_congr
    intro k _
    rw [repFlow_eq_netIn]
    simp only [hs, Bool.false_eq_true, if_false, Nat.mul_zero, Nat.zero_add]
    split <;> grind

/-- **the coarse storage reports what the fine storage reports at the expanded schedule**: increments per
    full-grid step -/
theorem fillIncCoarse_eq_fine (hwf : cg.WellFormed ref.dt) (p : StorageP) (hn : p.nodes ≠ []) {z x : Vec}
    (h : IsExpansion ref cg z x) (t : Nat) :
    fillIncCoarse p ((Storage.mapping p cg.grid cg.grid.T).flatMap (extendRow cg ref.dt)) cg ref.dt z t
      = fillInc p (Storage.mapping p (minorGrid ref cg) cg.owner.length) (minorGrid ref cg) x t := by
  have hlenF : (minorGrid ref cg).idx.length = cg.owner.length := by
    show cg.minor.flatten.length = _
    rw [owner_length]
  rw [fillIncCoarse_formula hwf p hn, fillInc_mapping p (minorGrid ref cg) cg.owner.length x t hlenF, sum_filter_map]
  show _ = rsum cg.owner.length _
  apply rsum_congr
  intro k hk
  have hidx : idxAt (minorGrid ref cg) k = cg.minor.flatten.getD k 0 := rfl
  have hdt : infl p (minorGrid ref cg) k = p.inflow * ref.dt.getD (cg.minor.flatten.getD k 0) 0 := by
    unfold infl dtAt
    rw [minorGrid_dt_getD k hk]
  simp only [hidx, beq_iff_eq, hdt, repFlow_expand hwf p h k hk]

theorem idxInc_minorGrid (hinc : cg.minor.flatten.Pairwise (· < ·)) : IdxInc (minorGrid ref cg) cg.owner.length := by
  intro i j hij hj
  rw [owner_length] at hj
  have hi : i < cg.minor.flatten.length := by omega
  have := List.pairwise_iff_getElem.mp hinc i j hi hj hij
  show cg.minor.flatten.getD i 0 < cg.minor.flatten.getD j 0
  simp only [List.getD_eq_getElem?_getD, List.getElem?_eq_getElem hi, List.getElem?_eq_getElem hj, Option.getD_some]
  exact this

/-- cumulated reported increments up to the full-grid step of the `k`-th fine step of the storage -/
theorem sumTo_fillIncCoarse (hwf : cg.WellFormed ref.dt) (hinc : cg.minor.flatten.Pairwise (· < ·)) (p : StorageP)
    (hn : p.nodes ≠ []) {z x : Vec} (h : IsExpansion ref cg z x) (k : Nat) (hk : k < cg.owner.length) :
    sumTo (fillIncCoarse p ((Storage.mapping p cg.grid cg.grid.T).flatMap (extendRow cg ref.dt)) cg ref.dt z)
        (cg.minor.flatten.getD k 0 + 1)
      = sumTo (fun s => repFlow p cg.owner.length x s + infl p (minorGrid ref cg) s) (k + 1) := by
  have hlenF : (minorGrid ref cg).idx.length = cg.owner.length := by
    show cg.minor.flatten.length = _
    rw [owner_length]
  rw [sumTo_congr _ _ _ (fun t _ => fillIncCoarse_eq_fine hwf p hn h t)]
  exact sumTo_fillInc p (minorGrid ref cg) cg.owner.length x hlenF (idxInc_minorGrid hinc) k hk

/-- with the signs the bounds enforce (`x_in ≤ 0 ≤ x_out`; nothing in the one-variable form, whose efficiency is 1)
    the booked volume is the physical net flow -/
theorem repFlow_eq_flow (p : StorageP) (n : Nat) (x : Vec) (k : Nat)
    (hsign : sep p = true → x k ≤ 0 ∧ 0 ≤ x (n + k)) : repFlow p n x k = flow p n x k := by
  unfold repFlow flow
  by_cases hs : sep p = true
  · obtain ⟨h1, h2⟩ := hsign hs
    have e1 : posPart (-(x k)) = -(x k) := by unfold posPart; split <;> grind
    have e2 : negPart (-(x k)) = 0 := by unfold negPart; split <;> grind
    have e3 : posPart (-(x (n + k))) = 0 := by unfold posPart; split <;> grind
    have e4 : negPart (-(x (n + k))) = -(x (n + k)) := by unfold negPart; split <;> grind
    simp only [hs, if_true, e1, e2, e3, e4]; grind
  · have he : p.effIn = 1 := by
      unfold sep at hs
      simp only [Bool.or_eq_true, decide_eq_true_eq, not_or, Decidable.not_not] at hs
      exact hs.1.1.1
    simp only [hs, Bool.false_eq_true, if_false, he]
    unfold posPart negPart
    split <;> split <;> grind

end readout

/-! ## Part I: the no-simultaneous form (`disp_in | disp_out | bool_1`) -/

/-- the booleans of the fine point are copies of those of the coarse point -/
def BoolCopy (cg : CoarseGrid) (z x : Vec) : Prop :=
  ∀ k, k < cg.owner.length → x (2 * cg.owner.length + k) = z (2 * cg.grid.T + cg.owner.getD k 0)

theorem hasNS_sep (p : StorageP) (h : hasNS p = true) : sep p = true := by
  unfold hasNS at h
  simp only [Bool.and_eq_true] at h
  exact h.2

theorem nVars_ns (p : StorageP) (n : Nat) (hmh : p.maxStoreDuration = none) (hns : hasNS p = true) :
    nVars p n = 3 * n := by
  unfold nVars mHold nd
  rw [hns, hmh, hasNS_sep p hns]
  simp; omega

theorem nd_ns (p : StorageP) (n : Nat) (hns : hasNS p = true) : nd p n = 2 * n := by
  unfold nd; rw [hasNS_sep p hns]; simp

theorem cost_bool (p : StorageP) (g : Grid) (n j : Nat) (pr : Nat → Rat) (h1 : nd p n ≤ j) (h2 : j < nVars p n) :
    (costVec p g n pr).getD j 0 = 0 := by
  have hl : ∀ (l1 : List Rat), l1.length = nd p n →
      (l1 ++ (List.range (nVars p n - nd p n)).map fun _ => (0 : Rat)).getD j 0 = 0 := by
    intro l1 hl1
    rw [getD_app_right _ _ _ (by omega), getD_map_range _ _ _ (by omega)]
  unfold costVec
  apply hl
  unfold nd
  by_cases hs : sep p = true <;> simp [hs] <;> omega

section nosimult
variable {ref : Grid} {cg : CoarseGrid}

theorem boolCopy_expandNS (z : Vec) :
    BoolCopy cg z (expandNS cg.owner (cg.weights ref.dt) cg.grid.T z) := by
  intro k hk
  unfold expandNS
  have e : 2 * cg.owner.length + k = cg.owner.length * 2 + k := by omega
  rw [e, block_div _ _ _ hk, block_mod _ _ _ hk, if_neg (by omega)]
  congr 1
  omega

/-- bounds, no-simultaneous form -/
theorem inBounds_expand_ns (hwf : cg.WellFormed ref.dt) (p : StorageP) (hmh : p.maxStoreDuration = none)
    (hns : hasNS p = true) {z x : Vec} (h : IsExpansion ref cg z x) (hb : BoolCopy cg z x) :
    InBounds (lowerVec p (minorGrid ref cg) cg.owner.length) (upperVec p (minorGrid ref cg) cg.owner.length) x
      ↔ InBounds (lowerVec p cg.grid cg.grid.T) (upperVec p cg.grid cg.grid.T) z := by
  have S := spread_of_wf hwf
  have hB : nBlocks p = 2 := by unfold nBlocks; rw [hasNS_sep p hns]; rfl
  have hsp := bounds_spread S 2 (fun j => (lowerVec p (minorGrid ref cg) cg.owner.length).getD j 0)
    (fun j => (upperVec p (minorGrid ref cg) cg.owner.length).getD j 0)
    (fun j => (lowerVec p cg.grid cg.grid.T).getD j 0) (fun j => (upperVec p cg.grid cg.grid.T).getD j 0) x z
    (fun b hb' k hk => (bounds_expand hwf p b (by omega) k hk).1)
    (fun b hb' k hk => (bounds_expand hwf p b (by omega) k hk).2) h
  unfold InBounds
  rw [lowerVec_length, lowerVec_length, nVars_ns p _ hmh hns, nVars_ns p _ hmh hns]
  constructor
  · intro hf j hj
    by_cases hj2 : j < cg.grid.T * 2
    · exact hsp.mp (fun j' hj' => hf j' (by omega)) j hj2
    · obtain ⟨k, hk, hok⟩ := S.surj (j - 2 * cg.grid.T) (by omega)
      have := hf (2 * cg.owner.length + k) (by omega)
      obtain ⟨b1, b2⟩ := bounds_bool p (minorGrid ref cg) cg.owner.length (2 * cg.owner.length + k)
        (by rw [nd_ns p _ hns]; omega) (by rw [nVars_ns p _ hmh hns]; omega)
      obtain ⟨c1, c2⟩ := bounds_bool p cg.grid cg.grid.T j (by rw [nd_ns p _ hns]; omega) (by rw [nVars_ns p _ hmh hns]; omega)
      rw [b1, b2, hb k hk, hok] at this
      have e : 2 * cg.grid.T + (j - 2 * cg.grid.T) = j := by omega
      rw [e] at this
      rw [c1, c2]; exact this
  · intro hc j hj
    by_cases hj2 : j < cg.owner.length * 2
    · exact hsp.mpr (fun j' hj' => hc j' (by omega)) j hj2
    · have hk : j - 2 * cg.owner.length < cg.owner.length := by omega
      have ho := S.lt _ hk
      have := hc (2 * cg.grid.T + cg.owner.getD (j - 2 * cg.owner.length) 0) (by omega)
      obtain ⟨b1, b2⟩ := bounds_bool p (minorGrid ref cg) cg.owner.length j
        (by rw [nd_ns p _ hns]; omega) (by rw [nVars_ns p _ hmh hns]; omega)
      obtain ⟨c1, c2⟩ := bounds_bool p cg.grid cg.grid.T (2 * cg.grid.T + cg.owner.getD (j - 2 * cg.owner.length) 0)
        (by rw [nd_ns p _ hns]; omega) (by rw [nVars_ns p _ hmh hns]; omega)
      rw [c1, c2, ← hb _ hk] at this
      have e : 2 * cg.owner.length + (j - 2 * cg.owner.length) = j := by omega
      rw [e] at this
      rw [b1, b2]; exact this

/-- the two no-simultaneous rows of a fine step hold at the expansion iff those of its coarse step hold at the coarse
    point -/
theorem ns_rows_step (hwf : cg.WellFormed ref.dt) (p : StorageP) {z x : Vec} (h : IsExpansion ref cg z x)
    (hb : BoolCopy cg z x) (k : Nat) (hk : k < cg.owner.length) :
    ((nsInRow p (minorGrid ref cg) cg.owner.length k).Sat x ↔ (nsInRow p cg.grid cg.grid.T (cg.owner.getD k 0)).Sat z) ∧
    ((nsOutRow p (minorGrid ref cg) cg.owner.length k).Sat x ↔ (nsOutRow p cg.grid cg.grid.T (cg.owner.getD k 0)).Sat z) := by
  have hw := weight_pos hwf k hk
  have hd := dtC_mul_weight hwf k hk
  have hcp : cp p (minorGrid ref cg) k = cp p cg.grid (cg.owner.getD k 0) * (cg.weights ref.dt).getD k 0 := by
    unfold cp dtAt; rw [← hd]; grind
  have hct : ct p (minorGrid ref cg) k = ct p cg.grid (cg.owner.getD k 0) * (cg.weights ref.dt).getD k 0 := by
    unfold ct dtAt; rw [← hd]; grind
  simp only [Row.Sat, nsInRow, nsOutRow, Row.eval, List.map_cons, List.map_nil, List.sum_cons, List.sum_nil]
  rw [isExp_b0 h k hk, isExp_b1 h k hk, hb k hk, hcp, hct]
  constructor
  · constructor
    · intro h1
      apply Rat.le_of_mul_le_mul_right _ hw
      grind
    · intro h1
      have := Rat.mul_le_mul_of_nonneg_right h1 (Rat.le_of_lt hw)
      grind
  · constructor
    · intro h1
      apply Rat.le_of_mul_le_mul_right _ hw
      grind
    · intro h1
      have := Rat.mul_le_mul_of_nonneg_right h1 (Rat.le_of_lt hw)
      grind

theorem mem_nsRows (p : StorageP) (g : Grid) (n : Nat) (hns : hasNS p = true) (x : Vec) :
    (∀ r ∈ nsRows p g n, r.Sat x) ↔ ∀ i, i < n → (nsInRow p g n i).Sat x ∧ (nsOutRow p g n i).Sat x := by
  unfold nsRows
  rw [if_pos hns]
  constructor
  · intro h i hi
    exact ⟨h _ (List.mem_append_left _ (List.mem_map.mpr ⟨i, List.mem_range.mpr hi, rfl⟩)),
      h _ (List.mem_append_right _ (List.mem_map.mpr ⟨i, List.mem_range.mpr hi, rfl⟩))⟩
  · intro h r hr
    rcases List.mem_append.mp hr with hr | hr
    · obtain ⟨i, hi, rfl⟩ := List.mem_map.mp hr
      exact (h i (List.mem_range.mp hi)).1
    · obtain ⟨i, hi, rfl⟩ := List.mem_map.mp hr
      exact (h i (List.mem_range.mp hi)).2

/-- all no-simultaneous rows -/
theorem nsRows_expand (hwf : cg.WellFormed ref.dt) (p : StorageP) (hns : hasNS p = true) {z x : Vec}
    (h : IsExpansion ref cg z x) (hb : BoolCopy cg z x) :
    (∀ r ∈ nsRows p (minorGrid ref cg) cg.owner.length, r.Sat x) ↔ (∀ r ∈ nsRows p cg.grid cg.grid.T, r.Sat z) := by
  have S := spread_of_wf hwf
  rw [mem_nsRows p _ _ hns, mem_nsRows p _ _ hns]
  constructor
  · intro hf i hi
    obtain ⟨k, hk, hok⟩ := S.surj i hi
    have := ns_rows_step hwf p h hb k hk
    rw [hok] at this
    exact ⟨this.1.mp (hf k hk).1, this.2.mp (hf k hk).2⟩
  · intro hc k hk
    have := ns_rows_step hwf p h hb k hk
    have ho := owner_lt hwf k hk
    exact ⟨this.1.mpr (hc _ ho).1, this.2.mpr (hc _ ho).2⟩

/-- rows of the no-simultaneous form, split into the fill-level rows and the no-simultaneous rows -/
theorem rows_ns_split (p : StorageP) (g : Grid) (pr : Nat → Rat) (x : Vec) (hmh : p.maxStoreDuration = none) :
    (∀ r ∈ (coreProblem p g pr [(0, g.T)]).rows, r.Sat x)
      ↔ (LevelIneq p g g.T x 0 g.T ∧ ∀ r ∈ nsRows p g g.T, r.Sat x) := by
  have hhr : holdRows p g g.T = [] := by simp [holdRows, hmh]
  simp only [coreProblem, hhr, List.append_nil]
  rw [← levelRows_iff p g x hmh]
  constructor
  · intro h
    exact ⟨fun r hr => h r (List.mem_append_left _ hr), fun r hr => h r (List.mem_append_right _ hr)⟩
  · intro h r hr
    rcases List.mem_append.mp hr with hr | hr
    · exact h.1 r hr
    · exact h.2 r hr

/-- value, no-simultaneous form: the booleans carry no cost -/
theorem costAt_expand_ns (hwf : cg.WellFormed ref.dt) (hdf : EqualDiscount ref cg) (p : StorageP)
    (hmh : p.maxStoreDuration = none) (hns : hasNS p = true) (hcs : p.costStore = 0) (prC : Nat → Rat) {z x : Vec}
    (h : IsExpansion ref cg z x) :
    costAt (costVec p (minorGrid ref cg) cg.owner.length (fun s => prC (cg.owner.getD s 0))) 0 x
      = costAt (costVec p cg.grid cg.grid.T prC) 0 z := by
  have hB : nBlocks p = 2 := by unfold nBlocks; rw [hasNS_sep p hns]; rfl
  rw [costAt_eq_rsum, costAt_eq_rsum, costVec_length, costVec_length, nVars_ns p _ hmh hns, nVars_ns p _ hmh hns]
  simp only [Nat.zero_add]
  have e1 : 3 * cg.owner.length = cg.owner.length * 2 + cg.owner.length := by omega
  have e2 : 3 * cg.grid.T = cg.grid.T * 2 + cg.grid.T := by omega
  rw [e1, e2, rsum_add, rsum_add]
  have z1 : rsum cg.owner.length (fun k => (costVec p (minorGrid ref cg) cg.owner.length
      (fun s => prC (cg.owner.getD s 0))).getD (cg.owner.length * 2 + k) 0 * x (cg.owner.length * 2 + k)) = 0 := by
    apply rsum_eq_zero
    intro k hk
    rw [cost_bool p _ _ _ _ (by rw [nd_ns p _ hns]; omega) (by rw [nVars_ns p _ hmh hns]; omega)]
    grind
  have z2 : rsum cg.grid.T (fun k => (costVec p cg.grid cg.grid.T prC).getD (cg.grid.T * 2 + k) 0 * z (cg.grid.T * 2 + k)) = 0 := by
    apply rsum_eq_zero
    intro k hk
    rw [cost_bool p _ _ _ _ (by rw [nd_ns p _ hns]; omega) (by rw [nVars_ns p _ hmh hns]; omega)]
    grind
  rw [z1, z2]
  congr 1
  exact cost_spread (spread_of_wf hwf) 2 _ _ x z
    (fun b hb k hk => cost_expand hwf hdf p hcs prC b (by omega) k hk) h

end nosimult

section nsSurj
variable {ref : Grid} {cg : CoarseGrid}

/-- every fine point of the no-simultaneous form with the same rate inside every coarse step (dispatch blocks) and equal
    booleans inside every coarse step is the expansion `expandNS` of a coarse point -/
theorem expandNS_surj (hwf : cg.WellFormed ref.dt) (x : Vec)
    (hx : SameRate cg.owner (minorGrid ref cg).dt (cg.owner.length * 2) x)
    (hbx : ∀ j k, j < cg.owner.length → k < cg.owner.length → cg.owner.getD j 0 = cg.owner.getD k 0 →
      x (cg.owner.length * 2 + j) = x (cg.owner.length * 2 + k)) :
    ∃ z : Vec, ∀ j, j < cg.owner.length * 3 → x j = expandNS cg.owner (cg.weights ref.dt) cg.grid.T z j := by
  obtain ⟨z1, hz1⟩ := expand_surj_cg hwf 2 x hx
  refine ⟨fun j => if j < cg.grid.T * 2 then z1 j
    else x (cg.owner.length * 2 + firstOf cg.owner.length (fun k => cg.owner.getD k 0) (j - cg.grid.T * 2)), ?_⟩
  intro j hj
  have hn : 0 < cg.owner.length := by
    rcases Nat.eq_zero_or_pos cg.owner.length with h0 | h0
    · rw [h0] at hj; simp at hj
    · exact h0
  have hm : j % cg.owner.length < cg.owner.length := Nat.mod_lt _ hn
  have ho := owner_lt hwf _ hm
  unfold expandNS
  by_cases hj2 : j < cg.owner.length * 2
  · have hd : j / cg.owner.length < 2 := div_lt_of_lt_mul _ _ _ hj2
    rw [if_pos hd, hz1 j hj2]
    unfold expand
    have hidx : cg.grid.T * (j / cg.owner.length) + cg.owner.getD (j % cg.owner.length) 0 < cg.grid.T * 2 :=
      block_lt _ _ 2 _ hd ho
    simp only [hidx, if_true]
  · have hd : j / cg.owner.length = 2 := by
      have h1 : j / cg.owner.length < 3 := div_lt_of_lt_mul _ _ _ hj
      have h2 : 2 ≤ j / cg.owner.length := by
        apply (Nat.le_div_iff_mul_le hn).mpr
        rw [Nat.mul_comm]; omega
      omega
    rw [if_neg (by omega), hd]
    have hidx : ¬ cg.grid.T * 2 + cg.owner.getD (j % cg.owner.length) 0 < cg.grid.T * 2 := by omega
    simp only [hidx, if_false, Nat.add_sub_cancel_left]
    obtain ⟨hf1, hf2⟩ := firstOf_spec cg.owner.length (fun k => cg.owner.getD k 0) _ _ hm rfl
    have hsplit := block_split cg.owner.length j
    rw [hd] at hsplit
    rw [hbx _ _ hf1 hm hf2, hsplit]

end nsSurj

section nsWhole
variable {ref : Grid} {cg : CoarseGrid}

/-- feasibility, no-simultaneous form: fine at the expansion ⇒ coarse at the coarse point -/
theorem feasible_coarse_of_fine_ns (hwf : cg.WellFormed ref.dt) (hT : 0 < cg.grid.T) (p : StorageP)
    (hmh : p.maxStoreDuration = none) (hns : hasNS p = true) (prC prF : Nat → Rat) {z x : Vec}
    (h : IsExpansion ref cg z x) (hb : BoolCopy cg z x)
    (hf : (coreProblem p (minorGrid ref cg) prF [(0, (minorGrid ref cg).T)]).FeasibleRelaxed x) :
    (coreProblem p cg.grid prC [(0, cg.grid.T)]).FeasibleRelaxed z := by
  have S := spread_of_wf hwf
  have hnpos := S.n_pos hT
  obtain ⟨hf1, hf2⟩ := hf
  rw [rows_ns_split p (minorGrid ref cg) prF x hmh, minorGrid_T] at hf2
  refine ⟨?_, ?_⟩
  · simp only [coreProblem, minorGrid_T] at hf1
    exact (inBounds_expand_ns hwf p hmh hns h hb).mp hf1
  · rw [rows_ns_split p cg.grid prC z hmh]
    refine ⟨?_, (nsRows_expand hwf p hns h hb).mp hf2.2⟩
    rw [levelIneq_iff_levOK _ _ _ _ hT]
    exact levOK_coarse_of_fine S (owner_mono cg) hT _ _ _ _ (fun k hk => lev_expand hwf p h k hk)
      ((levelIneq_iff_levOK _ _ _ _ hnpos).mp hf2.1)

/-- feasibility, no-simultaneous form: coarse ⇒ fine when start and end level lie in `[0, size]` -/
theorem feasible_fine_of_coarse_ns (hwf : cg.WellFormed ref.dt) (hT : 0 < cg.grid.T) (p : StorageP)
    (hmh : p.maxStoreDuration = none) (hns : hasNS p = true) (prC prF : Nat → Rat) {z x : Vec}
    (h : IsExpansion ref cg z x) (hb : BoolCopy cg z x)
    (hs : 0 ≤ p.startLevel ∧ p.startLevel ≤ p.size) (he : 0 ≤ p.endLevel ∧ p.endLevel ≤ p.size)
    (hc : (coreProblem p cg.grid prC [(0, cg.grid.T)]).FeasibleRelaxed z) :
    (coreProblem p (minorGrid ref cg) prF [(0, (minorGrid ref cg).T)]).FeasibleRelaxed x := by
  have S := spread_of_wf hwf
  have hnpos := S.n_pos hT
  obtain ⟨hc1, hc2⟩ := hc
  rw [rows_ns_split p cg.grid prC z hmh] at hc2
  refine ⟨?_, ?_⟩
  · simp only [coreProblem, minorGrid_T]
    exact (inBounds_expand_ns hwf p hmh hns h hb).mpr hc1
  · rw [rows_ns_split p (minorGrid ref cg) prF x hmh, minorGrid_T]
    refine ⟨?_, (nsRows_expand hwf p hns h hb).mpr hc2.2⟩
    rw [levelIneq_iff_levOK _ _ _ _ hnpos]
    exact levOK_fine_of_coarse S (owner_mono cg) hT _ _ _ _ (fun k hk => lev_expand hwf p h k hk)
      (by rw [lev_zero']; exact hs) he ((levelIneq_iff_levOK _ _ _ _ hT).mp hc2.1)

/-- the dispatch blocks of `expandNS` are those of `expand` -/
theorem expandNS_eq_expand (z : Vec) (i : Nat) (hi : i < cg.owner.length * 2) :
    expandNS cg.owner (cg.weights ref.dt) cg.grid.T z i = expand cg.owner (cg.weights ref.dt) cg.grid.T z i := by
  unfold expandNS
  rw [if_pos (div_lt_of_lt_mul _ _ _ hi)]

theorem sameRate_expandNS (z : Vec) :
    SameRate cg.owner (minorGrid ref cg).dt (cg.owner.length * 2) (expandNS cg.owner (cg.weights ref.dt) cg.grid.T z) := by
  intro j k hj hk hjk ho
  rw [expandNS_eq_expand z j hj, expandNS_eq_expand z k hk]
  exact sameRate_expand_cg 2 z j k hj hk hjk ho

/-- 0/1 booleans: fine iff coarse -/
theorem bools_iff (hwf : cg.WellFormed ref.dt) {z x : Vec} (hb : BoolCopy cg z x) :
    (∀ k, k < cg.owner.length → x (2 * cg.owner.length + k) = 0 ∨ x (2 * cg.owner.length + k) = 1)
      ↔ (∀ i, i < cg.grid.T → z (2 * cg.grid.T + i) = 0 ∨ z (2 * cg.grid.T + i) = 1) := by
  have S := spread_of_wf hwf
  constructor
  · intro h i hi
    obtain ⟨k, hk, hok⟩ := S.surj i hi
    have := h k hk
    rw [hb k hk, hok] at this
    exact this
  · intro h k hk
    rw [hb k hk]
    exact h _ (owner_lt hwf k hk)

end nsWhole

/-! ## Part J: the rows of the extended mapping -/

theorem mHold_mul (p : StorageP) (n : Nat) : ∃ c, mHold p n = c * n := by
  unfold mHold nd
  by_cases hs : sep p = true <;> by_cases hn : hasNS p = true
  · exact ⟨3, by simp [hs, hn] <;> omega⟩
  · exact ⟨2, by simp [hs, hn] <;> omega⟩
  · exact ⟨2, by simp [hs, hn] <;> omega⟩
  · exact ⟨1, by simp [hs, hn] <;> omega⟩

theorem mul_add_mod_self (c n k : Nat) (hk : k < n) : (c * n + k) % n = k := by
  rw [Nat.mul_comm, Nat.mul_add_mod, Nat.mod_eq_of_lt hk]

/-- every row of the storage's own mapping: position `k` of the window, factor 1, variable `k` of its block -/
theorem storage_mapping_rows (p : StorageP) (g : Grid) (n : Nat) :
    ∀ m ∈ Storage.mapping p g n, ∃ k, k < n ∧ m.step = idxAt g k ∧ m.factor = 1 ∧ m.var % n = k := by
  intro m hm
  unfold Storage.mapping at hm
  simp only [List.mem_append] at hm
  rcases hm with (hm | hm) | hm
  · unfold dispMap at hm
    split at hm
    · simp only [List.mem_append, List.mem_map, List.mem_range] at hm
      rcases hm with ⟨k, hk, rfl⟩ | ⟨k, hk, rfl⟩
      · exact ⟨k, hk, rfl, rfl, Nat.mod_eq_of_lt hk⟩
      · refine ⟨k, hk, rfl, rfl, ?_⟩
        have := mul_add_mod_self 1 n k hk
        simpa using this
    · simp only [List.mem_map, List.mem_range] at hm
      obtain ⟨k, hk, rfl⟩ := hm
      exact ⟨k, hk, rfl, rfl, Nat.mod_eq_of_lt hk⟩
  · split at hm
    · simp only [boolMap, List.mem_map, List.mem_range] at hm
      obtain ⟨k, hk, rfl⟩ := hm
      exact ⟨k, hk, rfl, rfl, mul_add_mod_self 2 n k hk⟩
    · simp at hm
  · split at hm
    · simp only [boolMap, List.mem_map, List.mem_range] at hm
      obtain ⟨k, hk, rfl⟩ := hm
      obtain ⟨c, hc⟩ := mHold_mul p n
      refine ⟨k, hk, rfl, rfl, ?_⟩
      show (mHold p n + k) % n = k
      rw [hc]; exact mul_add_mod_self c n k hk
    · simp at hm

/-- every row of the extended mapping of a coarse storage (dispatch and boolean): it sits on a minor step of the coarse
    step `i` of its variable and carries the factor `dt_fine/dt_coarse` -/
theorem mem_extended_mapping {ref : Grid} {cg : CoarseGrid} (hwf : cg.WellFormed ref.dt) (p : StorageP) (m : MapRow)
    (hm : m ∈ (Storage.mapping p cg.grid cg.grid.T).flatMap (extendRow cg ref.dt)) :
    ∃ i, i < cg.grid.T ∧ m.step ∈ cg.minor.getD i [] ∧ m.var % cg.grid.T = i ∧
      m.factor = ref.dt.getD m.step 0 / cg.grid.dt.getD i 0 := by
  obtain ⟨r, hr, hmr⟩ := List.mem_flatMap.mp hm
  obtain ⟨k, hk, hstep, hfac, hvar⟩ := storage_mapping_rows p cg.grid cg.grid.T r hr
  have hk' : k < cg.grid.idx.length := by rw [hwf.ok.1]; exact hk
  have hmaj : majorOf cg r = some k := by
    show cg.grid.idx.idxOf? r.step = some k
    have hs : r.step = cg.grid.idx[k] := by
      rw [hstep]; unfold idxAt
      rw [List.getD_eq_getElem?_getD, List.getElem?_eq_getElem hk', Option.getD_some]
    rw [idxOf?_eq, if_pos (by rw [hs]; exact List.getElem_mem hk'), hs, hwf.nodup.idxOf_getElem k hk']
  unfold extendRow at hmr
  rw [hmaj] at hmr
  unfold extendSteps at hmr
  obtain ⟨t, ht, rfl⟩ := List.mem_map.mp hmr
  refine ⟨k, hk, ht, hvar, ?_⟩
  show ref.dt.getD t 0 / cg.grid.dt.getD k 0 * r.factor = _
  rw [hfac]; grind

end EAO.CoarseStorage
