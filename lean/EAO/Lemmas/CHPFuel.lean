import EAO.Model.CHP
import EAO.Model.Readout
/-!
# EAO.Lemmas.CHPFuel — the dispatch that `assembleCHP` books at the fuel node:
`−(power + conv·heat)/η − consumption_if_on·on − start_fuel·start` (theorem `fuel_dispatch`), for a
canonical one-variable-per-step base mapping.  Core Lean only.
-/
namespace EAO.CHPFuel
open EAO

/-! ## generic list lemmas -/

theorem eq_range_map_getD {α : Type} (l : List α) (d : α) (T : Nat) (h : l.length = T) :
    l = (List.range T).map fun j => l.getD j d := by
  apply List.ext_getElem
  · simp [h]
  · intro i h1 h2
    simp [List.getD_eq_getElem?_getD, List.getElem?_eq_getElem h1]

theorem zipIdx_map_eq {α β : Type} (l : List α) (d : α) (off : Nat) (F : α × Nat → β) (T : Nat) (h : l.length = T) :
    (l.zipIdx off).map F = (List.range T).map fun j => F (l.getD j d, off + j) := by
  apply List.ext_getElem
  · simp [h]
  · intro i h1 h2
    have hi : i < l.length := by simpa using h1
    simp [List.getD_eq_getElem?_getD, List.getElem?_eq_getElem hi]

/-- renumbering of the variables by position, starting at `off` -/
def reidx (off : Nat) (l : List MapRow) : List MapRow := (l.zipIdx off).map fun q => { q.1 with var := q.2 }

theorem reidx_append (off : Nat) (a b : List MapRow) :
    reidx off (a ++ b) = reidx off a ++ reidx (off + a.length) b := by
  simp [reidx, List.zipIdx_append]

theorem reidx_nil (off : Nat) : reidx off [] = [] := rfl

theorem reidx_range (off T : Nat) (g : Nat → MapRow) :
    reidx off ((List.range T).map g) = (List.range T).map fun j => { g j with var := off + j } := by
  unfold reidx
  rw [zipIdx_map_eq _ default off _ T (by simp)]
  apply List.map_congr_left
  intro j hj
  have : j < T := List.mem_range.1 hj
  simp [List.getD_eq_getElem?_getD, this]

/-! ## sums -/

def dsum (P : MapRow → Bool) (x : Vec) (M : List MapRow) : Rat := ((M.filter P).map (·.contrib x)).sum

theorem dsum_nil (P : MapRow → Bool) (x : Vec) : dsum P x [] = 0 := rfl

theorem dsum_append (P : MapRow → Bool) (x : Vec) (A B : List MapRow) :
    dsum P x (A ++ B) = dsum P x A + dsum P x B := by
  simp [dsum, List.filter_append, List.sum_append]

theorem dsum_ite (P : MapRow → Bool) (x : Vec) (c : Prop) [Decidable c] (A : List MapRow) :
    dsum P x (if c then A else []) = if c then dsum P x A else 0 := by
  by_cases h : c <;> simp [h, dsum_nil]

theorem dsum_zero (P : MapRow → Bool) (x : Vec) (M : List MapRow) (h : ∀ m ∈ M, P m = false) :
    dsum P x M = 0 := by
  have : M.filter P = [] := List.filter_eq_nil_iff.2 (fun m hm => by simp [h m hm])
  simp [dsum, this]

theorem dsum_eq_map (P : MapRow → Bool) (x : Vec) (M : List MapRow) :
    dsum P x M = (M.map fun m => if P m then m.contrib x else 0).sum := by
  induction M with
  | nil => rfl
  | cons m M ih =>
    unfold dsum at ih ⊢
    by_cases h : P m = true
    · simp [List.filter_cons, h, ih]
    · simp [List.filter_cons, h, ih]
      grind

theorem sum_range_single (T k : Nat) (hk : k < T) (F : Nat → Rat) :
    ((List.range T).map fun j => if j = k then F j else 0).sum = F k := by
  induction T with
  | zero => omega
  | succ T ih =>
    rw [List.range_succ, List.map_append, List.sum_append]
    by_cases h : k = T
    · subst h
      have : ((List.range k).map fun j => if j = k then F j else 0) = (List.range k).map fun _ => (0 : Rat) := by
        apply List.map_congr_left
        intro j hj
        have : j < k := List.mem_range.1 hj
        rw [if_neg (by omega)]
      rw [this]
      have h0 : ((List.range k).map fun _ => (0 : Rat)).sum = 0 := by
        generalize List.range k = l
        induction l with
        | nil => rfl
        | cons a l ih => simp [ih]; grind
      rw [h0]; simp; grind
    · rw [ih (by omega)]
      simp [h, Ne.symm h]
      grind

/-- a block of `T` rows at node `f` of kind `d`, one per step of `idx`, contributes exactly its `k`-th row -/
theorem dsum_block (a f : String) (idx : List Nat) (T : Nat) (hidx : idx.length = T) (hnd : idx.Nodup)
    (x : Vec) (k : Nat) (hk : k < T) (g : Nat → MapRow)
    (ha : ∀ j, (g j).asset = a) (hn : ∀ j, (g j).node = some f) (hkd : ∀ j, (g j).kind = VarKind.d)
    (hs : ∀ j, (g j).step = idx.getD j 0) :
    dsum (fun m => m.asset == a && isDisp f (idx.getD k 0) m) x ((List.range T).map g) = (g k).contrib x := by
  rw [dsum_eq_map, List.map_map]
  have : ((fun m : MapRow => if (m.asset == a && isDisp f (idx.getD k 0) m) = true then m.contrib x else 0) ∘ g)
      = fun j => if (idx.getD j 0 = idx.getD k 0) then (g j).contrib x else 0 := by
    funext j
    simp [isDisp, ha, hn, hkd, hs]
  rw [this]
  have h2 : ((List.range T).map fun j => if (idx.getD j 0 = idx.getD k 0) then (g j).contrib x else 0)
      = (List.range T).map fun j => if j = k then (g j).contrib x else 0 := by
    apply List.map_congr_left
    intro j hj
    have hj' : j < T := List.mem_range.1 hj
    have : idx.getD j 0 = idx.getD k 0 ↔ j = k := by
      rw [List.getD_eq_getElem?_getD, List.getD_eq_getElem?_getD,
        List.getElem?_eq_getElem (by omega), List.getElem?_eq_getElem (by omega)]
      simp only [Option.getD_some]
      exact List.getElem_inj hnd
    simp only [this]
  rw [h2, sum_range_single T k hk]

def CanonicalBase (r : CHPR) : Prop :=
  r.base.mapping = r.idx.zipIdx.map (fun q => ({ var := q.2, asset := r.name, node := some (r.nodes.getD 0 ""), kind := VarKind.d, step := q.1, factor := 1, isBool := false, varName := "disp" } : MapRow))

def dRow (r : CHPR) (nd : String) (off j : Nat) : MapRow :=
  { var := off + j, asset := r.name, node := some nd, kind := .d, step := r.idx.getD j 0, factor := 1,
    isBool := false, varName := "disp" }
def bRow (r : CHPR) (vn : String) (off j : Nat) : MapRow :=
  { var := off + j, asset := r.name, node := none, kind := .i, step := r.idx.getD j 0, factor := 1,
    isBool := true, varName := vn }
def bRow0 (r : CHPR) (vn : String) (j : Nat) : MapRow :=
  { var := 0, asset := r.name, node := none, kind := .i, step := r.idx.getD j 0, factor := 1,
    isBool := true, varName := vn }

theorem dRow_fun (r : CHPR) (nd : String) (off : Nat) : dRow r nd off = fun j =>
    ({ var := off + j, asset := r.name, node := some nd, kind := .d, step := r.idx.getD j 0, factor := 1,
       isBool := false, varName := "disp" } : MapRow) := rfl
theorem bRow_fun (r : CHPR) (vn : String) (off : Nat) : bRow r vn off = fun j =>
    ({ var := off + j, asset := r.name, node := none, kind := .i, step := r.idx.getD j 0, factor := 1,
       isBool := true, varName := vn } : MapRow) := rfl

theorem ite_append {α : Type} (c : Prop) [Decidable c] (A B : List α) :
    (if c then A ++ B else A) = A ++ (if c then B else []) := by
  by_cases h : c <;> simp [h]

theorem reidx_ite (off : Nat) (c : Prop) [Decidable c] (A : List MapRow) :
    reidx off (if c then A else []) = if c then reidx off A else [] := by
  by_cases h : c <;> simp [h, reidx_nil]

theorem base_eq (r : CHPR) (hbase : CanonicalBase r) (hidx : r.idx.length = r.T) :
    r.base.mapping = (List.range r.T).map (dRow r (r.nodes.getD 0 "") 0) := by
  rw [hbase, zipIdx_map_eq r.idx 0 0 _ r.T hidx]
  rfl

theorem boolRows_eq (r : CHPR) (vn : String) (hidx : r.idx.length = r.T) :
    r.boolRows vn = (List.range r.T).map (bRow0 r vn) := by
  unfold CHPR.boolRows
  conv => lhs; rw [eq_range_map_getD r.idx 0 r.T hidx]
  rw [List.map_map]
  rfl

theorem take_two (l : List String) (h : 2 ≤ l.length) : l.take 2 = [l.getD 0 "", l.getD 1 ""] := by
  match l, h with
  | a :: b :: rest, _ => simp

theorem filter_block (p : MapRow → Bool) (g : Nat → MapRow) (T : Nat) (b : Bool) (h : ∀ j, p (g j) = b) :
    ((List.range T).map g).filter p = if b = true then (List.range T).map g else [] := by
  cases b with
  | true => simp only [if_true]; exact List.filter_eq_self.2 (by simp [h])
  | false =>
    simp only [Bool.false_eq_true, if_false]
    exact List.filter_eq_nil_iff.2 (by simp [h])

theorem m1_eq (r : CHPR) (hbase : CanonicalBase r) (hidx : r.idx.length = r.T)
    (hh : r.heat = true → 2 ≤ r.nodes.length) :
    (if r.heat = true then
      (r.nodes.take 2).flatMap fun nd => (r.base.mapping.filter fun m => m.kind == VarKind.d).map fun m => { m with node := some nd }
    else r.base.mapping) =
    (List.range r.T).map (dRow r (r.nodes.getD 0 "") 0) ++
      (if r.heat = true then (List.range r.T).map (dRow r (r.nodes.getD 1 "") 0) else []) := by
  rw [base_eq r hbase hidx]
  by_cases h : r.heat = true
  · simp only [h, if_true]
    rw [take_two _ (hh h), filter_block _ _ _ true (fun j => rfl)]
    simp only [if_true, List.flatMap_cons, List.flatMap_nil, List.append_nil, List.map_map]
    rfl
  · simp [h]

theorem onIdx_val (r : CHPR) (hbase : CanonicalBase r) (hidx : r.idx.length = r.T) :
    r.layout.onIdx = r.T + (if r.heat = true then r.T else 0) := by
  unfold CHPR.layout
  simp only
  rw [base_eq r hbase hidx, filter_block _ _ _ true (fun j => rfl)]
  by_cases h : r.heat = true <;> simp [h] ; omega

/-- explicit form of the mapping before the fuel rows -/
def coreX (r : CHPR) : List MapRow :=
  (List.range r.T).map (dRow r (r.nodes.getD 0 "") 0) ++
  (if r.heat = true then (List.range r.T).map (dRow r (r.nodes.getD 1 "") r.T) else []) ++
  (if r.incOn = true then (List.range r.T).map (bRow r "bool_on" r.layout.onIdx) else []) ++
  (if r.incOn = true ∧ r.incStart = true then (List.range r.T).map (bRow r "bool_start" r.layout.startIdx) else [])

theorem mappingCore_eq (r : CHPR) (hbase : CanonicalBase r) (hidx : r.idx.length = r.T)
    (hh : r.heat = true → 2 ≤ r.nodes.length) : r.mappingCore = coreX r := by
  have hst : r.layout.startIdx = r.layout.onIdx + r.T := rfl
  have hlen : ((List.range r.T).map (dRow r (r.nodes.getD 0 "") 0) ++
      (if r.heat = true then (List.range r.T).map (dRow r (r.nodes.getD 1 "") 0) else [])).length = r.layout.onIdx := by
    rw [onIdx_val r hbase hidx]
    by_cases h : r.heat = true <;> simp [h]
  show reidx 0 _ = _
  simp only [m1_eq r hbase hidx hh, ite_append, boolRows_eq r _ hidx]
  rw [reidx_append, reidx_append, reidx_append, reidx_ite, reidx_ite, reidx_ite]
  simp only [List.length_append, hlen]
  simp only [reidx_range, List.length_map, List.length_range, Nat.zero_add]
  unfold coreX
  rw [hst]
  by_cases ho : r.incOn = true <;> by_cases hs : r.incStart = true <;>
    simp [ho, hs, dRow_fun, bRow_fun, bRow0]

theorem filter_ite (p : MapRow → Bool) (c : Prop) [Decidable c] (A : List MapRow) :
    (if c then A else []).filter p = if c then A.filter p else [] := by
  by_cases h : c <;> simp [h]

/-- rows of `var_name == 'disp'` at the power node: the power block -/
theorem dispRowsAt0 (r : CHPR) (hbase : CanonicalBase r) (hidx : r.idx.length = r.T)
    (hh : r.heat = true → r.nodes.getD 0 "" ≠ r.nodes.getD 1 "" ∧ 2 ≤ r.nodes.length) :
    r.dispRowsAt (r.nodes.getD 0 "") = (List.range r.T).map (dRow r (r.nodes.getD 0 "") 0) := by
  unfold CHPR.dispRowsAt
  rw [mappingCore_eq r hbase hidx (fun h => (hh h).2)]
  unfold coreX
  simp only [List.filter_append, filter_ite]
  rw [filter_block _ (dRow r (r.nodes.getD 0 "") 0) _ true (fun j => by simp [dRow]),
    filter_block _ (bRow r "bool_on" r.layout.onIdx) _ false (fun j => by simp [bRow]),
    filter_block _ (bRow r "bool_start" r.layout.startIdx) _ false (fun j => by simp [bRow])]
  by_cases h : r.heat = true
  · rw [filter_block _ (dRow r (r.nodes.getD 1 "") r.T) _ false (fun j => by
      have := (hh h).1
      simp [dRow, Ne.symm this, -List.getD_eq_getElem?_getD])]
    simp
  · simp [h]

theorem dispRowsAt1 (r : CHPR) (hbase : CanonicalBase r) (hidx : r.idx.length = r.T)
    (h : r.heat = true) (hh : r.nodes.getD 0 "" ≠ r.nodes.getD 1 "" ∧ 2 ≤ r.nodes.length) :
    r.dispRowsAt (r.nodes.getD 1 "") = (List.range r.T).map (dRow r (r.nodes.getD 1 "") r.T) := by
  unfold CHPR.dispRowsAt
  rw [mappingCore_eq r hbase hidx (fun _ => hh.2)]
  unfold coreX
  simp only [List.filter_append, filter_ite]
  rw [filter_block _ (dRow r (r.nodes.getD 0 "") 0) _ false (fun j => by simp [dRow, hh.1, -List.getD_eq_getElem?_getD]),
    filter_block _ (bRow r "bool_on" r.layout.onIdx) _ false (fun j => by simp [bRow]),
    filter_block _ (bRow r "bool_start" r.layout.startIdx) _ false (fun j => by simp [bRow]),
    filter_block _ (dRow r (r.nodes.getD 1 "") r.T) _ true (fun j => by simp [dRow])]
  simp [h]

theorem boolOnRows (r : CHPR) (hbase : CanonicalBase r) (hidx : r.idx.length = r.T)
    (hh : r.heat = true → 2 ≤ r.nodes.length) (ho : r.incOn = true) :
    (r.mappingCore.filter fun m => m.varName == "bool_on") =
      (List.range r.T).map (bRow r "bool_on" r.layout.onIdx) := by
  rw [mappingCore_eq r hbase hidx hh]
  unfold coreX
  simp only [List.filter_append, filter_ite]
  rw [filter_block _ (dRow r (r.nodes.getD 0 "") 0) _ false (fun j => by simp [dRow]),
    filter_block _ (bRow r "bool_on" r.layout.onIdx) _ true (fun j => by simp [bRow]),
    filter_block _ (bRow r "bool_start" r.layout.startIdx) _ false (fun j => by simp [bRow]),
    filter_block _ (dRow r (r.nodes.getD 1 "") r.T) _ false (fun j => by simp [dRow])]
  simp [ho]

theorem boolStartRows (r : CHPR) (hbase : CanonicalBase r) (hidx : r.idx.length = r.T)
    (hh : r.heat = true → 2 ≤ r.nodes.length) (ho : r.incOn = true ∧ r.incStart = true) :
    (r.mappingCore.filter fun m => m.varName == "bool_start") =
      (List.range r.T).map (bRow r "bool_start" r.layout.startIdx) := by
  rw [mappingCore_eq r hbase hidx hh]
  unfold coreX
  simp only [List.filter_append, filter_ite]
  rw [filter_block _ (dRow r (r.nodes.getD 0 "") 0) _ false (fun j => by simp [dRow]),
    filter_block _ (bRow r "bool_on" r.layout.onIdx) _ false (fun j => by simp [bRow]),
    filter_block _ (bRow r "bool_start" r.layout.startIdx) _ true (fun j => by simp [bRow]),
    filter_block _ (dRow r (r.nodes.getD 1 "") r.T) _ false (fun j => by simp [dRow])]
  simp [ho]

theorem withFactors_block (g : Nat → MapRow) (h : Nat → Rat) (T : Nat) (f : String) :
    withFactors ((List.range T).map g) ((List.range T).map h) f =
      (List.range T).map fun j => { g j with node := some f, kind := VarKind.d, factor := h j } := by
  simp [withFactors, List.zip_map', List.map_map]

/-- the rows of the core mapping never sit at the fuel node -/
theorem dsum_core (r : CHPR) (f : String) (t : Nat) (x : Vec)
    (hp : f ≠ r.nodes.getD 0 "") (hh : r.heat = true → f ≠ r.nodes.getD 1 "") :
    dsum (fun m => m.asset == r.name && isDisp f t m) x (coreX r) = 0 := by
  apply dsum_zero
  intro m hm
  unfold coreX at hm
  simp only [List.mem_append] at hm
  rcases hm with ((hm | hm) | hm) | hm
  · obtain ⟨j, _, rfl⟩ := List.mem_map.1 hm
    simp [isDisp, dRow, Ne.symm hp, -List.getD_eq_getElem?_getD]
  · by_cases h : r.heat = true
    · rw [if_pos h] at hm
      obtain ⟨j, _, rfl⟩ := List.mem_map.1 hm
      simp [isDisp, dRow, Ne.symm (hh h), -List.getD_eq_getElem?_getD]
    · rw [if_neg h] at hm; cases hm
  · by_cases h : r.incOn = true
    · rw [if_pos h] at hm
      obtain ⟨j, _, rfl⟩ := List.mem_map.1 hm
      simp [isDisp, bRow]
    · rw [if_neg h] at hm; cases hm
  · by_cases h : r.incOn = true ∧ r.incStart = true
    · rw [if_pos h] at hm
      obtain ⟨j, _, rfl⟩ := List.mem_map.1 hm
      simp [isDisp, bRow]
    · rw [if_neg h] at hm; cases hm

theorem fuel_dispatch (r : CHPR) (f : String) (hf : r.fuel = some f)
    (hbase : CanonicalBase r) (hidx : r.idx.length = r.T) (hnd : r.idx.Nodup)
    (hfe : r.fuelEff.length = r.T) (hci : r.consIfOn.length = r.T) (hsf : r.startFuel.length = r.T)
    (hp : f ≠ r.nodes.getD 0 "")
    (hh : r.heat = true → f ≠ r.nodes.getD 1 "" ∧ r.nodes.getD 0 "" ≠ r.nodes.getD 1 "" ∧ 2 ≤ r.nodes.length)
    (x : Vec) (k : Nat) (hk : k < r.T) :
    dispatchOut (assembleCHP r).mapping r.name f (r.idx.getD k 0) x =
      - (r.vd x k) / r.fuelEff.getD k 0
      - (if r.incOn then r.consIfOn.getD k 0 * x (r.layout.on k) else 0)
      - (if r.incOn ∧ r.incStart then r.startFuel.getD k 0 * x (r.layout.start k) else 0) := by
  have hh2 : r.heat = true → 2 ≤ r.nodes.length := fun h => (hh h).2.2
  have hmap : (assembleCHP r).mapping = r.mappingCore ++ r.fuelRows f := by
    show r.mapping = _
    unfold CHPR.mapping; rw [hf]
  have hheat : r.layout.heatIdx = r.T := by
    show r.base.mapping.length = r.T
    rw [base_eq r hbase hidx]; simp
  have hcmap : r.consIfOn.map (fun v => - v) = (List.range r.T).map fun j => - r.consIfOn.getD j 0 := by
    conv => lhs; rw [eq_range_map_getD r.consIfOn 0 r.T hci]
    rw [List.map_map]; rfl
  have hsmap : r.startFuel.map (fun v => - v) = (List.range r.T).map fun j => - r.startFuel.getD j 0 := by
    conv => lhs; rw [eq_range_map_getD r.startFuel 0 r.T hsf]
    rw [List.map_map]; rfl
  -- the four blocks of fuel rows
  have b1 : dsum (fun m => m.asset == r.name && isDisp f (r.idx.getD k 0) m) x
      (withFactors (r.dispRowsAt (r.nodes.getD 0 "")) ((List.range r.T).map fun i => -1 / r.fuelEff.getD i 0) f)
      = x (r.layout.power k) * (-1 / r.fuelEff.getD k 0) := by
    rw [dispRowsAt0 r hbase hidx (fun h => ⟨(hh h).2.1, (hh h).2.2⟩), withFactors_block,
      dsum_block r.name f r.idx r.T hidx hnd x k hk _ (fun _ => rfl) (fun _ => rfl) (fun _ => rfl) (fun _ => rfl)]
    simp [MapRow.contrib, dRow, CHPLayout.power]
  have b2 : r.heat = true → dsum (fun m => m.asset == r.name && isDisp f (r.idx.getD k 0) m) x
      (withFactors (r.dispRowsAt (r.nodes.getD 1 "")) ((List.range r.T).map fun i => - r.cv i / r.fuelEff.getD i 0) f)
      = x (r.layout.heat k) * (- r.cv k / r.fuelEff.getD k 0) := by
    intro h
    rw [dispRowsAt1 r hbase hidx h ⟨(hh h).2.1, (hh h).2.2⟩, withFactors_block,
      dsum_block r.name f r.idx r.T hidx hnd x k hk _ (fun _ => rfl) (fun _ => rfl) (fun _ => rfl) (fun _ => rfl)]
    simp [MapRow.contrib, dRow, CHPLayout.heat, hheat]
  have b3 : r.incOn = true → dsum (fun m => m.asset == r.name && isDisp f (r.idx.getD k 0) m) x
      (withFactors (r.mappingCore.filter fun m => m.varName == "bool_on") (r.consIfOn.map fun v => - v) f)
      = x (r.layout.on k) * (- r.consIfOn.getD k 0) := by
    intro h
    rw [boolOnRows r hbase hidx hh2 h, hcmap, withFactors_block,
      dsum_block r.name f r.idx r.T hidx hnd x k hk _ (fun _ => rfl) (fun _ => rfl) (fun _ => rfl) (fun _ => rfl)]
    simp [MapRow.contrib, bRow, CHPLayout.on]
  have b4 : r.incOn = true ∧ r.incStart = true → dsum (fun m => m.asset == r.name && isDisp f (r.idx.getD k 0) m) x
      (withFactors (r.mappingCore.filter fun m => m.varName == "bool_start") (r.startFuel.map fun v => - v) f)
      = x (r.layout.start k) * (- r.startFuel.getD k 0) := by
    intro h
    rw [boolStartRows r hbase hidx hh2 h, hsmap, withFactors_block,
      dsum_block r.name f r.idx r.T hidx hnd x k hk _ (fun _ => rfl) (fun _ => rfl) (fun _ => rfl) (fun _ => rfl)]
    simp [MapRow.contrib, bRow, CHPLayout.start]
  show dsum (fun m => m.asset == r.name && isDisp f (r.idx.getD k 0) m) x _ = _
  rw [hmap, dsum_append, mappingCore_eq r hbase hidx hh2, dsum_core r f _ x hp (fun h => (hh h).1)]
  simp only [CHPR.fuelRows, dsum_append, dsum_ite, hfe, b1]
  unfold CHPR.vd
  by_cases h1 : r.heat = true <;> by_cases h2 : r.incOn = true <;> by_cases h3 : r.incStart = true <;>
    simp only [h1, h2, h3, b2, b3, b4, and_self, and_true, and_false, false_and, if_true, if_false,
      Bool.false_eq_true, true_and] <;> grind


/-! ## the hypotheses are satisfiable on a non-trivial instance (T = 2, heat and fuel node, on and start variables) -/
def exBase : AssetProblem :=
  { name := "chp", nodes := ["p"], c := [0, 0], l := [0, 0], u := [1, 1], rows := [],
    mapping := [{ var := 0, asset := "chp", node := some "p", kind := VarKind.d, step := 5, factor := 1, isBool := false, varName := "disp" },
                { var := 1, asset := "chp", node := some "p", kind := VarKind.d, step := 6, factor := 1, isBool := false, varName := "disp" }] }

def exR : CHPR :=
  { (default : CHPR) with
    name := "chp", nodes := ["p", "h", "g"], T := 2, idx := [5, 6], base := exBase, heat := true, fuel := some "g",
    conv := [1, 1], incOn := true, incStart := true, fuelEff := [2, 2], consIfOn := [3, 3], startFuel := [4, 4] }

example : CanonicalBase exR ∧ exR.idx.length = exR.T ∧ exR.idx.Nodup ∧ exR.fuelEff.length = exR.T ∧
    exR.consIfOn.length = exR.T ∧ exR.startFuel.length = exR.T ∧ "g" ≠ exR.nodes.getD 0 "" ∧
    (exR.heat = true → "g" ≠ exR.nodes.getD 1 "" ∧ exR.nodes.getD 0 "" ≠ exR.nodes.getD 1 "" ∧ 2 ≤ exR.nodes.length) := by
  refine ⟨rfl, rfl, by decide, rfl, rfl, rfl, by decide, fun _ => ⟨by decide, by decide, by decide⟩⟩

end EAO.CHPFuel
