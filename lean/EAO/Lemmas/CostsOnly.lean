import EAO.Model.CostsOnly
import EAO.Lemmas.Storage
/-!
# helper lemmas for `EAO/Properties/C17Costs.lean` (the `costs_only` branch of the builders)

Part A: the error monad.                         Part B: simple contract, contract, multi-commodity contract.
Part C: transports.                              Part D: storage, order book.
Part E: CHP, minimum-load costs, the CHP chain.  Part F: scaled, structured, linked.
Part G: lists of assets (`buildAll`, `assetCostVectors`), `assembleFrom`.
-/
namespace EAO.CostsOnly
open EAO

/-! ## Part A: the error monad -/

theorem bind_ok {ε α β : Type} (a : α) (f : α → Except ε β) : ((Except.ok a : Except ε α) >>= f) = f a := rfl
theorem bind_error {ε α β : Type} (e : ε) (f : α → Except ε β) : ((Except.error e : Except ε α) >>= f) = .error e := rfl

theorem bind_eq_ok {ε α β : Type} {x : Except ε α} {f : α → Except ε β} {b : β} (h : (x >>= f) = .ok b) :
    ∃ a, x = .ok a ∧ f a = .ok b := by
  cases x with
  | error e => simp [bind, Except.bind] at h
  | ok a => exact ⟨a, rfl, h⟩

theorem map_ok {ε α β : Type} (f : α → β) (a : α) : (Except.ok a : Except ε α).map f = .ok (f a) := rfl
theorem map_error {ε α β : Type} (f : α → β) (e : ε) : (Except.error e : Except ε α).map f = .error e := rfl

theorem map_eq_ok {ε α β : Type} {f : α → β} {x : Except ε α} {a : α} (h : x = .ok a) : x.map f = .ok (f a) := by
  subst h; rfl

/-! ## Part B: contracts -/

theorem allSome_ok {xs : List (Option Rat)} {ys : List Rat} (h : allSome xs = .ok ys) : xs = ys.map some := by
  unfold allSome at h
  split at h
  · rename_i hall
    simp only [pure, Except.pure, Except.ok.injEq] at h
    subst h
    rw [List.map_map]
    induction xs with
    | nil => rfl
    | cons x xs ih =>
      simp only [List.all_cons, Bool.and_eq_true] at hall
      cases x with
      | none => simp at hall
      | some v => simp only [List.map_cons, Function.comp, Option.getD_some]; rw [← ih hall.2]
  · simp [throw, throwThe, MonadExceptOf.throw] at h

theorem allSome_error {xs : List (Option Rat)} {e : BuildError} (h : allSome xs = .error e) : e = .nanInput := by
  unfold allSome at h
  split at h
  · simp [pure, Except.pure] at h
  · simp only [throw, throwThe, MonadExceptOf.throw, Except.error.injEq] at h; exact h.symm

theorem allLe0O_some (ys : List Rat) : allLe0O (ys.map some) = ys.all (fun v => decide (v ≤ 0)) := by
  unfold allLe0O; rw [List.all_map]; rfl

theorem allGe0O_some (ys : List Rat) : allGe0O (ys.map some) = ys.all (fun v => decide (0 ≤ v)) := by
  unfold allGe0O; rw [List.all_map]; rfl

theorem oneVariableO_some (ec minC maxC : List Rat) :
    oneVariableO ec (minC.map some) (maxC.map some) = oneVariable ec minC maxC := by
  unfold oneVariableO oneVariable; rw [allLe0O_some, allGe0O_some]

theorem oneVarPriceO_some (price ec minC maxC : List Rat) :
    oneVarPriceO price ec (minC.map some) (maxC.map some) = oneVarPrice price ec minC maxC := by
  unfold oneVarPriceO oneVarPrice; rw [allLe0O_some, allGe0O_some]

/-- a vector read with a default value has no gaps -/
theorem baseVector_default_isSome {v : ParamValue} {g : Grid} {prices : Prices} {d : Rat} {r : List (Option Rat)}
    (h : baseVector v g prices (some d) = .ok r) : r.all Option.isSome = true := by
  unfold baseVector at h
  cases v with
  | scalar s =>
    simp only [pure, Except.pure, Except.ok.injEq] at h
    subst h; simp
  | array vs =>
    simp only at h
    cases hb : broadcastArray vs g.T with
    | error e => rw [hb] at h; simp [Except.map] at h
    | ok w => rw [hb] at h; simp only [Except.map, Except.ok.injEq] at h; subst h; simp
  | key k =>
    simp only at h
    cases hl : prices.lookup k with
    | none => rw [hl] at h; simp [throw, throwThe, MonadExceptOf.throw] at h
    | some arr =>
      rw [hl] at h
      simp only at h
      cases hs : sample arr g.idx with
      | error e => rw [hs] at h; simp [Except.map] at h
      | ok w => rw [hs] at h; simp only [Except.map, Except.ok.injEq] at h; subst h; simp
  | intervals ivs =>
    simp only at h
    cases hg : valuesToGrid g.pts ivs with
    | error e => rw [hg] at h; simp [throw, throwThe, MonadExceptOf.throw] at h
    | ok w =>
      rw [hg] at h
      simp only [pure, Except.pure, Except.ok.injEq] at h
      subst h; simp

theorem allSome_of_isSome {r : List (Option Rat)} (h : r.all Option.isSome = true) :
    allSome r = .ok (r.map fun o => o.getD 0) := by
  unfold allSome; rw [if_pos h]; rfl

/-- the extra costs of a contract are read with default 0: the NaN assertion cannot fail on them -/
theorem contractVectors_ec {p : ContractP} {g : Grid} {prices : Prices} {minO maxO ecO : List (Option Rat)}
    (h : contractVectors p g prices = .ok (minO, maxO, ecO)) : ∃ ec, allSome ecO = .ok ec := by
  unfold contractVectors at h
  obtain ⟨mx, _, h⟩ := bind_eq_ok h
  obtain ⟨mn, _, h⟩ := bind_eq_ok h
  split at h
  · simp [throw, throwThe, MonadExceptOf.throw, bind, Except.bind] at h
  · obtain ⟨ec, hec, h⟩ := bind_eq_ok h
    simp only [pure, Except.pure, Except.ok.injEq, Prod.mk.injEq] at h
    obtain ⟨_, _, rfl⟩ := h
    unfold makeVector at hec
    obtain ⟨base, hb, hec⟩ := bind_eq_ok hec
    simp only [Bool.false_eq_true, if_false, pure, Except.pure, Except.ok.injEq] at hec
    subst hec
    exact ⟨_, allSome_of_isSome (baseVector_default_isSome hb)⟩

/-- the shared part of `SimpleContract.setup_optim_problem`: either both branches raise the same error, or the cost-only
    branch returns a vector and the full one returns a problem with that vector, or fails with the IndexError of the
    missing node or the NaN assertion -/
theorem simpleCore_vs_cost (p : ContractP) (g : Grid) (prices : Prices) (price : List Rat) :
    (∃ e, simpleCore p g prices price = .error e ∧ simpleCostCore p g prices price = .error e) ∨
    (∃ c, simpleCostCore p g prices price = .ok c ∧
      ((∃ a, simpleCore p g prices price = .ok a ∧ a.c = c) ∨ simpleCore p g prices price = .error .index ∨
        simpleCore p g prices price = .error .nanInput)) := by
  unfold simpleCore simpleCostCore
  cases hv : contractVectors p g prices with
  | error e => exact Or.inl ⟨e, rfl, rfl⟩
  | ok v =>
    obtain ⟨minO, maxO, ecO⟩ := v
    obtain ⟨ec, he⟩ := contractVectors_ec hv
    simp only [bind, Except.bind, he]
    right
    cases hn : p.nodes with
    | nil =>
      simp only [throw, throwThe, MonadExceptOf.throw]
      split
      · exact ⟨_, rfl, Or.inr (Or.inl trivial)⟩
      · exact ⟨_, rfl, Or.inr (Or.inl trivial)⟩
    | cons n tl =>
      simp only [pure, Except.pure]
      cases hmin : allSome minO with
      | error e =>
        rw [allSome_error hmin]
        split
        · exact ⟨_, rfl, Or.inr (Or.inr rfl)⟩
        · exact ⟨_, rfl, Or.inr (Or.inr rfl)⟩
      | ok minC =>
        simp only
        cases hmax : allSome maxO with
        | error e =>
          rw [allSome_error hmax]
          split
          · exact ⟨_, rfl, Or.inr (Or.inr rfl)⟩
          · exact ⟨_, rfl, Or.inr (Or.inr rfl)⟩
        | ok maxC =>
          simp only
          rw [allSome_ok hmin, allSome_ok hmax, oneVariableO_some, oneVarPriceO_some]
          by_cases hone : oneVariable ec minC maxC = true
          · rw [if_pos hone, if_pos hone]; exact ⟨_, rfl, Or.inl ⟨_, rfl, rfl⟩⟩
          · rw [if_neg hone, if_neg hone]; exact ⟨_, rfl, Or.inl ⟨_, rfl, rfl⟩⟩

theorem simpleCore_cost {p : ContractP} {g : Grid} {prices : Prices} {price : List Rat} {a : AssetProblem}
    (h : simpleCore p g prices price = .ok a) : simpleCostCore p g prices price = .ok a.c := by
  rcases simpleCore_vs_cost p g prices price with ⟨e, he, _⟩ | ⟨c, hc, ⟨a', ha', hac⟩ | he | he⟩
  · rw [h] at he; cases he
  · rw [h] at ha'; cases ha'; rw [hc, hac]
  · rw [h] at he; cases he
  · rw [h] at he; cases he

theorem buildSimpleContract_eq_core (p : ContractP) (g : Grid) (prices : Prices) (fullT : Nat) :
    buildSimpleContract p g prices fullT
      = (if scalarIllPosed p.minCap p.maxCap then throw .illPosed
         else priceVector p.price g prices fullT >>= simpleCore p g prices) := by
  unfold buildSimpleContract simpleCore
  by_cases h : scalarIllPosed p.minCap p.maxCap = true
  · rw [if_pos h, if_pos h]; rfl
  · rw [if_neg h, if_neg h]; rfl

theorem costsOnlySimpleContract_eq_core (p : ContractP) (g : Grid) (prices : Prices) (fullT : Nat) :
    costsOnlySimpleContract p g prices fullT
      = (if scalarIllPosed p.minCap p.maxCap then throw .illPosed
         else priceVector p.price g prices fullT >>= simpleCostCore p g prices) := by
  unfold costsOnlySimpleContract
  by_cases h : scalarIllPosed p.minCap p.maxCap = true
  · rw [if_pos h, if_pos h]; rfl
  · rw [if_neg h, if_neg h]

/-- the same trichotomy for the whole builder -/
theorem simple_vs_cost (p : ContractP) (g : Grid) (prices : Prices) (fullT : Nat) :
    (∃ e, buildSimpleContract p g prices fullT = .error e ∧ costsOnlySimpleContract p g prices fullT = .error e) ∨
    (∃ c, costsOnlySimpleContract p g prices fullT = .ok c ∧
      ((∃ a, buildSimpleContract p g prices fullT = .ok a ∧ a.c = c) ∨ buildSimpleContract p g prices fullT = .error .index ∨
        buildSimpleContract p g prices fullT = .error .nanInput)) := by
  rw [buildSimpleContract_eq_core, costsOnlySimpleContract_eq_core]
  by_cases h : scalarIllPosed p.minCap p.maxCap = true
  · rw [if_pos h, if_pos h]; exact Or.inl ⟨_, rfl, rfl⟩
  · rw [if_neg h, if_neg h]
    cases hp : priceVector p.price g prices fullT with
    | error e => exact Or.inl ⟨e, rfl, rfl⟩
    | ok price => exact simpleCore_vs_cost p g prices price

theorem simple_cost {p : ContractP} {g : Grid} {prices : Prices} {fullT : Nat} {a : AssetProblem}
    (h : buildSimpleContract p g prices fullT = .ok a) : costsOnlySimpleContract p g prices fullT = .ok a.c := by
  rcases simple_vs_cost p g prices fullT with ⟨e, he, _⟩ | ⟨c, hc, ⟨a', ha', hac⟩ | he | he⟩
  · rw [h] at he; cases he
  · rw [h] at ha'; cases ha'; rw [hc, hac]
  · rw [h] at he; cases he
  · rw [h] at he; cases he

theorem buildContract_ok {p : ContractP} {g : Grid} {prices : Prices} {fullT u : Nat} {a : AssetProblem}
    (h : buildContract p g prices fullT u = .ok a) :
    ∃ a0, buildSimpleContract p g prices fullT = .ok a0 ∧ a.c = a0.c ∧ a.l = a0.l ∧ a.u = a0.u := by
  unfold buildContract at h
  obtain ⟨a0, h0, h1⟩ := bind_eq_ok h
  simp only [pure, Except.pure, Except.ok.injEq] at h1
  subst h1
  exact ⟨a0, h0, rfl, rfl, rfl⟩

theorem contract_cost {p : ContractP} {g : Grid} {prices : Prices} {fullT u : Nat} {a : AssetProblem}
    (h : buildContract p g prices fullT u = .ok a) : costsOnlyContract p g prices fullT = .ok a.c := by
  obtain ⟨a0, h0, hc, _, _⟩ := buildContract_ok h
  rw [hc]; exact simple_cost h0

theorem buildMulti_ok' {p : ContractP} {f : List Rat} {g : Grid} {prices : Prices} {fullT u : Nat} {a : AssetProblem}
    (h : buildMulti p f g prices fullT u = .ok a) :
    scalarIllPosed p.minCap p.maxCap = false ∧ f.length = p.nodes.length ∧
      ∃ a0, buildContract p g prices fullT u = .ok a0 ∧ a.c = a0.c ∧ a.l = a0.l ∧ a.u = a0.u := by
  unfold buildMulti at h
  by_cases h1 : scalarIllPosed p.minCap p.maxCap = true
  · simp [h1, throw, throwThe, MonadExceptOf.throw, bind, Except.bind] at h
  · by_cases h2 : f.length ≠ p.nodes.length
    · simp [h1, h2, throw, throwThe, MonadExceptOf.throw, bind, Except.bind] at h
    · simp only [h1, h2, if_false, Bool.false_eq_true, bind, Except.bind, pure, Except.pure] at h
      refine ⟨by simpa using h1, by simpa using h2, ?_⟩
      cases hb : buildContract p g prices fullT u with
      | error e => rw [hb] at h; simp at h
      | ok a0 =>
        rw [hb] at h
        simp only [Except.ok.injEq] at h
        subst h
        exact ⟨a0, rfl, rfl, rfl, rfl⟩

theorem multi_cost {p : ContractP} {f : List Rat} {g : Grid} {prices : Prices} {fullT u : Nat} {a : AssetProblem}
    (h : buildMulti p f g prices fullT u = .ok a) : costsOnlyMulti p f g prices fullT = .ok a.c := by
  obtain ⟨h1, h2, a0, h0, hc, _, _⟩ := buildMulti_ok' h
  unfold costsOnlyMulti
  simp only [h1, Bool.false_eq_true, if_false, h2, ne_eq, not_true_eq_false]
  rw [hc]
  exact contract_cost h0

/-! ## Part C: transports -/

theorem transportCore_cost_eq (p : TransportP) (n0 n1 : String) (g : Grid) (cts : List Rat) :
    transportCostCore p g cts = (transportCore p n0 n1 g cts).map (·.c) := by
  unfold transportCostCore transportCore
  simp only [bind, Except.bind, pure, Except.pure]
  split
  · rfl
  · rfl

theorem costsOnlyTransport_eq (p : TransportP) (g : Grid) (prices : Prices) (fullT : Nat) :
    costsOnlyTransport p g prices fullT = (buildTransport p g prices fullT).map (·.c) := by
  unfold costsOnlyTransport buildTransport
  rcases hn : p.nodes with _ | ⟨n0, _ | ⟨n1, _ | ⟨n2, tl⟩⟩⟩
  · rfl
  · rfl
  · simp only
    by_cases h1 : p.maxCap < p.minCap
    · simp only [h1, if_true]; rfl
    · by_cases h2 : ¬ (0 < p.efficiency)
      · simp only [h1, h2, if_false]; rfl
      · simp only [h1, h2, if_false]
        cases hc : transportCosts p.costsKey g prices fullT with
        | error e => rfl
        | ok cts =>
          have := transportCore_cost_eq { p with nodes := [n0, n1] } n0 n1 g cts
          unfold transportCostCore transportCore at this
          simp only [bind, Except.bind, pure, Except.pure] at this ⊢
          exact this
  · rfl

theorem buildExtTransport_map_c (p : TransportP) (g : Grid) (prices : Prices) (fullT u : Nat) :
    (buildExtTransport p g prices fullT u).map (·.c) = (buildTransport p g prices fullT).map (·.c) := by
  unfold buildExtTransport
  cases buildTransport p g prices fullT with
  | error e => rfl
  | ok a => rfl

theorem costsOnlyExtTransport_eq (p : TransportP) (g : Grid) (prices : Prices) (fullT u : Nat) :
    costsOnlyExtTransport p g prices fullT = (buildExtTransport p g prices fullT u).map (·.c) := by
  rw [buildExtTransport_map_c]; exact costsOnlyTransport_eq p g prices fullT

/-! ### coarse asset frequency -/

theorem extendMapping_ok_c {a : AssetProblem} {cg : CoarseGrid} {dtFine : List Rat} {b : AssetProblem}
    (h : (extendMapping a.mapping cg dtFine >>= fun M => (pure { a with mapping := M } : Except BuildError AssetProblem)) = .ok b) :
    b.c = a.c := by
  obtain ⟨M, _, h⟩ := bind_eq_ok h
  simp only [pure, Except.pure, Except.ok.injEq] at h
  subst h; rfl

theorem coarse_simple_cost {p : ContractP} {cg : CoarseGrid} {dtFine : List Rat} {prices : Prices} {fullT : Nat}
    {a : AssetProblem} (h : buildCoarseSimpleContract p cg dtFine prices fullT = .ok a) :
    costsOnlyCoarseSimpleContract p cg prices fullT = .ok a.c := by
  unfold buildCoarseSimpleContract at h
  unfold costsOnlyCoarseSimpleContract
  by_cases h1 : scalarIllPosed p.minCap p.maxCap = true
  · simp [h1, throw, throwThe, MonadExceptOf.throw, bind, Except.bind] at h
  · simp only [h1, if_false, Bool.false_eq_true] at h ⊢
    obtain ⟨price, hp, h⟩ := bind_eq_ok h
    obtain ⟨a0, h0, h⟩ := bind_eq_ok h
    rw [hp]
    show simpleCostCore p cg.grid prices price = _
    rw [extendMapping_ok_c h]
    exact simpleCore_cost h0

theorem coarse_transport_cost {p : TransportP} {cg : CoarseGrid} {dtFine : List Rat} {prices : Prices} {fullT : Nat}
    {a : AssetProblem} (h : buildCoarseTransport p cg dtFine prices fullT = .ok a) :
    costsOnlyCoarseTransport p cg prices fullT = .ok a.c := by
  unfold buildCoarseTransport at h
  unfold costsOnlyCoarseTransport
  split at h
  · rename_i n0 n1 hn
    rw [hn]
    by_cases h1 : p.maxCap < p.minCap
    · simp [h1, throw, throwThe, MonadExceptOf.throw, bind, Except.bind] at h
    · by_cases h2 : ¬ (0 < p.efficiency)
      · simp [h1, h2, throw, throwThe, MonadExceptOf.throw, bind, Except.bind] at h
      · simp only [h1, h2, if_false] at h ⊢
        obtain ⟨cts, hc, h⟩ := bind_eq_ok h
        obtain ⟨a0, h0, h⟩ := bind_eq_ok h
        rw [hc]
        show transportCostCore p cg.grid cts = _
        rw [extendMapping_ok_c h, transportCore_cost_eq p n0 n1, h0]; rfl
  · simp [throw, throwThe, MonadExceptOf.throw] at h

/-! ## Part D: storage, order book -/

theorem blocksOf_error {p : StorageP} {n : Nat} {e : BuildError} (h : Storage.blocksOf p n = .error e) :
    e = .index ∨ e = .nanInput := by
  unfold Storage.blocksOf at h
  split at h
  · cases h
  · split at h
    · split at h
      · cases h; exact Or.inl rfl
      · split at h
        · cases h
        · cases h; exact Or.inr rfl
    · cases h; exact Or.inl rfl

/-- the shared part of `Storage.setup_optim_problem` -/
theorem storage_vs_cost (p : StorageP) (g : Grid) (T : Nat) (prices : Prices) :
    (∃ e, buildStorage p g T prices = .error e ∧ costsOnlyStorage p g T prices = .error e) ∨
    (∃ c, costsOnlyStorage p g T prices = .ok c ∧
      ((∃ a, buildStorage p g T prices = .ok a ∧ a.c = c) ∨ buildStorage p g T prices = .error .index ∨
        buildStorage p g T prices = .error .nanInput)) := by
  unfold buildStorage costsOnlyStorage
  by_cases h0 : g.dt.length = 0
  · rw [if_pos h0, if_pos h0]; exact Or.inr ⟨_, rfl, Or.inl ⟨_, rfl, rfl⟩⟩
  · rw [if_neg h0, if_neg h0]
    cases hp : Storage.priceVec p g T prices with
    | error e => exact Or.inl ⟨e, rfl, rfl⟩
    | ok pr =>
      simp only
      right
      refine ⟨_, rfl, ?_⟩
      by_cases hn : p.nodes.isEmpty = true
      · rw [if_pos hn]; exact Or.inr (Or.inl rfl)
      · rw [if_neg hn]
        cases hb : Storage.blocksOf p g.T with
        | error e =>
          simp only
          rcases blocksOf_error hb with rfl | rfl
          · exact Or.inr (Or.inl rfl)
          · exact Or.inr (Or.inr rfl)
        | ok bl => exact Or.inl ⟨_, rfl, rfl⟩

theorem storage_cost {p : StorageP} {g : Grid} {T : Nat} {prices : Prices} {a : AssetProblem}
    (h : buildStorage p g T prices = .ok a) : costsOnlyStorage p g T prices = .ok a.c := by
  rcases storage_vs_cost p g T prices with ⟨e, he, _⟩ | ⟨c, hc, ⟨a', ha', hac⟩ | he | he⟩
  · rw [h] at he; cases he
  · rw [h] at ha'; cases ha'; rw [hc, hac]
  · rw [h] at he; cases he
  · rw [h] at he; cases he

theorem mk_storage_cost {p : StorageP} {g : Grid} {T : Nat} {prices : Prices} {a : AssetProblem}
    (h : mkStorage p g T prices = .ok a) : mkCostsOnlyStorage p g T prices = .ok a.c := by
  unfold mkStorage at h
  unfold mkCostsOnlyStorage
  by_cases hg : p.guards = true
  · rw [if_pos hg] at h ⊢; exact storage_cost h
  · rw [if_neg hg] at h; simp [throw, throwThe, MonadExceptOf.throw] at h

theorem costsOnlyOrderBookRaw_eq (name node : String) (starts stops : List Int) (capas prices : List (Option Rat))
    (fullExec : Bool) (g : Grid) :
    costsOnlyOrderBookRaw starts stops capas prices g
      = (buildOrderBookRaw name node starts stops capas prices fullExec g).map (·.c) := by
  unfold costsOnlyOrderBookRaw buildOrderBookRaw
  split
  · rfl
  · simp only
    generalize (List.mapM (m := Option) _ ((starts.zip stops).zip (capas.zip prices)) : Option (List Order)) = r
    cases r <;> rfl

/-! ## Part E: CHP, plant, minimum-load costs -/

theorem throw_ne_ok {α : Type} {e : BuildError} {a : α} : (throw e : Except BuildError α) ≠ .ok a := by
  simp [throw, throwThe, MonadExceptOf.throw]

/-- what a successful resolution consists of -/
theorem resolveCHPWith_ok {p : CHPP} {base : AssetProblem} {g : Grid} {pr : Prices} {u s : Nat} {co : Bool}
    {o : Option CHPR} (h : resolveCHPWith p base g pr u s co = .ok o) :
    ∃ hf, chpCtor p = .ok hf ∧
      ((g.T = 0 ∧ o = none) ∨
       (g.T ≠ 0 ∧ p.freqMismatch = false ∧ ∃ v, chpVectors p g pr hf.1 hf.2 = .ok v ∧
          chpCostCheck (mkCHPR p base g hf.1 hf.2 v u s 0 false) = .ok () ∧
          o = some (mkCHPR p base g hf.1 hf.2 v u s 0 false))) := by
  unfold resolveCHPWith at h
  obtain ⟨hf, hc, h⟩ := bind_eq_ok h
  refine ⟨hf, hc, ?_⟩
  by_cases hT : g.T = 0
  · rw [if_pos hT] at h
    simp only [pure, Except.pure, Except.ok.injEq] at h
    exact Or.inl ⟨hT, h.symm⟩
  · rw [if_neg hT] at h
    right
    by_cases hm : p.freqMismatch = true
    · simp only [hm, if_true] at h
      obtain ⟨_, h', _⟩ := bind_eq_ok h
      exact absurd h' throw_ne_ok
    · simp only [hm, if_false, Bool.false_eq_true] at h
      obtain ⟨v, hv, h⟩ := bind_eq_ok h
      obtain ⟨_, hcc, h⟩ := bind_eq_ok h
      refine ⟨hT, by simpa using hm, v, hv, hcc, ?_⟩
      cases co with
      | true => simp only [if_true, pure, Except.pure, Except.ok.injEq] at h; exact h.symm
      | false =>
        simp only [Bool.false_eq_true, if_false] at h
        obtain ⟨_, _, h⟩ := bind_eq_ok h
        simp only [pure, Except.pure, Except.ok.injEq] at h; exact h.symm

theorem resolveCHPWith_true_empty {p : CHPP} {base : AssetProblem} {g : Grid} {pr : Prices} {u s : Nat}
    {hf : Bool × Option String} (hc : chpCtor p = .ok hf) (hT : g.T = 0) :
    resolveCHPWith p base g pr u s true = .ok none := by
  unfold resolveCHPWith
  rw [hc]; simp only [bind, Except.bind, hT, if_true]; rfl

theorem resolveCHPWith_true_some {p : CHPP} {base : AssetProblem} {g : Grid} {pr : Prices} {u s : Nat}
    {hf : Bool × Option String} {v : CHPVecs} (hc : chpCtor p = .ok hf) (hT : g.T ≠ 0) (hm : p.freqMismatch = false)
    (hv : chpVectors p g pr hf.1 hf.2 = .ok v)
    (hcc : chpCostCheck (mkCHPR p base g hf.1 hf.2 v u s 0 false) = .ok ()) :
    resolveCHPWith p base g pr u s true = .ok (some (mkCHPR p base g hf.1 hf.2 v u s 0 false)) := by
  unfold resolveCHPWith
  rw [hc]
  simp only [bind, Except.bind, hT, if_false, hm, Bool.false_eq_true, hv, hcc, if_true]
  rfl

theorem chpCostCheck_congr (p : CHPP) (base base' : AssetProblem) (g : Grid) (h : Bool) (f : Option String) (v : CHPVecs)
    (u s rt : Nat) (pf : Bool) (hc : base'.c = base.c) :
    chpCostCheck (mkCHPR p base' g h f v u s rt pf) = chpCostCheck (mkCHPR p base g h f v u s rt pf) := by
  unfold chpCostCheck mkCHPR
  simp only [hc]

theorem mkCHPR_cost_congr (p : CHPP) (base base' : AssetProblem) (g : Grid) (h : Bool) (f : Option String) (v : CHPVecs)
    (u s rt : Nat) (pf : Bool) (hc : base'.c = base.c) :
    (mkCHPR p base' g h f v u s rt pf).cost = (mkCHPR p base g h f v u s rt pf).cost := by
  unfold CHPR.cost CHPR.cv mkCHPR
  simp only [hc]

/-- `CHPAsset.setup_optim_problem` without profiles: the cost-only branch on ANY carrier of the parent's cost vector -/
theorem chp_cost {p : CHPP} {base base' : AssetProblem} {g : Grid} {pr : Prices} {u s : Nat} {a : AssetProblem}
    (hc : base'.c = base.c) (h : buildCHP p base g pr u s = .ok a) : costsOnlyCHP p base' g pr u s = .ok a.c := by
  unfold buildCHP resolveCHP at h
  obtain ⟨o, ho, h⟩ := bind_eq_ok h
  obtain ⟨hf, hctor, hcase⟩ := resolveCHPWith_ok ho
  unfold costsOnlyCHP
  rcases hcase with ⟨hT, rfl⟩ | ⟨hT, hm, v, hv, hcc, rfl⟩
  · rw [resolveCHPWith_true_empty hctor hT]
    simp only [pure, Except.pure, Except.ok.injEq] at h
    subst h
    simp only [bind, Except.bind, pure, Except.pure, hc]
  · rw [resolveCHPWith_true_some hctor hT hm hv (by rw [chpCostCheck_congr _ _ _ _ _ _ _ _ _ _ _ hc]; exact hcc)]
    simp only [pure, Except.pure, Except.ok.injEq] at h
    subst h
    simp only [bind, Except.bind, pure, Except.pure]
    rw [mkCHPR_cost_congr _ _ _ _ _ _ _ _ _ _ _ hc]
    rfl

/-! ### with ramp profiles -/

theorem resolveCHPP_ok {p : CHPP} {q : CHPProfP} {base : AssetProblem} {g : Grid} {pr : Prices} {u s : Nat} {co : Bool}
    {o : Option CHPRP} (h : resolveCHPP p q base g pr u s co = .ok o) :
    ∃ hf sd, chpCtor p = .ok hf ∧ profCtor q = .ok sd ∧
      ((g.T = 0 ∧ o = none) ∨
       (g.T ≠ 0 ∧ p.freqMismatch = false ∧ ∃ v, chpVectors p g pr hf.1 hf.2 = .ok v ∧
          chpCostCheck (mkCHPR p base g hf.1 hf.2 v u s ((mkProf q sd.1 sd.2 s u).S + (mkProf q sd.1 sd.2 s u).Q)
            (decide (0 < (mkProf q sd.1 sd.2 s u).S) || decide (0 < (mkProf q sd.1 sd.2 s u).Q))) = .ok () ∧
          o = some { core := mkCHPR p base g hf.1 hf.2 v u s ((mkProf q sd.1 sd.2 s u).S + (mkProf q sd.1 sd.2 s u).Q)
                       (decide (0 < (mkProf q sd.1 sd.2 s u).S) || decide (0 < (mkProf q sd.1 sd.2 s u).Q)),
                     prof := mkProf q sd.1 sd.2 s u })) := by
  unfold resolveCHPP at h
  obtain ⟨hf, hc, h⟩ := bind_eq_ok h
  obtain ⟨sd, hsd, h⟩ := bind_eq_ok h
  refine ⟨hf, sd, hc, hsd, ?_⟩
  by_cases hT : g.T = 0
  · rw [if_pos hT] at h
    simp only [pure, Except.pure, Except.ok.injEq] at h
    exact Or.inl ⟨hT, h.symm⟩
  · rw [if_neg hT] at h
    right
    by_cases hm : p.freqMismatch = true
    · simp only [hm, if_true] at h
      obtain ⟨_, h', _⟩ := bind_eq_ok h
      exact absurd h' throw_ne_ok
    · simp only [hm, if_false, Bool.false_eq_true] at h
      obtain ⟨v, hv, h⟩ := bind_eq_ok h
      obtain ⟨_, hcc, h⟩ := bind_eq_ok h
      refine ⟨hT, by simpa using hm, v, hv, hcc, ?_⟩
      cases co with
      | true => simp only [if_true, pure, Except.pure, Except.ok.injEq] at h; exact h.symm
      | false =>
        simp only [Bool.false_eq_true, if_false] at h
        obtain ⟨_, _, h⟩ := bind_eq_ok h
        split at h
        · exact absurd h throw_ne_ok
        · split at h
          · exact absurd h throw_ne_ok
          · simp only [pure, Except.pure, Except.ok.injEq] at h; exact h.symm

theorem resolveCHPP_true_empty {p : CHPP} {q : CHPProfP} {base : AssetProblem} {g : Grid} {pr : Prices} {u s : Nat}
    {hf : Bool × Option String} {sd : (List Rat × List Rat) × (List Rat × List Rat)}
    (hc : chpCtor p = .ok hf) (hsd : profCtor q = .ok sd) (hT : g.T = 0) :
    resolveCHPP p q base g pr u s true = .ok none := by
  unfold resolveCHPP
  rw [hc, hsd]; simp only [bind, Except.bind, hT, if_true]; rfl

theorem resolveCHPP_true_some {p : CHPP} {q : CHPProfP} {base : AssetProblem} {g : Grid} {pr : Prices} {u s : Nat}
    {hf : Bool × Option String} {sd : (List Rat × List Rat) × (List Rat × List Rat)} {v : CHPVecs}
    (hc : chpCtor p = .ok hf) (hsd : profCtor q = .ok sd) (hT : g.T ≠ 0) (hm : p.freqMismatch = false)
    (hv : chpVectors p g pr hf.1 hf.2 = .ok v)
    (hcc : chpCostCheck (mkCHPR p base g hf.1 hf.2 v u s ((mkProf q sd.1 sd.2 s u).S + (mkProf q sd.1 sd.2 s u).Q)
            (decide (0 < (mkProf q sd.1 sd.2 s u).S) || decide (0 < (mkProf q sd.1 sd.2 s u).Q))) = .ok ()) :
    resolveCHPP p q base g pr u s true
      = .ok (some { core := mkCHPR p base g hf.1 hf.2 v u s ((mkProf q sd.1 sd.2 s u).S + (mkProf q sd.1 sd.2 s u).Q)
                       (decide (0 < (mkProf q sd.1 sd.2 s u).S) || decide (0 < (mkProf q sd.1 sd.2 s u).Q)),
                    prof := mkProf q sd.1 sd.2 s u }) := by
  unfold resolveCHPP
  rw [hc, hsd]
  simp only [bind, Except.bind, hT, if_false, hm, Bool.false_eq_true, hv, hcc, if_true]
  rfl

/-- `CHPAsset.setup_optim_problem` with ramp profiles -/
theorem chpp_cost {p : CHPP} {q : CHPProfP} {base base' : AssetProblem} {g : Grid} {pr : Prices} {u s : Nat}
    {a : AssetProblem} (hc : base'.c = base.c) (h : buildCHPP p q base g pr u s = .ok a) :
    (do match ← resolveCHPP p q base' g pr u s true with
        | none => pure base'.c
        | some r => pure r.cost : Except BuildError (List Rat)) = .ok a.c := by
  unfold buildCHPP at h
  obtain ⟨o, ho, h⟩ := bind_eq_ok h
  obtain ⟨hf, sd, hctor, hsd, hcase⟩ := resolveCHPP_ok ho
  rcases hcase with ⟨hT, rfl⟩ | ⟨hT, hm, v, hv, hcc, rfl⟩
  · rw [resolveCHPP_true_empty hctor hsd hT]
    simp only [pure, Except.pure, Except.ok.injEq] at h
    subst h
    simp only [bind, Except.bind, pure, Except.pure, hc]
  · rw [resolveCHPP_true_some hctor hsd hT hm hv (by rw [chpCostCheck_congr _ _ _ _ _ _ _ _ _ _ _ hc]; exact hcc)]
    simp only [pure, Except.pure, Except.ok.injEq] at h
    subst h
    simp only [bind, Except.bind, pure, Except.pure]
    show Except.ok (CHPRP.cost _) = Except.ok (CHPRP.cost _)
    unfold CHPRP.cost
    simp only [mkCHPR_cost_congr _ _ _ _ _ _ _ _ _ _ _ hc]
    rfl

/-- either case: the cost-only branch fed with the parent's bare cost vector returns `c` of the CHP problem -/
theorem chp_any_cost {p : CHPP} {q : CHPProfP} {base : AssetProblem} {g : Grid} {pr : Prices} {u s : Nat} {a : AssetProblem}
    (h : buildCHPAny p q base g pr u s = .ok a) : costsOnlyCHPFrom p q base.c g pr u s = .ok a.c := by
  unfold buildCHPAny at h
  unfold costsOnlyCHPFrom
  by_cases hq : q.active = true
  · rw [if_pos hq] at h ⊢
    exact chpp_cost (base := base) (base' := costCarrier p.name p.nodes base.c) rfl h
  · rw [if_neg hq] at h ⊢
    exact chp_cost (base := base) (base' := costCarrier p.name p.nodes base.c) rfl h

/-! ### minimum-load costs -/

theorem addMinLoad_c {a : AssetProblem} {g : Grid} {thr costs : List Rat} {b : AssetProblem}
    (h : addMinLoad a g thr costs = .ok b) : b.c = a.c ++ costs := by
  unfold addMinLoad at h
  simp only [bind, Except.bind] at h
  split at h
  · exact absurd h throw_ne_ok
  · split at h
    · simp [throw, throwThe, MonadExceptOf.throw] at h
    · simp only [pure, Except.pure, Except.ok.injEq] at h; subst h; rfl

theorem minload_cost {m : MinLoadP} {a : AssetProblem} {g : Grid} {pr : Prices} {b : AssetProblem}
    (h : buildMinLoad m a g pr = .ok b) : costsOnlyMinLoad m a.c g pr = .ok b.c := by
  unfold buildMinLoad at h
  unfold costsOnlyMinLoad
  by_cases hT : g.T = 0
  · simp only [hT, if_true, pure, Except.pure, Except.ok.injEq] at h ⊢
    subst h; rfl
  · simp only [hT, if_false] at h ⊢
    obtain ⟨thr, ht, h⟩ := bind_eq_ok h
    obtain ⟨cs, hcs, h⟩ := bind_eq_ok h
    rw [ht, hcs]
    simp only [bind, Except.bind]
    cases hact : minLoadActive thr cs with
    | none =>
      rw [hact] at h
      simp only [pure, Except.pure, Except.ok.injEq] at h ⊢
      subst h; rfl
    | some tc =>
      obtain ⟨t, c⟩ := tc
      rw [hact] at h
      simp only [pure, Except.pure] at h ⊢
      rw [addMinLoad_c h]

/-! ### the chain Contract → CHP → minimum-load costs -/

theorem chp_asset_cost {p : CHPP} {q : CHPProfP} {ml : Option MinLoadP} {cp : ContractP} {g : Grid} {pr : Prices}
    {fullT u s : Nat} {a : AssetProblem} (h : buildCHPAsset p q ml cp g pr fullT u s = .ok a) :
    costsOnlyCHPAsset p q ml cp g pr fullT u s = .ok a.c := by
  unfold buildCHPAsset at h
  unfold costsOnlyCHPAsset
  obtain ⟨_, hctor, h⟩ := bind_eq_ok h
  obtain ⟨base, hb, h⟩ := bind_eq_ok h
  obtain ⟨a1, h1, h⟩ := bind_eq_ok h
  rw [hctor, contract_cost hb, bind_ok, bind_ok, chp_any_cost h1, bind_ok]
  cases ml with
  | none => simp only [pure, Except.pure, Except.ok.injEq] at h ⊢; subst h; rfl
  | some m => exact minload_cost h

/-! ## Part F: scaled, structured, linked -/

/-- the code tests `len(op.l) == 0` in the full branch and `len(op) == 0` (the cost vector) in the cost-only branch -/
theorem scaled_cost (p : ScaledP) (base : AssetProblem) (dtSum : Rat) (hlen : base.l.length = base.c.length) :
    (buildScaled p base dtSum).c = costsOnlyScaled p base.c dtSum := by
  unfold buildScaled costsOnlyScaled
  by_cases h : base.l.length = 0
  · rw [if_pos h, if_pos (by rw [← hlen]; exact h)]
  · rw [if_neg h, if_neg (by rw [← hlen]; exact h)]; rfl

theorem assembleFrom_c (as : List AssetProblem) (off : Nat) : (assembleFrom off as).c = (as.map (·.c)).flatten := by
  induction as generalizing off with
  | nil => rfl
  | cons a as ih => simp only [assembleFrom, List.map_cons, List.flatten_cons, ih]

theorem assembleFrom_l (as : List AssetProblem) (off : Nat) : (assembleFrom off as).l = (as.map (·.l)).flatten := by
  induction as generalizing off with
  | nil => rfl
  | cons a as ih => simp only [assembleFrom, List.map_cons, List.flatten_cons, ih]

theorem assemble_c (as : List AssetProblem) (gridI : List Nat) (skip : List String) :
    (assemble as gridI skip).c = (as.map (·.c)).flatten := by
  show (assembleFrom 0 as).c = _
  exact assembleFrom_c as 0

theorem assemble_l (as : List AssetProblem) (gridI : List Nat) (skip : List String) :
    (assemble as gridI skip).l = (as.map (·.l)).flatten := by
  show (assembleFrom 0 as).l = _
  exact assembleFrom_l as 0

theorem structured_c (name : String) (ext : List String) (inner : List AssetProblem) (gridI : List Nat) :
    (structured name ext inner gridI).c = (inner.map (·.c)).flatten := by
  unfold structured; exact assemble_c inner gridI ext

theorem structured_l (name : String) (ext : List String) (inner : List AssetProblem) (gridI : List Nat) :
    (structured name ext inner gridI).l = (inner.map (·.l)).flatten := by
  unfold structured; exact assemble_l inner gridI ext

theorem buildLinked_c {S : AssetProblem} {r : LinkR} {aCols : Option Nat} {a : AssetProblem}
    (h : buildLinked S r aCols = .ok a) : a.c = S.c ∧ a.l = S.l := by
  unfold buildLinked at h
  split at h
  · simp only [Except.ok.injEq] at h; subst h; exact ⟨rfl, rfl⟩
  · cases h

theorem liftLink_ok {α : Type} {x : Except LinkError α} {a : α} (h : liftLink x = .ok a) : x = .ok a := by
  cases x with
  | ok b => simp only [liftLink, Except.ok.injEq] at h; rw [h]
  | error e => cases e <;> simp [liftLink] at h

theorem liftPeriodic_ok {α : Type} {x : Except PeriodicError α} {a : α} (h : liftPeriodic x = .ok a) : x = .ok a := by
  cases x with
  | ok b => simp only [liftPeriodic, Except.ok.injEq] at h; rw [h]
  | error e => cases e <;> simp [liftPeriodic] at h

theorem linked_c {name : String} {ext : List String} {inner : List AssetProblem} {gridI : List Nat} {lp : LinkP}
    {u s T : Nat} {aCols : Option Nat} {a : AssetProblem}
    (h : linkedAsset name ext inner gridI lp u s T aCols = .ok a) :
    a.c = (structured name ext inner gridI).c ∧ a.l = (structured name ext inner gridI).l := by
  unfold linkedAsset at h
  exact buildLinked_c h

/-- `__make_periodic__` compacts cost and bounds along the same list of kept variables -/
theorem makePeriodic_len {P : AssetProblem} {labels : List (Nat × Nat × Nat)} {Q : AssetProblem}
    (h : makePeriodic P labels = .ok Q) : Q.l.length = Q.c.length := by
  unfold makePeriodic at h
  simp only at h
  split at h
  · cases h
  · split at h
    · cases h
    · split at h
      · cases h
      · simp only [Except.ok.injEq] at h; subst h; simp

/-! ## Part G: lists of assets -/

theorem buildAll_cons_ok {s : CSpec} {ss : List CSpec} {pr : Prices} {as : List AssetProblem}
    (h : CSpec.buildAll (s :: ss) pr = .ok as) :
    ∃ a rest, s.build pr = .ok a ∧ CSpec.buildAll ss pr = .ok rest ∧ as = a :: rest := by
  rw [CSpec.buildAll] at h
  obtain ⟨a, ha, h⟩ := bind_eq_ok h
  obtain ⟨rest, hr, h⟩ := bind_eq_ok h
  simp only [pure, Except.pure, Except.ok.injEq] at h
  exact ⟨a, rest, ha, hr, h.symm⟩

theorem buildAll_nil (pr : Prices) : CSpec.buildAll [] pr = .ok [] := by
  rw [CSpec.buildAll]; rfl

theorem buildAll_length {ss : List CSpec} {pr : Prices} {as : List AssetProblem}
    (h : CSpec.buildAll ss pr = .ok as) : as.length = ss.length := by
  induction ss generalizing as with
  | nil => rw [buildAll_nil] at h; cases h; rfl
  | cons s ss ih =>
    obtain ⟨a, rest, _, hr, rfl⟩ := buildAll_cons_ok h
    simp [ih hr]

/-- asset by asset: if every cost-only branch returns the cost vector of the asset's problem, the list does -/
theorem assetCostVectors_of_build {ss : List CSpec} {pr : Prices} {as : List AssetProblem}
    (h : CSpec.buildAll ss pr = .ok as)
    (hco : ∀ s ∈ ss, ∀ a, s.build pr = .ok a → s.costsOnly pr = .ok a.c) :
    assetCostVectors ss pr = .ok (as.map (·.c)) := by
  induction ss generalizing as with
  | nil => rw [buildAll_nil] at h; cases h; rfl
  | cons s ss ih =>
    obtain ⟨a, rest, ha, hr, rfl⟩ := buildAll_cons_ok h
    unfold assetCostVectors
    rw [hco s (List.mem_cons_self) a ha, bind_ok,
      ih hr (fun s' hs' => hco s' (List.mem_cons_of_mem _ hs')), bind_ok]
    rfl

theorem flatten_lengths {α : Type} (L : List (List α)) : L.flatten.length = (L.map List.length).sum := by
  induction L with
  | nil => rfl
  | cons x xs ih => simp [ih]

/-- block `k` of a concatenation -/
theorem flatten_block {α : Type} (pre : List (List α)) (x : List α) (suf : List (List α)) :
    ((pre ++ x :: suf).flatten.drop (pre.map List.length).sum).take x.length = x := by
  rw [List.flatten_append, List.flatten_cons, ← flatten_lengths, List.drop_left, List.take_left]

theorem assetCostVectors_append {pre : List CSpec} {s : CSpec} {suf : List CSpec} {pr : Prices} {cs : List (List Rat)}
    (h : assetCostVectors (pre ++ s :: suf) pr = .ok cs) :
    ∃ cpre ck csuf, assetCostVectors pre pr = .ok cpre ∧ s.costsOnly pr = .ok ck ∧ cs = cpre ++ ck :: csuf := by
  induction pre generalizing cs with
  | nil =>
    rw [List.nil_append] at h
    unfold assetCostVectors at h
    obtain ⟨ck, hk, h⟩ := bind_eq_ok h
    obtain ⟨rest, _, h⟩ := bind_eq_ok h
    simp only [pure, Except.pure, Except.ok.injEq] at h
    exact ⟨[], ck, rest, rfl, hk, h.symm⟩
  | cons t pre ih =>
    rw [List.cons_append] at h
    rw [assetCostVectors] at h
    obtain ⟨ct, ht, h⟩ := bind_eq_ok h
    obtain ⟨rest, hrest, h⟩ := bind_eq_ok h
    simp only [pure, Except.pure, Except.ok.injEq] at h
    obtain ⟨cpre, ck, csuf, hpre, hk, rfl⟩ := ih hrest
    refine ⟨ct :: cpre, ck, csuf, ?_, hk, by rw [← h]; rfl⟩
    rw [assetCostVectors, ht, bind_ok, hpre, bind_ok]; rfl

/-! ## Part H: the number of variables and the prices -/

/-- the cost part of a simple contract as a function of the parameter vectors and the price vector -/
def costOfVectors (cv : Except BuildError (List (Option Rat) × List (Option Rat) × List (Option Rat))) (price : List Rat)
    (g : Grid) : Except BuildError (List Rat) := do
  let (minO, maxO, ecO) ← cv
  let ec ← allSome ecO
  if oneVariableO ec minO maxO then
    pure (List.zipWith (· * ·) (oneVarPriceO price ec minO maxO) g.df)
  else
    pure (List.zipWith (· * ·) (List.zipWith (· - ·) price ec) g.df
          ++ List.zipWith (· * ·) (List.zipWith (· + ·) price ec) g.df)

theorem simpleCostCore_eq (p : ContractP) (g : Grid) (prices : Prices) (price : List Rat) :
    simpleCostCore p g prices price = costOfVectors (contractVectors p g prices) price g := rfl

theorem oneVarPriceO_length (price price' ec : List Rat) (minO maxO : List (Option Rat)) (h : price.length = price'.length) :
    (oneVarPriceO price ec minO maxO).length = (oneVarPriceO price' ec minO maxO).length := by
  unfold oneVarPriceO
  split
  · split <;> split <;> simp [h]
  · exact h

theorem costOfVectors_length {cv : Except BuildError (List (Option Rat) × List (Option Rat) × List (Option Rat))}
    {price price' : List Rat} {g : Grid} {c c' : List Rat} (hl : price.length = price'.length)
    (h : costOfVectors cv price g = .ok c) (h' : costOfVectors cv price' g = .ok c') : c.length = c'.length := by
  unfold costOfVectors at h h'
  cases cv with
  | error e => simp [bind, Except.bind] at h
  | ok v =>
    obtain ⟨minO, maxO, ecO⟩ := v
    simp only [bind, Except.bind] at h h'
    cases he : allSome ecO with
    | error e => rw [he] at h; simp at h
    | ok ec =>
      rw [he] at h h'
      simp only at h h'
      by_cases hone : oneVariableO ec minO maxO = true
      · rw [if_pos hone] at h h'
        simp only [pure, Except.pure, Except.ok.injEq] at h h'
        subst h; subst h'
        simp only [List.length_zipWith, oneVarPriceO_length price price' ec minO maxO hl]
      · rw [if_neg hone] at h h'
        simp only [pure, Except.pure, Except.ok.injEq] at h h'
        subst h; subst h'
        simp only [List.length_append, List.length_zipWith, hl]

theorem baseVector_price_free {v : ParamValue} (hk : v.isKey = false) (g : Grid) (pr pr' : Prices) (d : Option Rat) :
    baseVector v g pr d = baseVector v g pr' d := by
  cases v with
  | key k => simp [ParamValue.isKey] at hk
  | scalar s => rfl
  | array vs => rfl
  | intervals ivs => rfl

theorem makeVector_price_free {v : ParamValue} (hk : v.isKey = false) (g : Grid) (pr pr' : Prices) (d : Option Rat) (cv : Bool) :
    makeVector v g pr d cv = makeVector v g pr' d cv := by
  unfold makeVector; rw [baseVector_price_free hk g pr pr' d]

theorem contractVectors_price_free {p : ContractP} (h1 : p.extraCosts.isKey = false) (h2 : p.minCap.isKey = false)
    (h3 : p.maxCap.isKey = false) (g : Grid) (pr pr' : Prices) : contractVectors p g pr = contractVectors p g pr' := by
  unfold contractVectors
  rw [makeVector_price_free h3 g pr pr', makeVector_price_free h2 g pr pr', makeVector_price_free h1 g pr pr']

theorem priceVector_len {key : Option String} {g : Grid} {prices : Prices} {fullT : Nat} {r : List Rat}
    (h : priceVector key g prices fullT = .ok r) : r.length = g.idx.length := by
  have hs : ∀ arr : List Rat, sample arr g.idx = .ok r → r.length = g.idx.length := by
    intro arr hs
    unfold sample at hs
    split at hs
    · simp only [pure, Except.pure, Except.ok.injEq] at hs; subst hs; simp
    · exact absurd hs throw_ne_ok
  unfold priceVector at h
  cases key with
  | none => exact hs _ h
  | some k =>
    simp only at h
    cases hl : prices.lookup k with
    | none => rw [hl] at h; exact absurd h throw_ne_ok
    | some arr =>
      rw [hl] at h
      simp only at h
      split at h
      · exact hs _ h
      · exact absurd h throw_ne_ok

/-- the number of variables of a simple contract without key parameters does not depend on the prices -/
theorem simple_shape_price_free {p : ContractP} {g : Grid} {pr pr' : Prices} {fullT : Nat} {a a' : AssetProblem}
    (h1 : p.extraCosts.isKey = false) (h2 : p.minCap.isKey = false) (h3 : p.maxCap.isKey = false)
    (h : buildSimpleContract p g pr fullT = .ok a) (h' : buildSimpleContract p g pr' fullT = .ok a') :
    a.c.length = a'.c.length := by
  have hc := simple_cost h
  have hc' := simple_cost h'
  rw [costsOnlySimpleContract_eq_core] at hc hc'
  split at hc
  · exact absurd hc throw_ne_ok
  · rename_i hill
    rw [if_neg hill] at hc'
    obtain ⟨price, hp, hc⟩ := bind_eq_ok hc
    obtain ⟨price', hp', hc'⟩ := bind_eq_ok hc'
    rw [simpleCostCore_eq] at hc hc'
    rw [contractVectors_price_free h1 h2 h3 g pr' pr] at hc'
    exact costOfVectors_length (by rw [priceVector_len hp, priceVector_len hp']) hc hc'

theorem storage_shape_price_free {p : StorageP} {g : Grid} {T : Nat} {pr pr' : Prices} {a a' : AssetProblem}
    (h : buildStorage p g T pr = .ok a) (h' : buildStorage p g T pr' = .ok a') : a.c.length = a'.c.length := by
  have hc := storage_cost h
  have hc' := storage_cost h'
  unfold costsOnlyStorage at hc hc'
  generalize a.c = c at hc
  generalize a'.c = c' at hc'
  split at hc
  · rename_i h0
    rw [if_pos h0] at hc'
    cases hc; cases hc'; rfl
  · rename_i h0
    rw [if_neg h0] at hc'
    split at hc
    · cases hc
    · split at hc'
      · cases hc'
      · cases hc; cases hc'
        simp only [Storage.costVec, List.length_append, List.length_map, List.length_range]
        split <;> simp

/-! ## Part I: as many bounds as costs -/

theorem sum_lengths_eq {as : List AssetProblem} (h : ∀ a ∈ as, a.l.length = a.c.length) :
    ((as.map (·.l)).flatten).length = ((as.map (·.c)).flatten).length := by
  induction as with
  | nil => rfl
  | cons a as ih =>
    simp only [List.map_cons, List.flatten_cons, List.length_append]
    rw [h a List.mem_cons_self, ih (fun b hb => h b (List.mem_cons_of_mem _ hb))]

theorem orderBookRaw_len {name node : String} {starts stops : List Int} {capas prices : List (Option Rat)} {fullExec : Bool}
    {g : Grid} {a : AssetProblem} (h : buildOrderBookRaw name node starts stops capas prices fullExec g = .ok a) :
    a.l.length = a.c.length := by
  unfold buildOrderBookRaw at h
  split at h
  · cases h
  · simp only at h
    split at h
    · cases h
    · simp only [buildOrderBook, Except.ok.injEq] at h
      subst h
      simp [orderBookProblem]

theorem storage_len {p : StorageP} {g : Grid} {T : Nat} {prices : Prices} {a : AssetProblem}
    (h : mkStorage p g T prices = .ok a) : a.l.length = a.c.length := by
  unfold mkStorage at h
  split at h
  · unfold buildStorage at h
    split at h
    · simp only [Except.ok.injEq] at h; subst h; rfl
    · split at h
      · cases h
      · split at h
        · cases h
        · split at h
          · cases h
          · simp only [Except.ok.injEq] at h; subst h
            simp only [lowerVec_length, costVec_length]
  · exact absurd h throw_ne_ok

theorem scaled_len (p : ScaledP) (base : AssetProblem) (dtSum : Rat) (h : base.l.length = base.c.length) :
    (buildScaled p base dtSum).l.length = (buildScaled p base dtSum).c.length := by
  unfold buildScaled
  split
  · exact h
  · simp [buildScaledCore, mapAt, h]


/-! ### the error side of the CHP family -/

/-- the set-up is the cost-only resolution followed by the late checks -/
theorem resolveCHPWith_false_eq (p : CHPP) (base : AssetProblem) (g : Grid) (pr : Prices) (u s : Nat) :
    resolveCHPWith p base g pr u s false
      = (resolveCHPWith p base g pr u s true >>= fun o => match o with
          | none => pure none
          | some r => chpLateChecks r >>= fun _ => pure (some r)) := by
  unfold resolveCHPWith
  cases chpCtor p with
  | error e => rfl
  | ok hf =>
    simp only [bind, Except.bind]
    by_cases hT : g.T = 0
    · simp only [hT, if_true]; rfl
    · simp only [hT, if_false]
      by_cases hm : p.freqMismatch = true
      · simp only [hm, if_true]; rfl
      · simp only [hm, if_false, Bool.false_eq_true]
        cases chpVectors p g pr hf.1 hf.2 with
        | error e => rfl
        | ok v =>
          simp only
          cases chpCostCheck (mkCHPR p base g hf.1 hf.2 v u s 0 false) with
          | error e => rfl
          | ok _ => rfl

theorem chp_error_side {p : CHPP} {base : AssetProblem} {g : Grid} {pr : Prices} {u s : Nat} {c : List Rat}
    (h : costsOnlyCHP p base g pr u s = .ok c) :
    (∃ a, buildCHP p base g pr u s = .ok a ∧ a.c = c) ∨
    (∃ r e, resolveCHPWith p base g pr u s true = .ok (some r) ∧ chpLateChecks r = .error e ∧
        buildCHP p base g pr u s = .error e) := by
  unfold costsOnlyCHP at h
  obtain ⟨o, ho, h⟩ := bind_eq_ok h
  unfold buildCHP resolveCHP
  rw [resolveCHPWith_false_eq, ho, bind_ok]
  cases o with
  | none =>
    simp only [pure, Except.pure, Except.ok.injEq] at h
    exact Or.inl ⟨base, rfl, h⟩
  | some r =>
    simp only [pure, Except.pure, Except.ok.injEq] at h
    cases hl : chpLateChecks r with
    | error e => exact Or.inr ⟨r, e, rfl, hl, by simp only [hl]; rfl⟩
    | ok _ => exact Or.inl ⟨assembleCHP r, by simp only [hl]; rfl, h⟩

theorem addMinLoad_cases (a : AssetProblem) (g : Grid) (thr costs : List Rat) :
    (∃ b, addMinLoad a g thr costs = .ok b ∧ b.c = a.c ++ costs) ∨ addMinLoad a g thr costs = .error .assertion ∨
      addMinLoad a g thr costs = .error .index := by
  cases h : addMinLoad a g thr costs with
  | ok b => exact Or.inl ⟨b, rfl, addMinLoad_c h⟩
  | error e =>
    right
    unfold addMinLoad at h
    simp only [bind, Except.bind] at h
    split at h
    · simp only [throw, throwThe, MonadExceptOf.throw, Except.error.injEq] at h; exact Or.inl (by rw [h])
    · split at h
      · simp only [throw, throwThe, MonadExceptOf.throw, Except.error.injEq] at h; exact Or.inr (by rw [h])
      · simp [pure, Except.pure] at h

theorem minload_error_side {m : MinLoadP} {a : AssetProblem} {g : Grid} {pr : Prices} {c : List Rat}
    (h : costsOnlyMinLoad m a.c g pr = .ok c) :
    (∃ b, buildMinLoad m a g pr = .ok b ∧ b.c = c) ∨ buildMinLoad m a g pr = .error .assertion ∨
      buildMinLoad m a g pr = .error .index := by
  unfold costsOnlyMinLoad at h
  unfold buildMinLoad
  by_cases hT : g.T = 0
  · simp only [hT, if_true, pure, Except.pure, Except.ok.injEq] at h ⊢
    exact Or.inl ⟨a, rfl, h⟩
  · simp only [hT, if_false] at h ⊢
    obtain ⟨thr, ht, h⟩ := bind_eq_ok h
    obtain ⟨cs, hcs, h⟩ := bind_eq_ok h
    rw [ht, hcs, bind_ok, bind_ok]
    cases hact : minLoadActive thr cs with
    | none =>
      rw [hact] at h
      simp only [pure, Except.pure, Except.ok.injEq] at h ⊢
      exact Or.inl ⟨a, rfl, h⟩
    | some tc =>
      obtain ⟨t, cc⟩ := tc
      rw [hact] at h
      simp only [pure, Except.pure, Except.ok.injEq] at h ⊢
      rcases addMinLoad_cases a g t cc with ⟨b, hb, hbc⟩ | he | he
      · exact Or.inl ⟨b, hb, by rw [hbc, h]⟩
      · exact Or.inr (Or.inl he)
      · exact Or.inr (Or.inr he)

end EAO.CostsOnly
