import EAO.Model.Lagrange
import EAO.Model.Readout
/-! helper lemmas for the Lagrangian bound (C03, C18) -/
namespace EAO

/-! ### sums over `Rat` -/

theorem lg_sum_map_add {α} (l : List α) (f g : α → Rat) :
    (l.map fun a => f a + g a).sum = (l.map f).sum + (l.map g).sum := by
  induction l with
  | nil => simp [Rat.zero_add]
  | cons a l ih => simp only [List.map_cons, List.sum_cons, ih]; grind

theorem lg_sum_map_mul_left {α} (l : List α) (k : Rat) (f : α → Rat) :
    (l.map fun a => k * f a).sum = k * (l.map f).sum := by
  induction l with
  | nil => simp
  | cons a l ih => simp only [List.map_cons, List.sum_cons, ih]; grind

theorem lg_sum_map_le {α} (l : List α) (f g : α → Rat) (h : ∀ a ∈ l, f a ≤ g a) :
    (l.map f).sum ≤ (l.map g).sum := by
  induction l with
  | nil => simp
  | cons a l ih =>
    have h1 := h a (by simp)
    have h2 := ih (fun b hb => h b (by simp [hb]))
    simp only [List.map_cons, List.sum_cons]; grind

theorem lg_sum_map_zero {α} (l : List α) : (l.map fun _ => (0 : Rat)).sum = 0 := by
  induction l with
  | nil => simp
  | cons a l ih => simp only [List.map_cons, List.sum_cons, ih]; grind

theorem sum_append_rat (u v : List Rat) : (u ++ v).sum = u.sum + v.sum := by
  induction u with
  | nil => simp [Rat.zero_add]
  | cons b u ihu => simp only [List.cons_append, List.sum_cons, ihu]; grind

/-- indicator sum over `range n` -/
theorem sum_indicator (n k : Nat) (hk : k < n) (a : Rat) (x : Vec) :
    ((List.range n).map fun j => (if k = j then a else 0) * x j).sum = a * x k := by
  induction n with
  | zero => omega
  | succ n ih =>
    rw [List.range_succ, List.map_append, sum_append_rat]
    by_cases hkn : k = n
    · subst hkn
      have h0 : ((List.range k).map fun j => (if k = j then a else 0) * x j).sum = 0 := by
        have : ((List.range k).map fun j => (if k = j then a else 0) * x j)
            = (List.range k).map fun _ => (0:Rat) := by
          apply List.map_congr_left
          intro j hj
          have : k ≠ j := by have := List.mem_range.mp hj; omega
          simp [this]
        rw [this, lg_sum_map_zero]
      simp only [List.map_cons, List.map_nil, List.sum_cons, List.sum_nil, h0]
      grind
    · have := ih (by omega)
      simp only [List.map_cons, List.map_nil, List.sum_cons, List.sum_nil, this]
      grind

/-! ### dense reading of sparse rows, exchange of summation -/

theorem eval_dense_aux (cs : List (Nat × Rat)) (n : Nat) (h : ∀ p ∈ cs, p.1 < n) (x : Vec) :
    (cs.map fun p => p.2 * x p.1).sum
      = ((List.range n).map fun j => (cs.map fun p => if p.1 = j then p.2 else 0).sum * x j).sum := by
  induction cs with
  | nil =>
    have : (fun j => ((([] : List (Nat × Rat)).map fun p => if p.1 = j then p.2 else 0).sum * x j))
        = fun _ => (0 : Rat) := by
      funext j; simp
    rw [this, lg_sum_map_zero]; simp
  | cons p ps ih =>
    have hp := h p (by simp)
    have ih' := ih (fun q hq => h q (by simp [hq]))
    simp only [List.map_cons, List.sum_cons]
    rw [ih']
    have : (fun j => ((if p.1 = j then p.2 else 0) + (ps.map fun q => if q.1 = j then q.2 else 0).sum) * x j)
         = (fun j => (if p.1 = j then p.2 else 0) * x j
                      + (ps.map fun q => if q.1 = j then q.2 else 0).sum * x j) := by
      funext j; grind
    rw [this, lg_sum_map_add, sum_indicator n p.1 hp]

theorem Row.eval_dense (r : Row) (n : Nat) (h : ∀ p ∈ r.coeffs, p.1 < n) (x : Vec) :
    r.eval x = ((List.range n).map fun j => r.coef j * x j).sum :=
  eval_dense_aux r.coeffs n h x

theorem exchange (ry : List (Row × Rat)) (n : Nat) (x : Vec) :
    (ry.map fun q => q.2 * ((List.range n).map fun j => q.1.coef j * x j).sum).sum
      = ((List.range n).map fun j => (ry.map fun q => q.2 * q.1.coef j).sum * x j).sum := by
  induction ry with
  | nil =>
    have : (fun j => ((([] : List (Row × Rat)).map fun q => q.2 * q.1.coef j).sum * x j))
        = fun _ => (0 : Rat) := by
      funext j; simp
    rw [this, lg_sum_map_zero]; simp
  | cons q qs ih =>
    simp only [List.map_cons, List.sum_cons, ih]
    rw [← lg_sum_map_mul_left, ← lg_sum_map_add]
    congr 1
    apply List.map_congr_left
    intro j _
    grind

/-! ### the objective as a sum over `range` -/

theorem costAt_eq_sum (c : List Rat) (off : Nat) (x : Vec) :
    costAt c off x = ((List.range c.length).map fun j => c.getD j 0 * x (off + j)).sum := by
  induction c generalizing off with
  | nil => simp [costAt]
  | cons a cs ih =>
    rw [costAt, ih (off + 1), List.length_cons, List.range_succ_eq_map, List.map_cons,
      List.sum_cons, List.map_map]
    congr 1
    congr 1
    apply List.map_congr_left
    intro j _
    have : off + 1 + j = off + (j + 1) := by omega
    simp [this]

theorem Problem.value_eq_sum (P : Problem) (x : Vec) :
    P.value x = - ((List.range P.n).map fun j => P.c.getD j 0 * x j).sum := by
  unfold Problem.value Problem.n
  rw [costAt_eq_sum]
  simp

/-! ### termwise inequalities -/

theorem box_term (k l u x : Rat) (h1 : l ≤ x) (h2 : x ≤ u) : k * x ≤ max (k * l) (k * u) := by
  by_cases hk : 0 ≤ k
  · have := Rat.mul_le_mul_of_nonneg_left h2 hk
    grind
  · have hk' : 0 ≤ -k := by grind
    have := Rat.mul_le_mul_of_nonneg_left h1 hk'
    grind

theorem row_term (r : Row) (y : Rat) (x : Vec) (hs : r.SignOK y) (hx : r.Sat x) :
    y * r.eval x ≤ y * r.rhs := by
  unfold Row.SignOK at hs; unfold Row.Sat at hx
  cases hk : r.kind <;> simp [hk] at hs hx
  · exact Rat.mul_le_mul_of_nonneg_left hx hs
  · have h' : 0 ≤ -y := by grind
    have := Rat.mul_le_mul_of_nonneg_left hx h'
    grind
  · rw [hx]; exact Rat.le_refl
  · rw [hx]; exact Rat.le_refl

/-! ### the bound -/

theorem lagrangian_bound_aux (P : Problem) (y : List Rat) (hwf : P.WFCols) (hy : SignOK P.rows y)
    (x : Vec) (hx : P.FeasibleRelaxed x) : P.value x ≤ lagrangianUB P y := by
  obtain ⟨hl, hu, hidx⟩ := hwf
  obtain ⟨_, hsign⟩ := hy
  obtain ⟨hbox, hrows⟩ := hx
  have hmem : ∀ q ∈ P.rows.zip y, q.1 ∈ P.rows := fun q hq => (List.of_mem_zip hq).1
  -- Σ_i y_i eval_i x  ≤  Σ_i y_i rhs_i
  have h1 : ((P.rows.zip y).map fun q => q.2 * q.1.eval x).sum
      ≤ ((P.rows.zip y).map fun q => q.2 * q.1.rhs).sum :=
    lg_sum_map_le _ _ _ (fun q hq => row_term q.1 q.2 x (hsign q hq) (hrows q.1 (hmem q hq)))
  -- Σ_i y_i eval_i x = Σ_j colDot_j x_j
  have h2 : ((P.rows.zip y).map fun q => q.2 * q.1.eval x).sum
      = ((List.range P.n).map fun j => colDot P.rows y j * x j).sum := by
    unfold colDot
    rw [← exchange]
    congr 1
    apply List.map_congr_left
    intro q hq
    rw [Row.eval_dense q.1 P.n (hidx q.1 (hmem q hq)) x]
  -- Σ_j red_j x_j ≤ Σ_j max(...)
  have h3 : ((List.range P.n).map fun j => reducedCost P y j * x j).sum
      ≤ ((List.range P.n).map fun j =>
          max (reducedCost P y j * P.l.getD j 0) (reducedCost P y j * P.u.getD j 0)).sum :=
    lg_sum_map_le _ _ _ (fun j hj => by
      have hb := hbox j (by rw [hl]; exact List.mem_range.mp hj)
      exact box_term _ _ _ _ hb.1 hb.2)
  -- value = Σ_j red_j x_j + Σ_j colDot_j x_j
  have h4 : P.value x = ((List.range P.n).map fun j => reducedCost P y j * x j).sum
                        + ((List.range P.n).map fun j => colDot P.rows y j * x j).sum := by
    rw [Problem.value_eq_sum, ← lg_sum_map_add]
    have : (fun j => reducedCost P y j * x j + colDot P.rows y j * x j)
        = (fun j => (-1) * (P.c.getD j 0 * x j)) := by
      funext j; unfold reducedCost; grind
    rw [this, lg_sum_map_mul_left]; grind
  unfold lagrangianUB
  rw [h4, ← h2]
  grind

/-! ### perturbing a right-hand side -/

theorem perturbRows_length (rows : List Row) (i : Nat) (δ : Rat) :
    (perturbRows rows i δ).length = rows.length := by
  induction rows generalizing i with
  | nil => simp [perturbRows]
  | cons r rs ih => cases i <;> simp [perturbRows, ih]

theorem colDot_perturbRows (rows : List Row) (i : Nat) (δ : Rat) (y : List Rat) (j : Nat) :
    colDot (perturbRows rows i δ) y j = colDot rows y j := by
  unfold colDot
  induction rows generalizing i y with
  | nil => simp [perturbRows]
  | cons r rs ih =>
    cases y with
    | nil => simp
    | cons a ys =>
      cases i with
      | zero => simp [perturbRows, Row.coef]
      | succ i =>
        simp only [perturbRows, List.zip_cons_cons, List.map_cons, List.sum_cons, ih]

theorem rhsDot_perturbRows (rows : List Row) (i : Nat) (δ : Rat) (y : List Rat)
    (hi : i < rows.length) :
    (((perturbRows rows i δ).zip y).map fun q => q.2 * q.1.rhs).sum
      = ((rows.zip y).map fun q => q.2 * q.1.rhs).sum + y.getD i 0 * δ := by
  induction rows generalizing i y with
  | nil => simp at hi
  | cons r rs ih =>
    cases y with
    | nil => simp; grind
    | cons a ys =>
      cases i with
      | zero =>
        simp only [perturbRows, List.zip_cons_cons, List.map_cons, List.sum_cons,
          List.getD_cons_zero]
        grind
      | succ i =>
        have := ih i ys (by simpa using hi)
        simp only [perturbRows, List.zip_cons_cons, List.map_cons, List.sum_cons,
          List.getD_cons_succ, this]
        grind

theorem mem_perturbRows {rows : List Row} {i : Nat} {δ : Rat} {r' : Row}
    (h : r' ∈ perturbRows rows i δ) : ∃ r ∈ rows, r'.coeffs = r.coeffs ∧ r'.kind = r.kind := by
  induction rows generalizing i with
  | nil => simp [perturbRows] at h
  | cons r rs ih =>
    cases i with
    | zero =>
      simp only [perturbRows, List.mem_cons] at h
      rcases h with h | h
      · exact ⟨r, by simp, by simp [h], by simp [h]⟩
      · exact ⟨r', by simp [h], rfl, rfl⟩
    | succ i =>
      simp only [perturbRows, List.mem_cons] at h
      rcases h with h | h
      · exact ⟨r', by simp [h], rfl, rfl⟩
      · obtain ⟨r0, hr0, h1, h2⟩ := ih h
        exact ⟨r0, by simp [hr0], h1, h2⟩

theorem mem_zip_perturbRows {rows : List Row} {i : Nat} {δ : Rat} {y : List Rat} {q : Row × Rat}
    (h : q ∈ (perturbRows rows i δ).zip y) : ∃ q0 ∈ rows.zip y, q.1.kind = q0.1.kind ∧ q.2 = q0.2 := by
  induction rows generalizing i y with
  | nil => simp [perturbRows] at h
  | cons r rs ih =>
    cases y with
    | nil => simp at h
    | cons a ys =>
      cases i with
      | zero =>
        simp only [perturbRows, List.zip_cons_cons, List.mem_cons] at h
        rcases h with h | h
        · exact ⟨(r, a), by simp, by simp [h], by simp [h]⟩
        · exact ⟨q, by simp [h], rfl, rfl⟩
      | succ i =>
        simp only [perturbRows, List.zip_cons_cons, List.mem_cons] at h
        rcases h with h | h
        · exact ⟨q, by simp [h], rfl, rfl⟩
        · obtain ⟨q0, hq0, h1, h2⟩ := ih h
          exact ⟨q0, by simp [hq0], h1, h2⟩

theorem Problem.WFCols_perturbRhs {P : Problem} (h : P.WFCols) (i : Nat) (δ : Rat) :
    (P.perturbRhs i δ).WFCols := by
  obtain ⟨hl, hu, hidx⟩ := h
  refine ⟨hl, hu, ?_⟩
  intro r' hr' p hp
  obtain ⟨r, hr, hc, _⟩ := mem_perturbRows (show r' ∈ perturbRows P.rows i δ from hr')
  rw [hc] at hp
  exact hidx r hr p hp

theorem SignOK_perturbRows {rows : List Row} {y : List Rat} (h : SignOK rows y) (i : Nat) (δ : Rat) :
    SignOK (perturbRows rows i δ) y := by
  obtain ⟨hlen, hs⟩ := h
  refine ⟨by rw [perturbRows_length]; exact hlen, ?_⟩
  intro q hq
  obtain ⟨q0, hq0, hk, h2⟩ := mem_zip_perturbRows hq
  have := hs q0 hq0
  unfold Row.SignOK at this ⊢
  rw [hk, h2]; exact this

theorem lagrangianUB_perturbRhs (P : Problem) (y : List Rat) (i : Nat) (δ : Rat)
    (hi : i < P.rows.length) :
    lagrangianUB (P.perturbRhs i δ) y = lagrangianUB P y + y.getD i 0 * δ := by
  unfold lagrangianUB
  have hred : ∀ j, reducedCost (P.perturbRhs i δ) y j = reducedCost P y j := by
    intro j; unfold reducedCost
    show - P.c.getD j 0 - colDot (perturbRows P.rows i δ) y j = _
    rw [colDot_perturbRows]
  simp only [hred]
  show (((perturbRows P.rows i δ).zip y).map fun q => q.2 * q.1.rhs).sum + _ = _
  rw [rhsDot_perturbRows _ _ _ _ hi]
  show _ + ((List.range P.n).map fun j =>
      max (reducedCost P y j * P.l.getD j 0) (reducedCost P y j * P.u.getD j 0)).sum = _
  grind

/-! ### read-out of nodal prices -/

theorem nodalPrices_getD (nodal : List (Nat × String)) (dualN : List Rat) (k : Nat)
    (hk : k < nodal.length) (d : (Nat × String) × Rat) :
    ((nodalPrices nodal dualN).getD k d).2 = - dualN.getD k 0 := by
  unfold nodalPrices
  rw [List.getD_eq_getElem?_getD, List.getElem?_eq_getElem (by simpa using hk)]
  simp

end EAO
