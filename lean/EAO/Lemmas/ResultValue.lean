import EAO.Model.ResultValue
import EAO.Lemmas.Accounting
import EAO.Lemmas.Blocks
/-! helper lemmas for `EAO/Properties/C04Result.lean`: Python's left-to-right `sum(x*c)` is `c·x`, the two readings of
    `target.lower()`, the accumulator loop of `SplitOptimProblem.optimize` -/
namespace EAO.ResultValue
open EAO

/-- a left fold that adds up is the start value plus the sum -/
theorem foldl_add_eq_sum {α : Type} (f : α → Rat) (l : List α) (a : Rat) :
    l.foldl (fun acc j => acc + f j) a = a + (l.map f).sum := by
  induction l generalizing a with
  | nil => simp [Rat.add_zero]
  | cons b bs ih =>
    simp only [List.foldl_cons, List.map_cons, List.sum_cons, ih]
    grind

/-- `sum(x * c)` (from the left, `x_j * c_j`) is `c·x` -/
theorem dotXC_eq_costAt (c : List Rat) (x : Vec) : dotXC c x = costAt c 0 x := by
  unfold dotXC
  rw [foldl_add_eq_sum, costAt_eq_sum_range]
  have : ((List.range c.length).map fun j => x j * c.getD j 0)
      = (List.range c.length).map fun j => c.getD j 0 * x (0 + j) := by
    apply List.map_congr_left
    intro j _
    rw [Nat.zero_add]
    grind
  rw [this]
  grind

theorem neg_dotXC_eq_value (P : Problem) (x : Vec) : - dotXC P.c x = P.value x := by
  rw [dotXC_eq_costAt]; rfl

/-- the two words are different -/
theorem value_ne_robust : (['v', 'a', 'l', 'u', 'e'] : List Char) ≠ ['r', 'o', 'b', 'u', 's', 't'] := by decide

theorem parseTarget_value (t : String) (h : lowerWord t = ['v', 'a', 'l', 'u', 'e']) :
    parseTarget t = some .value := by
  simp [parseTarget, h]

theorem parseTarget_robust (t : String) (h : lowerWord t = ['r', 'o', 'b', 'u', 's', 't']) :
    parseTarget t = some .robust := by
  have hne : lowerWord t ≠ ['v', 'a', 'l', 'u', 'e'] := by rw [h]; exact fun e => value_ne_robust e.symm
  simp [parseTarget, h]

theorem parseTarget_eq_value (t : String) : parseTarget t = some .value ↔ lowerWord t = ['v', 'a', 'l', 'u', 'e'] := by
  constructor
  · intro h
    unfold parseTarget at h
    split at h
    · assumption
    · split at h <;> simp at h
  · exact parseTarget_value t

theorem parseTarget_eq_robust (t : String) :
    parseTarget t = some .robust ↔ lowerWord t = ['r', 'o', 'b', 'u', 's', 't'] := by
  constructor
  · intro h
    unfold parseTarget at h
    split at h
    · simp at h
    · split at h
      · assumption
      · simp at h
  · exact parseTarget_robust t

theorem parseTarget_eq_none (t : String) :
    parseTarget t = none ↔ lowerWord t ≠ ['v', 'a', 'l', 'u', 'e'] ∧ lowerWord t ≠ ['r', 'o', 'b', 'u', 's', 't'] := by
  constructor
  · intro h
    unfold parseTarget at h
    split at h
    · simp at h
    · split at h
      · simp at h
      · exact ⟨by assumption, by assumption⟩
  · intro ⟨h1, h2⟩
    simp [parseTarget, h1, h2]

/-- value target: the field keeps the solver's number -/
theorem resultValue_value (t : String) (h : lowerWord t = ['v', 'a', 'l', 'u', 'e']) (P : Problem) (x : Vec) (o : Rat) :
    resultValue t P x o = some o := by
  have hne : lowerWord t ≠ ['r', 'o', 'b', 'u', 's', 't'] := by rw [h]; exact value_ne_robust
  simp [resultValue, parseTarget_value t h, hne]

/-- robust target: the field is overwritten -/
theorem resultValue_robust (t : String) (h : lowerWord t = ['r', 'o', 'b', 'u', 's', 't']) (P : Problem) (x : Vec)
    (o : Rat) : resultValue t P x o = some (P.value x) := by
  simp [resultValue, parseTarget_robust t h, h, neg_dotXC_eq_value]

theorem resultValue_none (t : String) (h : parseTarget t = none) (P : Problem) (x : Vec) (o : Rat) :
    resultValue t P x o = none := by
  simp [resultValue, h]

/-- the loop of `SplitOptimProblem.optimize` when every interval returns a value -/
theorem splitFrom_eq (t : String) (v : IntervalResult → Rat) (ivs : List IntervalResult) (acc : Rat)
    (h : ∀ iv ∈ ivs, resultValue t iv.P iv.x iv.objective = some (v iv)) :
    splitResultValueFrom t acc ivs = some (acc + (ivs.map v).sum) := by
  induction ivs generalizing acc with
  | nil => simp [splitResultValueFrom, Rat.add_zero]
  | cons iv rest ih =>
    have h0 := h iv (List.mem_cons_self ..)
    simp only [splitResultValueFrom, h0, List.map_cons, List.sum_cons]
    rw [ih (acc + v iv) (fun w hw => h w (List.mem_cons_of_mem _ hw))]
    congr 1
    grind

/-- an unknown target stops the loop at the first interval -/
theorem splitFrom_none (t : String) (h : parseTarget t = none) (iv : IntervalResult) (rest : List IntervalResult)
    (acc : Rat) : splitResultValueFrom t acc (iv :: rest) = none := by
  simp [splitResultValueFrom, resultValue_none t h]

/-- `Char.toLower` twice is `Char.toLower` once -/
theorem toLower_idem (c : Char) : c.toLower.toLower = c.toLower := by
  by_cases h : c.val ≥ 'A'.val ∧ c.val ≤ 'Z'.val
  · have h1 : c.toLower.val = c.val + ('a'.val - 'A'.val) := by
      simp only [Char.toLower, h, and_self, ↓reduceDIte]
    have h2 : ¬ (c.toLower.val ≥ 'A'.val ∧ c.toLower.val ≤ 'Z'.val) := by
      rw [h1]
      have ha : 'A'.val = 65 := by decide
      have hz : 'Z'.val = 90 := by decide
      have hl : 'a'.val = 97 := by decide
      rw [ha, hz] at h ⊢
      rw [hl]
      intro ⟨_, hb⟩
      have h1' := h.1
      have h2' := h.2
      rw [UInt32.le_iff_toNat_le] at hb h2'
      rw [ge_iff_le, UInt32.le_iff_toNat_le] at h1'
      have e : (c.val + (97 - 65)).toNat = c.val.toNat + 32 := by
        rw [UInt32.toNat_add]
        have : (97 - 65 : UInt32).toNat = 32 := by decide
        rw [this]
        have h90 : (90 : UInt32).toNat = 90 := by decide
        rw [h90] at h2'
        omega
      rw [e] at hb
      have h90 : (90 : UInt32).toNat = 90 := by decide
      have h65 : (65 : UInt32).toNat = 65 := by decide
      omega
    show (if h : c.toLower.val ≥ 'A'.val ∧ c.toLower.val ≤ 'Z'.val then _ else c.toLower) = _
    rw [dif_neg h2]
  · have h1 : c.toLower = c := by
      show (if h : c.val ≥ 'A'.val ∧ c.val ≤ 'Z'.val then _ else c) = _
      rw [dif_neg h]
    rw [h1, h1]

/-- lower-casing the lower-cased word changes nothing -/
theorem lowerWord_idem (t : String) : lowerWord (String.ofList (lowerWord t)) = lowerWord t := by
  unfold lowerWord
  rw [String.toList_ofList, List.map_map]
  apply List.map_congr_left
  intro c _
  exact toLower_idem c

end EAO.ResultValue
