import EAO.Spec.Textbook
import EAO.Lemmas.Storage
import EAO.Lemmas.Contract
import EAO.Lemmas.Perm
/-! helper lemmas for C02 (reference equivalence): sums, the composition principle in terms of attainable
    (flows, cash) pairs, flows of mapping blocks, storage rows ⇔ level recursion, tail-sum exchange -/
namespace EAO.Textbook
open EAO EAO.Storage EAO.Perm

/-! ### sums -/

theorem sumN_zero (f : Nat → Rat) : sumN f 0 = 0 := by simp [sumN]

theorem sumN_succ (f : Nat → Rat) (n : Nat) : sumN f (n + 1) = sumN f n + f n := by
  simp only [sumN, List.range_succ, List.map_append, List.sum_append, List.map_cons, List.map_nil, List.sum_cons,
    List.sum_nil]
  grind

theorem sumN_eq_sumTo (f : Nat → Rat) (n : Nat) : sumN f n = sumTo f n := by
  induction n with
  | zero => simp [sumN, sumTo]
  | succ n ih => rw [sumN_succ, sumTo_succ, ih]

theorem sumN_congr (f g : Nat → Rat) (n : Nat) (h : ∀ j, j < n → f j = g j) : sumN f n = sumN g n := by
  rw [sumN_eq_sumTo, sumN_eq_sumTo]; exact sumTo_congr f g n h

theorem sumN_add (f g : Nat → Rat) (n : Nat) : sumN (fun j => f j + g j) n = sumN f n + sumN g n := by
  rw [sumN_eq_sumTo, sumN_eq_sumTo, sumN_eq_sumTo]; exact sumTo_add f g n

theorem sumN_sub (f g : Nat → Rat) (n : Nat) : sumN (fun j => f j - g j) n = sumN f n - sumN g n := by
  induction n with
  | zero => rw [sumN_zero, sumN_zero, sumN_zero]; grind
  | succ n ih => simp only [sumN_succ, ih]; grind

theorem sumN_mul_left (c : Rat) (f : Nat → Rat) (n : Nat) : sumN (fun j => c * f j) n = c * sumN f n := by
  induction n with
  | zero => simp [sumN_zero]
  | succ n ih => simp only [sumN_succ, ih]; grind

theorem sumN_const_zero (n : Nat) : sumN (fun _ => (0 : Rat)) n = 0 := by
  induction n with
  | zero => simp [sumN_zero]
  | succ n ih => simp only [sumN_succ, ih]; grind

theorem sumN_le (f g : Nat → Rat) (n : Nat) (h : ∀ j, j < n → f j ≤ g j) : sumN f n ≤ sumN g n := by
  induction n with
  | zero => simp [sumN_zero]
  | succ n ih =>
    simp only [sumN_succ]
    have := ih (fun j hj => h j (by omega))
    have := h n (by omega)
    grind

/-! ### attainable pairs of an EAO asset problem, refinement -/

/-- the (flows, cash) pairs an asset problem of the MODEL of eaopack can realise: `y` within its bounds and
    rows, flows read through its mapping (`EAO.C09.flow`), cash = minus its cost -/
def attainEAO (a : AssetProblem) : AssetSem :=
  ⟨fun fl c => ∃ y, a.FeasibleRelaxed y ∧ (∀ n t, fl n t = flowOf a n t y) ∧ c = - costAt a.c 0 y⟩

/-- every pair of `S` is matched by a pair of `T` with the same flows and no less cash -/
def Dominated (S T : AssetSem) : Prop := ∀ fl c, S.Attain fl c → ∃ c', c ≤ c' ∧ T.Attain fl c'

/-- the asset problem and the textbook semantics dominate each other -/
def Refines (a : AssetProblem) (S : AssetSem) : Prop := Dominated S (attainEAO a) ∧ Dominated (attainEAO a) S

/-- the same set of pairs -/
def RefinesExactly (a : AssetProblem) (S : AssetSem) : Prop := ∀ fl c, S.Attain fl c ↔ (attainEAO a).Attain fl c

theorem RefinesExactly.refines {a : AssetProblem} {S : AssetSem} (h : RefinesExactly a S) : Refines a S :=
  ⟨fun fl c hs => ⟨c, Rat.le_refl, (h fl c).mp hs⟩, fun fl c hs => ⟨c, Rat.le_refl, (h fl c).mpr hs⟩⟩

/-- the glued point of feasible blocks whose flows balance is feasible for the assembled problem -/
theorem glue_feasible (L : List (AssetProblem × Vec)) (gridI : List Nat) (skip : List String)
    (hl : ∀ a ∈ L.map (·.1), a.l.length = a.n ∧ a.u.length = a.n)
    (hdisp : ∀ a ∈ L.map (·.1), ∀ m ∈ a.mapping, ∀ n, m.kind = .d → m.node = some n → n ∈ a.nodes ∧ m.step ∈ gridI)
    (hcols : ∀ a ∈ L.map (·.1), ∀ r ∈ a.rows, ∀ p ∈ r.coeffs, p.1 < a.n)
    (hvars : ∀ a ∈ L.map (·.1), ∀ m ∈ a.mapping, m.kind = .d → m.var < a.n)
    (hf : ∀ p ∈ L, p.1.FeasibleRelaxed p.2)
    (hbal : ∀ n, n ∉ skip → ∀ t, (L.map fun p => flowOf p.1 n t p.2).sum = 0) :
    (assemble (L.map (·.1)) gridI skip).FeasibleRelaxed (glue L) ∧
    (assemble (L.map (·.1)) gridI skip).value (glue L) = (L.map fun p => - costAt p.1.c 0 p.2).sum ∧
    ∀ n t, ((List.range L.length).map fun i =>
        flowOf ((L.map (·.1)).getD i default) n t (fun j => glue L (blockOffset (L.map (·.1)) i + j)))
      = L.map fun p => flowOf p.1 n t p.2 := by
  have hmem : ∀ p ∈ L, p.1 ∈ L.map (·.1) := fun p hp => List.mem_map.mpr ⟨p, hp, rfl⟩
  have hflows : ∀ n t, ((List.range L.length).map fun i =>
        flowOf ((L.map (·.1)).getD i default) n t (fun j => glue L (blockOffset (L.map (·.1)) i + j)))
      = L.map fun p => flowOf p.1 n t p.2 := fun n t =>
    map_range_glue (fun a y => flowOf a n t y) L
      (fun p hp y hy => flowOf_congr p.1 (hvars _ (hmem p hp)) n t y p.2 hy)
  refine ⟨?_, ?_, hflows⟩
  · rw [feasible_iff _ gridI skip hl hdisp]
    constructor
    · intro i hi
      have hi' : i < L.length := by simpa using hi
      have hpi : L[i] ∈ L := List.getElem_mem hi'
      rw [List.getElem_map]
      rw [feasibleRelaxed_congr (L[i]).1 (hl _ (hmem _ hpi)).1 (hcols _ (hmem _ hpi)) _ (L[i]).2
        (fun j hj => glue_block L i hi' j hj)]
      exact hf _ hpi
    · intro n hs t
      rw [List.length_map, hflows n t]
      exact hbal n hs t
  · rw [value_eq, List.length_map, map_range_glue (fun a y => - costAt a.c 0 y) L
      (fun p _ y hy => by rw [cost_congr p.1 y p.2 hy])]

theorem sum_range_eq_sumN (f : Nat → Rat) (n : Nat) : ((List.range n).map f).sum = sumN f n := rfl

/-- **composition principle for C02** (lemma form): if every asset problem and its textbook semantics dominate
    each other, then every feasible point of the assembled problem is matched by a textbook portfolio point with
    the same flows per asset and no less value, and vice versa -/
theorem portfolio_core (as : List AssetProblem) (sems : List AssetSem) (hlen : sems.length = as.length)
    (gridI : List Nat) (skip : List String)
    (hl : ∀ a ∈ as, a.l.length = a.n ∧ a.u.length = a.n)
    (hdisp : ∀ a ∈ as, ∀ m ∈ a.mapping, ∀ n, m.kind = .d → m.node = some n → n ∈ a.nodes ∧ m.step ∈ gridI)
    (hcols : ∀ a ∈ as, ∀ r ∈ a.rows, ∀ p ∈ r.coeffs, p.1 < a.n)
    (hvars : ∀ a ∈ as, ∀ m ∈ a.mapping, m.kind = .d → m.var < a.n)
    (href : ∀ i, (h : i < as.length) → Refines (as[i]) (sems[i]'(by omega))) :
    (∀ x, (assemble as gridI skip).FeasibleRelaxed x →
      ∃ V, (assemble as gridI skip).value x ≤ V ∧
        portfolioAttain sems skip
          (fun i n t => flowOf (as.getD i default) n t (fun j => x (blockOffset as i + j))) V) ∧
    (∀ fl V, portfolioAttain sems skip fl V →
      ∃ x, (assemble as gridI skip).FeasibleRelaxed x ∧ V ≤ (assemble as gridI skip).value x ∧
        ∀ i, i < as.length → ∀ n t,
          flowOf (as.getD i default) n t (fun j => x (blockOffset as i + j)) = fl i n t) := by
  constructor
  · intro x hx
    obtain ⟨hfeas, hbal⟩ := (feasible_iff as gridI skip hl hdisp x).mp hx
    have hex : ∀ i, ∃ c' : Rat, (h : i < as.length) →
        - costAt (as.getD i default).c 0 (fun j => x (blockOffset as i + j)) ≤ c' ∧
        (sems[i]'(by omega)).Attain
          (fun n t => flowOf (as.getD i default) n t (fun j => x (blockOffset as i + j))) c' := by
      intro i
      by_cases hi : i < as.length
      · have hat : (attainEAO (as[i])).Attain
            (fun n t => flowOf (as.getD i default) n t (fun j => x (blockOffset as i + j)))
            (- costAt (as.getD i default).c 0 (fun j => x (blockOffset as i + j))) := by
          refine ⟨fun j => x (blockOffset as i + j), hfeas i hi, ?_, ?_⟩
          · intro n t; rw [getD_of_lt as i default hi]
          · rw [getD_of_lt as i default hi]
        obtain ⟨c', hc', hs⟩ := (href i hi).2 _ _ hat
        exact ⟨c', fun _ => ⟨hc', hs⟩⟩
      · exact ⟨0, fun h => absurd h hi⟩
    obtain ⟨c, hc⟩ := Classical.axiomOfChoice hex
    refine ⟨sumN c sems.length, ?_, c, ?_, ?_, rfl⟩
    · rw [value_eq, hlen]
      exact sumN_le _ _ _ (fun j hj => (hc j hj).1)
    · intro i hi
      exact (hc i (by omega)).2
    · intro n hs t
      rw [hlen]
      exact hbal n hs t
  · rintro fl V ⟨c, hat, hbal, rfl⟩
    have hex : ∀ i, ∃ y : Vec, (h : i < as.length) →
        (as[i]).FeasibleRelaxed y ∧ (∀ n t, fl i n t = flowOf (as[i]) n t y) ∧ c i ≤ - costAt (as[i]).c 0 y := by
      intro i
      by_cases hi : i < as.length
      · obtain ⟨c', hc', y, hy, hfl, rfl⟩ := (href i hi).1 _ _ (hat i (by omega))
        exact ⟨y, fun _ => ⟨hy, hfl, hc'⟩⟩
      · exact ⟨fun _ => 0, fun h => absurd h hi⟩
    obtain ⟨ys, hys⟩ := Classical.axiomOfChoice hex
    let L : List (AssetProblem × Vec) := (List.range as.length).map fun i => (as.getD i default, ys i)
    have hLlen : L.length = as.length := by simp [L]
    have hmap : L.map (·.1) = as := by
      apply List.ext_getElem
      · simp [L]
      · intro i h1 h2
        simp [L, h2]
    have hLi : ∀ i (hi : i < L.length), L[i] = (as.getD i default, ys i) := by
      intro i hi; simp [L]
    have hLmem : ∀ p ∈ L, ∃ i, ∃ h : i < as.length, p = (as[i], ys i) := by
      intro p hp
      obtain ⟨i, hi, rfl⟩ := List.mem_map.mp hp
      have hi' := List.mem_range.mp hi
      exact ⟨i, hi', by rw [getD_of_lt as i default hi']⟩
    have hLsum : ∀ g : AssetProblem → Vec → Rat,
        (L.map fun p => g p.1 p.2) = (List.range as.length).map fun i => g (as.getD i default) (ys i) := by
      intro g; simp [L, List.map_map, Function.comp_def]
    have hG := glue_feasible L gridI skip (by rw [hmap]; exact hl) (by rw [hmap]; exact hdisp)
      (by rw [hmap]; exact hcols) (by rw [hmap]; exact hvars)
      (by
        intro p hp
        obtain ⟨i, hi, rfl⟩ := hLmem p hp
        exact (hys i hi).1)
      (by
        intro n hs t
        rw [hLsum (fun a y => flowOf a n t y)]
        have := hbal n hs t
        rw [hlen] at this
        rw [← this]
        show sumN _ _ = sumN _ _
        apply sumN_congr
        intro i hi
        rw [(hys i hi).2.1 n t, getD_of_lt as i default hi])
    rw [hmap] at hG
    obtain ⟨h1, h2, h3⟩ := hG
    refine ⟨glue L, h1, ?_, ?_⟩
    · rw [h2, hLsum (fun a y => - costAt a.c 0 y), hlen]
      apply sumN_le
      intro i hi
      rw [getD_of_lt as i default hi]
      exact (hys i hi).2.2
    · intro i hi n t
      have := h3 n t
      rw [hLlen, hLsum (fun a y => flowOf a n t y)] at this
      have h4 := (List.map_inj_left.mp this) i (List.mem_range.mpr hi)
      rw [h4, (hys i hi).2.1 n t, getD_of_lt as i default hi]

/-! ### flows of a block of mapping rows -/

/-- the flow read through a block `mk 0, …, mk (n-1)` of mapping rows is the sum of the contributions of the
    rows that are dispatch rows at (node, t) -/
theorem flow_range (n : Nat) (mk : Nat → MapRow) (node : String) (t : Nat) (y : Vec) :
    ((((List.range n).map mk).filter (isDisp node t)).map (·.contrib y)).sum
      = sumN (fun k => if isDisp node t (mk k) = true then (mk k).contrib y else 0) n := by
  induction n with
  | zero => simp [sumN_zero]
  | succ n ih =>
    rw [List.range_succ, List.map_append, List.filter_append, List.map_append, List.sum_append, ih, sumN_succ]
    congr 1
    by_cases h : isDisp node t (mk n) = true
    · simp [h]; grind
    · simp [h]

theorem sumN_ite_node (P : Prop) [Decidable P] (f : Nat → Rat) (n : Nat) :
    sumN (fun k => if P then f k else 0) n = if P then sumN f n else 0 := by
  by_cases h : P
  · simp [h]
  · simp [h, sumN_const_zero]

theorem sumN_neg (f : Nat → Rat) (n : Nat) : sumN (fun k => - f k) n = - sumN f n := by
  induction n with
  | zero => rw [sumN_zero, sumN_zero]; grind
  | succ n ih => simp only [sumN_succ, ih]; grind

/-! ### tail sums -/

theorem tailSums_getD (xs : List Rat) : ∀ i, i < xs.length → (tailSums xs).getD i 0 = (xs.drop i).sum := by
  induction xs with
  | nil => intro i hi; simp at hi
  | cons x xs ih =>
    intro i hi
    cases i with
    | zero => simp [tailSums]
    | succ i =>
      simp only [tailSums, List.getD_cons_succ, List.drop_succ_cons]
      exact ih i (by simpa using hi)

theorem drop_range_map (k : Nat → Rat) (n i : Nat) (hi : i ≤ n) :
    (((List.range n).map k).drop i).sum = sumTo k n - sumTo k i := by
  rw [← List.map_drop, List.range_eq_range', List.drop_range']
  have := sum_map_range' k (n - i) (0 + i)
  simp only [Nat.zero_add, Nat.mul_one] at this ⊢
  rw [this]
  have : i + (n - i) = n := by omega
  rw [this]

/-- **tail-sum exchange**: `Σ_i (Σ_{t≥i} k_t)·f_i = Σ_t k_t·Σ_{i≤t} f_i` -/
theorem tail_exchange (k f : Nat → Rat) (n : Nat) :
    sumTo (fun i => (sumTo k n - sumTo k i) * f i) n = sumTo (fun t => k t * sumTo f (t + 1)) n := by
  induction n with
  | zero => rfl
  | succ n ih =>
    rw [sumTo_succ, sumTo_succ (fun t => k t * sumTo f (t + 1)), ← ih]
    have h1 : sumTo (fun i => (sumTo k (n + 1) - sumTo k i) * f i) n
        = sumTo (fun i => (sumTo k n - sumTo k i) * f i) n + k n * sumTo f n := by
      have e : ∀ j, j < n → (sumTo k (n + 1) - sumTo k j) * f j
          = (sumTo k n - sumTo k j) * f j + k n * f j := by
        intro j _; rw [sumTo_succ]; grind
      rw [sumTo_congr _ _ n e, sumTo_add]
      congr 1
      rw [← sumN_eq_sumTo, sumN_mul_left, sumN_eq_sumTo]
    rw [h1, sumTo_succ k n, sumTo_succ f n]
    grind

/-! ### storage: the plain LP problem, rows ⇔ level recursion -/

/-- the textbook storage that the parameters `p` describe; `pr` = price per window position, `nIn`/`nOut` = nodes -/
def storageS (p : StorageP) (pr : Nat → Rat) (nIn nOut : String) : StorageS :=
  { size := p.size, capIn := p.capIn, capOut := p.capOut, startLevel := p.startLevel, endLevel := p.endLevel,
    effIn := p.effIn, inflow := p.inflow, costIn := p.costIn, costOut := p.costOut, costStore := p.costStore,
    price := pr, nodeIn := nIn, nodeOut := nOut }

/-- plain LP storage: no MIP option, no time blocks -/
structure Plain (p : StorageP) : Prop where
  ns  : p.noSimult = false
  msd : p.maxStoreDuration = none
  bl  : p.blocks = none

/-- what `buildStorage` returns for a plain storage on a non-empty window -/
def plainStorage (p : StorageP) (g : Grid) (pr : Nat → Rat) : AssetProblem :=
  { name := p.name, nodes := p.nodes, c := costVec p g g.T pr, l := lowerVec p g g.T, u := upperVec p g g.T,
    rows := upperRows p g g.T [(0, g.T)] ++ lowerRows p g g.T [(0, g.T)], mapping := dispMap p g g.T }

theorem buildStorage_plain (p : StorageP) (g : Grid) (T : Nat) (prices : Prices) (a : AssetProblem)
    (hb : buildStorage p g T prices = .ok a) (hne : g.dt.length ≠ 0) (hp : Plain p) :
    ∃ pr, priceVec p g T prices = .ok pr ∧ p.nodes ≠ [] ∧ a = plainStorage p g pr := by
  unfold buildStorage at hb
  rw [if_neg hne] at hb
  split at hb
  · cases hb
  · rename_i pr hpr
    split at hb
    · cases hb
    · rename_i hn
      have hbl : blocksOf p g.T = .ok [(0, g.T)] := by simp [blocksOf, hp.bl]
      rw [hbl] at hb
      refine ⟨pr, hpr, ?_, ?_⟩
      · intro h0; apply hn; simp [h0]
      · cases hb
        simp [plainStorage, nsRows, hasNS, hp.ns, holdRows, hp.msd, Storage.mapping]

theorem nVars_plain (p : StorageP) (n : Nat) (hp : Plain p) : nVars p n = nd p n := by
  simp [nVars, mHold, hasNS, hp.ns, hp.msd]

theorem sep_false (p : StorageP) (h : sep p = false) :
    p.effIn = 1 ∧ p.costIn = 0 ∧ p.costOut = 0 ∧ p.nodes.length ≠ 2 := by
  simp only [sep, Bool.or_eq_false_iff, decide_eq_false_iff_not, ne_eq, Decidable.not_not] at h
  exact ⟨h.1.1.1, h.1.1.2, h.1.2, h.2⟩

theorem lev_succ (p : StorageP) (g : Grid) (n : Nat) (y : Vec) (k : Nat) :
    lev p g n y (k + 1) = lev p g n y k + Storage.flow p n y k + p.inflow * dtAt g k := by
  simp only [lev, cumInfl, sumTo_succ, infl]
  grind

/-- the textbook level recursion computes the model's level whenever the net volumes agree -/
theorem level_eq_lev (p : StorageP) (g : Grid) (n : Nat) (pr : Nat → Rat) (nIn nOut : String) (y : Vec) (d : Cycle) :
    ∀ k, (∀ j, j < k → p.effIn * d.ch j - d.di j = Storage.flow p n y j) →
      level (storageS p pr nIn nOut) g d k = lev p g n y k := by
  intro k
  induction k with
  | zero => intro _; simp [level, lev, cumInfl, sumTo, storageS]; grind
  | succ k ih =>
    intro h
    rw [lev_succ, ← ih (fun j hj => h j (by omega)), ← h k (by omega)]
    show level (storageS p pr nIn nOut) g d k + p.effIn * d.ch k - d.di k + p.inflow * g.dt.getD k 0 = _
    simp only [dtAt]
    grind

theorem upperRow_sat (p : StorageP) (g : Grid) (n i : Nat) (y : Vec) (hmsd : p.maxStoreDuration = none) :
    (upperRow p g n 0 n i).Sat y ↔ lev p g n y (i + 1) ≤ (if i + 1 = n then p.endLevel else p.size) := by
  simp only [upperRow, hmsd, Row.Sat]
  rw [eval_levelCoeffs]
  simp only [upRhs, blockStart, blockInfl, lev, cumInfl, sumTo, Nat.zero_add, Nat.sub_zero, if_true]
  split <;> constructor <;> intro h <;> grind

theorem lowerRow_sat (p : StorageP) (g : Grid) (n i : Nat) (y : Vec) :
    (lowerRow p g n 0 n i).Sat y ↔ (if i + 1 = n then p.endLevel else 0) ≤ lev p g n y (i + 1) := by
  simp only [lowerRow, Row.Sat]
  rw [eval_levelCoeffs]
  simp only [loRhs, blockStart, blockInfl, lev, cumInfl, sumTo, Nat.zero_add, Nat.sub_zero, if_true]
  split <;> constructor <;> intro h <;> grind

/-- **cumulative-sum rows ⇔ level bounds**: the `2n` fill-level rows of the plain storage hold iff the level is
    within `[0, size]` after every step but the last and equals the end level after the last -/
theorem rows_iff_levels (p : StorageP) (g : Grid) (n : Nat) (y : Vec) (hmsd : p.maxStoreDuration = none) :
    (∀ r ∈ upperRows p g n [(0, n)] ++ lowerRows p g n [(0, n)], r.Sat y) ↔
      ∀ i, i < n → (if i + 1 = n then p.endLevel else 0) ≤ lev p g n y (i + 1) ∧
                   lev p g n y (i + 1) ≤ (if i + 1 = n then p.endLevel else p.size) := by
  simp only [upperRows, lowerRows, List.flatMap_cons, List.flatMap_nil, List.append_nil, Nat.sub_zero,
    List.mem_append, List.mem_map, List.mem_range'_1, Nat.zero_add, Nat.zero_le, true_and]
  constructor
  · intro h i hi
    exact ⟨(lowerRow_sat p g n i y).mp (h _ (Or.inr ⟨i, hi, rfl⟩)),
           (upperRow_sat p g n i y hmsd).mp (h _ (Or.inl ⟨i, hi, rfl⟩))⟩
  · rintro h r (⟨i, hi, rfl⟩ | ⟨i, hi, rfl⟩)
    · exact (upperRow_sat p g n i y hmsd).mpr (h i hi).2
    · exact (lowerRow_sat p g n i y).mpr (h i hi).1

/-! ### storage: bounds, flows -/

theorem bounds_iff_two (p : StorageP) (g : Grid) (n : Nat) (y : Vec) (hp : Plain p) (hs : sep p = true) :
    InBounds (lowerVec p g n) (upperVec p g n) y ↔
      ∀ t, t < n → -(cp p g t) ≤ y t ∧ y t ≤ 0 ∧ 0 ≤ y (n + t) ∧ y (n + t) ≤ ct p g t := by
  have hnd : nVars p n = 2 * n := by rw [nVars_plain p n hp]; simp [nd, hs]
  simp only [InBounds, lowerVec_length, hnd]
  constructor
  · intro h t ht
    obtain ⟨b1, b2, b3, b4⟩ := bounds_two p g n t hs ht
    have h1 := h t (by omega)
    have h2 := h (n + t) (by omega)
    rw [b1, b2] at h1
    rw [b3, b4] at h2
    exact ⟨h1.1, h1.2, h2.1, h2.2⟩
  · intro h j hj
    by_cases hjn : j < n
    · obtain ⟨b1, b2, _, _⟩ := bounds_two p g n j hs hjn
      rw [b1, b2]
      exact ⟨(h j hjn).1, (h j hjn).2.1⟩
    · obtain ⟨_, _, b3, b4⟩ := bounds_two p g n (j - n) hs (by omega)
      have e : n + (j - n) = j := by omega
      rw [e] at b3 b4
      rw [b3, b4]
      have := h (j - n) (by omega)
      rw [e] at this
      exact ⟨this.2.2.1, this.2.2.2⟩

theorem bounds_iff_one (p : StorageP) (g : Grid) (n : Nat) (y : Vec) (hp : Plain p) (hs : sep p = false) :
    InBounds (lowerVec p g n) (upperVec p g n) y ↔ ∀ t, t < n → -(cp p g t) ≤ y t ∧ y t ≤ ct p g t := by
  have hnd : nVars p n = n := by rw [nVars_plain p n hp]; simp [nd, hs]
  simp only [InBounds, lowerVec_length, hnd]
  constructor
  · intro h t ht
    obtain ⟨b1, b2⟩ := bounds_one p g n t hs ht
    have h1 := h t ht
    rw [b1, b2] at h1
    exact h1
  · intro h j hj
    obtain ⟨b1, b2⟩ := bounds_one p g n j hs hj
    rw [b1, b2]
    exact h j hj

/-- flow through a block of `n` dispatch rows at node `nd`, row `k` at step `idx k` contributing `v k` -/
theorem flow_block (n : Nat) (mk : Nat → MapRow) (node nd : String) (t : Nat) (y : Vec) (idx : Nat → Nat)
    (v : Nat → Rat)
    (hm : ∀ k, k < n → (mk k).kind = .d ∧ (mk k).node = some nd ∧ (mk k).step = idx k ∧ (mk k).contrib y = v k) :
    ((((List.range n).map mk).filter (isDisp node t)).map (·.contrib y)).sum
      = if node = nd then sumN (fun k => if idx k = t then v k else 0) n else 0 := by
  rw [flow_range]
  by_cases hnode : node = nd
  · rw [if_pos hnode]
    apply sumN_congr
    intro k hk
    obtain ⟨h1, h2, h3, h4⟩ := hm k hk
    simp [isDisp, h1, h2, h3, h4, hnode]
  · rw [if_neg hnode]
    have hz : sumN (fun k => if isDisp node t (mk k) = true then (mk k).contrib y else 0) n
        = sumN (fun _ => (0 : Rat)) n := by
      apply sumN_congr
      intro k hk
      obtain ⟨h1, h2, h3, h4⟩ := hm k hk
      have : ¬ (nd = node) := fun h => hnode h.symm
      simp [isDisp, h1, h2, h3, this]
    rw [hz, sumN_const_zero]

theorem sumN_ite_neg (c : Nat → Prop) [DecidablePred c] (f : Nat → Rat) (n : Nat) :
    sumN (fun k => if c k then - f k else 0) n = - sumN (fun k => if c k then f k else 0) n := by
  rw [← sumN_neg]
  apply sumN_congr
  intro k _
  by_cases h : c k <;> simp [h]

theorem sumN_ite_mul (c : Nat → Prop) [DecidablePred c] (a : Rat) (f : Nat → Rat) (n : Nat) :
    sumN (fun k => if c k then a * f k else 0) n = a * sumN (fun k => if c k then f k else 0) n := by
  rw [← sumN_mul_left]
  apply sumN_congr
  intro k _
  by_cases h : c k <;> simp [h]

/-- flows of the two-variable storage: `−ch` at the charge node, `+di` at the discharge node -/
theorem storage_flow_two (p : StorageP) (g : Grid) (pr : Nat → Rat) (nIn nOut node : String) (t : Nat) (y : Vec)
    (d : Cycle) (hs : sep p = true) (hin : nodeIn p = some nIn) (hout : nodeOut p = some nOut)
    (hR : ∀ k, k < g.T → d.ch k = -(y k) ∧ d.di k = y (g.T + k)) :
    flowOf (plainStorage p g pr) node t y = (storageS p pr nIn nOut).flows g d node t := by
  simp only [flowOf, plainStorage, dispMap, hs, if_true, List.filter_append, List.map_append, List.sum_append]
  rw [flow_block g.T _ node nIn t y (stepOf g) (fun k => - d.ch k)
        (fun k hk => ⟨rfl, hin, rfl, by simp [MapRow.contrib, (hR k hk).1]⟩),
      flow_block g.T _ node nOut t y (stepOf g) (fun k => d.di k)
        (fun k hk => ⟨rfl, hout, rfl, by simp [MapRow.contrib, (hR k hk).2]⟩)]
  simp only [StorageS.flows, storageS, atStep, sumN_ite_neg]
  grind

/-- flows of the one-variable storage: the net volume `di − ch` at its node -/
theorem storage_flow_one (p : StorageP) (g : Grid) (pr : Nat → Rat) (nIn node : String) (t : Nat) (y : Vec)
    (d : Cycle) (hs : sep p = false) (hin : nodeIn p = some nIn)
    (hR : ∀ k, k < g.T → y k = d.di k - d.ch k) :
    flowOf (plainStorage p g pr) node t y = (storageS p pr nIn nIn).flows g d node t := by
  simp only [flowOf, plainStorage, dispMap, hs, Bool.false_eq_true, if_false]
  rw [flow_block g.T _ node nIn t y (stepOf g) (fun k => d.di k - d.ch k)
        (fun k hk => ⟨rfl, hin, rfl, by simp [MapRow.contrib, (hR k hk)]⟩)]
  simp only [StorageS.flows, storageS, atStep]
  by_cases h : node = nIn
  · simp only [h, if_true]
    rw [← sumN_sub]
    apply sumN_congr
    intro k _
    by_cases hk : stepOf g k = t <;> simp [hk] <;> grind
  · simp [h] <;> grind

/-! ### storage: cash -/

theorem costAt_range_map (F : Nat → Rat) (n off : Nat) (y : Vec) :
    costAt ((List.range n).map F) off y = sumN (fun j => F j * y (off + j)) n := by
  rw [costAt_eq_sum_range, sum_range_eq_sumN]
  simp only [List.length_map, List.length_range]
  apply sumN_congr
  intro j hj
  rw [getD_map_range _ _ _ hj]

/-- holding-cost weight of a step -/
def kk (p : StorageP) (g : Grid) (t : Nat) : Rat := p.costStore * dtAt g t * Storage.dfAt g t

theorem sumTo_zero_fn (f : Nat → Rat) (n : Nat) (h : ∀ j, j < n → f j = 0) : sumTo f n = 0 := by
  rw [← sumN_eq_sumTo, ← sumN_const_zero n]
  exact sumN_congr _ _ n h

theorem storeTail_getD (p : StorageP) (g : Grid) (n i : Nat) (hi : i < n) :
    (storeTail p g n).getD i 0 = sumTo (kk p g) n - sumTo (kk p g) i := by
  unfold storeTail
  by_cases h0 : p.costStore = 0
  · rw [if_pos h0, getD_map_range _ _ _ hi]
    have hk : ∀ j, kk p g j = 0 := by intro j; simp [kk, h0]
    rw [sumTo_zero_fn _ _ (fun j _ => hk j), sumTo_zero_fn _ _ (fun j _ => hk j)]
    grind
  · rw [if_neg h0, tailSums_getD _ _ (by simpa using hi)]
    have := drop_range_map (fun i => p.costStore * dtAt g i * Storage.dfAt g i) n i (by omega)
    exact this

/-- closed form of the textbook level -/
theorem level_closed (s : StorageS) (g : Grid) (d : Cycle) (k : Nat) :
    level s g d k = s.startLevel + sumTo (fun j => s.effIn * d.ch j - d.di j) k
                      + sumN (fun j => s.inflow * dtOf g j) k := by
  induction k with
  | zero => simp [level, sumTo, sumN_zero]; grind
  | succ k ih => simp only [level, ih, sumTo_succ, sumN_succ]; grind

/-- **cash of a storage**: minus the cost of the model's variables is the textbook cash plus the holding cost of
    start level and inflow, whenever `Σ_j c_j·y_j` has been brought into the form `Σ_j (X_j − tail_j·f_j)` with
    `f` the net volume entering the storage -/
theorem storage_cash_core (p : StorageP) (g : Grid) (pr : Nat → Rat) (nIn nOut : String) (d : Cycle) (V : Rat)
    (hV : V = sumN (fun j => dfOf g j * (pr j * (d.di j - d.ch j) - p.costIn * d.ch j - p.costOut * d.di j)
                    - (storeTail p g g.T).getD j 0 * (p.effIn * d.ch j - d.di j)) g.T) :
    V = (storageS p pr nIn nOut).cash g d + (storageS p pr nIn nOut).holdingConstant g := by
  subst hV
  have hex := tail_exchange (kk p g) (fun j => p.effIn * d.ch j - d.di j) g.T
  have h1 : sumN (fun j => (storeTail p g g.T).getD j 0 * (p.effIn * d.ch j - d.di j)) g.T
      = sumN (fun t => kk p g t * sumTo (fun j => p.effIn * d.ch j - d.di j) (t + 1)) g.T := by
    rw [sumN_eq_sumTo, sumN_eq_sumTo, ← hex]
    apply sumTo_congr
    intro j hj
    rw [storeTail_getD p g g.T j hj]
  have h2 : ∀ t, sumTo (fun j => p.effIn * d.ch j - d.di j) (t + 1)
      = level (storageS p pr nIn nOut) g d (t + 1)
        - (p.startLevel + sumN (fun i => p.inflow * dtOf g i) (t + 1)) := by
    intro t
    rw [level_closed]
    simp only [storageS]
    grind
  rw [sumN_sub, h1]
  simp only [StorageS.cash, StorageS.holdingConstant]
  rw [sumN_sub, ← sumN_mul_left]
  simp only [storageS]
  have h3 : sumN (fun t => kk p g t * sumTo (fun j => p.effIn * d.ch j - d.di j) (t + 1)) g.T
      = sumN (fun k => p.costStore * dtOf g k * dfOf g k * level (storageS p pr nIn nOut) g d (k + 1)) g.T
        - sumN (fun k => p.costStore * (dtOf g k * dfOf g k * (p.startLevel + sumN (fun i => p.inflow * dtOf g i) (k + 1)))) g.T := by
    rw [← sumN_sub]
    apply sumN_congr
    intro t _
    rw [h2 t]
    simp only [kk, dtAt, Storage.dfAt, dtOf, dfOf]
    grind
  rw [h3]
  simp only [storageS]
  grind

theorem storage_cash_two (p : StorageP) (g : Grid) (pr : Nat → Rat) (nIn nOut : String) (y : Vec) (d : Cycle)
    (hp : Plain p) (hs : sep p = true) (hR : ∀ k, k < g.T → d.ch k = -(y k) ∧ d.di k = y (g.T + k)) :
    - costAt (plainStorage p g pr).c 0 y
      = (storageS p pr nIn nOut).cash g d + (storageS p pr nIn nOut).holdingConstant g := by
  apply storage_cash_core
  have hz : nVars p g.T - nd p g.T = 0 := by rw [nVars_plain p g.T hp]; omega
  simp only [plainStorage, costVec, hs, if_true, hz, List.range_zero, List.map_nil, List.append_nil]
  rw [costAt_append, costAt_range_map, costAt_range_map, ← sumN_add, ← sumN_neg]
  apply sumN_congr
  intro j hj
  simp only [List.length_map, List.length_range, Nat.zero_add]
  rw [← (hR j hj).2]
  have : y j = - d.ch j := by rw [(hR j hj).1]; grind
  rw [this]
  simp only [Storage.dfAt, dfOf]
  grind

theorem storage_cash_one (p : StorageP) (g : Grid) (pr : Nat → Rat) (nIn : String) (y : Vec) (d : Cycle)
    (hp : Plain p) (hs : sep p = false) (hR : ∀ k, k < g.T → y k = d.di k - d.ch k) :
    - costAt (plainStorage p g pr).c 0 y
      = (storageS p pr nIn nIn).cash g d + (storageS p pr nIn nIn).holdingConstant g := by
  apply storage_cash_core
  obtain ⟨he, hci, hco, _⟩ := sep_false p hs
  have hz : nVars p g.T - nd p g.T = 0 := by rw [nVars_plain p g.T hp]; omega
  simp only [plainStorage, costVec, hs, Bool.false_eq_true, if_false, hz, List.range_zero, List.map_nil,
    List.append_nil]
  rw [costAt_range_map, ← sumN_neg]
  apply sumN_congr
  intro j hj
  simp only [Nat.zero_add]
  rw [hR j hj, he, hci, hco]
  simp only [Storage.dfAt, dfOf]
  grind

/-- rows of the plain storage ⇔ the textbook level conditions, for related `y` and `d` -/
theorem storage_levels_iff (p : StorageP) (g : Grid) (pr : Nat → Rat) (nIn nOut : String) (y : Vec) (d : Cycle)
    (hmsd : p.maxStoreDuration = none) (hend : 0 ≤ p.endLevel ∧ p.endLevel ≤ p.size)
    (hfl : ∀ j, j < g.T → p.effIn * d.ch j - d.di j = Storage.flow p g.T y j) :
    (∀ r ∈ (plainStorage p g pr).rows, r.Sat y) ↔
      ((∀ k, k < g.T → 0 ≤ level (storageS p pr nIn nOut) g d (k + 1) ∧
                       level (storageS p pr nIn nOut) g d (k + 1) ≤ p.size) ∧
       (0 < g.T → level (storageS p pr nIn nOut) g d g.T = p.endLevel)) := by
  have hlv : ∀ k, k ≤ g.T → level (storageS p pr nIn nOut) g d k = lev p g g.T y k :=
    fun k hk => level_eq_lev p g g.T pr nIn nOut y d k (fun j hj => hfl j (by omega))
  show (∀ r ∈ upperRows p g g.T [(0, g.T)] ++ lowerRows p g g.T [(0, g.T)], r.Sat y) ↔ _
  rw [rows_iff_levels p g g.T y hmsd]
  constructor
  · intro h
    constructor
    · intro k hk
      rw [hlv (k + 1) (by omega)]
      have := h k hk
      by_cases hl : k + 1 = g.T
      · simp only [hl, if_true] at this; grind
      · simp only [hl, if_false] at this; exact this
    · intro hpos
      rw [hlv g.T (by omega)]
      have := h (g.T - 1) (by omega)
      have e : g.T - 1 + 1 = g.T := by omega
      simp only [e, if_true] at this
      grind
  · rintro ⟨h1, h2⟩ i hi
    rw [← hlv (i + 1) (by omega)]
    by_cases hl : i + 1 = g.T
    · simp only [hl, if_true]
      have := h2 (by omega)
      grind
    · simp only [hl, if_false]
      exact h1 i hi

/-! ### one variable per step: blocks given by `zipIdx`, cost `zipWith (· * ·) cvec df` -/

theorem zipIdx_map_range {β} (l : List Nat) (F : Nat × Nat → β) :
    l.zipIdx.map F = (List.range l.length).map fun k => F (l.getD k 0, k) := by
  apply List.ext_getElem
  · simp
  · intro i h1 h2
    have hi : i < l.length := by simpa using h1
    simp [List.getD_eq_getElem?_getD, hi]

theorem getD_zipWith_mul (A B : List Rat) (j : Nat) (h1 : j < A.length) (h2 : j < B.length) :
    (List.zipWith (· * ·) A B).getD j 0 = A.getD j 0 * B.getD j 0 := by
  simp [List.getD_eq_getElem?_getD, List.getElem?_zipWith, h1, h2]

/-- cost of a one-variable-per-step problem, step by step -/
theorem onevar_cost (cvec df : List Rat) (n : Nat) (h1 : cvec.length = n) (h2 : df.length = n) (y : Vec)
    (w : Nat → Rat) (hpt : ∀ j, j < n → cvec.getD j 0 * df.getD j 0 * y j = w j) :
    costAt (List.zipWith (· * ·) cvec df) 0 y = sumN w n := by
  rw [costAt_eq_sum_range, sum_range_eq_sumN]
  have hl : (List.zipWith (· * ·) cvec df).length = n := by simp [h1, h2]
  rw [hl]
  apply sumN_congr
  intro j hj
  rw [getD_zipWith_mul _ _ _ (by omega) (by omega), Nat.zero_add]
  exact hpt j hj

theorem getD_map_dt (a : Rat) (l : List Rat) (j : Nat) (hj : j < l.length) :
    (l.map (a * ·)).getD j 0 = a * l.getD j 0 := by
  simp [List.getD_eq_getElem?_getD, hj]

theorem absR_nonpos (q : Rat) (h : q ≤ 0) : absR q = -q := by
  unfold absR; split <;> grind

theorem absR_nonneg (q : Rat) (h : 0 ≤ q) : absR q = q := by
  unfold absR; split <;> grind

/-! ### transport -/

/-- the guard of `buildTransport`: all capacities ≤ 0, or all ≥ 0, or no costs at all -/
theorem buildTransport_guard {p : TransportP} {g : Grid} {prices : Prices} {fullT : Nat} {P : AssetProblem}
    (h : buildTransport p g prices fullT = .ok P) :
    ∃ cts, transportCosts p.costsKey g prices fullT = .ok cts ∧
      ((g.dt.map (p.maxCap * ·)).all (fun v => decide (v ≤ 0)) = true ∨
       (g.dt.map (p.minCap * ·)).all (fun v => decide (0 ≤ v)) = true ∨
       (cts.map (· + p.costsConst)).all (fun v => v == 0) = true) := by
  unfold buildTransport at h
  split at h
  · simp only [bind, Except.bind, pure, Except.pure] at h
    split at h
    · simp [throw, throwThe, MonadExceptOf.throw] at h
    split at h
    · simp [throw, throwThe, MonadExceptOf.throw] at h
    cases hc : transportCosts p.costsKey g prices fullT with
    | error e => simp [hc] at h
    | ok cts =>
      simp only [hc] at h
      split at h
      · simp [throw, throwThe, MonadExceptOf.throw] at h
      · rename_i hg
        refine ⟨cts, rfl, ?_⟩
        simp only [Bool.not_eq_true', Bool.not_eq_false] at hg
        simpa [Bool.or_eq_true, or_assoc] using hg
  · simp [throw, throwThe, MonadExceptOf.throw] at h

/-- the textbook transport that the parameters describe -/
def transportS (p : TransportP) (cts : List Rat) (n0 n1 : String) (maxT minT : List Period) (u : Nat) : TransportS :=
  { minRate := p.minCap, maxRate := p.maxCap, eff := p.efficiency, cost := fun k => cts.getD k 0 + p.costsConst,
    nodeFrom := n0, nodeTo := n1, maxTake := maxT, minTake := minT, unitSec := u }

theorem transport_bounds_iff (p : TransportP) (g : Grid) (hg : g.Ok) (y : Vec) :
    InBounds (g.dt.map (p.minCap * ·)) (g.dt.map (p.maxCap * ·)) y ↔
      ∀ k, k < g.T → p.minCap * dtOf g k ≤ y k ∧ y k ≤ p.maxCap * dtOf g k := by
  simp only [InBounds, List.length_map, hg.2.1, dtOf]
  constructor
  · intro h k hk
    have := h k hk
    rw [getD_map_dt _ _ _ (by rw [hg.2.1]; exact hk), getD_map_dt _ _ _ (by rw [hg.2.1]; exact hk)] at this
    exact this
  · intro h k hk
    rw [getD_map_dt _ _ _ (by rw [hg.2.1]; exact hk), getD_map_dt _ _ _ (by rw [hg.2.1]; exact hk)]
    exact h k hk

theorem transport_flow (p : TransportP) (g : Grid) (hg : g.Ok) (n0 n1 node : String) (cts : List Rat) (t : Nat)
    (y : Vec) (maxT minT : List Period) (u : Nat) :
    flowOf (trProblem p g n0 n1 cts) node t y = (transportS p cts n0 n1 maxT minT u).flows g y node t := by
  simp only [flowOf, trProblem, transportBlock, zipIdx_map_range, List.filter_append, List.map_append,
    List.sum_append, hg.1]
  rw [flow_block g.T _ node n0 t y (stepOf g) (fun k => -(y k))
        (fun k _ => ⟨rfl, rfl, rfl, by simp [MapRow.contrib]; grind⟩),
      flow_block g.T _ node n1 t y (stepOf g) (fun k => p.efficiency * y k)
        (fun k _ => ⟨rfl, rfl, rfl, by simp [MapRow.contrib]; grind⟩)]
  simp only [TransportS.flows, transportS, atStep, sumN_ite_neg, sumN_ite_mul]
  grind

/-- costs act on |flow|: with all capacities ≤ 0 the code negates the cost vector -/
theorem transport_cash (p : TransportP) (g : Grid) (hg : g.Ok) (n0 n1 : String) (cts : List Rat)
    (hcl : cts.length = g.T) (y : Vec) (maxT minT : List Period) (u : Nat)
    (hguard : (g.dt.map (p.maxCap * ·)).all (fun v => decide (v ≤ 0)) = true ∨
       (g.dt.map (p.minCap * ·)).all (fun v => decide (0 ≤ v)) = true ∨
       (cts.map (· + p.costsConst)).all (fun v => v == 0) = true)
    (hb : ∀ k, k < g.T → p.minCap * dtOf g k ≤ y k ∧ y k ≤ p.maxCap * dtOf g k) :
    - costAt (trProblem p g n0 n1 cts).c 0 y = (transportS p cts n0 n1 maxT minT u).cash g y := by
  simp only [trProblem, TransportS.cash, transportS]
  rw [sumN_neg]
  congr 1
  have hdl : ∀ k, k < g.T → k < g.dt.length := fun k hk => by rw [hg.2.1]; exact hk
  by_cases hneg : (g.dt.map (p.maxCap * ·)).all (fun v => decide (v ≤ 0)) = true
  · rw [if_pos hneg]
    apply onevar_cost _ _ g.T (by simp [hcl]) hg.2.2
    intro j hj
    have hy : y j ≤ 0 := by
      have := List.all_eq_true.mp hneg (p.maxCap * g.dt.getD j 0) (by
        rw [List.mem_map]; exact ⟨g.dt[j]'(hdl j hj), List.getElem_mem _, by simp [List.getD_eq_getElem?_getD, hdl j hj]⟩)
      have h2 := (hb j hj).2
      simp only [dtOf] at h2
      have : p.maxCap * g.dt.getD j 0 ≤ 0 := by simpa using this
      grind
    rw [absR_nonpos _ hy]
    have : ((cts.map (· + p.costsConst)).map (fun v => -v)).getD j 0 = -(cts.getD j 0 + p.costsConst) := by
      simp [List.getD_eq_getElem?_getD, hcl, hj]
    rw [this]
    simp only [dfOf]
    grind
  · rw [if_neg hneg]
    apply onevar_cost _ _ g.T (by simp [hcl]) hg.2.2
    intro j hj
    have hc : (cts.map (· + p.costsConst)).getD j 0 = cts.getD j 0 + p.costsConst := by
      simp [List.getD_eq_getElem?_getD, hcl, hj]
    rw [hc]
    rcases hguard with h | h | h
    · exact absurd h hneg
    · have hy : 0 ≤ y j := by
        have := List.all_eq_true.mp h (p.minCap * g.dt.getD j 0) (by
          rw [List.mem_map]; exact ⟨g.dt[j]'(hdl j hj), List.getElem_mem _, by simp [List.getD_eq_getElem?_getD, hdl j hj]⟩)
        have h2 := (hb j hj).1
        simp only [dtOf] at h2
        have : 0 ≤ p.minCap * g.dt.getD j 0 := by simpa using this
        grind
      rw [absR_nonneg _ hy]
      simp only [dfOf]
      grind
    · have hz : cts.getD j 0 + p.costsConst = 0 := by
        have := List.all_eq_true.mp h ((cts.map (· + p.costsConst)).getD j 0) (by
          rw [List.getD_eq_getElem?_getD, List.getElem?_eq_getElem (by simp [hcl, hj])]
          exact List.getElem_mem _)
        rw [hc] at this
        simpa using this
      rw [hz]
      grind

/-! ### contract, one variable per step -/

theorem getD_zipWith (f : Rat → Rat → Rat) (A B : List Rat) (j : Nat) (h1 : j < A.length) (h2 : j < B.length) :
    (List.zipWith f A B).getD j 0 = f (A.getD j 0) (B.getD j 0) := by
  simp [List.getD_eq_getElem?_getD, List.getElem?_zipWith, h1, h2]

theorem all_getD (l : List Rat) (P : Rat → Bool) (h : l.all P = true) (j : Nat) (hj : j < l.length) :
    P (l.getD j 0) = true := by
  apply List.all_eq_true.mp h
  rw [List.getD_eq_getElem?_getD, List.getElem?_eq_getElem hj]
  exact List.getElem_mem _

/-- the textbook contract over per-step lists: rates `lo`, `hi`, price, spread, at one node -/
def contractS1 (lo hi price ec : List Rat) (node : String) : ContractS :=
  { minRate := fun k => lo.getD k 0, maxRate := fun k => hi.getD k 0, price := fun k => price.getD k 0,
    extra := fun k => ec.getD k 0, nodes := [(node, 1)], maxTake := [], minTake := [], unitSec := 1 }

theorem contract_bounds_iff (lo hi : List Rat) (g : Grid) (hg : g.Ok) (h1 : lo.length = g.T) (h2 : hi.length = g.T)
    (y : Vec) :
    InBounds (List.zipWith (· * ·) lo g.dt) (List.zipWith (· * ·) hi g.dt) y ↔
      ∀ k, k < g.T → lo.getD k 0 * dtOf g k ≤ y k ∧ y k ≤ hi.getD k 0 * dtOf g k := by
  have hl : (List.zipWith (· * ·) lo g.dt).length = g.T := by simp [h1, hg.2.1]
  simp only [InBounds, hl, dtOf]
  constructor
  · intro h k hk
    have := h k hk
    rw [getD_zipWith_mul _ _ _ (by omega) (by rw [hg.2.1]; exact hk),
        getD_zipWith_mul _ _ _ (by omega) (by rw [hg.2.1]; exact hk)] at this
    exact this
  · intro h k hk
    rw [getD_zipWith_mul _ _ _ (by omega) (by rw [hg.2.1]; exact hk),
        getD_zipWith_mul _ _ _ (by omega) (by rw [hg.2.1]; exact hk)]
    exact h k hk

theorem contract_flow_one (p : ContractP) (g : Grid) (hg : g.Ok) (d : SCData) (lo hi : List Rat) (node : String)
    (t : Nat) (y : Vec) :
    flowOf (scOne p g d) node t y = (contractS1 lo hi d.price d.ec d.node).flows g y node t := by
  simp only [flowOf, scOne, dispBlock, zipIdx_map_range, hg.1]
  rw [flow_block g.T _ node d.node t y (stepOf g) (fun k => y k)
        (fun k _ => ⟨rfl, rfl, rfl, by simp [MapRow.contrib, dispRow]⟩)]
  simp only [ContractS.flows, contractS1, atStep, List.filter_cons, List.filter_nil]
  by_cases h : node = d.node
  · subst h; simp; grind
  · have : ¬ (d.node = node) := fun e => h e.symm
    simp [h, this]

theorem oneVarPrice_getD (price ec minC maxC : List Rat) (n j : Nat) (hj : j < n) (h1 : price.length = n)
    (h2 : ec.length = n) :
    (oneVarPrice price ec minC maxC).getD j 0 =
      price.getD j 0
        - (if ec.any (fun e => e != 0) = true ∧ maxC.all (fun v => decide (v ≤ 0)) = true then ec.getD j 0 else 0)
        + (if ec.any (fun e => e != 0) = true ∧ minC.all (fun v => decide (0 ≤ v)) = true then ec.getD j 0 else 0) := by
  unfold oneVarPrice
  by_cases ha : ec.any (fun e => e != 0) = true
  · rw [if_pos ha]
    by_cases hn : maxC.all (fun v => decide (v ≤ 0)) = true
    · by_cases hp : minC.all (fun v => decide (0 ≤ v)) = true
      · simp only [ha, hn, hp, and_self, if_true]
        rw [getD_zipWith _ _ _ _ (by simp [h1, h2]; omega) (by omega), getD_zipWith _ _ _ _ (by omega) (by omega)]
      · simp only [ha, hn, hp, and_self, if_true, and_false, if_false, Bool.false_eq_true]
        rw [getD_zipWith _ _ _ _ (by omega) (by omega)]
        grind
    · by_cases hp : minC.all (fun v => decide (0 ≤ v)) = true
      · simp only [ha, hn, hp, and_self, if_true, and_false, if_false, Bool.false_eq_true]
        rw [getD_zipWith _ _ _ _ (by omega) (by omega)]
        grind
      · simp only [ha, hn, hp, and_self, and_false, if_false, Bool.false_eq_true]
        grind
  · simp only [ha, Bool.false_eq_true, false_and, if_false]
    grind

theorem contract_cash_one (p : ContractP) (g : Grid) (hg : g.Ok) (d : SCData) (lo hi : List Rat) (y : Vec)
    (hl : d.price.length = g.T ∧ d.ec.length = g.T ∧ d.minC.length = g.T ∧ d.maxC.length = g.T)
    (hone : oneVariable d.ec d.minC d.maxC = true)
    (hb : ∀ k, k < g.T → d.minC.getD k 0 ≤ y k ∧ y k ≤ d.maxC.getD k 0) :
    - costAt (scOne p g d).c 0 y = (contractS1 lo hi d.price d.ec d.node).cash g y := by
  simp only [scOne, ContractS.cash, contractS1]
  rw [sumN_neg]
  congr 1
  apply onevar_cost _ _ g.T (oneVarPrice_length hl.1 hl.2.1) hg.2.2
  intro j hj
  rw [oneVarPrice_getD _ _ _ _ g.T j hj hl.1 hl.2.1]
  simp only [dfOf]
  by_cases ha : d.ec.any (fun e => e != 0) = true
  · have hnz : d.ec.all (fun e => e == 0) = false := by
      obtain ⟨e, he, hne⟩ := List.any_eq_true.mp ha
      apply Bool.eq_false_iff.mpr
      intro hall
      have := List.all_eq_true.mp hall e he
      simp at hne this
      exact hne this
    simp only [oneVariable, hnz, Bool.false_or, Bool.or_eq_true] at hone
    by_cases hn : d.maxC.all (fun v => decide (v ≤ 0)) = true
    · have hy : y j ≤ 0 := by
        have := all_getD _ _ hn j (by omega)
        have h2 := (hb j hj).2
        simp only [decide_eq_true_eq] at this
        grind
      by_cases hp : d.minC.all (fun v => decide (0 ≤ v)) = true
      · have hy2 : 0 ≤ y j := by
          have := all_getD _ _ hp j (by omega)
          have h2 := (hb j hj).1
          simp only [decide_eq_true_eq] at this
          grind
        have : y j = 0 := by grind
        simp only [ha, hn, hp, and_self, if_true, this, absR]
        grind
      · simp only [ha, hn, hp, and_self, if_true, and_false, if_false, Bool.false_eq_true]
        rw [absR_nonpos _ hy]
        grind
    · have hp : d.minC.all (fun v => decide (0 ≤ v)) = true := by
        rcases hone with h | h
        · exact absurd h hn
        · exact h
      have hy : 0 ≤ y j := by
        have := all_getD _ _ hp j (by omega)
        have h2 := (hb j hj).1
        simp only [decide_eq_true_eq] at this
        grind
      simp only [ha, hn, hp, and_self, if_true, and_false, if_false, Bool.false_eq_true]
      rw [absR_nonneg _ hy]
      grind
  · have hz : d.ec.getD j 0 = 0 := by
      have hf : d.ec.any (fun e => e != 0) = false := by simpa using ha
      have := List.any_eq_false.mp hf (d.ec.getD j 0) (by
        rw [List.getD_eq_getElem?_getD, List.getElem?_eq_getElem (by omega)]
        exact List.getElem_mem _)
      simpa using this
    simp only [ha, Bool.false_eq_true, false_and, if_false, hz]
    grind

/-! ### take rows ⇔ textbook take constraints -/

/-- a take period of the model as a textbook period -/
def toPeriod (tk : Take) : Period := ⟨tk.1, tk.2.1, tk.2.2⟩

/-- the relation a row of the given kind imposes between its left-hand side and its right-hand side -/
def kindRel : RowKind → Rat → Rat → Prop
  | .U, a, b => a ≤ b
  | .L, a, b => b ≤ a
  | _, a, b => a = b

theorem sat_kindRel (r : Row) (y : Vec) : r.Sat y ↔ kindRel r.kind (r.eval y) r.rhs := by
  unfold Row.Sat kindRel
  cases r.kind <;> exact Iff.rfl

theorem sum_flatMap_map {α β} (l : List α) (f : α → List β) (h : β → Rat) :
    ((l.flatMap f).map h).sum = (l.map fun a => ((f a).map h).sum).sum := by
  induction l with
  | nil => rfl
  | cons a l ih => simp only [List.flatMap_cons, List.map_append, List.sum_append, List.map_cons, List.sum_cons, ih]

theorem coveredPos_lt (g : Grid) (s e : Int) (i : Nat) (hi : i ∈ coveredPos g s e) : i < g.T :=
  List.mem_range.mp (List.mem_filter.mp hi).1

/-- one take period: no row when it covers no step of the window; otherwise a row of the given kind whose
    left-hand side is the volume `Σ q` over the covered steps and whose right-hand side is the prorated volume -/
theorem takeRow_spec (kind : RowKind) (u : Nat) (g : Grid) (mapping : List MapRow) (node : Option String)
    (tk : Take) (y : Vec) (q : Nat → Rat)
    (hne : ∀ i, i < g.T → rowsAt mapping node (g.idx.getD i 0) ≠ [])
    (hq : ∀ i, i < g.T → ((rowsAt mapping node (g.idx.getD i 0)).map fun m => m.factor * y m.var).sum = q i) :
    (coveredPos g tk.1 tk.2.1 = [] → takeRow kind u g mapping node tk = none) ∧
    (coveredPos g tk.1 tk.2.1 ≠ [] → ∃ r, takeRow kind u g mapping node tk = some r ∧ r.kind = kind ∧
        r.eval y = ((coveredPos g tk.1 tk.2.1).map q).sum ∧
        r.rhs = tk.2.2 * ((coveredPos g tk.1 tk.2.1).map (dtOf g)).sum / takeDuration tk.1 tk.2.1 u) := by
  constructor
  · intro h; exact takeRow_none_of_uncovered h
  · intro hcov
    have hsel : takeSel g mapping node tk.1 tk.2.1 ≠ [] := by
      intro h0
      rw [takeSel, List.flatMap_eq_nil_iff] at h0
      obtain ⟨i, hi⟩ := List.exists_mem_of_ne_nil _ hcov
      exact hne i (coveredPos_lt g _ _ i hi) (h0 i hi)
    have hsteps : takeSteps g mapping node tk.1 tk.2.1 = coveredPos g tk.1 tk.2.1 := by
      unfold takeSteps
      apply List.filter_eq_self.mpr
      intro i hi
      have := hne i (coveredPos_lt g _ _ i hi)
      cases hr : rowsAt mapping node (g.idx.getD i 0) with
      | nil => exact absurd hr this
      | cons a l => rfl
    have hrow : takeRow kind u g mapping node tk
        = some { coeffs := (takeSel g mapping node tk.1 tk.2.1).map fun m => (m.var, m.factor),
                 rhs := tk.2.2 / takeDuration tk.1 tk.2.1 u
                   * ((takeSteps g mapping node tk.1 tk.2.1).map fun i => g.dt.getD i 0).sum,
                 kind := kind } := by
      unfold takeRow
      simp only []
      rw [if_neg (by simpa [List.isEmpty_iff] using hsel)]
    refine ⟨_, hrow, rfl, ?_, ?_⟩
    · simp only [Row.eval, List.map_map, Function.comp_def]
      rw [takeSel, sum_flatMap_map]
      congr 1
      apply List.map_congr_left
      intro i hi
      exact hq i (coveredPos_lt g _ _ i hi)
    · simp only [hsteps]
      show _ = tk.2.2 * ((coveredPos g tk.1 tk.2.1).map fun i => g.dt.getD i 0).sum / _
      grind

/-- **take_rows_spec** (lemma form): the rows `defineRestr` builds hold at `y` iff every period that covers a
    step of the window restricts the volume `Σ q` over its covered steps by `V·covered time/((e−s)/unit)` -/
theorem defineRestr_iff (kind : RowKind) (u : Nat) (g : Grid) (mapping : List MapRow) (node : Option String)
    (takes : List Take) (y : Vec) (q : Nat → Rat)
    (hne : ∀ i, i < g.T → rowsAt mapping node (g.idx.getD i 0) ≠ [])
    (hq : ∀ i, i < g.T → ((rowsAt mapping node (g.idx.getD i 0)).map fun m => m.factor * y m.var).sum = q i) :
    (∀ r ∈ defineRestr kind u g mapping node takes, r.Sat y) ↔
      ∀ tk ∈ takes, coveredPos g tk.1 tk.2.1 ≠ [] →
        kindRel kind (((coveredPos g tk.1 tk.2.1).map q).sum)
          (tk.2.2 * ((coveredPos g tk.1 tk.2.1).map (dtOf g)).sum / takeDuration tk.1 tk.2.1 u) := by
  constructor
  · intro h tk htk hcov
    obtain ⟨r, hr, hk, he, hrhs⟩ := (takeRow_spec kind u g mapping node tk y q hne hq).2 hcov
    have hmem : r ∈ defineRestr kind u g mapping node takes := by
      simp only [defineRestr, List.mem_filterMap]; exact ⟨tk, htk, hr⟩
    have := (sat_kindRel r y).mp (h r hmem)
    rw [hk, he, hrhs] at this
    exact this
  · intro h r hr
    obtain ⟨tk, htk, hrow⟩ := defineRestr_row hr
    by_cases hcov : coveredPos g tk.1 tk.2.1 = []
    · rw [(takeRow_spec kind u g mapping node tk y q hne hq).1 hcov] at hrow; cases hrow
    · obtain ⟨r', hr', hk, he, hrhs⟩ := (takeRow_spec kind u g mapping node tk y q hne hq).2 hcov
      rw [hr'] at hrow
      injection hrow with e
      subst e
      rw [sat_kindRel, hk, he, hrhs]
      exact h tk htk hcov

/-- the textbook take constraints, in terms of the model's take periods -/
theorem takesOK_iff (g : Grid) (u : Nat) (maxT minT : List Take) (q : Nat → Rat) :
    takesOK g u (maxT.map toPeriod) (minT.map toPeriod) q ↔
      (∀ tk ∈ maxT, coveredPos g tk.1 tk.2.1 ≠ [] →
        kindRel .U (((coveredPos g tk.1 tk.2.1).map q).sum)
          (tk.2.2 * ((coveredPos g tk.1 tk.2.1).map (dtOf g)).sum / takeDuration tk.1 tk.2.1 u)) ∧
      (∀ tk ∈ minT, coveredPos g tk.1 tk.2.1 ≠ [] →
        kindRel .L (((coveredPos g tk.1 tk.2.1).map q).sum)
          (tk.2.2 * ((coveredPos g tk.1 tk.2.1).map (dtOf g)).sum / takeDuration tk.1 tk.2.1 u)) := by
  simp only [takesOK, List.forall_mem_map]
  exact Iff.rfl

/-! ### the mapping rows of one step in a block -/

/-- in a block whose rows sit at pairwise different steps, the rows selected at the step of position `i` are
    exactly row `i` -/
theorem rowsAt_block (n : Nat) (mk : Nat → MapRow) (node : Option String) (idx : Nat → Nat)
    (hinj : ∀ i j, i < n → j < n → idx i = idx j → i = j)
    (hm : ∀ k, k < n → (mk k).step = idx k ∧ nodeOK node (mk k) = true) (i : Nat) (hi : i < n)
    (h : MapRow → Rat) :
    ((rowsAt ((List.range n).map mk) node (idx i)).map h).sum = h (mk i) ∧
    rowsAt ((List.range n).map mk) node (idx i) ≠ [] := by
  constructor
  · unfold rowsAt
    rw [sum_filter_ite, List.map_map, ← sum_range_pick n i hi (fun k => h (mk k))]
    congr 1
    apply List.map_congr_left
    intro k hk
    have hk' := List.mem_range.mp hk
    obtain ⟨h1, h2⟩ := hm k hk'
    by_cases he : k = i
    · subst he; simp [h1, h2]
    · have : ¬ idx k = idx i := fun h' => he (hinj k i hk' hi h')
      simp [he, h1, this]
  · apply List.ne_nil_of_mem (a := mk i)
    unfold rowsAt
    obtain ⟨h1, h2⟩ := hm i hi
    exact List.mem_filter.mpr ⟨List.mem_map.mpr ⟨i, List.mem_range.mpr hi, rfl⟩, by simp [h1, h2]⟩

/-- a block none of whose rows is at the node selects nothing -/
theorem rowsAt_block_off (n : Nat) (mk : Nat → MapRow) (node : Option String) (t : Nat)
    (hm : ∀ k, k < n → nodeOK node (mk k) = false) : rowsAt ((List.range n).map mk) node t = [] := by
  unfold rowsAt
  apply List.filter_eq_nil_iff.mpr
  intro m hmem
  obtain ⟨k, hk, rfl⟩ := List.mem_map.mp hmem
  simp [hm k (List.mem_range.mp hk)]

theorem rowsAt_append (A B : List MapRow) (node : Option String) (t : Nat) :
    rowsAt (A ++ B) node t = rowsAt A node t ++ rowsAt B node t := by
  unfold rowsAt; exact List.filter_append ..

/-! ### contracts in general: several commodities, take periods, one or two variables per step -/

/-- `MultiCommodityContract`: the mapping copied once per (node, factor); a plain contract is the case of one
    node with factor 1 (`multiMap_single`) -/
def multiMap (nodes : List (String × Rat)) (M : List MapRow) : List MapRow :=
  nodes.flatMap fun nf => M.map fun m => { m with node := some nf.1, factor := m.factor * nf.2 }

theorem multiMap_single (nd : String) (M : List MapRow) (h : ∀ m ∈ M, m.node = some nd) :
    multiMap [(nd, 1)] M = M := by
  simp only [multiMap, List.flatMap_cons, List.flatMap_nil, List.append_nil]
  conv => rhs; rw [← List.map_id M]
  apply List.map_congr_left
  intro m hm
  have := h m hm
  cases m
  simp_all [Rat.mul_one]

/-- what a block of mapping rows puts into ANY node at step `t` -/
def stepFlow (M : List MapRow) (t : Nat) (y : Vec) : Rat :=
  ((M.filter fun m => m.kind == .d && m.step == t).map (·.contrib y)).sum

theorem stepFlow_append (A B : List MapRow) (t : Nat) (y : Vec) :
    stepFlow (A ++ B) t y = stepFlow A t y + stepFlow B t y := by
  simp [stepFlow, List.filter_append, List.sum_append]

theorem stepFlow_block (n : Nat) (mk : Nat → MapRow) (idx : Nat → Nat) (v : Nat → Rat) (t : Nat) (y : Vec)
    (hm : ∀ k, k < n → (mk k).kind = .d ∧ (mk k).step = idx k ∧ (mk k).contrib y = v k) :
    stepFlow ((List.range n).map mk) t y = sumN (fun k => if idx k = t then v k else 0) n := by
  unfold stepFlow
  rw [sum_filter_ite, List.map_map, sum_range_eq_sumN]
  apply sumN_congr
  intro k hk
  obtain ⟨h1, h2, h3⟩ := hm k hk
  simp [h1, h2, h3]

theorem sum_map_mul_const {α} (c : Rat) (f : α → Rat) (l : List α) :
    (l.map fun a => c * f a).sum = c * (l.map f).sum := by
  induction l with
  | nil => simp
  | cons a l ih => simp only [List.map_cons, List.sum_cons, ih]; grind

/-- flows of a multi-commodity mapping: `factor_k ·` (what the underlying rows move) at node `k` -/
theorem flow_multiMap (nodes : List (String × Rat)) (M : List MapRow) (node : String) (t : Nat) (y : Vec) :
    (((multiMap nodes M).filter (isDisp node t)).map (·.contrib y)).sum
      = ((nodes.filter fun nf => nf.1 == node).map fun nf => nf.2 * stepFlow M t y).sum := by
  induction nodes with
  | nil => simp [multiMap]
  | cons nf rest ih =>
    have hsplit : multiMap (nf :: rest) M
        = (M.map fun m => { m with node := some nf.1, factor := m.factor * nf.2 }) ++ multiMap rest M := by
      simp [multiMap]
    rw [hsplit, List.filter_append, List.map_append, List.sum_append, ih, List.filter_map, List.map_map]
    by_cases hn : nf.1 = node
    · have hp : (isDisp node t ∘ fun m : MapRow => { m with node := some nf.1, factor := m.factor * nf.2 })
          = fun m => m.kind == .d && m.step == t := by
        funext m; simp [isDisp, hn]
      have hc : ((fun m : MapRow => m.contrib y) ∘ fun m : MapRow => { m with node := some nf.1, factor := m.factor * nf.2 })
          = fun m => nf.2 * m.contrib y := by
        funext m; simp only [Function.comp, MapRow.contrib]; grind
      rw [hp, hc, sum_map_mul_const]
      simp [List.filter_cons, hn, stepFlow]
    · have hp : (isDisp node t ∘ fun m : MapRow => { m with node := some nf.1, factor := m.factor * nf.2 })
          = fun _ => false := by
        funext m; simp [isDisp, hn]
      rw [hp]
      have hf : List.filter (fun _ : MapRow => false) M = [] := List.filter_eq_nil_iff.mpr (by simp)
      rw [hf]
      simp [List.filter_cons, hn, Rat.zero_add]

theorem dispBlock_range (asset node vn : String) (off : Nat) (g : Grid) :
    dispBlock asset node vn off g
      = (List.range g.idx.length).map fun k => dispRow asset node vn (off + k) (g.idx.getD k 0) := by
  unfold dispBlock
  exact zipIdx_map_range g.idx _

/-- steps of the window are pairwise different (they are increasing reference indices) -/
def IdxInj (g : Grid) : Prop := ∀ i j, i < g.T → j < g.T → g.idx.getD i 0 = g.idx.getD j 0 → i = j

theorem inBounds_two_blocks (A1 A2 B1 B2 : List Rat) (n : Nat) (h1 : A1.length = n) (h2 : A2.length = n)
    (h3 : B1.length = n) (y : Vec) :
    InBounds (A1 ++ A2) (B1 ++ B2) y ↔
      ∀ k, k < n → (A1.getD k 0 ≤ y k ∧ y k ≤ B1.getD k 0) ∧
                   (A2.getD k 0 ≤ y (n + k) ∧ y (n + k) ≤ B2.getD k 0) := by
  simp only [InBounds, List.length_append, h1, h2]
  constructor
  · intro h k hk
    have a := h k (by omega)
    have b := h (n + k) (by omega)
    rw [getD_app_left _ _ _ (by omega), getD_app_left _ _ _ (by omega)] at a
    rw [getD_app_right _ _ _ (by omega), getD_app_right _ _ _ (by omega), h1, h3, Nat.add_sub_cancel_left] at b
    exact ⟨a, b⟩
  · intro h j hj
    by_cases hjn : j < n
    · rw [getD_app_left _ _ _ (by omega), getD_app_left _ _ _ (by omega)]
      exact (h j hjn).1
    · rw [getD_app_right _ _ _ (by omega), getD_app_right _ _ _ (by omega), h1, h3]
      have := (h (j - n) (by omega)).2
      have e : n + (j - n) = j := by omega
      rw [e] at this
      exact this

theorem getD_map_fn (f : Rat → Rat) (l : List Rat) (k : Nat) (hk : k < l.length) :
    (l.map f).getD k 0 = f (l.getD k 0) := by
  simp [List.getD_eq_getElem?_getD, hk]

theorem onevar_cost_off (cvec df : List Rat) (n off : Nat) (h1 : cvec.length = n) (h2 : df.length = n) (y : Vec)
    (w : Nat → Rat) (hpt : ∀ j, j < n → cvec.getD j 0 * df.getD j 0 * y (off + j) = w j) :
    costAt (List.zipWith (· * ·) cvec df) off y = sumN w n := by
  rw [costAt_eq_sum_range, sum_range_eq_sumN]
  have hl : (List.zipWith (· * ·) cvec df).length = n := by simp [h1, h2]
  rw [hl]
  apply sumN_congr
  intro j hj
  rw [getD_zipWith_mul _ _ _ (by omega) (by omega)]
  exact hpt j hj

/-- cost of the two-variable contract, step by step -/
theorem contract_cost_two (p : ContractP) (g : Grid) (hg : g.Ok) (d : SCData)
    (hl : d.price.length = g.T ∧ d.ec.length = g.T ∧ d.minC.length = g.T ∧ d.maxC.length = g.T) (y : Vec) :
    - costAt (scTwo p g d).c 0 y
      = sumN (fun j => -((d.price.getD j 0 - d.ec.getD j 0) * dfOf g j * y j
                         + (d.price.getD j 0 + d.ec.getD j 0) * dfOf g j * y (g.T + j))) g.T := by
  simp only [scTwo]
  rw [costAt_append, sumN_neg, sumN_add]
  have hlen : (List.zipWith (· * ·) (List.zipWith (· - ·) d.price d.ec) g.df).length = g.T := by
    simp [hl.1, hl.2.1, hg.2.2]
  rw [hlen,
    onevar_cost_off _ _ g.T 0 (by simp [hl.1, hl.2.1]) hg.2.2 y
      (fun j => (d.price.getD j 0 - d.ec.getD j 0) * dfOf g j * y j) (by
        intro j hj
        rw [getD_zipWith _ _ _ _ (by omega) (by omega), Nat.zero_add]; rfl),
    onevar_cost_off _ _ g.T (0 + g.T) (by simp [hl.1, hl.2.1]) hg.2.2 y
      (fun j => (d.price.getD j 0 + d.ec.getD j 0) * dfOf g j * y (g.T + j)) (by
        intro j hj
        rw [getD_zipWith _ _ _ _ (by omega) (by omega), Nat.zero_add]; rfl)]

/-- the textbook contract over per-step lists, several commodities and take periods -/
def contractSG (lo hi price ec : List Rat) (nodes : List (String × Rat)) (maxT minT : List Take) (u : Nat) :
    ContractS :=
  { minRate := fun k => lo.getD k 0, maxRate := fun k => hi.getD k 0, price := fun k => price.getD k 0,
    extra := fun k => ec.getD k 0, nodes := nodes, maxTake := maxT.map toPeriod, minTake := minT.map toPeriod,
    unitSec := u }

/-- a simple-contract problem `a` with take rows (built on ITS mapping) and its mapping copied per commodity:
    what `buildSimpleContract`, `buildContract` and `buildMulti` return -/
def contractP (a : AssetProblem) (g : Grid) (u : Nat) (nodes : List (String × Rat)) (maxT minT : List Take) :
    AssetProblem :=
  { a with rows := a.rows ++ defineRestr .U u g a.mapping none maxT ++ defineRestr .L u g a.mapping none minT,
           mapping := multiMap nodes a.mapping }

theorem contract_rows_iff (a : AssetProblem) (ha : a.rows = []) (g : Grid) (u : Nat) (nodes : List (String × Rat))
    (maxT minT : List Take) (y : Vec) (q : Nat → Rat)
    (hne : ∀ i, i < g.T → rowsAt a.mapping none (g.idx.getD i 0) ≠ [])
    (hq : ∀ i, i < g.T → ((rowsAt a.mapping none (g.idx.getD i 0)).map fun m => m.factor * y m.var).sum = q i) :
    (∀ r ∈ (contractP a g u nodes maxT minT).rows, r.Sat y) ↔
      takesOK g u (maxT.map toPeriod) (minT.map toPeriod) q := by
  rw [takesOK_iff, ← defineRestr_iff .U u g a.mapping none maxT y q hne hq,
    ← defineRestr_iff .L u g a.mapping none minT y q hne hq]
  simp only [contractP, ha, List.nil_append, List.mem_append]
  constructor
  · intro h; exact ⟨fun r hr => h r (Or.inl hr), fun r hr => h r (Or.inr hr)⟩
  · rintro ⟨h1, h2⟩ r (hr | hr)
    · exact h1 r hr
    · exact h2 r hr

theorem contract_flow_gen (a : AssetProblem) (g : Grid) (u : Nat) (nodes : List (String × Rat))
    (maxT minT : List Take) (lo hi price ec : List Rat) (node : String) (t : Nat) (y : Vec) (q : Nat → Rat)
    (hsf : stepFlow a.mapping t y = atStep g t q) :
    flowOf (contractP a g u nodes maxT minT) node t y
      = (contractSG lo hi price ec nodes maxT minT u).flows g q node t := by
  simp only [flowOf, contractP, ContractS.flows, contractSG]
  rw [flow_multiMap, hsf]

/-- the mapping rows of one step, one-variable form -/
theorem takes_one (p : ContractP) (g : Grid) (hg : g.Ok) (hinj : IdxInj g) (d : SCData) (y : Vec) :
    (∀ i, i < g.T → rowsAt (scOne p g d).mapping none (g.idx.getD i 0) ≠ []) ∧
    (∀ i, i < g.T →
      ((rowsAt (scOne p g d).mapping none (g.idx.getD i 0)).map fun m => m.factor * y m.var).sum = y i) := by
  simp only [scOne, dispBlock_range, hg.1]
  have hb := fun i hi => rowsAt_block g.T (fun k => dispRow p.name d.node "disp" (0 + k) (g.idx.getD k 0)) none
    (fun k => g.idx.getD k 0) hinj (fun k _ => ⟨rfl, rfl⟩) i hi (fun m => m.factor * y m.var)
  constructor
  · intro i hi; exact (hb i hi).2
  · intro i hi
    rw [(hb i hi).1]
    simp [dispRow, Rat.one_mul]

theorem takes_two (p : ContractP) (g : Grid) (hg : g.Ok) (hinj : IdxInj g) (d : SCData) (y : Vec) :
    (∀ i, i < g.T → rowsAt (scTwo p g d).mapping none (g.idx.getD i 0) ≠ []) ∧
    (∀ i, i < g.T →
      ((rowsAt (scTwo p g d).mapping none (g.idx.getD i 0)).map fun m => m.factor * y m.var).sum
        = y i + y (g.T + i)) := by
  simp only [scTwo, dispBlock_range, hg.1, rowsAt_append]
  have hb1 := fun i hi => rowsAt_block g.T (fun k => dispRow p.name d.node "disp_in" (0 + k) (g.idx.getD k 0)) none
    (fun k => g.idx.getD k 0) hinj (fun k _ => ⟨rfl, rfl⟩) i hi (fun m => m.factor * y m.var)
  have hb2 := fun i hi => rowsAt_block g.T (fun k => dispRow p.name d.node "disp_out" (g.T + k) (g.idx.getD k 0)) none
    (fun k => g.idx.getD k 0) hinj (fun k _ => ⟨rfl, rfl⟩) i hi (fun m => m.factor * y m.var)
  constructor
  · intro i hi
    exact List.append_ne_nil_of_left_ne_nil (hb1 i hi).2 _
  · intro i hi
    rw [List.map_append, List.sum_append, (hb1 i hi).1, (hb2 i hi).1]
    simp [dispRow, Rat.one_mul]

theorem stepFlow_one (p : ContractP) (g : Grid) (hg : g.Ok) (d : SCData) (t : Nat) (y : Vec) :
    stepFlow (scOne p g d).mapping t y = atStep g t y := by
  simp only [scOne, dispBlock_range, hg.1]
  rw [stepFlow_block g.T _ (stepOf g) (fun k => y k) t y
        (fun k _ => ⟨rfl, rfl, by simp [MapRow.contrib, dispRow]⟩)]
  rfl

theorem stepFlow_two (p : ContractP) (g : Grid) (hg : g.Ok) (d : SCData) (t : Nat) (y : Vec) (q : Nat → Rat)
    (hq : ∀ k, k < g.T → q k = y k + y (g.T + k)) :
    stepFlow (scTwo p g d).mapping t y = atStep g t q := by
  simp only [scTwo, dispBlock_range, hg.1, stepFlow_append]
  rw [stepFlow_block g.T _ (stepOf g) (fun k => y k) t y
        (fun k _ => ⟨rfl, rfl, by simp [MapRow.contrib, dispRow]⟩),
      stepFlow_block g.T _ (stepOf g) (fun k => y (g.T + k)) t y
        (fun k _ => ⟨rfl, rfl, by simp [MapRow.contrib, dispRow]⟩),
      ← sumN_add]
  unfold atStep
  apply sumN_congr
  intro k hk
  rw [hq k hk]
  by_cases h : stepOf g k = t <;> simp [h] <;> grind

/-- **contracts, one-variable form, in general** (take periods, several commodities): same attainable pairs -/
theorem contract_gen_one (p : ContractP) (g : Grid) (hg : g.Ok) (hinj : IdxInj g) (d : SCData) (lo hi : List Rat)
    (hl : d.price.length = g.T ∧ d.ec.length = g.T ∧ d.minC.length = g.T ∧ d.maxC.length = g.T)
    (hlol : lo.length = g.T) (hhil : hi.length = g.T)
    (hlo' : d.minC = List.zipWith (· * ·) lo g.dt) (hhi' : d.maxC = List.zipWith (· * ·) hi g.dt)
    (hone : oneVariable d.ec d.minC d.maxC = true)
    (u : Nat) (nodes : List (String × Rat)) (maxT minT : List Take) :
    RefinesExactly (contractP (scOne p g d) g u nodes maxT minT)
      (contractSem (contractSG lo hi d.price d.ec nodes maxT minT u) g) := by
  have hvol : ∀ q : Nat → Rat,
      (∀ k, k < g.T → lo.getD k 0 * dtOf g k ≤ q k ∧ q k ≤ hi.getD k 0 * dtOf g k) →
      ∀ k, k < g.T → d.minC.getD k 0 ≤ q k ∧ q k ≤ d.maxC.getD k 0 := by
    intro q hq k hk
    rw [hlo', hhi', getD_zipWith_mul _ _ _ (by omega) (by rw [hg.2.1]; exact hk),
      getD_zipWith_mul _ _ _ (by omega) (by rw [hg.2.1]; exact hk)]
    exact hq k hk
  have hfeas : ∀ y : Vec, (contractP (scOne p g d) g u nodes maxT minT).FeasibleRelaxed y ↔
      (contractSG lo hi d.price d.ec nodes maxT minT u).Feasible g y := by
    intro y
    obtain ⟨hne, hq⟩ := takes_one p g hg hinj d y
    unfold AssetProblem.FeasibleRelaxed ContractS.Feasible
    rw [contract_rows_iff (scOne p g d) rfl g u nodes maxT minT y y hne hq]
    have : InBounds (contractP (scOne p g d) g u nodes maxT minT).l (contractP (scOne p g d) g u nodes maxT minT).u y
        ↔ ∀ k, k < g.T → lo.getD k 0 * dtOf g k ≤ y k ∧ y k ≤ hi.getD k 0 * dtOf g k := by
      show InBounds d.minC d.maxC y ↔ _
      rw [hlo', hhi']
      exact contract_bounds_iff lo hi g hg hlol hhil y
    rw [this]
    exact Iff.rfl
  have hflow : ∀ (y : Vec) n t, flowOf (contractP (scOne p g d) g u nodes maxT minT) n t y
      = (contractSG lo hi d.price d.ec nodes maxT minT u).flows g y n t :=
    fun y n t => contract_flow_gen _ g u nodes maxT minT lo hi d.price d.ec n t y y (stepFlow_one p g hg d t y)
  have hcash : ∀ y : Vec, (contractSG lo hi d.price d.ec nodes maxT minT u).Feasible g y →
      - costAt (contractP (scOne p g d) g u nodes maxT minT).c 0 y
        = (contractSG lo hi d.price d.ec nodes maxT minT u).cash g y :=
    fun y hy => contract_cash_one p g hg d lo hi y hl hone (hvol y hy.1)
  intro fl c
  constructor
  · rintro ⟨q, hq, hfl, rfl⟩
    exact ⟨q, (hfeas q).mpr hq, fun n t => by rw [hfl n t, hflow], (hcash q hq).symm⟩
  · rintro ⟨y, hy, hfl, rfl⟩
    have hs := (hfeas y).mp hy
    exact ⟨y, hs, fun n t => by rw [hfl n t, hflow], hcash y hs⟩

theorem rmin_mono (a b : Rat) (h : a ≤ b) : rmin 0 a ≤ rmin 0 b := by unfold rmin; split <;> split <;> grind
theorem rmax_mono (a b : Rat) (h : a ≤ b) : rmax 0 a ≤ rmax 0 b := by unfold rmax; split <;> split <;> grind
theorem rmin_nonpos (a : Rat) : rmin 0 a ≤ 0 := by unfold rmin; split <;> grind
theorem rmax_nonneg (a : Rat) : 0 ≤ rmax 0 a := by unfold rmax; split <;> grind
theorem absR_split (q : Rat) : absR q = rmax 0 q - rmin 0 q := by unfold absR rmax rmin; split <;> grind
theorem absR_net (a b : Rat) (ha : a ≤ 0) (hb : 0 ≤ b) : absR (a + b) ≤ b - a := by unfold absR; split <;> grind

/-- bounds of the two-variable contract -/
theorem contract_bounds_two (p : ContractP) (g : Grid) (d : SCData)
    (hl : d.price.length = g.T ∧ d.ec.length = g.T ∧ d.minC.length = g.T ∧ d.maxC.length = g.T) (y : Vec) :
    InBounds (scTwo p g d).l (scTwo p g d).u y ↔
      ∀ k, k < g.T → (rmin 0 (d.minC.getD k 0) ≤ y k ∧ y k ≤ rmin 0 (d.maxC.getD k 0)) ∧
                     (rmax 0 (d.minC.getD k 0) ≤ y (g.T + k) ∧ y (g.T + k) ≤ rmax 0 (d.maxC.getD k 0)) := by
  simp only [scTwo]
  rw [inBounds_two_blocks _ _ _ _ g.T (by simp [hl.2.2.1]) (by simp [hl.2.2.1]) (by simp [hl.2.2.2])]
  constructor
  · intro h k hk
    have := h k hk
    rw [getD_map_fn _ _ _ (by omega), getD_map_fn _ _ _ (by omega), getD_map_fn _ _ _ (by omega),
      getD_map_fn _ _ _ (by omega)] at this
    exact this
  · intro h k hk
    rw [getD_map_fn _ _ _ (by omega), getD_map_fn _ _ _ (by omega), getD_map_fn _ _ _ (by omega),
      getD_map_fn _ _ _ (by omega)]
    exact h k hk

/-- **contracts, two-variable form, in general** (take periods, several commodities), for a non-negative
    spread and non-negative discount factors: textbook → model by splitting `q` into its negative and positive
    part (same flows, same cash); model → textbook by netting `q = x_in + x_out` (same flows, no less cash) -/
theorem contract_gen_two (p : ContractP) (g : Grid) (hg : g.Ok) (hinj : IdxInj g) (d : SCData) (lo hi : List Rat)
    (hl : d.price.length = g.T ∧ d.ec.length = g.T ∧ d.minC.length = g.T ∧ d.maxC.length = g.T)
    (hlo' : d.minC = List.zipWith (· * ·) lo g.dt) (hhi' : d.maxC = List.zipWith (· * ·) hi g.dt)
    (hec : ∀ k, k < g.T → 0 ≤ d.ec.getD k 0) (hdf : ∀ k, k < g.T → 0 ≤ dfOf g k)
    (u : Nat) (nodes : List (String × Rat)) (maxT minT : List Take) :
    Refines (contractP (scTwo p g d) g u nodes maxT minT)
      (contractSem (contractSG lo hi d.price d.ec nodes maxT minT u) g) := by
  have hvol : ∀ k, k < g.T → d.minC.getD k 0 = lo.getD k 0 * dtOf g k ∧ d.maxC.getD k 0 = hi.getD k 0 * dtOf g k := by
    intro k hk
    have h1 : k < lo.length := by
      have := hl.2.2.1; rw [hlo'] at this; simp at this; omega
    have h2 : k < hi.length := by
      have := hl.2.2.2; rw [hhi'] at this; simp at this; omega
    rw [hlo', hhi', getD_zipWith_mul _ _ _ h1 (by rw [hg.2.1]; exact hk),
      getD_zipWith_mul _ _ _ h2 (by rw [hg.2.1]; exact hk)]
    exact ⟨rfl, rfl⟩
  -- what related points share: take rows and flows
  have hshare : ∀ (y : Vec) (q : Nat → Rat), (∀ k, k < g.T → q k = y k + y (g.T + k)) →
      ((∀ r ∈ (contractP (scTwo p g d) g u nodes maxT minT).rows, r.Sat y) ↔
        takesOK g u (maxT.map toPeriod) (minT.map toPeriod) q) ∧
      (∀ n t, flowOf (contractP (scTwo p g d) g u nodes maxT minT) n t y
        = (contractSG lo hi d.price d.ec nodes maxT minT u).flows g q n t) := by
    intro y q hq
    obtain ⟨hne, hs⟩ := takes_two p g hg hinj d y
    exact ⟨contract_rows_iff (scTwo p g d) rfl g u nodes maxT minT y q hne
        (fun i hi => by rw [hs i hi, hq i hi]),
      fun n t => contract_flow_gen _ g u nodes maxT minT lo hi d.price d.ec n t y q (stepFlow_two p g hg d t y q hq)⟩
  constructor
  · -- textbook → model
    rintro fl c ⟨q, ⟨hb, htk⟩, hfl, rfl⟩
    let y : Vec := fun j => if j < g.T then rmin 0 (q j) else rmax 0 (q (j - g.T))
    have hy1 : ∀ k, k < g.T → y k = rmin 0 (q k) := fun k hk => by simp [y, hk]
    have hy2 : ∀ k, y (g.T + k) = rmax 0 (q k) := by
      intro k
      show (if g.T + k < g.T then rmin 0 (q (g.T + k)) else rmax 0 (q (g.T + k - g.T))) = _
      rw [if_neg (by omega), Nat.add_sub_cancel_left]
    have hq : ∀ k, k < g.T → q k = y k + y (g.T + k) := by
      intro k hk; rw [hy1 k hk, hy2 k, rmin_add_rmax]
    obtain ⟨hrows, hflow⟩ := hshare y q hq
    refine ⟨_, Rat.le_refl, y, ⟨?_, hrows.mpr htk⟩, fun n t => by rw [hfl n t, hflow], ?_⟩
    · show InBounds (scTwo p g d).l (scTwo p g d).u y
      rw [contract_bounds_two p g d hl]
      intro k hk
      obtain ⟨b1, b2⟩ := hb k hk
      simp only [contractSG] at b1 b2
      rw [← (hvol k hk).1] at b1
      rw [← (hvol k hk).2] at b2
      rw [hy1 k hk, hy2 k]
      exact ⟨⟨rmin_mono _ _ b1, rmin_mono _ _ b2⟩, ⟨rmax_mono _ _ b1, rmax_mono _ _ b2⟩⟩
    · show (contractSG lo hi d.price d.ec nodes maxT minT u).cash g q
          = - costAt (scTwo p g d).c 0 y
      rw [contract_cost_two p g hg d hl y]
      simp only [ContractS.cash, contractSG]
      apply sumN_congr
      intro j hj
      rw [hy1 j hj, hy2 j, absR_split]
      have := rmin_add_rmax (q j)
      grind
  · -- model → textbook
    rintro fl c ⟨y, ⟨hbd, hr⟩, hfl, rfl⟩
    let q : Nat → Rat := fun k => y k + y (g.T + k)
    have hq : ∀ k, k < g.T → q k = y k + y (g.T + k) := fun _ _ => rfl
    obtain ⟨hrows, hflow⟩ := hshare y q hq
    have hb := (contract_bounds_two p g d hl y).mp hbd
    refine ⟨(contractSG lo hi d.price d.ec nodes maxT minT u).cash g q, ?_, q, ⟨?_, hrows.mp hr⟩,
      fun n t => by rw [hfl n t, hflow], rfl⟩
    · show - costAt (scTwo p g d).c 0 y ≤ _
      rw [contract_cost_two p g hg d hl y]
      simp only [ContractS.cash, contractSG]
      apply sumN_le
      intro j hj
      obtain ⟨⟨_, b2⟩, ⟨b3, _⟩⟩ := hb j hj
      have h1 : y j ≤ 0 := Rat.le_trans b2 (rmin_nonpos _)
      have h2 : 0 ≤ y (g.T + j) := Rat.le_trans (rmax_nonneg _) b3
      have hw : 0 ≤ dfOf g j * d.ec.getD j 0 := Rat.mul_nonneg (hdf j hj) (hec j hj)
      have := Rat.mul_le_mul_of_nonneg_left (absR_net _ _ h1 h2) hw
      show _ ≤ -(dfOf g j * (d.price.getD j 0 * (y j + y (g.T + j)) + d.ec.getD j 0 * absR (y j + y (g.T + j))))
      grind
    · intro k hk
      obtain ⟨⟨b1, b2⟩, ⟨b3, b4⟩⟩ := hb k hk
      have e1 := rmin_add_rmax (d.minC.getD k 0)
      have e2 := rmin_add_rmax (d.maxC.getD k 0)
      simp only [contractSG]
      rw [← (hvol k hk).1, ← (hvol k hk).2]
      show d.minC.getD k 0 ≤ y k + y (g.T + k) ∧ y k + y (g.T + k) ≤ d.maxC.getD k 0
      grind

/-! ### extended transport: take rows at the first node -/

theorem transportBlock_range (asset node : String) (f : Rat) (g : Grid) :
    transportBlock asset node f g
      = (List.range g.idx.length).map fun k =>
          ({ var := k, asset := asset, node := some node, kind := .d, step := g.idx.getD k 0, factor := f,
             isBool := false, varName := "disp" } : MapRow) := by
  unfold transportBlock
  exact zipIdx_map_range g.idx _

/-- the mapping rows of one step at the first node of a transport: the row with factor −1 -/
theorem takes_transport (p : TransportP) (g : Grid) (hg : g.Ok) (hinj : IdxInj g) (n0 n1 : String) (cts : List Rat)
    (h01 : n0 ≠ n1) (y : Vec) :
    (∀ i, i < g.T → rowsAt (trProblem p g n0 n1 cts).mapping (some n0) (g.idx.getD i 0) ≠ []) ∧
    (∀ i, i < g.T →
      ((rowsAt (trProblem p g n0 n1 cts).mapping (some n0) (g.idx.getD i 0)).map fun m => m.factor * y m.var).sum
        = -(y i)) := by
  simp only [trProblem, transportBlock_range, hg.1, rowsAt_append]
  have hoff : ∀ t, rowsAt ((List.range g.T).map fun k =>
      ({ var := k, asset := p.name, node := some n1, kind := .d, step := g.idx.getD k 0, factor := p.efficiency,
         isBool := false, varName := "disp" } : MapRow)) (some n0) t = [] := by
    intro t
    apply rowsAt_block_off
    intro k _
    have : ¬ (n1 = n0) := fun e => h01 e.symm
    simp [nodeOK, this]
  have hb := fun i hi => rowsAt_block g.T (fun k =>
      ({ var := k, asset := p.name, node := some n0, kind := .d, step := g.idx.getD k 0, factor := -1,
         isBool := false, varName := "disp" } : MapRow)) (some n0)
    (fun k => g.idx.getD k 0) hinj (fun k _ => ⟨rfl, by simp [nodeOK]⟩) i hi (fun m => m.factor * y m.var)
  constructor
  · intro i hi
    exact List.append_ne_nil_of_left_ne_nil (hb i hi).2 _
  · intro i hi
    rw [hoff, List.append_nil, (hb i hi).1]
    grind

/-- take rows of the extended transport ⇔ textbook take constraints on the volume leaving the first node -/
theorem ext_rows_iff (p : TransportP) (g : Grid) (hg : g.Ok) (hinj : IdxInj g) (n0 n1 : String) (cts : List Rat)
    (h01 : n0 ≠ n1) (u : Nat) (maxT minT : List Take) (y : Vec) :
    (∀ r ∈ defineRestr .L u g (trProblem p g n0 n1 cts).mapping (some n0) (maxT.map negTake)
          ++ defineRestr .U u g (trProblem p g n0 n1 cts).mapping (some n0) (minT.map negTake), r.Sat y) ↔
      takesOK g u (maxT.map toPeriod) (minT.map toPeriod) y := by
  obtain ⟨hne, hq⟩ := takes_transport p g hg hinj n0 n1 cts h01 y
  rw [takesOK_iff]
  have hsum : ∀ l : List Nat, (l.map fun i => -(y i)).sum = -(l.map y).sum := fun l => sum_map_neg y l
  simp only [List.mem_append]
  constructor
  · intro h
    have hL := (defineRestr_iff .L u g _ (some n0) (maxT.map negTake) y (fun i => -(y i)) hne hq).mp
      (fun r hr => h r (Or.inl hr))
    have hU := (defineRestr_iff .U u g _ (some n0) (minT.map negTake) y (fun i => -(y i)) hne hq).mp
      (fun r hr => h r (Or.inr hr))
    constructor
    · intro tk htk hcov
      have := hL (negTake tk) (List.mem_map.mpr ⟨tk, htk, rfl⟩) hcov
      simp only [negTake, kindRel, hsum] at this ⊢
      grind
    · intro tk htk hcov
      have := hU (negTake tk) (List.mem_map.mpr ⟨tk, htk, rfl⟩) hcov
      simp only [negTake, kindRel, hsum] at this ⊢
      grind
  · rintro ⟨h1, h2⟩ r (hr | hr)
    · refine (defineRestr_iff .L u g _ (some n0) (maxT.map negTake) y (fun i => -(y i)) hne hq).mpr ?_ r hr
      intro tk' htk' hcov
      obtain ⟨tk, htk, rfl⟩ := List.mem_map.mp htk'
      have := h1 tk htk hcov
      simp only [negTake, kindRel, hsum] at this ⊢
      grind
    · refine (defineRestr_iff .U u g _ (some n0) (minT.map negTake) y (fun i => -(y i)) hne hq).mpr ?_ r hr
      intro tk' htk' hcov
      obtain ⟨tk, htk, rfl⟩ := List.mem_map.mp htk'
      have := h2 tk htk hcov
      simp only [negTake, kindRel, hsum] at this ⊢
      grind

/-! ### the empty window -/

/-- a problem without variables, rows and mapping rows attains exactly (no flow, no cash) -/
theorem empty_attain (P : AssetProblem) (h : P.c = [] ∧ P.l = [] ∧ P.rows = [] ∧ P.mapping = [])
    (fl : Flows) (c : Rat) : (attainEAO P).Attain fl c ↔ (∀ n t, fl n t = 0) ∧ c = 0 := by
  obtain ⟨hc, hl, hr, hm⟩ := h
  constructor
  · rintro ⟨y, _, hfl, rfl⟩
    refine ⟨fun n t => by rw [hfl n t]; simp [flowOf, hm], ?_⟩
    rw [hc]; simp [costAt]
  · rintro ⟨hfl, rfl⟩
    refine ⟨fun _ => 0, ⟨?_, ?_⟩, fun n t => by rw [hfl n t]; simp [flowOf, hm], ?_⟩
    · intro j hj; rw [hl] at hj; simp at hj
    · intro r hr'; rw [hr] at hr'; simp at hr'
    · rw [hc]; simp [costAt]

theorem atStep_empty (g : Grid) (hT : g.T = 0) (t : Nat) (f : Nat → Rat) : atStep g t f = 0 := by
  unfold atStep; rw [hT]; exact sumN_zero _

theorem covered_empty (p : Period) (g : Grid) (hT : g.T = 0) : p.covered g = [] := by
  unfold Period.covered; rw [hT]; rfl

theorem takesOK_empty (g : Grid) (hT : g.T = 0) (u : Nat) (maxT minT : List Period) (q : Nat → Rat) :
    takesOK g u maxT minT q :=
  ⟨fun p _ h => absurd (covered_empty p g hT) h, fun p _ h => absurd (covered_empty p g hT) h⟩

theorem contractSem_empty (c : ContractS) (g : Grid) (hT : g.T = 0) (fl : Flows) (v : Rat) :
    (contractSem c g).Attain fl v ↔ (∀ n t, fl n t = 0) ∧ v = 0 := by
  have hflow : ∀ q n t, c.flows g q n t = 0 := by
    intro q n t
    simp only [ContractS.flows, atStep_empty g hT]
    have : ((c.nodes.filter fun nf => nf.1 == n).map fun nf => nf.2 * (0 : Rat))
        = (c.nodes.filter fun nf => nf.1 == n).map fun _ => (0 : Rat) := by
      apply List.map_congr_left; intro a _; grind
    rw [this, sum_map_zero_rat]
  have hcash : ∀ q, c.cash g q = 0 := by intro q; unfold ContractS.cash; rw [hT]; exact sumN_zero _
  constructor
  · rintro ⟨q, _, hfl, rfl⟩
    exact ⟨fun n t => by rw [hfl n t, hflow], hcash q⟩
  · rintro ⟨hfl, rfl⟩
    exact ⟨fun _ => 0, ⟨fun k hk => by omega, takesOK_empty g hT _ _ _ _⟩,
      fun n t => by rw [hfl n t, hflow], (hcash _).symm⟩

theorem transportSem_empty (r : TransportS) (g : Grid) (hT : g.T = 0) (fl : Flows) (v : Rat) :
    (transportSem r g).Attain fl v ↔ (∀ n t, fl n t = 0) ∧ v = 0 := by
  have hflow : ∀ f n t, r.flows g f n t = 0 := by
    intro f n t
    simp only [TransportS.flows, atStep_empty g hT]
    split <;> split <;> grind
  have hcash : ∀ f, r.cash g f = 0 := by intro f; unfold TransportS.cash; rw [hT]; exact sumN_zero _
  constructor
  · rintro ⟨f, _, hfl, rfl⟩
    exact ⟨fun n t => by rw [hfl n t, hflow], hcash f⟩
  · rintro ⟨hfl, rfl⟩
    exact ⟨fun _ => 0, ⟨fun k hk => by omega, takesOK_empty g hT _ _ _ _⟩,
      fun n t => by rw [hfl n t, hflow], (hcash _).symm⟩

theorem storageSem_empty (s : StorageS) (g : Grid) (hT : g.T = 0) (fl : Flows) (v : Rat) :
    (storageSem s g).Attain fl v ↔ (∀ n t, fl n t = 0) ∧ v = 0 := by
  have hflow : ∀ d n t, s.flows g d n t = 0 := by
    intro d n t
    simp only [StorageS.flows, atStep_empty g hT]
    split <;> split <;> grind
  have hcash : ∀ d, s.cash g d + s.holdingConstant g = 0 := by
    intro d
    unfold StorageS.cash StorageS.holdingConstant
    rw [hT, sumN_zero, sumN_zero]; grind
  constructor
  · rintro ⟨d, _, hfl, rfl⟩
    exact ⟨fun n t => by rw [hfl n t, hflow], hcash d⟩
  · rintro ⟨hfl, rfl⟩
    exact ⟨⟨fun _ => 0, fun _ => 0⟩, ⟨fun k hk => by omega, fun h => by omega⟩,
      fun n t => by rw [hfl n t, hflow], (hcash _).symm⟩

/-! ### what the three contract builders return, in terms of `contractP` -/

theorem sc_nodes (p : ContractP) (g : Grid) (d : SCData) :
    (∀ m ∈ (scOne p g d).mapping, m.node = some d.node) ∧ (∀ m ∈ (scTwo p g d).mapping, m.node = some d.node) := by
  constructor
  · intro m hm
    obtain ⟨i, hi, rfl⟩ := mem_dispBlock hm
    rfl
  · intro m hm
    simp only [scTwo, List.mem_append] at hm
    rcases hm with hm | hm <;> (obtain ⟨i, hi, rfl⟩ := mem_dispBlock hm; rfl)

theorem contractP_plain (a : AssetProblem) (nd : String) (ha : ∀ m ∈ a.mapping, m.node = some nd) (g : Grid)
    (u : Nat) (maxT minT : List Take) :
    contractP a g u [(nd, 1)] maxT minT
      = { a with rows := a.rows ++ defineRestr .U u g a.mapping none maxT ++ defineRestr .L u g a.mapping none minT } := by
  simp only [contractP, multiMap_single nd a.mapping ha]

theorem contractP_simple (a : AssetProblem) (nd : String) (ha : ∀ m ∈ a.mapping, m.node = some nd) (g : Grid)
    (u : Nat) : contractP a g u [(nd, 1)] [] [] = a := by
  rw [contractP_plain a nd ha]
  simp [defineRestr]

theorem contractSG_simple (lo hi price ec : List Rat) (nd : String) :
    contractSG lo hi price ec [(nd, 1)] [] [] 1 = contractS1 lo hi price ec nd := rfl

end EAO.Textbook
