import EAO.Model.FixSplit
import EAO.Lemmas.Fix
import EAO.Lemmas.Blocks
import EAO.Lemmas.Split
/-!
# Helper lemmas for `EAO.Properties.C15Split` (`fix_time_window` in the split set-up)
-/
namespace EAO.FixSplit
open EAO EAO.Split

/-! ### the loop -/

theorem fixInterval_ok {T : Nat} {w : FixI} {iv : IntervalIn} {xs : List Rat} {Q : Problem}
    (h : fixInterval T w iv xs = .ok Q) :
    ∃ loc, windowLocal T w iv = .ok loc ∧ iv.prob.n ≤ xs.length ∧
      Q = fixWindow iv.prob loc (xs.take iv.prob.n) := by
  unfold fixInterval at h
  cases hw : windowLocal T w iv with
  | error e => rw [hw] at h; cases h
  | ok loc =>
    rw [hw] at h
    by_cases hx : xs.length < iv.prob.n
    · simp [bind, Except.bind, hx] at h
    · simp [bind, Except.bind, hx, pure, Except.pure] at h
      exact ⟨loc, rfl, by omega, h.symm⟩

theorem windowLocalD_of_ok {T : Nat} {w : FixI} {iv : IntervalIn} {loc : List Nat}
    (h : windowLocal T w iv = .ok loc) : windowLocalD T w iv = loc := by
  simp [windowLocalD, h]

theorem keptIntervals_cons (iv : IntervalIn) (rest : List IntervalIn) :
    keptIntervals (iv :: rest) =
      if (!iv.steps.isEmpty && !decide (iv.prob.n = 0)) = true then iv :: keptIntervals rest
      else keptIntervals rest := by
  simp only [keptIntervals, List.filter_cons]

@[simp] theorem relabelNodal_n (I : List Nat) (P : Problem) : (relabelNodal I P).n = P.n := rfl

/-- what the loop returns when it succeeds -/
theorem fixSplitFrom_spec (T : Nat) (w : FixI) (x : List Rat) (ivs : List IntervalIn) :
    ∀ (off : Nat) (Qs : List Problem), fixSplitFrom T w x off ivs = .ok Qs →
      Qs = (withOffsets off (keptIntervals ivs)).map (fixedInterval T w x) ∧
      ∀ p ∈ withOffsets off (keptIntervals ivs),
        (∃ loc, windowLocal T w p.2 = .ok loc) ∧ p.1 + p.2.prob.n ≤ x.length := by
  induction ivs with
  | nil =>
    intro off Qs h
    simp [fixSplitFrom, pure, Except.pure] at h
    subst h
    simp [keptIntervals, withOffsets]
  | cons iv rest ih =>
    intro off Qs h
    rw [fixSplitFrom] at h
    rw [keptIntervals_cons]
    by_cases he : iv.steps.isEmpty = true
    · simp only [he, if_true] at h
      simp only [he, Bool.not_true, Bool.false_and, Bool.false_eq_true, if_false]
      exact ih off Qs h
    · simp only [he, Bool.false_eq_true, if_false] at h
      cases hq : fixInterval T w iv (x.drop off) with
      | error e => rw [hq] at h; cases h
      | ok Q =>
        rw [hq] at h
        obtain ⟨loc, hloc, hlen, hQ⟩ := fixInterval_ok hq
        have hn : Q.n = iv.prob.n := by rw [hQ]; rfl
        by_cases h0 : Q.n = 0
        · simp only [bind, Except.bind, h0, if_true] at h
          have : iv.prob.n = 0 := by omega
          simp only [this, decide_true, Bool.not_true, Bool.and_false, Bool.false_eq_true, if_false]
          exact ih off Qs h
        · simp only [bind, Except.bind, h0, if_false] at h
          have h0' : ¬ iv.prob.n = 0 := by omega
          have hcond : (!iv.steps.isEmpty && !decide (iv.prob.n = 0)) = true := by
            simp [he, h0']
          rw [if_pos hcond]
          cases hr : fixSplitFrom T w x (off + Q.n) rest with
          | error e => rw [hr] at h; cases h
          | ok Rs =>
            rw [hr] at h
            simp only [pure, Except.pure, Except.ok.injEq] at h
            obtain ⟨ih1, ih2⟩ := ih (off + Q.n) Rs hr
            rw [hn] at ih1 ih2
            constructor
            · rw [← h, withOffsets, List.map_cons, ← ih1]
              congr 1
              simp only [fixedInterval, windowLocalD_of_ok hloc, hQ]
            · intro p hp
              rw [withOffsets] at hp
              rcases List.mem_cons.mp hp with rfl | hp
              · refine ⟨⟨loc, hloc⟩, ?_⟩
                simp only [List.length_drop] at hlen
                show off + iv.prob.n ≤ x.length
                omega
              · exact ih2 p hp

theorem fixSplit_ok {T : Nat} {w : FixI} {x : List Rat} {ivs : List IntervalIn} {Qs : List Problem}
    (h : fixSplit T w x ivs = .ok Qs) : fixSplitFrom T w x 0 ivs = .ok Qs ∧ Qs ≠ [] := by
  unfold fixSplit at h
  cases hr : fixSplitFrom T w x 0 ivs with
  | error e => rw [hr] at h; cases h
  | ok Rs =>
    rw [hr] at h
    cases Rs with
    | nil => simp [bind, Except.bind] at h
    | cons R Rs =>
      simp [bind, Except.bind, pure, Except.pure] at h
      subst h
      exact ⟨rfl, by simp⟩

/-- pairs of a list zipped with its image -/
theorem mem_zip_map {α β} (L : List α) (f : α → β) (q : α × β) (h : q ∈ L.zip (L.map f)) :
    q.1 ∈ L ∧ q.2 = f q.1 := by
  induction L with
  | nil => simp at h
  | cons a L ih =>
    simp only [List.map_cons, List.zip_cons_cons, List.mem_cons] at h
    rcases h with rfl | h
    · exact ⟨List.mem_cons_self, rfl⟩
    · obtain ⟨h1, h2⟩ := ih h
      exact ⟨List.mem_cons_of_mem _ h1, h2⟩

theorem withOffsets_snd (off : Nat) (L : List IntervalIn) : (withOffsets off L).map (·.2) = L := by
  induction L generalizing off with
  | nil => rfl
  | cons a L ih => simp [withOffsets, ih]

theorem withOffsets_length (off : Nat) (L : List IntervalIn) : (withOffsets off L).length = L.length := by
  rw [← List.length_map (f := (·.2)), withOffsets_snd]

theorem mem_withOffsets_snd {off : Nat} {L : List IntervalIn} {p : Nat × IntervalIn}
    (h : p ∈ withOffsets off L) : p.2 ∈ L := by
  rw [← withOffsets_snd off L]
  exact List.mem_map_of_mem h

/-- the offset of the `k`-th contributing interval: the variables of those before it -/
theorem withOffsets_getElem (L : List IntervalIn) :
    ∀ (off k : Nat) (h : k < (withOffsets off L).length),
      ((withOffsets off L)[k]).1 = off + ((L.take k).map fun iv => iv.prob.n).sum := by
  induction L with
  | nil => intro off k h; simp [withOffsets] at h
  | cons a L ih =>
    intro off k h
    cases k with
    | zero => simp [withOffsets]
    | succ k =>
      simp only [withOffsets, List.getElem_cons_succ, List.take_succ_cons, List.map_cons, List.sum_cons]
      rw [ih (off + a.prob.n) k (by simpa [withOffsets] using h)]
      omega

/-! ### the window, local and original steps -/

theorem mem_localSteps (m : List Bool) (s : Nat) :
    s ∈ localSteps m ↔ s < m.length ∧ m.getD s false = true := by
  simp [localSteps, List.mem_filter, List.mem_range]

theorem cutMask_ok {m : List Bool} {steps : List Nat} {m' : List Bool} (h : cutMask m steps = .ok m') :
    (∀ t ∈ steps, t < m.length) ∧ m' = steps.map fun t => m.getD t false := by
  unfold cutMask at h
  by_cases hc : (steps.all fun t => decide (t < m.length)) = true
  · rw [if_pos hc] at h
    simp only [Except.ok.injEq] at h
    refine ⟨?_, h.symm⟩
    intro t ht
    have := List.all_eq_true.mp hc t ht
    simpa using this
  · rw [if_neg hc] at h
    cases h

theorem mapM_some_filterMap {α β} (f : α → Option β) :
    ∀ (L : List α) (ns : List β), L.mapM f = some ns → L.filterMap f = ns := by
  intro L
  induction L with
  | nil => intro ns h; simp at h; simp [h]
  | cons a L ih =>
    intro ns h
    rw [List.mapM_cons] at h
    cases hf : f a with
    | none => rw [hf] at h; simp at h
    | some b =>
      rw [hf] at h
      cases hr : L.mapM f with
      | none => rw [hr] at h; simp at h
      | some r =>
        rw [hr] at h
        simp at h
        rw [List.filterMap_cons, hf, ih r hr]
        exact h

theorem idxMask_ok {T : Nat} {is : List Int} {m : List Bool} (h : idxMask T is = .ok m) :
    m = (List.range T).map fun t => (is.filterMap (normIdx T)).contains t := by
  unfold idxMask at h
  cases hm : is.mapM (normIdx T) with
  | none => rw [hm] at h; cases h
  | some ns =>
    rw [hm] at h
    simp only [Except.ok.injEq] at h
    rw [mapM_some_filterMap _ _ _ hm, h]

theorem getD_map_lt {α β} (L : List α) (f : α → β) (s : Nat) (d : α) (e : β) (h : s < L.length) :
    (L.map f).getD s e = f (L.getD s d) := by
  simp [List.getD_eq_getElem?_getD, List.getElem?_map, List.getElem?_eq_getElem h]

theorem getD_mem {α} (L : List α) (s : Nat) (d : α) (h : s < L.length) : L.getD s d ∈ L := by
  simp [List.getD_eq_getElem?_getD, List.getElem?_eq_getElem h]

/-- **the sliced window names the local steps whose original step is in the window** -/
theorem windowLocal_mem {T : Nat} {w : FixI} {iv : IntervalIn} {loc : List Nat} (refPts : List Int)
    (h : windowLocal T w iv = .ok loc) (hg : iv.onGrid refPts) (s : Nat) :
    s ∈ loc ↔ s < iv.steps.length ∧ iv.steps.getD s 0 ∈ windowSteps T refPts w := by
  cases w with
  | mask bs =>
    simp only [windowLocal] at h
    cases hc : cutMask bs iv.steps with
    | error e => rw [hc] at h; cases h
    | ok m =>
      rw [hc] at h
      simp only [bind, Except.bind, pure, Except.pure, Except.ok.injEq] at h
      obtain ⟨hlt, hm⟩ := cutMask_ok hc
      subst h
      rw [mem_localSteps, hm, List.length_map]
      simp only [windowSteps, mem_localSteps]
      constructor
      · rintro ⟨h1, h2⟩
        rw [getD_map_lt _ _ _ 0 _ h1] at h2
        exact ⟨h1, hlt _ (getD_mem _ _ _ h1), h2⟩
      · rintro ⟨h1, _, h2⟩
        refine ⟨h1, ?_⟩
        rw [getD_map_lt _ _ _ 0 _ h1]
        exact h2
  | idx is =>
    simp only [windowLocal] at h
    cases hi : idxMask T is with
    | error e => rw [hi] at h; cases h
    | ok m0 =>
      rw [hi] at h
      simp only [bind, Except.bind] at h
      cases hc : cutMask m0 iv.steps with
      | error e => rw [hc] at h; cases h
      | ok m =>
        rw [hc] at h
        simp only [pure, Except.pure, Except.ok.injEq] at h
        obtain ⟨hlt, hm⟩ := cutMask_ok hc
        have hm0 := idxMask_ok hi
        subst h
        rw [mem_localSteps, hm, List.length_map]
        simp only [windowSteps]
        have key : ∀ t, t < m0.length →
            (m0.getD t false = true ↔ t ∈ is.filterMap (normIdx T)) := by
          intro t ht
          rw [hm0] at ht ⊢
          rw [List.length_map, List.length_range] at ht
          rw [getD_map_lt _ _ _ 0 _ (by simpa using ht)]
          simp [List.getD_eq_getElem?_getD, List.getElem?_range ht]
        constructor
        · rintro ⟨h1, h2⟩
          rw [getD_map_lt _ _ _ 0 _ h1] at h2
          exact ⟨h1, (key _ (hlt _ (getD_mem _ _ _ h1))).mp h2⟩
        · rintro ⟨h1, h2⟩
          refine ⟨h1, ?_⟩
          rw [getD_map_lt _ _ _ 0 _ h1]
          exact (key _ (hlt _ (getD_mem _ _ _ h1))).mpr h2
  | floats => simp [windowLocal] at h
  | other => simp [windowLocal] at h
  | date d =>
    simp only [windowLocal, pure, Except.pure, Except.ok.injEq] at h
    subst h
    obtain ⟨hlt, hp⟩ := hg
    have hpl : iv.pts.length = iv.steps.length := by rw [hp, List.length_map]
    rw [mem_localSteps, List.length_map, hpl]
    simp only [windowSteps, mem_localSteps, List.length_map]
    constructor
    · rintro ⟨h1, h2⟩
      have h1' : s < iv.pts.length := by omega
      rw [getD_map_lt _ _ _ 0 _ h1'] at h2
      have ht := hlt _ (getD_mem iv.steps s 0 h1)
      refine ⟨h1, ht, ?_⟩
      rw [getD_map_lt _ _ _ 0 _ ht]
      have : iv.pts.getD s 0 = refPts.getD (iv.steps.getD s 0) 0 := by
        rw [hp, getD_map_lt _ _ _ 0 _ h1]
      rw [← this]
      exact h2
    · rintro ⟨h1, ht, h2⟩
      have h1' : s < iv.pts.length := by omega
      refine ⟨h1, ?_⟩
      rw [getD_map_lt _ _ _ 0 _ h1']
      rw [getD_map_lt _ _ _ 0 _ ht] at h2
      have : iv.pts.getD s 0 = refPts.getD (iv.steps.getD s 0) 0 := by
        rw [hp, getD_map_lt _ _ _ 0 _ h1]
      rw [this]
      exact h2

/-! ### fixing a block sum -/

/-- the variables with a mapping row at a step of `W` -/
def fv (M : List MapRow) (W : List Nat) : List Nat := (M.filter fun m => W.contains m.step).map (·.var)

theorem fixedVars_eq_fv (P : Problem) (W : List Nat) : fixedVars P W = fv P.mapping W := rfl

theorem mem_fv (M : List MapRow) (W : List Nat) (j : Nat) :
    j ∈ fv M W ↔ ∃ m ∈ M, m.step ∈ W ∧ m.var = j := by
  simp [fv, List.mem_map, List.mem_filter, and_assoc]

theorem contains_eq_of_iff (A B : List Nat) (a b : Nat) (h : a ∈ A ↔ b ∈ B) : A.contains a = B.contains b := by
  rw [Bool.eq_iff_iff, List.contains_iff_mem, List.contains_iff_mem]
  exact h

theorem list_ext_getD (A B : List Rat) (hl : A.length = B.length)
    (h : ∀ j, j < A.length → A.getD j 0 = B.getD j 0) : A = B := by
  apply List.ext_getElem hl
  intro j h1 h2
  have := h j h1
  simpa [List.getD_eq_getElem?_getD, List.getElem?_eq_getElem h1, List.getElem?_eq_getElem h2] using this

theorem setWhere_congr (p q : Nat → Bool) (xs ys zs : List Rat)
    (hp : ∀ j, j < xs.length → p j = q j) (hy : ∀ j, j < xs.length → ys.getD j 0 = zs.getD j 0) :
    setWhere p xs ys = setWhere q xs zs := by
  apply list_ext_getD
  · simp [setWhere_length]
  · intro j hj
    rw [setWhere_length] at hj
    rw [setWhere_getD, setWhere_getD, hp j hj, hy j hj]

theorem getD_append_left' (a b : List Rat) (j : Nat) (h : j < a.length) : (a ++ b).getD j 0 = a.getD j 0 := by
  simp [List.getD_eq_getElem?_getD, List.getElem?_append_left h]

theorem getD_append_right' (a b : List Rat) (j : Nat) (h : a.length ≤ j) :
    (a ++ b).getD j 0 = b.getD (j - a.length) 0 := by
  simp [List.getD_eq_getElem?_getD, List.getElem?_append_right h]

theorem getD_drop' (ys : List Rat) (k j : Nat) : (ys.drop k).getD j 0 = ys.getD (k + j) 0 := by
  simp [List.getD_eq_getElem?_getD, List.getElem?_drop]

theorem getD_take' (ys : List Rat) (n j : Nat) (h : j < n) : (ys.take n).getD j 0 = ys.getD j 0 := by
  simp [List.getD_eq_getElem?_getD, h]

theorem setWhere_append (p : Nat → Bool) (a b ys : List Rat) :
    setWhere p (a ++ b) ys =
      setWhere p a ys ++ setWhere (fun j => p (a.length + j)) b (ys.drop a.length) := by
  apply list_ext_getD
  · simp [setWhere_length]
  · intro j hj
    rw [setWhere_length] at hj
    rw [setWhere_getD]
    by_cases hja : j < a.length
    · have hR : (setWhere p a ys ++ setWhere (fun j => p (a.length + j)) b (ys.drop a.length)).getD j 0 =
          (setWhere p a ys).getD j 0 :=
        getD_append_left' _ _ _ (by rw [setWhere_length]; exact hja)
      rw [hR, setWhere_getD, getD_append_left' a b j hja]
      have hj' : j < a.length + b.length := by rw [List.length_append] at hj; exact hj
      simp [hj', hja]
    · have hle : a.length ≤ j := by omega
      have hR : (setWhere p a ys ++ setWhere (fun j => p (a.length + j)) b (ys.drop a.length)).getD j 0 =
          (setWhere (fun j => p (a.length + j)) b (ys.drop a.length)).getD (j - a.length) 0 := by
        have := getD_append_right' (setWhere p a ys) (setWhere (fun j => p (a.length + j)) b (ys.drop a.length)) j
          (by rw [setWhere_length]; exact hle)
        rw [setWhere_length] at this
        exact this
      rw [hR, setWhere_getD, getD_append_right' a b j hle, getD_drop']
      have e : a.length + (j - a.length) = j := by omega
      have hj' : j < a.length + b.length := by rw [List.length_append] at hj; exact hj
      have hjb : j - a.length < b.length := by omega
      simp [hj', hjb, e]

theorem asm_l (as : List AssetProblem) (off : Nat) : (assembleFrom off as).l = (as.map (·.l)).flatten := by
  induction as generalizing off with
  | nil => rfl
  | cons a as ih => rw [assembleFrom_cons_l, ih]; simp

theorem asm_u (as : List AssetProblem) (off : Nat) : (assembleFrom off as).u = (as.map (·.u)).flatten := by
  induction as generalizing off with
  | nil => rfl
  | cons a as ih => rw [assembleFrom_cons_u, ih]; simp

/-- the bounds of a block sum fixed block by block: the block's own pinned variables, the values from the block's offset on -/
def fixBlocks (sel : AssetProblem → List Rat) (W : List Nat) (x : List Rat) : Nat → List AssetProblem → List Rat
  | _, [] => []
  | off, a :: as =>
    setWhere ((fv a.mapping W).contains ·) (sel a) (x.drop off) ++ fixBlocks sel W x (off + a.n) as

theorem setWhere_blocks (sel : AssetProblem → List Rat) (W : List Nat) (x : List Rat) :
    ∀ (as : List AssetProblem) (off : Nat) (p : Nat → Bool),
      (∀ a ∈ as, (sel a).length = a.n ∧ ∀ m ∈ a.mapping, m.var < a.n) →
      (∀ j, p j = (fv (assembleFrom off as).mapping W).contains (off + j)) →
      setWhere p ((as.map sel).flatten) (x.drop off) = fixBlocks sel W x off as := by
  intro as
  induction as with
  | nil => intro off p _ _; simp [setWhere, fixBlocks]
  | cons a as ih =>
    intro off p hwf hp
    obtain ⟨hlen, hvar⟩ := hwf a List.mem_cons_self
    have hge := assembleFrom_mapping_ge as (off + a.n)
    rw [List.map_cons, List.flatten_cons, setWhere_append, fixBlocks]
    congr 1
    · apply setWhere_congr _ _ _ _ _ _ (fun _ _ => rfl)
      intro j hj
      rw [hlen] at hj
      rw [hp j, assembleFrom_cons_mapping]
      apply contains_eq_of_iff
      rw [mem_fv, mem_fv]
      constructor
      · rintro ⟨m, hm, hs, hv⟩
        rcases List.mem_append.mp hm with h | h
        · obtain ⟨m', hm', rfl⟩ := List.mem_map.mp h
          refine ⟨m', hm', hs, ?_⟩
          have : off + m'.var = off + j := hv
          omega
        · have := hge m h
          omega
      · rintro ⟨m, hm, hs, hv⟩
        refine ⟨MapRow.shift off m, List.mem_append_left _ (List.mem_map_of_mem hm), hs, ?_⟩
        show off + m.var = off + j
        omega
    · have hd : (x.drop off).drop (sel a).length = x.drop (off + a.n) := by
        rw [List.drop_drop, hlen]
      rw [hd]
      apply ih (off + a.n) _ (fun b hb => hwf b (List.mem_cons_of_mem _ hb))
      intro j
      rw [hp, assembleFrom_cons_mapping, hlen]
      apply contains_eq_of_iff
      rw [mem_fv, mem_fv]
      constructor
      · rintro ⟨m, hm, hs, hv⟩
        rcases List.mem_append.mp hm with h | h
        · obtain ⟨m', hm', rfl⟩ := List.mem_map.mp h
          have h1 := hvar m' hm'
          have : off + m'.var = off + (a.n + j) := hv
          omega
        · exact ⟨m, h, hs, by omega⟩
      · rintro ⟨m, hm, hs, hv⟩
        exact ⟨m, List.mem_append_right _ hm, hs, by omega⟩

/-- **`fixWindow` of a block sum, block by block** -/
theorem fixWindow_blockSum_l (ps : List Problem) (W : List Nat) (x : List Rat)
    (hwf : ∀ P ∈ ps, P.l.length = P.n ∧ ∀ m ∈ P.mapping, m.var < P.n) :
    (fixWindow (blockSum ps) W x).l = fixBlocks (·.l) W x 0 (ps.map Problem.toAsset) := by
  rw [fixWindow_l, blockSum, asm_l]
  have := setWhere_blocks (·.l) W x (ps.map Problem.toAsset) 0
    (fun j => (fixedVars (assembleFrom 0 (ps.map Problem.toAsset)) W).contains j)
    (by
      intro a ha
      obtain ⟨P, hP, rfl⟩ := List.mem_map.mp ha
      exact hwf P hP)
    (by intro j; rw [Nat.zero_add]; rfl)
  simpa using this

theorem fixWindow_blockSum_u (ps : List Problem) (W : List Nat) (x : List Rat)
    (hwf : ∀ P ∈ ps, P.u.length = P.n ∧ ∀ m ∈ P.mapping, m.var < P.n) :
    (fixWindow (blockSum ps) W x).u = fixBlocks (·.u) W x 0 (ps.map Problem.toAsset) := by
  rw [fixWindow_u, blockSum, asm_u]
  have := setWhere_blocks (·.u) W x (ps.map Problem.toAsset) 0
    (fun j => (fixedVars (assembleFrom 0 (ps.map Problem.toAsset)) W).contains j)
    (by
      intro a ha
      obtain ⟨P, hP, rfl⟩ := List.mem_map.mp ha
      exact hwf P hP)
    (by intro j; rw [Nat.zero_add]; rfl)
  simpa using this

/-! ### local and original steps of one interval -/

theorem fv_local_orig (iv : IntervalIn) (loc W : List Nat)
    (hmem : ∀ s, s ∈ loc ↔ s < iv.steps.length ∧ iv.steps.getD s 0 ∈ W)
    (hstep : ∀ m ∈ iv.prob.mapping, m.step < iv.steps.length) (j : Nat) :
    (fv iv.prob.mapping loc).contains j = (fv iv.orig.mapping W).contains j := by
  apply contains_eq_of_iff
  rw [mem_fv, mem_fv]
  simp only [IntervalIn.orig, List.mem_map]
  constructor
  · rintro ⟨m, hm, hs, hv⟩
    exact ⟨_, ⟨m, hm, rfl⟩, ((hmem _).mp hs).2, hv⟩
  · rintro ⟨m', ⟨m, hm, rfl⟩, hs, hv⟩
    exact ⟨m, hm, (hmem _).mpr ⟨hstep m hm, hs⟩, hv⟩

theorem fixBlocks_withOffsets (sel : AssetProblem → List Rat) (W : List Nat) (x : List Rat) :
    ∀ (L : List IntervalIn) (off : Nat),
      fixBlocks sel W x off (L.map fun iv => iv.orig.toAsset) =
        ((withOffsets off L).map fun p =>
          setWhere ((fv p.2.orig.mapping W).contains ·) (sel p.2.orig.toAsset) (x.drop p.1)).flatten := by
  intro L
  induction L with
  | nil => intro off; rfl
  | cons iv L ih =>
    intro off
    rw [List.map_cons, fixBlocks, withOffsets, List.map_cons, List.flatten_cons]
    congr 1
    exact ih (off + iv.prob.n)


/-! ### the interval problems of a successful set-up -/

theorem fixedInterval_l (T : Nat) (w : FixI) (x : List Rat) (refPts : List Int) (p : Nat × IntervalIn)
    (hloc : ∃ loc, windowLocal T w p.2 = .ok loc) (hwf : p.2.wf) (hg : p.2.onGrid refPts) :
    (fixedInterval T w x p).l =
      setWhere ((fv p.2.orig.mapping (windowSteps T refPts w)).contains ·) p.2.prob.l (x.drop p.1) := by
  obtain ⟨loc, hloc⟩ := hloc
  show (fixWindow p.2.prob (windowLocalD T w p.2) ((x.drop p.1).take p.2.prob.n)).l = _
  rw [windowLocalD_of_ok hloc, fixWindow_l, fixedVars_eq_fv]
  apply setWhere_congr
  · intro j _
    exact fv_local_orig p.2 loc _ (windowLocal_mem refPts hloc hg) hwf.2.2.2 j
  · intro j hj
    rw [hwf.1] at hj
    exact getD_take' _ _ _ hj

theorem fixedInterval_u (T : Nat) (w : FixI) (x : List Rat) (refPts : List Int) (p : Nat × IntervalIn)
    (hloc : ∃ loc, windowLocal T w p.2 = .ok loc) (hwf : p.2.wf) (hg : p.2.onGrid refPts) :
    (fixedInterval T w x p).u =
      setWhere ((fv p.2.orig.mapping (windowSteps T refPts w)).contains ·) p.2.prob.u (x.drop p.1) := by
  obtain ⟨loc, hloc⟩ := hloc
  show (fixWindow p.2.prob (windowLocalD T w p.2) ((x.drop p.1).take p.2.prob.n)).u = _
  rw [windowLocalD_of_ok hloc, fixWindow_u, fixedVars_eq_fv]
  apply setWhere_congr
  · intro j _
    exact fv_local_orig p.2 loc _ (windowLocal_mem refPts hloc hg) hwf.2.2.2 j
  · intro j hj
    rw [hwf.2.1] at hj
    exact getD_take' _ _ _ hj

theorem orig_wf_l (L : List IntervalIn) (hwf : ∀ iv ∈ L, iv.wf) :
    ∀ P ∈ L.map IntervalIn.orig, P.l.length = P.n ∧ ∀ m ∈ P.mapping, m.var < P.n := by
  intro P hP
  obtain ⟨iv, hiv, rfl⟩ := List.mem_map.mp hP
  refine ⟨(hwf iv hiv).1, ?_⟩
  intro m hm
  obtain ⟨m', hm', rfl⟩ := List.mem_map.mp hm
  exact (hwf iv hiv).2.2.1 m' hm'

theorem orig_wf_u (L : List IntervalIn) (hwf : ∀ iv ∈ L, iv.wf) :
    ∀ P ∈ L.map IntervalIn.orig, P.u.length = P.n ∧ ∀ m ∈ P.mapping, m.var < P.n := by
  intro P hP
  obtain ⟨iv, hiv, rfl⟩ := List.mem_map.mp hP
  exact ⟨(hwf iv hiv).2.1, (orig_wf_l L hwf _ hP).2⟩

/-- lower bounds: per interval with the sliced window = `fixWindow` of the block sum in original steps -/
theorem blockSum_fixed_l (T : Nat) (w : FixI) (x : List Rat) (refPts : List Int) (L : List IntervalIn)
    (hloc : ∀ p ∈ withOffsets 0 L, ∃ loc, windowLocal T w p.2 = .ok loc)
    (hwf : ∀ iv ∈ L, iv.wf) (hg : ∀ iv ∈ L, iv.onGrid refPts) :
    (blockSum ((withOffsets 0 L).map (fixedInterval T w x))).l =
      (fixWindow (blockSum (L.map IntervalIn.orig)) (windowSteps T refPts w) x).l := by
  rw [fixWindow_blockSum_l _ _ _ (orig_wf_l L hwf), List.map_map]
  have := fixBlocks_withOffsets (·.l) (windowSteps T refPts w) x L 0
  simp only [Function.comp_def] at this ⊢
  rw [this, blockSum, asm_l, List.map_map, List.map_map]
  congr 1
  apply List.map_congr_left
  intro p hp
  exact fixedInterval_l T w x refPts p (hloc p hp) (hwf _ (mem_withOffsets_snd hp)) (hg _ (mem_withOffsets_snd hp))

theorem blockSum_fixed_u (T : Nat) (w : FixI) (x : List Rat) (refPts : List Int) (L : List IntervalIn)
    (hloc : ∀ p ∈ withOffsets 0 L, ∃ loc, windowLocal T w p.2 = .ok loc)
    (hwf : ∀ iv ∈ L, iv.wf) (hg : ∀ iv ∈ L, iv.onGrid refPts) :
    (blockSum ((withOffsets 0 L).map (fixedInterval T w x))).u =
      (fixWindow (blockSum (L.map IntervalIn.orig)) (windowSteps T refPts w) x).u := by
  rw [fixWindow_blockSum_u _ _ _ (orig_wf_u L hwf), List.map_map]
  have := fixBlocks_withOffsets (·.u) (windowSteps T refPts w) x L 0
  simp only [Function.comp_def] at this ⊢
  rw [this, blockSum, asm_u, List.map_map, List.map_map]
  congr 1
  apply List.map_congr_left
  intro p hp
  exact fixedInterval_u T w x refPts p (hloc p hp) (hwf _ (mem_withOffsets_snd hp)) (hg _ (mem_withOffsets_snd hp))

/-- cost, rows and mapping of a concatenation depend on those fields of the blocks only -/
theorem asm_congr {α} (f g : α → AssetProblem) (L : List α)
    (h : ∀ a ∈ L, (f a).c = (g a).c ∧ (f a).rows = (g a).rows ∧ (f a).mapping = (g a).mapping) (off : Nat) :
    (assembleFrom off (L.map f)).c = (assembleFrom off (L.map g)).c ∧
    (assembleFrom off (L.map f)).rows = (assembleFrom off (L.map g)).rows ∧
    (assembleFrom off (L.map f)).mapping = (assembleFrom off (L.map g)).mapping := by
  induction L generalizing off with
  | nil => exact ⟨rfl, rfl, rfl⟩
  | cons a L ih =>
    obtain ⟨hc, hr, hm⟩ := h a List.mem_cons_self
    have hn : (f a).n = (g a).n := by unfold AssetProblem.n; rw [hc]
    obtain ⟨i1, i2, i3⟩ := ih (fun b hb => h b (List.mem_cons_of_mem _ hb)) (off + (g a).n)
    simp only [List.map_cons, assembleFrom_cons_c, assembleFrom_cons_rows, assembleFrom_cons_mapping, hn, hc, hr, hm,
      i1, i2, i3, and_self]

/-- the fixed interval problems and the interval problems without window: same cost, rows, mapping in the block sum -/
theorem blockSum_fixed_rest (T : Nat) (w : FixI) (x : List Rat) (L : List IntervalIn) :
    (blockSum ((withOffsets 0 L).map (fixedInterval T w x))).c = (blockSum (L.map (·.prob))).c ∧
    (blockSum ((withOffsets 0 L).map (fixedInterval T w x))).rows = (blockSum (L.map (·.prob))).rows ∧
    (blockSum ((withOffsets 0 L).map (fixedInterval T w x))).mapping = (blockSum (L.map (·.prob))).mapping := by
  have hL : L.map (fun iv : IntervalIn => iv.prob) = (withOffsets 0 L).map (fun p => p.2.prob) := by
    conv => lhs; rw [← withOffsets_snd 0 L]
    rw [List.map_map]; rfl
  rw [hL]
  unfold blockSum
  rw [List.map_map, List.map_map]
  exact asm_congr (Problem.toAsset ∘ fixedInterval T w x) (Problem.toAsset ∘ fun p => p.2.prob) _
    (fun p _ => ⟨rfl, rfl, rfl⟩) 0

theorem blockSum_orig_bounds (L : List IntervalIn) :
    (blockSum (L.map IntervalIn.orig)).l = (blockSum (L.map (·.prob))).l ∧
    (blockSum (L.map IntervalIn.orig)).u = (blockSum (L.map (·.prob))).u ∧
    (blockSum (L.map IntervalIn.orig)).c = (blockSum (L.map (·.prob))).c ∧
    (blockSum (L.map IntervalIn.orig)).rows = (blockSum (L.map (·.prob))).rows := by
  unfold blockSum
  rw [asm_l, asm_l, asm_u, asm_u, List.map_map, List.map_map]
  refine ⟨by simp [Function.comp_def, IntervalIn.orig, Problem.toAsset],
    by simp [Function.comp_def, IntervalIn.orig, Problem.toAsset], ?_⟩
  -- rows depend on c (block sizes) and rows only
  have : ∀ (off : Nat), (assembleFrom off (L.map fun iv => iv.orig.toAsset)).c =
      (assembleFrom off (L.map fun iv => iv.prob.toAsset)).c ∧
      (assembleFrom off (L.map fun iv => iv.orig.toAsset)).rows =
      (assembleFrom off (L.map fun iv => iv.prob.toAsset)).rows := by
    induction L with
    | nil => intro off; exact ⟨rfl, rfl⟩
    | cons a L ih =>
      intro off
      obtain ⟨i1, i2⟩ := ih (off + a.prob.n)
      simp only [List.map_cons, assembleFrom_cons_c, assembleFrom_cons_rows]
      exact ⟨congrArg (a.prob.c ++ ·) i1, congrArg (a.prob.rows.map (Row.rename (off + ·)) ++ ·) i2⟩
  simpa [List.map_map, Function.comp_def] using this 0

theorem asm_l_length (as : List AssetProblem) (h : ∀ a ∈ as, a.l.length = a.n) (off : Nat) :
    (assembleFrom off as).l.length = (assembleFrom off as).n := by
  induction as generalizing off with
  | nil => rfl
  | cons a as ih =>
    have := ih (fun b hb => h b (List.mem_cons_of_mem _ hb)) (off + a.n)
    unfold Problem.n at this ⊢
    rw [assembleFrom_cons_l, assembleFrom_cons_c, List.length_append, List.length_append, this,
      h a List.mem_cons_self]
    rfl

theorem asm_u_length (as : List AssetProblem) (h : ∀ a ∈ as, a.u.length = a.n) (off : Nat) :
    (assembleFrom off as).u.length = (assembleFrom off as).n := by
  induction as generalizing off with
  | nil => rfl
  | cons a as ih =>
    have := ih (fun b hb => h b (List.mem_cons_of_mem _ hb)) (off + a.n)
    unfold Problem.n at this ⊢
    rw [assembleFrom_cons_u, assembleFrom_cons_c, List.length_append, List.length_append, this,
      h a List.mem_cons_self]
    rfl

/-! ### no failure for well-formed inputs -/

theorem mapM_isSome {α β} (f : α → Option β) :
    ∀ (L : List α), (∀ a ∈ L, (f a).isSome = true) → ∃ ns, L.mapM f = some ns := by
  intro L
  induction L with
  | nil => intro _; exact ⟨[], by simp⟩
  | cons a L ih =>
    intro h
    obtain ⟨ns, hns⟩ := ih (fun b hb => h b (List.mem_cons_of_mem _ hb))
    have ha := h a List.mem_cons_self
    cases hf : f a with
    | none => rw [hf] at ha; cases ha
    | some b => exact ⟨b :: ns, by rw [List.mapM_cons, hf, hns]; rfl⟩

theorem cutMask_total (m : List Bool) (steps : List Nat) (h : ∀ t ∈ steps, t < m.length) :
    ∃ m', cutMask m steps = .ok m' := by
  unfold cutMask
  have : (steps.all fun t => decide (t < m.length)) = true := by
    rw [List.all_eq_true]; intro t ht; simpa using h t ht
  rw [if_pos this]
  exact ⟨_, rfl⟩

theorem windowLocal_total (T : Nat) (w : FixI) (iv : IntervalIn) (hv : w.valid T = true)
    (hs : ∀ t ∈ iv.steps, t < T) : ∃ loc, windowLocal T w iv = .ok loc := by
  cases w with
  | mask bs =>
    simp only [FixI.valid, decide_eq_true_eq] at hv
    obtain ⟨m, hm⟩ := cutMask_total bs iv.steps (by rw [hv]; exact hs)
    exact ⟨localSteps m, by simp [windowLocal, hm, bind, Except.bind, pure, Except.pure]⟩
  | idx is =>
    simp only [FixI.valid, List.all_eq_true] at hv
    obtain ⟨ns, hns⟩ := mapM_isSome (normIdx T) is hv
    have hi : idxMask T is = .ok ((List.range T).map fun t => ns.contains t) := by
      simp [idxMask, hns]
    obtain ⟨m, hm⟩ := cutMask_total ((List.range T).map fun t => ns.contains t) iv.steps (by simpa using hs)
    exact ⟨localSteps m, by simp only [windowLocal, hi, hm, bind, Except.bind, pure, Except.pure]⟩
  | floats => simp [FixI.valid] at hv
  | other => simp [FixI.valid] at hv
  | date d => exact ⟨_, rfl⟩

theorem fixSplitFrom_total (T : Nat) (w : FixI) (x : List Rat) (hv : w.valid T = true) (ivs : List IntervalIn)
    (hs : ∀ iv ∈ ivs, ∀ t ∈ iv.steps, t < T) :
    ∀ off, off + ((keptIntervals ivs).map fun iv => iv.prob.n).sum ≤ x.length →
      ∃ Qs, fixSplitFrom T w x off ivs = .ok Qs := by
  induction ivs with
  | nil => intro off _; exact ⟨[], rfl⟩
  | cons iv rest ih =>
    intro off hlen
    have ihr := ih (fun b hb => hs b (List.mem_cons_of_mem _ hb))
    rw [keptIntervals_cons] at hlen
    rw [fixSplitFrom]
    by_cases he : iv.steps.isEmpty = true
    · simp only [he, Bool.not_true, Bool.false_and, Bool.false_eq_true, if_false] at hlen
      simp only [he, if_true]
      exact ihr off hlen
    · simp only [he, Bool.false_eq_true, if_false]
      obtain ⟨loc, hloc⟩ := windowLocal_total T w iv hv (hs iv List.mem_cons_self)
      by_cases h0 : iv.prob.n = 0
      · simp only [h0, decide_true, Bool.not_true, Bool.and_false, Bool.false_eq_true, if_false] at hlen
        have hq : fixInterval T w iv (x.drop off) = .ok (fixWindow iv.prob loc ((x.drop off).take iv.prob.n)) := by
          simp [fixInterval, hloc, bind, Except.bind, pure, Except.pure, h0]
        rw [hq]
        have hn : (fixWindow iv.prob loc ((x.drop off).take iv.prob.n)).n = 0 := h0
        simp only [bind, Except.bind, hn, if_true]
        exact ihr off hlen
      · have hcond : (!iv.steps.isEmpty && !decide (iv.prob.n = 0)) = true := by simp [he, h0]
        rw [if_pos hcond, List.map_cons, List.sum_cons] at hlen
        have hx : iv.prob.n ≤ x.length - off := by omega
        have hq : fixInterval T w iv (x.drop off) = .ok (fixWindow iv.prob loc ((x.drop off).take iv.prob.n)) := by
          simp [fixInterval, hloc, bind, Except.bind, pure, Except.pure, hx]
        rw [hq]
        have hn : (fixWindow iv.prob loc ((x.drop off).take iv.prob.n)).n = iv.prob.n := rfl
        simp only [bind, Except.bind, hn, h0, if_false]
        obtain ⟨Rs, hRs⟩ := ihr (off + iv.prob.n) (by omega)
        rw [hRs]
        exact ⟨_, rfl⟩


end EAO.FixSplit
