import EAO.Model.Assemble
import EAO.Model.Readout
/-! helper lemmas for nodal balance (C01) and value accounting (C04): fibre sums over asset names,
    shape of the mapping of an assembled problem -/
namespace EAO

theorem sum_map_zero {α} (l : List α) : (l.map fun _ => (0 : Rat)).sum = 0 := by
  induction l with
  | nil => simp
  | cons a l ih => simp [ih]; grind

/-- summing per-asset filters over a duplicate-free list of names that covers all rows -/
theorem sum_by_asset (names : List String) (hnd : names.Nodup) (M : List MapRow)
    (hcov : ∀ r ∈ M, r.asset ∈ names) (f : MapRow → Rat) :
    (names.map fun a => ((M.filter (fun r => r.asset == a)).map f).sum).sum = (M.map f).sum := by
  induction M with
  | nil => simp [sum_map_zero]
  | cons m M ih =>
    have hm : m.asset ∈ names := hcov m (by simp)
    have ih' := ih (fun r hr => hcov r (by simp [hr]))
    simp only [List.map_cons, List.sum_cons]
    rw [← ih']
    clear ih ih' hcov
    induction names with
    | nil => simp at hm
    | cons a as iha =>
      have hnd' := (List.nodup_cons.mp hnd)
      simp only [List.map_cons, List.sum_cons, List.filter_cons]
      by_cases h : m.asset = a
      · subst h
        have hnot : m.asset ∉ as := hnd'.1
        have rest : (as.map fun a => ((List.filter (fun r => r.asset == a) (m :: M)).map f).sum).sum
                  = (as.map fun a => ((List.filter (fun r => r.asset == a) M).map f).sum).sum := by
          congr 1
          apply List.map_congr_left
          intro a' ha'
          have : (m.asset == a') = false := by
            simp; intro h; exact hnot (h ▸ ha')
          simp [List.filter_cons, this]
        simp only [List.filter_cons] at rest
        simp [rest]
        grind
      · have hm' : m.asset ∈ as := by
          cases hm with
          | head => exact absurd rfl h
          | tail _ h' => exact h'
        have := iha hnd'.2 hm'
        have hne : (m.asset == a) = false := by simp [h]
        simp [hne]
        simp only [List.filter_cons] at this
        grind

/-- value of the nodal row at `x` = sum of contributions of the dispatch rows at (n,t) -/
theorem nodalRow_eval (M : List MapRow) (n : String) (t : Nat) (x : Vec) :
    (nodalRow M n t).eval x = ((M.filter (isDisp n t)).map (·.contrib x)).sum := by
  unfold nodalRow Row.eval MapRow.contrib
  simp only [List.map_map]
  congr 1
  apply List.map_congr_left
  intro m _
  simp [Function.comp]
  exact Rat.mul_comm _ _

theorem dispatch_sum_eq_nodal (names : List String) (hnd : names.Nodup) (M : List MapRow)
    (hcov : ∀ r ∈ M, r.asset ∈ names) (n : String) (t : Nat) (x : Vec) :
    (names.map fun a => dispatchOut M a n t x).sum = ((M.filter (isDisp n t)).map (·.contrib x)).sum := by
  unfold dispatchOut
  have := sum_by_asset names hnd (M.filter (isDisp n t))
    (fun r hr => hcov r (List.mem_filter.mp hr).1) (·.contrib x)
  rw [← this]
  congr 1
  apply List.map_congr_left
  intro a _
  congr 2
  rw [List.filter_filter]

/-- every mapping row of the concatenation is a shifted mapping row of one of the assets -/
theorem mem_assembleFrom_mapping (as : List AssetProblem) (off : Nat) (m : MapRow)
    (hm : m ∈ (assembleFrom off as).mapping) :
    ∃ a ∈ as, ∃ m' ∈ a.mapping, ∃ o, m = m'.shift o := by
  induction as generalizing off with
  | nil => simp [assembleFrom] at hm
  | cons a rest ih =>
    simp only [assembleFrom, List.mem_append, List.mem_map] at hm
    rcases hm with ⟨m', hm', rfl⟩ | hm
    · exact ⟨a, by simp, m', hm', off, rfl⟩
    · obtain ⟨b, hb, m', hm', o, rfl⟩ := ih _ hm
      exact ⟨b, by simp [hb], m', hm', o, rfl⟩

@[simp] theorem shift_asset (o : Nat) (m : MapRow) : (m.shift o).asset = m.asset := rfl
@[simp] theorem shift_node (o : Nat) (m : MapRow) : (m.shift o).node = m.node := rfl
@[simp] theorem shift_kind (o : Nat) (m : MapRow) : (m.shift o).kind = m.kind := rfl
@[simp] theorem shift_step (o : Nat) (m : MapRow) : (m.shift o).step = m.step := rfl
@[simp] theorem shift_factor (o : Nat) (m : MapRow) : (m.shift o).factor = m.factor := rfl
@[simp] theorem shift_var (o : Nat) (m : MapRow) : (m.shift o).var = o + m.var := rfl

theorem isDisp_shift (n : String) (t o : Nat) (m : MapRow) : isDisp n t (m.shift o) = isDisp n t m := rfl

theorem mem_eraseDups {α} [BEq α] [LawfulBEq α] (a : α) (l : List α) : a ∈ l.eraseDups ↔ a ∈ l := by
  simp

theorem mem_portfolioNodes (as : List AssetProblem) (a : AssetProblem) (ha : a ∈ as) (n : String)
    (hn : n ∈ a.nodes) : n ∈ portfolioNodes as := by
  unfold portfolioNodes
  rw [mem_eraseDups]
  exact List.mem_flatMap.mpr ⟨a, ha, hn⟩

@[simp] theorem assemble_mapping (as : List AssetProblem) (gridI : List Nat) (skip : List String) :
    (assemble as gridI skip).mapping = (assembleFrom 0 as).mapping := rfl

theorem mem_nodalPairs (M : List MapRow) (nodes skip : List String) (gridI : List Nat) (n : String) (t : Nat)
    (hn : n ∈ nodes) (hs : n ∉ skip) (ht : t ∈ gridI) (hany : M.any (isDisp n t) = true) :
    (t, n) ∈ nodalPairs M nodes skip gridI := by
  unfold nodalPairs
  apply List.mem_flatMap.mpr
  refine ⟨n, ?_, ?_⟩
  · apply List.mem_filter.mpr
    refine ⟨hn, ?_⟩
    simp [hs]
  · apply List.mem_map.mpr
    exact ⟨t, List.mem_filter.mpr ⟨ht, hany⟩, rfl⟩

end EAO
