import EAO.Lemmas.Contract
import EAO.Lemmas.ScaleBuild
import EAO.Lemmas.StorageUnit
import EAO.Lemmas.CHPUnitCore
import EAO.Lemmas.CHPUnitRamp
import EAO.Lemmas.CHPUnitProfile
/-!
# EAO.Lemmas.UnitKeys — change of the main time unit when parameters are keys into the price data (property C12)

`unit_change*` (`EAO/Properties/C12.lean`, `C12Storage.lean`, `C12CHP.lean`) re-express an asset for another main time unit
(`Grid.scaleDt k`, rates times `1/k`, durations times `k`) with the SAME price data and therefore exclude rates given as a
key into the price data.  Here the price data change with the unit as well: a second table `prices'` related to the first,

* `RateSeries k prices prices' key` — the series is a RATE per main time unit (the builder multiplies it by `dt`): in the new
  table it is the old one times `1/k`, and it is missing in the new table iff it is missing in the old one;
* `SameSeries prices prices' key` — the series is per volume, per start, or a pure number (prices, extra costs, transport
  costs, start costs, conversion factor, heat share, start fuel, fuel efficiency): the same in both tables.

Which series of which builder is which (read off `eaopack/assets.py`, `make_vector(..., convert=True)` = rate):

| builder                                  | rate series (÷ k)                                 | same series                                              |
|------------------------------------------|---------------------------------------------------|----------------------------------------------------------|
| SimpleContract / Contract / MultiCommodity | `min_cap`, `max_cap`                              | `price`, `extra_costs`                                   |
| Transport / ExtendedTransport            | — (capacities are numbers)                        | `costs_time_series`                                      |
| Storage                                  | — (`cap_in`, `cap_out`, `inflow`, `cost_store` are numbers) | `price`                                        |
| CHPAsset / Plant                         | `running_costs`, `consumption_if_on`              | `start_costs`, `conversion_factor_power_heat`, `max_share_heat`, `start_fuel`, `fuel_efficiency` |
| CHPAsset_with_min_load_costs             | `min_load_threshhold`, `min_load_costs`           | —                                                        |

Take VOLUMES are volumes and never change.  All other series of the tables are unconstrained.
`rescaleTable k keys prices` is the table the harness builds (the series named in `keys` times `1/k`); it satisfies the
relation whenever the rate keys are in `keys` and the other keys the asset uses are not (`rateSeries_rescaleTable`,
`sameSeries_rescaleTable`).  One series used both as a rate and as a price cannot be served by any table unless `k = 1` or the
series vanishes (`no_table_for_shared_key`).
-/
namespace EAO.UnitKeys
open EAO EAO.ScaleBuild EAO.CHPUnit

/-- the series `key` is a rate per main time unit: divided by `k` in the table that goes with the new unit -/
def RateSeries (k : Rat) (prices prices' : Prices) (key : String) : Prop :=
  prices'.lookup key = (prices.lookup key).map (List.map (· * (1 / k)))

/-- the series `key` does not depend on the main time unit -/
def SameSeries (prices prices' : Prices) (key : String) : Prop :=
  prices'.lookup key = prices.lookup key

instance (k : Rat) (prices prices' : Prices) (key : String) : Decidable (RateSeries k prices prices' key) := by
  unfold RateSeries; exact inferInstance
instance (prices prices' : Prices) (key : String) : Decidable (SameSeries prices prices' key) := by
  unfold SameSeries; exact inferInstance

/-- price data for a contract (simple, with take periods, multi-commodity) in the new unit -/
structure UnitPrices (k : Rat) (p : ContractP) (prices prices' : Prices) : Prop where
  rate : ∀ key, (p.minCap = .key key ∨ p.maxCap = .key key) → RateSeries k prices prices' key
  same : ∀ key, (p.price = some key ∨ p.extraCosts = .key key) → SameSeries prices prices' key

/-- price data for a transport in the new unit: `costs_time_series` is per volume -/
def UnitPricesTransport (p : TransportP) (prices prices' : Prices) : Prop :=
  ∀ key, p.costsKey = some key → SameSeries prices prices' key

/-- price data for a storage in the new unit: `price` is per volume -/
def UnitPricesStorage (p : StorageP) (prices prices' : Prices) : Prop :=
  ∀ key, p.price = some key → SameSeries prices prices' key

/-- price data for the CHP part of `CHPAsset` / `Plant` in the new unit -/
structure UnitPricesCHP (k : Rat) (p : CHPP) (prices prices' : Prices) : Prop where
  rate : ∀ key, (p.runningCosts = .key key ∨ p.consumptionIfOn = .key key) → RateSeries k prices prices' key
  same : ∀ key, (p.startCosts = .key key ∨ p.convFactor = .key key ∨ p.maxShareHeat = some (.key key) ∨
                 p.startFuel = .key key ∨ p.fuelEfficiency = .key key) → SameSeries prices prices' key

/-- price data for the minimum-load part in the new unit: threshold and costs are per time -/
def UnitPricesMinLoad (k : Rat) (q : MinLoadP) (prices prices' : Prices) : Prop :=
  ∀ key, (q.threshold = some (.key key) ∨ q.costs = some (.key key)) → RateSeries k prices prices' key

/-! ### the same price data serve when nothing that matters is a key -/

theorem unitPrices_self (k : Rat) (p : ContractP) (hmin : p.minCap.isKey = false) (hmax : p.maxCap.isKey = false)
    (prices : Prices) : UnitPrices k p prices prices := by
  refine ⟨?_, fun _ _ => rfl⟩
  rintro key (h | h)
  · rw [h] at hmin; simp [ParamValue.isKey] at hmin
  · rw [h] at hmax; simp [ParamValue.isKey] at hmax

theorem unitPricesCHP_self (k : Rat) (p : CHPP) (hrc : p.runningCosts.isKey = false)
    (hci : p.consumptionIfOn.isKey = false) (prices : Prices) : UnitPricesCHP k p prices prices := by
  refine ⟨?_, fun _ _ => rfl⟩
  rintro key (h | h)
  · rw [h] at hrc; simp [ParamValue.isKey] at hrc
  · rw [h] at hci; simp [ParamValue.isKey] at hci

theorem unitPricesMinLoad_self (k : Rat) (q : MinLoadP) (ht : ∀ w, q.threshold = some w → w.isKey = false)
    (hc : ∀ w, q.costs = some w → w.isKey = false) (prices : Prices) : UnitPricesMinLoad k q prices prices := by
  rintro key (h | h)
  · have := ht _ h; simp [ParamValue.isKey] at this
  · have := hc _ h; simp [ParamValue.isKey] at this

/-! ### the table the harness builds -/

/-- the series named in `keys` divided by `k`, all others kept (names and order kept) -/
def rescaleTable (k : Rat) (keys : List String) (prices : Prices) : Prices :=
  prices.map fun e => if keys.contains e.1 then (e.1, e.2.map (· * (1 / k))) else e

theorem lookup_rescaleTable (k : Rat) (keys : List String) (prices : Prices) (key : String) :
    (rescaleTable k keys prices).lookup key
      = if keys.contains key then (prices.lookup key).map (List.map (· * (1 / k))) else prices.lookup key := by
  unfold rescaleTable Prices.lookup
  induction prices with
  | nil => simp
  | cons e rest ih =>
    have hfst : (if keys.contains e.1 then (e.1, e.2.map (· * (1 / k))) else e).1 = e.1 := by
      split <;> rfl
    simp only [List.map_cons, List.find?_cons, hfst]
    by_cases he : (e.1 == key) = true
    · have hk : e.1 = key := by simpa using he
      simp only [he, Option.map_some]
      rw [hk]
      split <;> simp
    · simp only [he]
      exact ih

theorem rateSeries_rescaleTable (k : Rat) (keys : List String) (prices : Prices) (key : String)
    (h : keys.contains key = true) : RateSeries k prices (rescaleTable k keys prices) key := by
  unfold RateSeries
  rw [lookup_rescaleTable, if_pos h]

theorem sameSeries_rescaleTable (k : Rat) (keys : List String) (prices : Prices) (key : String)
    (h : keys.contains key = false) : SameSeries prices (rescaleTable k keys prices) key := by
  unfold SameSeries
  rw [lookup_rescaleTable, h]
  rfl

/-- the rate keys of a contract -/
def contractRateKeys (p : ContractP) : List String :=
  (match p.minCap with | .key s => [s] | _ => []) ++ (match p.maxCap with | .key s => [s] | _ => [])

/-- the keys of a contract whose series do not depend on the unit -/
def contractSameKeys (p : ContractP) : List String :=
  (match p.price with | some s => [s] | none => []) ++ (match p.extraCosts with | .key s => [s] | _ => [])

/-- if no capacity series is also used as price or extra costs, the table with the capacity series divided by `k`
    goes with the new unit -/
theorem unitPrices_rescaleTable (k : Rat) (p : ContractP) (prices : Prices)
    (hd : ∀ s ∈ contractSameKeys p, s ∉ contractRateKeys p) :
    UnitPrices k p prices (rescaleTable k (contractRateKeys p) prices) := by
  constructor
  · intro key h
    apply rateSeries_rescaleTable
    rw [List.contains_iff_mem]
    unfold contractRateKeys
    rcases h with h | h <;> rw [h] <;> simp
  · intro key h
    apply sameSeries_rescaleTable
    have hm : key ∈ contractSameKeys p := by
      unfold contractSameKeys
      rcases h with h | h <;> rw [h] <;> simp
    have := hd key hm
    cases hc : (contractRateKeys p).contains key with
    | false => rfl
    | true => rw [List.contains_iff_mem] at hc; exact absurd hc this

/-- a series used both as a rate and as a per-volume quantity has no table in the new unit, unless `k = 1` or it
    vanishes: the two requirements contradict each other on any non-zero entry -/
theorem no_table_for_shared_key {k : Rat} (hk : 0 < k) (hk1 : k ≠ 1) (prices prices' : Prices) (key : String)
    (arr : List Rat) (harr : prices.lookup key = some arr) (hnz : ∃ v ∈ arr, v ≠ 0)
    (hr : RateSeries k prices prices' key) (hs : SameSeries prices prices' key) : False := by
  unfold RateSeries at hr
  unfold SameSeries at hs
  rw [hs, harr] at hr
  simp only [Option.map_some, Option.some.injEq] at hr
  obtain ⟨v, hv, hv0⟩ := hnz
  obtain ⟨i, hi, rfl⟩ := List.getElem_of_mem hv
  have := congrArg (fun l => l[i]?) hr
  simp only [List.getElem?_map, List.getElem?_eq_getElem hi, Option.map_some, Option.some.injEq] at this
  have h1 : 1 / k * k = 1 := one_div_mul_self k hk
  have h2 : arr[i] * k = arr[i] := by
    have : arr[i] * k = arr[i] * (1 / k) * k := by rw [← this]
    rw [this, Rat.mul_assoc, h1, Rat.mul_one]
  have h3 : arr[i] * (k - 1) = 0 := by grind
  rcases Rat.mul_eq_zero.mp h3 with h | h
  · exact hv0 h
  · exact hk1 (by grind)

/-! ### parameter vectors -/

theorem ne_zero_of_pos {k : Rat} (hk : 0 < k) : k ≠ 0 := by
  intro h; rw [h] at hk; exact absurd hk (by decide +kernel)

theorem scO_timesDt_rescale {k : Rat} (hk : k ≠ 0) (base : List (Option Rat)) (g : Grid) :
    scO (1 / k) (timesDt base (g.scaleDt k)) = timesDt base g := by
  rw [← timesDt_scale]
  exact timesDt_rescale hk base g

/-- a rate in any form (a key: its series divided by `k` in the new table): rate ÷ `k`, step lengths × `k` — the same
    volumes per step -/
theorem makeVector_rescale_keys {k : Rat} (hk : k ≠ 0) (v : ParamValue) (g : Grid) (prices prices' : Prices)
    (h : ∀ key, v = .key key → RateSeries k prices prices' key) :
    makeVector (v.scale (1 / k)) (g.scaleDt k) prices' none true = makeVector v g prices none true := by
  rw [makeVector_caps (1 / k) v (g.scaleDt k) prices prices' h]
  unfold makeVector
  rw [baseVector_scaleDt]
  cases baseVector v g prices none with
  | error e => rfl
  | ok base =>
    simp only [Except.map, bind, Except.bind, pure, Except.pure, if_true]
    rw [scO_timesDt_rescale hk]

/-- the same with default value 0 (the CHP parameters) -/
theorem baseVector_key_dflt (s : String) (g : Grid) (prices : Prices) (d : Option Rat) :
    baseVector (.key s) g prices d = baseVector (.key s) g prices none := rfl

theorem baseVector_zero_keys (c : Rat) (v : ParamValue) (g : Grid) (prices prices' : Prices)
    (h : ∀ key, v = .key key → prices'.lookup key = (prices.lookup key).map (List.map (· * c))) :
    baseVector (v.scale c) g prices' (some 0) = (baseVector v g prices (some 0)).map (scO c) := by
  by_cases hv : v.isKey = false
  · have hv' : (v.scale c).isKey = false := by cases v <;> simp_all [ParamValue.scale, ParamValue.isKey]
    rw [baseVector_prices_irrel hv' g prices prices']
    exact baseVector_scale_zero c hv g prices
  · cases v with
    | key s =>
      show baseVector (.key s) g prices' (some 0) = _
      rw [baseVector_key_dflt, baseVector_key_dflt]
      exact baseVector_key_scale c s g prices prices' (h s rfl)
    | scalar _ => simp [ParamValue.isKey] at hv
    | array _ => simp [ParamValue.isKey] at hv
    | intervals _ => simp [ParamValue.isKey] at hv

theorem vec_rescale_keys {k : Rat} (hk : k ≠ 0) (v : ParamValue) (g : Grid) (prices prices' : Prices)
    (h : ∀ key, v = .key key → RateSeries k prices prices' key) :
    vec (v.scale (1 / k)) (g.scaleDt k) prices' 0 true = vec v g prices 0 true := by
  unfold vec makeVector
  rw [baseVector_zero_keys (1 / k) v (g.scaleDt k) prices prices' h, baseVector_scaleDt]
  cases baseVector v g prices (some 0) with
  | error e => rfl
  | ok base =>
    simp only [Except.map, bind, Except.bind, pure, Except.pure, if_true]
    rw [timesDt_scale, scO_timesDt_rescale hk]

/-- a parameter that is not converted with `dt`: the same vector when its series is the same -/
theorem vec_same (v : ParamValue) (k : Rat) (g : Grid) (prices prices' : Prices) (d : Rat)
    (h : ∀ key, v = .key key → SameSeries prices prices' key) :
    vec v (g.scaleDt k) prices' d false = vec v g prices d false := by
  unfold vec
  rw [makeVector_prices_congr v (g.scaleDt k) prices prices' _ _ h, makeVector_scaleDt_noconvert]

/-! ### contracts -/

theorem contractVectors_rescale_keys {k : Rat} (hk : k ≠ 0) (p : ContractP) (g : Grid) (prices prices' : Prices)
    (h : UnitPrices k p prices prices') :
    contractVectors (p.rescale k) (g.scaleDt k) prices' = contractVectors p g prices := by
  have e1 := makeVector_rescale_keys hk p.maxCap g prices prices' (fun key hk' => h.rate key (Or.inr hk'))
  have e2 := makeVector_rescale_keys hk p.minCap g prices prices' (fun key hk' => h.rate key (Or.inl hk'))
  have e3 : makeVector p.extraCosts (g.scaleDt k) prices' (some 0) false = makeVector p.extraCosts g prices (some 0) false := by
    rw [makeVector_prices_congr p.extraCosts (g.scaleDt k) prices prices' _ _ (fun key hk' => h.same key (Or.inr hk')),
      makeVector_scaleDt_noconvert]
  unfold contractVectors
  simp only [ContractP.rescale, e1, e2, e3]

theorem priceVector_rescale_keys (k : Rat) (p : ContractP) (g : Grid) (prices prices' : Prices) (fullT : Nat)
    (h : ∀ s, p.price = some s → SameSeries prices prices' s) :
    priceVector (p.rescale k).price (g.scaleDt k) prices' fullT = priceVector p.price g prices fullT :=
  priceVector_congr p.price (g.scaleDt k) prices prices' fullT h

theorem simple_unit_change_keys {k : Rat} (hk : 0 < k) (p : ContractP) (g : Grid) (prices prices' : Prices)
    (h : UnitPrices k p prices prices') (fullT : Nat) :
    buildSimpleContract (p.rescale k) (g.scaleDt k) prices' fullT = buildSimpleContract p g prices fullT := by
  have hk0 := ne_zero_of_pos hk
  unfold buildSimpleContract
  rw [contractVectors_rescale_keys hk0 p g prices prices' h,
    priceVector_rescale_keys k p g prices prices' fullT (fun s hs => h.same s (Or.inl hs))]
  have : scalarIllPosed (p.rescale k).minCap (p.rescale k).maxCap = scalarIllPosed p.minCap p.maxCap :=
    scalarIllPosed_rescale hk _ _
  rw [this]
  rfl

theorem contract_unit_change_keys {k : Rat} (hk : 0 < k) {u u' : Nat} (hu : (u' : Rat) * k = (u : Rat))
    (p : ContractP) (g : Grid) (prices prices' : Prices) (h : UnitPrices k p prices prices') (fullT : Nat) :
    buildContract (p.rescale k) (g.scaleDt k) prices' fullT u' = buildContract p g prices fullT u := by
  unfold buildContract
  rw [simple_unit_change_keys hk p g prices prices' h]
  simp only [defineRestr_rescale hu]
  rfl

theorem multi_unit_change_keys {k : Rat} (hk : 0 < k) {u u' : Nat} (hu : (u' : Rat) * k = (u : Rat))
    (p : ContractP) (factors : List Rat) (g : Grid) (prices prices' : Prices) (h : UnitPrices k p prices prices')
    (fullT : Nat) :
    buildMulti (p.rescale k) factors (g.scaleDt k) prices' fullT u' = buildMulti p factors g prices fullT u := by
  unfold buildMulti
  rw [contract_unit_change_keys hk hu p g prices prices' h]
  have : scalarIllPosed (p.rescale k).minCap (p.rescale k).maxCap = scalarIllPosed p.minCap p.maxCap :=
    scalarIllPosed_rescale hk _ _
  rw [this]
  rfl

/-! ### transports and the storage: only per-volume series -/

theorem transportCosts_congr (key : Option String) (g : Grid) (prices prices' : Prices) (fullT : Nat)
    (h : ∀ s, key = some s → SameSeries prices prices' s) :
    transportCosts key g prices' fullT = transportCosts key g prices fullT := by
  cases key with
  | none => rfl
  | some s =>
    unfold transportCosts
    have := h s rfl
    unfold SameSeries at this
    simp only [this]

theorem buildTransport_prices_congr (p : TransportP) (g : Grid) (prices prices' : Prices) (fullT : Nat)
    (h : UnitPricesTransport p prices prices') :
    buildTransport p g prices' fullT = buildTransport p g prices fullT := by
  unfold buildTransport
  rw [transportCosts_congr p.costsKey g prices prices' fullT h]

theorem transport_unit_change_keys {k : Rat} (hk : 0 < k) (p : TransportP) (g : Grid) (prices prices' : Prices)
    (h : UnitPricesTransport p prices prices') (fullT : Nat) :
    buildTransport (p.rescale k) (g.scaleDt k) prices' fullT = buildTransport p g prices fullT := by
  rw [buildTransport_prices_congr (p.rescale k) (g.scaleDt k) prices prices' fullT h]
  exact transport_unit_change' hk p g prices fullT

theorem extTransport_unit_change_keys {k : Rat} (hk : 0 < k) {u u' : Nat} (hu : (u' : Rat) * k = (u : Rat))
    (p : TransportP) (g : Grid) (prices prices' : Prices) (h : UnitPricesTransport p prices prices') (fullT : Nat) :
    buildExtTransport (p.rescale k) (g.scaleDt k) prices' fullT u' = buildExtTransport p g prices fullT u := by
  unfold buildExtTransport
  rw [transport_unit_change_keys hk p g prices prices' h]
  simp only [defineRestr_rescale hu]
  rfl

theorem priceVec_congr (p : StorageP) (g : Grid) (T : Nat) (prices prices' : Prices)
    (h : UnitPricesStorage p prices prices') :
    Storage.priceVec p g T prices' = Storage.priceVec p g T prices := by
  unfold Storage.priceVec
  cases hp : p.price with
  | none => rfl
  | some s =>
    have := h s hp
    unfold SameSeries at this
    simp only [this]

theorem buildStorage_prices_congr (p : StorageP) (g : Grid) (T : Nat) (prices prices' : Prices)
    (h : UnitPricesStorage p prices prices') :
    buildStorage p g T prices' = buildStorage p g T prices := by
  unfold buildStorage
  rw [priceVec_congr p g T prices prices' h]

theorem storage_unit_change_keys {k : Rat} (hk : 0 < k) (p : StorageP) (g : Grid) (T : Nat) (prices prices' : Prices)
    (h : UnitPricesStorage p prices prices') :
    buildStorage (p.rescale k) (g.scaleDt k) T prices' = buildStorage p g T prices := by
  rw [buildStorage_prices_congr (p.rescale k) (g.scaleDt k) T prices prices' h]
  exact buildStorage_rescale hk p g T prices

/-! ### CHP -/

theorem chpVectors_rescale_keys {k : Rat} (hk : k ≠ 0) (p : CHPP) (g : Grid) (prices prices' : Prices)
    (h : UnitPricesCHP k p prices prices') (heat : Bool) (fuel : Option String) :
    chpVectors (CHPP.rescale k p) (g.scaleDt k) prices' heat fuel = chpVectors p g prices heat fuel := by
  have e1 := vec_rescale_keys hk p.runningCosts g prices prices' (fun key hk' => h.rate key (Or.inl hk'))
  have e2 := vec_rescale_keys hk p.consumptionIfOn g prices prices' (fun key hk' => h.rate key (Or.inr hk'))
  have e3 := vec_same p.startCosts k g prices prices' 0 (fun key hk' => h.same key (Or.inl hk'))
  have e4 := vec_same p.convFactor k g prices prices' 1 (fun key hk' => h.same key (Or.inr (Or.inl hk')))
  have e5 := vec_same p.startFuel k g prices prices' 0 (fun key hk' => h.same key (Or.inr (Or.inr (Or.inr (Or.inl hk')))))
  have e6 := vec_same p.fuelEfficiency k g prices prices' 1 (fun key hk' => h.same key (Or.inr (Or.inr (Or.inr (Or.inr hk')))))
  unfold chpVectors
  cases hms : p.maxShareHeat with
  | none =>
    have : (CHPP.rescale k p).maxShareHeat = none := hms
    simp only [this]
    simp only [CHPP.rescale, e1, e2, e3, e4, e5, e6]
  | some w =>
    have : (CHPP.rescale k p).maxShareHeat = some w := hms
    have e7 := vec_same w k g prices prices' 1 (fun key hk' => h.same key (Or.inr (Or.inr (Or.inl (by rw [hms, hk'])))))
    simp only [this]
    simp only [CHPP.rescale, e1, e2, e3, e4, e5, e6, e7]

theorem resolveCHPWith_rescale_keys {k : Rat} (hk : 0 < k) {u u' : Nat} (hu : (u' : Rat) * k = (u : Rat)) (p : CHPP)
    (hg : GuardStable k p) (base : AssetProblem) (g : Grid) (prices prices' : Prices)
    (h : UnitPricesCHP k p prices prices') (s : Nat) (costsOnly : Bool) :
    resolveCHPWith (CHPP.rescale k p) base (g.scaleDt k) prices' u' s costsOnly
      = resolveCHPWith p base g prices u s costsOnly := by
  have hk0 := ne_zero_of_pos hk
  unfold resolveCHPWith
  simp only [chpCtor_rescale hk p hg, scaleDt_T, rescale_freqMismatch, chpVectors_rescale_keys hk0 p g prices prices' h,
    mkCHPR_rescale hk0 hu]

theorem buildCHP_rescale_keys {k : Rat} (hk : 0 < k) {u u' : Nat} (hu : (u' : Rat) * k = (u : Rat)) (p : CHPP)
    (hg : GuardStable k p) (base : AssetProblem) (g : Grid) (prices prices' : Prices)
    (h : UnitPricesCHP k p prices prices') (s : Nat) :
    buildCHP (CHPP.rescale k p) base (g.scaleDt k) prices' u' s = buildCHP p base g prices u s := by
  unfold buildCHP resolveCHP
  rw [resolveCHPWith_rescale_keys hk hu p hg base g prices prices' h]

theorem costsOnlyCHP_rescale_keys {k : Rat} (hk : 0 < k) {u u' : Nat} (hu : (u' : Rat) * k = (u : Rat)) (p : CHPP)
    (hg : GuardStable k p) (base : AssetProblem) (g : Grid) (prices prices' : Prices)
    (h : UnitPricesCHP k p prices prices') (s : Nat) :
    costsOnlyCHP (CHPP.rescale k p) base (g.scaleDt k) prices' u' s = costsOnlyCHP p base g prices u s := by
  unfold costsOnlyCHP
  rw [resolveCHPWith_rescale_keys hk hu p hg base g prices prices' h]

theorem resolveCHPP_rescale_keys {k : Rat} (hk : 0 < k) {u u' : Nat} (hu : (u' : Rat) * k = (u : Rat)) (p : CHPP)
    (hg : GuardStable k p) (q : CHPProfP) (hq : ProfConsistent q) (base : AssetProblem) (g : Grid)
    (prices prices' : Prices) (h : UnitPricesCHP k p prices prices') (s : Nat) (costsOnly : Bool) :
    resolveCHPP (CHPP.rescale k p) (CHPProfP.rescale k q) base (g.scaleDt k) prices' u' s costsOnly
      = resolveCHPP p q base g prices u s costsOnly := by
  have hk0 := ne_zero_of_pos hk
  unfold resolveCHPP
  rw [chpCtor_rescale hk p hg, profCtor_rescale hk q]
  cases hc : chpCtor p with
  | error e => rfl
  | ok hf =>
    cases hp : profCtor q with
    | error e => rfl
    | ok sd =>
      have hq' := hq
      unfold ProfConsistent at hq'
      rw [hp] at hq'
      obtain ⟨hs, hd⟩ := hq'
      simp only [bind, Except.bind, Except.map]
      have hT : (g.scaleDt k).T = g.T := rfl
      have hfm : (CHPP.rescale k p).freqMismatch = p.freqMismatch := rfl
      rw [hT, hfm]
      have hprof := mkProf_rescale_core hu q sd.1 sd.2 hs hd s
      simp only [hprof, chpVectors_rescale_keys hk0 p g prices prices' h, mkCHPR_rescale hk0 hu]

theorem buildCHPP_rescale_keys {k : Rat} (hk : 0 < k) {u u' : Nat} (hu : (u' : Rat) * k = (u : Rat)) (p : CHPP)
    (hg : GuardStable k p) (q : CHPProfP) (hq : ProfConsistent q) (base : AssetProblem) (g : Grid)
    (prices prices' : Prices) (h : UnitPricesCHP k p prices prices') (s : Nat) :
    buildCHPP (CHPP.rescale k p) (CHPProfP.rescale k q) base (g.scaleDt k) prices' u' s = buildCHPP p q base g prices u s := by
  unfold buildCHPP
  rw [resolveCHPP_rescale_keys hk hu p hg q hq base g prices prices' h]

theorem buildCHPAny_rescale_keys {k : Rat} (hk : 0 < k) {u u' : Nat} (hu : (u' : Rat) * k = (u : Rat)) (p : CHPP)
    (hg : GuardStable k p) (q : CHPProfP) (hq : ProfConsistent q) (base : AssetProblem) (g : Grid)
    (prices prices' : Prices) (h : UnitPricesCHP k p prices prices') (s : Nat) :
    buildCHPAny (CHPP.rescale k p) (CHPProfP.rescale k q) base (g.scaleDt k) prices' u' s = buildCHPAny p q base g prices u s := by
  unfold buildCHPAny
  rw [active_rescale, buildCHPP_rescale_keys hk hu p hg q hq base g prices prices' h,
    buildCHP_rescale_keys hk hu p hg base g prices prices' h]

/-! ### minimum-load costs -/

theorem optVec_rescale_keys {k : Rat} (hk : k ≠ 0) (v : Option ParamValue) (g : Grid) (prices prices' : Prices)
    (h : ∀ key, v = some (.key key) → RateSeries k prices prices' key) :
    optVec (v.map (·.scale (1 / k))) (g.scaleDt k) prices' = optVec v g prices := by
  cases v with
  | none => rfl
  | some w =>
    simp only [Option.map_some, optVec,
      vec_rescale_keys hk w g prices prices' (fun key hw => h key (by rw [hw]))]

theorem buildMinLoad_rescale_keys {k : Rat} (hk : k ≠ 0) (q : MinLoadP) (a : AssetProblem) (g : Grid)
    (prices prices' : Prices) (h : UnitPricesMinLoad k q prices prices') :
    buildMinLoad (MinLoadP.rescale k q) a (g.scaleDt k) prices' = buildMinLoad q a g prices := by
  unfold buildMinLoad
  simp only [MinLoadP.rescale, scaleDt_T,
    optVec_rescale_keys hk q.threshold g prices prices' (fun key hq => h key (Or.inl hq)),
    optVec_rescale_keys hk q.costs g prices prices' (fun key hq => h key (Or.inr hq)), addMinLoad_scaleDt]

theorem costsOnlyMinLoad_rescale_keys {k : Rat} (hk : k ≠ 0) (q : MinLoadP) (c : List Rat) (g : Grid)
    (prices prices' : Prices) (h : UnitPricesMinLoad k q prices prices') :
    costsOnlyMinLoad (MinLoadP.rescale k q) c (g.scaleDt k) prices' = costsOnlyMinLoad q c g prices := by
  unfold costsOnlyMinLoad
  simp only [MinLoadP.rescale, scaleDt_T,
    optVec_rescale_keys hk q.threshold g prices prices' (fun key hq => h key (Or.inl hq)),
    optVec_rescale_keys hk q.costs g prices prices' (fun key hq => h key (Or.inr hq))]

end EAO.UnitKeys
