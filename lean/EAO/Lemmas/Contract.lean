import EAO.Model.Contract
/-! helper lemmas about the contract / transport builders (C08, C12 and builder well-formedness):
    inversion of the `Except` pipelines, lengths, where mapping rows and row coefficients come from -/
namespace EAO

/-! ### small list facts -/

theorem allSome_ok {xs : List (Option Rat)} {ys : List Rat} (h : allSome xs = .ok ys) :
    ys = xs.map (fun o => o.getD 0) ∧ xs.all Option.isSome = true := by
  unfold allSome at h
  split at h
  · rename_i hh
    simp only [pure, Except.pure] at h
    injection h with h
    exact ⟨h.symm, hh⟩
  · simp [throw, throwThe, MonadExceptOf.throw] at h

theorem allSome_length {xs : List (Option Rat)} {ys : List Rat} (h : allSome xs = .ok ys) :
    ys.length = xs.length := by
  rw [(allSome_ok h).1]; simp

theorem sample_ok {arr : List Rat} {is : List Nat} {ys : List Rat} (h : sample arr is = .ok ys) :
    ys = is.map (fun i => arr.getD i 0) := by
  unfold sample at h
  split at h
  · simp only [pure, Except.pure] at h
    injection h with h
    exact h.symm
  · simp [throw, throwThe, MonadExceptOf.throw] at h

theorem sample_length {arr : List Rat} {is : List Nat} {ys : List Rat} (h : sample arr is = .ok ys) :
    ys.length = is.length := by
  rw [sample_ok h]; simp

/-! ### inversion of `buildSimpleContract` -/

/-- what a successful `buildSimpleContract` looked at -/
structure SCData where
  price : List Rat
  ec : List Rat
  minC : List Rat
  maxC : List Rat
  node : String

def scOne (p : ContractP) (g : Grid) (d : SCData) : AssetProblem :=
  { name := p.name, nodes := p.nodes,
    c := List.zipWith (· * ·) (oneVarPrice d.price d.ec d.minC d.maxC) g.df,
    l := d.minC, u := d.maxC, rows := [],
    mapping := dispBlock p.name d.node "disp" 0 g }

def scTwo (p : ContractP) (g : Grid) (d : SCData) : AssetProblem :=
  { name := p.name, nodes := p.nodes,
    c := List.zipWith (· * ·) (List.zipWith (· - ·) d.price d.ec) g.df
         ++ List.zipWith (· * ·) (List.zipWith (· + ·) d.price d.ec) g.df,
    l := d.minC.map (rmin 0) ++ d.minC.map (rmax 0),
    u := d.maxC.map (rmin 0) ++ d.maxC.map (rmax 0),
    rows := [],
    mapping := dispBlock p.name d.node "disp_in" 0 g ++ dispBlock p.name d.node "disp_out" g.T g }

theorem buildSimpleContract_ok {p : ContractP} {g : Grid} {prices : Prices} {fullT : Nat} {P : AssetProblem}
    (h : buildSimpleContract p g prices fullT = .ok P) :
    ∃ d : SCData, ∃ minO maxO ecO,
      priceVector p.price g prices fullT = .ok d.price ∧
      contractVectors p g prices = .ok (minO, maxO, ecO) ∧
      allSome ecO = .ok d.ec ∧ allSome minO = .ok d.minC ∧ allSome maxO = .ok d.maxC ∧
      (∃ rest, p.nodes = d.node :: rest) ∧
      P = if oneVariable d.ec d.minC d.maxC then scOne p g d else scTwo p g d := by
  unfold buildSimpleContract at h
  simp only [bind, Except.bind, pure, Except.pure] at h
  split at h
  · simp at h
  cases hp : priceVector p.price g prices fullT with
  | error e => simp [hp] at h
  | ok price =>
  cases hv : contractVectors p g prices with
  | error e => simp [hp, hv] at h
  | ok v =>
  obtain ⟨minO, maxO, ecO⟩ := v
  cases hn : p.nodes with
  | nil => simp [hp, hv, hn, throw, throwThe, MonadExceptOf.throw] at h
  | cons n rest =>
  cases he : allSome ecO with
  | error e => simp [hp, hv, hn, he] at h
  | ok ec =>
  cases hmi : allSome minO with
  | error e => simp [hp, hv, hn, he, hmi] at h
  | ok minC =>
  cases hma : allSome maxO with
  | error e => simp [hp, hv, hn, he, hmi, hma] at h
  | ok maxC =>
  simp only [hp, hv, hn, he, hmi, hma] at h
  refine ⟨⟨price, ec, minC, maxC, n⟩, minO, maxO, ecO, rfl, rfl, he, hmi, hma, ⟨rest, rfl⟩, ?_⟩
  by_cases h1 : oneVariable ec minC maxC = true
  · simp only [h1, if_true] at h ⊢
    injection h with h
    rw [← h]; simp [scOne, hn]
  · simp only [h1] at h ⊢
    injection h with h
    rw [← h]; simp [scTwo, hn]


theorem valuesToGridAux_length (pts : List Int) (ivs : List Interval) (acc r : List (Option Rat))
    (hacc : acc.length = pts.length) (h : valuesToGridAux pts ivs acc = .ok r) : r.length = pts.length := by
  induction ivs generalizing acc with
  | nil =>
    simp only [valuesToGridAux] at h
    injection h with h
    rw [← h, hacc]
  | cons iv rest ih =>
    simp only [valuesToGridAux] at h
    split at h
    · simp at h
    · exact ih _ (by simp [hacc]) h

theorem valuesToGrid_length {pts : List Int} {ivs : List Interval} {r : List (Option Rat)}
    (h : valuesToGrid pts ivs = .ok r) : r.length = pts.length :=
  valuesToGridAux_length pts ivs _ r (by simp) h

theorem broadcastArray_length {vs : List Rat} {T : Nat} {r : List Rat} (h : broadcastArray vs T = .ok r) :
    r.length = T := by
  unfold broadcastArray at h
  split at h
  · rename_i hl
    simp only [pure, Except.pure] at h
    injection h with h
    rw [← h, hl]
  · split at h
    · simp only [pure, Except.pure] at h
      injection h with h
      rw [← h]; simp
    · simp [throw, throwThe, MonadExceptOf.throw] at h

theorem makeVector_ok {v : ParamValue} {g : Grid} {prices : Prices} {dflt : Option Rat} {conv : Bool}
    {xs : List (Option Rat)} (h : makeVector v g prices dflt conv = .ok xs) :
    ∃ base, baseVector v g prices dflt = .ok base ∧ xs = if conv then timesDt base g else base := by
  unfold makeVector at h
  simp only [bind, Except.bind, pure, Except.pure] at h
  cases hb : baseVector v g prices dflt with
  | error e => simp [hb] at h
  | ok base =>
    simp only [hb] at h
    refine ⟨base, rfl, ?_⟩
    cases conv <;> simp_all

theorem baseVector_length {v : ParamValue} {g : Grid} {prices : Prices} {dflt : Option Rat}
    {xs : List (Option Rat)} (hg : g.Ok) (h : baseVector v g prices dflt = .ok xs) : xs.length = g.T := by
  unfold baseVector at h
  cases v with
  | scalar s =>
    simp [pure, Except.pure] at h
    rw [← h]; simp [Grid.T]
  | array vs =>
    simp only [Except.map] at h
    cases hb : broadcastArray vs g.T with
    | error e => simp [hb] at h
    | ok r =>
      simp [hb] at h
      rw [← h]; simp [broadcastArray_length hb]
  | key k =>
    simp only at h
    cases hl : prices.lookup k with
    | none => simp [hl, throw, throwThe, MonadExceptOf.throw] at h
    | some arr =>
      simp only [hl, Except.map] at h
      cases hs : sample arr g.idx with
      | error e => simp [hs] at h
      | ok r =>
        simp [hs] at h
        rw [← h]; simp [sample_length hs, hg.1]
  | intervals ivs =>
    simp only at h
    cases hv : valuesToGrid g.pts ivs with
    | error e => simp [hv, throw, throwThe, MonadExceptOf.throw] at h
    | ok r =>
      simp only [hv, pure, Except.pure] at h
      cases dflt with
      | none =>
        simp at h
        rw [← h]; exact valuesToGrid_length hv
      | some d =>
        simp at h
        rw [← h]; simp [valuesToGrid_length hv, Grid.T]

theorem timesDt_length {base : List (Option Rat)} {g : Grid} (hg : g.Ok) (hb : base.length = g.T) :
    (timesDt base g).length = g.T := by
  simp [timesDt, hb, hg.2.1]

theorem makeVector_length {v : ParamValue} {g : Grid} {prices : Prices} {dflt : Option Rat} {conv : Bool}
    {xs : List (Option Rat)} (hg : g.Ok) (h : makeVector v g prices dflt conv = .ok xs) : xs.length = g.T := by
  obtain ⟨base, hb, rfl⟩ := makeVector_ok h
  have := baseVector_length hg hb
  cases conv
  · simpa using this
  · simpa using timesDt_length hg this


theorem priceVector_length {key : Option String} {g : Grid} {prices : Prices} {fullT : Nat} {r : List Rat}
    (h : priceVector key g prices fullT = .ok r) : r.length = g.idx.length := by
  unfold priceVector at h
  cases key with
  | none => exact sample_length h
  | some k =>
    simp only at h
    cases hl : prices.lookup k with
    | none => simp [hl, throw, throwThe, MonadExceptOf.throw] at h
    | some arr =>
      simp only [hl] at h
      split at h
      · exact sample_length h
      · simp [throw, throwThe, MonadExceptOf.throw] at h

theorem contractVectors_ok {p : ContractP} {g : Grid} {prices : Prices} {minO maxO ecO : List (Option Rat)}
    (h : contractVectors p g prices = .ok (minO, maxO, ecO)) :
    makeVector p.maxCap g prices none true = .ok maxO ∧ makeVector p.minCap g prices none true = .ok minO ∧
    anyGt minO maxO = false ∧ makeVector p.extraCosts g prices (some 0) false = .ok ecO := by
  unfold contractVectors at h
  simp only [bind, Except.bind, pure, Except.pure] at h
  cases h1 : makeVector p.maxCap g prices none true with
  | error e => simp [h1] at h
  | ok a =>
  cases h2 : makeVector p.minCap g prices none true with
  | error e => simp [h1, h2] at h
  | ok b =>
  simp only [h1, h2] at h
  split at h
  · simp [throw, throwThe, MonadExceptOf.throw] at h
  rename_i hgt
  cases h3 : makeVector p.extraCosts g prices (some 0) false with
  | error e => simp [h3] at h
  | ok c =>
  simp only [h3] at h
  injection h with h
  injection h with ha hb
  injection hb with hb hc
  subst ha hb hc
  exact ⟨rfl, rfl, by simpa using hgt, rfl⟩

/-- the lengths of everything a successful simple-contract build looked at -/
theorem scData_lengths {p : ContractP} {g : Grid} {prices : Prices} {fullT : Nat} {d : SCData}
    {minO maxO ecO : List (Option Rat)} (hg : g.Ok)
    (hp : priceVector p.price g prices fullT = .ok d.price)
    (hv : contractVectors p g prices = .ok (minO, maxO, ecO))
    (he : allSome ecO = .ok d.ec) (hmi : allSome minO = .ok d.minC) (hma : allSome maxO = .ok d.maxC) :
    d.price.length = g.T ∧ d.ec.length = g.T ∧ d.minC.length = g.T ∧ d.maxC.length = g.T := by
  obtain ⟨h1, h2, _, h3⟩ := contractVectors_ok hv
  refine ⟨by rw [priceVector_length hp, hg.1], ?_, ?_, ?_⟩
  · rw [allSome_length he, makeVector_length hg h3]
  · rw [allSome_length hmi, makeVector_length hg h2]
  · rw [allSome_length hma, makeVector_length hg h1]


/-- well-formedness of what a builder returns for an asset called `name` at `nodes` on grid `g` -/
structure BuiltWf (name : String) (nodes : List String) (g : Grid) (P : AssetProblem) : Prop where
  name_eq  : P.name = name
  nodes_eq : P.nodes = nodes
  l_len    : P.l.length = P.n
  u_len    : P.u.length = P.n
  n_eq     : P.n = g.T ∨ P.n = 2 * g.T
  map_ok   : ∀ m ∈ P.mapping, m.var < P.n ∧ m.asset = name ∧ m.kind = .d ∧ m.step ∈ g.idx ∧
               (∃ n ∈ nodes, m.node = some n) ∧ m.isBool = false
  rows_ok  : ∀ r ∈ P.rows, r.coeffs ≠ [] ∧ (∀ q ∈ r.coeffs, q.1 < P.n) ∧ (r.kind = .U ∨ r.kind = .L)

theorem mem_dispBlock {asset node varName : String} {off : Nat} {g : Grid} {m : MapRow}
    (h : m ∈ dispBlock asset node varName off g) :
    ∃ i, ∃ hi : i < g.idx.length, m = dispRow asset node varName (off + i) (g.idx[i]) := by
  simp only [dispBlock, List.mem_map] at h
  obtain ⟨⟨t, i⟩, hti, rfl⟩ := h
  obtain ⟨hi, ht⟩ := List.mem_zipIdx' hti
  exact ⟨i, hi, by simp [ht]⟩

def trRow (asset node : String) (f : Rat) (i t : Nat) : MapRow :=
  { var := i, asset := asset, node := some node, kind := VarKind.d, step := t, factor := f, isBool := false,
    varName := "disp" }

theorem mem_transportBlock {asset node : String} {f : Rat} {g : Grid} {m : MapRow}
    (h : m ∈ transportBlock asset node f g) :
    ∃ i, ∃ hi : i < g.idx.length, m = trRow asset node f i (g.idx[i]) := by
  simp only [transportBlock, List.mem_map] at h
  obtain ⟨⟨t, i⟩, hti, rfl⟩ := h
  obtain ⟨hi, ht⟩ := List.mem_zipIdx' hti
  exact ⟨i, hi, by simp [ht, trRow]⟩

theorem oneVarPrice_length {price ec minC maxC : List Rat} {T : Nat} (h1 : price.length = T) (h2 : ec.length = T) :
    (oneVarPrice price ec minC maxC).length = T := by
  unfold oneVarPrice
  split
  · split <;> split <;> simp [h1, h2]
  · exact h1

theorem scOne_wf {p : ContractP} {g : Grid} {d : SCData} (hg : g.Ok) {rest : List String}
    (hn : p.nodes = d.node :: rest)
    (hl : d.price.length = g.T ∧ d.ec.length = g.T ∧ d.minC.length = g.T ∧ d.maxC.length = g.T) :
    BuiltWf p.name p.nodes g (scOne p g d) := by
  have hc : (scOne p g d).n = g.T := by
    simp [scOne, AssetProblem.n, oneVarPrice_length hl.1 hl.2.1, hg.2.2]
  refine ⟨rfl, rfl, ?_, ?_, Or.inl hc, ?_, ?_⟩
  · rw [hc]; exact hl.2.2.1
  · rw [hc]; exact hl.2.2.2
  · intro m hm
    obtain ⟨i, hi, rfl⟩ := mem_dispBlock hm
    rw [hc]
    refine ⟨by simpa [dispRow, hg.1] using hi, rfl, rfl, by simp [dispRow], ⟨d.node, by simp [hn], rfl⟩, rfl⟩
  · intro r hr
    simp [scOne] at hr

theorem scTwo_wf {p : ContractP} {g : Grid} {d : SCData} (hg : g.Ok) {rest : List String}
    (hn : p.nodes = d.node :: rest)
    (hl : d.price.length = g.T ∧ d.ec.length = g.T ∧ d.minC.length = g.T ∧ d.maxC.length = g.T) :
    BuiltWf p.name p.nodes g (scTwo p g d) := by
  have hc : (scTwo p g d).n = 2 * g.T := by
    simp [scTwo, AssetProblem.n, hl.1, hl.2.1, hg.2.2]; omega
  refine ⟨rfl, rfl, ?_, ?_, Or.inr hc, ?_, ?_⟩
  · rw [hc]; simp [scTwo, hl.2.2.1]; omega
  · rw [hc]; simp [scTwo, hl.2.2.2]; omega
  · intro m hm
    rw [hc]
    simp only [scTwo, List.mem_append] at hm
    rcases hm with hm | hm
    · obtain ⟨i, hi, rfl⟩ := mem_dispBlock hm
      refine ⟨?_, rfl, rfl, by simp [dispRow], ⟨d.node, by simp [hn], rfl⟩, rfl⟩
      have := hg.1
      simp only [dispRow]; omega
    · obtain ⟨i, hi, rfl⟩ := mem_dispBlock hm
      refine ⟨?_, rfl, rfl, by simp [dispRow], ⟨d.node, by simp [hn], rfl⟩, rfl⟩
      have := hg.1
      simp only [dispRow]; omega
  · intro r hr
    simp [scTwo] at hr

theorem simpleContract_wf {p : ContractP} {g : Grid} {prices : Prices} {fullT : Nat} {P : AssetProblem}
    (hg : g.Ok) (h : buildSimpleContract p g prices fullT = .ok P) : BuiltWf p.name p.nodes g P := by
  obtain ⟨d, minO, maxO, ecO, hp, hv, he, hmi, hma, ⟨rest, hn⟩, rfl⟩ := buildSimpleContract_ok h
  have hl := scData_lengths hg hp hv he hmi hma
  split
  · exact scOne_wf hg hn hl
  · exact scTwo_wf hg hn hl


/-! ### take rows -/

theorem mem_takeSel {g : Grid} {mapping : List MapRow} {node : Option String} {s e : Int} {m : MapRow}
    (hm : m ∈ takeSel g mapping node s e) :
    m ∈ mapping ∧ nodeOK node m = true ∧ ∃ i ∈ coveredPos g s e, m.step = g.idx.getD i 0 := by
  simp only [takeSel, List.mem_flatMap, rowsAt, List.mem_filter, Bool.and_eq_true, beq_iff_eq] at hm
  obtain ⟨i, hi, hmm, hst, hno⟩ := hm
  exact ⟨hmm, hno, i, hi, hst⟩

theorem takeSel_nil_of_uncovered {g : Grid} {mapping : List MapRow} {node : Option String} {s e : Int}
    (h : coveredPos g s e = []) : takeSel g mapping node s e = [] := by
  simp [takeSel, h]

theorem takeRow_none_of_uncovered {kind : RowKind} {u : Nat} {g : Grid} {mapping : List MapRow}
    {node : Option String} {tk : Take} (h : coveredPos g tk.1 tk.2.1 = []) :
    takeRow kind u g mapping node tk = none := by
  simp [takeRow, takeSel_nil_of_uncovered h]

theorem takeRow_some {kind : RowKind} {u : Nat} {g : Grid} {mapping : List MapRow}
    {node : Option String} {tk : Take} {r : Row} (h : takeRow kind u g mapping node tk = some r) :
    takeSel g mapping node tk.1 tk.2.1 ≠ [] ∧ r.kind = kind ∧
    r.coeffs = (takeSel g mapping node tk.1 tk.2.1).map (fun m => (m.var, m.factor)) ∧
    r.rhs = tk.2.2 / takeDuration tk.1 tk.2.1 u
              * ((takeSteps g mapping node tk.1 tk.2.1).map fun i => g.dt.getD i 0).sum := by
  unfold takeRow at h
  simp only at h
  split at h
  · simp at h
  · rename_i hne
    injection h with h
    subst h
    exact ⟨by simpa using hne, rfl, rfl, rfl⟩

theorem defineRestr_row {kind : RowKind} {u : Nat} {g : Grid} {mapping : List MapRow}
    {node : Option String} {takes : List Take} {r : Row} (hr : r ∈ defineRestr kind u g mapping node takes) :
    ∃ tk ∈ takes, takeRow kind u g mapping node tk = some r := by
  simpa [defineRestr, List.mem_filterMap] using hr

theorem defineRestr_rows_ok {kind : RowKind} {u : Nat} {g : Grid} {mapping : List MapRow}
    {node : Option String} {takes : List Take} {r : Row} (hr : r ∈ defineRestr kind u g mapping node takes) :
    r.kind = kind ∧ r.coeffs ≠ [] ∧ ∀ q ∈ r.coeffs, ∃ m ∈ mapping, q = (m.var, m.factor) := by
  obtain ⟨tk, _, htk⟩ := defineRestr_row hr
  obtain ⟨hne, hk, hc, _⟩ := takeRow_some htk
  refine ⟨hk, by simpa [hc] using hne, ?_⟩
  intro q hq
  rw [hc, List.mem_map] at hq
  obtain ⟨m, hm, rfl⟩ := hq
  exact ⟨m, (mem_takeSel hm).1, rfl⟩

/-- a mapping without rows yields no take rows -/
theorem defineRestr_nil_mapping (kind : RowKind) (u : Nat) (g : Grid) (node : Option String) (takes : List Take) :
    defineRestr kind u g [] node takes = [] := by
  simp only [defineRestr, List.filterMap_eq_nil_iff]
  intro tk _
  simp [takeRow, takeSel, rowsAt]

/-- a period covering no step adds no row, wherever it stands in the list -/
theorem defineRestr_insert_uncovered (kind : RowKind) (u : Nat) (g : Grid) (mapping : List MapRow)
    (node : Option String) (xs ys : List Take) (tk : Take) (h : coveredPos g tk.1 tk.2.1 = []) :
    defineRestr kind u g mapping node (xs ++ tk :: ys) = defineRestr kind u g mapping node (xs ++ ys) := by
  simp [defineRestr, List.filterMap_append, takeRow_none_of_uncovered h]

/-- adding take rows built from the own mapping keeps a problem well formed -/
theorem BuiltWf.addRows {name : String} {nodes : List String} {g : Grid} {a : AssetProblem}
    (h : BuiltWf name nodes g a) (rows : List Row)
    (hr : ∀ r ∈ rows, (r.kind = .U ∨ r.kind = .L) ∧ r.coeffs ≠ [] ∧ ∀ q ∈ r.coeffs, ∃ m ∈ a.mapping, q = (m.var, m.factor)) :
    BuiltWf name nodes g { a with rows := a.rows ++ rows } := by
  refine ⟨h.name_eq, h.nodes_eq, h.l_len, h.u_len, h.n_eq, h.map_ok, ?_⟩
  intro r hrr
  simp only [List.mem_append] at hrr
  rcases hrr with hrr | hrr
  · exact h.rows_ok r hrr
  · obtain ⟨hk, hne, hq⟩ := hr r hrr
    refine ⟨hne, ?_, hk⟩
    intro q hqq
    obtain ⟨m, hm, rfl⟩ := hq q hqq
    exact (h.map_ok m hm).1


/-! ### inversion and well-formedness of the other builders -/

theorem buildContract_ok {p : ContractP} {g : Grid} {prices : Prices} {fullT u : Nat} {P : AssetProblem}
    (h : buildContract p g prices fullT u = .ok P) :
    ∃ a, buildSimpleContract p g prices fullT = .ok a ∧
      P = { a with rows := a.rows ++ defineRestr .U u g a.mapping none p.maxTake
                                 ++ defineRestr .L u g a.mapping none p.minTake } := by
  unfold buildContract at h
  simp only [bind, Except.bind, pure, Except.pure] at h
  cases ha : buildSimpleContract p g prices fullT with
  | error e => simp [ha] at h
  | ok a =>
    simp only [ha] at h
    injection h with h
    exact ⟨a, rfl, h.symm⟩

theorem contract_wf' {p : ContractP} {g : Grid} {prices : Prices} {fullT u : Nat} {P : AssetProblem}
    (hg : g.Ok) (h : buildContract p g prices fullT u = .ok P) : BuiltWf p.name p.nodes g P := by
  obtain ⟨a, ha, rfl⟩ := buildContract_ok h
  have hw := simpleContract_wf hg ha
  have := hw.addRows (defineRestr .U u g a.mapping none p.maxTake ++ defineRestr .L u g a.mapping none p.minTake) (by
    intro r hr
    simp only [List.mem_append] at hr
    rcases hr with hr | hr
    · obtain ⟨hk, h2⟩ := defineRestr_rows_ok hr
      exact ⟨Or.inl hk, h2⟩
    · obtain ⟨hk, h2⟩ := defineRestr_rows_ok hr
      exact ⟨Or.inr hk, h2⟩)
  simpa [List.append_assoc] using this

theorem buildMulti_ok {p : ContractP} {factors : List Rat} {g : Grid} {prices : Prices} {fullT u : Nat}
    {P : AssetProblem} (h : buildMulti p factors g prices fullT u = .ok P) :
    factors.length = p.nodes.length ∧ ∃ a, buildContract p g prices fullT u = .ok a ∧
      P = { a with mapping := (p.nodes.zip factors).flatMap fun nf =>
                     a.mapping.map fun m => { m with node := some nf.1, factor := m.factor * nf.2 } } := by
  unfold buildMulti at h
  simp only [bind, Except.bind, pure, Except.pure] at h
  split at h
  · simp [throw, throwThe, MonadExceptOf.throw] at h
  split at h
  · simp [throw, throwThe, MonadExceptOf.throw] at h
  rename_i hf
  cases ha : buildContract p g prices fullT u with
  | error e => simp [ha] at h
  | ok a =>
    simp only [ha] at h
    injection h with h
    exact ⟨by simpa using hf, a, rfl, h.symm⟩

theorem multi_wf' {p : ContractP} {factors : List Rat} {g : Grid} {prices : Prices} {fullT u : Nat}
    {P : AssetProblem} (hg : g.Ok) (h : buildMulti p factors g prices fullT u = .ok P) :
    BuiltWf p.name p.nodes g P := by
  obtain ⟨_, a, ha, rfl⟩ := buildMulti_ok h
  have hw := contract_wf' hg ha
  refine ⟨hw.name_eq, hw.nodes_eq, hw.l_len, hw.u_len, hw.n_eq, ?_, hw.rows_ok⟩
  intro m hm
  simp only [List.mem_flatMap, List.mem_map] at hm
  obtain ⟨⟨n, f⟩, hnf, m0, hm0, rfl⟩ := hm
  obtain ⟨h1, h2, h3, h4, _, h6⟩ := hw.map_ok m0 hm0
  exact ⟨h1, h2, h3, h4, ⟨n, (List.of_mem_zip hnf).1, rfl⟩, h6⟩

/-- the problem a successful `buildTransport` returns, given the sampled cost series -/
def trProblem (p : TransportP) (g : Grid) (n0 n1 : String) (cts : List Rat) : AssetProblem :=
  { name := p.name, nodes := p.nodes,
    c := List.zipWith (· * ·)
           (if (g.dt.map (p.maxCap * ·)).all (fun v => decide (v ≤ 0))
            then (cts.map (· + p.costsConst)).map (fun v => -v) else cts.map (· + p.costsConst)) g.df,
    l := g.dt.map (p.minCap * ·), u := g.dt.map (p.maxCap * ·), rows := [],
    mapping := transportBlock p.name n0 (-1) g ++ transportBlock p.name n1 p.efficiency g }

theorem buildTransport_ok {p : TransportP} {g : Grid} {prices : Prices} {fullT : Nat} {P : AssetProblem}
    (h : buildTransport p g prices fullT = .ok P) :
    ∃ n0 n1 cts, p.nodes = [n0, n1] ∧ ¬ p.maxCap < p.minCap ∧ 0 < p.efficiency ∧
      transportCosts p.costsKey g prices fullT = .ok cts ∧ P = trProblem p g n0 n1 cts := by
  unfold buildTransport at h
  split at h
  · rename_i n0 n1 hn
    simp only [bind, Except.bind, pure, Except.pure] at h
    split at h
    · simp [throw, throwThe, MonadExceptOf.throw] at h
    rename_i h1
    split at h
    · simp [throw, throwThe, MonadExceptOf.throw] at h
    rename_i h2
    cases hc : transportCosts p.costsKey g prices fullT with
    | error e => simp [hc] at h
    | ok cts =>
      simp only [hc] at h
      split at h
      · simp [throw, throwThe, MonadExceptOf.throw] at h
      injection h with h
      exact ⟨n0, n1, cts, hn, h1, by simpa using h2, rfl, by rw [← h, trProblem, hn]⟩
  · simp [throw, throwThe, MonadExceptOf.throw] at h


theorem transportCosts_length {key : Option String} {g : Grid} {prices : Prices} {fullT : Nat} {r : List Rat}
    (h : transportCosts key g prices fullT = .ok r) : r.length = g.idx.length := by
  unfold transportCosts at h
  cases key with
  | none => exact sample_length h
  | some k =>
    simp only at h
    cases hl : prices.lookup k with
    | none => simp [hl, throw, throwThe, MonadExceptOf.throw] at h
    | some arr =>
      simp only [hl] at h
      split at h
      · exact sample_length h
      · simp [throw, throwThe, MonadExceptOf.throw] at h

theorem transport_wf' {p : TransportP} {g : Grid} {prices : Prices} {fullT : Nat} {P : AssetProblem}
    (hg : g.Ok) (h : buildTransport p g prices fullT = .ok P) : BuiltWf p.name p.nodes g P := by
  obtain ⟨n0, n1, cts, hn, _, _, hc, rfl⟩ := buildTransport_ok h
  have hlen := transportCosts_length hc
  have hn' : (trProblem p g n0 n1 cts).n = g.T := by
    simp only [AssetProblem.n, trProblem]
    split <;> simp [hlen, hg.1, hg.2.2]
  refine ⟨rfl, rfl, ?_, ?_, Or.inl hn', ?_, ?_⟩
  · rw [hn']; simp [trProblem, hg.2.1]
  · rw [hn']; simp [trProblem, hg.2.1]
  · intro m hm
    rw [hn']
    simp only [trProblem, List.mem_append] at hm
    rcases hm with hm | hm
    · obtain ⟨i, hi, rfl⟩ := mem_transportBlock hm
      exact ⟨by simpa [trRow, hg.1] using hi, rfl, rfl, by simp [trRow], ⟨n0, by simp [hn], rfl⟩, rfl⟩
    · obtain ⟨i, hi, rfl⟩ := mem_transportBlock hm
      exact ⟨by simpa [trRow, hg.1] using hi, rfl, rfl, by simp [trRow], ⟨n1, by simp [hn], rfl⟩, rfl⟩
  · intro r hr
    simp [trProblem] at hr

theorem buildExtTransport_ok {p : TransportP} {g : Grid} {prices : Prices} {fullT u : Nat} {P : AssetProblem}
    (h : buildExtTransport p g prices fullT u = .ok P) :
    ∃ a, buildTransport p g prices fullT = .ok a ∧
      P = { a with rows := a.rows ++ defineRestr .L u g a.mapping p.nodes.head? (p.maxTake.map negTake)
                                 ++ defineRestr .U u g a.mapping p.nodes.head? (p.minTake.map negTake) } := by
  unfold buildExtTransport at h
  simp only [bind, Except.bind, pure, Except.pure] at h
  cases ha : buildTransport p g prices fullT with
  | error e => simp [ha] at h
  | ok a =>
    simp only [ha] at h
    injection h with h
    exact ⟨a, rfl, h.symm⟩

theorem extTransport_wf' {p : TransportP} {g : Grid} {prices : Prices} {fullT u : Nat} {P : AssetProblem}
    (hg : g.Ok) (h : buildExtTransport p g prices fullT u = .ok P) : BuiltWf p.name p.nodes g P := by
  obtain ⟨a, ha, rfl⟩ := buildExtTransport_ok h
  have hw := transport_wf' hg ha
  have := hw.addRows (defineRestr .L u g a.mapping p.nodes.head? (p.maxTake.map negTake)
                      ++ defineRestr .U u g a.mapping p.nodes.head? (p.minTake.map negTake)) (by
    intro r hr
    simp only [List.mem_append] at hr
    rcases hr with hr | hr
    · obtain ⟨hk, h2⟩ := defineRestr_rows_ok hr
      exact ⟨Or.inr hk, h2⟩
    · obtain ⟨hk, h2⟩ := defineRestr_rows_ok hr
      exact ⟨Or.inl hk, h2⟩)
  simpa [List.append_assoc] using this

/-- a well-formed built problem on a grid without steps is empty -/
theorem BuiltWf.empty {name : String} {nodes : List String} {g : Grid} {P : AssetProblem}
    (h : BuiltWf name nodes g P) (hT : g.T = 0) :
    P.c = [] ∧ P.l = [] ∧ P.u = [] ∧ P.rows = [] ∧ P.mapping = [] := by
  have hn : P.n = 0 := by rcases h.n_eq with h1 | h1 <;> omega
  refine ⟨List.eq_nil_of_length_eq_zero hn, List.eq_nil_of_length_eq_zero (by rw [h.l_len, hn]),
          List.eq_nil_of_length_eq_zero (by rw [h.u_len, hn]), ?_, ?_⟩
  · apply List.eq_nil_iff_forall_not_mem.mpr
    intro r hr
    obtain ⟨hne, hq, _⟩ := h.rows_ok r hr
    cases hc : r.coeffs with
    | nil => exact hne hc
    | cons q rest =>
      have := hq q (by simp [hc])
      omega
  · apply List.eq_nil_iff_forall_not_mem.mpr
    intro m hm
    have := (h.map_ok m hm).1
    omega


/-! ### limits follow `dt` -/

theorem sum_map_mul_left (r : Rat) (xs : List Rat) : (xs.map (r * ·)).sum = r * xs.sum := by
  induction xs with
  | nil => simp
  | cons x xs ih => simp only [List.map_cons, List.sum_cons, ih]; grind

theorem rmin_add_rmax (x : Rat) : rmin 0 x + rmax 0 x = x := by
  unfold rmin rmax
  split <;> grind

theorem sum_rmin_rmax (xs : List Rat) : (xs.map (rmin 0) ++ xs.map (rmax 0)).sum = xs.sum := by
  rw [List.sum_append]
  induction xs with
  | nil => simp [Rat.add_zero]
  | cons x xs ih =>
    simp only [List.map_cons, List.sum_cons]
    have := rmin_add_rmax x
    grind

/-- if `vec * dt` has no NaN then neither has `vec` (equal lengths), and the product is taken entry by entry -/
theorem timesDt_allSome (base : List (Option Rat)) (dt : List Rat) (hl : base.length = dt.length)
    (h : ((base.zip dt).map fun p => p.1.map (· * p.2)).all Option.isSome = true) :
    ∃ rates : List Rat, base = rates.map some ∧
      ((base.zip dt).map fun p => p.1.map (· * p.2)).map (fun o => o.getD 0) = List.zipWith (· * ·) rates dt := by
  induction base generalizing dt with
  | nil => exact ⟨[], rfl, by simp⟩
  | cons o os ih =>
    cases dt with
    | nil => simp at hl
    | cons d ds =>
      simp only [List.zip_cons_cons, List.map_cons, List.all_cons, Bool.and_eq_true] at h
      obtain ⟨rates, hr, he⟩ := ih ds (by simpa using hl) h.2
      cases o with
      | none => simp at h
      | some v =>
        refine ⟨v :: rates, by simp [hr], ?_⟩
        simp only [List.zip_cons_cons, List.map_cons, List.zipWith_cons_cons, he]
        simp

/-- capacities in volume per step are `rate_t · dt_t` -/
theorem capVector_eq {v : ParamValue} {g : Grid} {prices : Prices} {xs : List (Option Rat)} {ys : List Rat}
    (hg : g.Ok) (h : makeVector v g prices none true = .ok xs) (ha : allSome xs = .ok ys) :
    ∃ rates : List Rat, baseVector v g prices none = .ok (rates.map some) ∧ rates.length = g.T ∧
      ys = List.zipWith (· * ·) rates g.dt := by
  obtain ⟨base, hb, rfl⟩ := makeVector_ok h
  obtain ⟨hy, hs⟩ := allSome_ok ha
  have hl := baseVector_length hg hb
  simp only [if_true, timesDt] at hy hs
  obtain ⟨rates, hr, he⟩ := timesDt_allSome base g.dt (by rw [hl, hg.2.1]) hs
  refine ⟨rates, by rw [hb, hr], ?_, by rw [hy, he]⟩
  rw [← hl, hr]; simp

theorem baseVector_scalar (r : Rat) (g : Grid) (prices : Prices) (d : Option Rat) :
    baseVector (.scalar r) g prices d = .ok (g.pts.map fun _ => some r) := rfl

theorem zipWith_const_mul {α} (r : Rat) (pts : List α) (dt : List Rat) (hl : pts.length = dt.length) :
    List.zipWith (· * ·) (pts.map fun _ => r) dt = dt.map (r * ·) := by
  induction pts generalizing dt with
  | nil => cases dt <;> simp_all
  | cons p ps ih =>
    cases dt with
    | nil => simp at hl
    | cons d ds => simp [ih ds (by simpa using hl)]

/-- a constant rate gives the vector `r · dt` -/
theorem capVector_scalar {r : Rat} {g : Grid} {prices : Prices} {xs : List (Option Rat)} {ys : List Rat}
    (hg : g.Ok) (h : makeVector (.scalar r) g prices none true = .ok xs) (ha : allSome xs = .ok ys) :
    ys = g.dt.map (r * ·) := by
  obtain ⟨rates, hb, _, hy⟩ := capVector_eq hg h ha
  rw [baseVector_scalar] at hb
  injection hb with hb
  have : rates = g.pts.map fun _ => r := by
    have := congrArg (List.map (fun o : Option Rat => o.getD 0)) hb
    simp only [List.map_map] at this
    have e1 : ((fun o : Option Rat => o.getD 0) ∘ some) = id := by funext x; rfl
    rw [e1, List.map_id] at this
    rw [← this]; rfl
  rw [hy, this]
  exact zipWith_const_mul r g.pts g.dt (by have := hg.2.1; simpa [Grid.T] using this.symm)


/-! ### change of the main time unit -/

@[simp] theorem scaleDt_pts (k : Rat) (g : Grid) : (g.scaleDt k).pts = g.pts := rfl
@[simp] theorem scaleDt_idx (k : Rat) (g : Grid) : (g.scaleDt k).idx = g.idx := rfl
@[simp] theorem scaleDt_df (k : Rat) (g : Grid) : (g.scaleDt k).df = g.df := rfl
@[simp] theorem scaleDt_T (k : Rat) (g : Grid) : (g.scaleDt k).T = g.T := rfl
@[simp] theorem scaleDt_dt (k : Rat) (g : Grid) : (g.scaleDt k).dt = g.dt.map (· * k) := rfl

theorem baseVector_scaleDt (v : ParamValue) (k : Rat) (g : Grid) (prices : Prices) (d : Option Rat) :
    baseVector v (g.scaleDt k) prices d = baseVector v g prices d := by
  cases v <;> rfl

theorem Interval.scale_contains (c : Rat) (iv : Interval) (p : Int) : (Interval.scale c iv).contains p = iv.contains p := rfl

theorem valuesToGridAux_scale (c : Rat) (pts : List Int) (ivs : List Interval) (acc : List (Option Rat)) :
    valuesToGridAux pts (ivs.map (Interval.scale c)) (acc.map (Option.map (· * c)))
      = (valuesToGridAux pts ivs acc).map (List.map (Option.map (· * c))) := by
  induction ivs generalizing acc with
  | nil => simp [valuesToGridAux, Except.map]
  | cons iv rest ih =>
    simp only [List.map_cons, valuesToGridAux]
    have hany : ((pts.zip (acc.map (Option.map (· * c)))).any fun pa => (Interval.scale c iv).contains pa.1 && pa.2.isSome)
        = ((pts.zip acc).any fun pa => iv.contains pa.1 && pa.2.isSome) := by
      rw [List.zip_map_right, List.any_map]
      congr 1
      funext pa
      simp [Interval.scale_contains]
    rw [hany]
    split
    · simp [Except.map]
    · have hacc : ((pts.zip (acc.map (Option.map (· * c)))).map fun pa =>
            if (Interval.scale c iv).contains pa.1 then some (Interval.scale c iv).value else pa.2)
          = (((pts.zip acc).map fun pa => if iv.contains pa.1 then some iv.value else pa.2)).map (Option.map (· * c)) := by
        rw [List.zip_map_right, List.map_map, List.map_map]
        apply List.map_congr_left
        intro pa _
        simp only [Function.comp, Prod.map, id]
        rw [Interval.scale_contains]
        split <;> simp [Interval.scale]
      rw [hacc]
      exact ih _

theorem valuesToGrid_scale (c : Rat) (pts : List Int) (ivs : List Interval) :
    valuesToGrid pts (ivs.map (Interval.scale c)) = (valuesToGrid pts ivs).map (List.map (Option.map (· * c))) := by
  unfold valuesToGrid
  have := valuesToGridAux_scale c pts ivs (pts.map fun _ => none)
  have e : (pts.map fun _ => (none : Option Rat)).map (Option.map (· * c)) = pts.map fun _ => none := by simp
  rw [e] at this
  exact this

/-- scaling the values of a parameter that does not refer to the price data scales its vector -/
theorem baseVector_scale (c : Rat) {v : ParamValue} (hv : v.isKey = false) (g : Grid) (prices : Prices) :
    baseVector (v.scale c) g prices none = (baseVector v g prices none).map (List.map (Option.map (· * c))) := by
  cases v with
  | scalar s => simp [ParamValue.scale, baseVector, pure, Except.pure, Except.map]
  | array vs =>
    simp only [ParamValue.scale, baseVector, broadcastArray, List.length_map]
    split
    · simp [pure, Except.pure, Except.map]
    · cases vs with
      | nil => simp [throw, throwThe, MonadExceptOf.throw, Except.map]
      | cons a as =>
        cases as with
        | nil => simp [pure, Except.pure, Except.map]
        | cons b bs => simp [throw, throwThe, MonadExceptOf.throw, Except.map]
  | key k => simp [ParamValue.isKey] at hv
  | intervals ivs =>
    simp only [ParamValue.scale, baseVector]
    rw [valuesToGrid_scale c g.pts ivs]
    cases valuesToGrid g.pts ivs <;> simp [Except.map, pure, Except.pure, throw, throwThe, MonadExceptOf.throw]

theorem timesDt_rescale {k : Rat} (hk : k ≠ 0) (base : List (Option Rat)) (g : Grid) :
    timesDt (base.map (Option.map (· * (1 / k)))) (g.scaleDt k) = timesDt base g := by
  simp only [timesDt, scaleDt_dt, List.zip_map, List.map_map]
  apply List.map_congr_left
  intro pa _
  cases h : pa.1 with
  | none => simp [Function.comp, Prod.map, h]
  | some x =>
    simp only [Function.comp, Prod.map, h, Option.map_some, Option.some.injEq]
    grind

/-- capacities: rate divided by `k`, step lengths multiplied by `k` — the same volumes per step -/
theorem makeVector_rescale {k : Rat} (hk : k ≠ 0) {v : ParamValue} (hv : v.isKey = false) (g : Grid) (prices : Prices) :
    makeVector (v.scale (1 / k)) (g.scaleDt k) prices none true = makeVector v g prices none true := by
  unfold makeVector
  rw [baseVector_scaleDt, baseVector_scale _ hv]
  cases baseVector v g prices none with
  | error e => rfl
  | ok base =>
    simp only [Except.map, bind, Except.bind, pure, Except.pure, if_true]
    rw [timesDt_rescale hk]

theorem makeVector_scaleDt_noconvert (v : ParamValue) (k : Rat) (g : Grid) (prices : Prices) (d : Option Rat) :
    makeVector v (g.scaleDt k) prices d false = makeVector v g prices d false := by
  unfold makeVector
  rw [baseVector_scaleDt]
  rfl


theorem one_div_pos {k : Rat} (hk : 0 < k) : 0 < 1 / k := by
  rw [Rat.div_def, Rat.one_mul]; exact Rat.inv_pos.mpr hk

theorem scalarIllPosed_rescale {k : Rat} (hk : 0 < k) (a b : ParamValue) :
    scalarIllPosed (a.scale (1 / k)) (b.scale (1 / k)) = scalarIllPosed a b := by
  cases a <;> cases b <;> simp [ParamValue.scale, scalarIllPosed]
  exact Rat.mul_lt_mul_right (one_div_pos hk)

theorem contractVectors_rescale {k : Rat} (hk : k ≠ 0) (p : ContractP) (hmin : p.minCap.isKey = false)
    (hmax : p.maxCap.isKey = false) (g : Grid) (prices : Prices) :
    contractVectors (p.rescale k) (g.scaleDt k) prices = contractVectors p g prices := by
  unfold contractVectors
  simp only [ContractP.rescale, makeVector_rescale hk hmin, makeVector_rescale hk hmax,
    makeVector_scaleDt_noconvert]

theorem simple_unit_change' {k : Rat} (hk : 0 < k) (p : ContractP) (hmin : p.minCap.isKey = false)
    (hmax : p.maxCap.isKey = false) (g : Grid) (prices : Prices) (fullT : Nat) :
    buildSimpleContract (p.rescale k) (g.scaleDt k) prices fullT = buildSimpleContract p g prices fullT := by
  have hk0 : k ≠ 0 := by intro h; rw [h] at hk; exact absurd hk (by decide)
  unfold buildSimpleContract
  rw [contractVectors_rescale hk0 p hmin hmax]
  have : scalarIllPosed (p.rescale k).minCap (p.rescale k).maxCap = scalarIllPosed p.minCap p.maxCap :=
    scalarIllPosed_rescale hk _ _
  rw [this]
  rfl

theorem getD_map_mul (l : List Rat) (k : Rat) (i : Nat) : (l.map (· * k)).getD i 0 = l.getD i 0 * k := by
  simp only [List.getD_eq_getElem?_getD, List.getElem?_map]
  cases l[i]? <;> simp [Rat.zero_mul]

theorem sum_map_mul_right (k : Rat) (xs : List Rat) : (xs.map (· * k)).sum = xs.sum * k := by
  induction xs with
  | nil => simp [Rat.zero_mul]
  | cons x xs ih => simp only [List.map_cons, List.sum_cons, ih]; grind

theorem takeRow_rescale {k : Rat} {u u' : Nat} (hu : (u' : Rat) * k = (u : Rat)) (kind : RowKind) (g : Grid)
    (mapping : List MapRow) (node : Option String) (tk : Take) :
    takeRow kind u' (g.scaleDt k) mapping node tk = takeRow kind u g mapping node tk := by
  unfold takeRow
  have hsel : takeSel (g.scaleDt k) mapping node tk.1 tk.2.1 = takeSel g mapping node tk.1 tk.2.1 := rfl
  have hst : takeSteps (g.scaleDt k) mapping node tk.1 tk.2.1 = takeSteps g mapping node tk.1 tk.2.1 := rfl
  simp only [hsel, hst]
  split
  · rfl
  · have hs : ((takeSteps g mapping node tk.1 tk.2.1).map fun i => (g.scaleDt k).dt.getD i 0).sum
        = ((takeSteps g mapping node tk.1 tk.2.1).map fun i => g.dt.getD i 0).sum * k := by
      rw [← sum_map_mul_right, List.map_map]
      congr 1
      apply List.map_congr_left
      intro i _
      simp only [Function.comp, scaleDt_dt]
      exact getD_map_mul g.dt k i
    rw [hs]
    simp only [takeDuration, ← hu]
    congr 2
    grind

theorem defineRestr_rescale {k : Rat} {u u' : Nat} (hu : (u' : Rat) * k = (u : Rat)) (kind : RowKind) (g : Grid)
    (mapping : List MapRow) (node : Option String) (takes : List Take) :
    defineRestr kind u' (g.scaleDt k) mapping node takes = defineRestr kind u g mapping node takes := by
  unfold defineRestr
  congr 1
  funext tk
  exact takeRow_rescale hu kind g mapping node tk

theorem contract_unit_change' {k : Rat} (hk : 0 < k) {u u' : Nat} (hu : (u' : Rat) * k = (u : Rat))
    (p : ContractP) (hmin : p.minCap.isKey = false) (hmax : p.maxCap.isKey = false) (g : Grid)
    (prices : Prices) (fullT : Nat) :
    buildContract (p.rescale k) (g.scaleDt k) prices fullT u' = buildContract p g prices fullT u := by
  unfold buildContract
  rw [simple_unit_change' hk p hmin hmax]
  simp only [defineRestr_rescale hu]
  rfl

theorem multi_unit_change' {k : Rat} (hk : 0 < k) {u u' : Nat} (hu : (u' : Rat) * k = (u : Rat))
    (p : ContractP) (factors : List Rat) (hmin : p.minCap.isKey = false) (hmax : p.maxCap.isKey = false) (g : Grid)
    (prices : Prices) (fullT : Nat) :
    buildMulti (p.rescale k) factors (g.scaleDt k) prices fullT u' = buildMulti p factors g prices fullT u := by
  unfold buildMulti
  rw [contract_unit_change' hk hu p hmin hmax]
  have : scalarIllPosed (p.rescale k).minCap (p.rescale k).maxCap = scalarIllPosed p.minCap p.maxCap :=
    scalarIllPosed_rescale hk _ _
  rw [this]
  rfl

theorem transport_unit_change' {k : Rat} (hk : 0 < k) (p : TransportP) (g : Grid) (prices : Prices) (fullT : Nat) :
    buildTransport (p.rescale k) (g.scaleDt k) prices fullT = buildTransport p g prices fullT := by
  have hk0 : k ≠ 0 := by intro h; rw [h] at hk; exact absurd hk (by decide)
  have h1 : ∀ r : Rat, (g.scaleDt k).dt.map (r * (1 / k) * ·) = g.dt.map (r * ·) := by
    intro r
    simp only [scaleDt_dt, List.map_map]
    apply List.map_congr_left
    intro d _
    simp only [Function.comp]
    grind
  have h2 : (p.maxCap * (1 / k) < p.minCap * (1 / k)) ↔ (p.maxCap < p.minCap) := Rat.mul_lt_mul_right (one_div_pos hk)
  have h3 : transportCosts p.costsKey (g.scaleDt k) prices fullT = transportCosts p.costsKey g prices fullT := rfl
  unfold buildTransport
  simp only [TransportP.rescale, h1, h2, h3, scaleDt_df]
  rfl

theorem extTransport_unit_change' {k : Rat} (hk : 0 < k) {u u' : Nat} (hu : (u' : Rat) * k = (u : Rat))
    (p : TransportP) (g : Grid) (prices : Prices) (fullT : Nat) :
    buildExtTransport (p.rescale k) (g.scaleDt k) prices fullT u' = buildExtTransport p g prices fullT u := by
  unfold buildExtTransport
  rw [transport_unit_change' hk]
  simp only [defineRestr_rescale hu]
  rfl

end EAO
