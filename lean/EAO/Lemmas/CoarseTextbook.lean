import EAO.Lemmas.Textbook
import EAO.Lemmas.CoarseBuild
import EAO.Model.Readout
/-!
helper definitions and lemmas for `EAO/Properties/C02Coarse.lean`: the textbook contract / transport on the FINE steps
with the additional constraint "same rate in all fine steps of a coarse step" (`EqualRate`, `contractSemEq`,
`transportSemEq`), the composition principle (`compose_exact`: a coarse problem that is the fine problem plus `SameRate`,
and a fine problem that has exactly the textbook pairs, give a coarse problem with exactly the textbook pairs under
`EqualRate`), and the inversion of `simpleCore` with everything the textbook lemmas need.
-/
namespace EAO.CoarseTextbook
open EAO EAO.Textbook EAO.Perm EAO.CoarseBuild

/-- the additional textbook constraint: volume over step length is the same in any two window positions that belong to
    the same coarse step (`owner` = coarse step of every window position; written without division) -/
def EqualRate (owner : List Nat) (g : Grid) (q : Nat → Rat) : Prop :=
  ∀ j k, j < g.T → k < g.T → owner.getD j 0 = owner.getD k 0 → q j * dtOf g k = q k * dtOf g j

/-- the textbook contract with the additional constraint `EqualRate` -/
def contractSemEq (c : ContractS) (g : Grid) (owner : List Nat) : AssetSem :=
  ⟨fun fl v => ∃ q, c.Feasible g q ∧ EqualRate owner g q ∧ (∀ n t, fl n t = c.flows g q n t) ∧ v = c.cash g q⟩

/-- the textbook transport with the additional constraint `EqualRate` -/
def transportSemEq (r : TransportS) (g : Grid) (owner : List Nat) : AssetSem :=
  ⟨fun fl v => ∃ f, r.Feasible g f ∧ EqualRate owner g f ∧ (∀ n t, fl n t = r.flows g f n t) ∧ v = r.cash g f⟩

/-- with the additional constraint the textbook asset attains a subset of the pairs it attains without -/
theorem contractSemEq_sub (c : ContractS) (g : Grid) (owner : List Nat) (fl : Flows) (v : Rat)
    (h : (contractSemEq c g owner).Attain fl v) : (contractSem c g).Attain fl v := by
  obtain ⟨q, h1, _, h3, h4⟩ := h
  exact ⟨q, h1, h3, h4⟩

theorem transportSemEq_sub (r : TransportS) (g : Grid) (owner : List Nat) (fl : Flows) (v : Rat)
    (h : (transportSemEq r g owner).Attain fl v) : (transportSem r g).Attain fl v := by
  obtain ⟨q, h1, _, h3, h4⟩ := h
  exact ⟨q, h1, h3, h4⟩

/-- one block of variables: `SameRate` of the model is `EqualRate` of the textbook -/
theorem sameRate_iff_equalRate (owner : List Nat) (g : Grid) (n : Nat) (x : Vec) (hT : g.T = owner.length)
    (hn : n = owner.length) : SameRate owner g.dt n x ↔ EqualRate owner g x := by
  subst hn
  constructor
  · intro h j k hj hk ho
    rw [hT] at hj hk
    have := h j k hj hk (by rw [Nat.div_eq_of_lt hj, Nat.div_eq_of_lt hk])
      (by rw [Nat.mod_eq_of_lt hj, Nat.mod_eq_of_lt hk]; exact ho)
    rw [Nat.mod_eq_of_lt hj, Nat.mod_eq_of_lt hk] at this
    exact this
  · intro h j k hj hk _ ho
    rw [Nat.mod_eq_of_lt hj, Nat.mod_eq_of_lt hk] at ho ⊢
    exact h j k (by omega) (by omega) ho

/-- a problem all of whose mapping rows carry the asset's name: the flow is the dispatch read-out -/
theorem flowOf_eq_dispatchOut (P : AssetProblem) (a : String) (h : ∀ m, m ∈ P.mapping → m.asset = a) (n : String) (t : Nat)
    (y : Vec) : flowOf P n t y = dispatchOut P.mapping a n t y := by
  unfold flowOf dispatchOut
  congr 2
  apply List.filter_congr
  intro m hm
  rw [h m hm]
  simp

/-! ### the textbook semantics look at `q` on the window only -/

theorem atStep_congr (g : Grid) (t : Nat) (q q' : Nat → Rat) (h : ∀ k, k < g.T → q k = q' k) :
    atStep g t q = atStep g t q' := by
  unfold atStep
  apply sumN_congr
  intro k hk
  rw [h k hk]

theorem covered_lt (p : Period) (g : Grid) (k : Nat) (hk : k ∈ p.covered g) : k < g.T := by
  unfold Period.covered at hk
  exact List.mem_range.mp (List.mem_filter.mp hk).1

theorem volume_congr (p : Period) (g : Grid) (q q' : Nat → Rat) (h : ∀ k, k < g.T → q k = q' k) :
    p.volume g q = p.volume g q' := by
  unfold Period.volume
  congr 1
  apply List.map_congr_left
  intro k hk
  exact h k (covered_lt p g k hk)

theorem takesOK_congr (g : Grid) (u : Nat) (maxT minT : List Period) (q q' : Nat → Rat)
    (h : ∀ k, k < g.T → q k = q' k) (hq : takesOK g u maxT minT q) : takesOK g u maxT minT q' := by
  refine ⟨fun p hp hc => ?_, fun p hp hc => ?_⟩
  · rw [← volume_congr p g q q' h]; exact hq.1 p hp hc
  · rw [← volume_congr p g q q' h]; exact hq.2 p hp hc

theorem contract_congr (c : ContractS) (g : Grid) (q q' : Nat → Rat) (h : ∀ k, k < g.T → q k = q' k) :
    (c.Feasible g q → c.Feasible g q') ∧ (∀ n t, c.flows g q n t = c.flows g q' n t) ∧ c.cash g q = c.cash g q' := by
  refine ⟨fun hq => ⟨fun k hk => ?_, takesOK_congr g _ _ _ q q' h hq.2⟩, fun n t => ?_, ?_⟩
  · rw [← h k hk]; exact hq.1 k hk
  · unfold ContractS.flows; rw [atStep_congr g t q q' h]
  · unfold ContractS.cash
    apply sumN_congr
    intro k hk
    rw [h k hk]

theorem transport_congr (r : TransportS) (g : Grid) (q q' : Nat → Rat) (h : ∀ k, k < g.T → q k = q' k) :
    (r.Feasible g q → r.Feasible g q') ∧ (∀ n t, r.flows g q n t = r.flows g q' n t) ∧ r.cash g q = r.cash g q' := by
  refine ⟨fun hq => ⟨fun k hk => ?_, takesOK_congr g _ _ _ q q' h hq.2⟩, fun n t => ?_, ?_⟩
  · rw [← h k hk]; exact hq.1 k hk
  · unfold TransportS.flows; rw [atStep_congr g t q q' h]
  · unfold TransportS.cash
    apply sumN_congr
    intro k hk
    rw [h k hk]

/-! ### composition -/

/-- **composition, exact form.**  `Pf` has exactly the pairs of a textbook asset (`Feas`, `flows`, `cash`, which look at
    the window only), with `q = x`; `Pc` is `Pf` plus `SameRate` through `expand` (the conclusion of
    `EAO.C13B.coarse_equiv_contract` / `coarse_equiv_transport` for one block of variables).  Then `Pc` has exactly the
    pairs of the textbook asset with the additional constraint `EqualRate`. -/
theorem compose_exact {Pc Pf : AssetProblem} {owner : List Nat} {w : List Rat} {Tc : Nat} {g : Grid} (name : String)
    (Feas : (Nat → Rat) → Prop) (flows : (Nat → Rat) → Flows) (cash : (Nat → Rat) → Rat)
    (hT : g.T = owner.length) (hn : Pf.n = owner.length)
    (hac : ∀ m, m ∈ Pc.mapping → m.asset = name) (haf : ∀ m, m ∈ Pf.mapping → m.asset = name)
    (hfeas : ∀ y, Pf.FeasibleRelaxed y ↔ Feas y)
    (hflow : ∀ y n t, flowOf Pf n t y = flows y n t)
    (hcash : ∀ y, Feas y → - costAt Pf.c 0 y = cash y)
    (hcongr : ∀ q q' : Nat → Rat, (∀ k, k < g.T → q k = q' k) →
      (Feas q → Feas q') ∧ (∀ n t, flows q n t = flows q' n t) ∧ cash q = cash q')
    (hz : ∀ z : Vec, SameRate owner g.dt Pf.n (expand owner w Tc z) ∧
        (Pc.FeasibleRelaxed z ↔ Pf.FeasibleRelaxed (expand owner w Tc z)) ∧
        costAt Pf.c 0 (expand owner w Tc z) = costAt Pc.c 0 z ∧
        ∀ a n t, dispatchOut Pf.mapping a n t (expand owner w Tc z) = dispatchOut Pc.mapping a n t z)
    (hsurj : ∀ x : Vec, SameRate owner g.dt Pf.n x → ∃ z : Vec, ∀ j, j < Pf.n → x j = expand owner w Tc z j) :
    RefinesExactly Pc
      ⟨fun fl v => ∃ q, Feas q ∧ EqualRate owner g q ∧ (∀ n t, fl n t = flows q n t) ∧ v = cash q⟩ := by
  intro fl c
  constructor
  · rintro ⟨q, hq, he, hfl, rfl⟩
    have hsr : SameRate owner g.dt Pf.n q := (sameRate_iff_equalRate owner g Pf.n q hT hn).mpr he
    obtain ⟨z, hzq⟩ := hsurj q hsr
    obtain ⟨hc1, hc2, hc3⟩ := hcongr q (expand owner w Tc z) (fun k hk => hzq k (by omega))
    obtain ⟨_, hfz, hcz, hdz⟩ := hz z
    have hF : Feas (expand owner w Tc z) := hc1 hq
    refine ⟨z, hfz.mpr ((hfeas _).mpr hF), ?_, ?_⟩
    · intro n t
      rw [hfl, hc2, ← hflow, flowOf_eq_dispatchOut Pf name haf, hdz, ← flowOf_eq_dispatchOut Pc name hac]
    · rw [hc3, ← hcash _ hF, hcz]
  · rintro ⟨z, hzf, hfl, rfl⟩
    obtain ⟨hs, hfz, hcz, hdz⟩ := hz z
    have hF := (hfeas _).mp (hfz.mp hzf)
    refine ⟨expand owner w Tc z, hF, (sameRate_iff_equalRate owner g Pf.n _ hT hn).mp hs, ?_, ?_⟩
    · intro n t
      rw [hfl, ← hflow, flowOf_eq_dispatchOut Pf name haf, hdz, ← flowOf_eq_dispatchOut Pc name hac]
    · rw [← hcash _ hF, hcz]

/-! ### the rows of the builders' mappings carry the asset's name -/

theorem genBlock_asset (asset node varName : String) (f : Rat) (off : Nat) (g : Grid) (m : MapRow)
    (h : m ∈ genBlock asset node varName f off g) : m.asset = asset := by
  unfold genBlock at h
  obtain ⟨_, _, rfl⟩ := List.mem_map.mp h
  rfl

theorem extBlock_asset {ref : Grid} {cg : CoarseGrid} (asset node varName : String) (f : Rat) (off : Nat) (m : MapRow)
    (h : m ∈ cellMapFrom (extRow ref cg asset node varName f off) 0 cg.minor) : m.asset = asset := by
  obtain ⟨i, t, _, _, rfl⟩ := mem_cellMapFrom _ _ _ h
  rfl

theorem scOne_asset (p : ContractP) (g : Grid) (d : SCData) (m : MapRow) (h : m ∈ (scOne p g d).mapping) :
    m.asset = p.name := by
  have h' : m ∈ dispBlock p.name d.node "disp" 0 g := h
  rw [dispBlock_eq] at h'
  exact genBlock_asset _ _ _ _ _ _ m h'

theorem trProblem_asset (p : TransportP) (g : Grid) (n0 n1 : String) (cts : List Rat) (m : MapRow)
    (h : m ∈ (trProblem p g n0 n1 cts).mapping) : m.asset = p.name := by
  have h' : m ∈ transportBlock p.name n0 (-1) g ++ transportBlock p.name n1 p.efficiency g := h
  rw [transportBlock_eq, transportBlock_eq] at h'
  rcases List.mem_append.mp h' with h' | h'
  · exact genBlock_asset _ _ _ _ _ _ m h'
  · exact genBlock_asset _ _ _ _ _ _ m h'

theorem coarseContract_asset {ref : Grid} {cg : CoarseGrid} (hwf : cg.WellFormed ref.dt) {p : ContractP} {prices : Prices}
    {fullT : Nat} {Pc : AssetProblem} (hc : buildCoarseSimpleContract p cg ref.dt prices fullT = .ok Pc) (m : MapRow)
    (hm : m ∈ Pc.mapping) : m.asset = p.name := by
  obtain ⟨node, hM | hM⟩ := contract_mapping_form hwf hc
  · rw [hM] at hm; exact extBlock_asset _ _ _ _ _ m hm
  · rw [hM] at hm
    rcases List.mem_append.mp hm with hm | hm
    · exact extBlock_asset _ _ _ _ _ m hm
    · exact extBlock_asset _ _ _ _ _ m hm

theorem coarseTransport_asset {ref : Grid} {cg : CoarseGrid} (hwf : cg.WellFormed ref.dt) {p : TransportP} {prices : Prices}
    {fullT : Nat} {Pc : AssetProblem} (hc : buildCoarseTransport p cg ref.dt prices fullT = .ok Pc) (m : MapRow)
    (hm : m ∈ Pc.mapping) : m.asset = p.name := by
  obtain ⟨n0, n1, _, hM⟩ := transport_mapping_form hwf hc
  rw [hM] at hm
  rcases List.mem_append.mp hm with hm | hm
  · exact extBlock_asset _ _ _ _ _ m hm
  · exact extBlock_asset _ _ _ _ _ m hm

/-! ### inversion of `simpleCore` -/

/-- what a successful run of `simpleCore` (the tail of `SimpleContract.setup_optim_problem`) on grid `g` with the price
    vector `price` looked at: the analogue of `EAO.C02.ContractData` with the price vector given -/
structure CoreData (p : ContractP) (g : Grid) (prices : Prices) (price : List Rat) (d : SCData) (lo hi : List Rat) :
    Prop where
  price   : d.price = price
  vectors : ∃ minO maxO ecO, contractVectors p g prices = .ok (minO, maxO, ecO) ∧ allSome ecO = .ok d.ec ∧
              allSome minO = .ok d.minC ∧ allSome maxO = .ok d.maxC
  lo_rate : baseVector p.minCap g prices none = .ok (lo.map some)
  hi_rate : baseVector p.maxCap g prices none = .ok (hi.map some)
  node    : p.nodes.head? = some d.node

theorem simpleCore_data {p : ContractP} {g : Grid} {prices : Prices} {price : List Rat} {a : AssetProblem}
    (hg : g.Ok) (hpl : price.length = g.T) (h : simpleCore p g prices price = .ok a) :
    ∃ (d : SCData) (lo hi : List Rat), CoreData p g prices price d lo hi ∧
      (d.price.length = g.T ∧ d.ec.length = g.T ∧ d.minC.length = g.T ∧ d.maxC.length = g.T) ∧
      lo.length = g.T ∧ hi.length = g.T ∧
      d.minC = List.zipWith (· * ·) lo g.dt ∧ d.maxC = List.zipWith (· * ·) hi g.dt ∧
      a = (if oneVariable d.ec d.minC d.maxC then scOne p g d else scTwo p g d) := by
  obtain ⟨d, minO, maxO, ecO, hp, hv, he, hmi, hma, ⟨rest, hn⟩, rfl⟩ := simpleCore_ok h
  obtain ⟨h1, h2, _, h3⟩ := contractVectors_ok hv
  obtain ⟨lo, hlo, hlol, hlo'⟩ := capVector_eq hg h2 hmi
  obtain ⟨hi, hhi, hhil, hhi'⟩ := capVector_eq hg h1 hma
  refine ⟨d, lo, hi, ⟨hp, ⟨minO, maxO, ecO, hv, he, hmi, hma⟩, hlo, hhi, by simp [hn]⟩, ⟨?_, ?_, ?_, ?_⟩,
    hlol, hhil, hlo', hhi', rfl⟩
  · rw [hp, hpl]
  · rw [allSome_length he, makeVector_length hg h3]
  · rw [allSome_length hmi, makeVector_length hg h2]
  · rw [allSome_length hma, makeVector_length hg h1]

/-- the one-variable form of `simpleCore`'s problem has exactly the textbook pairs, `q = x`, pointwise -/
theorem scOne_textbook (p : ContractP) (g : Grid) (hg : g.Ok) (d : SCData) (lo hi : List Rat)
    (hl : d.price.length = g.T ∧ d.ec.length = g.T ∧ d.minC.length = g.T ∧ d.maxC.length = g.T)
    (hlol : lo.length = g.T) (hhil : hi.length = g.T)
    (hlo' : d.minC = List.zipWith (· * ·) lo g.dt) (hhi' : d.maxC = List.zipWith (· * ·) hi g.dt)
    (hone : oneVariable d.ec d.minC d.maxC = true) :
    (scOne p g d).n = g.T ∧
    (∀ y, (scOne p g d).FeasibleRelaxed y ↔ (contractS1 lo hi d.price d.ec d.node).Feasible g y) ∧
    (∀ y n t, flowOf (scOne p g d) n t y = (contractS1 lo hi d.price d.ec d.node).flows g y n t) ∧
    (∀ y, (contractS1 lo hi d.price d.ec d.node).Feasible g y →
      - costAt (scOne p g d).c 0 y = (contractS1 lo hi d.price d.ec d.node).cash g y) := by
  have hvol : ∀ q : Nat → Rat,
      (∀ k, k < g.T → lo.getD k 0 * dtOf g k ≤ q k ∧ q k ≤ hi.getD k 0 * dtOf g k) →
      ∀ k, k < g.T → d.minC.getD k 0 ≤ q k ∧ q k ≤ d.maxC.getD k 0 := by
    intro q hq k hk
    rw [hlo', hhi', Textbook.getD_zipWith_mul _ _ _ (by omega) (by rw [hg.2.1]; exact hk),
      Textbook.getD_zipWith_mul _ _ _ (by omega) (by rw [hg.2.1]; exact hk)]
    exact hq k hk
  refine ⟨?_, ?_, ?_, ?_⟩
  · simp [AssetProblem.n, scOne, oneVarPrice_length hl.1 hl.2.1, hg.2.2]
  · intro y
    constructor
    · rintro ⟨hbd, _⟩
      have hbd' : InBounds d.minC d.maxC y := hbd
      rw [hlo', hhi'] at hbd'
      refine ⟨(contract_bounds_iff lo hi g hg hlol hhil y).mp hbd', ?_, ?_⟩
      · intro q hq; simp [contractS1] at hq
      · intro q hq; simp [contractS1] at hq
    · rintro ⟨hb, _⟩
      refine ⟨?_, ?_⟩
      · show InBounds d.minC d.maxC y
        rw [hlo', hhi']
        exact (contract_bounds_iff lo hi g hg hlol hhil y).mpr hb
      · intro r hr; simp [scOne] at hr
  · intro y n t; exact contract_flow_one p g hg d lo hi n t y
  · intro y hy; exact contract_cash_one p g hg d lo hi y hl hone (hvol y hy.1)

/-- the transport problem has exactly the textbook pairs, `f = x`, pointwise -/
theorem trProblem_textbook (p : TransportP) (g : Grid) (hg : g.Ok) (n0 n1 : String) (cts : List Rat)
    (hcl : cts.length = g.T) (hfl : trFlags p g cts = true) :
    (trProblem p g n0 n1 cts).n = g.T ∧
    (∀ y, (trProblem p g n0 n1 cts).FeasibleRelaxed y ↔ (transportS p cts n0 n1 [] [] 1).Feasible g y) ∧
    (∀ y n t, flowOf (trProblem p g n0 n1 cts) n t y = (transportS p cts n0 n1 [] [] 1).flows g y n t) ∧
    (∀ y, (transportS p cts n0 n1 [] [] 1).Feasible g y →
      - costAt (trProblem p g n0 n1 cts).c 0 y = (transportS p cts n0 n1 [] [] 1).cash g y) := by
  have hguard : (g.dt.map (p.maxCap * ·)).all (fun v => decide (v ≤ 0)) = true ∨
       (g.dt.map (p.minCap * ·)).all (fun v => decide (0 ≤ v)) = true ∨
       (cts.map (· + p.costsConst)).all (fun v => v == 0) = true := by
    unfold trFlags at hfl
    simp only [Bool.or_eq_true] at hfl
    rcases hfl with (h | h) | h
    · exact Or.inl h
    · exact Or.inr (Or.inl h)
    · exact Or.inr (Or.inr h)
  refine ⟨?_, ?_, ?_, ?_⟩
  · simp only [AssetProblem.n, trProblem]
    split <;> simp [hcl, hg.2.2]
  · intro y
    constructor
    · rintro ⟨hbd, _⟩
      refine ⟨(transport_bounds_iff p g hg y).mp hbd, ?_, ?_⟩
      · intro q hq; simp [transportS] at hq
      · intro q hq; simp [transportS] at hq
    · rintro ⟨hb, _⟩
      refine ⟨(transport_bounds_iff p g hg y).mpr hb, ?_⟩
      intro r hr; simp [trProblem] at hr
  · intro y n t; exact transport_flow p g hg n0 n1 n cts t y [] [] 1
  · intro y hy; exact transport_cash p g hg n0 n1 cts hcl y [] [] 1 hguard hy.1

/-! ### the two-variable form -/

theorem scTwo_asset (p : ContractP) (g : Grid) (d : SCData) (m : MapRow) (h : m ∈ (scTwo p g d).mapping) :
    m.asset = p.name := by
  have h' : m ∈ dispBlock p.name d.node "disp_in" 0 g ++ dispBlock p.name d.node "disp_out" g.T g := h
  rw [dispBlock_eq, dispBlock_eq] at h'
  rcases List.mem_append.mp h' with h' | h'
  · exact genBlock_asset _ _ _ _ _ _ m h'
  · exact genBlock_asset _ _ _ _ _ _ m h'

/-- two blocks of variables: `SameRate` of the model is `EqualRate` of either block -/
theorem sameRate_two_iff (owner : List Nat) (g : Grid) (x : Vec) (hT : g.T = owner.length) :
    SameRate owner g.dt (2 * g.T) x ↔ EqualRate owner g x ∧ EqualRate owner g (fun k => x (g.T + k)) := by
  rw [hT]
  constructor
  · intro h
    constructor
    · intro j k hj hk ho
      rw [hT] at hj hk
      have := h j k (by omega) (by omega) (by rw [Nat.div_eq_of_lt hj, Nat.div_eq_of_lt hk])
        (by rw [Nat.mod_eq_of_lt hj, Nat.mod_eq_of_lt hk]; exact ho)
      rw [Nat.mod_eq_of_lt hj, Nat.mod_eq_of_lt hk] at this
      exact this
    · intro j k hj hk ho
      rw [hT] at hj hk
      have ej : owner.length + j = owner.length * 1 + j := by omega
      have ek : owner.length + k = owner.length * 1 + k := by omega
      have := h (owner.length + j) (owner.length + k) (by omega) (by omega)
        (by rw [ej, ek, block_div _ _ _ hj, block_div _ _ _ hk])
        (by rw [ej, ek, block_mod _ _ _ hj, block_mod _ _ _ hk]; exact ho)
      rw [ej, ek, block_mod _ _ _ hj, block_mod _ _ _ hk, ← ej, ← ek] at this
      exact this
  · rintro ⟨h1, h2⟩ j k hj hk hdiv ho
    have hpos : 0 < owner.length := by
      rcases Nat.eq_zero_or_pos owner.length with h0 | h0
      · rw [h0] at hj; omega
      · exact h0
    rcases Nat.lt_or_ge j owner.length with hjl | hjl
    · have hkl : k < owner.length := by
        rcases Nat.lt_or_ge k owner.length with h | h
        · exact h
        · have := Nat.div_pos h hpos
          rw [Nat.div_eq_of_lt hjl] at hdiv
          omega
      rw [Nat.mod_eq_of_lt hjl, Nat.mod_eq_of_lt hkl] at ho ⊢
      exact h1 j k (by omega) (by omega) ho
    · have hkl : owner.length ≤ k := by
        rcases Nat.lt_or_ge k owner.length with h | h
        · have := Nat.div_pos hjl hpos
          rw [Nat.div_eq_of_lt h] at hdiv
          omega
        · exact h
      have hj1 : j - owner.length < owner.length := by omega
      have hk1 : k - owner.length < owner.length := by omega
      have ej : j = owner.length * 1 + (j - owner.length) := by omega
      have ek : k = owner.length * 1 + (k - owner.length) := by omega
      have mj : j % owner.length = j - owner.length := by
        conv => lhs; rw [ej]
        exact block_mod _ _ _ hj1
      have mk : k % owner.length = k - owner.length := by
        conv => lhs; rw [ek]
        exact block_mod _ _ _ hk1
      rw [mj, mk] at ho ⊢
      have := h2 (j - owner.length) (k - owner.length) (by omega) (by omega) ho
      have e1 : owner.length + (j - owner.length) = j := by omega
      have e2 : owner.length + (k - owner.length) = k := by omega
      have this' : x (owner.length + (j - owner.length)) * dtOf g (k - owner.length)
          = x (owner.length + (k - owner.length)) * dtOf g (j - owner.length) := this
      rw [e1, e2] at this'
      exact this'

/-- **composition, two-variable form.**  `Pc` is the two-variable problem `scTwo p g d` on the fine grid `g` plus
    `SameRate` through `expand`; spread and discount factors non-negative, fine step lengths positive.  Then `Pc` and the
    textbook contract with the additional constraint `EqualRate` dominate each other (`q = x_in + x_out`). -/
theorem compose_two {Pc : AssetProblem} {owner : List Nat} {w : List Rat} {Tc : Nat} (p : ContractP) (g : Grid)
    (hg : g.Ok) (d : SCData) (lo hi : List Rat)
    (hl : d.price.length = g.T ∧ d.ec.length = g.T ∧ d.minC.length = g.T ∧ d.maxC.length = g.T)
    (hlo' : d.minC = List.zipWith (· * ·) lo g.dt) (hhi' : d.maxC = List.zipWith (· * ·) hi g.dt)
    (hec : ∀ k, k < g.T → 0 ≤ d.ec.getD k 0) (hdf : ∀ k, k < g.T → 0 ≤ dfOf g k)
    (hdt : ∀ k, k < g.T → 0 < dtOf g k)
    (hT : g.T = owner.length)
    (hac : ∀ m, m ∈ Pc.mapping → m.asset = p.name)
    (hz : ∀ z : Vec, SameRate owner g.dt (scTwo p g d).n (expand owner w Tc z) ∧
        (Pc.FeasibleRelaxed z ↔ (scTwo p g d).FeasibleRelaxed (expand owner w Tc z)) ∧
        costAt (scTwo p g d).c 0 (expand owner w Tc z) = costAt Pc.c 0 z ∧
        ∀ a n t, dispatchOut (scTwo p g d).mapping a n t (expand owner w Tc z) = dispatchOut Pc.mapping a n t z)
    (hsurj : ∀ x : Vec, SameRate owner g.dt (scTwo p g d).n x →
      ∃ z : Vec, ∀ j, j < (scTwo p g d).n → x j = expand owner w Tc z j) :
    Refines Pc (contractSemEq (contractS1 lo hi d.price d.ec d.node) g owner) := by
  have hn2 : (scTwo p g d).n = 2 * g.T := by
    simp [AssetProblem.n, scTwo, hl.1, hl.2.1, hg.2.2]; omega
  have hvol : ∀ k, k < g.T → d.minC.getD k 0 = lo.getD k 0 * dtOf g k ∧ d.maxC.getD k 0 = hi.getD k 0 * dtOf g k := by
    intro k hk
    have h1 : k < lo.length := by
      have := hl.2.2.1; rw [hlo'] at this; simp at this; omega
    have h2 : k < hi.length := by
      have := hl.2.2.2; rw [hhi'] at this; simp at this; omega
    rw [hlo', hhi', Textbook.getD_zipWith_mul _ _ _ h1 (by rw [hg.2.1]; exact hk),
      Textbook.getD_zipWith_mul _ _ _ h2 (by rw [hg.2.1]; exact hk)]
    exact ⟨rfl, rfl⟩
  have hflow2 : ∀ (y : Vec) (q : Nat → Rat), (∀ k, k < g.T → q k = y k + y (g.T + k)) →
      ∀ n t, flowOf (scTwo p g d) n t y = (contractS1 lo hi d.price d.ec d.node).flows g q n t := by
    intro y q hq n t
    have := contract_flow_gen (scTwo p g d) g 1 [(d.node, 1)] [] [] lo hi d.price d.ec n t y q
      (stepFlow_two p g hg d t y q hq)
    rw [contractP_simple _ d.node (sc_nodes p g d).2, contractSG_simple] at this
    exact this
  constructor
  · -- textbook → model
    rintro fl c ⟨q, ⟨hb, _⟩, heq, hfl, rfl⟩
    let y : Vec := fun j => if j < g.T then rmin 0 (q j) else rmax 0 (q (j - g.T))
    have hy1 : ∀ k, k < g.T → y k = rmin 0 (q k) := fun k hk => by simp [y, hk]
    have hy2 : ∀ k, y (g.T + k) = rmax 0 (q k) := by
      intro k
      show (if g.T + k < g.T then rmin 0 (q (g.T + k)) else rmax 0 (q (g.T + k - g.T))) = _
      rw [if_neg (by omega), Nat.add_sub_cancel_left]
    have hsr : SameRate owner g.dt (scTwo p g d).n y := by
      rw [hn2]
      refine (sameRate_two_iff owner g y hT).mpr ⟨?_, ?_⟩
      · intro j k hj hk ho
        rw [hy1 j hj, hy1 k hk, ← rmin_zero_mul _ _ (hdt k hk), ← rmin_zero_mul _ _ (hdt j hj), heq j k hj hk ho]
      · intro j k hj hk ho
        show y (g.T + j) * dtOf g k = y (g.T + k) * dtOf g j
        rw [hy2 j, hy2 k, ← rmax_zero_mul _ _ (hdt k hk), ← rmax_zero_mul _ _ (hdt j hj), heq j k hj hk ho]
    obtain ⟨z, hzy⟩ := hsurj y hsr
    obtain ⟨_, hfz, hcz, hdz⟩ := hz z
    have hx1 : ∀ k, k < g.T → expand owner w Tc z k = rmin 0 (q k) := by
      intro k hk; rw [← hzy k (by omega), hy1 k hk]
    have hx2 : ∀ k, k < g.T → expand owner w Tc z (g.T + k) = rmax 0 (q k) := by
      intro k hk; rw [← hzy (g.T + k) (by omega), hy2 k]
    have hq : ∀ k, k < g.T → q k = expand owner w Tc z k + expand owner w Tc z (g.T + k) := by
      intro k hk; rw [hx1 k hk, hx2 k hk, rmin_add_rmax]
    have hF : (scTwo p g d).FeasibleRelaxed (expand owner w Tc z) := by
      refine ⟨?_, ?_⟩
      · rw [contract_bounds_two p g d hl]
        intro k hk
        obtain ⟨b1, b2⟩ := hb k hk
        simp only [contractS1] at b1 b2
        rw [← (hvol k hk).1] at b1
        rw [← (hvol k hk).2] at b2
        rw [hx1 k hk, hx2 k hk]
        exact ⟨⟨rmin_mono _ _ b1, rmin_mono _ _ b2⟩, ⟨rmax_mono _ _ b1, rmax_mono _ _ b2⟩⟩
      · intro r hr; simp [scTwo] at hr
    refine ⟨_, Rat.le_refl, z, hfz.mpr hF, ?_, ?_⟩
    · intro n t
      rw [hfl n t, ← hflow2 _ q hq n t, flowOf_eq_dispatchOut _ p.name (scTwo_asset p g d), hdz,
        ← flowOf_eq_dispatchOut Pc p.name hac]
    · show (contractS1 lo hi d.price d.ec d.node).cash g q = - costAt Pc.c 0 z
      rw [← hcz, contract_cost_two p g hg d hl]
      simp only [ContractS.cash, contractS1]
      apply sumN_congr
      intro j hj
      rw [hx1 j hj, hx2 j hj, absR_split]
      have := rmin_add_rmax (q j)
      grind
  · -- model → textbook
    rintro fl c ⟨z, hzf, hfl, rfl⟩
    obtain ⟨hs, hfz, hcz, hdz⟩ := hz z
    obtain ⟨hbd, _⟩ := hfz.mp hzf
    let q : Nat → Rat := fun k => expand owner w Tc z k + expand owner w Tc z (g.T + k)
    have hq : ∀ k, k < g.T → q k = expand owner w Tc z k + expand owner w Tc z (g.T + k) := fun _ _ => rfl
    have hb := (contract_bounds_two p g d hl _).mp hbd
    rw [hn2] at hs
    obtain ⟨E1, E2⟩ := (sameRate_two_iff owner g _ hT).mp hs
    refine ⟨(contractS1 lo hi d.price d.ec d.node).cash g q, ?_, q, ⟨?_, ?_, ?_⟩, ?_, ?_, rfl⟩
    · show - costAt Pc.c 0 z ≤ _
      rw [← hcz, contract_cost_two p g hg d hl]
      simp only [ContractS.cash, contractS1]
      apply sumN_le
      intro j hj
      obtain ⟨⟨_, b2⟩, ⟨b3, _⟩⟩ := hb j hj
      have h1 : expand owner w Tc z j ≤ 0 := Rat.le_trans b2 (rmin_nonpos _)
      have h2 : 0 ≤ expand owner w Tc z (g.T + j) := Rat.le_trans (rmax_nonneg _) b3
      have hw : 0 ≤ dfOf g j * d.ec.getD j 0 := Rat.mul_nonneg (hdf j hj) (hec j hj)
      have := Rat.mul_le_mul_of_nonneg_left (absR_net _ _ h1 h2) hw
      show _ ≤ -(dfOf g j * (d.price.getD j 0 * (expand owner w Tc z j + expand owner w Tc z (g.T + j))
        + d.ec.getD j 0 * absR (expand owner w Tc z j + expand owner w Tc z (g.T + j))))
      grind
    · intro k hk
      obtain ⟨⟨b1, b2⟩, ⟨b3, b4⟩⟩ := hb k hk
      have e1 := rmin_add_rmax (d.minC.getD k 0)
      have e2 := rmin_add_rmax (d.maxC.getD k 0)
      simp only [contractS1]
      rw [← (hvol k hk).1, ← (hvol k hk).2]
      show d.minC.getD k 0 ≤ expand owner w Tc z k + expand owner w Tc z (g.T + k) ∧
        expand owner w Tc z k + expand owner w Tc z (g.T + k) ≤ d.maxC.getD k 0
      grind
    · intro r hr; simp [contractS1] at hr
    · intro r hr; simp [contractS1] at hr
    · intro j k hj hk ho
      have a1 := E1 j k hj hk ho
      have a2 : expand owner w Tc z (g.T + j) * dtOf g k = expand owner w Tc z (g.T + k) * dtOf g j :=
        E2 j k hj hk ho
      show (expand owner w Tc z j + expand owner w Tc z (g.T + j)) * dtOf g k
        = (expand owner w Tc z k + expand owner w Tc z (g.T + k)) * dtOf g j
      grind
    · intro n t
      rw [hfl n t, ← hflow2 _ q hq n t, flowOf_eq_dispatchOut _ p.name (scTwo_asset p g d), hdz,
        ← flowOf_eq_dispatchOut Pc p.name hac]

/-- fine step lengths of a well-formed coarse grid are positive -/
theorem minorGrid_dt_pos {ref : Grid} {cg : CoarseGrid} (hwf : cg.WellFormed ref.dt) (k : Nat)
    (hk : k < (minorGrid ref cg).T) : 0 < dtOf (minorGrid ref cg) k := by
  rw [minorGrid_T] at hk
  unfold dtOf
  rw [minorGrid_dt_getD k hk]
  have h1 := owner_lt hwf k hk
  rw [← hwf.minorLen] at h1
  exact hwf.dtPos _ (getD_mem_of_lt cg.minor _ h1 []) _ (flat_mem_owner k hk)

end EAO.CoarseTextbook
