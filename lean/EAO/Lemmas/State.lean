import EAO.Model.State
/-!
# EAO.Lemmas.State — helper lemmas for C10 (slot logic of `EAO.Model.State`: object trees, wrappers nested in wrappers)
Core Lean only.  The statements about `setupTree` / `setupList` are proved by mutual structural recursion over the object tree.
-/
namespace EAO.State

theorem readSlots_writeSlots (G : Grids) (g : Nat) (st sp : Option Int) (f : Option Nat) (w : Rat) :
    readSlots (writeSlots G g st sp f w) g = usedOf g st sp f w := by
  simp [readSlots, writeSlots, usedOf]

theorem buildPlain_arg (rd : Bool) (G : Grids) (ptr : Option Nat) (st sp : Option Int) (f : Option Nat) (w : Rat) (g : Nat) :
    buildPlain rd G ptr st sp f w (some g) = (writeSlots G g st sp f w, some g, .ok (usedOf g st sp f w)) := by
  simp [buildPlain, readSlots_writeSlots]

theorem buildPlain_rederive_some (G : Grids) (st sp : Option Int) (f : Option Nat) (w : Rat) (g : Nat) :
    buildPlain true G (some g) st sp f w none = (writeSlots G g st sp f w, some g, .ok (usedOf g st sp f w)) := by
  simp [buildPlain, readSlots_writeSlots]

theorem buildPlain_none_none (rd : Bool) (G : Grids) (st sp : Option Int) (f : Option Nat) (w : Rat) :
    buildPlain rd G none st sp f w none = (G, none, .error .noGrid) := by
  cases rd <;> simp [buildPlain]

/-! ### addresses -/

theorem append_ne_self (ad p : List Nat) (h : p ≠ []) : ad ++ p ≠ ad := by
  intro h'
  exact h (List.append_right_eq_self.mp h')

theorem isKid_kid (ad : Addr) (n i : Nat) : isKid ad n (ad ++ [i]) = decide (i < n) := by
  simp [isKid]

theorem isKid_self (ad : Addr) (n : Nat) : isKid ad n ad = false := by
  by_cases h : ad.dropLast = ad
  · have hl := congrArg List.length h
    simp only [List.length_dropLast] at hl
    have h0 : ad = [] := by
      cases ad with
      | nil => rfl
      | cons a t => simp at hl
    subst h0
    simp [isKid]
  · simp [isKid, h]

theorem isKid_deep (ad : Addr) (n i : Nat) (p : List Nat) (h : p ≠ []) : isKid ad n (ad ++ i :: p) = false := by
  have h1 : (ad ++ i :: p).dropLast = ad ++ (i :: p).dropLast := List.dropLast_append_of_ne_nil (by simp)
  have h2 : (i :: p).dropLast ≠ [] := by
    cases p with
    | nil => exact absurd rfl h
    | cons a t => simp
  have h3 : ad ++ (i :: p).dropLast ≠ ad := append_ne_self _ _ h2
  simp [isKid, h1, h3]

theorem set_same (O : Objs) (ad : Addr) (o : ObjSt) : (O.set ad o) ad = o := by simp [Objs.set]
theorem set_other (O : Objs) (ad d : Addr) (o : ObjSt) (h : d ≠ ad) : (O.set ad o) d = O d := by simp [Objs.set, h]

theorem win_set_grid (O : Objs) (ad d : Addr) (o : ObjSt) (h : win o = win (O ad)) : win ((O.set ad o) d) = win (O d) := by
  by_cases hd : d = ad
  · subst hd; simp [Objs.set, h]
  · simp [Objs.set, hd]

theorem clipKids_nonkid (ad : Addr) (n : Nat) (s e : Option Int) (g : Nat) (O : Objs) (d : Addr) (h : isKid ad n d = false) :
    clipKids ad n s e g O d = O d := by
  simp [clipKids, h]

/-- the restore step, in terms of the objects before the inner assets were clipped -/
def restoreKidsO (ad : Addr) (n : Nat) (orig O : Objs) : Objs :=
  fun a => if isKid ad n a then { O a with start := (orig a).start, stop := (orig a).stop } else O a

theorem kidWins_length (ad : Addr) (n : Nat) (O : Objs) : (kidWins ad n O).length = n := by simp [kidWins]

theorem isKid_true {ad : Addr} {n : Nat} {a : Addr} (h : isKid ad n a = true) :
    ∃ i, i < n ∧ a = ad ++ [i] ∧ a.getLast? = some i := by
  simp only [isKid, Bool.and_eq_true, beq_iff_eq] at h
  obtain ⟨h1, h2⟩ := h
  cases hl : a.getLast? with
  | none => rw [hl] at h2; simp at h2
  | some i =>
    rw [hl] at h2
    simp only [decide_eq_true_eq] at h2
    refine ⟨i, h2, ?_, rfl⟩
    have hne : a ≠ [] := by
      intro h0
      rw [h0] at hl
      simp at hl
    have h3 := List.dropLast_concat_getLast hne
    have h4 : a.getLast hne = i := by
      have := List.getLast?_eq_some_getLast hne
      rw [hl] at this
      exact (Option.some.inj this).symm
    rw [h1, h4] at h3
    exact h3.symm

theorem restoreKids_kidWins (ad : Addr) (n : Nat) (orig O : Objs) :
    restoreKids ad (kidWins ad n orig) O = restoreKidsO ad n orig O := by
  funext a
  simp only [restoreKids, restoreKidsO, kidWins_length]
  cases hk : isKid ad n a with
  | false => simp
  | true =>
    obtain ⟨i, hi, ha, hl⟩ := isKid_true hk
    simp [hl, kidWins, hi, ← ha, win]

theorem win_restoreKids (ad : Addr) (n : Nat) (orig O : Objs) (d : Addr) (h : isKid ad n d = false → win (O d) = win (orig d)) :
    win (restoreKidsO ad n orig O d) = win (orig d) := by
  unfold restoreKidsO
  cases hk : isKid ad n d with
  | true => simp [win]
  | false => simpa using h hk

theorem scaledClipWith_eq (O : Objs) (ad : Addr) : scaledClipWith O ad (O ad) (O (ad ++ [0])) = scaledClip O ad := rfl

theorem writeAll_eq (ad : Addr) (s e : Option Int) (g : Nat) (O : Objs) (cs : List Asset) (i : Nat) (G : Grids) :
    writeAll g (kidSlots ad s e O cs i) G = writeKids ad s e g O cs i G := rfl

theorem win_scaledClip_other (O : Objs) (ad d : Addr) (h : d ≠ ad ++ [0]) : scaledClip O ad d = O d := by
  simp [scaledClip, scaledClipWith, Objs.set, h]

theorem scaledFinish_win (p : Params) (ad : Addr) (O : Objs) (res : Grids × Objs × Result)
    (h : ∀ d, win (res.2.1 d) = win (scaledClip O ad d)) (d : Addr) :
    win ((scaledFinish p ad O res).2.1 d) = win (O d) := by
  rcases res with ⟨G2, O2, r⟩
  have h3 : ∀ d, win ((O2.set (ad ++ [0]) { O2 (ad ++ [0]) with start := (O (ad ++ [0])).start, stop := (O (ad ++ [0])).stop }) d) = win (O d) := by
    intro d
    by_cases hd : d = ad ++ [0]
    · subst hd; simp [Objs.set, win]
    · have := h d
      rw [win_scaledClip_other O ad d hd] at this
      simpa [Objs.set, hd] using this
  cases r with
  | error e => exact h3 d
  | ok us =>
    simp only [scaledFinish]
    split
    · exact h3 d
    · by_cases hd : d = ad
      · subst hd; simp [Objs.set, win]
      · show win (Objs.set _ ad _ d) = win (O d)
        rw [set_other _ _ _ _ hd]; exact h3 d

theorem structuredFinish_win (linked : Bool) (ad : Addr) (n g : Nat) (s e : Option Int) (Oa : Objs) (res : Grids × Objs × Result)
    (h : ∀ d, win (res.2.1 d) = win (clipKids ad n s e g Oa d)) (d : Addr) :
    win ((structuredFinish linked ad g (kidWins ad n Oa) res).2.1 d) = win (Oa d) := by
  rcases res with ⟨G2, O2, r⟩
  have h3 : win (restoreKids ad (kidWins ad n Oa) O2 d) = win (Oa d) := by
    rw [restoreKids_kidWins]
    apply win_restoreKids
    intro hk
    rw [h d, clipKids_nonkid _ _ _ _ _ _ _ hk]
  cases r with
  | error e => exact h3
  | ok us => exact h3

theorem consRes_objs (us : List Used) (res : Grids × Objs × Result) : (consRes us res).2.1 = res.2.1 := by
  rcases res with ⟨G, O, r⟩
  cases r <;> rfl

theorem consRes_grids (us : List Used) (res : Grids × Objs × Result) : (consRes us res).1 = res.1 := by
  rcases res with ⟨G, O, r⟩
  cases r <;> rfl

mutual
/-- no set-up changes the window of any object for good: whatever a wrapper clips it restores -/
theorem setupTree_win (v : Version) : ∀ (x : Asset) (ad : Addr) (arg : Option Nat) (G : Grids) (O : Objs) (d : Addr),
    win ((setupTree v x ad arg G O).2.1 d) = win (O d)
  | .plain p, ad, arg, G, O, d => by
    rw [setupTree]
    rcases buildPlain v.rederive G (O ad).grid (O ad).start (O ad).stop p.freq p.wacc arg with ⟨G', ptr, r⟩
    exact win_set_grid O ad d _ rfl
  | .scaled p b, ad, arg, G, O, d => by
    rw [setupTree, scaledClipWith_eq]
    exact scaledFinish_win p ad O _ (fun d => setupTree_win v b _ _ _ _ d) d
  | .structured p linked inner, ad, arg, G, O, d => by
    rw [setupTree]
    simp only [writeAll_eq]
    split
    · rfl
    · rename_i g G0 _
      rw [structuredFinish_win linked ad inner.length g (O ad).start (O ad).stop _ _ (fun d => setupList_win v inner _ _ _ _ _ d) d]
      exact win_set_grid O ad d _ rfl
theorem setupList_win (v : Version) : ∀ (xs : List Asset) (ad : Addr) (i g : Nat) (G : Grids) (O : Objs) (d : Addr),
    win ((setupList v xs ad i g G O).2.1 d) = win (O d)
  | [], ad, i, g, G, O, d => by simp [setupList]
  | x :: xs, ad, i, g, G, O, d => by
    rw [setupList]
    have ih1 := setupTree_win v x (ad ++ [i]) (some g) G O
    split
    · rename_i G1 O1 e heq
      rw [heq] at ih1
      exact ih1 d
    · rename_i G1 O1 us heq
      rw [heq] at ih1
      rw [consRes_objs, setupList_win v xs ad (i + 1) g G1 O1 d]
      exact ih1 d
end

theorem scaledClip_grid (O : Objs) (ad d : Addr) : (scaledClip O ad d).grid = (O d).grid := by
  by_cases hd : d = ad ++ [0]
  · subst hd; simp [scaledClip, scaledClipWith, Objs.set]
  · simp [scaledClip, scaledClipWith, Objs.set, hd]

theorem scaledClip_root (O : Objs) (ad : Addr) : scaledClip O ad ad = O ad := by
  have : ad ≠ ad ++ [0] := fun h => append_ne_self ad [0] (by simp) h.symm
  simp [scaledClip, scaledClipWith, Objs.set, this]

/-- a scaled asset whose base asset was set up on grid `g` -/
theorem scaledFinish_ok (p : Params) (ad : Addr) (O : Objs) (G2 : Grids) (O2 : Objs) (us : List Used) (g : Nat)
    (hroot : (O2 (ad ++ [0])).grid = some g) :
    scaledFinish p ad O (G2, O2, .ok us) =
      (writeSlots G2 g (O ad).start (O ad).stop p.freq p.wacc,
       (O2.set (ad ++ [0]) { O2 (ad ++ [0]) with start := (O (ad ++ [0])).start, stop := (O (ad ++ [0])).stop }).set ad { O ad with grid := some g },
       .ok (us ++ [usedOf g (O ad).start (O ad).stop p.freq p.wacc])) := by
  simp [scaledFinish, hroot, readSlots_writeSlots]

theorem scaledFinish_error (p : Params) (ad : Addr) (O : Objs) (G2 : Grids) (O2 : Objs) (e : Err) :
    scaledFinish p ad O (G2, O2, .error e) =
      (G2, O2.set (ad ++ [0]) { O2 (ad ++ [0]) with start := (O (ad ++ [0])).start, stop := (O (ad ++ [0])).stop }, .error e) := by
  simp [scaledFinish]

theorem structuredGrid_arg (p : Params) (g : Nat) (o : ObjSt) (G : Grids) :
    structuredGrid p (some g) o G = some (g, writeSlots G g o.start o.stop p.freq p.wacc) := rfl

theorem clipKids_grid (ad : Addr) (n : Nat) (s e : Option Int) (g : Nat) (O : Objs) (d : Addr) :
    (clipKids ad n s e g O d).grid = (O d).grid ∨ (clipKids ad n s e g O d).grid = some g := by
  unfold clipKids
  cases isKid ad n d <;> simp

theorem restoreKids_grid (ad : Addr) (n : Nat) (orig O : Objs) (d : Addr) : (restoreKidsO ad n orig O d).grid = (O d).grid := by
  unfold restoreKidsO
  cases isKid ad n d <;> simp

theorem structuredFinish_ok (linked : Bool) (ad : Addr) (n g : Nat) (Oa : Objs) (G2 : Grids) (O2 : Objs) (us : List Used) :
    structuredFinish linked ad g (kidWins ad n Oa) (G2, O2, .ok us) =
      (G2, restoreKidsO ad n Oa O2, .ok (if (linked && n != 0) = true then us ++ [readSlots G2 g] else us)) := by
  simp only [structuredFinish, restoreKids_kidWins, kidWins_length]

/-- where the grid attributes point after a set-up with grid argument -/
def GridsAfter (paths : List (List Nat)) (ad : Addr) (g : Nat) (O : Objs) (res : Grids × Objs × Result) : Prop :=
  (∃ us, res.2.2 = .ok us) ∧ (∀ p ∈ paths, (res.2.1 (ad ++ p)).grid = some g)
    ∧ (∀ d, (res.2.1 d).grid = (O d).grid ∨ (res.2.1 d).grid = some g)

mutual
/-- a set-up WITH grid argument succeeds (as far as the model's failure "no grid" goes), leaves every object of the tree on
    that grid and every other pointer alone, in every code version -/
theorem setupTree_grids (v : Version) : ∀ (x : Asset) (ad : Addr) (g : Nat) (G : Grids) (O : Objs),
    GridsAfter x.paths ad g O (setupTree v x ad (some g) G O)
  | .plain p, ad, g, G, O => by
    rw [setupTree, buildPlain_arg]
    refine ⟨⟨_, rfl⟩, ?_, ?_⟩
    · intro q hq
      simp only [Asset.paths, List.mem_singleton] at hq
      subst hq
      simp [Objs.set]
    · intro d
      by_cases hd : d = ad
      · subst hd; simp [Objs.set]
      · simp [Objs.set, hd]
  | .scaled p b, ad, g, G, O => by
    rw [setupTree, scaledClipWith_eq]
    have ih := setupTree_grids v b (ad ++ [0]) g G (scaledClip O ad)
    simp only [scaledArg]
    rcases hr : setupTree v b (ad ++ [0]) (some g) G (scaledClip O ad) with ⟨G2, O2, r⟩
    rw [hr] at ih
    obtain ⟨⟨us, hus⟩, hp, hm⟩ := ih
    simp only at hus hp hm
    subst hus
    have hroot : (O2 (ad ++ [0])).grid = some g := by
      have hmem : ([] : List Nat) ∈ b.paths := by cases b <;> simp [Asset.paths]
      simpa using hp [] hmem
    rw [scaledFinish_ok p ad O G2 O2 us g hroot]
    have hother : ∀ d, d ≠ ad →
        (((O2.set (ad ++ [0]) { O2 (ad ++ [0]) with start := (O (ad ++ [0])).start, stop := (O (ad ++ [0])).stop }).set ad { O ad with grid := some g }) d).grid
          = (O2 d).grid := by
      intro d hd
      by_cases hd2 : d = ad ++ [0]
      · subst hd2; simp [Objs.set]
      · simp [Objs.set, hd, hd2]
    refine ⟨⟨_, rfl⟩, ?_, ?_⟩
    · intro q hq
      simp only [Asset.paths, List.mem_cons, List.mem_map] at hq
      rcases hq with hq | ⟨q', hq', rfl⟩
      · subst hq; simp [Objs.set]
      · show (Objs.set _ ad _ (ad ++ 0 :: q')).grid = some g
        rw [hother _ (append_ne_self ad _ (by simp))]
        have := hp q' hq'
        simpa using this
    · intro d
      show (Objs.set _ ad _ d).grid = (O d).grid ∨ (Objs.set _ ad _ d).grid = some g
      by_cases hd : d = ad
      · subst hd; simp [Objs.set]
      · rw [hother d hd]
        have := hm d
        rwa [scaledClip_grid] at this
  | .structured p linked inner, ad, g, G, O => by
    rw [setupTree, structuredGrid_arg]
    simp only [writeAll_eq]
    have ih := setupList_grids v inner ad 0 g
      (writeKids ad (O ad).start (O ad).stop g (O.set ad { O ad with grid := some g }) inner 0 (writeSlots G g (O ad).start (O ad).stop p.freq p.wacc))
      (clipKids ad inner.length (O ad).start (O ad).stop g (O.set ad { O ad with grid := some g }))
    rcases hr : setupList v inner ad 0 g
      (writeKids ad (O ad).start (O ad).stop g (O.set ad { O ad with grid := some g }) inner 0 (writeSlots G g (O ad).start (O ad).stop p.freq p.wacc))
      (clipKids ad inner.length (O ad).start (O ad).stop g (O.set ad { O ad with grid := some g })) with ⟨G2, O2, r⟩
    rw [hr] at ih
    obtain ⟨⟨us, hus⟩, hp, hm⟩ := ih
    simp only at hus hp hm
    subst hus
    rw [structuredFinish_ok]
    have hO1 : ∀ d, (clipKids ad inner.length (O ad).start (O ad).stop g (O.set ad { O ad with grid := some g }) d).grid = (O d).grid
        ∨ (clipKids ad inner.length (O ad).start (O ad).stop g (O.set ad { O ad with grid := some g }) d).grid = some g := by
      intro d
      rcases clipKids_grid ad inner.length (O ad).start (O ad).stop g (O.set ad { O ad with grid := some g }) d with h | h
      · by_cases hd : d = ad
        · subst hd; right; rw [h]; simp [Objs.set]
        · left; rw [h]; simp [Objs.set, hd]
      · exact Or.inr h
    refine ⟨⟨_, rfl⟩, ?_, ?_⟩
    · intro q hq
      simp only [Asset.paths, List.mem_cons] at hq
      simp only [restoreKids_grid]
      rcases hq with hq | hq
      · subst hq
        rcases hm (ad ++ []) with h | h
        · rw [h]
          simp [clipKids, isKid_self, Objs.set]
        · exact h
      · exact hp q hq
    · intro d
      simp only [restoreKids_grid]
      rcases hm d with h | h
      · rw [h]; exact hO1 d
      · exact Or.inr h
theorem setupList_grids (v : Version) : ∀ (xs : List Asset) (ad : Addr) (i g : Nat) (G : Grids) (O : Objs),
    GridsAfter (pathsL xs i) ad g O (setupList v xs ad i g G O)
  | [], ad, i, g, G, O => by
    rw [setupList]
    exact ⟨⟨_, rfl⟩, by simp [pathsL], fun d => Or.inl rfl⟩
  | x :: xs, ad, i, g, G, O => by
    rw [setupList]
    have ih1 := setupTree_grids v x (ad ++ [i]) g G O
    rcases hr : setupTree v x (ad ++ [i]) (some g) G O with ⟨G1, O1, r⟩
    rw [hr] at ih1
    obtain ⟨⟨us, hus⟩, hp1, hm1⟩ := ih1
    simp only at hus hp1 hm1
    subst hus
    simp only
    have ih2 := setupList_grids v xs ad (i + 1) g G1 O1
    rcases hr2 : setupList v xs ad (i + 1) g G1 O1 with ⟨G2, O2, r2⟩
    rw [hr2] at ih2
    obtain ⟨⟨vs, hvs⟩, hp2, hm2⟩ := ih2
    simp only at hvs hp2 hm2
    subst hvs
    refine ⟨⟨_, rfl⟩, ?_, ?_⟩
    · intro q hq
      simp only [pathsL, List.mem_append, List.mem_map] at hq
      show (O2 (ad ++ q)).grid = some g
      rcases hq with ⟨q', hq', rfl⟩ | hq
      · rcases hm2 (ad ++ i :: q') with h | h
        · rw [h]
          have := hp1 q' hq'
          simpa using this
        · exact h
      · exact hp2 q hq
    · intro d
      show (O2 d).grid = (O d).grid ∨ (O2 d).grid = some g
      rcases hm2 d with h | h
      · rw [h]; exact hm1 d
      · exact Or.inr h
end

/-- the window the object at path `p` below `x` was constructed with -/
def winAt (x : Asset) (p : List Nat) : Win :=
  match x.sub? p with
  | some y => pwin y.params
  | none => (none, none)

/-- every object strictly below the object `x` at address `ad` has the window it was constructed with -/
def KidsInv (x : Asset) (ad : Addr) (O : Objs) : Prop := ∀ p, p ≠ [] → win (O (ad ++ p)) = winAt x p

theorem winAt_scaled (p : Params) (b : Asset) (q : List Nat) : winAt (.scaled p b) (0 :: q) = winAt b q := by
  simp [winAt, Asset.sub?, Asset.subs]

theorem winAt_structured (p : Params) (l : Bool) (inner : List Asset) (i : Nat) (c : Asset) (q : List Nat) (h : inner[i]? = some c) :
    winAt (.structured p l inner) (i :: q) = winAt c q := by
  simp [winAt, Asset.sub?, Asset.subs, h]

theorem winAt_nil (x : Asset) : winAt x [] = pwin x.params := by
  simp [winAt, Asset.sub?]

theorem KidsInv_congr (x : Asset) (ad : Addr) (O O' : Objs) (h : ∀ d, win (O' d) = win (O d)) (hk : KidsInv x ad O) : KidsInv x ad O' :=
  fun p hp => (h _).trans (hk p hp)

theorem win_eq {o : ObjSt} {a b : Option Int} (h : win o = (a, b)) : o.start = a ∧ o.stop = b := by
  simp only [win, Prod.mk.injEq] at h
  exact h

theorem win_eq_pwin {o : ObjSt} {q : Params} (h : win o = pwin q) : o.start = q.start ∧ o.stop = q.stop := win_eq h

theorem KidsInv_scaled (p : Params) (b : Asset) (ad : Addr) (O : Objs) (hk : KidsInv (.scaled p b) ad O) :
    KidsInv b (ad ++ [0]) (scaledClip O ad)
      ∧ (scaledClip O ad (ad ++ [0])).start = clipStart b.params.start (O ad).start
      ∧ (scaledClip O ad (ad ++ [0])).stop = clipStop b.params.stop (O ad).stop := by
  refine ⟨?_, ?_, ?_⟩
  · intro q hq
    rw [win_scaledClip_other O ad _ (append_ne_self _ q hq)]
    have := hk (0 :: q) (by simp)
    rw [winAt_scaled] at this
    simpa using this
  · have h0 := hk [0] (by simp)
    rw [winAt_scaled, winAt_nil] at h0
    simp [scaledClip, scaledClipWith, Objs.set, (win_eq_pwin h0).1]
  · have h0 := hk [0] (by simp)
    rw [winAt_scaled, winAt_nil] at h0
    simp [scaledClip, scaledClipWith, Objs.set, (win_eq_pwin h0).2]

theorem lastWriteL_indep (g : Nat) (xs : List Asset) (s e : Option Int) (d d' : Used) (h : xs ≠ []) :
    lastWriteL g xs s e d = lastWriteL g xs s e d' := by
  cases xs with
  | nil => exact absurd rfl h
  | cons c cs => simp [lastWriteL]

theorem lastWriteL_writeKids (g : Nat) (xs : List Asset) (s e : Option Int) (ad : Addr) (Oa : Objs) (i : Nat) (G0 : Grids) :
    lastWriteL g xs s e (readSlots (writeKids ad s e g Oa xs i G0) g) = lastWriteL g xs s e (readSlots G0 g) := by
  cases xs with
  | nil => simp [writeKids, kidSlots, writeAll]
  | cons c cs => exact lastWriteL_indep g _ s e _ _ (by simp)

/-- hypotheses of the inner loop: the `j`-th asset of the list sits at `ad ++ [i + j]` with its window clipped by `s e`, everything below it untouched -/
def ListInv (xs : List Asset) (ad : Addr) (i : Nat) (s e : Option Int) (O : Objs) : Prop :=
  ∀ j c, xs[j]? = some c →
    win (O (ad ++ [i + j])) = (clipStart c.params.start s, clipStop c.params.stop e) ∧ KidsInv c (ad ++ [i + j]) O

theorem ListInv_tail (x : Asset) (xs : List Asset) (ad : Addr) (i : Nat) (s e : Option Int) (O O' : Objs)
    (h : ∀ d, win (O' d) = win (O d)) (hl : ListInv (x :: xs) ad i s e O) : ListInv xs ad (i + 1) s e O' := by
  intro j c hc
  have := hl (j + 1) c (by simpa using hc)
  have e1 : i + (j + 1) = i + 1 + j := by omega
  rw [e1] at this
  exact ⟨(h _).trans this.1, KidsInv_congr c _ O O' h this.2⟩

theorem ListInv_structured (p : Params) (l : Bool) (inner : List Asset) (ad : Addr) (g : Nat) (O : Objs)
    (hk : KidsInv (.structured p l inner) ad O) :
    ListInv inner ad 0 (O ad).start (O ad).stop
      (clipKids ad inner.length (O ad).start (O ad).stop g (O.set ad { O ad with grid := some g })) := by
  intro j c hc
  have hj : j < inner.length := by
    rcases Nat.lt_or_ge j inner.length with h | h
    · exact h
    · rw [List.getElem?_eq_none h] at hc; cases hc
  have hne : ad ++ [j] ≠ ad := append_ne_self ad [j] (by simp)
  refine ⟨?_, ?_⟩
  · have h0 := hk [j] (by simp)
    rw [winAt_structured p l inner j c [] hc, winAt_nil] at h0
    have hw := win_eq_pwin h0
    simp [clipKids, isKid_kid, hj, Objs.set, hne, win, hw.1, hw.2]
  · intro q hq
    have hne2 : ad ++ j :: q ≠ ad := append_ne_self ad _ (by simp)
    have := hk (j :: q) (by simp)
    rw [winAt_structured p l inner j c q hc] at this
    simp only [Nat.zero_add, List.append_assoc, List.singleton_append]
    rw [clipKids_nonkid _ _ _ _ _ _ _ (isKid_deep ad _ j q hq), set_other _ _ _ _ hne2]
    exact this

mutual
/-- a set-up WITH grid argument: every builder of the tree reads its own data (clipped by the wrappers above it), whatever was
    set up before and whatever the grid objects held; and what the slots of the grid hold afterwards -/
theorem setupTree_arg (v : Version) : ∀ (x : Asset) (ad : Addr) (g : Nat) (G : Grids) (O : Objs), KidsInv x ad O →
    (setupTree v x ad (some g) G O).2.2 = .ok (pureAt g x (O ad).start (O ad).stop)
      ∧ readSlots (setupTree v x ad (some g) G O).1 g = lastWrite g x (O ad).start (O ad).stop
  | .plain p, ad, g, G, O, _ => by
    rw [setupTree, buildPlain_arg]
    simp [pureAt, lastWrite, readSlots_writeSlots, Except.map]
  | .scaled p b, ad, g, G, O, hk => by
    obtain ⟨hkb, hs, he⟩ := KidsInv_scaled p b ad O hk
    have ih := setupTree_arg v b (ad ++ [0]) g G (scaledClip O ad) hkb
    have hg := setupTree_grids v b (ad ++ [0]) g G (scaledClip O ad)
    rw [setupTree, scaledClipWith_eq]
    simp only [scaledArg]
    rcases hr : setupTree v b (ad ++ [0]) (some g) G (scaledClip O ad) with ⟨G2, O2, r⟩
    rw [hr] at ih hg
    simp only at ih
    have hroot : (O2 (ad ++ [0])).grid = some g := by
      have hmem : ([] : List Nat) ∈ b.paths := by cases b <;> simp [Asset.paths]
      simpa using hg.2.1 [] hmem
    rw [ih.1, scaledFinish_ok p ad O G2 O2 _ g hroot, hs, he]
    simp [pureAt, lastWrite, readSlots_writeSlots]
  | .structured p linked inner, ad, g, G, O, hk => by
    have hl := ListInv_structured p linked inner ad g O hk
    have ih := setupList_arg v inner ad 0 g
      (writeKids ad (O ad).start (O ad).stop g (O.set ad { O ad with grid := some g }) inner 0 (writeSlots G g (O ad).start (O ad).stop p.freq p.wacc))
      _ (O ad).start (O ad).stop hl
    rw [setupTree, structuredGrid_arg]
    simp only [writeAll_eq]
    rcases hr : setupList v inner ad 0 g
      (writeKids ad (O ad).start (O ad).stop g (O.set ad { O ad with grid := some g }) inner 0 (writeSlots G g (O ad).start (O ad).stop p.freq p.wacc))
      (clipKids ad inner.length (O ad).start (O ad).stop g (O.set ad { O ad with grid := some g })) with ⟨G2, O2, r⟩
    rw [hr] at ih
    simp only at ih
    rw [ih.1, structuredFinish_ok]
    have hlw : readSlots G2 g = lastWriteL g inner (O ad).start (O ad).stop (usedOf g (O ad).start (O ad).stop p.freq p.wacc) := by
      rw [ih.2, lastWriteL_writeKids, readSlots_writeSlots]
    refine ⟨?_, ?_⟩
    · simp only [pureAt, hlw]
    · simp only [lastWrite, hlw]
theorem setupList_arg (v : Version) : ∀ (xs : List Asset) (ad : Addr) (i g : Nat) (G : Grids) (O : Objs) (s e : Option Int),
    ListInv xs ad i s e O →
    (setupList v xs ad i g G O).2.2 = .ok (pureList g xs s e)
      ∧ readSlots (setupList v xs ad i g G O).1 g = lastWriteL g xs s e (readSlots G g)
  | [], ad, i, g, G, O, s, e, _ => by
    rw [setupList]
    simp [pureList, lastWriteL]
  | x :: xs, ad, i, g, G, O, s, e, hl => by
    have h0 := hl 0 x (by simp)
    simp only [Nat.add_zero] at h0
    have hw := win_eq h0.1
    have ih1 := setupTree_arg v x (ad ++ [i]) g G O h0.2
    have hwin := setupTree_win v x (ad ++ [i]) (some g) G O
    rw [setupList]
    rcases hr : setupTree v x (ad ++ [i]) (some g) G O with ⟨G1, O1, r⟩
    rw [hr] at ih1 hwin
    simp only at ih1 hwin
    rw [hw.1, hw.2] at ih1
    obtain ⟨ih1a, ih1b⟩ := ih1
    subst ih1a
    simp only
    have ih2 := setupList_arg v xs ad (i + 1) g G1 O1 s e (ListInv_tail x xs ad i s e O O1 hwin hl)
    rcases hr2 : setupList v xs ad (i + 1) g G1 O1 with ⟨G2, O2, r2⟩
    rw [hr2] at ih2
    simp only at ih2
    obtain ⟨ih2a, ih2b⟩ := ih2
    subst ih2a
    simp only [consRes, pureList, lastWriteL]
    rw [ih2b, ih1b]
    exact ⟨trivial, rfl⟩
end

theorem nil_mem_paths (x : Asset) : ([] : List Nat) ∈ x.paths := by cases x <;> simp [Asset.paths]

theorem scaledArg_current_none (ptr : Option Nat) : scaledArg current none ptr = ptr := rfl

theorem scaledClip_grids (O : Objs) (ad : Addr) : (fun d => (scaledClip O ad d).grid) = fun d => (O d).grid :=
  funext fun d => scaledClip_grid O ad d

/-- a set-up WITHOUT grid argument (current code): every builder of the tree reads its own data on the grid the object itself was
    put on (a scaled asset that never saw a grid: the grid of its base asset); "no grid" if there is none -/
theorem setupTree_noarg : ∀ (x : Asset) (ad : Addr) (G : Grids) (O : Objs), KidsInv x ad O →
    (setupTree current x ad none G O).2.2 =
        (match ownGrid (fun d => (O d).grid) x ad with
         | some g => .ok (pureAt g x (O ad).start (O ad).stop)
         | none => .error .noGrid)
      ∧ ∀ g, ownGrid (fun d => (O d).grid) x ad = some g → ((setupTree current x ad none G O).2.1 ad).grid = some g
  | .plain p, ad, G, O, _ => by
    rw [setupTree]
    cases hg : (O ad).grid with
    | none => simp [current, buildPlain_none_none, ownGrid, hg, Except.map, Objs.set]
    | some g => simp [current, buildPlain_rederive_some, ownGrid, hg, Except.map, pureAt, Objs.set]
  | .scaled p b, ad, G, O, hk => by
    obtain ⟨hkb, hs, he⟩ := KidsInv_scaled p b ad O hk
    rw [setupTree, scaledClipWith_eq]
    cases hg : (O ad).grid with
    | some g =>
      have ih := setupTree_arg current b (ad ++ [0]) g G (scaledClip O ad) hkb
      have hgr := setupTree_grids current b (ad ++ [0]) g G (scaledClip O ad)
      rw [scaledArg_current_none]
      rcases hr : setupTree current b (ad ++ [0]) (some g) G (scaledClip O ad) with ⟨G2, O2, r⟩
      rw [hr] at ih hgr
      simp only at ih
      have hroot : (O2 (ad ++ [0])).grid = some g := by simpa using hgr.2.1 [] (nil_mem_paths b)
      rw [ih.1, scaledFinish_ok p ad O G2 O2 _ g hroot, hs, he]
      simp [ownGrid, hg, pureAt, Objs.set]
    | none =>
      have ih := setupTree_noarg b (ad ++ [0]) G (scaledClip O ad) hkb
      rw [scaledClip_grids] at ih
      rw [scaledArg_current_none]
      rcases hr : setupTree current b (ad ++ [0]) none G (scaledClip O ad) with ⟨G2, O2, r⟩
      rw [hr] at ih
      simp only at ih
      obtain ⟨ih1, ih2⟩ := ih
      cases hb : ownGrid (fun d => (O d).grid) b (ad ++ [0]) with
      | none =>
        rw [hb] at ih1
        simp only at ih1
        subst ih1
        rw [scaledFinish_error]
        simp [ownGrid, hg, hb]
      | some g' =>
        rw [hb] at ih1
        simp only at ih1
        subst ih1
        have hroot : (O2 (ad ++ [0])).grid = some g' := ih2 g' hb
        rw [scaledFinish_ok p ad O G2 O2 _ g' hroot, hs, he]
        simp [ownGrid, hg, hb, pureAt, Objs.set]
  | .structured p linked inner, ad, G, O, hk => by
    rw [setupTree]
    simp only [writeAll_eq]
    cases hg : (O ad).grid with
    | none => simp [structuredGrid, hg, ownGrid]
    | some g =>
      have hl := ListInv_structured p linked inner ad g O hk
      have ih := setupList_arg current inner ad 0 g
        (writeKids ad (O ad).start (O ad).stop g (O.set ad { O ad with grid := some g }) inner 0 G)
        _ (O ad).start (O ad).stop hl
      have hgr := setupList_grids current inner ad 0 g
        (writeKids ad (O ad).start (O ad).stop g (O.set ad { O ad with grid := some g }) inner 0 G)
        (clipKids ad inner.length (O ad).start (O ad).stop g (O.set ad { O ad with grid := some g }))
      simp only [structuredGrid, hg]
      rcases hr : setupList current inner ad 0 g
        (writeKids ad (O ad).start (O ad).stop g (O.set ad { O ad with grid := some g }) inner 0 G)
        (clipKids ad inner.length (O ad).start (O ad).stop g (O.set ad { O ad with grid := some g })) with ⟨G2, O2, r⟩
      rw [hr] at ih hgr
      simp only at ih
      rw [ih.1, structuredFinish_ok]
      refine ⟨?_, ?_⟩
      · simp only [ownGrid, hg, pureAt]
        cases hc : (linked && inner.length != 0) with
        | false => simp
        | true =>
          have hne : inner ≠ [] := by
            intro h0
            simp [h0] at hc
          simp only [if_true]
          rw [ih.2, lastWriteL_writeKids, lastWriteL_indep g inner _ _ _ (usedOf g (O ad).start (O ad).stop p.freq p.wacc) hne]
      · intro g' hg'
        simp only [ownGrid, hg, Option.some.injEq] at hg'
        subst hg'
        simp only [restoreKids_grid]
        rcases hgr.2.2 ad with h | h
        · rw [h]; simp [clipKids, isKid_self, Objs.set]
        · exact h

/-- the windows of all objects are the ones they were constructed with -/
def Inv (env : Env) (s : PyState) : Prop := ∀ d, win (s.objs d) = iwin env d

theorem inv_init (env : Env) : Inv env (init env) := by
  intro d
  simp [init, win]

theorem sub?_append : ∀ (r : List Nat) (y : Asset) (q : List Nat), y.sub? (r ++ q) = (y.sub? r).bind (fun z => z.sub? q)
  | [], y, q => by simp [Asset.sub?]
  | i :: r, y, q => by
    simp only [List.cons_append, Asset.sub?]
    cases y.subs[i]? with
    | none => rfl
    | some c => exact sub?_append r c q

theorem at_ne_nil {env : Env} {ad : Addr} {x : Asset} (h : env.at ad = some x) : ad ≠ [] := by
  intro h0
  subst h0
  simp [Env.at] at h

theorem at_top (env : Env) (a : Nat) : env.at [a] = some (env.asset a) := by
  simp [Env.at, Asset.sub?]

theorem kidsInv_of_inv {env : Env} {s : PyState} (hI : Inv env s) {ad : Addr} {x : Asset} (h : env.at ad = some x) :
    KidsInv x ad s.objs ∧ (s.objs ad).start = x.params.start ∧ (s.objs ad).stop = x.params.stop := by
  cases ad with
  | nil => exact absurd rfl (at_ne_nil h)
  | cons a r =>
    simp only [Env.at] at h
    refine ⟨?_, ?_⟩
    · intro q _
      rw [hI]
      simp only [iwin, List.cons_append, Env.at, sub?_append, h, winAt]
      rfl
    · have := hI (a :: r)
      simp only [iwin, Env.at, h] at this
      exact win_eq_pwin this

/-! ### every operation keeps the windows -/

theorem setupAt_win (v : Version) (env : Env) (s : PyState) (ad : Addr) (arg : Option Nat) (d : Addr) :
    win ((setupAt v env s ad arg).1.objs d) = win (s.objs d) := by
  unfold setupAt
  cases h : env.at ad with
  | none => rfl
  | some x =>
    simp only
    have := setupTree_win v x ad arg s.grids s.objs d
    rcases hr : setupTree v x ad arg s.grids s.objs with ⟨G, O, r⟩
    rw [hr] at this
    exact this

theorem setupAll_win (v : Version) (env : Env) (g : Nat) : ∀ (l : List Nat) (s : PyState) (d : Addr),
    win ((setupAll v env g s l).1.objs d) = win (s.objs d)
  | [], s, d => rfl
  | a :: rest, s, d => by
    rw [setupAll]
    have h1 := setupAt_win v env s [a] (some g) d
    rcases hr : setupAt v env s [a] (some g) with ⟨s1, r⟩
    rw [hr] at h1
    cases r with
    | error e => exact h1
    | ok us =>
      simp only
      have h2 := setupAll_win v env g rest s1 d
      rcases hr2 : setupAll v env g s1 rest with ⟨s2, r2⟩
      rw [hr2] at h2
      cases r2 with
      | error e => exact h2.trans h1
      | ok vs => exact h2.trans h1

theorem setupPortfolioSt_win (v : Version) (env : Env) (s : PyState) (arg : Option Nat) (d : Addr) :
    win ((setupPortfolioSt v env s arg).1.objs d) = win (s.objs d) := by
  unfold setupPortfolioSt
  cases arg with
  | some g => exact setupAll_win v env g _ { s with pf := some g } d
  | none =>
    cases hp : s.pf with
    | none => simp [hp]
    | some g => simp only [hp]; exact setupAll_win v env g _ s d

theorem setupIntervals_win (v : Version) (env : Env) : ∀ (tmp : List Nat) (s : PyState) (d : Addr),
    win ((setupIntervals v env s tmp).1.objs d) = win (s.objs d)
  | [], s, d => rfl
  | t :: ts, s, d => by
    rw [setupIntervals]
    have h1 := setupAll_win v env t (List.range env.length) { s with pf := some t } d
    rcases hr : setupAll v env t { s with pf := some t } (List.range env.length) with ⟨s1, r⟩
    rw [hr] at h1
    cases r with
    | error e => exact h1
    | ok us =>
      simp only
      have h2 := setupIntervals_win v env ts s1 d
      rcases hr2 : setupIntervals v env s1 ts with ⟨s2, r2⟩
      rw [hr2] at h2
      cases r2 with
      | error e => exact h2.trans h1
      | ok vs => exact h2.trans h1

theorem setTimegridSt_win (env : Env) (s : PyState) (ad : Addr) (g : Nat) (d : Addr) :
    win ((setTimegridSt env s ad g).objs d) = win (s.objs d) := by
  unfold setTimegridSt
  cases env.at ad with
  | none => rfl
  | some x => exact win_set_grid s.objs ad d _ rfl

theorem restoreTop_win (env : Env) (g : Nat) : ∀ (l : List Nat) (s : PyState) (d : Addr),
    win ((restoreTop env g s l).objs d) = win (s.objs d)
  | [], _, _ => rfl
  | a :: rest, s, d => (restoreTop_win env g rest _ d).trans (setTimegridSt_win env s [a] g d)

theorem setupSt_win (v : Version) (env : Env) (s : PyState) (c : Call) (d : Addr) :
    win ((setupSt v env s c).1.objs d) = win (s.objs d) := by
  cases c with
  | setTimegrid ad g => exact setTimegridSt_win env s ad g d
  | setup ad arg => exact setupAt_win v env s ad arg d
  | setupPortfolio arg => exact setupPortfolioSt_win v env s arg d
  | setupSplit g tmp =>
    simp only [setupSt]
    have h := setupIntervals_win v env tmp s d
    rcases hr : setupIntervals v env s tmp with ⟨s1, r⟩
    rw [hr] at h
    exact (restoreTop_win env g _ { s1 with pf := some g } d).trans h
  | dcf a => rfl
  | fillLevel a =>
    simp only [setupSt]
    cases (s.objs [a]).grid <;> rfl
  | makeSlp g t =>
    exact setupPortfolioSt_win v env { s with grids := writeRestricted (writeRestricted s.grids g (some t, none, none)) g (none, some t, none) } (some g) d

theorem setupSt_inv (v : Version) (env : Env) (s : PyState) (c : Call) (hI : Inv env s) : Inv env (setupSt v env s c).1 :=
  fun d => (setupSt_win v env s c d).trans (hI d)

theorem run_inv (v : Version) (env : Env) : ∀ (calls : List Call) (s : PyState), Inv env s → Inv env (run v env s calls)
  | [], _, hI => hI
  | c :: cs, s, hI => run_inv v env cs _ (setupSt_inv v env s c hI)

/-! ### what the builders read -/

/-- a set-up WITH grid argument reads the object's own data, whatever was set up before (every code version) -/
theorem setupAt_arg (v : Version) (env : Env) (s : PyState) (ad : Addr) (g : Nat) (hI : Inv env s) :
    (setupAt v env s ad (some g)).2 = match env.at ad with
      | some x => .ok (pureAsset x g)
      | none => .ok [] := by
  unfold setupAt
  cases h : env.at ad with
  | none => rfl
  | some x =>
    obtain ⟨hk, hs, he⟩ := kidsInv_of_inv hI h
    have := (setupTree_arg v x ad g s.grids s.objs hk).1
    simp only
    rw [this, hs, he]
    rfl

/-- a set-up WITHOUT grid argument (current code) reads the object's own data on the grid the object itself was put on -/
theorem setupAt_noarg (env : Env) (s : PyState) (ad : Addr) (hI : Inv env s) :
    (setupAt current env s ad none).2 = match env.at ad with
      | some x => (match ownGrid (ownPtrs s).obj x ad with
        | some g => .ok (pureAsset x g)
        | none => .error .noGrid)
      | none => .ok [] := by
  unfold setupAt
  cases h : env.at ad with
  | none => rfl
  | some x =>
    obtain ⟨hk, hs, he⟩ := kidsInv_of_inv hI h
    have := (setupTree_noarg x ad s.grids s.objs hk).1
    simp only
    rw [this, hs, he]
    rfl

/-- the portfolio loop: every asset reads its own data; `Inv` is kept -/
theorem setupAll_eq (v : Version) (env : Env) (g : Nat) :
    ∀ (l : List Nat) (s : PyState), Inv env s →
      (setupAll v env g s l).2 = .ok (l.flatMap fun a => pureAsset (env.asset a) g) ∧ Inv env (setupAll v env g s l).1
  | [], s, hI => ⟨rfl, hI⟩
  | a :: rest, s, hI => by
    have h1 := setupAt_arg v env s [a] g hI
    rw [at_top] at h1
    have h2 : Inv env (setupAt v env s [a] (some g)).1 := fun d => (setupAt_win v env s [a] (some g) d).trans (hI d)
    rcases hsa : setupAt v env s [a] (some g) with ⟨s1, r1⟩
    rw [hsa] at h1 h2
    simp only at h1 h2
    subst h1
    have ih := setupAll_eq v env g rest s1 h2
    rcases hsr : setupAll v env g s1 rest with ⟨s2, r2⟩
    rw [hsr] at ih
    simp only at ih
    obtain ⟨ih1, ih2⟩ := ih
    subst ih1
    simp [setupAll, hsa, hsr, ih2]

theorem setupPortfolioSt_eq (v : Version) (env : Env) (s : PyState) (arg : Option Nat) (hI : Inv env s) :
    (setupPortfolioSt v env s arg).2 = setupPure env (ownPtrs s) (.setupPortfolio arg)
      ∧ Inv env (setupPortfolioSt v env s arg).1 := by
  cases arg with
  | some g =>
    have := setupAll_eq v env g (List.range env.length) { s with pf := some g } hI
    simpa [setupPortfolioSt, setupPure] using this
  | none =>
    cases hp : s.pf with
    | none => simp [setupPortfolioSt, setupPure, ownPtrs, hp]; exact hI
    | some g =>
      have := setupAll_eq v env g (List.range env.length) s hI
      simpa [setupPortfolioSt, setupPure, ownPtrs, hp] using this

/-- the interval loop of a split set-up -/
theorem setupIntervals_eq (v : Version) (env : Env) :
    ∀ (tmp : List Nat) (s : PyState), Inv env s →
      (setupIntervals v env s tmp).2 = .ok (tmp.flatMap fun t => (List.range env.length).flatMap fun a => pureAsset (env.asset a) t)
        ∧ Inv env (setupIntervals v env s tmp).1
  | [], s, hI => ⟨rfl, hI⟩
  | t :: ts, s, hI => by
    have h0 := setupAll_eq v env t (List.range env.length) { s with pf := some t } hI
    rcases hsa : setupAll v env t { s with pf := some t } (List.range env.length) with ⟨s1, r1⟩
    rw [hsa] at h0
    simp only at h0
    obtain ⟨h1, h2⟩ := h0
    subst h1
    have ih := setupIntervals_eq v env ts s1 h2
    rcases hsr : setupIntervals v env s1 ts with ⟨s2, r2⟩
    rw [hsr] at ih
    simp only at ih
    obtain ⟨ih1, ih2⟩ := ih
    subst ih1
    simp [setupIntervals, hsa, hsr, ih2]

/-! ### where the grid attributes point after a portfolio set-up -/

/-- asset `a` and everything it wraps (at every depth) sit on grid object `g` -/
def On (env : Env) (s : PyState) (g a : Nat) : Prop :=
  ∀ p ∈ (env.asset a).paths, (s.objs (a :: p)).grid = some g

theorem setupAt_top_on (v : Version) (env : Env) (s : PyState) (a g : Nat) :
    On env (setupAt v env s [a] (some g)).1 g a
      ∧ (∀ d, ((setupAt v env s [a] (some g)).1.objs d).grid = (s.objs d).grid ∨ ((setupAt v env s [a] (some g)).1.objs d).grid = some g)
      ∧ (setupAt v env s [a] (some g)).1.pf = s.pf := by
  unfold setupAt
  rw [at_top]
  simp only
  have := setupTree_grids v (env.asset a) [a] g s.grids s.objs
  rcases hr : setupTree v (env.asset a) [a] (some g) s.grids s.objs with ⟨G, O, r⟩
  rw [hr] at this
  exact ⟨fun p hp => by simpa using this.2.1 p hp, this.2.2, trivial⟩

theorem setupAll_on (v : Version) (env : Env) (g : Nat) :
    ∀ (l : List Nat) (s : PyState),
      (setupAll v env g s l).1.pf = s.pf ∧ ∀ a, (a ∈ l ∨ On env s g a) → On env (setupAll v env g s l).1 g a
  | [], s => by
    refine ⟨rfl, fun a h => ?_⟩
    rcases h with h | h
    · simp at h
    · exact h
  | x :: rest, s => by
    have h3 := setupAt_top_on v env s x g
    have hok := setupTree_grids v (env.asset x) [x] g s.grids s.objs
    rw [setupAll]
    rcases hsa : setupAt v env s [x] (some g) with ⟨s1, r1⟩
    rw [hsa] at h3
    simp only at h3
    have hr1 : ∃ us, r1 = .ok us := by
      unfold setupAt at hsa
      rw [at_top] at hsa
      simp only at hsa
      rcases hr : setupTree v (env.asset x) [x] (some g) s.grids s.objs with ⟨G, O, r⟩
      rw [hr] at hsa hok
      obtain ⟨us, hus⟩ := hok.1
      simp only at hus
      cases hsa
      exact ⟨us, hus⟩
    obtain ⟨us, rfl⟩ := hr1
    simp only
    have ih := setupAll_on v env g rest s1
    rcases hsr : setupAll v env g s1 rest with ⟨s2, r2⟩
    rw [hsr] at ih
    simp only at ih
    have key : ∀ a, (a ∈ x :: rest ∨ On env s g a) → On env s2 g a := by
      intro a ha
      apply ih.2
      by_cases hax : a = x
      · subst hax; exact Or.inr h3.1
      · rcases ha with ha | ha
        · simp only [List.mem_cons] at ha
          rcases ha with ha | ha
          · exact absurd ha hax
          · exact Or.inl ha
        · right
          intro p hp
          rcases h3.2.1 (a :: p) with h | h
          · rw [h]; exact ha p hp
          · exact h
    cases r2 with
    | ok vs => exact ⟨ih.1.trans h3.2.2, key⟩
    | error e => exact ⟨ih.1.trans h3.2.2, key⟩

/-! ### interval data -/

theorem map_some_getD : ∀ (es : List (Option Int)), es.all Option.isSome = true → (es.map fun e => e.getD 0).map some = es
  | [], _ => rfl
  | none :: _, h => by simp at h
  | some x :: es, h => by
    simp only [List.all_cons, Option.isSome_some, Bool.true_and] at h
    simp [map_some_getD es h]

/-! ### reading `pureAt` / `lastWriteL` -/

theorem mem_pureList (g : Nat) : ∀ (inner : List Asset) (i : Nat) (c : Asset) (s e : Option Int) (u : Used), inner[i]? = some c →
    u ∈ pureAt g c (clipStart c.params.start s) (clipStop c.params.stop e) → u ∈ pureList g inner s e
  | [], i, c, s, e, u, h, _ => by simp at h
  | x :: xs, 0, c, s, e, u, h, hu => by
    simp only [List.getElem?_cons_zero, Option.some.injEq] at h
    subst h
    simp only [pureList, List.mem_append]
    exact Or.inl hu
  | x :: xs, i + 1, c, s, e, u, h, hu => by
    simp only [List.getElem?_cons_succ] at h
    simp only [pureList, List.mem_append]
    exact Or.inr (mem_pureList g xs i c s e u h hu)

theorem lastWriteL_append (g : Nat) (c : Asset) (s e : Option Int) : ∀ (cs : List Asset) (d : Used),
    lastWriteL g (cs ++ [c]) s e d = lastWrite g c (clipStart c.params.start s) (clipStop c.params.stop e)
  | [], d => by simp [lastWriteL]
  | x :: xs, d => by
    simp only [List.cons_append, lastWriteL]
    exact lastWriteL_append g c s e xs _

end EAO.State
