import EAO.Model.State
/-!
# EAO.Lemmas.State — helper lemmas for C10 (slot logic of `EAO.Model.State`)
Core Lean only.
-/
namespace EAO.State

theorem readSlots_writeSlots (G : Grids) (g : Nat) (st sp : Option Int) (f : Option Nat) (w : Rat) :
    readSlots (writeSlots G g st sp f w) g = usedOf g st sp f w := by
  simp [readSlots, writeSlots, usedOf]

theorem buildPlain_arg (rd : Bool) (G : Grids) (ptr : Option Nat) (st sp : Option Int) (f : Option Nat) (w : Rat) (g : Nat) :
    buildPlain rd G ptr st sp f w (some g) = (writeSlots G g st sp f w, some g, .ok (usedOf g st sp f w)) := by
  simp [buildPlain, readSlots_writeSlots]

theorem buildPlain_rederive_some (G : Grids) (st sp : Option Int) (f : Option Nat) (w : Rat) (g : Nat) :
    buildPlain true G (some g) st sp f w none = (writeSlots G g st sp f w, some g, .ok (usedOf g st sp f w)) := by
  simp [buildPlain, readSlots_writeSlots]

theorem buildPlain_none_none (rd : Bool) (G : Grids) (st sp : Option Int) (f : Option Nat) (w : Rat) :
    buildPlain rd G none st sp f w none = (G, none, .error .noGrid) := by
  cases rd <;> simp [buildPlain]

theorem buildInner_eq (rd : Bool) (g : Nat) (G : Grids) (l : List (SubSt × Params)) :
    ∃ G', buildInner rd g G l =
      (G', l.map (fun sq => { sq.1 with grid := some g }), .ok (l.map fun sq => usedOf g sq.1.start sq.1.stop sq.2.freq sq.2.wacc)) := by
  induction l generalizing G with
  | nil => exact ⟨G, rfl⟩
  | cons x rest ih =>
    obtain ⟨G', h⟩ := ih (writeSlots G g x.1.start x.1.stop x.2.freq x.2.wacc)
    refine ⟨G', ?_⟩
    simp [buildInner, buildPlain_arg, h]

def win (st : SubSt) : Option Int × Option Int := (st.start, st.stop)
def pwin (q : Params) : Option Int × Option Int := (q.start, q.stop)

/-- the windows of wrapped assets are the ones they were constructed with -/
def Inv (env : Env) (s : PyState) : Prop := ∀ a, (s.assets a).sub.map win = (env.asset a).subs.map pwin

theorem zip_map_of_win {β} (H : Option Int → Option Int → Params → β) :
    ∀ (subs : List SubSt) (inner : List Params), subs.map win = inner.map pwin →
      (subs.zip inner).map (fun sq => H sq.1.start sq.1.stop sq.2) = inner.map (fun q => H q.start q.stop q)
  | [], [], _ => rfl
  | [], _ :: _, h => by simp at h
  | _ :: _, [], h => by simp at h
  | x :: xs, q :: qs, h => by
    simp only [List.map_cons, List.cons.injEq] at h
    have h1 := h.1
    simp only [win, pwin, Prod.mk.injEq] at h1
    simp [List.zip_cons_cons, List.map_cons, zip_map_of_win H xs qs h.2, h1.1, h1.2]

theorem restore_win {γ} (F : γ → SubSt) :
    ∀ (l : List γ) (subs : List SubSt), l.length = subs.length →
      (((l.map F).zip subs).map fun so => ({ so.1 with start := so.2.start, stop := so.2.stop } : SubSt)).map win = subs.map win
  | [], [], _ => rfl
  | [], _ :: _, h => by simp at h
  | _ :: _, [], h => by simp at h
  | x :: xs, s :: ss, h => by
    simp only [List.length_cons, Nat.add_right_cancel_iff] at h
    simp [List.zip_cons_cons, List.map_cons, restore_win F xs ss h, win]

theorem length_of_win {subs : List SubSt} {inner : List Params} (h : subs.map win = inner.map pwin) :
    subs.length = inner.length := by
  have := congrArg List.length h
  simpa using this


theorem structuredBody_spec (rd : Bool) (G0 : Grids) (g : Nat) (p : Params) (inner : List Params) (sub : List SubSt)
    (h : sub.map win = inner.map pwin) :
    (structuredBody rd G0 g p inner sub).2.2 = .ok (pureAsset (.structured p inner) g)
      ∧ (structuredBody rd G0 g p inner sub).2.1.map win = sub.map win := by
  obtain ⟨G', hG⟩ := buildInner_eq rd g
    (((sub.zip inner).map (fun sq =>
        (({ grid := some g, start := clipStart sq.1.start p.start, stop := clipStop sq.1.stop p.stop } : SubSt), sq.2)))
      |>.foldl (fun G sq => writeSlots G g sq.1.start sq.1.stop sq.2.freq sq.2.wacc) G0)
    ((sub.zip inner).map (fun sq =>
        (({ grid := some g, start := clipStart sq.1.start p.start, stop := clipStop sq.1.stop p.stop } : SubSt), sq.2)))
  refine ⟨?_, ?_⟩
  · simp only [structuredBody, hG, pureAsset, List.map_map]
    exact congrArg Except.ok
      (zip_map_of_win (fun st sp q => usedOf g (clipStart st p.start) (clipStop sp p.stop) q.freq q.wacc) _ _ h)
  · simp only [structuredBody, hG]
    exact restore_win _ _ _ (by simp [length_of_win h])

theorem structuredBody_eq (rd : Bool) (G0 : Grids) (g : Nat) (p : Params) (inner : List Params) (sub : List SubSt)
    (h : sub.map win = inner.map pwin) :
    ∃ G' sub', structuredBody rd G0 g p inner sub = (G', sub', .ok (pureAsset (.structured p inner) g))
      ∧ sub'.map win = sub.map win := by
  have hs := structuredBody_spec rd G0 g p inner sub h
  rcases hb : structuredBody rd G0 g p inner sub with ⟨G2, sub', r⟩
  rw [hb] at hs
  exact ⟨G2, sub', by rw [← hs.1], hs.2⟩

/-- the state after `setupAsset` differs from `s` in the grid objects and in asset `a` only -/
theorem inv_upd {env : Env} {s : PyState} (hI : Inv env s) (a : Nat) (G : Grids) (st' : AssetSt)
    (h : st'.sub.map win = (env.asset a).subs.map pwin) :
    Inv env { s with grids := G, assets := fun i => if i = a then st' else s.assets i } := by
  intro i
  by_cases hi : i = a
  · subst hi; simpa using h
  · simpa [hi] using hI i

theorem scaled_sub {env : Env} {s : PyState} (hI : Inv env s) {a : Nat} {p base : Params}
    (h : env.asset a = .scaled p base) :
    ∃ x, (s.assets a).sub = [x] ∧ x.start = base.start ∧ x.stop = base.stop := by
  have hIa := hI a
  rw [h] at hIa
  simp only [Asset.subs, List.map_cons, List.map_nil] at hIa
  match hs : (s.assets a).sub, hIa with
  | [x], h' =>
    simp only [List.map_cons, List.map_nil, List.cons.injEq, and_true, win, pwin, Prod.mk.injEq] at h'
    exact ⟨x, rfl, h'.1, h'.2⟩
  | [], h' => simp at h'
  | _ :: _ :: _, h' => simp at h'

/-- every set-up keeps the windows of wrapped assets (the structured asset restores them) -/
theorem setupAsset_inv (v : Version) (env : Env) (s : PyState) (a : Nat) (arg : Option Nat) (hI : Inv env s) :
    Inv env (setupAsset v env s a arg).1 := by
  cases h : env.asset a with
  | plain p =>
    simp only [setupAsset, h]
    exact inv_upd hI a _ _ (by simpa using hI a)
  | scaled p base =>
    obtain ⟨x, hx, hx1, hx2⟩ := scaled_sub hI h
    simp only [setupAsset, h, hx, List.headD_cons]
    rcases hbp : buildPlain v.rederive s.grids x.grid (clipStart x.start p.start) (clipStop x.stop p.stop) base.freq base.wacc
        (match arg with | some g => some g | none => if v.scaledOwnGrid = true then (s.assets a).grid else none) with ⟨G, bptr, r⟩
    cases r with
    | error e => exact inv_upd hI a _ _ (by simp [h, Asset.subs, win, pwin, hx1, hx2])
    | ok u =>
      cases bptr with
      | none => exact inv_upd hI a _ _ (by simp [h, Asset.subs, win, pwin, hx1, hx2])
      | some g => exact inv_upd hI a _ _ (by simp [h, Asset.subs, win, pwin, hx1, hx2])
  | structured p inner =>
    have hIa := hI a
    rw [h] at hIa
    simp only [Asset.subs] at hIa
    simp only [setupAsset, h]
    cases arg with
    | none =>
      cases hg : (s.assets a).grid with
      | none => exact hI
      | some g =>
        obtain ⟨G', sub', he, hw⟩ := structuredBody_eq v.rederive s.grids g p inner _ hIa
        simp only [he]
        exact inv_upd hI a _ _ (by simpa [h, Asset.subs, hw] using hIa)
    | some g =>
      obtain ⟨G', sub', he, hw⟩ := structuredBody_eq v.rederive (writeSlots s.grids g p.start p.stop p.freq p.wacc) g p inner _ hIa
      simp only [he]
      exact inv_upd hI a _ _ (by simpa [h, Asset.subs, hw] using hIa)

/-- a set-up WITH grid argument reads the asset's own data, whatever was set up before (every code version) -/
theorem setupAsset_arg (v : Version) (env : Env) (s : PyState) (a g : Nat) (hI : Inv env s) :
    (setupAsset v env s a (some g)).2 = .ok (pureAsset (env.asset a) g) := by
  cases h : env.asset a with
  | plain p => simp [setupAsset, h, buildPlain_arg, pureAsset, Except.map]
  | scaled p base =>
    obtain ⟨x, hx, hx1, hx2⟩ := scaled_sub hI h
    simp [setupAsset, h, hx, buildPlain_arg, pureAsset, readSlots_writeSlots, hx1, hx2]
  | structured p inner =>
    have hIa := hI a
    rw [h] at hIa
    simp only [Asset.subs] at hIa
    obtain ⟨G', sub', he, _⟩ := structuredBody_eq v.rederive (writeSlots s.grids g p.start p.stop p.freq p.wacc) g p inner _ hIa
    simp only [setupAsset, h, he]

/-- a set-up WITHOUT grid argument (current code) reads the asset's own data on the grid the asset itself was put on
    (a scaled asset that never saw a grid: the grid of its base asset) -/
theorem setupAsset_noarg (env : Env) (s : PyState) (a : Nat) (hI : Inv env s) :
    (setupAsset current env s a none).2 =
      match ownGrid env (ownPtrs s) a with
      | some g => .ok (pureAsset (env.asset a) g)
      | none => .error .noGrid := by
  cases h : env.asset a with
  | plain p =>
    cases hg : (s.assets a).grid with
    | none => simp [setupAsset, current, h, hg, buildPlain_none_none, Except.map, ownGrid, ownPtrs]
    | some g => simp [setupAsset, current, h, hg, buildPlain_rederive_some, pureAsset, Except.map, ownGrid, ownPtrs]
  | scaled p base =>
    obtain ⟨x, hx, hx1, hx2⟩ := scaled_sub hI h
    cases hg : (s.assets a).grid with
    | some g =>
      simp [setupAsset, current, h, hx, hg, buildPlain_arg, pureAsset, readSlots_writeSlots, hx1, hx2, ownGrid, ownPtrs]
    | none =>
      cases hb : x.grid with
      | none => simp [setupAsset, current, h, hx, hg, hb, buildPlain_none_none, ownGrid, ownPtrs]
      | some g =>
        simp [setupAsset, current, h, hx, hg, hb, buildPlain_rederive_some, pureAsset, readSlots_writeSlots, hx1, hx2,
          ownGrid, ownPtrs]
  | structured p inner =>
    have hIa := hI a
    rw [h] at hIa
    simp only [Asset.subs] at hIa
    cases hg : (s.assets a).grid with
    | none => simp [setupAsset, h, hg, ownGrid, ownPtrs]
    | some g =>
      obtain ⟨G', sub', he, _⟩ := structuredBody_eq true s.grids g p inner _ hIa
      simp only [setupAsset, current, h, hg, he, ownGrid, ownPtrs]

/-- the portfolio loop: every asset reads its own data; `Inv` is kept -/
theorem setupAll_eq (v : Version) (env : Env) (g : Nat) :
    ∀ (l : List Nat) (s : PyState), Inv env s →
      (setupAll v env g s l).2 = .ok (l.flatMap fun a => pureAsset (env.asset a) g) ∧ Inv env (setupAll v env g s l).1
  | [], s, hI => ⟨rfl, hI⟩
  | a :: rest, s, hI => by
    have h1 := setupAsset_arg v env s a g hI
    have h2 := setupAsset_inv v env s a (some g) hI
    rcases hsa : setupAsset v env s a (some g) with ⟨s1, r1⟩
    rw [hsa] at h1 h2
    simp only at h1 h2
    subst h1
    have ih := setupAll_eq v env g rest s1 h2
    rcases hsr : setupAll v env g s1 rest with ⟨s2, r2⟩
    rw [hsr] at ih
    simp only at ih
    obtain ⟨ih1, ih2⟩ := ih
    subst ih1
    simp [setupAll, hsa, hsr, ih2]

theorem setupPortfolioSt_eq (v : Version) (env : Env) (s : PyState) (arg : Option Nat) (hI : Inv env s) :
    (setupPortfolioSt v env s arg).2 = setupPure env (ownPtrs s) (.setupPortfolio arg)
      ∧ Inv env (setupPortfolioSt v env s arg).1 := by
  cases arg with
  | some g =>
    have := setupAll_eq v env g (List.range env.length) { s with pf := some g } hI
    simpa [setupPortfolioSt, setupPure] using this
  | none =>
    cases hp : s.pf with
    | none => simp [setupPortfolioSt, setupPure, ownPtrs, hp]; exact hI
    | some g =>
      have := setupAll_eq v env g (List.range env.length) s hI
      simpa [setupPortfolioSt, setupPure, ownPtrs, hp] using this

/-- the interval loop of a split set-up -/
theorem setupIntervals_eq (v : Version) (env : Env) :
    ∀ (tmp : List Nat) (s : PyState), Inv env s →
      (setupIntervals v env s tmp).2 = .ok (tmp.flatMap fun t => (List.range env.length).flatMap fun a => pureAsset (env.asset a) t)
        ∧ Inv env (setupIntervals v env s tmp).1
  | [], s, hI => ⟨rfl, hI⟩
  | t :: ts, s, hI => by
    have h0 := setupAll_eq v env t (List.range env.length) { s with pf := some t } hI
    rcases hsa : setupAll v env t { s with pf := some t } (List.range env.length) with ⟨s1, r1⟩
    rw [hsa] at h0
    simp only at h0
    obtain ⟨h1, h2⟩ := h0
    subst h1
    have ih := setupIntervals_eq v env ts s1 h2
    rcases hsr : setupIntervals v env s1 ts with ⟨s2, r2⟩
    rw [hsr] at ih
    simp only at ih
    obtain ⟨ih1, ih2⟩ := ih
    subst ih1
    simp [setupIntervals, hsa, hsr, ih2]

theorem setTimegridSt_inv (env : Env) (s : PyState) (a g : Nat) (hI : Inv env s) : Inv env (setTimegridSt env s a g) := by
  intro i
  by_cases hi : i = a
  · subst hi; simpa [setTimegridSt] using hI i
  · simpa [setTimegridSt, hi] using hI i

theorem restoreTop_inv (env : Env) (g : Nat) : ∀ (l : List Nat) (s : PyState), Inv env s → Inv env (restoreTop env g s l)
  | [], _, hI => hI
  | a :: rest, s, hI => restoreTop_inv env g rest _ (setTimegridSt_inv env s a g hI)

theorem map_win_set : ∀ (l : List SubSt) (i : Nat) (b : SubSt), l[i]? = some b → ∀ (ptr : Option Nat),
    (l.set i { b with grid := ptr }).map win = l.map win
  | [], _, _, h, _ => by simp at h
  | x :: xs, 0, b, h, ptr => by
    simp only [List.getElem?_cons_zero, Option.some.injEq] at h
    subst h
    simp [win]
  | x :: xs, i + 1, b, h, ptr => by
    simp only [List.getElem?_cons_succ] at h
    simp [map_win_set xs i b h ptr]

theorem win_of_get {l : List SubSt} {m : List Params} (h : l.map win = m.map pwin) {i : Nat} {b : SubSt} {q : Params}
    (hb : l[i]? = some b) (hq : m[i]? = some q) : b.start = q.start ∧ b.stop = q.stop := by
  have := congrArg (fun z => z[i]?) h
  simp only [List.getElem?_map, hb, hq, Option.map_some, Option.some.injEq, win, pwin, Prod.mk.injEq] at this
  exact this

theorem get_none_of_win {l : List SubSt} {m : List Params} (h : l.map win = m.map pwin) {i : Nat}
    (hb : l[i]? = none) : m[i]? = none := by
  have := congrArg (fun z => z[i]?) h
  simp only [List.getElem?_map, hb, Option.map_none] at this
  cases hm : m[i]? with
  | none => rfl
  | some q => rw [hm] at this; simp at this

theorem setupSubSt_inv (v : Version) (env : Env) (s : PyState) (a i : Nat) (arg : Option Nat) (hI : Inv env s) :
    Inv env (setupSubSt v env s a i arg).1 := by
  simp only [setupSubSt]
  cases hb : (s.assets a).sub[i]? with
  | none => exact hI
  | some b =>
    cases hq : (env.asset a).subs[i]? with
    | none => exact hI
    | some q =>
      simp only
      rcases hbp : buildPlain v.rederive s.grids b.grid b.start b.stop q.freq q.wacc arg with ⟨G, ptr, r⟩
      exact inv_upd hI a _ _ (by simpa [map_win_set _ i b hb ptr] using hI a)

theorem setTimegridSubSt_inv (env : Env) (s : PyState) (a i g : Nat) (hI : Inv env s) :
    Inv env (setTimegridSubSt env s a i g) := by
  simp only [setTimegridSubSt]
  cases hb : (s.assets a).sub[i]? with
  | none => exact hI
  | some b =>
    cases hq : (env.asset a).subs[i]? with
    | none => exact hI
    | some q => exact inv_upd hI a _ _ (by simpa [map_win_set _ i b hb (some g)] using hI a)

/-- direct set-up of a wrapped asset: reads the wrapped asset's own data, on the grid named or on the grid that asset
    itself sits on -/
theorem setupSubSt_eq (env : Env) (s : PyState) (a i : Nat) (arg : Option Nat) (hI : Inv env s) :
    (setupSubSt current env s a i arg).2 = setupPure env (ownPtrs s) (.setupSub a i arg) := by
  have hIa := hI a
  simp only [setupSubSt, setupPure, ownPtrs]
  cases hb : (s.assets a).sub[i]? with
  | none => simp [get_none_of_win hIa hb]
  | some b =>
    cases hq : (env.asset a).subs[i]? with
    | none => rfl
    | some q =>
      obtain ⟨h1, h2⟩ := win_of_get hIa hb hq
      cases arg with
      | some g => simp [buildPlain_arg, Except.map, h1, h2]
      | none =>
        cases hg : b.grid with
        | none => simp [current, hg, buildPlain_none_none, Except.map]
        | some g => simp [current, hg, buildPlain_rederive_some, Except.map, h1, h2]

theorem inv_init (env : Env) : Inv env (init env) := by
  intro a
  simp [init, subInit, win, pwin, List.map_map, Function.comp_def]

theorem setupSt_inv (v : Version) (env : Env) (s : PyState) (c : Call) (hI : Inv env s) : Inv env (setupSt v env s c).1 := by
  cases c with
  | setTimegrid a g => exact setTimegridSt_inv env s a g hI
  | setup a arg => exact setupAsset_inv v env s a arg hI
  | setTimegridSub a i g => exact setTimegridSubSt_inv env s a i g hI
  | setupSub a i arg => exact setupSubSt_inv v env s a i arg hI
  | setupPortfolio arg => exact (setupPortfolioSt_eq v env s arg hI).2
  | setupSplit g tmp =>
    have h := setupIntervals_eq v env tmp s hI
    simp only [setupSt]
    rcases hsi : setupIntervals v env s tmp with ⟨s1, r⟩
    rw [hsi] at h
    cases r with
    | error e => exact h.2
    | ok us => exact restoreTop_inv env g _ _ h.2
  | dcf a => exact hI
  | fillLevel a =>
    simp only [setupSt]
    cases (s.assets a).grid with
    | none => exact hI
    | some g => exact hI
  | makeSlp g t =>
    have hI1 : Inv env { s with grids := writeRestricted (writeRestricted s.grids g (some t, none, none)) g (none, some t, none) } := hI
    exact (setupPortfolioSt_eq v env _ (some g) hI1).2

theorem run_inv (v : Version) (env : Env) : ∀ (calls : List Call) (s : PyState), Inv env s → Inv env (run v env s calls)
  | [], _, hI => hI
  | c :: cs, s, hI => run_inv v env cs _ (setupSt_inv v env s c hI)

/-! ### where the grid attributes point after a portfolio set-up -/

/-- asset `a` and everything it wraps sit on grid object `g` -/
def On (s : PyState) (g a : Nat) : Prop :=
  (s.assets a).grid = some g ∧ ∀ b ∈ (s.assets a).sub, b.grid = some g

theorem structuredBody_grids (rd : Bool) (G0 : Grids) (g : Nat) (p : Params) (inner : List Params) (sub : List SubSt) :
    ∀ b ∈ (structuredBody rd G0 g p inner sub).2.1, b.grid = some g := by
  obtain ⟨G', hG⟩ := buildInner_eq rd g
    (((sub.zip inner).map (fun sq =>
        (({ grid := some g, start := clipStart sq.1.start p.start, stop := clipStop sq.1.stop p.stop } : SubSt), sq.2)))
      |>.foldl (fun G sq => writeSlots G g sq.1.start sq.1.stop sq.2.freq sq.2.wacc) G0)
    ((sub.zip inner).map (fun sq =>
        (({ grid := some g, start := clipStart sq.1.start p.start, stop := clipStop sq.1.stop p.stop } : SubSt), sq.2)))
  intro b hb
  simp only [structuredBody, hG, List.mem_map] at hb
  obtain ⟨so, hso, rfl⟩ := hb
  have h1 := (List.of_mem_zip hso).1
  simp only [List.mem_map] at h1
  obtain ⟨sq, _, hsq⟩ := h1
  simp [← hsq]

theorem setupAsset_arg_on (v : Version) (env : Env) (s : PyState) (a g : Nat) (hI : Inv env s) :
    On (setupAsset v env s a (some g)).1 g a
      ∧ (∀ i, i ≠ a → (setupAsset v env s a (some g)).1.assets i = s.assets i)
      ∧ (setupAsset v env s a (some g)).1.pf = s.pf := by
  cases h : env.asset a with
  | plain p =>
    have hsub : (s.assets a).sub = [] := by
      have := hI a
      rw [h] at this
      simpa [Asset.subs] using this
    refine ⟨⟨by simp [setupAsset, h, buildPlain_arg], ?_⟩, ?_, by simp [setupAsset, h, buildPlain_arg]⟩
    · intro b hb
      simp [setupAsset, h, buildPlain_arg, hsub] at hb
    · intro i hi
      simp [setupAsset, h, buildPlain_arg, hi]
  | scaled p base =>
    obtain ⟨x, hx, _, _⟩ := scaled_sub hI h
    refine ⟨⟨by simp [setupAsset, h, hx, buildPlain_arg], ?_⟩, ?_, by simp [setupAsset, h, hx, buildPlain_arg]⟩
    · intro b hb
      simp [setupAsset, h, hx, buildPlain_arg] at hb
      simp [hb]
    · intro i hi
      simp [setupAsset, h, hx, buildPlain_arg, hi]
  | structured p inner =>
    have hg := structuredBody_grids v.rederive (writeSlots s.grids g p.start p.stop p.freq p.wacc) g p inner (s.assets a).sub
    rcases hb : structuredBody v.rederive (writeSlots s.grids g p.start p.stop p.freq p.wacc) g p inner (s.assets a).sub with ⟨G2, sub', r⟩
    rw [hb] at hg
    refine ⟨⟨by simp [setupAsset, h, hb], ?_⟩, ?_, by simp [setupAsset, h, hb]⟩
    · intro b hbm
      simp only [setupAsset, h, hb, if_true] at hbm
      exact hg b hbm
    · intro i hi
      simp [setupAsset, h, hb, hi]

theorem setupAll_on (v : Version) (env : Env) (g : Nat) :
    ∀ (l : List Nat) (s : PyState), Inv env s →
      (setupAll v env g s l).1.pf = s.pf ∧ ∀ a, (a ∈ l ∨ On s g a) → On (setupAll v env g s l).1 g a
  | [], s, _ => by
    refine ⟨rfl, fun a h => ?_⟩
    rcases h with h | h
    · simp at h
    · exact h
  | x :: rest, s, hI => by
    have h1 := setupAsset_arg v env s x g hI
    have h2 := setupAsset_inv v env s x (some g) hI
    have h3 := setupAsset_arg_on v env s x g hI
    rcases hsa : setupAsset v env s x (some g) with ⟨s1, r1⟩
    rw [hsa] at h1 h2 h3
    simp only at h1 h2 h3
    subst h1
    have ih := setupAll_on v env g rest s1 h2
    have he := (setupAll_eq v env g rest s1 h2).1
    rcases hsr : setupAll v env g s1 rest with ⟨s2, r2⟩
    rw [hsr] at ih he
    simp only at ih he
    subst he
    simp only [setupAll, hsa, hsr]
    refine ⟨ih.1.trans h3.2.2, ?_⟩
    intro a ha
    apply ih.2
    by_cases hax : a = x
    · subst hax; exact Or.inr h3.1
    · rcases ha with ha | ha
      · simp only [List.mem_cons] at ha
        rcases ha with ha | ha
        · exact absurd ha hax
        · exact Or.inl ha
      · right
        unfold On
        rw [h3.2.1 a hax]
        exact ha

/-! ### interval data -/

theorem map_some_getD : ∀ (es : List (Option Int)), es.all Option.isSome = true → (es.map fun e => e.getD 0).map some = es
  | [], _ => rfl
  | none :: _, h => by simp at h
  | some x :: es, h => by
    simp only [List.all_cons, Option.isSome_some, Bool.true_and] at h
    simp [map_some_getD es h]

end EAO.State
