import EAO.Model.State
/-!
# EAO.Lemmas.State — helper lemmas for C10 (slot logic of `EAO.Model.State`)
Core Lean only.
-/
namespace EAO.State

theorem readSlots_writeSlots (G : Grids) (g : Nat) (st sp : Option Int) (f : Option Nat) (w : Rat) :
    readSlots (writeSlots G g st sp f w) g = usedOf g st sp f w := by
  simp [readSlots, writeSlots, usedOf]

theorem buildPlain_arg (rd : Bool) (G : Grids) (ptr : Option Nat) (st sp : Option Int) (f : Option Nat) (w : Rat) (g : Nat) :
    buildPlain rd G ptr st sp f w (some g) = (writeSlots G g st sp f w, some g, .ok (usedOf g st sp f w)) := by
  simp [buildPlain, readSlots_writeSlots]

theorem buildPlain_rederive_some (G : Grids) (st sp : Option Int) (f : Option Nat) (w : Rat) (g : Nat) :
    buildPlain true G (some g) st sp f w none = (writeSlots G g st sp f w, some g, .ok (usedOf g st sp f w)) := by
  simp [buildPlain, readSlots_writeSlots]

theorem buildPlain_none_none (rd : Bool) (G : Grids) (st sp : Option Int) (f : Option Nat) (w : Rat) :
    buildPlain rd G none st sp f w none = (G, none, .error .noGrid) := by
  cases rd <;> simp [buildPlain]

theorem buildInner_eq (rd : Bool) (g : Nat) (G : Grids) (l : List (SubSt × Params)) :
    ∃ G', buildInner rd g G l =
      (G', l.map (fun sq => { sq.1 with grid := some g }), .ok (l.map fun sq => usedOf g sq.1.start sq.1.stop sq.2.freq sq.2.wacc)) := by
  induction l generalizing G with
  | nil => exact ⟨G, rfl⟩
  | cons x rest ih =>
    obtain ⟨G', h⟩ := ih (writeSlots G g x.1.start x.1.stop x.2.freq x.2.wacc)
    refine ⟨G', ?_⟩
    simp [buildInner, buildPlain_arg, h]

def win (st : SubSt) : Option Int × Option Int := (st.start, st.stop)
def pwin (q : Params) : Option Int × Option Int := (q.start, q.stop)

/-- the windows of wrapped assets are the ones they were constructed with -/
def Inv (env : Env) (s : PyState) : Prop := ∀ a, (s.assets a).sub.map win = (env.asset a).subs.map pwin

theorem zip_map_of_win {β} (H : Option Int → Option Int → Params → β) :
    ∀ (subs : List SubSt) (inner : List Params), subs.map win = inner.map pwin →
      (subs.zip inner).map (fun sq => H sq.1.start sq.1.stop sq.2) = inner.map (fun q => H q.start q.stop q)
  | [], [], _ => rfl
  | [], _ :: _, h => by simp at h
  | _ :: _, [], h => by simp at h
  | x :: xs, q :: qs, h => by
    simp only [List.map_cons, List.cons.injEq] at h
    have h1 := h.1
    simp only [win, pwin, Prod.mk.injEq] at h1
    simp [List.zip_cons_cons, List.map_cons, zip_map_of_win H xs qs h.2, h1.1, h1.2]

theorem restore_win {γ} (F : γ → SubSt) :
    ∀ (l : List γ) (subs : List SubSt), l.length = subs.length →
      (((l.map F).zip subs).map fun so => ({ so.1 with start := so.2.start, stop := so.2.stop } : SubSt)).map win = subs.map win
  | [], [], _ => rfl
  | [], _ :: _, h => by simp at h
  | _ :: _, [], h => by simp at h
  | x :: xs, s :: ss, h => by
    simp only [List.length_cons, Nat.add_right_cancel_iff] at h
    simp [List.zip_cons_cons, List.map_cons, restore_win F xs ss h, win]

theorem length_of_win {subs : List SubSt} {inner : List Params} (h : subs.map win = inner.map pwin) :
    subs.length = inner.length := by
  have := congrArg List.length h
  simpa using this


theorem structuredBody_spec (rd : Bool) (G0 : Grids) (g : Nat) (p : Params) (inner : List Params) (sub : List SubSt)
    (h : sub.map win = inner.map pwin) :
    (structuredBody rd G0 g p inner sub).2.2 = .ok (pureAsset (.structured p inner) g)
      ∧ (structuredBody rd G0 g p inner sub).2.1.map win = sub.map win := by
  obtain ⟨G', hG⟩ := buildInner_eq rd g
    (((sub.zip inner).map (fun sq =>
        (({ grid := some g, start := clipStart sq.1.start p.start, stop := clipStop sq.1.stop p.stop } : SubSt), sq.2)))
      |>.foldl (fun G sq => writeSlots G g sq.1.start sq.1.stop sq.2.freq sq.2.wacc) G0)
    ((sub.zip inner).map (fun sq =>
        (({ grid := some g, start := clipStart sq.1.start p.start, stop := clipStop sq.1.stop p.stop } : SubSt), sq.2)))
  refine ⟨?_, ?_⟩
  · simp only [structuredBody, hG, pureAsset, List.map_map]
    exact congrArg Except.ok
      (zip_map_of_win (fun st sp q => usedOf g (clipStart st p.start) (clipStop sp p.stop) q.freq q.wacc) _ _ h)
  · simp only [structuredBody, hG]
    exact restore_win _ _ _ (by simp [length_of_win h])

theorem structuredBody_eq (rd : Bool) (G0 : Grids) (g : Nat) (p : Params) (inner : List Params) (sub : List SubSt)
    (h : sub.map win = inner.map pwin) :
    ∃ G' sub', structuredBody rd G0 g p inner sub = (G', sub', .ok (pureAsset (.structured p inner) g))
      ∧ sub'.map win = sub.map win := by
  have hs := structuredBody_spec rd G0 g p inner sub h
  rcases hb : structuredBody rd G0 g p inner sub with ⟨G2, sub', r⟩
  rw [hb] at hs
  exact ⟨G2, sub', by rw [← hs.1], hs.2⟩

/-- the state after `setupAsset` differs from `s` in the grid objects and in asset `a` only -/
theorem inv_upd {env : Env} {s : PyState} (hI : Inv env s) (a : Nat) (G : Grids) (st' : AssetSt)
    (h : st'.sub.map win = (env.asset a).subs.map pwin) :
    Inv env { s with grids := G, assets := fun i => if i = a then st' else s.assets i } := by
  intro i
  by_cases hi : i = a
  · subst hi; simpa using h
  · simpa [hi] using hI i

theorem scaled_sub {env : Env} {s : PyState} (hI : Inv env s) {a : Nat} {p base : Params}
    (h : env.asset a = .scaled p base) :
    ∃ x, (s.assets a).sub = [x] ∧ x.start = base.start ∧ x.stop = base.stop := by
  have hIa := hI a
  rw [h] at hIa
  simp only [Asset.subs, List.map_cons, List.map_nil] at hIa
  match hs : (s.assets a).sub, hIa with
  | [x], h' =>
    simp only [List.map_cons, List.map_nil, List.cons.injEq, and_true, win, pwin, Prod.mk.injEq] at h'
    exact ⟨x, rfl, h'.1, h'.2⟩
  | [], h' => simp at h'
  | _ :: _ :: _, h' => simp at h'

/-- every set-up keeps the windows of wrapped assets (the structured asset restores them) -/
theorem setupAsset_inv (rd : Bool) (env : Env) (s : PyState) (a : Nat) (arg : Option Nat) (hI : Inv env s) :
    Inv env (setupAsset rd env s a arg).1 := by
  cases h : env.asset a with
  | plain p =>
    simp only [setupAsset, h]
    exact inv_upd hI a _ _ (by simpa using hI a)
  | scaled p base =>
    obtain ⟨x, hx, hx1, hx2⟩ := scaled_sub hI h
    simp only [setupAsset, h, hx, List.headD_cons]
    rcases hbp : buildPlain rd s.grids x.grid x.start x.stop base.freq base.wacc arg with ⟨G, bptr, r⟩
    cases r with
    | error e => exact inv_upd hI a _ _ (by simp [h, Asset.subs, win, pwin, hx1, hx2])
    | ok u =>
      cases bptr with
      | none => exact inv_upd hI a _ _ (by simp [h, Asset.subs, win, pwin, hx1, hx2])
      | some g => exact inv_upd hI a _ _ (by simp [h, Asset.subs, win, pwin, hx1, hx2])
  | structured p inner =>
    have hIa := hI a
    rw [h] at hIa
    simp only [Asset.subs] at hIa
    simp only [setupAsset, h]
    cases arg with
    | none =>
      cases hg : (s.assets a).grid with
      | none => exact hI
      | some g =>
        obtain ⟨G', sub', he, hw⟩ := structuredBody_eq rd s.grids g p inner _ hIa
        simp only [he]
        exact inv_upd hI a _ _ (by simpa [h, Asset.subs, hw] using hIa)
    | some g =>
      obtain ⟨G', sub', he, hw⟩ := structuredBody_eq rd (writeSlots s.grids g p.start p.stop p.freq p.wacc) g p inner _ hIa
      simp only [he]
      exact inv_upd hI a _ _ (by simpa [h, Asset.subs, hw] using hIa)

/-- a set-up WITH grid argument reads the asset's own data, whatever was set up before -/
theorem setupAsset_arg (rd : Bool) (env : Env) (s : PyState) (a g : Nat) (hI : Inv env s) :
    (setupAsset rd env s a (some g)).2 = .ok (pureAsset (env.asset a) g) := by
  cases h : env.asset a with
  | plain p => simp [setupAsset, h, buildPlain_arg, pureAsset, Except.map]
  | scaled p base =>
    obtain ⟨x, hx, hx1, hx2⟩ := scaled_sub hI h
    simp [setupAsset, h, hx, buildPlain_arg, pureAsset, readSlots_writeSlots, hx1, hx2]
  | structured p inner =>
    have hIa := hI a
    rw [h] at hIa
    simp only [Asset.subs] at hIa
    obtain ⟨G', sub', he, _⟩ := structuredBody_eq rd (writeSlots s.grids g p.start p.stop p.freq p.wacc) g p inner _ hIa
    simp only [setupAsset, h, he]

/-- for a `ScaledAsset` the wrapped base asset sits on the same grid object as the wrapper -/
def ScaledSynced (env : Env) (s : PyState) (a : Nat) : Prop :=
  match env.asset a with
  | .scaled _ b => ((s.assets a).sub.headD (subInit b)).grid = (s.assets a).grid
  | _ => True

/-- a set-up WITHOUT grid argument (current code: re-derives) reads the asset's own data on the grid the asset
    itself was put on -/
theorem setupAsset_noarg (env : Env) (s : PyState) (a : Nat) (hI : Inv env s) (hS : ScaledSynced env s a) :
    (setupAsset true env s a none).2 =
      match (s.assets a).grid with
      | some g => .ok (pureAsset (env.asset a) g)
      | none => .error .noGrid := by
  cases h : env.asset a with
  | plain p =>
    cases hg : (s.assets a).grid with
    | none => simp [setupAsset, h, hg, buildPlain_none_none, Except.map]
    | some g => simp [setupAsset, h, hg, buildPlain_rederive_some, pureAsset, Except.map]
  | scaled p base =>
    obtain ⟨x, hx, hx1, hx2⟩ := scaled_sub hI h
    simp only [ScaledSynced, h, hx, List.headD_cons] at hS
    cases hg : (s.assets a).grid with
    | none =>
      rw [hg] at hS
      simp [setupAsset, h, hx, hS, buildPlain_none_none]
    | some g =>
      rw [hg] at hS
      simp [setupAsset, h, hx, hS, buildPlain_rederive_some, pureAsset, readSlots_writeSlots, hx1, hx2]
  | structured p inner =>
    have hIa := hI a
    rw [h] at hIa
    simp only [Asset.subs] at hIa
    cases hg : (s.assets a).grid with
    | none => simp [setupAsset, h, hg]
    | some g =>
      obtain ⟨G', sub', he, _⟩ := structuredBody_eq true s.grids g p inner _ hIa
      simp only [setupAsset, h, hg, he]

/-- the portfolio loop: every asset reads its own data; `Inv` is kept -/
theorem setupAll_eq (rd : Bool) (env : Env) (g : Nat) :
    ∀ (l : List Nat) (s : PyState), Inv env s →
      (setupAll rd env g s l).2 = .ok (l.flatMap fun a => pureAsset (env.asset a) g) ∧ Inv env (setupAll rd env g s l).1
  | [], s, hI => ⟨rfl, hI⟩
  | a :: rest, s, hI => by
    have h1 := setupAsset_arg rd env s a g hI
    have h2 := setupAsset_inv rd env s a (some g) hI
    rcases hsa : setupAsset rd env s a (some g) with ⟨s1, r1⟩
    rw [hsa] at h1 h2
    simp only at h1 h2
    subst h1
    have ih := setupAll_eq rd env g rest s1 h2
    rcases hsr : setupAll rd env g s1 rest with ⟨s2, r2⟩
    rw [hsr] at ih
    simp only at ih
    obtain ⟨ih1, ih2⟩ := ih
    subst ih1
    simp [setupAll, hsa, hsr, ih2]

theorem setupPortfolioSt_eq (rd : Bool) (env : Env) (s : PyState) (arg : Option Nat) (hI : Inv env s) :
    (setupPortfolioSt rd env s arg).2 = setupPure env (ownPtrs s) (.setupPortfolio arg)
      ∧ Inv env (setupPortfolioSt rd env s arg).1 := by
  cases arg with
  | some g =>
    have := setupAll_eq rd env g (List.range env.length) { s with pf := some g } hI
    simpa [setupPortfolioSt, setupPure] using this
  | none =>
    cases hp : s.pf with
    | none => simp [setupPortfolioSt, setupPure, ownPtrs, hp]; exact hI
    | some g =>
      have := setupAll_eq rd env g (List.range env.length) s hI
      simpa [setupPortfolioSt, setupPure, ownPtrs, hp] using this

theorem inv_init (env : Env) : Inv env (init env) := by
  intro a
  simp [init, subInit, win, pwin, List.map_map, Function.comp_def]

theorem setupSt_inv (rd : Bool) (env : Env) (s : PyState) (c : Call) (hI : Inv env s) : Inv env (setupSt rd env s c).1 := by
  cases c with
  | setTimegrid a g =>
    intro i
    by_cases hi : i = a
    · subst hi; simpa [setupSt] using hI i
    · simpa [setupSt, hi] using hI i
  | setup a arg => exact setupAsset_inv rd env s a arg hI
  | setupPortfolio arg => exact (setupPortfolioSt_eq rd env s arg hI).2
  | dcf a => exact hI
  | fillLevel a =>
    simp only [setupSt]
    cases (s.assets a).grid with
    | none => exact hI
    | some g => exact hI
  | makeSlp g t =>
    have hI1 : Inv env { s with grids := writeRestricted (writeRestricted s.grids g (some t, none, none)) g (none, some t, none) } := hI
    exact (setupPortfolioSt_eq rd env _ (some g) hI1).2

theorem run_inv (rd : Bool) (env : Env) : ∀ (calls : List Call) (s : PyState), Inv env s → Inv env (run rd env s calls)
  | [], _, hI => hI
  | c :: cs, s, hI => run_inv rd env cs _ (setupSt_inv rd env s c hI)

/-! ### interval data -/

theorem map_some_getD : ∀ (es : List (Option Int)), es.all Option.isSome = true → (es.map fun e => e.getD 0).map some = es
  | [], _ => rfl
  | none :: _, h => by simp at h
  | some x :: es, h => by
    simp only [List.all_cons, Option.isSome_some, Bool.true_and] at h
    simp [map_some_getD es h]

theorem map_id_match (es : List (Option Int)) :
    es.map (fun e => match e with | some x => some x | none => (none : Option Int)) = es := by
  induction es with
  | nil => rfl
  | cons e es ih => cases e <;> simp [ih]

end EAO.State
