import EAO.Model.Assemble
import EAO.Model.Readout
import EAO.Lemmas.Nodal
import EAO.Lemmas.Blocks
import EAO.Lemmas.Wf
import EAO.Lemmas.Accounting
/-! helper lemmas for C09 (independence of names and of the order of the assets): the assembly commutes
    with an injective renaming of the labels; block-wise description of feasibility and value of the
    assembled problem; rearranging the blocks of a point along a permutation of the asset list -/
namespace EAO.Perm

/-! ### renaming of labels -/

/-- renaming of the labels of one mapping row -/
def renRow (ρa ρn : String → String) (m : MapRow) : MapRow :=
  { m with asset := ρa m.asset, node := m.node.map ρn }

/-- renaming of the labels of an asset problem -/
def renAsset (ρa ρn : String → String) (a : AssetProblem) : AssetProblem :=
  { a with name := ρa a.name, nodes := a.nodes.map ρn, mapping := a.mapping.map (renRow ρa ρn) }

@[simp] theorem renRow_var (ρa ρn : String → String) (m : MapRow) : (renRow ρa ρn m).var = m.var := rfl
@[simp] theorem renRow_factor (ρa ρn : String → String) (m : MapRow) :
    (renRow ρa ρn m).factor = m.factor := rfl
@[simp] theorem renRow_step (ρa ρn : String → String) (m : MapRow) : (renRow ρa ρn m).step = m.step := rfl
@[simp] theorem renRow_kind (ρa ρn : String → String) (m : MapRow) : (renRow ρa ρn m).kind = m.kind := rfl
@[simp] theorem renRow_asset (ρa ρn : String → String) (m : MapRow) :
    (renRow ρa ρn m).asset = ρa m.asset := rfl
@[simp] theorem renRow_node (ρa ρn : String → String) (m : MapRow) :
    (renRow ρa ρn m).node = m.node.map ρn := rfl
@[simp] theorem renRow_contrib (ρa ρn : String → String) (m : MapRow) (x : Vec) :
    (renRow ρa ρn m).contrib x = m.contrib x := rfl

theorem renRow_shift (ρa ρn : String → String) (off : Nat) (m : MapRow) :
    renRow ρa ρn (m.shift off) = (renRow ρa ρn m).shift off := rfl

@[simp] theorem renAsset_n (ρa ρn : String → String) (a : AssetProblem) : (renAsset ρa ρn a).n = a.n := rfl

/-- the concatenation commutes with the renaming (any renaming) -/
theorem assembleFrom_ren (ρa ρn : String → String) (off : Nat) (as : List AssetProblem) :
    assembleFrom off (as.map (renAsset ρa ρn)) =
      { assembleFrom off as with mapping := (assembleFrom off as).mapping.map (renRow ρa ρn) } := by
  induction as generalizing off with
  | nil => rfl
  | cons a as ih =>
    simp only [List.map_cons, assembleFrom, ih, renAsset_n]
    simp only [renAsset, List.map_append, List.map_map, Problem.mk.injEq, true_and, and_true]
    congr 1

theorem beq_map_inj {α β} [BEq α] [LawfulBEq α] [BEq β] [LawfulBEq β] (f : α → β)
    (hf : ∀ a b, f a = f b → a = b) (a b : α) : (f a == f b) = (a == b) := by
  rw [Bool.eq_iff_iff, beq_iff_eq, beq_iff_eq]
  exact ⟨hf a b, fun h => h ▸ rfl⟩

/-- an injective map commutes with the removal of duplicates -/
theorem eraseDups_map_inj {α β} [BEq α] [LawfulBEq α] [BEq β] [LawfulBEq β] (f : α → β)
    (hf : ∀ a b, f a = f b → a = b) (l : List α) : (l.map f).eraseDups = l.eraseDups.map f := by
  generalize hk : l.length = k
  induction k using Nat.strongRecOn generalizing l with
  | _ k ih =>
    cases l with
    | nil => simp
    | cons a as =>
      rw [List.map_cons, List.eraseDups_cons, List.eraseDups_cons, List.map_cons, List.filter_map]
      congr 1
      have hfun : ((fun b => !b == f a) ∘ f) = fun b => !b == a := by
        funext b
        simp only [Function.comp, beq_map_inj f hf]
      rw [hfun]
      have hlen : (as.filter fun b => !b == a).length < k := by
        have := List.length_filter_le (fun b => !b == a) as
        simp at hk; omega
      exact ih _ hlen _ rfl

theorem portfolioNodes_ren (ρa ρn : String → String) (hn : ∀ a b, ρn a = ρn b → a = b)
    (as : List AssetProblem) :
    portfolioNodes (as.map (renAsset ρa ρn)) = (portfolioNodes as).map ρn := by
  unfold portfolioNodes
  rw [← eraseDups_map_inj ρn hn, List.flatMap_map, List.map_flatMap]
  rfl

theorem isDisp_ren (ρa ρn : String → String) (hn : ∀ a b, ρn a = ρn b → a = b) (n : String) (t : Nat)
    (m : MapRow) : isDisp (ρn n) t (renRow ρa ρn m) = isDisp n t m := by
  unfold isDisp
  simp only [renRow_kind, renRow_node, renRow_step]
  congr 2
  cases hnode : m.node with
  | none => simp
  | some n' =>
    rw [Bool.eq_iff_iff]
    simp only [Option.map_some, beq_iff_eq, Option.some.injEq]
    exact ⟨hn _ _, fun h => h ▸ rfl⟩

theorem isDisp_ren_comp (ρa ρn : String → String) (hn : ∀ a b, ρn a = ρn b → a = b) (n : String) (t : Nat) :
    (isDisp (ρn n) t ∘ renRow ρa ρn) = isDisp n t := by
  funext m; exact isDisp_ren ρa ρn hn n t m

theorem nodalRow_ren (ρa ρn : String → String) (hn : ∀ a b, ρn a = ρn b → a = b) (M : List MapRow)
    (n : String) (t : Nat) : nodalRow (M.map (renRow ρa ρn)) (ρn n) t = nodalRow M n t := by
  unfold nodalRow
  rw [List.filter_map, isDisp_ren_comp ρa ρn hn, List.map_map]
  rfl

theorem contains_map_inj (ρn : String → String) (hn : ∀ a b, ρn a = ρn b → a = b) (skip : List String)
    (n : String) : (skip.map ρn).contains (ρn n) = skip.contains n := by
  rw [Bool.eq_iff_iff, List.contains_iff_mem, List.contains_iff_mem, List.mem_map]
  constructor
  · rintro ⟨n', hn', h⟩
    rw [← hn _ _ h]; exact hn'
  · intro h
    exact ⟨n, h, rfl⟩

theorem nodalPairs_ren (ρa ρn : String → String) (hn : ∀ a b, ρn a = ρn b → a = b) (M : List MapRow)
    (nodes skip : List String) (gridI : List Nat) :
    nodalPairs (M.map (renRow ρa ρn)) (nodes.map ρn) (skip.map ρn) gridI =
      (nodalPairs M nodes skip gridI).map fun p => (p.1, ρn p.2) := by
  unfold nodalPairs
  rw [List.filter_map, List.flatMap_map, List.map_flatMap]
  have hfun : ((fun n => !(skip.map ρn).contains n) ∘ ρn) = fun n => !skip.contains n := by
    funext n
    simp only [Function.comp, contains_map_inj ρn hn]
  rw [hfun]
  congr 1
  funext n
  rw [List.map_map]
  congr 1
  congr 1
  funext t
  rw [List.any_map, isDisp_ren_comp ρa ρn hn]

/-- the assembly commutes with an injective renaming of the nodes (and any renaming of the assets) -/
theorem assemble_ren (ρa ρn : String → String) (hn : ∀ a b, ρn a = ρn b → a = b)
    (as : List AssetProblem) (gridI : List Nat) (skip : List String) :
    assemble (as.map (renAsset ρa ρn)) gridI (skip.map ρn) =
      { assemble as gridI skip with
        mapping := (assemble as gridI skip).mapping.map (renRow ρa ρn),
        nodal := (assemble as gridI skip).nodal.map fun p => (p.1, ρn p.2) } := by
  unfold assemble
  simp only [assembleFrom_ren, portfolioNodes_ren ρa ρn hn, nodalPairs_ren ρa ρn hn, List.map_map,
    Problem.mk.injEq, true_and, and_true]
  congr 1
  apply List.map_congr_left
  intro p _
  exact nodalRow_ren ρa ρn hn _ p.2 p.1

/-! ### read-outs under renaming -/

theorem dispatchOut_ren (ρa ρn : String → String) (ha : ∀ a b, ρa a = ρa b → a = b)
    (hn : ∀ a b, ρn a = ρn b → a = b) (M : List MapRow) (a n : String) (t : Nat) (x : Vec) :
    dispatchOut (M.map (renRow ρa ρn)) (ρa a) (ρn n) t x = dispatchOut M a n t x := by
  unfold dispatchOut
  rw [List.filter_map, List.map_map]
  have hfun : ((fun m : MapRow => m.asset == ρa a && isDisp (ρn n) t m) ∘ renRow ρa ρn)
      = fun m => m.asset == a && isDisp n t m := by
    funext m
    simp only [Function.comp, renRow_asset, isDisp_ren ρa ρn hn]
    rw [beq_map_inj ρa ha]
  rw [hfun]
  rfl

theorem firstRows_ren (ρa ρn : String → String) (L : List MapRow) (seen : List Nat) :
    firstRows (L.map (renRow ρa ρn)) seen = (firstRows L seen).map (renRow ρa ρn) := by
  induction L generalizing seen with
  | nil => rfl
  | cons m L ih =>
    rw [List.map_cons]
    unfold firstRows
    rw [renRow_var]
    by_cases hs : seen.contains m.var = true
    · rw [if_pos hs, if_pos hs]; exact ih seen
    · rw [if_neg hs, if_neg hs, List.map_cons, ih]

theorem dcf_ren (ρa ρn : String → String) (ha : ∀ a b, ρa a = ρa b → a = b)
    (c : List Rat) (M : List MapRow) (a : String) (t : Nat) (x : Vec) :
    dcf c (M.map (renRow ρa ρn)) (ρa a) t x = dcf c M a t x := by
  unfold dcf assetFirstRows
  rw [List.filter_map]
  have hfun : ((fun m : MapRow => m.asset == ρa a) ∘ renRow ρa ρn) = fun m => m.asset == a := by
    funext m
    simp only [Function.comp, renRow_asset, beq_map_inj ρa ha]
  rw [hfun, firstRows_ren, List.filter_map, List.map_map]
  rfl

/-! ### block-wise description of the assembled problem -/

/-- flow of an asset into node `n` at step `t`, from its own block of variables -/
def flowOf (a : AssetProblem) (n : String) (t : Nat) (y : Vec) : Rat :=
  ((a.mapping.filter (isDisp n t)).map (·.contrib y)).sum

theorem contrib_shift (off : Nat) (m : MapRow) (x : Vec) :
    (m.shift off).contrib x = m.contrib (fun j => x (off + j)) := rfl

/-- the total of the dispatch contributions at (n,t) splits over the blocks -/
theorem assembleFrom_flow (as : List AssetProblem) (off : Nat) (n : String) (t : Nat) (x : Vec) :
    (((assembleFrom off as).mapping.filter (isDisp n t)).map (·.contrib x)).sum =
      ((List.range as.length).map fun i =>
        flowOf (as.getD i default) n t (fun j => x (off + blockOffset as i + j))).sum := by
  induction as generalizing off with
  | nil => simp
  | cons a as ih =>
    rw [assembleFrom_cons_mapping, List.filter_append, List.map_append, List.sum_append,
      List.length_cons, List.range_succ_eq_map]
    simp only [List.map_cons, List.sum_cons, List.map_map, Function.comp_def, Nat.succ_eq_add_one,
      blockOffset_zero, blockOffset_cons_succ, Nat.add_zero, List.getD_cons_zero, List.getD_cons_succ]
    rw [ih (off + a.n)]
    simp only [Nat.add_assoc]
    congr 1
    unfold flowOf
    rw [List.filter_map, List.map_map]
    rfl

theorem any_eq_false_filter {α} (p : α → Bool) (l : List α) (h : l.any p = false) : l.filter p = [] := by
  apply List.filter_eq_nil_iff.mpr
  intro a ha hp
  have : l.any p = true := List.any_eq_true.mpr ⟨a, ha, hp⟩
  rw [h] at this; cases this

/-- the generated nodal rows hold iff the flows of the assets balance at every (node ∉ skip, step) -/
theorem nodal_rows_iff (as : List AssetProblem) (gridI : List Nat) (skip : List String)
    (hdisp : ∀ a ∈ as, ∀ m ∈ a.mapping, ∀ n, m.kind = .d → m.node = some n → n ∈ a.nodes ∧ m.step ∈ gridI)
    (x : Vec) :
    (∀ p ∈ nodalPairs (assembleFrom 0 as).mapping (portfolioNodes as) skip gridI,
        (nodalRow (assembleFrom 0 as).mapping p.2 p.1).Sat x) ↔
      ∀ n, n ∉ skip → ∀ t, ((List.range as.length).map fun i =>
        flowOf (as.getD i default) n t (fun j => x (blockOffset as i + j))).sum = 0 := by
  have hflow := fun n t => assembleFrom_flow as 0 n t x
  simp only [Nat.zero_add] at hflow
  have hsat : ∀ n t, (nodalRow (assembleFrom 0 as).mapping n t).Sat x ↔
      ((List.range as.length).map fun i =>
        flowOf (as.getD i default) n t (fun j => x (blockOffset as i + j))).sum = 0 := by
    intro n t
    rw [← hflow n t, ← nodalRow_eval]
    exact Iff.rfl
  constructor
  · intro h n hs t
    by_cases hany : (assembleFrom 0 as).mapping.any (isDisp n t) = true
    · obtain ⟨m, hm, hd⟩ := List.any_eq_true.mp hany
      obtain ⟨a, ha, m', hm', o, rfl⟩ := mem_assembleFrom_mapping as 0 m hm
      rw [isDisp_shift, isDisp_iff] at hd
      obtain ⟨hk, hnode, hstep⟩ := hd
      obtain ⟨hnn, hg⟩ := hdisp a ha m' hm' n hk hnode
      rw [hstep] at hg
      have hp : (t, n) ∈ nodalPairs (assembleFrom 0 as).mapping (portfolioNodes as) skip gridI :=
        mem_nodalPairs _ _ _ _ n t (mem_portfolioNodes as a ha n hnn) hs hg hany
      exact (hsat n t).mp (h (t, n) hp)
    · have hany' : (assembleFrom 0 as).mapping.any (isDisp n t) = false := by simpa using hany
      rw [← hflow n t, any_eq_false_filter _ _ hany']
      simp
  · intro h p hp
    obtain ⟨t, n⟩ := p
    have := (mem_nodalPairs_iff _ _ _ _ t n).mp hp
    exact (hsat n t).mpr (h n this.2.1 t)

/-- **composition principle** (lemma form) -/
theorem feasible_iff (as : List AssetProblem) (gridI : List Nat) (skip : List String)
    (hl : ∀ a ∈ as, a.l.length = a.n ∧ a.u.length = a.n)
    (hdisp : ∀ a ∈ as, ∀ m ∈ a.mapping, ∀ n, m.kind = .d → m.node = some n → n ∈ a.nodes ∧ m.step ∈ gridI)
    (x : Vec) :
    (assemble as gridI skip).FeasibleRelaxed x ↔
      (∀ i, (h : i < as.length) → (as[i]).FeasibleRelaxed (fun j => x (blockOffset as i + j))) ∧
      (∀ n, n ∉ skip → ∀ t, ((List.range as.length).map fun i =>
        flowOf (as.getD i default) n t (fun j => x (blockOffset as i + j))).sum = 0) := by
  rw [← nodal_rows_iff as gridI skip hdisp x, ← assembleFrom_feasibleRelaxed as hl x]
  unfold Problem.FeasibleRelaxed
  rw [assemble_rows, assemble_l, assemble_u]
  simp only [List.forall_mem_append, List.forall_mem_map, and_assoc]

theorem value_eq (as : List AssetProblem) (gridI : List Nat) (skip : List String) (x : Vec) :
    (assemble as gridI skip).value x =
      ((List.range as.length).map fun i =>
        - costAt (as.getD i default).c 0 (fun j => x (blockOffset as i + j))).sum := by
  unfold Problem.value
  rw [assemble_c, assembleFrom_cost as 0 x, ← sum_map_neg]
  simp only [Nat.zero_add]

/-! ### the quantities of one block only read the block -/

theorem eval_congr (r : Row) (n : Nat) (hc : ∀ p ∈ r.coeffs, p.1 < n) (y y' : Vec)
    (h : ∀ j, j < n → y j = y' j) : r.eval y = r.eval y' := by
  unfold Row.eval
  congr 1
  apply List.map_congr_left
  intro p hp
  rw [h p.1 (hc p hp)]

theorem sat_congr (r : Row) (n : Nat) (hc : ∀ p ∈ r.coeffs, p.1 < n) (y y' : Vec)
    (h : ∀ j, j < n → y j = y' j) : r.Sat y ↔ r.Sat y' := by
  unfold Row.Sat
  rw [eval_congr r n hc y y' h]

theorem inBounds_congr (l u : List Rat) (y y' : Vec) (h : ∀ j, j < l.length → y j = y' j) :
    InBounds l u y ↔ InBounds l u y' := by
  unfold InBounds
  constructor
  · intro hb j hj; rw [← h j hj]; exact hb j hj
  · intro hb j hj; rw [h j hj]; exact hb j hj

theorem feasibleRelaxed_congr (a : AssetProblem) (hl : a.l.length = a.n)
    (hc : ∀ r ∈ a.rows, ∀ p ∈ r.coeffs, p.1 < a.n) (y y' : Vec) (h : ∀ j, j < a.n → y j = y' j) :
    a.FeasibleRelaxed y ↔ a.FeasibleRelaxed y' := by
  unfold AssetProblem.FeasibleRelaxed
  rw [inBounds_congr a.l a.u y y' (fun j hj => h j (hl ▸ hj))]
  constructor
  · rintro ⟨h1, h2⟩
    exact ⟨h1, fun r hr => (sat_congr r a.n (hc r hr) y y' h).mp (h2 r hr)⟩
  · rintro ⟨h1, h2⟩
    exact ⟨h1, fun r hr => (sat_congr r a.n (hc r hr) y y' h).mpr (h2 r hr)⟩

theorem flowOf_congr (a : AssetProblem) (hv : ∀ m ∈ a.mapping, m.kind = .d → m.var < a.n)
    (n : String) (t : Nat) (y y' : Vec) (h : ∀ j, j < a.n → y j = y' j) :
    flowOf a n t y = flowOf a n t y' := by
  unfold flowOf
  congr 1
  apply List.map_congr_left
  intro m hm
  obtain ⟨hm1, hm2⟩ := List.mem_filter.mp hm
  unfold MapRow.contrib
  rw [h m.var (hv m hm1 ((isDisp_iff n t m).mp hm2).1)]

theorem cost_congr (a : AssetProblem) (y y' : Vec) (h : ∀ j, j < a.n → y j = y' j) :
    costAt a.c 0 y = costAt a.c 0 y' := by
  apply costAt_congr
  intro j hj
  rw [Nat.zero_add]
  exact h j hj

/-! ### cutting a point into blocks and gluing blocks together -/

/-- the list of (asset, its block of `x`) -/
def pieces (as : List AssetProblem) (x : Vec) : List (AssetProblem × Vec) :=
  (List.range as.length).map fun i => (as.getD i default, fun j => x (blockOffset as i + j))

/-- the point whose consecutive blocks are the given ones -/
def glue : List (AssetProblem × Vec) → Vec
  | [] => fun _ => 0
  | p :: L => fun j => if j < p.1.n then p.2 j else glue L (j - p.1.n)

theorem getD_of_lt {α} (l : List α) (i : Nat) (d : α) (h : i < l.length) : l.getD i d = l[i] := by
  simp [List.getD_eq_getElem?_getD, h]

theorem pieces_length (as : List AssetProblem) (x : Vec) : (pieces as x).length = as.length := by
  simp [pieces]

theorem pieces_getElem (as : List AssetProblem) (x : Vec) (i : Nat) (h : i < (pieces as x).length) :
    (pieces as x)[i] = (as.getD i default, fun j => x (blockOffset as i + j)) := by
  simp [pieces]

theorem pieces_map_fst (as : List AssetProblem) (x : Vec) : (pieces as x).map (·.1) = as := by
  apply List.ext_getElem
  · simp [pieces]
  · intro i h1 h2
    simp [pieces, h2]

theorem mem_pieces (as : List AssetProblem) (x : Vec) (p : AssetProblem × Vec) (hp : p ∈ pieces as x) :
    ∃ i, ∃ h : i < as.length, p = (as[i], fun j => x (blockOffset as i + j)) := by
  obtain ⟨i, hi, rfl⟩ := List.mem_map.mp hp
  have hi' := List.mem_range.mp hi
  exact ⟨i, hi', by rw [getD_of_lt as i default hi']⟩

/-- sums over the blocks of `x` are sums over `pieces` -/
theorem sum_pieces (g : AssetProblem → Vec → Rat) (as : List AssetProblem) (x : Vec) :
    ((List.range as.length).map fun i => g (as.getD i default) (fun j => x (blockOffset as i + j))).sum
      = ((pieces as x).map fun p => g p.1 p.2).sum := by
  unfold pieces
  rw [List.map_map]
  rfl

/-- block `i` of the glued point is the `i`-th given block -/
theorem glue_block (L : List (AssetProblem × Vec)) (i : Nat) (hi : i < L.length) (j : Nat)
    (hj : j < (L[i]).1.n) : glue L (blockOffset (L.map (·.1)) i + j) = (L[i]).2 j := by
  induction L generalizing i with
  | nil => simp at hi
  | cons p L ih =>
    cases i with
    | zero =>
      have hj' : j < p.1.n := by simpa using hj
      simp [glue, hj']
    | succ i =>
      have := ih i (by simpa using hi) (by simpa using hj)
      simp only [List.map_cons, blockOffset_cons_succ, List.getElem_cons_succ]
      rw [← this]
      have hnot : ¬ (p.1.n + blockOffset (L.map (·.1)) i + j < p.1.n) := by omega
      have hsub : p.1.n + blockOffset (L.map (·.1)) i + j - p.1.n = blockOffset (L.map (·.1)) i + j := by
        omega
      simp only [glue, hnot, if_false, hsub]

/-- a quantity that only reads the own block, evaluated on the blocks of the glued point -/
theorem map_range_glue {γ} (g : AssetProblem → Vec → γ) (L : List (AssetProblem × Vec))
    (hg : ∀ p ∈ L, ∀ y, (∀ j, j < p.1.n → y j = p.2 j) → g p.1 y = g p.1 p.2) :
    ((List.range L.length).map fun i =>
        g ((L.map (·.1)).getD i default) (fun j => glue L (blockOffset (L.map (·.1)) i + j)))
      = L.map fun p => g p.1 p.2 := by
  apply List.ext_getElem
  · simp
  · intro i h1 h2
    have hi : i < L.length := by simpa using h2
    simp only [List.getElem_map, List.getElem_range]
    rw [getD_of_lt _ i default (by simpa using hi), List.getElem_map]
    exact hg (L[i]) (List.getElem_mem hi) _ (fun j hj => glue_block L i hi j hj)

/-! ### permutations -/

theorem sum_perm {l l' : List Rat} (h : l.Perm l') : l.sum = l'.sum := by
  induction h with
  | nil => rfl
  | cons a _ ih => simp only [List.sum_cons, ih]
  | swap a b l => simp only [List.sum_cons]; grind
  | trans _ _ ih1 ih2 => rw [ih1, ih2]

/-- a permutation of the image of a list lifts to a permutation of the list -/
theorem perm_lift {α β} (f : α → β) (L : List α) (l' : List β) (h : (L.map f).Perm l') :
    ∃ L', L.Perm L' ∧ L'.map f = l' := by
  generalize hl : L.map f = l at h
  induction h generalizing L with
  | nil =>
    have : L = [] := by simpa using hl
    exact ⟨[], by rw [this], rfl⟩
  | cons b _ ih =>
    cases L with
    | nil => simp at hl
    | cons a L0 =>
      simp only [List.map_cons, List.cons.injEq] at hl
      obtain ⟨L0', hp, hm⟩ := ih L0 hl.2
      exact ⟨a :: L0', hp.cons a, by simp [hm, hl.1]⟩
  | swap b c l =>
    cases L with
    | nil => simp at hl
    | cons a1 L1 =>
      cases L1 with
      | nil => simp at hl
      | cons a2 L0 =>
        simp only [List.map_cons, List.cons.injEq] at hl
        exact ⟨a2 :: a1 :: L0, List.Perm.swap a2 a1 L0, by simp [hl.1, hl.2.1, hl.2.2]⟩
  | trans _ _ ih1 ih2 =>
    obtain ⟨L1, hp1, hm1⟩ := ih1 L hl
    obtain ⟨L2, hp2, hm2⟩ := ih2 L1 hm1
    exact ⟨L2, hp1.trans hp2, hm2⟩

/-- **permutation** (lemma form): the blocks of a feasible point, glued together in the order of a
    permuted asset list, form a feasible point of the permuted problem with the same value -/
theorem perm_core (as as' : List AssetProblem) (hp : as.Perm as') (gridI : List Nat) (skip : List String)
    (hl : ∀ a ∈ as, a.l.length = a.n ∧ a.u.length = a.n)
    (hdisp : ∀ a ∈ as, ∀ m ∈ a.mapping, ∀ n, m.kind = .d → m.node = some n → n ∈ a.nodes ∧ m.step ∈ gridI)
    (hcols : ∀ a ∈ as, ∀ r ∈ a.rows, ∀ p ∈ r.coeffs, p.1 < a.n)
    (hvars : ∀ a ∈ as, ∀ m ∈ a.mapping, m.kind = .d → m.var < a.n)
    (x : Vec) (hx : (assemble as gridI skip).FeasibleRelaxed x) :
    ∃ x' : Vec, (assemble as' gridI skip).FeasibleRelaxed x' ∧
      (assemble as' gridI skip).value x' = (assemble as gridI skip).value x ∧
      ∃ π : Nat → Nat, ∀ i, i < as.length → π i < as'.length ∧
        as'.getD (π i) default = as.getD i default ∧
        ∀ j, j < (as.getD i default).n →
          x' (blockOffset as' (π i) + j) = x (blockOffset as i + j) := by
  obtain ⟨L', hL, hmap⟩ := perm_lift (·.1) (pieces as x) as' (by rw [pieces_map_fst]; exact hp)
  have hmemL : ∀ p ∈ L', p.1 ∈ as := by
    intro p hp'
    have : p.1 ∈ L'.map (·.1) := List.mem_map.mpr ⟨p, hp', rfl⟩
    rw [hmap] at this
    exact hp.mem_iff.mpr this
  have hmem' : ∀ a ∈ as', a ∈ as := fun a ha => hp.mem_iff.mpr ha
  have hlen : as'.length = L'.length := by rw [← hmap]; simp
  obtain ⟨hfeas, hbal⟩ := (feasible_iff as gridI skip hl hdisp x).mp hx
  refine ⟨glue L', ?_, ?_, ?_⟩
  · rw [feasible_iff as' gridI skip (fun a ha => hl a (hmem' a ha)) (fun a ha => hdisp a (hmem' a ha))]
    subst hmap
    constructor
    · intro i hi
      have hi' : i < L'.length := by simpa using hi
      have hpi : L'[i] ∈ L' := List.getElem_mem hi'
      have hai := hmemL _ hpi
      rw [List.getElem_map]
      rw [feasibleRelaxed_congr (L'[i]).1 (hl _ hai).1 (hcols _ hai) _ (L'[i]).2
        (fun j hj => glue_block L' i hi' j hj)]
      obtain ⟨k, hk, he⟩ := mem_pieces as x _ (hL.mem_iff.mpr hpi)
      rw [he]
      exact hfeas k hk
    · intro n hs t
      rw [List.length_map, map_range_glue (fun a y => flowOf a n t y) L'
        (fun p hp' y hy => flowOf_congr p.1 (hvars _ (hmemL p hp')) n t y p.2 hy)]
      rw [← sum_perm (hL.map fun p => flowOf p.1 n t p.2), ← sum_pieces (fun a y => flowOf a n t y)]
      exact hbal n hs t
  · rw [value_eq, value_eq]
    subst hmap
    rw [List.length_map, map_range_glue (fun a y => - costAt a.c 0 y) L'
      (fun p _ y hy => by rw [cost_congr p.1 y p.2 hy])]
    rw [← sum_perm (hL.map fun p => - costAt p.1.c 0 p.2), ← sum_pieces (fun a y => - costAt a.c 0 y)]
  · have hex : ∀ i, ∃ k, i < as.length → k < as'.length ∧
        as'.getD k default = as.getD i default ∧
        ∀ j, j < (as.getD i default).n →
          glue L' (blockOffset as' k + j) = x (blockOffset as i + j) := by
      intro i
      by_cases hi : i < as.length
      · have hi' : i < (pieces as x).length := by rw [pieces_length]; exact hi
        have hmem : (pieces as x)[i] ∈ L' := hL.mem_iff.mp (List.getElem_mem hi')
        obtain ⟨k, hk, hke⟩ := List.getElem_of_mem hmem
        rw [pieces_getElem] at hke
        refine ⟨k, fun _ => ⟨by omega, ?_, ?_⟩⟩
        · subst hmap
          rw [getD_of_lt _ k default (by simpa using hk), List.getElem_map, hke]
        · intro j hj
          subst hmap
          have := glue_block L' k hk j (by rw [hke]; exact hj)
          rw [this, hke]
      · exact ⟨0, fun h => absurd h hi⟩
    obtain ⟨π, hπ⟩ := Classical.axiomOfChoice hex
    exact ⟨π, hπ⟩

end EAO.Perm
