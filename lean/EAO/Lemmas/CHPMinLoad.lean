import EAO.Model.CHPMinLoad
/-!
# EAO.Lemmas.CHPMinLoad — the rows `CHPAsset_with_min_load_costs` adds (`EAO.Model.CHPMinLoad`)

* reading of a generated row (`minLoadRow_sat_on`, `minLoadRow_sat_noon`);
* what `addMinLoad` returns (`addMinLoad_ok`), the generated row of every power-dispatch mapping row with its
  variables identified through the mapping (`minLoad_row_of_disp`) and its reading at a feasible point
  (`min_load_flag`);
* the property level: the 0/1 flag is forced to 1 exactly when the unit is on and the power is below the
  threshold (`flag_forced_on`, `flag_forced_noon`); otherwise it is free (`flag_free_*`), and flag 1 is ALWAYS
  accepted (`flag_one_always_ok_*`) — only its cost keeps it at 0;
* when nothing is added (`buildMinLoad_cases`, `_empty_window`, `_no_costs`, `_no_threshold`, `_negative`);
* the mapping rows added (`addMinLoad_steps`);
* a kernel-evaluated instance (`ex_build` …).
-/
namespace EAO.CHPMinLoad
open EAO

/-! ## reading of a row -/

theorem minLoadRow_sat_on (d b o : MapRow) (th : Rat) (x : Vec) :
    (minLoadRow d b (some o) th).Sat x ↔ th * (x o.var - x b.var) ≤ x d.var := by
  simp [minLoadRow, Row.Sat, Row.eval]; grind

theorem minLoadRow_sat_noon (d b : MapRow) (th : Rat) (x : Vec) :
    (minLoadRow d b none th).Sat x ↔ th * (1 - x b.var) ≤ x d.var := by
  simp [minLoadRow, Row.Sat, Row.eval]; grind

/-! ## what `addMinLoad` returns -/

/-- the mapping after the threshold booleans are appended -/
abbrev newMap (a : AssetProblem) (g : Grid) : List MapRow :=
  a.mapping ++ thrRows a.name g.idx (nextVar a.mapping)
abbrev mapDisp (a : AssetProblem) (g : Grid) : List MapRow := powerDispRows (a.nodes.getD 0 "") (newMap a g)
abbrev mapBool (a : AssetProblem) (g : Grid) : List MapRow := thrBoolRows (newMap a g)
abbrev mapOn (a : AssetProblem) (g : Grid) : List MapRow := onBoolRows (newMap a g)

theorem addMinLoad_ok {a P : AssetProblem} {g : Grid} {thr costs : List Rat}
    (h : addMinLoad a g thr costs = .ok P) :
    P.name = a.name ∧ P.nodes = a.nodes ∧ P.c = a.c ++ costs ∧ P.l = a.l ++ List.replicate g.T 0 ∧
    P.u = a.u ++ List.replicate g.T 1 ∧ P.mapping = newMap a g ∧
    P.rows = a.rows ++ (mapDisp a g).filterMap (minLoadRowAt (mapDisp a g) (mapBool a g) (mapOn a g) g.idx thr) ∧
    (mapDisp a g).length = (mapBool a g).length ∧
    ∀ m ∈ mapDisp a g, (minLoadRowAt (mapDisp a g) (mapBool a g) (mapOn a g) g.idx thr m).isSome := by
  unfold addMinLoad at h
  simp only [bind, Except.bind, pure, Except.pure] at h
  split at h
  · simp [throw, throwThe, MonadExceptOf.throw] at h
  · rename_i h1
    split at h
    · simp [throw, throwThe, MonadExceptOf.throw] at h
    · rename_i h2
      injection h with h; subst h
      simp only [List.all_eq_true, ne_eq, Decidable.not_not] at h1 h2
      exact ⟨rfl, rfl, rfl, rfl, rfl, rfl, rfl, h1, h2⟩

theorem firstAt_some {l : List MapRow} {t : Nat} {d : MapRow} (h : firstAt l t = some d) :
    d ∈ l ∧ d.step = t := by
  unfold firstAt at h
  exact ⟨List.mem_of_find?_eq_some h, by simpa using List.find?_some h⟩

theorem minLoadRowAt_isSome {mD mB mO : List MapRow} {idx : List Nat} {thr : List Rat} {m : MapRow}
    (h : (minLoadRowAt mD mB mO idx thr m).isSome) :
    ∃ d b, firstAt mD m.step = some d ∧ firstAt mB m.step = some b ∧
      ((mO = [] ∧ minLoadRowAt mD mB mO idx thr m = some (minLoadRow d b none (thr.getD (idx.idxOf m.step) 0))) ∨
       (∃ o, mO ≠ [] ∧ firstAt mO m.step = some o ∧
          minLoadRowAt mD mB mO idx thr m = some (minLoadRow d b (some o) (thr.getD (idx.idxOf m.step) 0)))) := by
  unfold minLoadRowAt at h ⊢
  cases hd : firstAt mD m.step with
  | none => simp [hd] at h
  | some d =>
    cases hb : firstAt mB m.step with
    | none => simp [hd, hb] at h
    | some b =>
      refine ⟨d, b, rfl, rfl, ?_⟩
      simp only [hd, hb] at h ⊢
      by_cases he : mO = []
      · left; simp [he]
      · right
        have he' : mO.isEmpty = false := by simpa using he
        simp only [he'] at h ⊢
        cases ho : firstAt mO m.step with
        | none => simp [ho] at h
        | some o => exact ⟨o, he, rfl, by simp⟩

theorem minLoad_row_of_disp {a P : AssetProblem} {g : Grid} {thr costs : List Rat}
    (h : addMinLoad a g thr costs = .ok P) {m : MapRow} (hm : m ∈ mapDisp a g) :
    ∃ d b, firstAt (mapDisp a g) m.step = some d ∧ firstAt (mapBool a g) m.step = some b ∧
      d ∈ mapDisp a g ∧ d.step = m.step ∧ b ∈ mapBool a g ∧ b.step = m.step ∧
      ((mapOn a g = [] ∧ minLoadRow d b none (thr.getD (g.idx.idxOf m.step) 0) ∈ P.rows) ∨
       (∃ o, mapOn a g ≠ [] ∧ firstAt (mapOn a g) m.step = some o ∧ o ∈ mapOn a g ∧ o.step = m.step ∧
             minLoadRow d b (some o) (thr.getD (g.idx.idxOf m.step) 0) ∈ P.rows)) := by
  obtain ⟨-, -, -, -, -, -, hrows, -, hall⟩ := addMinLoad_ok h
  obtain ⟨d, b, hd, hb, hcase⟩ := minLoadRowAt_isSome (hall m hm)
  have hmem : ∀ r, minLoadRowAt (mapDisp a g) (mapBool a g) (mapOn a g) g.idx thr m = some r → r ∈ P.rows := by
    intro r hr
    rw [hrows]
    exact List.mem_append_right _ (List.mem_filterMap.mpr ⟨m, hm, hr⟩)
  refine ⟨d, b, hd, hb, (firstAt_some hd).1, (firstAt_some hd).2, (firstAt_some hb).1, (firstAt_some hb).2, ?_⟩
  rcases hcase with ⟨he, hr⟩ | ⟨o, he, ho, hr⟩
  · exact Or.inl ⟨he, hmem _ hr⟩
  · exact Or.inr ⟨o, he, ho, (firstAt_some ho).1, (firstAt_some ho).2, hmem _ hr⟩

/-! ## property-level reading -/

/-- on, power below a positive threshold ⇒ the (0/1) boolean is 1
    (`hth` is kept for the reading; the conclusion does not need it) -/
theorem flag_forced_on {d b o : MapRow} {th : Rat} {x : Vec} (hs : (minLoadRow d b (some o) th).Sat x)
    (hth : 0 < th) (hon : x o.var = 1) (hlow : x d.var < th) (hb : x b.var = 0 ∨ x b.var = 1) :
    x b.var = 1 := by
  rw [minLoadRow_sat_on] at hs
  have _ := hth
  rcases hb with hb | hb
  · rw [hon, hb] at hs; grind
  · exact hb

theorem flag_forced_noon {d b : MapRow} {th : Rat} {x : Vec} (hs : (minLoadRow d b none th).Sat x)
    (hth : 0 < th) (hlow : x d.var < th) (hb : x b.var = 0 ∨ x b.var = 1) : x b.var = 1 := by
  rw [minLoadRow_sat_noon] at hs
  have _ := hth
  rcases hb with hb | hb
  · rw [hb] at hs; grind
  · exact hb

/-- the boolean MAY be 0 when the unit is off (non-negative dispatch) or at/above the threshold -/
theorem flag_free_when_off {d b o : MapRow} {th : Rat} {x : Vec} (hb : x b.var = 0) (hoff : x o.var = 0)
    (hd : 0 ≤ x d.var) : (minLoadRow d b (some o) th).Sat x := by
  rw [minLoadRow_sat_on, hb, hoff]; grind

theorem flag_free_above_on {d b o : MapRow} {th : Rat} {x : Vec} (hb : x b.var = 0) (hth : 0 ≤ th)
    (ho : x o.var ≤ 1) (hd : th ≤ x d.var) : (minLoadRow d b (some o) th).Sat x := by
  rw [minLoadRow_sat_on, hb]
  have := Rat.mul_le_mul_of_nonneg_left ho hth
  grind

theorem flag_free_above_noon {d b : MapRow} {th : Rat} {x : Vec} (hb : x b.var = 0) (hd : th ≤ x d.var) :
    (minLoadRow d b none th).Sat x := by
  rw [minLoadRow_sat_noon, hb]; grind

/-- NOT enforced: flag 1 although above the threshold (or off) is always accepted by the row — it only costs
    money -/
theorem flag_one_always_ok_on {d b o : MapRow} {th : Rat} {x : Vec} (hb : x b.var = 1) (hth : 0 ≤ th)
    (ho : x o.var ≤ 1) (hd : 0 ≤ x d.var) : (minLoadRow d b (some o) th).Sat x := by
  rw [minLoadRow_sat_on, hb]
  have := Rat.mul_le_mul_of_nonneg_left ho hth
  grind

theorem flag_one_always_ok_noon {d b : MapRow} {th : Rat} {x : Vec} (hb : x b.var = 1) (hd : 0 ≤ x d.var) :
    (minLoadRow d b none th).Sat x := by
  rw [minLoadRow_sat_noon, hb]; grind

theorem min_load_flag {a P : AssetProblem} {g : Grid} {thr costs : List Rat}
    (h : addMinLoad a g thr costs = .ok P) {x : Vec} (hx : P.FeasibleRelaxed x) {m : MapRow}
    (hm : m ∈ mapDisp a g) :
    ∃ d b, firstAt (mapDisp a g) m.step = some d ∧ firstAt (mapBool a g) m.step = some b ∧
      let th := thr.getD (g.idx.idxOf m.step) 0
      ((mapOn a g = [] ∧ th * (1 - x b.var) ≤ x d.var) ∨
       (∃ o, firstAt (mapOn a g) m.step = some o ∧ th * (x o.var - x b.var) ≤ x d.var)) := by
  obtain ⟨d, b, hd, hb, -, -, -, -, hcase⟩ := minLoad_row_of_disp h hm
  refine ⟨d, b, hd, hb, ?_⟩
  rcases hcase with ⟨he, hr⟩ | ⟨o, -, ho, -, -, hr⟩
  · exact Or.inl ⟨he, (minLoadRow_sat_noon ..).mp (hx.2 _ hr)⟩
  · exact Or.inr ⟨o, ho, (minLoadRow_sat_on ..).mp (hx.2 _ hr)⟩


/-! ## when nothing is added -/

theorem buildMinLoad_inv {q : MinLoadP} {a : AssetProblem} {g : Grid} {prices : Prices} {P : AssetProblem}
    (h : buildMinLoad q a g prices = .ok P) :
    P = a ∨ ∃ t c, g.T ≠ 0 ∧ optVec q.threshold g prices = .ok (some t) ∧ optVec q.costs g prices = .ok (some c) ∧
      t.any (fun v => decide (0 ≤ v)) = true ∧ c.any (fun v => decide (0 ≤ v)) = true ∧
      addMinLoad a g t c = .ok P := by
  unfold buildMinLoad at h
  simp only [bind, Except.bind, pure, Except.pure] at h
  split at h
  · injection h with h; exact Or.inl h.symm
  · rename_i hT
    split at h
    · cases h
    · rename_i tv htv
      split at h
      · cases h
      · rename_i cv hcv
        split at h
        · injection h with h; exact Or.inl h.symm
        · rename_i t c hact
          refine Or.inr ⟨t, c, hT, ?_, ?_, ?_, ?_, h⟩
          all_goals
            unfold minLoadActive at hact
            split at hact
            · split at hact
              · rename_i hh
                injection hact with hact
                injection hact with h1 h2
                subst h1; subst h2
                first | assumption | exact hh.1 | exact hh.2
              · cases hact
            · cases hact

theorem buildMinLoad_cases {q : MinLoadP} {a : AssetProblem} {g : Grid} {prices : Prices} {P : AssetProblem}
    (h : buildMinLoad q a g prices = .ok P) :
    P = a ∨ ∃ t c, g.T ≠ 0 ∧ addMinLoad a g t c = .ok P := by
  rcases buildMinLoad_inv h with h | ⟨t, c, hT, -, -, -, -, h⟩
  · exact Or.inl h
  · exact Or.inr ⟨t, c, hT, h⟩

theorem buildMinLoad_empty_window {q : MinLoadP} {a : AssetProblem} {g : Grid} {prices : Prices}
    {P : AssetProblem} (hT : g.T = 0) (h : buildMinLoad q a g prices = .ok P) : P = a := by
  rcases buildMinLoad_inv h with h | ⟨t, c, hT', -⟩
  · exact h
  · exact absurd hT hT'

theorem buildMinLoad_no_costs {q : MinLoadP} {a : AssetProblem} {g : Grid} {prices : Prices}
    {P : AssetProblem} (hc : q.costs = none) (h : buildMinLoad q a g prices = .ok P) : P = a := by
  rcases buildMinLoad_inv h with h | ⟨t, c, -, -, h2, -⟩
  · exact h
  · rw [hc] at h2; simp [optVec, pure, Except.pure] at h2

theorem buildMinLoad_no_threshold {q : MinLoadP} {a : AssetProblem} {g : Grid} {prices : Prices}
    {P : AssetProblem} (hc : q.threshold = none) (h : buildMinLoad q a g prices = .ok P) : P = a := by
  rcases buildMinLoad_inv h with h | ⟨t, c, -, h1, -⟩
  · exact h
  · rw [hc] at h1; simp [optVec, pure, Except.pure] at h1

/-- nothing is added either when all thresholds or all costs are negative -/
theorem buildMinLoad_negative {q : MinLoadP} {a : AssetProblem} {g : Grid} {prices : Prices}
    {P : AssetProblem} {t c : List Rat} (ht : optVec q.threshold g prices = .ok (some t))
    (hc : optVec q.costs g prices = .ok (some c)) (hneg : (∀ v ∈ t, v < 0) ∨ (∀ v ∈ c, v < 0))
    (h : buildMinLoad q a g prices = .ok P) : P = a := by
  rcases buildMinLoad_inv h with h | ⟨t', c', -, h1, h2, h3, h4, -⟩
  · exact h
  · rw [ht] at h1; rw [hc] at h2
    injection h1 with h1; injection h1 with h1; subst h1
    injection h2 with h2; injection h2 with h2; subst h2
    simp only [List.any_eq_true, decide_eq_true_eq] at h3 h4
    obtain ⟨v, hv, hv0⟩ := h3
    obtain ⟨w, hw, hw0⟩ := h4
    rcases hneg with hn | hn
    · have := hn v hv; grind
    · have := hn w hw; grind

/-! ## mapping rows -/

theorem mem_thrRows {name : String} {idx : List Nat} {off : Nat} {m : MapRow} (h : m ∈ thrRows name idx off) :
    m.step ∈ idx ∧ m.varName = "bool_threshhold" ∧ m.isBool = true ∧ m.node = none ∧ m.kind = VarKind.i ∧
      m.asset = name := by
  simp only [thrRows, List.mem_map] at h
  obtain ⟨⟨t, i⟩, hti, rfl⟩ := h
  obtain ⟨hi, ht⟩ := List.mem_zipIdx' hti
  refine ⟨?_, rfl, rfl, rfl, rfl, rfl⟩
  simp [ht]


theorem addMinLoad_steps {a P : AssetProblem} {g : Grid} {thr costs : List Rat}
    (h : addMinLoad a g thr costs = .ok P) :
    ∀ m ∈ P.mapping, m ∈ a.mapping ∨
      (m.step ∈ g.idx ∧ m.varName = "bool_threshhold" ∧ m.isBool = true ∧ m.node = none ∧ m.kind = VarKind.i ∧
        m.asset = a.name) := by
  obtain ⟨-, -, -, -, -, hmap, -⟩ := addMinLoad_ok h
  intro m hm
  rw [hmap] at hm
  rcases List.mem_append.mp hm with hm | hm
  · exact Or.inl hm
  · exact Or.inr (mem_thrRows hm)
/-! ## a kernel-evaluated instance -/

def exA : AssetProblem :=
  { name := "p", nodes := ["el"], c := [0, 0, 0, 0], l := [0, 0, 0, 0], u := [10, 10, 1, 1], rows := [],
    mapping :=
      [ { var := 0, asset := "p", node := some "el", kind := .d, step := 3, factor := 1, isBool := false, varName := "disp" },
        { var := 1, asset := "p", node := some "el", kind := .d, step := 4, factor := 1, isBool := false, varName := "disp" },
        { var := 2, asset := "p", node := none, kind := .i, step := 3, factor := 1, isBool := true, varName := "bool_on" },
        { var := 3, asset := "p", node := none, kind := .i, step := 4, factor := 1, isBool := true, varName := "bool_on" } ] }

def exG : Grid := { pts := [0, 3600], idx := [3, 4], dt := [1, 1], Dt := [1, 2], df := [1, 1] }

def exP : AssetProblem :=
  { name := "p", nodes := ["el"], c := [0, 0, 0, 0, 7, 7], l := [0, 0, 0, 0, 0, 0], u := [10, 10, 1, 1, 1, 1],
    rows := [ { coeffs := [(0, 1), (4, 4), (2, -4)], rhs := 0, kind := .L },
              { coeffs := [(1, 1), (5, 4), (3, -4)], rhs := 0, kind := .L } ],
    mapping := exA.mapping ++
      [ { var := 4, asset := "p", node := none, kind := .i, step := 3, factor := 1, isBool := true, varName := "bool_threshhold" },
        { var := 5, asset := "p", node := none, kind := .i, step := 4, factor := 1, isBool := true, varName := "bool_threshhold" } ] }


local instance decEqRow : DecidableEq Row := fun r s =>
  decidable_of_iff (r.coeffs = s.coeffs ∧ r.rhs = s.rhs ∧ r.kind = s.kind) (by cases r; cases s; simp)

local instance decEqAssetProblem : DecidableEq AssetProblem := fun p q =>
  decidable_of_iff (p.name = q.name ∧ p.nodes = q.nodes ∧ p.c = q.c ∧ p.l = q.l ∧ p.u = q.u ∧ p.rows = q.rows ∧
    p.mapping = q.mapping) (by cases p; cases q; simp)

local instance decEqOk {ε α} [DecidableEq α] (e : Except ε α) (v : α) : Decidable (e = .ok v) :=
  match e with
  | .ok w => decidable_of_iff (w = v) ⟨fun h => by rw [h], fun h => by injection h⟩
  | .error _ => isFalse (by intro h; cases h)

theorem ex_build : addMinLoad exA exG [4, 4] [7, 7] = .ok exP := by decide +kernel

def pt (l : List Rat) : Vec := fun j => l.getD j 0

/-- on at both steps, power 2 < 4 at the first step, flag 0: not feasible -/
theorem ex_low_noflag_infeasible : ¬ exP.FeasibleRelaxed (pt [2, 6, 1, 1, 0, 0]) := by
  unfold AssetProblem.FeasibleRelaxed InBounds
  decide +kernel

theorem ex_low_flag_feasible : exP.FeasibleRelaxed (pt [2, 6, 1, 1, 1, 0]) := by
  unfold AssetProblem.FeasibleRelaxed InBounds
  decide +kernel

/-- flag 1 above the threshold is accepted -/
theorem ex_high_flag_feasible : exP.FeasibleRelaxed (pt [2, 6, 1, 1, 1, 1]) := by
  unfold AssetProblem.FeasibleRelaxed InBounds
  decide +kernel

/-- off with flag 0 -/
theorem ex_off_noflag_feasible : exP.FeasibleRelaxed (pt [0, 6, 0, 1, 0, 0]) := by
  unfold AssetProblem.FeasibleRelaxed InBounds
  decide +kernel


/-- the hypotheses of `minLoad_row_of_disp` / `min_load_flag` are met on the instance -/
example : (mapDisp exA exG).length = 2 ∧ (mapBool exA exG).length = 2 ∧ (mapOn exA exG).length = 2 := by
  decide +kernel

example : buildMinLoad ⟨some (.scalar 4), some (.scalar 7)⟩ exA exG [] = .ok exP := by decide +kernel
example : buildMinLoad ⟨some (.scalar 4), none⟩ exA exG [] = .ok exA := by decide +kernel
example : buildMinLoad ⟨some (.scalar (-4)), some (.scalar 7)⟩ exA exG [] = .ok exA := by decide +kernel

/-
`#print axioms` (scratch file importing the built module):
'EAO.CHPMinLoad.min_load_flag' depends on axioms: [propext, Classical.choice, Quot.sound]
'EAO.CHPMinLoad.flag_forced_on' depends on axioms: [propext, Classical.choice, Quot.sound]
'EAO.CHPMinLoad.buildMinLoad_cases' depends on axioms: [propext, Classical.choice, Quot.sound]
(all other theorems of this file: a subset of these three; `addMinLoad_ok`, `minLoad_row_of_disp`,
`addMinLoad_steps`, `ex_build`: [propext, Quot.sound])
-/

end EAO.CHPMinLoad
