import EAO.Properties.C16Builders
import EAO.Lemmas.WrapWindow
/-!
helper lemmas for `EAO/Properties/C16Window.lean`: a wrapper WITH a window against the flat portfolio with clipped windows.

* the window side: the problem a wrapper builds for a wrapped object is the problem the SAME object builds on its own when
  its `start` / `end` are set to the intersection (`FlatOf`, `buildTop_flatOf`, `buildList_flat`); the dates a user writes
  for the flat asset (`flatWinD`: Python's `max` / `min` of the two pairs of dates) stand for that intersection;
* the flat side, on finished problems: the structured asset at ANY position of the portfolio (`outer ++ [structured] ++ rest`),
  integrality (`boolVars`), nodal rows at outer nodes, dispatch of the outer assets and of the wrapper;
* full flattening: `flattenAll` (every structure opened at any depth, scaled assets stay objects), the tree-level condition
  `treeSepOk`, and `flattenAll_same` (induction over the object tree on `structured_flat_same`).
-/
namespace EAO.StructWinFlat
open EAO EAO.Scaled EAO.Structured EAO.WrapWindow EAO.C16 EAO.ScaleBuild

variable {ε : Type}

/-- two lists of the same length whose entries are related position by position -/
inductive ListRel {α β : Type} (R : α → β → Prop) : List α → List β → Prop
  | nil : ListRel R [] []
  | cons {a b as bs} : R a b → ListRel R as bs → ListRel R (a :: as) (b :: bs)

/-! ## the window side -/

/-- `buildTree` does not read the `start` / `end` attributes of the object it is called on (only the current window) -/
theorem buildTree_setWin (env : Env) (c : WTree ε) (w : WinD) (cur : Win) :
    buildTree env (c.setWin w) cur = buildTree env c cur := by
  cases c <;> simp only [WTree.setWin] <;> rw [buildTree, buildTree]

/-- `f` is the wrapped object `c` taken out of a wrapper whose current window is `W`: the same object (same builder, same
    wrapped objects) whose `start` / `end` are dates standing for the intersection of its own window with `W` -/
def FlatOf (env : Env) (W : Win) (c f : WTree ε) : Prop :=
  ∃ wf : WinD, f = c.setWin wf ∧ env.winI wf = clip (env.winI c.win) W

/-- the flat object, set up on its own, builds what the wrapper builds for the wrapped object -/
theorem buildTop_flatOf (env : Env) (W : Win) (c f : WTree ε) (h : FlatOf env W c f) :
    buildTop env f = buildTree env c (clip (env.winI c.win) W) := by
  obtain ⟨wf, rfl, hw⟩ := h
  unfold buildTop
  rw [win_setWin, buildTree_setWin, hw]

/-- the inner portfolio's loop succeeds with the problems `ps` iff the flat objects build exactly `ps`, one by one -/
theorem buildList_flat (env : Env) (W : Win) {inner flat : List (WTree ε)}
    (h : ListRel (FlatOf env W) inner flat) (ps : List AssetProblem) :
    buildList env inner W = .ok ps ↔ ListRel (fun f q => buildTop env f = .ok q) flat ps := by
  induction h generalizing ps with
  | nil =>
    rw [buildList]
    constructor
    · intro h; cases h; exact .nil
    · intro h; cases h; rfl
  | cons hc hr ih =>
    rename_i c f cs fs
    rw [buildList, ← buildTop_flatOf env W c f hc]
    cases hf : buildTop env f with
    | error e =>
      simp only
      constructor
      · intro h; cases h
      · intro h
        cases h with
        | cons h1 _ => rw [hf] at h1; cases h1
    | ok P =>
      simp only
      cases hl : buildList env cs W with
      | error e =>
        simp only
        constructor
        · intro h; cases h
        · intro h
          cases h with
          | cons h1 h2 => have := (ih _).mpr h2; rw [hl] at this; cases this
      | ok qs =>
        simp only
        constructor
        · intro h; cases h; exact .cons hf ((ih _).mp hl)
        · intro h
          cases h with
          | cons h1 h2 =>
            rw [hf] at h1; cases h1
            have := (ih _).mpr h2; rw [hl] at this; cases this; rfl

/-- the dates of the flat asset as a user computes them from the two pairs of dates: the later start, the earlier end
    (Python's `max` / `min` on `pd.Timestamp`s; a side only one gives is taken from that one); `none` = the `TypeError` of a
    comparison across zone-aware / naive -/
def flatWinD (own wrapper : WinD) : Option WinD :=
  match clipStartD own.1 wrapper.1, clipStopD own.2 wrapper.2 with
  | some s, some e => some (s, e)
  | _, _ => none

theorem flatOf_literal (env : Env) (hm : MonoLoc env) (c : WTree ε) (W wf : WinD) (h : flatWinD c.win W = some wf) :
    FlatOf env (env.winI W) c (c.setWin wf) := by
  refine ⟨wf, rfl, ?_⟩
  unfold flatWinD at h
  split at h
  · rename_i s e hs he
    cases h
    exact clipD_winI env hm c.win W s e hs he
  · cases h

/-- the list form: flat objects with the literally computed dates -/
theorem flatOf_literal_list (env : Env) (hm : MonoLoc env) (W : WinD) :
    ∀ (inner : List (WTree ε)) (wfs : List WinD),
      ListRel (fun c wf => flatWinD c.win W = some wf) inner wfs →
      ListRel (FlatOf env (env.winI W)) inner (setWins inner wfs)
  | [], _, h => by cases h; exact .nil
  | c :: cs, _, h => by
    cases h with
    | cons h1 h2 =>
      rw [setWins]
      exact .cons (flatOf_literal env hm c W _ h1) (flatOf_literal_list env hm W cs _ h2)

/-! ## integrality: which variables are boolean -/

/-- what `boolVars` reads of a mapping row -/
def bkey (m : MapRow) : Nat × Bool := (m.var, m.isBool)

theorem structuredMapRow_isBool (name : String) (ext : List String) (m : MapRow) :
    (structuredMapRow name ext m).isBool = m.isBool := by
  unfold structuredMapRow
  by_cases hv : (m.varName == "nan") = true <;> simp only [hv, if_true, Bool.false_eq_true, if_false] <;>
    cases hn : m.node <;> simp only [] <;> (try split) <;> rfl

theorem bkey_smr (name : String) (ext : List String) (m : MapRow) : bkey (structuredMapRow name ext m) = bkey m := by
  unfold bkey; rw [structuredMapRow_var, structuredMapRow_isBool]

theorem firstRows_key : ∀ (M M' : List MapRow) (seen : List Nat), M.map bkey = M'.map bkey →
    (firstRows M seen).map bkey = (firstRows M' seen).map bkey
  | [], [], _, _ => rfl
  | [], _ :: _, _, h => by simp at h
  | _ :: _, [], _, h => by simp at h
  | m :: ms, m' :: ms', seen, h => by
    simp only [List.map_cons, List.cons.injEq] at h
    obtain ⟨h1, h2⟩ := h
    have hv : m.var = m'.var := congrArg Prod.fst h1
    simp only [firstRows, hv]
    split
    · exact firstRows_key ms ms' seen h2
    · simp only [List.map_cons, h1, firstRows_key ms ms' (m'.var :: seen) h2]

theorem boolVars_of_key (P Q : Problem) (h : P.mapping.map bkey = Q.mapping.map bkey) : P.boolVars = Q.boolVars := by
  have key : ∀ L : List MapRow, (L.filter (·.isBool)).map (·.var) = ((L.map bkey).filter (·.2)).map (·.1) := by
    intro L
    induction L with
    | nil => rfl
    | cons m ms ih =>
      simp only [List.filter_cons, List.map_cons, bkey]
      cases m.isBool <;> simp [ih]
  unfold Problem.boolVars
  rw [key, key, firstRows_key _ _ [] h]

/-! ## the flat side, structured asset at any position -/

theorem structured_n (name : String) (ext : List String) (inner : List AssetProblem) (gridI : List Nat) :
    (structured name ext inner gridI).n = (inner.map (·.n)).sum := by
  show (assemble inner gridI ext).c.length = _
  rw [assemble_c, assembleFrom_c_length]

/-- the blocks before and with the structured asset take as many variables as the flat ones -/
theorem offs_eq (name : String) (ext : List String) (outer inner : List AssetProblem) (gridI : List Nat) :
    ((outer ++ [structured name ext inner gridI]).map (·.n)).sum = ((outer ++ inner).map (·.n)).sum := by
  simp only [List.map_append, List.sum_append, List.map_cons, List.map_nil, List.sum_cons, List.sum_nil, structured_n]
  omega

/-- mapping of the block part up to and with the structured asset -/
theorem mapping_upto_structured (name : String) (ext : List String) (outer inner : List AssetProblem) (gridI : List Nat) :
    (assembleFrom 0 (outer ++ [structured name ext inner gridI])).mapping =
      (assembleFrom 0 outer).mapping ++
        ((assembleFrom 0 inner).mapping.map (MapRow.shift (outer.map (·.n)).sum)).map (structuredMapRow name ext) := by
  rw [assembleFrom_append_mapping, assembleFrom_cons_mapping, assembleFrom_nil, List.append_nil]
  show _ ++ (((assemble inner gridI ext).mapping.map (structuredMapRow name ext)).map _) = _
  rw [assemble_mapping, List.map_map, List.map_map]
  congr 1
  apply List.map_congr_left
  intro m _
  simp only [Function.comp, smr_shift, Nat.zero_add]

theorem mapping_upto_flat (outer inner : List AssetProblem) :
    (assembleFrom 0 (outer ++ inner)).mapping =
      (assembleFrom 0 outer).mapping ++ (assembleFrom 0 inner).mapping.map (MapRow.shift (outer.map (·.n)).sum) := by
  rw [assembleFrom_append_mapping]
  have := assembleFrom_mapping_shift inner (outer.map (·.n)).sum 0
  simp only [Nat.add_zero] at this
  rw [Nat.zero_add, this]

theorem rows_upto_structured (name : String) (ext : List String) (outer inner : List AssetProblem) (gridI : List Nat) :
    (assembleFrom 0 (outer ++ [structured name ext inner gridI])).rows =
      (assembleFrom 0 outer).rows ++
        (((assembleFrom 0 inner).rows ++ (nodalPairs (assembleFrom 0 inner).mapping (portfolioNodes inner) ext gridI).map
          (fun p => nodalRow (assembleFrom 0 inner).mapping p.2 p.1)).map Row.nToS).map
            (Row.rename ((outer.map (·.n)).sum + ·)) := by
  rw [assembleFrom_append_rows, assembleFrom_cons_rows, assembleFrom_nil, List.append_nil]
  show _ ++ (((assemble inner gridI ext).rows.map Row.nToS).map _) = _
  rw [assemble_rows, Nat.zero_add]

theorem rows_upto_flat (outer inner : List AssetProblem) :
    (assembleFrom 0 (outer ++ inner)).rows =
      (assembleFrom 0 outer).rows ++ (assembleFrom 0 inner).rows.map (Row.rename ((outer.map (·.n)).sum + ·)) := by
  rw [assembleFrom_append_rows]
  have := assembleFrom_rows_shift inner (outer.map (·.n)).sum 0
  simp only [Nat.add_zero] at this
  rw [Nat.zero_add, this]

/-- mapping of the whole portfolio with the structured asset at any position -/
theorem mapping_structured (name : String) (ext : List String) (outer inner rest : List AssetProblem) (gridI : List Nat) :
    (assembleFrom 0 (outer ++ [structured name ext inner gridI] ++ rest)).mapping =
      ((assembleFrom 0 outer).mapping ++
        ((assembleFrom 0 inner).mapping.map (MapRow.shift (outer.map (·.n)).sum)).map (structuredMapRow name ext)) ++
      (assembleFrom (0 + ((outer ++ inner).map (·.n)).sum) rest).mapping := by
  rw [assembleFrom_append_mapping, offs_eq, mapping_upto_structured]

theorem mapping_flat (outer inner rest : List AssetProblem) :
    (assembleFrom 0 (outer ++ inner ++ rest)).mapping =
      ((assembleFrom 0 outer).mapping ++ (assembleFrom 0 inner).mapping.map (MapRow.shift (outer.map (·.n)).sum)) ++
      (assembleFrom (0 + ((outer ++ inner).map (·.n)).sum) rest).mapping := by
  rw [assembleFrom_append_mapping, mapping_upto_flat]

/-- the two mappings agree in what `boolVars` reads -/
theorem mapping_bkey (name : String) (ext : List String) (outer inner rest : List AssetProblem) (gridI : List Nat) :
    (assembleFrom 0 (outer ++ [structured name ext inner gridI] ++ rest)).mapping.map bkey =
    (assembleFrom 0 (outer ++ inner ++ rest)).mapping.map bkey := by
  rw [mapping_structured, mapping_flat]
  simp only [List.map_append, List.map_map]
  congr 2
  apply List.map_congr_left
  intro m _
  simp only [Function.comp, bkey_smr]

/-! ### nodal rows do not depend on the order of the blocks of the mapping -/

theorem nodalPairs_congr (M M' : List MapRow) (h : ∀ n t, M.any (isDisp n t) = M'.any (isDisp n t))
    (nodes skip : List String) (gridI : List Nat) : nodalPairs M nodes skip gridI = nodalPairs M' nodes skip gridI := by
  unfold nodalPairs
  simp only [h]

theorem nodal_swap (A B C : List MapRow) (nodes skip : List String) (gridI : List Nat) (x : Vec) :
    (∀ p ∈ nodalPairs ((A ++ C) ++ B) nodes skip gridI, (nodalRow ((A ++ C) ++ B) p.2 p.1).eval x = 0) ↔
    (∀ p ∈ nodalPairs ((A ++ B) ++ C) nodes skip gridI, (nodalRow ((A ++ B) ++ C) p.2 p.1).eval x = 0) := by
  have hp : nodalPairs ((A ++ C) ++ B) nodes skip gridI = nodalPairs ((A ++ B) ++ C) nodes skip gridI := by
    apply nodalPairs_congr
    intro n t
    simp only [List.any_append]
    cases A.any (isDisp n t) <;> cases B.any (isDisp n t) <;> cases C.any (isDisp n t) <;> rfl
  have he : ∀ n t, (nodalRow ((A ++ C) ++ B) n t).eval x = (nodalRow ((A ++ B) ++ C) n t).eval x := by
    intro n t
    rw [nodalRow_eval_append, nodalRow_eval_append, nodalRow_eval_append, nodalRow_eval_append]
    grind
  rw [hp]
  simp only [he]

/-- the heart, structured asset at any position: `nodal_core` with the blocks after the structured asset -/
theorem nodal_core_mid (Mo Mi Mr : List MapRow) (name : String) (ext nodesO nodesI skip : List String) (gridI : List Nat)
    (hO : ∀ m ∈ Mo ++ Mr, m.kind = .d → ∀ n, m.node = some n → n ∈ nodesO)
    (hI : ∀ m ∈ Mi, m.kind = .d → ∀ n, m.node = some n → n ∈ nodesI)
    (hsep : ∀ n ∈ nodesO, n ∈ nodesI → n ∈ ext) (hskip : ∀ n ∈ nodesI, n ∉ ext → n ∉ skip)
    (nodes1 nodes2 : List String) (h1 : ∀ n, n ∈ nodes1 ↔ n ∈ nodesO ∨ n ∈ ext)
    (h2 : ∀ n, n ∈ nodes2 ↔ n ∈ nodesO ∨ n ∈ nodesI) (x : Vec) :
    ((∀ p ∈ nodalPairs Mi nodesI ext gridI, (nodalRow Mi p.2 p.1).eval x = 0) ∧
      (∀ p ∈ nodalPairs ((Mo ++ Mi.map (structuredMapRow name ext)) ++ Mr) nodes1 skip gridI,
        (nodalRow ((Mo ++ Mi.map (structuredMapRow name ext)) ++ Mr) p.2 p.1).eval x = 0))
    ↔ ∀ p ∈ nodalPairs ((Mo ++ Mi) ++ Mr) nodes2 skip gridI, (nodalRow ((Mo ++ Mi) ++ Mr) p.2 p.1).eval x = 0 := by
  rw [← nodal_swap Mo (Mi.map (structuredMapRow name ext)) Mr, ← nodal_swap Mo Mi Mr]
  exact nodal_core (Mo ++ Mr) Mi name ext nodesO nodesI skip gridI hO hI hsep hskip nodes1 nodes2 h1 h2 x

theorem mem_portfolioNodes_append (as bs : List AssetProblem) (n : String) :
    n ∈ portfolioNodes (as ++ bs) ↔ n ∈ portfolioNodes as ∨ n ∈ portfolioNodes bs := by
  simp only [mem_portfolioNodes_iff, List.mem_append]
  constructor
  · rintro ⟨a, ha | ha, hn⟩
    · exact Or.inl ⟨a, ha, hn⟩
    · exact Or.inr ⟨a, ha, hn⟩
  · rintro (⟨a, ha, hn⟩ | ⟨a, ha, hn⟩)
    · exact ⟨a, Or.inl ha, hn⟩
    · exact ⟨a, Or.inr ha, hn⟩

theorem portfolioNodes_single_structured (name : String) (ext : List String) (inner : List AssetProblem) (gridI : List Nat)
    (n : String) : n ∈ portfolioNodes [structured name ext inner gridI] ↔ n ∈ ext := by
  rw [mem_portfolioNodes_iff]
  constructor
  · rintro ⟨a, ha, hn⟩
    have : a = structured name ext inner gridI := by simpa using ha
    subst this; exact hn
  · intro hn; exact ⟨structured name ext inner gridI, by simp, hn⟩

/-- dispatch rows of a block of assets sit at the nodes of the block -/
theorem disp_in_nodes (as : List AssetProblem) (off : Nat) (hw : ∀ a ∈ as, DispAtOwnNodes a) :
    ∀ m ∈ (assembleFrom off as).mapping, m.kind = .d → ∀ n, m.node = some n → n ∈ portfolioNodes as := by
  intro m hm hk n hn
  obtain ⟨a, ha, m', hm', o, rfl⟩ := mem_assembleFrom_mapping as off m hm
  exact mem_portfolioNodes as a ha n (hw a ha m' hm' hk n hn)

/-- **structured vs flat, restrictions, structured asset at ANY position of the portfolio** (`EAO.C16.structured_flat` is the
    case `rest = []`) -/
theorem structured_flat_mid (name : String) (ext : List String) (outer inner rest : List AssetProblem)
    (gridI : List Nat) (skip : List String)
    (hwo : ∀ a ∈ outer ++ rest, DispAtOwnNodes a) (hwi : ∀ a ∈ inner, DispAtOwnNodes a)
    (hsep : ∀ a ∈ outer ++ rest, ∀ n ∈ a.nodes, n ∈ portfolioNodes inner → n ∈ ext)
    (hskip : ∀ n ∈ portfolioNodes inner, n ∉ ext → n ∉ skip) (x : Vec) :
    (∀ r ∈ (assemble (outer ++ [structured name ext inner gridI] ++ rest) gridI skip).rows, r.Sat x) ↔
    (∀ r ∈ (assemble (outer ++ inner ++ rest) gridI skip).rows, r.Sat x) := by
  have hR1 : (assembleFrom 0 (outer ++ [structured name ext inner gridI] ++ rest)).rows =
      (assembleFrom 0 (outer ++ [structured name ext inner gridI])).rows ++
      (assembleFrom (0 + ((outer ++ inner).map (·.n)).sum) rest).rows := by
    rw [assembleFrom_append_rows, offs_eq]
  have hR2 : (assembleFrom 0 (outer ++ inner ++ rest)).rows =
      (assembleFrom 0 (outer ++ inner)).rows ++ (assembleFrom (0 + ((outer ++ inner).map (·.n)).sum) rest).rows := by
    rw [assembleFrom_append_rows]
  -- hypotheses of the core lemma
  have hO : ∀ m ∈ (assembleFrom 0 outer).mapping ++ (assembleFrom (0 + ((outer ++ inner).map (·.n)).sum) rest).mapping,
      m.kind = .d → ∀ n, m.node = some n → n ∈ portfolioNodes (outer ++ rest) := by
    intro m hm hk n hn
    rw [mem_portfolioNodes_append]
    rcases List.mem_append.mp hm with h | h
    · exact Or.inl (disp_in_nodes outer 0 (fun a ha => hwo a (List.mem_append.mpr (Or.inl ha))) m h hk n hn)
    · exact Or.inr (disp_in_nodes rest _ (fun a ha => hwo a (List.mem_append.mpr (Or.inr ha))) m h hk n hn)
  have hI : ∀ m ∈ (assembleFrom 0 inner).mapping.map (MapRow.shift (outer.map (·.n)).sum), m.kind = .d →
      ∀ n, m.node = some n → n ∈ portfolioNodes inner := by
    intro m hm hk n hn
    obtain ⟨m0, hm0, rfl⟩ := List.mem_map.mp hm
    exact disp_in_nodes inner 0 hwi m0 hm0 hk n hn
  have hsep' : ∀ n ∈ portfolioNodes (outer ++ rest), n ∈ portfolioNodes inner → n ∈ ext := by
    intro n hn hni
    obtain ⟨a, ha, hna⟩ := (mem_portfolioNodes_iff _ n).mp hn
    exact hsep a ha n hna hni
  have h1 : ∀ n, n ∈ portfolioNodes (outer ++ [structured name ext inner gridI] ++ rest) ↔
      n ∈ portfolioNodes (outer ++ rest) ∨ n ∈ ext := by
    intro n
    rw [mem_portfolioNodes_append, mem_portfolioNodes_append, mem_portfolioNodes_append,
      portfolioNodes_single_structured]
    constructor
    · rintro ((h | h) | h)
      · exact Or.inl (Or.inl h)
      · exact Or.inr h
      · exact Or.inl (Or.inr h)
    · rintro ((h | h) | h)
      · exact Or.inl (Or.inl h)
      · exact Or.inr h
      · exact Or.inl (Or.inr h)
  have h2 : ∀ n, n ∈ portfolioNodes (outer ++ inner ++ rest) ↔
      n ∈ portfolioNodes (outer ++ rest) ∨ n ∈ portfolioNodes inner := by
    intro n
    rw [mem_portfolioNodes_append, mem_portfolioNodes_append, mem_portfolioNodes_append]
    constructor
    · rintro ((h | h) | h)
      · exact Or.inl (Or.inl h)
      · exact Or.inr h
      · exact Or.inl (Or.inr h)
    · rintro ((h | h) | h)
      · exact Or.inl (Or.inl h)
      · exact Or.inr h
      · exact Or.inl (Or.inr h)
  have key := nodal_core_mid (assembleFrom 0 outer).mapping
    ((assembleFrom 0 inner).mapping.map (MapRow.shift (outer.map (·.n)).sum))
    (assembleFrom (0 + ((outer ++ inner).map (·.n)).sum) rest).mapping name ext
    (portfolioNodes (outer ++ rest)) (portfolioNodes inner) skip gridI hO hI hsep' hskip _ _ h1 h2 x
  rw [nodalPairs_map_shift] at key
  have conv1 : ∀ r : Row, ((r.nToS).rename ((outer.map (·.n)).sum + ·)).Sat x ↔
      (r.rename ((outer.map (·.n)).sum + ·)).Sat x := by
    intro r; rw [sat_rename, nToS_sat, ← sat_rename]
  have conv2 : ∀ n t, ((nodalRow (assembleFrom 0 inner).mapping n t).rename ((outer.map (·.n)).sum + ·)).Sat x ↔
      (nodalRow ((assembleFrom 0 inner).mapping.map (MapRow.shift (outer.map (·.n)).sum)) n t).eval x = 0 := by
    intro n t; rw [← nodalRow_map_shift, nodalRow_sat_iff]
  rw [assemble_rows, assemble_rows, mapping_structured, mapping_flat, hR1, hR2, rows_upto_structured, rows_upto_flat]
  simp only [List.forall_mem_append, List.forall_mem_map, conv1, conv2, nodalRow_sat_iff]
  constructor
  · rintro ⟨⟨⟨ho, hi, hA⟩, hr⟩, hB⟩
    exact ⟨⟨⟨ho, hi⟩, hr⟩, key.mp ⟨hA, hB⟩⟩
  · rintro ⟨⟨⟨ho, hi⟩, hr⟩, h⟩
    obtain ⟨hA, hB⟩ := key.mpr h
    exact ⟨⟨⟨ho, hi, hA⟩, hr⟩, hB⟩

/-- **vectors**, structured asset at any position: same costs and bounds, variable by variable, in the same order -/
theorem structured_flat_mid_vectors (name : String) (ext : List String) (outer inner rest : List AssetProblem)
    (gridI : List Nat) (skip : List String) :
    (assemble (outer ++ [structured name ext inner gridI] ++ rest) gridI skip).c = (assemble (outer ++ inner ++ rest) gridI skip).c ∧
    (assemble (outer ++ [structured name ext inner gridI] ++ rest) gridI skip).l = (assemble (outer ++ inner ++ rest) gridI skip).l ∧
    (assemble (outer ++ [structured name ext inner gridI] ++ rest) gridI skip).u = (assemble (outer ++ inner ++ rest) gridI skip).u := by
  have hv := structured_flat_vectors name ext outer inner gridI skip
  simp only [assemble_c, assemble_l, assemble_u] at hv ⊢
  refine ⟨?_, ?_, ?_⟩
  · rw [assembleFrom_append_c, assembleFrom_append_c (outer ++ inner), hv.1, offs_eq]
  · rw [assembleFrom_append_l, assembleFrom_append_l (outer ++ inner), hv.2.1, offs_eq]
  · rw [assembleFrom_append_u, assembleFrom_append_u (outer ++ inner), hv.2.2, offs_eq]

theorem nodalRow_append_congr (A B B' : List MapRow) (n : String) (t : Nat) (h : nodalRow B n t = nodalRow B' n t) :
    nodalRow (A ++ B) n t = nodalRow (A ++ B') n t := by
  unfold nodalRow at h ⊢
  simp only [Row.mk.injEq, and_true] at h
  simp only [List.filter_append, List.map_append, h]

theorem nodalRow_append_congr_left (A A' B : List MapRow) (n : String) (t : Nat) (h : nodalRow A n t = nodalRow A' n t) :
    nodalRow (A ++ B) n t = nodalRow (A' ++ B) n t := by
  unfold nodalRow at h ⊢
  simp only [Row.mk.injEq, and_true] at h
  simp only [List.filter_append, List.map_append, h]

/-- **dispatch at outer nodes**: at a node that is not an inner (non-external) node of the structure the nodal rows of the two
    problems are the same row — the same variables with the same factors -/
theorem nodalRow_structured_flat (name : String) (ext : List String) (outer inner rest : List AssetProblem)
    (gridI : List Nat) (skip : List String) (hwi : ∀ a ∈ inner, DispAtOwnNodes a)
    (n : String) (hn : n ∈ portfolioNodes inner → n ∈ ext) (t : Nat) :
    nodalRow (assemble (outer ++ [structured name ext inner gridI] ++ rest) gridI skip).mapping n t =
    nodalRow (assemble (outer ++ inner ++ rest) gridI skip).mapping n t := by
  rw [assemble_mapping, assemble_mapping, mapping_structured, mapping_flat]
  apply nodalRow_append_congr_left
  apply nodalRow_append_congr
  apply nodalRow_map_smr
  intro m hm hk hnode
  obtain ⟨m0, hm0, rfl⟩ := List.mem_map.mp hm
  exact hn (disp_in_nodes inner 0 hwi m0 hm0 hk n hnode)

/-! ### dispatch per asset -/

theorem dispatchOut_append (A B : List MapRow) (a n : String) (t : Nat) (x : Vec) :
    dispatchOut (A ++ B) a n t x = dispatchOut A a n t x + dispatchOut B a n t x := by
  unfold dispatchOut
  rw [List.filter_append, List.map_append, List.sum_append]

theorem dispatchOut_of_no_asset (M : List MapRow) (a n : String) (t : Nat) (x : Vec) (h : ∀ m ∈ M, m.asset ≠ a) :
    dispatchOut M a n t x = 0 := by
  unfold dispatchOut
  have : M.filter (fun m => m.asset == a && isDisp n t m) = [] := by
    apply List.filter_eq_nil_iff.mpr
    intro m hm hd
    have := h m hm
    simp only [Bool.and_eq_true, beq_iff_eq] at hd
    exact this hd.1
  rw [this]; rfl

theorem mem_shifted_inner (inner : List AssetProblem) (off : Nat) (m : MapRow)
    (hm : m ∈ (assembleFrom 0 inner).mapping.map (MapRow.shift off)) :
    ∃ q ∈ inner, ∃ m' ∈ q.mapping, m.asset = m'.asset := by
  obtain ⟨m0, hm0, rfl⟩ := List.mem_map.mp hm
  obtain ⟨q, hq, m', hm', o, rfl⟩ := mem_assembleFrom_mapping inner 0 m0 hm0
  exact ⟨q, hq, m', hm', rfl⟩

/-- **dispatch of an outer asset** (any node, any step): an asset name that is not the wrapper's and is carried by no row of
    a wrapped problem has the same dispatch in both problems -/
theorem dispatchOut_outer (name : String) (ext : List String) (outer inner rest : List AssetProblem)
    (gridI : List Nat) (skip : List String) (a : String) (ha : a ≠ name)
    (hai : ∀ q ∈ inner, ∀ m ∈ q.mapping, m.asset ≠ a) (n : String) (t : Nat) (x : Vec) :
    dispatchOut (assemble (outer ++ [structured name ext inner gridI] ++ rest) gridI skip).mapping a n t x =
    dispatchOut (assemble (outer ++ inner ++ rest) gridI skip).mapping a n t x := by
  rw [assemble_mapping, assemble_mapping, mapping_structured, mapping_flat]
  simp only [dispatchOut_append]
  rw [dispatchOut_of_no_asset (List.map (structuredMapRow name ext) _) a n t x, dispatchOut_of_no_asset (List.map (MapRow.shift _) _) a n t x]
  · intro m hm
    obtain ⟨q, hq, m', hm', he⟩ := mem_shifted_inner inner _ m hm
    rw [he]; exact hai q hq m' hm'
  · intro m hm
    obtain ⟨m0, _, rfl⟩ := List.mem_map.mp hm
    rw [structuredMapRow_asset]; exact fun h => ha h.symm

theorem contrib_smr (name : String) (ext : List String) (m : MapRow) (x : Vec) :
    (structuredMapRow name ext m).contrib x = m.contrib x := by
  unfold MapRow.contrib; rw [structuredMapRow_var, structuredMapRow_factor]

theorem dispatchOut_smr (name : String) (ext : List String) (M : List MapRow) (n : String) (t : Nat) (x : Vec)
    (hC : ∀ m ∈ M, m.kind = .d → m.node = some n → n ∈ ext) :
    dispatchOut (M.map (structuredMapRow name ext)) name n t x = ((M.filter (isDisp n t)).map (·.contrib x)).sum := by
  unfold dispatchOut
  induction M with
  | nil => rfl
  | cons m ms ih =>
    have hm := isDisp_smr name ext m n t (hC m (by simp))
    have ih' := ih (fun m' hm' => hC m' (by simp [hm']))
    simp only [List.map_cons, List.filter_cons, structuredMapRow_asset, beq_self_eq_true, Bool.true_and, hm]
    split
    · simp only [List.map_cons, List.sum_cons, contrib_smr]
      rw [ih']
    · exact ih'

/-- **dispatch of the wrapper** at a node that is not an inner (non-external) node: the sum of the dispatch of the wrapped
    assets there in the flat problem — `names` lists the asset names the wrapped problems' rows carry, without repetition; the
    wrapper's name and the wrapped names are not used by rows of the other assets of the portfolio -/
theorem dispatchOut_wrapper (name : String) (ext : List String) (outer inner rest : List AssetProblem)
    (gridI : List Nat) (skip : List String) (hwi : ∀ a ∈ inner, DispAtOwnNodes a)
    (names : List String) (hnd : names.Nodup) (hcov : ∀ q ∈ inner, ∀ m ∈ q.mapping, m.asset ∈ names)
    (hout : ∀ q ∈ outer ++ rest, ∀ m ∈ q.mapping, m.asset ≠ name ∧ m.asset ∉ names)
    (n : String) (hn : n ∈ portfolioNodes inner → n ∈ ext) (t : Nat) (x : Vec) :
    dispatchOut (assemble (outer ++ [structured name ext inner gridI] ++ rest) gridI skip).mapping name n t x =
    (names.map fun a => dispatchOut (assemble (outer ++ inner ++ rest) gridI skip).mapping a n t x).sum := by
  have hOut : ∀ (as : List AssetProblem) (off : Nat), (∀ q ∈ as, q ∈ outer ++ rest) →
      ∀ m ∈ (assembleFrom off as).mapping, m.asset ≠ name ∧ m.asset ∉ names := by
    intro as off has m hm
    obtain ⟨q, hq, m', hm', o, rfl⟩ := mem_assembleFrom_mapping as off m hm
    exact hout q (has q hq) m' hm'
  have hOo := hOut outer 0 (fun q hq => List.mem_append.mpr (Or.inl hq))
  have hOr := hOut rest (0 + ((outer ++ inner).map (·.n)).sum) (fun q hq => List.mem_append.mpr (Or.inr hq))
  have hC : ∀ m ∈ (assembleFrom 0 inner).mapping.map (MapRow.shift (outer.map (·.n)).sum),
      m.kind = .d → m.node = some n → n ∈ ext := by
    intro m hm hk hnode
    obtain ⟨m0, hm0, rfl⟩ := List.mem_map.mp hm
    exact hn (disp_in_nodes inner 0 hwi m0 hm0 hk n hnode)
  rw [assemble_mapping, assemble_mapping, mapping_structured, mapping_flat]
  simp only [dispatchOut_append]
  rw [dispatchOut_of_no_asset _ name n t x (fun m hm => (hOo m hm).1),
    dispatchOut_of_no_asset _ name n t x (fun m hm => (hOr m hm).1), dispatchOut_smr name ext _ n t x hC]
  rw [← dispatch_sum_eq_nodal names hnd _ (fun r hr => by
    obtain ⟨q, hq, m', hm', he⟩ := mem_shifted_inner inner _ r hr
    rw [he]; exact hcov q hq m' hm') n t x]
  have : ∀ a ∈ names, dispatchOut (assembleFrom 0 outer).mapping a n t x +
      dispatchOut ((assembleFrom 0 inner).mapping.map (MapRow.shift (outer.map (·.n)).sum)) a n t x +
      dispatchOut (assembleFrom (0 + ((outer ++ inner).map (·.n)).sum) rest).mapping a n t x =
      dispatchOut ((assembleFrom 0 inner).mapping.map (MapRow.shift (outer.map (·.n)).sum)) a n t x := by
    intro a ha
    rw [dispatchOut_of_no_asset _ a n t x (fun m hm h => (hOo m hm).2 (h ▸ ha)),
      dispatchOut_of_no_asset _ a n t x (fun m hm h => (hOr m hm).2 (h ▸ ha))]
    grind
  rw [List.map_congr_left this]
  grind

/-! ### "the same problem": same variables, costs, bounds, integrality; restrictions that say the same -/

/-- two assembled problems over the same variables in the same order: equal cost vector and bounds, the same boolean
    variables, and row sets satisfied by exactly the same points -/
structure SameProblem (A B : Problem) : Prop where
  c : A.c = B.c
  l : A.l = B.l
  u : A.u = B.u
  rows : ∀ x, (∀ r ∈ A.rows, r.Sat x) ↔ (∀ r ∈ B.rows, r.Sat x)
  bools : A.boolVars = B.boolVars

theorem SameProblem.refl (A : Problem) : SameProblem A A := ⟨rfl, rfl, rfl, fun _ => Iff.rfl, rfl⟩

theorem SameProblem.trans {A B C : Problem} (h1 : SameProblem A B) (h2 : SameProblem B C) : SameProblem A C :=
  ⟨h1.c.trans h2.c, h1.l.trans h2.l, h1.u.trans h2.u, fun x => (h1.rows x).trans (h2.rows x), h1.bools.trans h2.bools⟩

theorem SameProblem.relaxed {A B : Problem} (h : SameProblem A B) (x : Vec) : A.FeasibleRelaxed x ↔ B.FeasibleRelaxed x := by
  unfold Problem.FeasibleRelaxed
  rw [h.l, h.u, h.rows x]

theorem SameProblem.feasible {A B : Problem} (h : SameProblem A B) (x : Vec) : A.Feasible x ↔ B.Feasible x := by
  unfold Problem.Feasible
  rw [h.relaxed x, h.bools]

theorem SameProblem.value {A B : Problem} (h : SameProblem A B) (x : Vec) : A.value x = B.value x := by
  unfold Problem.value; rw [h.c]

/-- same upper bounds of the value over the feasible set (hence the same optimal value), same optimal points -/
theorem SameProblem.optimal {A B : Problem} (h : SameProblem A B) (x : Vec) :
    (A.Feasible x ∧ ∀ y, A.Feasible y → A.value y ≤ A.value x) ↔ (B.Feasible x ∧ ∀ y, B.Feasible y → B.value y ≤ B.value x) := by
  constructor
  · rintro ⟨hx, hy⟩
    refine ⟨(h.feasible x).mp hx, fun y hyB => ?_⟩
    rw [← h.value y, ← h.value x]; exact hy y ((h.feasible y).mpr hyB)
  · rintro ⟨hx, hy⟩
    refine ⟨(h.feasible x).mpr hx, fun y hyA => ?_⟩
    rw [h.value y, h.value x]; exact hy y ((h.feasible y).mp hyA)

/-- **structured vs flat on finished problems, any position**: the two assembled problems are the same problem -/
theorem structured_flat_same (name : String) (ext : List String) (outer inner rest : List AssetProblem)
    (gridI : List Nat) (skip : List String)
    (hwo : ∀ a ∈ outer ++ rest, DispAtOwnNodes a) (hwi : ∀ a ∈ inner, DispAtOwnNodes a)
    (hsep : ∀ a ∈ outer ++ rest, ∀ n ∈ a.nodes, n ∈ portfolioNodes inner → n ∈ ext)
    (hskip : ∀ n ∈ portfolioNodes inner, n ∉ ext → n ∉ skip) :
    SameProblem (assemble (outer ++ [structured name ext inner gridI] ++ rest) gridI skip)
      (assemble (outer ++ inner ++ rest) gridI skip) := by
  obtain ⟨hc, hl, hu⟩ := structured_flat_mid_vectors name ext outer inner rest gridI skip
  refine ⟨hc, hl, hu, structured_flat_mid name ext outer inner rest gridI skip hwo hwi hsep hskip, ?_⟩
  apply boolVars_of_key
  rw [assemble_mapping, assemble_mapping]
  exact mapping_bkey name ext outer inner rest gridI

/-- a structured asset's dispatch rows sit at its own (external) nodes — whatever it wraps -/
theorem structured_dispAtOwnNodes (name : String) (ext : List String) (inner : List AssetProblem) (gridI : List Nat) :
    DispAtOwnNodes (structured name ext inner gridI) := by
  intro m hm hk n hn
  obtain ⟨m0, _, rfl⟩ := List.mem_map.mp hm
  exact (structuredMapRow_disp name ext m0 n hk hn).2.2

/-! ### top-level portfolios of objects -/

theorem listRel_append {α β : Type} {R : α → β → Prop} : ∀ {as as' : List α} {bs : List β},
    ListRel R (as ++ as') bs → ∃ b1 b2, bs = b1 ++ b2 ∧ ListRel R as b1 ∧ ListRel R as' b2
  | [], _, bs, h => ⟨[], bs, rfl, .nil, h⟩
  | a :: as, as', _, h => by
    cases h with
    | cons h1 h2 =>
      obtain ⟨b1, b2, rfl, h3, h4⟩ := listRel_append h2
      exact ⟨_ :: b1, b2, rfl, .cons h1 h3, h4⟩

theorem listRel_append_mk {α β : Type} {R : α → β → Prop} : ∀ {as as' : List α} {b1 b2 : List β},
    ListRel R as b1 → ListRel R as' b2 → ListRel R (as ++ as') (b1 ++ b2)
  | _, _, _, _, .nil, h => h
  | _, _, _, _, .cons h1 h2, h => .cons h1 (listRel_append_mk h2 h)

theorem listRel_functional {α β : Type} {R : α → β → Prop} (hR : ∀ a b b', R a b → R a b' → b = b') :
    ∀ {as : List α} {bs bs' : List β}, ListRel R as bs → ListRel R as bs' → bs = bs'
  | _, _, _, .nil, h => by cases h; rfl
  | _, _, _, .cons h1 h2, h => by
    cases h with
    | cons h3 h4 => rw [hR _ _ _ h1 h3, listRel_functional hR h2 h4]

/-! ### executable checks of the hypotheses (for examples and the harness) -/

/-- `DispAtOwnNodes`, decidable form -/
def dispOwn (a : AssetProblem) : Bool :=
  a.mapping.all fun m => (m.kind != .d) || (match m.node with | some n => a.nodes.contains n | none => true)

theorem dispAtOwnNodes_of_check (a : AssetProblem) (h : dispOwn a = true) : DispAtOwnNodes a := by
  intro m hm hk n hn
  have := List.all_eq_true.mp h m hm
  simp only [hk, hn, bne_self_eq_false, Bool.false_or, List.contains_eq_mem, decide_eq_true_eq] at this
  exact this

theorem dispAtOwnNodes_all (as : List AssetProblem) (h : as.all dispOwn = true) : ∀ a ∈ as, DispAtOwnNodes a :=
  fun a ha => dispAtOwnNodes_of_check a (List.all_eq_true.mp h a ha)

/-- the separation hypothesis, decidable form -/
def sepOk (others inner : List AssetProblem) (ext : List String) : Bool :=
  others.all fun a => a.nodes.all fun n => !(portfolioNodes inner).contains n || ext.contains n

theorem sep_of_check (others inner : List AssetProblem) (ext : List String) (h : sepOk others inner ext = true) :
    ∀ a ∈ others, ∀ n ∈ a.nodes, n ∈ portfolioNodes inner → n ∈ ext := by
  intro a ha n hn hi
  have := List.all_eq_true.mp (List.all_eq_true.mp h a ha) n hn
  simp only [List.contains_eq_mem, Bool.or_eq_true, Bool.not_eq_true', decide_eq_false_iff_not, decide_eq_true_eq] at this
  rcases this with h1 | h1
  · exact absurd hi h1
  · exact h1

def skipOk (inner : List AssetProblem) (ext skip : List String) : Bool :=
  (portfolioNodes inner).all fun n => ext.contains n || !skip.contains n

theorem skip_of_check (inner : List AssetProblem) (ext skip : List String) (h : skipOk inner ext skip = true) :
    ∀ n ∈ portfolioNodes inner, n ∉ ext → n ∉ skip := by
  intro n hn he
  have := List.all_eq_true.mp h n hn
  simp only [List.contains_eq_mem, Bool.or_eq_true, Bool.not_eq_true', decide_eq_false_iff_not, decide_eq_true_eq] at this
  rcases this with h1 | h1
  · exact absurd h1 he
  · exact h1

/-! ## full flattening of a portfolio of objects -/

/-- dates (with zone) standing for a window of instants -/
def awareWin (w : Win) : WinD := (w.1.map WDate.aware, w.2.map WDate.aware)

theorem winI_awareWin (env : Env) (w : Win) : env.winI (awareWin w) = w := by
  obtain ⟨s, e⟩ := w
  cases s <;> cases e <;> rfl

mutual
/-- the flat objects of the object `t` whose current window is `cur`: every structure is opened, at any depth; a leaf or a
    scaled asset stays ONE object, with `start` / `end` set to dates standing for `cur` (its own window clipped by the windows
    of all the structures that were opened around it) -/
def flattenTree (env : Env) : WTree ε → Win → List (WTree ε)
  | .leaf _ b, cur => [.leaf (awareWin cur) b]
  | .scaled _ p base, cur => [.scaled (awareWin cur) p base]
  | .structured _ _ _ inner, cur => flattenList env inner cur
def flattenList (env : Env) : List (WTree ε) → Win → List (WTree ε)
  | [], _ => []
  | c :: cs, cur => flattenTree env c (clip (env.winI c.win) cur) ++ flattenList env cs cur
end

/-- **full flattening** of a top-level portfolio of objects: all structured nodes opened, scaled nodes stay objects -/
def flattenAll (env : Env) (pf : List (WTree ε)) : List (WTree ε) := flattenList env pf (none, none)

/-- node list of the problem the object builds on the window `cur` -/
def builtNodes (env : Env) (t : WTree ε) (cur : Win) : List String :=
  match buildTree env t cur with
  | .ok P => P.nodes
  | .error _ => []

/-- the problem the object builds has its dispatch rows at its own nodes -/
def builtDisp (env : Env) (t : WTree ε) (cur : Win) : Bool :=
  match buildTree env t cur with
  | .ok P => dispOwn P
  | .error _ => true

mutual
/-- every node name that occurs in the object: the nodes of the leaves and scaled assets, the external nodes of the structures -/
def allNodes (env : Env) : WTree ε → Win → List String
  | .leaf w b, cur => builtNodes env (.leaf w b) cur
  | .scaled w p base, cur => builtNodes env (.scaled w p base) cur
  | .structured _ _ ext inner, cur => ext ++ allNodesL env inner cur
def allNodesL (env : Env) : List (WTree ε) → Win → List String
  | [], _ => []
  | c :: cs, cur => allNodes env c (clip (env.winI c.win) cur) ++ allNodesL env cs cur
end

/-- no inner node of the structure (node of a wrapped problem that is not external) is among `others` -/
def nodesSepOk (others : List String) (inner : List AssetProblem) (ext : List String) : Bool :=
  (portfolioNodes inner).all fun n => !others.contains n || ext.contains n

mutual
/-- the separation condition below one object; `others` = the node names that occur anywhere outside the object.
    Leaf / scaled asset: dispatch rows at own nodes.  Structure: its inner node names (nodes of the wrapped problems that are
    not external) are neither among `others` nor skipped, and the condition holds for every wrapped object, with the node
    names of all its siblings added to `others`. -/
def sepTree (env : Env) (skip : List String) : WTree ε → Win → List String → Bool
  | .leaf w b, cur, _ => builtDisp env (.leaf w b) cur
  | .scaled w p base, cur, _ => builtDisp env (.scaled w p base) cur
  | .structured _ _ ext inner, cur, others =>
    (match buildList env inner cur with
     | .ok ps => nodesSepOk others ps ext && skipOk ps ext skip
     | .error _ => true) && sepList env skip inner cur others
def sepList (env : Env) (skip : List String) : List (WTree ε) → Win → List String → Bool
  | [], _, _ => true
  | c :: cs, cur, others =>
    sepTree env skip c (clip (env.winI c.win) cur) (others ++ allNodesL env cs cur) &&
    sepList env skip cs cur (others ++ allNodes env c (clip (env.winI c.win) cur))
end

/-- **the tree-level condition** (decidable: evaluated on the problems the objects build): for every structure at any depth,
    the inner node names are used nowhere outside that structure — not by a sibling, not by an object inside a sibling, not
    by an object next to an enclosing structure — and are not skipped; every leaf and scaled asset has its dispatch rows at
    its own nodes -/
def treeSepOk (env : Env) (skip : List String) (pf : List (WTree ε)) : Bool := sepList env skip pf (none, none) []

/-- the other problems of the portfolio while an object is opened: dispatch at own nodes, node names among `others` -/
def Ctx (others : List String) (outer rest : List AssetProblem) : Prop :=
  (∀ a ∈ outer ++ rest, DispAtOwnNodes a) ∧ ∀ a ∈ outer ++ rest, ∀ n ∈ a.nodes, n ∈ others

theorem ctx_right {others extra : List String} {outer mid rest : List AssetProblem} (h : Ctx others outer rest)
    (hd : ∀ a ∈ mid, DispAtOwnNodes a) (hn : ∀ a ∈ mid, ∀ n ∈ a.nodes, n ∈ extra) :
    Ctx (others ++ extra) outer (mid ++ rest) := by
  constructor
  · intro a ha
    simp only [List.mem_append] at ha
    rcases ha with ha | ha | ha
    · exact h.1 a (List.mem_append.mpr (Or.inl ha))
    · exact hd a ha
    · exact h.1 a (List.mem_append.mpr (Or.inr ha))
  · intro a ha n hna
    simp only [List.mem_append] at ha
    rcases ha with ha | ha | ha
    · exact List.mem_append.mpr (Or.inl (h.2 a (List.mem_append.mpr (Or.inl ha)) n hna))
    · exact List.mem_append.mpr (Or.inr (hn a ha n hna))
    · exact List.mem_append.mpr (Or.inl (h.2 a (List.mem_append.mpr (Or.inr ha)) n hna))

theorem ctx_left {others extra : List String} {outer mid rest : List AssetProblem} (h : Ctx others outer rest)
    (hd : ∀ a ∈ mid, DispAtOwnNodes a) (hn : ∀ a ∈ mid, ∀ n ∈ a.nodes, n ∈ extra) :
    Ctx (others ++ extra) (outer ++ mid) rest := by
  constructor
  · intro a ha
    simp only [List.mem_append] at ha
    rcases ha with (ha | ha) | ha
    · exact h.1 a (List.mem_append.mpr (Or.inl ha))
    · exact hd a ha
    · exact h.1 a (List.mem_append.mpr (Or.inr ha))
  · intro a ha n hna
    simp only [List.mem_append] at ha
    rcases ha with (ha | ha) | ha
    · exact List.mem_append.mpr (Or.inl (h.2 a (List.mem_append.mpr (Or.inl ha)) n hna))
    · exact List.mem_append.mpr (Or.inr (hn a ha n hna))
    · exact List.mem_append.mpr (Or.inl (h.2 a (List.mem_append.mpr (Or.inr ha)) n hna))

/-- what the induction carries: the built problems `ps` and the problems `F` of the flat objects have dispatch at own nodes
    and node names among `all`; in every portfolio whose other problems are separated, putting `F` for `ps` gives the same
    problem -/
def FlatGood (env : Env) (skip others : List String) (flatObjs : List (WTree ε)) (ps : List AssetProblem)
    (all : List String) : Prop :=
  (∀ a ∈ ps, DispAtOwnNodes a) ∧ (∀ a ∈ ps, ∀ n ∈ a.nodes, n ∈ all) ∧
  ∃ F, ListRel (fun f q => buildTop env f = .ok q) flatObjs F ∧ (∀ a ∈ F, DispAtOwnNodes a) ∧
    (∀ a ∈ F, ∀ n ∈ a.nodes, n ∈ all) ∧
    ∀ outer rest, Ctx others outer rest →
      SameProblem (assemble (outer ++ ps ++ rest) env.g.idx skip) (assemble (outer ++ F ++ rest) env.g.idx skip)

/-- a leaf or a scaled asset: one object, re-dated -/
theorem atom_good (env : Env) (skip others : List String) (t : WTree ε) (cur : Win) (P : AssetProblem)
    (hs : builtDisp env t cur = true) (hb : buildTree env t cur = .ok P) :
    FlatGood env skip others [t.setWin (awareWin cur)] [P] (builtNodes env t cur) := by
  unfold builtDisp at hs; rw [hb] at hs
  have hd : ∀ a ∈ [P], DispAtOwnNodes a := by
    intro a ha; rw [List.mem_singleton.mp ha]; exact dispAtOwnNodes_of_check P hs
  have hn : ∀ a ∈ [P], ∀ n ∈ a.nodes, n ∈ builtNodes env t cur := by
    intro a ha n hna; rw [List.mem_singleton.mp ha] at hna
    unfold builtNodes; rw [hb]; exact hna
  refine ⟨hd, hn, [P], .cons ?_ .nil, hd, hn, fun outer rest _ => SameProblem.refl _⟩
  unfold buildTop
  rw [win_setWin, buildTree_setWin, winI_awareWin, hb]

mutual
theorem sepTree_good (env : Env) (skip : List String) : ∀ (t : WTree ε) (cur : Win) (others : List String) (P : AssetProblem),
    sepTree env skip t cur others = true → buildTree env t cur = .ok P →
    FlatGood env skip others (flattenTree env t cur) [P] (allNodes env t cur)
  | .leaf w b, cur, others, P, hs, hb => by
    rw [sepTree] at hs; rw [flattenTree, allNodes]
    exact atom_good env skip others (.leaf w b) cur P hs hb
  | .scaled w p base, cur, others, P, hs, hb => by
    rw [sepTree] at hs; rw [flattenTree, allNodes]
    exact atom_good env skip others (.scaled w p base) cur P hs hb
  | .structured w name ext inner, cur, others, P, hs, hb => by
    rw [buildTree] at hb
    rw [sepTree] at hs
    cases hl : buildList env inner cur with
    | error e => rw [hl] at hb; cases hb
    | ok ps =>
      rw [hl] at hb hs
      simp only [Bool.and_eq_true] at hs
      obtain ⟨⟨hsep, hskip⟩, hsl⟩ := hs
      cases hb
      obtain ⟨hd, hn, F, hF, hFd, hFn, hsame⟩ := sepList_good env skip inner cur others ps hsl hl
      rw [flattenTree, allNodes]
      refine ⟨?_, ?_, F, hF, hFd, fun a ha n hna => List.mem_append.mpr (Or.inr (hFn a ha n hna)), ?_⟩
      · intro a ha; rw [List.mem_singleton.mp ha]; exact structured_dispAtOwnNodes name ext ps env.g.idx
      · intro a ha n hna; rw [List.mem_singleton.mp ha] at hna
        exact List.mem_append.mpr (Or.inl hna)
      · intro outer rest hctx
        refine (structured_flat_same name ext outer ps rest env.g.idx skip hctx.1 hd ?_
          (skip_of_check ps ext skip hskip)).trans (hsame outer rest hctx)
        intro a ha n hna hni
        have := List.all_eq_true.mp hsep n hni
        simp only [List.contains_eq_mem, Bool.or_eq_true, Bool.not_eq_true', decide_eq_false_iff_not,
          decide_eq_true_eq] at this
        rcases this with h1 | h1
        · exact absurd (hctx.2 a ha n hna) h1
        · exact h1
theorem sepList_good (env : Env) (skip : List String) : ∀ (cs : List (WTree ε)) (cur : Win) (others : List String)
    (ps : List AssetProblem), sepList env skip cs cur others = true → buildList env cs cur = .ok ps →
    FlatGood env skip others (flattenList env cs cur) ps (allNodesL env cs cur)
  | [], cur, others, ps, _, hb => by
    rw [buildList] at hb; cases hb
    rw [flattenList]
    exact ⟨fun a ha => absurd ha (by simp), fun a ha => absurd ha (by simp), [], .nil, fun a ha => absurd ha (by simp),
      fun a ha => absurd ha (by simp), fun outer rest _ => SameProblem.refl _⟩
  | c :: cs, cur, others, ps, hs, hb => by
    rw [buildList] at hb
    rw [sepList] at hs
    simp only [Bool.and_eq_true] at hs
    obtain ⟨hs1, hs2⟩ := hs
    cases hc : buildTree env c (clip (env.winI c.win) cur) with
    | error e => rw [hc] at hb; cases hb
    | ok Pc =>
      rw [hc] at hb
      cases hl : buildList env cs cur with
      | error e => rw [hl] at hb; cases hb
      | ok pcs =>
        rw [hl] at hb
        cases hb
        obtain ⟨hd1, hn1, F1, hF1, hFd1, hFn1, hsame1⟩ := sepTree_good env skip c _ _ Pc hs1 hc
        obtain ⟨hd2, hn2, F2, hF2, hFd2, hFn2, hsame2⟩ := sepList_good env skip cs cur _ pcs hs2 hl
        rw [flattenList, allNodesL]
        refine ⟨?_, ?_, F1 ++ F2, listRel_append_mk hF1 hF2, ?_, ?_, ?_⟩
        · intro a ha
          rcases List.mem_cons.mp ha with h | h
          · exact hd1 a (by rw [h]; simp)
          · exact hd2 a h
        · intro a ha n hna
          rcases List.mem_cons.mp ha with h | h
          · exact List.mem_append.mpr (Or.inl (hn1 a (by rw [h]; simp) n hna))
          · exact List.mem_append.mpr (Or.inr (hn2 a h n hna))
        · intro a ha
          rcases List.mem_append.mp ha with h | h
          · exact hFd1 a h
          · exact hFd2 a h
        · intro a ha n hna
          rcases List.mem_append.mp ha with h | h
          · exact List.mem_append.mpr (Or.inl (hFn1 a h n hna))
          · exact List.mem_append.mpr (Or.inr (hFn2 a h n hna))
        · intro outer rest hctx
          have h1 := hsame1 outer (pcs ++ rest) (ctx_right hctx hd2 hn2)
          have h2 := hsame2 (outer ++ F1) rest (ctx_left hctx hFd1 hFn1)
          have e1 : outer ++ (Pc :: pcs) ++ rest = outer ++ [Pc] ++ (pcs ++ rest) := by simp
          have e2 : outer ++ F1 ++ (pcs ++ rest) = (outer ++ F1) ++ pcs ++ rest := by simp
          have e3 : outer ++ (F1 ++ F2) ++ rest = (outer ++ F1) ++ F2 ++ rest := by simp
          rw [e1, e3]
          rw [e2] at h1
          exact h1.trans h2
end

/-- a top-level portfolio is built like the inner portfolio of a wrapper without window -/
theorem buildList_top (env : Env) {pf : List (WTree ε)} {ps : List AssetProblem}
    (h : ListRel (fun f q => buildTop env f = .ok q) pf ps) : buildList env pf (none, none) = .ok ps := by
  induction h with
  | nil => rw [buildList]
  | cons h1 _ ih =>
    unfold buildTop at h1
    rw [buildList, clip_none_wrapper, h1, ih]

/-- **full flattening, finished**: under the tree-level condition the flat objects build, and the assembled portfolios are the
    same problem -/
theorem flattenAll_same (env : Env) (skip : List String) (pf : List (WTree ε)) (hsep : treeSepOk env skip pf = true)
    (ps : List AssetProblem) (hps : ListRel (fun f q => buildTop env f = .ok q) pf ps) :
    ∃ ps', ListRel (fun f q => buildTop env f = .ok q) (flattenAll env pf) ps' ∧
      SameProblem (assemble ps env.g.idx skip) (assemble ps' env.g.idx skip) := by
  obtain ⟨_, _, F, hF, _, _, hsame⟩ := sepList_good env skip pf (none, none) [] ps hsep (buildList_top env hps)
  refine ⟨F, hF, ?_⟩
  have := hsame [] [] ⟨fun a ha => absurd ha (by simp), fun a ha => absurd ha (by simp)⟩
  simpa using this

/-- other dates standing for the same instants build the same problem -/
theorem buildTop_redate (env : Env) (f : WTree ε) (w : WinD) (h : env.winI w = env.winI f.win) :
    buildTop env (f.setWin w) = buildTop env f := by
  unfold buildTop
  rw [win_setWin, buildTree_setWin, h]

/-- `f'` is the object `f` with `start` / `end` written as other dates standing for the same instants -/
def SameDates (env : Env) (f f' : WTree ε) : Prop := ∃ w : WinD, f' = f.setWin w ∧ env.winI w = env.winI f.win

theorem listRel_redate (env : Env) {fs fs' : List (WTree ε)} (h : ListRel (SameDates env) fs fs') {ps : List AssetProblem}
    (hps : ListRel (fun f q => buildTop env f = .ok q) fs ps) : ListRel (fun f q => buildTop env f = .ok q) fs' ps := by
  induction h generalizing ps with
  | nil => cases hps; exact .nil
  | cons h1 _ ih =>
    cases hps with
    | cons hp hr =>
      obtain ⟨w, rfl, hw⟩ := h1
      exact .cons (by rw [buildTop_redate env _ w hw]; exact hp) (ih hr)

end EAO.StructWinFlat
