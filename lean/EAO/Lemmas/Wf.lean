import EAO.Model.Assemble
import EAO.Model.Readout
import EAO.Model.Lagrange
import EAO.Lemmas.Nodal
/-! helper lemmas for C07 (the mapping is a faithful description of the assembled problem):
    sizes, column ranges, blocks of the concatenation `assembleFrom off as` (all generalised over the
    starting offset `off`), duplicate-freeness and membership of `nodalPairs`, kinds of the rows -/
namespace EAO

/-! ### sizes -/

theorem assembleFrom_c_length (as : List AssetProblem) (off : Nat) :
    (assembleFrom off as).c.length = (as.map (·.n)).sum := by
  induction as generalizing off with
  | nil => simp [assembleFrom]
  | cons a rest ih => simp [assembleFrom, ih, AssetProblem.n]

theorem wf_assembleFrom_n (as : List AssetProblem) (off : Nat) :
    (assembleFrom off as).n = (as.map (·.n)).sum := assembleFrom_c_length as off

theorem assembleFrom_l_length (as : List AssetProblem) (off : Nat)
    (h : ∀ a ∈ as, a.l.length = a.n) :
    (assembleFrom off as).l.length = (as.map (·.n)).sum := by
  induction as generalizing off with
  | nil => simp [assembleFrom]
  | cons a rest ih =>
    have h1 := h a (by simp)
    have h2 := ih (off + a.n) (fun b hb => h b (by simp [hb]))
    simp [assembleFrom, h1, h2]

theorem assembleFrom_u_length (as : List AssetProblem) (off : Nat)
    (h : ∀ a ∈ as, a.u.length = a.n) :
    (assembleFrom off as).u.length = (as.map (·.n)).sum := by
  induction as generalizing off with
  | nil => simp [assembleFrom]
  | cons a rest ih =>
    have h1 := h a (by simp)
    have h2 := ih (off + a.n) (fun b hb => h b (by simp [hb]))
    simp [assembleFrom, h1, h2]

@[simp] theorem assemble_c (as : List AssetProblem) (gridI : List Nat) (skip : List String) :
    (assemble as gridI skip).c = (assembleFrom 0 as).c := rfl
@[simp] theorem assemble_l (as : List AssetProblem) (gridI : List Nat) (skip : List String) :
    (assemble as gridI skip).l = (assembleFrom 0 as).l := rfl
@[simp] theorem assemble_u (as : List AssetProblem) (gridI : List Nat) (skip : List String) :
    (assemble as gridI skip).u = (assembleFrom 0 as).u := rfl
@[simp] theorem assemble_n (as : List AssetProblem) (gridI : List Nat) (skip : List String) :
    (assemble as gridI skip).n = (assembleFrom 0 as).n := rfl
theorem assemble_nodal (as : List AssetProblem) (gridI : List Nat) (skip : List String) :
    (assemble as gridI skip).nodal =
      nodalPairs (assembleFrom 0 as).mapping (portfolioNodes as) skip gridI := rfl
theorem assemble_rows (as : List AssetProblem) (gridI : List Nat) (skip : List String) :
    (assemble as gridI skip).rows = (assembleFrom 0 as).rows ++
      (nodalPairs (assembleFrom 0 as).mapping (portfolioNodes as) skip gridI).map
        (fun p => nodalRow (assembleFrom 0 as).mapping p.2 p.1) := rfl

/-- the block of asset `i` ends inside the assembled vector -/
theorem offset_add_le (as : List AssetProblem) (i : Nat) (hi : i < as.length) :
    ((as.take i).map (·.n)).sum + (as[i]).n ≤ (as.map (·.n)).sum := by
  induction as generalizing i with
  | nil => simp at hi
  | cons a rest ih =>
    cases i with
    | zero => simp
    | succ i =>
      have := ih i (by simpa using hi)
      simp only [List.take_succ_cons, List.map_cons, List.sum_cons, List.getElem_cons_succ]
      omega

/-! ### columns of the asset rows -/

/-- every asset row of the concatenation is a renamed row of one of the assets -/
theorem mem_assembleFrom_rows (as : List AssetProblem) (off : Nat) (r : Row)
    (hr : r ∈ (assembleFrom off as).rows) :
    ∃ a ∈ as, ∃ r' ∈ a.rows, ∃ o, r = r'.rename (o + ·) := by
  induction as generalizing off with
  | nil => simp [assembleFrom] at hr
  | cons a rest ih =>
    simp only [assembleFrom, List.mem_append, List.mem_map] at hr
    rcases hr with ⟨r', hr', rfl⟩ | hr
    · exact ⟨a, by simp, r', hr', off, rfl⟩
    · obtain ⟨b, hb, r', hr', o, rfl⟩ := ih _ hr
      exact ⟨b, by simp [hb], r', hr', o, rfl⟩

@[simp] theorem rename_kind (g : Nat → Nat) (r : Row) : (r.rename g).kind = r.kind := rfl

/-- renaming keeps the kind: no asset row of the concatenation is of kind `N` -/
theorem assembleFrom_rows_noN (as : List AssetProblem) (off : Nat)
    (h : ∀ a ∈ as, ∀ r ∈ a.rows, r.kind ≠ .N) :
    ∀ r ∈ (assembleFrom off as).rows, r.kind ≠ .N := by
  intro r hr
  obtain ⟨a, ha, r', hr', o, rfl⟩ := mem_assembleFrom_rows as off r hr
  simpa using h a ha r' hr'

/-- the columns of the embedded asset rows lie in `[off, off + Σ n)` -/
theorem assembleFrom_cols (as : List AssetProblem) (off : Nat)
    (h : ∀ a ∈ as, ∀ r ∈ a.rows, ∀ p ∈ r.coeffs, p.1 < a.n) :
    ∀ r ∈ (assembleFrom off as).rows, ∀ p ∈ r.coeffs,
      off ≤ p.1 ∧ p.1 < off + (as.map (·.n)).sum := by
  induction as generalizing off with
  | nil => intro r hr; simp [assembleFrom] at hr
  | cons a rest ih =>
    intro r hr p hp
    simp only [assembleFrom, List.mem_append, List.mem_map] at hr
    rcases hr with ⟨r', hr', rfl⟩ | hr
    · simp only [Row.rename, List.mem_map] at hp
      obtain ⟨q, hq, rfl⟩ := hp
      have := h a (by simp) r' hr' q hq
      simp only [List.map_cons, List.sum_cons]
      omega
    · have := ih (off + a.n) (fun b hb => h b (by simp [hb])) r hr p hp
      simp only [List.map_cons, List.sum_cons]
      omega

/-! ### blocks of cost and bounds -/

theorem assembleFrom_c_block (as : List AssetProblem) (off : Nat) (i : Nat) (hi : i < as.length)
    (j : Nat) (hj : j < (as[i]).n) :
    (assembleFrom off as).c.getD (((as.take i).map (·.n)).sum + j) 0 = (as[i]).c.getD j 0 := by
  induction as generalizing off i with
  | nil => simp at hi
  | cons a rest ih =>
    cases i with
    | zero =>
      have hj' : j < a.c.length := hj
      simp [assembleFrom, List.getD_eq_getElem?_getD, List.getElem?_append_left hj']
    | succ i =>
      have := ih (off + a.n) i (by simpa using hi) (by simpa using hj)
      simp only [List.take_succ_cons, List.map_cons, List.sum_cons, List.getElem_cons_succ,
        assembleFrom]
      rw [← this]
      have hle : a.c.length ≤ a.n + ((rest.take i).map (·.n)).sum + j := by
        unfold AssetProblem.n; omega
      simp only [List.getD_eq_getElem?_getD, List.getElem?_append_right hle]
      congr 2
      unfold AssetProblem.n; omega

theorem assembleFrom_l_block (as : List AssetProblem) (off : Nat)
    (h : ∀ a ∈ as, a.l.length = a.n) (i : Nat) (hi : i < as.length)
    (j : Nat) (hj : j < (as[i]).n) :
    (assembleFrom off as).l.getD (((as.take i).map (·.n)).sum + j) 0 = (as[i]).l.getD j 0 := by
  induction as generalizing off i with
  | nil => simp at hi
  | cons a rest ih =>
    have ha := h a (by simp)
    cases i with
    | zero =>
      have hj' : j < a.l.length := by rw [ha]; exact hj
      simp [assembleFrom, List.getD_eq_getElem?_getD, List.getElem?_append_left hj']
    | succ i =>
      have := ih (off + a.n) (fun b hb => h b (by simp [hb])) i (by simpa using hi) (by simpa using hj)
      simp only [List.take_succ_cons, List.map_cons, List.sum_cons, List.getElem_cons_succ,
        assembleFrom]
      rw [← this]
      have hle : a.l.length ≤ a.n + ((rest.take i).map (·.n)).sum + j := by
        rw [ha]; omega
      simp only [List.getD_eq_getElem?_getD, List.getElem?_append_right hle]
      congr 2
      rw [ha]; omega

theorem assembleFrom_u_block (as : List AssetProblem) (off : Nat)
    (h : ∀ a ∈ as, a.u.length = a.n) (i : Nat) (hi : i < as.length)
    (j : Nat) (hj : j < (as[i]).n) :
    (assembleFrom off as).u.getD (((as.take i).map (·.n)).sum + j) 0 = (as[i]).u.getD j 0 := by
  induction as generalizing off i with
  | nil => simp at hi
  | cons a rest ih =>
    have ha := h a (by simp)
    cases i with
    | zero =>
      have hj' : j < a.u.length := by rw [ha]; exact hj
      simp [assembleFrom, List.getD_eq_getElem?_getD, List.getElem?_append_left hj']
    | succ i =>
      have := ih (off + a.n) (fun b hb => h b (by simp [hb])) i (by simpa using hi) (by simpa using hj)
      simp only [List.take_succ_cons, List.map_cons, List.sum_cons, List.getElem_cons_succ,
        assembleFrom]
      rw [← this]
      have hle : a.u.length ≤ a.n + ((rest.take i).map (·.n)).sum + j := by
        rw [ha]; omega
      simp only [List.getD_eq_getElem?_getD, List.getElem?_append_right hle]
      congr 2
      rw [ha]; omega

/-! ### blocks of the mapping -/

/-- every mapping row of the concatenation is the shifted row of the asset it names and points
    into that asset's block -/
theorem assembleFrom_mapping_block (as : List AssetProblem) (off : Nat)
    (h : ∀ a ∈ as, ∀ m ∈ a.mapping, m.asset = a.name ∧ m.var < a.n)
    (m : MapRow) (hm : m ∈ (assembleFrom off as).mapping) :
    ∃ i, ∃ hi : i < as.length, m.asset = (as[i]).name ∧
      off + ((as.take i).map (·.n)).sum ≤ m.var ∧
      m.var < off + ((as.take i).map (·.n)).sum + (as[i]).n ∧
      ∃ m' ∈ (as[i]).mapping, m = m'.shift (off + ((as.take i).map (·.n)).sum) := by
  induction as generalizing off with
  | nil => simp [assembleFrom] at hm
  | cons a rest ih =>
    simp only [assembleFrom, List.mem_append, List.mem_map] at hm
    rcases hm with ⟨m', hm', rfl⟩ | hm
    · have hw := h a (by simp) m' hm'
      refine ⟨0, by simp, ?_, ?_, ?_, m', hm', ?_⟩
      · simpa using hw.1
      · simp
      · simpa using hw.2
      · simp
    · obtain ⟨i, hi, h1, h2, h3, m', hm', h4⟩ :=
        ih (off + a.n) (fun b hb => h b (by simp [hb])) hm
      have e : off + (a.n + ((rest.take i).map (·.n)).sum)
          = off + a.n + ((rest.take i).map (·.n)).sum := by omega
      refine ⟨i + 1, by simpa using hi, ?_, ?_, ?_, m', ?_, ?_⟩
      · simpa using h1
      · simp only [List.take_succ_cons, List.map_cons, List.sum_cons]; omega
      · simp only [List.take_succ_cons, List.map_cons, List.sum_cons, List.getElem_cons_succ]; omega
      · simpa using hm'
      · simp only [List.take_succ_cons, List.map_cons, List.sum_cons]
        rw [e]; exact h4

/-! ### nodal rows -/

theorem mem_nodalRow_coeffs (M : List MapRow) (n : String) (t : Nat) (p : Nat × Rat)
    (hp : p ∈ (nodalRow M n t).coeffs) :
    ∃ m ∈ M, isDisp n t m = true ∧ p = (m.var, m.factor) := by
  simp only [nodalRow, List.mem_map, List.mem_filter] at hp
  obtain ⟨m, ⟨hm, hd⟩, rfl⟩ := hp
  exact ⟨m, hm, hd, rfl⟩

theorem isDisp_iff (n : String) (t : Nat) (m : MapRow) :
    isDisp n t m = true ↔ m.kind = .d ∧ m.node = some n ∧ m.step = t := by
  simp [isDisp, and_assoc]

theorem mem_nodalPairs_iff (M : List MapRow) (nodes skip : List String) (gridI : List Nat)
    (t : Nat) (n : String) :
    (t, n) ∈ nodalPairs M nodes skip gridI ↔
      n ∈ nodes ∧ n ∉ skip ∧ t ∈ gridI ∧ M.any (isDisp n t) = true := by
  unfold nodalPairs
  simp only [List.mem_flatMap, List.mem_filter, List.mem_map, Prod.mk.injEq]
  constructor
  · rintro ⟨n', ⟨hn, hs⟩, t', ⟨ht, hany⟩, rfl, rfl⟩
    exact ⟨hn, by simpa using hs, ht, hany⟩
  · rintro ⟨hn, hs, ht, hany⟩
    exact ⟨n, ⟨hn, by simpa using hs⟩, t, ⟨ht, hany⟩, rfl, rfl⟩

theorem nodup_eraseDups {α} [BEq α] [LawfulBEq α] (l : List α) : l.eraseDups.Nodup := by
  generalize hk : l.length = k
  induction k using Nat.strongRecOn generalizing l with
  | _ k ih =>
    cases l with
    | nil => simp
    | cons a as =>
      rw [List.eraseDups_cons, List.nodup_cons]
      constructor
      · simp
      · have hlen : (as.filter fun b => !b == a).length < k := by
          have := List.length_filter_le (fun b => !b == a) as
          simp at hk; omega
        exact ih _ hlen _ rfl

theorem nodup_portfolioNodes (as : List AssetProblem) : (portfolioNodes as).Nodup :=
  nodup_eraseDups _

theorem nodup_nodalPairs (M : List MapRow) (nodes skip : List String) (gridI : List Nat)
    (hn : nodes.Nodup) (hg : gridI.Nodup) : (nodalPairs M nodes skip gridI).Nodup := by
  unfold nodalPairs
  rw [List.Nodup, List.pairwise_flatMap]
  constructor
  · intro n _
    apply List.Pairwise.map _ _ (List.Pairwise.filter _ hg)
    intro t t' htt' h
    exact htt' (by simpa using h)
  · apply List.Pairwise.filter
    apply List.Pairwise.imp _ hn
    intro n n' hnn' x hx y hy hxy
    simp only [List.mem_map] at hx hy
    obtain ⟨t, _, rfl⟩ := hx
    obtain ⟨t', _, rfl⟩ := hy
    exact hnn' (by simpa using (Prod.mk.inj hxy).2)

/-- the rows of kind `N` are exactly the generated nodal rows, in the order of the nodal record -/
theorem assemble_filter_N (as : List AssetProblem) (gridI : List Nat) (skip : List String)
    (hnoN : ∀ a ∈ as, ∀ r ∈ a.rows, r.kind ≠ .N) :
    (assemble as gridI skip).rows.filter (·.kind == .N) =
      (assemble as gridI skip).nodal.map
        (fun p => nodalRow (assemble as gridI skip).mapping p.2 p.1) := by
  rw [assemble_rows, assemble_nodal, assemble_mapping, List.filter_append]
  have h1 : (assembleFrom 0 as).rows.filter (·.kind == .N) = [] := by
    apply List.filter_eq_nil_iff.mpr
    intro r hr
    have := assembleFrom_rows_noN as 0 hnoN r hr
    simpa using this
  rw [h1, List.nil_append]
  apply List.filter_eq_self.mpr
  intro r hr
  obtain ⟨p, _, rfl⟩ := List.mem_map.mp hr
  simp [nodalRow]

end EAO
