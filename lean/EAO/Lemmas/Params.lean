import EAO.Model.Params
import EAO.Lemmas.Schema
/-!
# EAO.Lemmas.Params — helper lemmas for `get_params_tree` / `get_param` / `set_param` (C11, pkg-params)
-/
namespace EAO.Params
open EAO.Schema

/-! ## the walk -/

/-- `get` without its special case for the empty path -/
def walk : JVal → List Key → Except PathError JVal
  | d, [] => .ok d
  | d, k :: r =>
      match getStep d k with
      | .ok c => walk c r
      | .error e => .error e

theorem getPath_cons (d : JVal) (k : Key) (r : List Key) :
    getPath d (k :: r) = (match getStep d k with
                          | .ok c => walk c r
                          | .error e => .error e) := by
  induction r generalizing d k with
  | nil =>
    simp only [getPath, walk]
    cases getStep d k <;> rfl
  | cons k' r ih =>
    simp only [getPath]
    cases h : getStep d k with
    | error e => rfl
    | ok c =>
      simp only []
      rw [ih c k']
      simp only [walk]

theorem getPath_eq_walk (d : JVal) (p : List Key) (h : p ≠ []) : getPath d p = walk d p := by
  cases p with
  | nil => exact absurd rfl h
  | cons k r => rw [getPath_cons]; simp only [walk]

theorem getPath_cons_cons (d : JVal) (k k' : Key) (r : List Key) :
    getPath d (k :: k' :: r) = (match getStep d k with
                                | .ok c => getPath c (k' :: r)
                                | .error e => .error e) := by
  rfl

/-! ## Python indexing -/

theorem pyIndex_lt {n : Nat} {i : Int} {m : Nat} (h : pyIndex n i = some m) : m < n := by
  unfold pyIndex at h
  split at h
  · split at h
    · cases h; assumption
    · cases h
  · split at h
    · cases h; omega
    · cases h

theorem pyIndex_nonneg {n : Nat} {i : Int} (h0 : 0 ≤ i) :
    pyIndex n i = if i.toNat < n then some i.toNat else none := by
  unfold pyIndex
  simp [h0]

theorem pyIndex_inj_nonneg {n : Nat} {i j : Int} {m : Nat} (hi : 0 ≤ i) (hj : 0 ≤ j)
    (h1 : pyIndex n i = some m) (h2 : pyIndex n j = some m) : i = j := by
  rw [pyIndex_nonneg hi] at h1
  rw [pyIndex_nonneg hj] at h2
  split at h1 <;> split at h2 <;> simp at h1 h2
  omega

/-! ## association lists -/

theorem lookup_assocSet_same (s : String) (v : JVal) :
    ∀ kvs : List (String × JVal), lookup s (assocSet s v kvs) = some v := by
  intro kvs
  induction kvs with
  | nil => simp [assocSet, lookup]
  | cons kv rest ih =>
    obtain ⟨k', w⟩ := kv
    by_cases h : (k' == s) = true
    · simp [assocSet, lookup, h]
    · simp [assocSet, lookup, h, ih]

theorem lookup_assocSet_other (s s' : String) (v : JVal) (hne : s ≠ s') :
    ∀ kvs : List (String × JVal), lookup s' (assocSet s v kvs) = lookup s' kvs := by
  intro kvs
  induction kvs with
  | nil =>
    simp [assocSet, lookup, hne]
  | cons kv rest ih =>
    obtain ⟨k', w⟩ := kv
    by_cases h : (k' == s) = true
    · have e : k' = s := by simpa using h
      have hne' : ¬ ((k' == s') = true) := by
        intro h2
        have : k' = s' := by simpa using h2
        exact hne (e ▸ this)
      simp [assocSet, lookup, h, hne']
    · by_cases h2 : (k' == s') = true
      · simp [assocSet, lookup, h, h2]
      · simp [assocSet, lookup, h, h2, ih]

theorem assocSet_lookup_id (s : String) (v : JVal) :
    ∀ kvs : List (String × JVal), lookup s kvs = some v → assocSet s v kvs = kvs := by
  intro kvs
  induction kvs with
  | nil => intro h; simp [lookup] at h
  | cons kv rest ih =>
    obtain ⟨k', w⟩ := kv
    intro h
    by_cases hk : (k' == s) = true
    · simp only [lookup, hk, if_true] at h
      cases h
      simp [assocSet, hk]
    · simp only [lookup, hk] at h
      simp only [assocSet, hk]
      simp only [Bool.false_eq_true, if_false] at h ⊢
      rw [ih h]

/-! ## one step -/

theorem getStep_setStep_same {d d' w v : JVal} {k : Key}
    (hs : setStep d k v = .ok d') (hg : getStep d k = .ok w) : getStep d' k = .ok v := by
  cases d with
  | obj kvs =>
    cases k with
    | name s =>
      simp only [setStep, Key.toStr] at hs
      cases hs
      simp [getStep, lookup_assocSet_same]
    | idx i => simp [getStep] at hg
  | arr xs =>
    cases k with
    | name s => simp [getStep] at hg
    | idx i =>
      simp only [setStep] at hs
      cases hp : pyIndex xs.length i with
      | none => simp [hp] at hs
      | some n =>
        simp only [hp] at hs
        cases hs
        have hn := pyIndex_lt hp
        simp [getStep, hp, hn]
  | null => simp [setStep] at hs
  | bool b => simp [setStep] at hs
  | int i => simp [setStep] at hs
  | flt q => simp [setStep] at hs
  | str s => simp [setStep] at hs

/-- a new string key of a dictionary can be read afterwards -/
theorem getStep_setStep_name {d d' v : JVal} {s : String}
    (hs : setStep d (.name s) v = .ok d') : getStep d' (.name s) = .ok v := by
  cases d with
  | obj kvs =>
    simp only [setStep, Key.toStr] at hs
    cases hs
    simp [getStep, lookup_assocSet_same]
  | arr xs => simp [setStep] at hs
  | null => simp [setStep] at hs
  | bool b => simp [setStep] at hs
  | int i => simp [setStep] at hs
  | flt q => simp [setStep] at hs
  | str s => simp [setStep] at hs

theorem setStep_getStep_id {d d' v : JVal} {k : Key}
    (hg : getStep d k = .ok v) (hs : setStep d k v = .ok d') : d' = d := by
  cases d with
  | obj kvs =>
    cases k with
    | name s =>
      simp only [setStep, Key.toStr] at hs
      cases hs
      simp only [getStep] at hg
      cases hl : lookup s kvs with
      | none => simp [hl] at hg
      | some w =>
        simp only [hl] at hg
        cases hg
        rw [assocSet_lookup_id s _ kvs hl]
    | idx i => simp [getStep] at hg
  | arr xs =>
    cases k with
    | name s => simp [getStep] at hg
    | idx i =>
      simp only [setStep] at hs
      simp only [getStep] at hg
      cases hp : pyIndex xs.length i with
      | none => simp [hp] at hs
      | some n =>
        simp only [hp] at hs hg
        cases hs
        cases hx : xs[n]? with
        | none => simp [hx] at hg
        | some w =>
          simp only [hx] at hg
          cases hg
          congr 1
          apply List.ext_getElem?
          intro m
          by_cases hm : n = m
          · subst hm
            rw [List.getElem?_set_self (pyIndex_lt hp), hx]
          · rw [List.getElem?_set_ne hm]
  | null => simp [setStep] at hs
  | bool b => simp [setStep] at hs
  | int i => simp [setStep] at hs
  | flt q => simp [setStep] at hs
  | str s => simp [setStep] at hs

/-- item assignment succeeds wherever the look-up succeeded, except on a string -/
theorem setStep_ok_of_getStep_ok {d w : JVal} {k : Key} (x : JVal)
    (hg : getStep d k = .ok w) (hstr : isStr d = false) : ∃ d', setStep d k x = .ok d' := by
  cases d with
  | obj kvs => exact ⟨_, rfl⟩
  | arr xs =>
    cases k with
    | name s => simp [getStep] at hg
    | idx i =>
      simp only [getStep] at hg
      cases hp : pyIndex xs.length i with
      | none => simp [hp] at hg
      | some n => exact ⟨.arr (xs.set n x), by simp [setStep, hp]⟩
  | null => simp [getStep] at hg
  | bool b => simp [getStep] at hg
  | int i => simp [getStep] at hg
  | flt q => simp [getStep] at hg
  | str s => simp [isStr] at hstr

/-- a look-up on a string gives a string -/
theorem getStep_str {s : String} {k : Key} {c : JVal} (h : getStep (.str s) k = .ok c) : isStr c = true := by
  cases k with
  | name n => simp [getStep] at h
  | idx i =>
    simp only [getStep] at h
    cases hp : pyIndex s.toList.length i with
    | none => simp [hp] at h
    | some n =>
      simp only [hp] at h
      cases hx : s.toList[n]? with
      | none => simp [hx] at h
      | some ch =>
        simp only [hx] at h
        cases h
        rfl

theorem isStr_iff {d : JVal} : isStr d = true ↔ ∃ s, d = .str s := by
  cases d <;> simp [isStr]

theorem setStep_str_fails {d : JVal} (h : isStr d = true) (k : Key) (v : JVal) :
    setStep d k v = .error .type := by
  obtain ⟨s, rfl⟩ := isStr_iff.mp h
  cases k <;> rfl

/-- item assignment anywhere below a string fails with `TypeError` -/
theorem setPath_str_fails : ∀ (p : List Key) (d : JVal), isStr d = true → p ≠ [] → ∀ v,
    setPath d p v = .error .type ∨ setPath d p v = .error .index
  | [], _, _, hp, _ => absurd rfl hp
  | [k], d, hd, _, v => by
      left
      simp only [setPath]
      exact setStep_str_fails hd k v
  | k :: k' :: rest, d, hd, _, v => by
      obtain ⟨s, rfl⟩ := isStr_iff.mp hd
      simp only [setPath]
      cases hg : getStep (.str s) k with
      | error e =>
        cases k with
        | name n =>
          simp [getStep] at hg
          subst hg
          left; rfl
        | idx i =>
          simp only [getStep] at hg
          right
          cases hp : pyIndex s.toList.length i with
          | none => simp [hp] at hg; subst hg; rfl
          | some n =>
            simp only [hp] at hg
            cases hx : s.toList[n]? with
            | none => simp [hx] at hg; subst hg; rfl
            | some ch => simp [hx] at hg
      | ok c =>
        simp only []
        have hc := getStep_str hg
        rcases setPath_str_fails (k' :: rest) c hc (by simp) v with h | h <;> rw [h] <;> simp

theorem setPath_str_not_ok {p : List Key} {d t' : JVal} {v : JVal} (hd : isStr d = true)
    (h : setPath d p v = .ok t') : False := by
  cases p with
  | nil => simp [setPath] at h
  | cons k r =>
    rcases setPath_str_fails (k :: r) d hd (by simp) v with e | e <;> rw [e] at h <;> cases h

/-- a step that differs from the one assigned to sees the same child (list positions counted from the front) -/
theorem getStep_setStep_other {d d' c x : JVal} {k k2 : Key}
    (hg : getStep d k = .ok c) (hs : setStep d k x = .ok d') (hne : k ≠ k2)
    (hk : nonNegPath [k] = true) (hk2 : nonNegPath [k2] = true) :
    getStep d' k2 = getStep d k2 := by
  cases d with
  | obj kvs =>
    cases k with
    | idx i => simp [getStep] at hg
    | name s =>
      simp only [setStep, Key.toStr] at hs
      cases hs
      cases k2 with
      | idx j => rfl
      | name s2 =>
        have : s ≠ s2 := fun e => hne (by rw [e])
        simp only [getStep, lookup_assocSet_other s s2 x this kvs]
  | arr xs =>
    cases k with
    | name s => simp [getStep] at hg
    | idx i =>
      simp only [setStep] at hs
      cases hp : pyIndex xs.length i with
      | none => simp [hp] at hs
      | some n =>
        simp only [hp] at hs
        cases hs
        cases k2 with
        | name s2 => rfl
        | idx j =>
          simp only [getStep, List.length_set]
          cases hq : pyIndex xs.length j with
          | none => rfl
          | some m =>
            simp only []
            have hnm : n ≠ m := by
              intro e
              subst e
              have hi : 0 ≤ i := by simpa [nonNegPath] using hk
              have hj : 0 ≤ j := by simpa [nonNegPath] using hk2
              exact hne (by rw [pyIndex_inj_nonneg hi hj hp hq])
            rw [List.getElem?_set_ne hnm]
  | null => simp [getStep] at hg
  | bool b => simp [getStep] at hg
  | int i => simp [getStep] at hg
  | flt q => simp [getStep] at hg
  | str s => simp [setStep] at hs

theorem nonNegPath_cons (k : Key) (r : List Key) :
    nonNegPath (k :: r) = (nonNegPath [k] && nonNegPath r) := by
  simp [nonNegPath]

/-! ## the path functions -/

/-- read-back after an assignment: on a path that was readable, or whose last element is a string -/
theorem getPath_setPath_back : ∀ (p : List Key) (t t' v : JVal),
    setPath t p v = .ok t' →
    ((∃ w, getPath t p = .ok w) ∨ (∃ s, p.getLast? = some (.name s))) →
    getPath t' p = .ok v
  | [], _, _, _, h, _ => by simp [setPath] at h
  | [k], t, t', v, h, hr => by
      simp only [setPath] at h
      simp only [getPath]
      rcases hr with ⟨w, hw⟩ | ⟨s, hs⟩
      · simp only [getPath] at hw
        exact getStep_setStep_same h hw
      · simp only [List.getLast?_singleton, Option.some.injEq] at hs
        subst hs
        exact getStep_setStep_name h
  | k :: k' :: rest, t, t', v, h, hr => by
      simp only [setPath] at h
      rw [getPath_cons_cons]
      cases hg : getStep t k with
      | error e => simp [hg] at h
      | ok c =>
        simp only [hg] at h
        cases hc : setPath c (k' :: rest) v with
        | error e => simp [hc] at h
        | ok c' =>
          simp only [hc] at h
          rw [getStep_setStep_same h hg]
          simp only []
          apply getPath_setPath_back (k' :: rest) c c' v hc
          rcases hr with ⟨w, hw⟩ | ⟨s, hs⟩
          · left
            rw [getPath_cons_cons, hg] at hw
            exact ⟨w, hw⟩
          · right
            refine ⟨s, ?_⟩
            simpa [List.getLast?_cons_cons] using hs

theorem setPath_getPath_id : ∀ (p : List Key) (t t' v : JVal),
    getPath t p = .ok v → setPath t p v = .ok t' → t' = t
  | [], _, _, _, h, _ => by simp [getPath] at h
  | [k], t, t', v, hg, hs => by
      simp only [getPath] at hg
      simp only [setPath] at hs
      exact setStep_getStep_id hg hs
  | k :: k' :: rest, t, t', v, hg, hs => by
      rw [getPath_cons_cons] at hg
      simp only [setPath] at hs
      cases hk : getStep t k with
      | error e => simp [hk] at hg
      | ok c =>
        simp only [hk] at hg hs
        cases hc : setPath c (k' :: rest) v with
        | error e => simp [hc] at hs
        | ok c' =>
          simp only [hc] at hs
          have : c' = c := setPath_getPath_id (k' :: rest) c c' v hg hc
          subst this
          exact setStep_getStep_id hk hs

theorem strStep_cons (d : JVal) (k : Key) (r : List Key) :
    strStep d (k :: r) = (isStr d || (match getStep d k with
                                      | .ok c => strStep c r
                                      | .error _ => false)) := by
  rfl

/-- on a readable path the assignment succeeds iff no step indexes into a string -/
theorem setPath_ok_iff : ∀ (p : List Key) (t w v : JVal), getPath t p = .ok w →
    ((∃ t', setPath t p v = .ok t') ↔ strStep t p = false)
  | [], _, _, _, h => by simp [getPath] at h
  | [k], t, w, v, hg => by
      simp only [getPath] at hg
      rw [strStep_cons, hg]
      simp only [setPath, strStep, Bool.or_false]
      constructor
      · rintro ⟨t', ht'⟩
        cases hs : isStr t with
        | false => rfl
        | true => rw [setStep_str_fails hs] at ht'; cases ht'
      · intro hs
        exact setStep_ok_of_getStep_ok v hg hs
  | k :: k' :: rest, t, w, v, hg => by
      rw [getPath_cons_cons] at hg
      cases hk : getStep t k with
      | error e => simp [hk] at hg
      | ok c =>
        simp only [hk] at hg
        rw [strStep_cons, hk]
        simp only [setPath, hk]
        have ih := setPath_ok_iff (k' :: rest) c w v hg
        constructor
        · rintro ⟨t', ht'⟩
          cases hc : setPath c (k' :: rest) v with
          | error e => simp [hc] at ht'
          | ok c' =>
            simp only [hc] at ht'
            have h1 : strStep c (k' :: rest) = false := ih.mp ⟨c', hc⟩
            cases hs : isStr t with
            | false => simp [h1]
            | true => rw [setStep_str_fails hs] at ht'; cases ht'
        · intro hs
          simp only [Bool.or_eq_false_iff] at hs
          obtain ⟨c', hc⟩ := ih.mpr hs.2
          obtain ⟨t', ht'⟩ := setStep_ok_of_getStep_ok c' hk hs.1
          exact ⟨t', by simp [hc, ht']⟩

/-- values elsewhere are untouched -/
theorem getPath_setPath_other : ∀ (p q : List Key) (t t' w v : JVal),
    getPath t p = .ok w → setPath t p v = .ok t' →
    nonNegPath p = true → nonNegPath q = true → ¬ p <+: q → ¬ q <+: p →
    getPath t' q = getPath t q
  | [], _, _, _, _, _, h, _, _, _, _, _ => by simp [getPath] at h
  | _ :: _, [], _, _, _, _, _, _, _, _, _, hqp => absurd List.nil_prefix hqp
  | k :: pr, k2 :: qr, t, t', w, v, hg, hs, hp, hq, hpq, hqp => by
      rw [nonNegPath_cons] at hp hq
      simp only [Bool.and_eq_true] at hp hq
      -- the node after the assignment is `setStep t k x` for some `x`, and the look-up of `k` succeeded
      have hstep : ∃ c x, getStep t k = .ok c ∧ setStep t k x = .ok t' ∧
          (pr = [] ∨ (pr ≠ [] ∧ getPath c pr = .ok w ∧ setPath c pr v = .ok x)) := by
        cases pr with
        | nil =>
          simp only [getPath] at hg
          simp only [setPath] at hs
          exact ⟨w, v, hg, hs, Or.inl rfl⟩
        | cons k' rest =>
          rw [getPath_cons_cons] at hg
          simp only [setPath] at hs
          cases hk : getStep t k with
          | error e => simp [hk] at hg
          | ok c =>
            simp only [hk] at hg hs
            cases hc : setPath c (k' :: rest) v with
            | error e => simp [hc] at hs
            | ok c' =>
              simp only [hc] at hs
              exact ⟨c, c', rfl, hs, Or.inr ⟨by simp, hg, hc⟩⟩
      obtain ⟨c, x, hk, hset, hrest⟩ := hstep
      by_cases hkk : k = k2
      · subst hkk
        rcases hrest with hnil | ⟨hne, hgc, hsc⟩
        · subst hnil
          exact absurd (List.cons_prefix_cons.mpr ⟨rfl, List.nil_prefix⟩) hpq
        · have hqne : qr ≠ [] := by
            intro e; subst e
            exact hqp (List.cons_prefix_cons.mpr ⟨rfl, List.nil_prefix⟩)
          rw [getPath_cons, getPath_cons, getStep_setStep_same hset hk, hk]
          simp only []
          rw [← getPath_eq_walk x qr hqne, ← getPath_eq_walk c qr hqne]
          apply getPath_setPath_other pr qr c x w v hgc hsc hp.2 hq.2
          · intro h; exact hpq (List.cons_prefix_cons.mpr ⟨rfl, h⟩)
          · intro h; exact hqp (List.cons_prefix_cons.mpr ⟨rfl, h⟩)
      · rw [getPath_cons, getPath_cons, getStep_setStep_other hk hset hkk hp.1 hq.1]

/-! ## the key list: two-level recursion = one-level recursion -/

theorem toPath_entryOf (p : List Key) : (entryOf p).toPath = p := by
  match p with
  | [] => rfl
  | [_] => rfl
  | _ :: _ :: _ => rfl

theorem entryOf_cons_cons (a b : Key) (r : List Key) : entryOf (a :: b :: r) = .path (a :: b :: r) := rfl

mutual
  theorem keys1_eq : ∀ t : JVal, keys1 t = (leafPaths t).map entryOf
    | .arr xs => by
        simp only [keys1, leafPaths]
        exact level1List_eq 0 xs
    | .obj kvs => by
        simp only [keys1, leafPaths]
        exact level1Fields_eq kvs
    | .null => rfl
    | .bool _ => rfl
    | .int _ => rfl
    | .flt _ => rfl
    | .str _ => rfl
  theorem level1List_eq : ∀ (i : Nat) (xs : List JVal),
      level1List i xs = (leafPathsList i xs).map entryOf
    | _, [] => rfl
    | i, c :: cs => by
        simp only [level1List, leafPathsList, List.map_append]
        rw [level1Child_eq (.idx i) c, level1List_eq (i + 1) cs]
  theorem level1Fields_eq : ∀ (kvs : List (String × JVal)),
      level1Fields kvs = (leafPathsFields kvs).map entryOf
    | [] => rfl
    | (k, c) :: rest => by
        simp only [level1Fields, leafPathsFields, List.map_append]
        rw [level1Child_eq (.name k) c, level1Fields_eq rest]
  theorem level1Child_eq : ∀ (k : Key) (c : JVal),
      level1Child k c = (leafPathsChild k c).map entryOf
    | k, .arr ys => by
        simp only [level1Child, leafPathsChild]
        rw [level2List_eq k 0 ys]
        simp [List.map_map, Function.comp_def]
    | k, .obj kvs => by
        simp only [level1Child, leafPathsChild]
        rw [level2Fields_eq k kvs]
        simp [List.map_map, Function.comp_def]
    | _, .null => rfl
    | _, .bool _ => rfl
    | _, .int _ => rfl
    | _, .flt _ => rfl
    | _, .str _ => rfl
  theorem level2List_eq : ∀ (k : Key) (i : Nat) (gs : List JVal),
      level2List k i gs = (leafPathsList i gs).map (fun p => entryOf (k :: p))
    | _, _, [] => rfl
    | k, i, g :: gs => by
        simp only [level2List, leafPathsList, List.map_append]
        rw [level2Child_eq k (.idx i) g, level2List_eq k (i + 1) gs]
  theorem level2Fields_eq : ∀ (k : Key) (kvs : List (String × JVal)),
      level2Fields k kvs = (leafPathsFields kvs).map (fun p => entryOf (k :: p))
    | _, [] => rfl
    | k, (m, g) :: rest => by
        simp only [level2Fields, leafPathsFields, List.map_append]
        rw [level2Child_eq k (.name m) g, level2Fields_eq k rest]
  theorem level2Child_eq : ∀ (k m : Key) (g : JVal),
      level2Child k m g = (leafPathsChild m g).map (fun p => entryOf (k :: p))
    | k, m, .arr zs => by
        simp only [level2Child, leafPathsChild]
        rw [level1List_eq 0 zs]
        simp [List.map_map, Function.comp_def, toPath_entryOf, entryOf_cons_cons]
    | k, m, .obj kvs => by
        simp only [level2Child, leafPathsChild]
        rw [level1Fields_eq kvs]
        simp [List.map_map, Function.comp_def, toPath_entryOf, entryOf_cons_cons]
    | _, _, .null => rfl
    | _, _, .bool _ => rfl
    | _, _, .int _ => rfl
    | _, _, .flt _ => rfl
    | _, _, .str _ => rfl
end

/-! ## membership in the flat path list -/

/-- `c` is the child of `t` under the key `k` (list positions from the front) -/
def Child : JVal → Key → JVal → Prop
  | .arr xs, .idx i, c => 0 ≤ i ∧ xs[i.toNat]? = some c
  | .obj kvs, .name s, c => (s, c) ∈ kvs
  | _, _, _ => False

theorem mem_leafPathsChild {p : List Key} {k : Key} {c : JVal} :
    p ∈ leafPathsChild k c ↔
      ∃ r, p = k :: r ∧ (if isContainer c = true then r ∈ leafPaths c else r = []) := by
  cases c with
  | arr xs =>
    simp only [leafPathsChild, leafPaths, isContainer, if_true, List.mem_map]
    constructor
    · rintro ⟨r, hr, e⟩; exact ⟨r, e.symm, hr⟩
    · rintro ⟨r, e, hr⟩; exact ⟨r, hr, e.symm⟩
  | obj kvs =>
    simp only [leafPathsChild, leafPaths, isContainer, if_true, List.mem_map]
    constructor
    · rintro ⟨r, hr, e⟩; exact ⟨r, e.symm, hr⟩
    · rintro ⟨r, e, hr⟩; exact ⟨r, hr, e.symm⟩
  | null => simp [leafPathsChild, isContainer]
  | bool b => simp [leafPathsChild, isContainer]
  | int i => simp [leafPathsChild, isContainer]
  | flt q => simp [leafPathsChild, isContainer]
  | str s => simp [leafPathsChild, isContainer]

theorem mem_leafPathsList {p : List Key} : ∀ (xs : List JVal) (i : Nat),
    p ∈ leafPathsList i xs ↔ ∃ j c, xs[j]? = some c ∧ p ∈ leafPathsChild (.idx ((i + j : Nat) : Int)) c := by
  intro xs
  induction xs with
  | nil => intro i; simp [leafPathsList]
  | cons x xs ih =>
    intro i
    simp only [leafPathsList, List.mem_append, ih (i + 1)]
    constructor
    · rintro (h | ⟨j, c, hj, hc⟩)
      · exact ⟨0, x, by simp, by simpa using h⟩
      · refine ⟨j + 1, c, by simpa using hj, ?_⟩
        have : i + 1 + j = i + (j + 1) := by omega
        rw [← this]; exact hc
    · rintro ⟨j, c, hj, hc⟩
      cases j with
      | zero =>
        left
        simp only [List.getElem?_cons_zero, Option.some.injEq] at hj
        subst hj
        simpa using hc
      | succ j =>
        right
        refine ⟨j, c, by simpa using hj, ?_⟩
        have : i + 1 + j = i + (j + 1) := by omega
        rw [this]; exact hc

theorem mem_leafPathsFields {p : List Key} : ∀ (kvs : List (String × JVal)),
    p ∈ leafPathsFields kvs ↔ ∃ s c, (s, c) ∈ kvs ∧ p ∈ leafPathsChild (.name s) c := by
  intro kvs
  induction kvs with
  | nil => simp [leafPathsFields]
  | cons kv rest ih =>
    obtain ⟨k, x⟩ := kv
    simp only [leafPathsFields, List.mem_append, ih, List.mem_cons]
    constructor
    · rintro (h | ⟨s, c, hm, hc⟩)
      · exact ⟨k, x, Or.inl rfl, h⟩
      · exact ⟨s, c, Or.inr hm, hc⟩
    · rintro ⟨s, c, (e | hm), hc⟩
      · cases e; exact Or.inl hc
      · exact Or.inr ⟨s, c, hm, hc⟩

theorem mem_leafPaths_iff {p : List Key} {t : JVal} :
    p ∈ leafPaths t ↔
      ∃ k c r, Child t k c ∧ p = k :: r ∧ (if isContainer c = true then r ∈ leafPaths c else r = []) := by
  cases t with
  | arr xs =>
    simp only [leafPaths, mem_leafPathsList, mem_leafPathsChild]
    constructor
    · rintro ⟨j, c, hj, r, e, hr⟩
      refine ⟨.idx ((0 + j : Nat) : Int), c, r, ?_, e, hr⟩
      simp only [Child]
      refine ⟨by omega, ?_⟩
      simpa using hj
    · rintro ⟨k, c, r, hch, e, hr⟩
      cases k with
      | name s => simp [Child] at hch
      | idx i =>
        simp only [Child] at hch
        refine ⟨i.toNat, c, hch.2, r, ?_, hr⟩
        rw [e]
        congr 2
        simp only [Nat.zero_add]
        exact (Int.toNat_of_nonneg hch.1).symm
  | obj kvs =>
    simp only [leafPaths, mem_leafPathsFields, mem_leafPathsChild]
    constructor
    · rintro ⟨s, c, hm, r, e, hr⟩
      exact ⟨.name s, c, r, by simpa [Child] using hm, e, hr⟩
    · rintro ⟨k, c, r, hch, e, hr⟩
      cases k with
      | idx i => simp [Child] at hch
      | name s => exact ⟨s, c, by simpa [Child] using hch, r, e, hr⟩
  | null => simp [leafPaths, Child]
  | bool b => simp [leafPaths, Child]
  | int i => simp [leafPaths, Child]
  | flt q => simp [leafPaths, Child]
  | str s => simp [leafPaths, Child]

/-! ## children and look-ups -/

theorem nodupKeysList_get : ∀ (xs : List JVal) (j : Nat) (c : JVal),
    nodupKeysList xs = true → xs[j]? = some c → nodupKeys c = true := by
  intro xs
  induction xs with
  | nil => intro j c _ h; simp at h
  | cons x xs ih =>
    intro j c h hj
    simp only [nodupKeysList, Bool.and_eq_true] at h
    cases j with
    | zero => simp at hj; subst hj; exact h.1
    | succ j => exact ih j c h.2 (by simpa using hj)

theorem nodupKeysFields_mem : ∀ (kvs : List (String × JVal)) (s : String) (c : JVal),
    nodupKeysFields kvs = true → (s, c) ∈ kvs → nodupKeys c = true := by
  intro kvs
  induction kvs with
  | nil => intro s c _ h; cases h
  | cons kv rest ih =>
    obtain ⟨k, x⟩ := kv
    intro s c h hm
    simp only [nodupKeysFields, Bool.and_eq_true] at h
    rcases List.mem_cons.mp hm with e | hm
    · cases e; exact h.1
    · exact ih s c h.2 hm

theorem lookup_of_mem_nodup {β : Type} : ∀ (kvs : List (String × β)) (s : String) (c : β),
    nodupB (kvs.map (·.1)) = true → (s, c) ∈ kvs → lookup s kvs = some c := by
  intro kvs
  induction kvs with
  | nil => intro s c _ h; cases h
  | cons kv rest ih =>
    obtain ⟨k, x⟩ := kv
    intro s c h hm
    have h' : nodupB (k :: rest.map (·.1)) = true := by simpa using h
    obtain ⟨hnot, hnd⟩ := nodupB_cons h'
    rcases List.mem_cons.mp hm with e | hm
    · cases e; simp [lookup]
    · have hne : k ≠ s := by
        intro e; apply hnot; rw [e]
        exact List.mem_map.mpr ⟨(s, c), hm, rfl⟩
      simp [lookup, hne, ih s c hnd hm]

theorem getStep_of_child {t c : JVal} {k : Key} (hnd : nodupKeys t = true) (h : Child t k c) :
    getStep t k = .ok c ∧ nonNegPath [k] = true ∧ isStr t = false ∧ nodupKeys c = true := by
  cases t with
  | arr xs =>
    cases k with
    | name s => simp [Child] at h
    | idx i =>
      simp only [Child] at h
      obtain ⟨h0, hx⟩ := h
      have hlt : i.toNat < xs.length := by
        rcases Nat.lt_or_ge i.toNat xs.length with hl | hl
        · exact hl
        · rw [List.getElem?_eq_none hl] at hx; cases hx
      refine ⟨?_, by simp [nonNegPath, h0], rfl, ?_⟩
      · simp only [getStep, pyIndex_nonneg h0, hlt, if_true, hx]
      · exact nodupKeysList_get xs _ c (by simpa [nodupKeys] using hnd) hx
  | obj kvs =>
    cases k with
    | idx i => simp [Child] at h
    | name s =>
      simp only [Child] at h
      simp only [nodupKeys, Bool.and_eq_true] at hnd
      refine ⟨?_, by simp [nonNegPath], rfl, nodupKeysFields_mem kvs s c hnd.2 h⟩
      simp [getStep, lookup_of_mem_nodup kvs s c hnd.1 h]
  | null => simp [Child] at h
  | bool b => simp [Child] at h
  | int i => simp [Child] at h
  | flt q => simp [Child] at h
  | str s => simp [Child] at h

theorem child_of_getStep {t c : JVal} {k : Key} (hg : getStep t k = .ok c) (hs : isStr t = false)
    (hk : nonNegPath [k] = true) : Child t k c := by
  cases t with
  | arr xs =>
    cases k with
    | name s => simp [getStep] at hg
    | idx i =>
      have h0 : 0 ≤ i := by simpa [nonNegPath] using hk
      simp only [getStep, pyIndex_nonneg h0] at hg
      by_cases hlt : i.toNat < xs.length
      · simp only [hlt, if_true] at hg
        cases hx : xs[i.toNat]? with
        | none => simp only [hx] at hg; cases hg
        | some w => simp only [hx] at hg; cases hg; exact ⟨h0, hx⟩
      · simp only [hlt, if_false] at hg; cases hg
  | obj kvs =>
    cases k with
    | idx i => simp [getStep] at hg
    | name s =>
      simp only [getStep] at hg
      cases hl : lookup s kvs with
      | none => simp [hl] at hg
      | some w =>
        simp only [hl] at hg
        cases hg
        exact lookup_mem hl
  | null => simp [getStep] at hg
  | bool b => simp [getStep] at hg
  | int i => simp [getStep] at hg
  | flt q => simp [getStep] at hg
  | str s => simp [isStr] at hs

theorem getStep_scalar_fails {c : JVal} (hc : isContainer c = false) (hs : isStr c = false) (k : Key) :
    ∃ e, getStep c k = .error e := by
  cases c with
  | arr xs => simp [isContainer] at hc
  | obj kvs => simp [isContainer] at hc
  | str s => simp [isStr] at hs
  | null => exact ⟨_, rfl⟩
  | bool b => exact ⟨_, rfl⟩
  | int i => exact ⟨_, rfl⟩
  | flt q => exact ⟨_, rfl⟩

/-! ## listed paths are valid; valid paths to scalars are listed -/

theorem leafPaths_valid : ∀ (p : List Key) (t : JVal), nodupKeys t = true → p ∈ leafPaths t →
    ∃ v, getPath t p = .ok v ∧ isContainer v = false ∧ nonNegPath p = true ∧ strStep t p = false
  | [], t, _, h => by
      obtain ⟨k, c, r, _, e, _⟩ := mem_leafPaths_iff.mp h
      cases e
  | k0 :: r0, t, hnd, h => by
      obtain ⟨k, c, r, hch, e, hr⟩ := mem_leafPaths_iff.mp h
      cases e
      obtain ⟨hg, hk, hs, hndc⟩ := getStep_of_child hnd hch
      by_cases hc : isContainer c = true
      · simp only [hc, if_true] at hr
        obtain ⟨v, hv, hsc, hnn, hss⟩ := leafPaths_valid r0 c hndc hr
        have hne : r0 ≠ [] := by
          intro e; subst e; simp [getPath] at hv
        refine ⟨v, ?_, hsc, ?_, ?_⟩
        · rw [getPath_cons, hg]; simp only []
          rw [← getPath_eq_walk c r0 hne]; exact hv
        · rw [nonNegPath_cons, hk, hnn]; rfl
        · rw [strStep_cons, hg, hs]; simpa using hss
      · simp only [hc] at hr
        simp only [Bool.false_eq_true, if_false] at hr
        subst hr
        refine ⟨c, ?_, by simpa using hc, hk, ?_⟩
        · simpa [getPath] using hg
        · rw [strStep_cons, hg, hs]; simp [strStep]

theorem leafPaths_complete : ∀ (p : List Key) (t v : JVal), getPath t p = .ok v →
    isContainer v = false → nonNegPath p = true → strStep t p = false → p ∈ leafPaths t
  | [], _, _, h, _, _, _ => by simp [getPath] at h
  | k :: r, t, v, hg, hv, hnn, hss => by
      rw [getPath_cons] at hg
      rw [nonNegPath_cons] at hnn
      simp only [Bool.and_eq_true] at hnn
      rw [strStep_cons] at hss
      simp only [Bool.or_eq_false_iff] at hss
      cases hk : getStep t k with
      | error e => simp [hk] at hg
      | ok c =>
        simp only [hk] at hg hss
        have hch := child_of_getStep hk hss.1 hnn.1
        apply mem_leafPaths_iff.mpr
        refine ⟨k, c, r, hch, rfl, ?_⟩
        cases r with
        | nil =>
          simp only [walk] at hg
          cases hg
          simp [hv]
        | cons k' rest =>
          have hg' : getPath c (k' :: rest) = .ok v := by
            rw [getPath_eq_walk c _ (by simp)]; exact hg
          have hcs : isStr c = false := by
            have := hss.2
            rw [strStep_cons] at this
            simp only [Bool.or_eq_false_iff] at this
            exact this.1
          have hcc : isContainer c = true := by
            cases hcc : isContainer c with
            | true => rfl
            | false =>
              obtain ⟨e, he⟩ := getStep_scalar_fails hcc hcs k'
              rw [getPath_cons, he] at hg'
              cases hg'
          simp only [hcc, if_true]
          exact leafPaths_complete (k' :: rest) c v hg' hv hnn.2 hss.2

/-! ## no path is listed twice -/

theorem head_leafPathsChild {p : List Key} {k : Key} {c : JVal} (h : p ∈ leafPathsChild k c) :
    ∃ r, p = k :: r := by
  obtain ⟨r, e, _⟩ := mem_leafPathsChild.mp h
  exact ⟨r, e⟩

theorem nodup_map_cons {k : Key} {l : List (List Key)} (h : l.Nodup) : (l.map (k :: ·)).Nodup := by
  unfold List.Nodup at h ⊢
  rw [List.pairwise_map]
  exact h.imp (fun hne e => hne (List.cons.inj e).2)

mutual
  theorem leafPaths_nodup : ∀ t : JVal, nodupKeys t = true → (leafPaths t).Nodup
    | .arr xs, h => by
        simp only [leafPaths]
        exact leafPathsList_nodup 0 xs (by simpa [nodupKeys] using h)
    | .obj kvs, h => by
        simp only [leafPaths]
        simp only [nodupKeys, Bool.and_eq_true] at h
        exact leafPathsFields_nodup kvs h.1 h.2
    | .null, _ => List.nodup_nil
    | .bool _, _ => List.nodup_nil
    | .int _, _ => List.nodup_nil
    | .flt _, _ => List.nodup_nil
    | .str _, _ => List.nodup_nil
  theorem leafPathsList_nodup : ∀ (i : Nat) (xs : List JVal), nodupKeysList xs = true →
      (leafPathsList i xs).Nodup
    | _, [], _ => List.nodup_nil
    | i, c :: cs, h => by
        simp only [nodupKeysList, Bool.and_eq_true] at h
        simp only [leafPathsList]
        refine List.nodup_append.mpr ⟨leafPathsChild_nodup (.idx i) c h.1, leafPathsList_nodup (i + 1) cs h.2, ?_⟩
        intro a ha b hb e
        subst e
        obtain ⟨r, e1⟩ := head_leafPathsChild ha
        obtain ⟨j, c', _, hc'⟩ := (mem_leafPathsList cs (i + 1)).mp hb
        obtain ⟨r', e2⟩ := head_leafPathsChild hc'
        rw [e1] at e2
        have := (List.cons.inj e2).1
        simp only [Key.idx.injEq] at this
        omega
  theorem leafPathsFields_nodup : ∀ (kvs : List (String × JVal)), nodupB (kvs.map (·.1)) = true →
      nodupKeysFields kvs = true → (leafPathsFields kvs).Nodup
    | [], _, _ => List.nodup_nil
    | (k, c) :: rest, hk, h => by
        simp only [nodupKeysFields, Bool.and_eq_true] at h
        have hk' : nodupB (k :: rest.map (·.1)) = true := by simpa using hk
        obtain ⟨hnot, hnd⟩ := nodupB_cons hk'
        simp only [leafPathsFields]
        refine List.nodup_append.mpr ⟨leafPathsChild_nodup (.name k) c h.1, leafPathsFields_nodup rest hnd h.2, ?_⟩
        intro a ha b hb e
        subst e
        obtain ⟨r, e1⟩ := head_leafPathsChild ha
        obtain ⟨s, c', hm, hc'⟩ := (mem_leafPathsFields rest).mp hb
        obtain ⟨r', e2⟩ := head_leafPathsChild hc'
        rw [e1] at e2
        have := (List.cons.inj e2).1
        simp only [Key.name.injEq] at this
        apply hnot
        rw [this]
        exact List.mem_map.mpr ⟨(s, c'), hm, rfl⟩
  theorem leafPathsChild_nodup : ∀ (k : Key) (c : JVal), nodupKeys c = true → (leafPathsChild k c).Nodup
    | k, .arr xs, h => by
        simp only [leafPathsChild]
        exact nodup_map_cons (leafPathsList_nodup 0 xs (by simpa [nodupKeys] using h))
    | k, .obj kvs, h => by
        simp only [leafPathsChild]
        simp only [nodupKeys, Bool.and_eq_true] at h
        exact nodup_map_cons (leafPathsFields_nodup kvs h.1 h.2)
    | _, .null, _ => by simp [leafPathsChild]
    | _, .bool _, _ => by simp [leafPathsChild]
    | _, .int _, _ => by simp [leafPathsChild]
    | _, .flt _, _ => by simp [leafPathsChild]
    | _, .str _, _ => by simp [leafPathsChild]
end

theorem entryOf_injective {p q : List Key} (h : entryOf p = entryOf q) : p = q := by
  have := congrArg KeyEntry.toPath h
  simpa [toPath_entryOf] using this

/-! ## a scalar written over a scalar keeps the key list -/

theorem leafPathsChild_container {t : JVal} (h : isContainer t = true) (k : Key) :
    leafPathsChild k t = (leafPaths t).map (k :: ·) := by
  cases t <;> simp [isContainer] at h <;> simp [leafPathsChild, leafPaths]

theorem leafPathsChild_scalar {t : JVal} (h : isContainer t = false) (k : Key) :
    leafPathsChild k t = [[k]] := by
  cases t <;> simp [isContainer] at h <;> simp [leafPathsChild]

theorem leafPathsFields_assocSet (s : String) (c c' : JVal)
    (hsame : ∀ k, leafPathsChild k c' = leafPathsChild k c) :
    ∀ kvs : List (String × JVal), lookup s kvs = some c →
      leafPathsFields (assocSet s c' kvs) = leafPathsFields kvs := by
  intro kvs
  induction kvs with
  | nil => intro h; simp [lookup] at h
  | cons kv rest ih =>
    obtain ⟨k, x⟩ := kv
    intro h
    by_cases hk : (k == s) = true
    · simp only [lookup, hk, if_true, Option.some.injEq] at h
      subst h
      simp [assocSet, hk, leafPathsFields, hsame]
    · simp only [lookup, hk, Bool.false_eq_true, if_false] at h
      simp [assocSet, hk, leafPathsFields, ih h]

theorem leafPathsList_set (c c' : JVal) (hsame : ∀ k, leafPathsChild k c' = leafPathsChild k c) :
    ∀ (xs : List JVal) (n i : Nat), xs[n]? = some c →
      leafPathsList i (xs.set n c') = leafPathsList i xs := by
  intro xs
  induction xs with
  | nil => intro n i h; simp at h
  | cons x xs ih =>
    intro n i h
    cases n with
    | zero =>
      simp only [List.getElem?_cons_zero, Option.some.injEq] at h
      subst h
      simp [List.set, leafPathsList, hsame]
    | succ n =>
      simp only [List.getElem?_cons_succ] at h
      simp [List.set, leafPathsList, ih n (i + 1) h]

theorem leaves_step {t t' c c' : JVal} {k : Key} (hg : getStep t k = .ok c) (hs : setStep t k c' = .ok t')
    (hsame : ∀ k, leafPathsChild k c' = leafPathsChild k c) :
    leafPaths t' = leafPaths t ∧ isContainer t' = true ∧ isContainer t = true := by
  cases t with
  | obj kvs =>
    cases k with
    | idx i => simp [getStep] at hg
    | name s =>
      simp only [setStep, Key.toStr] at hs
      cases hs
      simp only [getStep] at hg
      cases hl : lookup s kvs with
      | none => simp [hl] at hg
      | some w =>
        simp only [hl] at hg
        cases hg
        exact ⟨by simp [leafPaths, leafPathsFields_assocSet s _ c' hsame kvs hl], rfl, rfl⟩
  | arr xs =>
    cases k with
    | name s => simp [getStep] at hg
    | idx i =>
      simp only [setStep] at hs
      simp only [getStep] at hg
      cases hp : pyIndex xs.length i with
      | none => simp [hp] at hs
      | some n =>
        simp only [hp] at hs hg
        cases hs
        cases hx : xs[n]? with
        | none => simp [hx] at hg
        | some w =>
          simp only [hx] at hg
          cases hg
          exact ⟨by simp [leafPaths, leafPathsList_set _ c' hsame xs n 0 hx], rfl, rfl⟩
  | null => simp [setStep] at hs
  | bool b => simp [setStep] at hs
  | int i => simp [setStep] at hs
  | flt q => simp [setStep] at hs
  | str s => simp [setStep] at hs

theorem leaves_after_set_scalar : ∀ (p : List Key) (t t' w v : JVal),
    getPath t p = .ok w → isContainer w = false → isContainer v = false → setPath t p v = .ok t' →
    leafPaths t' = leafPaths t ∧ isContainer t' = true ∧ isContainer t = true
  | [], _, _, _, _, h, _, _, _ => by simp [getPath] at h
  | [k], t, t', w, v, hg, hw, hv, hs => by
      simp only [getPath] at hg
      simp only [setPath] at hs
      apply leaves_step hg hs
      intro k2
      rw [leafPathsChild_scalar hv, leafPathsChild_scalar hw]
  | k :: k' :: rest, t, t', w, v, hg, hw, hv, hs => by
      rw [getPath_cons_cons] at hg
      simp only [setPath] at hs
      cases hk : getStep t k with
      | error e => simp [hk] at hg
      | ok c =>
        simp only [hk] at hg hs
        cases hc : setPath c (k' :: rest) v with
        | error e => simp [hc] at hs
        | ok c' =>
          simp only [hc] at hs
          obtain ⟨h1, h2, h3⟩ := leaves_after_set_scalar (k' :: rest) c c' w v hg hw hv hc
          apply leaves_step hk hs
          intro k2
          rw [leafPathsChild_container h2, leafPathsChild_container h3, h1]

/-! ## which exception `sett` raises -/

theorem setStep_parent_ok {t c c' v : JVal} {k : Key} {r : List Key}
    (hg : getStep t k = .ok c) (hs : setPath c r v = .ok c') : ∃ t', setStep t k c' = .ok t' := by
  cases hst : isStr t with
  | false => exact setStep_ok_of_getStep_ok c' hg hst
  | true =>
    obtain ⟨s, rfl⟩ := isStr_iff.mp hst
    exact (setPath_str_not_ok (getStep_str hg) hs).elim

theorem setPath_error_iff : ∀ (q : List Key) (t : JVal) (k : Key) (v : JVal) (e : PathError), q ≠ [] →
    (setPath t (q ++ [k]) v = .error e ↔
      (getPath t q = .error e ∨ ∃ d, getPath t q = .ok d ∧ setStep d k v = .error e))
  | [], _, _, _, _, h => absurd rfl h
  | [k0], t, k, v, e, _ => by
      simp only [List.singleton_append, setPath, getPath]
      cases hg : getStep t k0 with
      | error e' => simp
      | ok c =>
        simp only []
        cases hs : setStep c k v with
        | error e' => simp [hs]
        | ok c' =>
          obtain ⟨t', ht'⟩ := setStep_parent_ok (r := [k]) hg (by simpa [setPath] using hs)
          simp [ht', hs]
  | k0 :: k1 :: rest, t, k, v, e, _ => by
      have ih := fun c => setPath_error_iff (k1 :: rest) c k v e (by simp)
      simp only [List.cons_append] at ih ⊢
      simp only [setPath]
      rw [getPath_cons_cons]
      cases hg : getStep t k0 with
      | error e' => simp
      | ok c =>
        simp only []
        cases hs : setPath c (k1 :: (rest ++ [k])) v with
        | error e' =>
          have := ih c
          rw [hs] at this
          simpa using this
        | ok c' =>
          obtain ⟨t', ht'⟩ := setStep_parent_ok hg hs
          have := ih c
          rw [hs] at this
          simp only [ht']
          constructor
          · intro h; cases h
          · intro h
            have h2 := this.mpr h
            cases h2

/-! ## small facts used by the property file -/

theorem nil_not_mem_leafPaths (t : JVal) : [] ∉ leafPaths t := by
  intro h
  obtain ⟨k, c, r, _, e, _⟩ := mem_leafPaths_iff.mp h
  cases e

theorem getPath_null (p : List Key) (x : JVal) : getPath .null p ≠ .ok x := by
  cases p with
  | nil => simp [getPath]
  | cons k r => rw [getPath_cons]; simp [getStep]

/-- a successful `get_param` shows that the tree is the encoded object itself -/
theorem treeOf_of_getParam {S : List ClassSchema} {tc : TimeCodec} {v : PyVal} {p : List Key} {x : JVal}
    (hg : getParam S tc v p = .ok x) : treeOf (enc S tc v) = enc S tc v := by
  unfold getParam treeOf at hg
  unfold treeOf
  split
  · rfl
  · rename_i hc
    simp only [hc] at hg
    exact absurd hg (getPath_null p x)

end EAO.Params
