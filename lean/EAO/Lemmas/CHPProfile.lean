import EAO.Model.CHPProfile
import EAO.Lemmas.CHPRows
import EAO.Lemmas.CHPWindow
/-!
# EAO.Lemmas.CHPProfile — the rows of `assembleCHPP` (CHP / Plant WITH start / shutdown ramp profiles):
profile precedence of the capacity rows, exact start / shutdown flags, window of the mapping.
-/
namespace EAO.CHPProfile
open EAO EAO.CHPRows EAO.CHPWindow

/-! ## ITEM 1 (a): a coefficient list with (at most) one active flag -/

/-- value of a coefficient list -/
def tsum (l : List (Nat × Rat)) (x : Vec) : Rat := (l.map fun p => p.2 * x p.1).sum

theorem eval_eq_tsum (row : Row) (x : Vec) : row.eval x = tsum row.coeffs x := rfl

theorem tsum_append (a b : List (Nat × Rat)) (x : Vec) : tsum (a ++ b) x = tsum a x + tsum b x := by
  simp [tsum, List.map_append, List.sum_append]

/-- all flags 0: the sum vanishes -/
theorem sum_no_flag (js : List Nat) (idx : Nat → Nat) (f : Nat → Rat) (x : Vec)
    (h0 : ∀ j ∈ js, x (idx j) = 0) :
    ((js.map fun j => (idx j, f j)).map fun p => p.2 * x p.1).sum = 0 := by
  induction js with
  | nil => simp
  | cons j js ih =>
    have hj : x (idx j) = 0 := h0 j (by simp)
    have := ih (fun j' hj' => h0 j' (by simp [hj']))
    simp only [List.map_cons, List.sum_cons, hj, this]
    grind

/-- exactly the flag `k` is 1: the sum is its coefficient -/
theorem sum_one_flag (js : List Nat) (idx : Nat → Nat) (f : Nat → Rat) (x : Vec) (k : Nat)
    (hnd : js.Nodup) (hk : k ∈ js) (h1 : x (idx k) = 1) (h0 : ∀ j ∈ js, j ≠ k → x (idx j) = 0) :
    ((js.map fun j => (idx j, f j)).map fun p => p.2 * x p.1).sum = f k := by
  induction js with
  | nil => simp at hk
  | cons j js ih =>
    obtain ⟨hj, hnd'⟩ := List.nodup_cons.mp hnd
    by_cases hjk : j = k
    · subst hjk
      have := sum_no_flag js idx f x (fun j' hj' => h0 j' (by simp [hj']) (by intro e; exact hj (e ▸ hj')))
      simp only [List.map_cons, List.sum_cons, h1, this]
      grind
    · have hk' : k ∈ js := by
        rcases List.mem_cons.mp hk with e | e
        · exact absurd e.symm hjk
        · exact e
      have h00 : x (idx j) = 0 := h0 j (by simp) hjk
      have := ih hnd' hk' (fun j' hj' => h0 j' (by simp [hj']))
      simp only [List.map_cons, List.sum_cons, h00, this]
      grind


/-! ## ITEM 1 (b): evaluation of the capacity rows -/

theorem tsum_virt (c : CHPR) (x : Vec) (i : Nat) : tsum (c.virt i (c.cv i)) x = c.vd x i := by
  cases hh : c.heat <;> simp [tsum, CHPR.virt, CHPR.vd, hh] <;> grind

theorem core_capLower_eval (c : CHPR) (x : Vec) (i : Nat) :
    (c.capLower i).eval x = c.vd x i - (if c.incOn then c.minCap i * x (c.layout.on (c.stepOff i)) else 0) := by
  cases hh : c.heat <;> cases ho : c.incOn <;>
    simp [CHPR.capLower, CHPR.virt, CHPR.vd, Row.eval, hh, ho] <;> grind

theorem core_capUpper_eval (c : CHPR) (x : Vec) (i : Nat) :
    (c.capUpper i).eval x = c.vd x i - (if c.incOn then c.maxCap i * x (c.layout.on (c.stepOff i)) else 0) := by
  cases hh : c.heat <;> cases ho : c.incOn <;>
    simp [CHPR.capUpper, CHPR.virt, CHPR.vd, Row.eval, hh, ho] <;> grind

theorem capLower_eval (r : CHPRP) (x : Vec) (i : Nat) :
    (r.capLower i).eval x = (r.core.capLower i).eval x +
      tsum (r.startTerms i (fun j => r.core.minCap i - r.prof.sl.getD j 0)) x +
      tsum (r.shutTerms i (fun j => r.core.minCap i - r.prof.ql.getD j 0)) x := by
  simp only [eval_eq_tsum, CHPRP.capLower, tsum_append]

theorem capUpper_eval (r : CHPRP) (x : Vec) (i : Nat) :
    (r.capUpper i).eval x = (r.core.capUpper i).eval x +
      tsum (r.startTerms i (fun j => r.core.maxCap i - r.prof.su.getD j 0)) x +
      tsum (r.shutTerms i (fun j => r.core.maxCap i - r.prof.qu.getD j 0)) x := by
  simp only [eval_eq_tsum, CHPRP.capUpper, tsum_append]

theorem capLower_sat (r : CHPRP) (x : Vec) (i : Nat) : (r.capLower i).Sat x ↔ 0 ≤ (r.capLower i).eval x := Iff.rfl

theorem capUpper_sat (r : CHPRP) (x : Vec) (i : Nat) :
    (r.capUpper i).Sat x ↔ (r.capUpper i).eval x ≤ (if r.core.incOn then 0 else r.core.maxCap i) := Iff.rfl

/-! ### the start / shutdown sums -/

theorem startJs_nodup (r : CHPRP) (i : Nat) : ((List.range r.prof.S).filter fun j => decide (j ≤ i)).Nodup :=
  List.Pairwise.filter _ List.nodup_range

theorem shutJs_nodup (r : CHPRP) (i : Nat) : ((List.range r.prof.Q).filter fun j => decide (i + j + 1 < r.core.T)).Nodup :=
  List.Pairwise.filter _ List.nodup_range

theorem startTerms_zero (r : CHPRP) (x : Vec) (i : Nat) (f : Nat → Rat)
    (hs0 : ∀ j, j < r.prof.S → j ≤ i → x (r.core.layout.start (i - j)) = 0) : tsum (r.startTerms i f) x = 0 := by
  apply sum_no_flag
  intro j hj
  simp only [List.mem_filter, List.mem_range, decide_eq_true_eq] at hj
  exact hs0 j hj.1 hj.2

theorem shutTerms_zero (r : CHPRP) (x : Vec) (i : Nat) (f : Nat → Rat)
    (hq0 : ∀ j, j < r.prof.Q → i + j + 1 < r.core.T → x (r.shut (i + j + 1)) = 0) : tsum (r.shutTerms i f) x = 0 := by
  apply sum_no_flag
  intro j hj
  simp only [List.mem_filter, List.mem_range, decide_eq_true_eq] at hj
  exact hq0 j hj.1 hj.2

theorem startTerms_one (r : CHPRP) (x : Vec) (i : Nat) (f : Nat → Rat) (k : Nat) (hk : k < r.prof.S) (hki : k ≤ i)
    (hs : x (r.core.layout.start (i - k)) = 1)
    (hs0 : ∀ j, j < r.prof.S → j ≤ i → j ≠ k → x (r.core.layout.start (i - j)) = 0) : tsum (r.startTerms i f) x = f k := by
  apply sum_one_flag _ (fun j => r.core.layout.start (i - j)) f x k (startJs_nodup r i)
  · simp [hk, hki]
  · exact hs
  · intro j hj
    simp only [List.mem_filter, List.mem_range, decide_eq_true_eq] at hj
    exact hs0 j hj.1 hj.2

theorem shutTerms_one (r : CHPRP) (x : Vec) (i : Nat) (f : Nat → Rat) (k : Nat) (hk : k < r.prof.Q) (hkT : i + k + 1 < r.core.T)
    (hq : x (r.shut (i + k + 1)) = 1)
    (hq0 : ∀ j, j < r.prof.Q → i + j + 1 < r.core.T → j ≠ k → x (r.shut (i + j + 1)) = 0) : tsum (r.shutTerms i f) x = f k := by
  apply sum_one_flag _ (fun j => r.shut (i + j + 1)) f x k (shutJs_nodup r i)
  · simp [hk, hkT]
  · exact hq
  · intro j hj
    simp only [List.mem_filter, List.mem_range, decide_eq_true_eq] at hj
    exact hq0 j hj.1 hj.2

/-! ## ITEM 1 (c): membership -/

theorem rowsP_eq (r : CHPRP) : (assembleCHPP r).rows = r.rows := rfl

theorem sat_of_memP {r : CHPRP} {x : Vec} (hx : (assembleCHPP r).FeasibleRelaxed x) {row : Row}
    (h : row ∈ r.rows) : row.Sat x := hx.2 row h

theorem capRows_mem (r : CHPRP) {row : Row} (h : row ∈ r.capRows) : row ∈ r.rows := by
  simp only [CHPRP.rows, List.mem_append]
  exact Or.inl (Or.inl (Or.inl (Or.inl (Or.inl (Or.inr h)))))

theorem capLower_mem (r : CHPRP) {i : Nat} (hi : i < r.core.n) (hf : r.firstCap ≤ i) : r.capLower i ∈ r.rows := by
  apply capRows_mem
  simp only [CHPRP.capRows, CHPRP.capSteps, List.mem_append, List.mem_map, List.mem_filter, List.mem_range, decide_eq_true_eq]
  exact Or.inl (Or.inl (Or.inl ⟨i, ⟨hi, hf⟩, rfl⟩))

theorem capUpper_mem (r : CHPRP) {i : Nat} (hi : i < r.core.n) (hf : r.firstCap ≤ i) : r.capUpper i ∈ r.rows := by
  apply capRows_mem
  simp only [CHPRP.capRows, CHPRP.capSteps, List.mem_append, List.mem_map, List.mem_filter, List.mem_range, decide_eq_true_eq]
  exact Or.inl (Or.inl (Or.inr ⟨i, ⟨hi, hf⟩, rfl⟩))

/-! ## ITEM 1 (d): profile precedence -/

/-- in the `k`-th step after a start (exactly that start flag set among those the row sees, no shutdown flag, unit
    on) the virtual dispatch lies within the `k`-th start-profile bounds — whatever `min_cap` / `max_cap` are -/
theorem start_profile_bounds (r : CHPRP) (x : Vec) (hx : (assembleCHPP r).FeasibleRelaxed x) (hon : r.core.incOn = true)
    (i : Nat) (hi : i < r.core.n) (hf : r.firstCap ≤ i) (k : Nat) (hk : k < r.prof.S) (hki : k ≤ i)
    (hon1 : x (r.core.layout.on (r.core.stepOff i)) = 1) (hs : x (r.core.layout.start (i - k)) = 1)
    (hs0 : ∀ j, j < r.prof.S → j ≤ i → j ≠ k → x (r.core.layout.start (i - j)) = 0)
    (hq0 : ∀ j, j < r.prof.Q → i + j + 1 < r.core.T → x (r.shut (i + j + 1)) = 0) :
    r.prof.sl.getD k 0 ≤ r.core.vd x i ∧ r.core.vd x i ≤ r.prof.su.getD k 0 := by
  have hl := (capLower_sat r x i).mp (sat_of_memP hx (capLower_mem r hi hf))
  have hu := (capUpper_sat r x i).mp (sat_of_memP hx (capUpper_mem r hi hf))
  rw [capLower_eval, core_capLower_eval, startTerms_one r x i _ k hk hki hs hs0, shutTerms_zero r x i _ hq0] at hl
  rw [capUpper_eval, core_capUpper_eval, startTerms_one r x i _ k hk hki hs hs0, shutTerms_zero r x i _ hq0] at hu
  simp only [hon, if_true, hon1] at hl hu
  constructor <;> grind

/-- `k + 1` steps before a shutdown: within the `k`-th shutdown-profile bounds -/
theorem shutdown_profile_bounds (r : CHPRP) (x : Vec) (hx : (assembleCHPP r).FeasibleRelaxed x) (hon : r.core.incOn = true)
    (i : Nat) (hi : i < r.core.n) (hf : r.firstCap ≤ i) (k : Nat) (hk : k < r.prof.Q) (hkT : i + k + 1 < r.core.T)
    (hon1 : x (r.core.layout.on (r.core.stepOff i)) = 1) (hq : x (r.shut (i + k + 1)) = 1)
    (hq0 : ∀ j, j < r.prof.Q → i + j + 1 < r.core.T → j ≠ k → x (r.shut (i + j + 1)) = 0)
    (hs0 : ∀ j, j < r.prof.S → j ≤ i → x (r.core.layout.start (i - j)) = 0) :
    r.prof.ql.getD k 0 ≤ r.core.vd x i ∧ r.core.vd x i ≤ r.prof.qu.getD k 0 := by
  have hl := (capLower_sat r x i).mp (sat_of_memP hx (capLower_mem r hi hf))
  have hu := (capUpper_sat r x i).mp (sat_of_memP hx (capUpper_mem r hi hf))
  rw [capLower_eval, core_capLower_eval, shutTerms_one r x i _ k hk hkT hq hq0, startTerms_zero r x i _ hs0] at hl
  rw [capUpper_eval, core_capUpper_eval, shutTerms_one r x i _ k hk hkT hq hq0, startTerms_zero r x i _ hs0] at hu
  simp only [hon, if_true, hon1] at hl hu
  constructor <;> grind

/-- outside the ramps (no flag the row sees is set): on ⇒ between min and max capacity, off ⇒ 0 -/
theorem capacity_outside_ramps (r : CHPRP) (x : Vec) (hx : (assembleCHPP r).FeasibleRelaxed x) (hon : r.core.incOn = true)
    (i : Nat) (hi : i < r.core.n) (hf : r.firstCap ≤ i)
    (hs0 : ∀ j, j < r.prof.S → j ≤ i → x (r.core.layout.start (i - j)) = 0)
    (hq0 : ∀ j, j < r.prof.Q → i + j + 1 < r.core.T → x (r.shut (i + j + 1)) = 0) :
    (x (r.core.layout.on (r.core.stepOff i)) = 1 → r.core.minCap i ≤ r.core.vd x i ∧ r.core.vd x i ≤ r.core.maxCap i) ∧
    (x (r.core.layout.on (r.core.stepOff i)) = 0 → r.core.vd x i = 0) := by
  have hl := (capLower_sat r x i).mp (sat_of_memP hx (capLower_mem r hi hf))
  have hu := (capUpper_sat r x i).mp (sat_of_memP hx (capUpper_mem r hi hf))
  rw [capLower_eval, core_capLower_eval, shutTerms_zero r x i _ hq0, startTerms_zero r x i _ hs0] at hl
  rw [capUpper_eval, core_capUpper_eval, shutTerms_zero r x i _ hq0, startTerms_zero r x i _ hs0] at hu
  simp only [hon, if_true] at hl hu
  constructor
  · intro h1; rw [h1] at hl hu; constructor <;> grind
  · intro h0; rw [h0] at hl hu; grind


/-- a unit in its start ramp at the beginning (`0 < tar < S`): the first `S − tar` steps follow the profile from
    position `tar` -/
theorem init_ramp_bounds (r : CHPRP) (x : Vec) (hx : (assembleCHPP r).FeasibleRelaxed x)
    (h1 : 0 < r.core.tar) (h2 : r.core.tar < r.prof.S) (i : Nat) (hi : i < r.prof.S - r.core.tar) :
    r.prof.sl.getD (r.core.tar + i) 0 ≤ r.core.vd x i ∧ r.core.vd x i ≤ r.prof.su.getD (r.core.tar + i) 0 := by
  have hmem : ∀ row ∈ [({ coeffs := r.core.virt i (r.core.cv i), rhs := r.prof.su.getD (r.core.tar + i) 0, kind := .U } : Row),
       { coeffs := r.core.virt i (r.core.cv i), rhs := r.prof.sl.getD (r.core.tar + i) 0, kind := .L }], row ∈ r.rows := by
    intro row hrow
    apply capRows_mem
    simp only [CHPRP.capRows, List.mem_append]
    refine Or.inr ?_
    simp only [CHPRP.initRampRows, h1, h2, and_self, if_true, List.mem_flatMap, List.mem_range]
    exact ⟨i, hi, hrow⟩
  have hu := sat_of_memP hx (hmem _ List.mem_cons_self)
  have hl := sat_of_memP hx (hmem _ (List.mem_cons_of_mem _ (List.mem_singleton.mpr rfl)))
  have hu' : tsum (r.core.virt i (r.core.cv i)) x ≤ r.prof.su.getD (r.core.tar + i) 0 := hu
  have hl' : r.prof.sl.getD (r.core.tar + i) 0 ≤ tsum (r.core.virt i (r.core.cv i)) x := hl
  rw [tsum_virt] at hu' hl'
  exact ⟨hl', hu'⟩

/-! ## ITEM 2: start and shutdown flags are defined by equalities -/

theorem startShutRows_mem (r : CHPRP) {row : Row} (h : row ∈ r.startShutRows) : row ∈ r.rows := by
  simp only [CHPRP.rows, List.mem_append]
  exact Or.inl (Or.inl (Or.inl (Or.inr h)))

theorem startShutRow_mem (r : CHPRP) {t : Nat} (ht : t + 1 < r.core.T) : r.startShutRow t ∈ r.rows := by
  apply startShutRows_mem
  simp only [CHPRP.startShutRows, List.mem_append, List.mem_map, List.mem_range]
  exact Or.inl (Or.inl ⟨t, by omega, rfl⟩)

theorem overlapRow_mem (r : CHPRP) {t : Nat} (ht : t < r.core.T) : r.overlapRow t ∈ r.rows := by
  apply startShutRows_mem
  simp only [CHPRP.startShutRows, List.mem_append, List.mem_map, List.mem_range]
  exact Or.inr ⟨t, ht, rfl⟩

theorem firstRow_mem (r : CHPRP) : (if r.core.tar = 0 then r.core.startFirstRow else r.firstRunningRow) ∈ r.rows := by
  apply startShutRows_mem
  simp [CHPRP.startShutRows]

theorem startShutRow_sat (r : CHPRP) (x : Vec) (t : Nat) :
    (r.startShutRow t).Sat x ↔
      x (r.core.layout.on (t + 1)) - x (r.core.layout.on t) = x (r.core.layout.start (t + 1)) - x (r.shut (t + 1)) := by
  simp [CHPRP.startShutRow, Row.Sat, Row.eval]; grind

theorem firstRunningRow_sat (r : CHPRP) (x : Vec) :
    r.firstRunningRow.Sat x ↔ x (r.core.layout.on 0) + x (r.shut 0) = 1 := by
  simp [CHPRP.firstRunningRow, Row.Sat, Row.eval]; grind

theorem overlapRow_sat (r : CHPRP) (x : Vec) (t : Nat) :
    (r.overlapRow t).Sat x ↔ x (r.core.layout.start t) + x (r.shut t) ≤ 1 := by
  simp [CHPRP.overlapRow, Row.Sat, Row.eval]; grind

theorem start_shut_flag (r : CHPRP) (x : Vec) (hx : (assembleCHPP r).FeasibleRelaxed x) (t : Nat) (ht : t + 1 < r.core.T) :
    x (r.core.layout.on (t + 1)) - x (r.core.layout.on t) = x (r.core.layout.start (t + 1)) - x (r.shut (t + 1)) :=
  (startShutRow_sat r x t).mp (sat_of_memP hx (startShutRow_mem r ht))

theorem first_flag_off (r : CHPRP) (x : Vec) (hx : (assembleCHPP r).FeasibleRelaxed x) (h0 : r.core.tar = 0) :
    x (r.core.layout.start 0) = x (r.core.layout.on 0) := by
  have h := firstRow_mem r
  rw [if_pos h0] at h
  exact (startFirstRow_sat r.core x).mp (sat_of_memP hx h)

theorem first_flag_running (r : CHPRP) (x : Vec) (hx : (assembleCHPP r).FeasibleRelaxed x) (h0 : r.core.tar ≠ 0) :
    x (r.core.layout.on 0) + x (r.shut 0) = 1 := by
  have h := firstRow_mem r
  rw [if_neg h0] at h
  exact (firstRunningRow_sat r x).mp (sat_of_memP hx h)

theorem no_overlap (r : CHPRP) (x : Vec) (hx : (assembleCHPP r).FeasibleRelaxed x) (t : Nat) (ht : t < r.core.T) :
    x (r.core.layout.start t) + x (r.shut t) ≤ 1 :=
  (overlapRow_sat r x t).mp (sat_of_memP hx (overlapRow_mem r ht))

/-- with 0/1 values a start is flagged EXACTLY at off→on transitions (every step `t + 1 < T`, the last one included:
    since the repair e7aae05 every step has an overlap row) -/
theorem start_exact (r : CHPRP) (x : Vec) (hx : (assembleCHPP r).FeasibleRelaxed x) (t : Nat) (ht : t + 1 < r.core.T)
    (ho : x (r.core.layout.on t) = 0 ∨ x (r.core.layout.on t) = 1)
    (ho' : x (r.core.layout.on (t + 1)) = 0 ∨ x (r.core.layout.on (t + 1)) = 1)
    (hs : x (r.core.layout.start (t + 1)) = 0 ∨ x (r.core.layout.start (t + 1)) = 1)
    (hq : x (r.shut (t + 1)) = 0 ∨ x (r.shut (t + 1)) = 1) :
    x (r.core.layout.start (t + 1)) = 1 ↔ (x (r.core.layout.on t) = 0 ∧ x (r.core.layout.on (t + 1)) = 1) := by
  have he := start_shut_flag r x hx t (by omega)
  have hov := no_overlap r x hx (t + 1) (by omega)
  rcases ho with ho | ho <;> rcases ho' with ho' | ho' <;> rcases hs with hs | hs <;> rcases hq with hq | hq <;>
    rw [ho, ho', hs, hq] at he <;> rw [hs, hq] at hov <;> simp only [ho, ho', hs] <;> grind

/-- with 0/1 values a shutdown is flagged EXACTLY at on→off transitions (every step `t + 1 < T`, the last one included) -/
theorem shutdown_exact (r : CHPRP) (x : Vec) (hx : (assembleCHPP r).FeasibleRelaxed x) (t : Nat) (ht : t + 1 < r.core.T)
    (ho : x (r.core.layout.on t) = 0 ∨ x (r.core.layout.on t) = 1)
    (ho' : x (r.core.layout.on (t + 1)) = 0 ∨ x (r.core.layout.on (t + 1)) = 1)
    (hs : x (r.core.layout.start (t + 1)) = 0 ∨ x (r.core.layout.start (t + 1)) = 1)
    (hq : x (r.shut (t + 1)) = 0 ∨ x (r.shut (t + 1)) = 1) :
    x (r.shut (t + 1)) = 1 ↔ (x (r.core.layout.on t) = 1 ∧ x (r.core.layout.on (t + 1)) = 0) := by
  have he := start_shut_flag r x hx t (by omega)
  have hov := no_overlap r x hx (t + 1) (by omega)
  rcases ho with ho | ho <;> rcases ho' with ho' | ho' <;> rcases hs with hs | hs <;> rcases hq with hq | hq <;>
    rw [ho, ho', hs, hq] at he <;> rw [hs, hq] at hov <;> simp only [ho, ho', hq] <;> grind


/-! ### the overlap rows cover EVERY step (repaired in /repo, commit e7aae05; before, they stopped one step early and at
the LAST step start and shutdown flag could both be 1: former observation P-2 / finding of pkg-c06prof) -/

/-- `Plant(min 3, max 10, start_ramp_lower_bounds [1], start_ramp_upper_bounds [2])`, two steps, was off -/
def witnessLast : CHPRP :=
  { core :=
      { name := "p", nodes := ["el"], T := 2, idx := [0, 1],
        base := { name := "p", nodes := ["el"], c := [0, 0], l := [3, 3], u := [10, 10], rows := [],
                  mapping := [⟨0, "p", some "el", .d, 0, 1, false, "disp"⟩, ⟨1, "p", some "el", .d, 1, 1, false, "disp"⟩] },
        heat := false, fuel := none, conv := [1, 1], share := none, ramp := none, last := 0,
        startCosts := [0, 0], runningCosts := [0, 0], R := 1, D := 0, tar := 0, tao := 0, incOn := true, incStart := true,
        fuelEff := [], consIfOn := [], startFuel := [] },
    prof := { sl := [1], su := [2], ql := [], qu := [], slh := none, suh := none, qlh := none, quh := none } }

/-- the former witness — on `11`, start `11`, shutdown `01`, dispatch `1, 1`: at the last step a start AND a shutdown
    flagged while the unit stays on, the step bounded by the start profile `[1, 2]` instead of `[3, 10]` — is now
    REJECTED by the generated problem; the same point with exact flags at the last step (start `10`, shutdown `00`) and a
    dispatch of at least `min_cap` there is feasible -/
theorem last_step_witness_now_rejected :
    ¬ (assembleCHPP witnessLast).FeasibleRelaxed (fun j => [1, 1, 1, 1, 1, 1, 0, 1].getD j 0) ∧
    (assembleCHPP witnessLast).FeasibleRelaxed (fun j => [1, 3, 1, 1, 1, 0, 0, 0].getD j 0) := by
  unfold AssetProblem.FeasibleRelaxed InBounds
  decide +kernel

/-! ### non-vacuity of ITEM 1: the profile takes precedence over `min_cap` -/

/-- `Plant(min 3, max 10, min_runtime 0, start ramp [1/2, 1] … [1, 2])`, three steps, was off -/
def witnessProf : CHPRP :=
  { core :=
      { name := "p", nodes := ["el"], T := 3, idx := [0, 1, 2],
        base := { name := "p", nodes := ["el"], c := [0, 0, 0], l := [3, 3, 3], u := [10, 10, 10], rows := [],
                  mapping := (List.range 3).map fun j => ⟨j, "p", some "el", .d, j, 1, false, "disp"⟩ },
        heat := false, fuel := none, conv := [1, 1, 1], share := none, ramp := none, last := 0,
        startCosts := [0, 0, 0], runningCosts := [0, 0, 0], R := 2, D := 0, tar := 0, tao := 0, incOn := true, incStart := true,
        fuelEff := [], consIfOn := [], startFuel := [] },
    prof := { sl := [1/2, 1], su := [1, 2], ql := [], qu := [], slh := none, suh := none, qlh := none, quh := none } }

/-- start at step 0 with dispatch `1, 2, 5`: feasible although `1, 2 < min_cap = 3` (the profile takes precedence);
    `3, 2, 5` is NOT feasible (`3 > su_0 = 1`) -/
theorem profile_precedence_witness :
    (assembleCHPP witnessProf).FeasibleRelaxed (fun j => [1, 2, 5, 1, 1, 1, 1, 0, 0, 0, 0, 0].getD j 0) ∧
    ¬ (assembleCHPP witnessProf).FeasibleRelaxed (fun j => [3, 2, 5, 1, 1, 1, 1, 0, 0, 0, 0, 0].getD j 0) := by
  unfold AssetProblem.FeasibleRelaxed InBounds
  decide +kernel

/-- the hypotheses of `start_profile_bounds` are satisfiable: step 1 of the witness is the step `k = 1` after the start -/
example : let x : Vec := fun j => [1, 2, 5, 1, 1, 1, 1, 0, 0, 0, 0, 0].getD j 0
    witnessProf.prof.sl.getD 1 0 ≤ witnessProf.core.vd x 1 ∧ witnessProf.core.vd x 1 ≤ witnessProf.prof.su.getD 1 0 := by
  intro x
  refine start_profile_bounds witnessProf x profile_precedence_witness.1 rfl 1 (by decide) (by decide) 1 (by decide) (by decide)
    (by decide +kernel) (by decide +kernel) ?_ ?_
  · intro j h1 h2 h3
    have h1' : j < 2 := h1
    have : j = 0 := by omega
    subst this
    decide +kernel
  · intro j h1
    exact absurd h1 (Nat.not_lt_zero j)


/-! ## ITEM 3: window (C08) for the profile builder -/

theorem mem_shutRows {r : CHPRP} {m : MapRow} (h : m ∈ r.shutRows) : m.step ∈ r.core.idx ∧ m.asset = r.core.name := by
  simp only [CHPRP.shutRows, List.mem_map] at h
  obtain ⟨⟨m0, i⟩, hq, rfl⟩ := h
  obtain ⟨hi, hm0⟩ := List.mem_zipIdx' hq
  have hm0 : m0 ∈ r.core.boolRows "bool_shutdown" := hm0 ▸ List.getElem_mem hi
  exact ⟨(mem_boolRows hm0).1, (mem_boolRows hm0).2.1⟩

theorem mem_mappingP {r : CHPRP} {m : MapRow} (h : m ∈ r.mapping) : FromWindow r.core m := by
  unfold CHPRP.mapping at h
  rcases List.mem_append.mp h with h | h
  · rcases List.mem_append.mp h with h | h
    · exact mem_mappingCore h
    · exact Or.inl (mem_shutRows h)
  · split at h
    · simp at h
    · obtain ⟨m', hm', e1, e2, _⟩ := mem_fuelRows h
      have := mem_mappingCore hm'
      unfold FromWindow at this ⊢
      rw [e1, e2]; exact this

/-- steps of the mapping of `assembleCHPP r` -/
theorem assembleCHPP_step {r : CHPRP} : ∀ m ∈ (assembleCHPP r).mapping,
    m.step ∈ r.core.idx ∨ ∃ m' ∈ r.core.base.mapping, m.step = m'.step := by
  intro m h
  rcases mem_mappingP (r := r) h with h | ⟨m', hm', e, _⟩
  · exact Or.inl h.1
  · exact Or.inr ⟨m', hm', e⟩

/-- asset names of the mapping of `assembleCHPP r` -/
theorem assembleCHPP_asset {r : CHPRP} : ∀ m ∈ (assembleCHPP r).mapping,
    m.asset = r.core.name ∨ ∃ m' ∈ r.core.base.mapping, m.asset = m'.asset := by
  intro m h
  rcases mem_mappingP (r := r) h with h | ⟨m', hm', _, e⟩
  · exact Or.inl h.2
  · exact Or.inr ⟨m', hm', e⟩

theorem resolveCHPP_cases {p : CHPP} {q : CHPProfP} {base : AssetProblem} {g : Grid} {prices : Prices} {u s : Nat}
    {o : Option CHPRP} (h : resolveCHPP p q base g prices u s false = .ok o) :
    (g.T = 0 ∧ o = none) ∨
    (g.T ≠ 0 ∧ ∃ r, o = some r ∧ r.core.idx = g.idx ∧ r.core.base = base ∧ r.core.name = p.name ∧
      r.core.nodes = p.nodes ∧ r.core.T = g.T) := by
  unfold resolveCHPP at h
  simp only [bind, Except.bind, pure, Except.pure] at h
  cases hc : chpCtor p with
  | error e => simp [hc] at h
  | ok hf =>
    simp only [hc] at h
    cases hp : profCtor q with
    | error e => simp [hp] at h
    | ok sd =>
      simp only [hp] at h
      by_cases hT : g.T = 0
      · simp [hT] at h
        exact Or.inl ⟨hT, h.symm⟩
      · simp only [hT, if_false] at h
        split at h
        · simp [throw, throwThe, MonadExceptOf.throw] at h
        cases hv : chpVectors p g prices hf.1 hf.2 with
        | error e => simp [hv] at h
        | ok v =>
          simp only [hv] at h
          split at h
          · simp at h
          · simp only [Bool.false_eq_true, if_false] at h
            split at h
            · simp at h
            · split at h
              · simp [throw, throwThe, MonadExceptOf.throw] at h
              · split at h
                · simp [throw, throwThe, MonadExceptOf.throw] at h
                · injection h with h
                  exact Or.inr ⟨hT, _, h.symm, rfl, rfl, rfl, rfl, rfl⟩


/-- inversion of `buildCHPP`: the parent's problem on an empty window, otherwise `assembleCHPP` of the resolved inputs -/
theorem buildCHPP_cases {p : CHPP} {q : CHPProfP} {base : AssetProblem} {g : Grid} {prices : Prices} {u s : Nat}
    {P : AssetProblem} (h : buildCHPP p q base g prices u s = .ok P) :
    (g.T = 0 ∧ P = base) ∨
    ∃ r, resolveCHPP p q base g prices u s false = .ok (some r) ∧ P = assembleCHPP r ∧ r.core.idx = g.idx ∧
      r.core.base = base ∧ r.core.name = p.name := by
  unfold buildCHPP at h
  cases hr : resolveCHPP p q base g prices u s false with
  | error e => simp [hr, bind, Except.bind] at h
  | ok o =>
    rcases resolveCHPP_cases hr with ⟨hT, rfl⟩ | ⟨_, r, rfl, h1, h2, h3, _, _⟩
    · simp [hr, bind, Except.bind, pure, Except.pure] at h
      exact Or.inl ⟨hT, h.symm⟩
    · simp [hr, bind, Except.bind, pure, Except.pure] at h
      exact Or.inr ⟨r, rfl, h.symm, h1, h2, h3⟩

/-- C08 for the profile builder: if the parent's mapping stays in the window, so does the generated mapping -/
theorem buildCHPP_window {p : CHPP} {q : CHPProfP} {base : AssetProblem} {g : Grid} {prices : Prices} {u s : Nat}
    {P : AssetProblem} (hb : ∀ m ∈ base.mapping, m.step ∈ g.idx) (h : buildCHPP p q base g prices u s = .ok P) :
    ∀ m ∈ P.mapping, m.step ∈ g.idx := by
  rcases buildCHPP_cases h with ⟨_, rfl⟩ | ⟨r, _, rfl, h1, h2, _⟩
  · exact hb
  · intro m hm
    rcases assembleCHPP_step m hm with h | ⟨m', hm', e⟩
    · exact h1 ▸ h
    · rw [e]; exact hb m' (h2 ▸ hm')

/-- asset names: every mapping row carries the asset's name if the parent's rows do -/
theorem buildCHPP_asset {p : CHPP} {q : CHPProfP} {base : AssetProblem} {g : Grid} {prices : Prices} {u s : Nat}
    {P : AssetProblem} (hb : ∀ m ∈ base.mapping, m.asset = p.name) (h : buildCHPP p q base g prices u s = .ok P) :
    ∀ m ∈ P.mapping, m.asset = p.name := by
  rcases buildCHPP_cases h with ⟨_, rfl⟩ | ⟨r, _, rfl, _, h2, h3⟩
  · exact hb
  · intro m hm
    rcases assembleCHPP_asset m hm with h | ⟨m', hm', e⟩
    · exact h3 ▸ h
    · rw [e]; exact hb m' (h2 ▸ hm')

/-- empty window: the parent's problem is returned unchanged -/
theorem buildCHPP_empty {p : CHPP} {q : CHPProfP} {base : AssetProblem} {g : Grid} {prices : Prices} {u s : Nat}
    {P : AssetProblem} (hT : g.T = 0) (h : buildCHPP p q base g prices u s = .ok P) : P = base := by
  rcases buildCHPP_cases h with ⟨_, e⟩ | ⟨r, hr, _⟩
  · exact e
  · rcases resolveCHPP_cases hr with ⟨_, e⟩ | ⟨hT', _⟩
    · cases e
    · exact absurd hT hT'


/-! ## ITEM 4: the ramp rows are relaxed during the start / shutdown ramps -/

/-- extending the coefficient list of a row by terms whose sum vanishes does not change its reading -/
theorem sat_extend (row : Row) (extra : List (Nat × Rat)) (x : Vec) (h : tsum extra x = 0) :
    ({ row with coeffs := row.coeffs ++ extra } : Row).Sat x ↔ row.Sat x := by
  have : ∀ k, ({ coeffs := row.coeffs ++ extra, rhs := row.rhs, kind := k } : Row).eval x = row.eval x := by
    intro k
    show tsum (row.coeffs ++ extra) x = tsum row.coeffs x
    rw [tsum_append, h]; grind
  cases hk : row.kind <;> simp [Row.Sat, hk, this]

theorem rampRowsP_mem (r : CHPRP) {row : Row} (h : row ∈ r.rampRows) : row ∈ r.rows := by
  simp only [CHPRP.rows, List.mem_append]
  exact Or.inl (Or.inl (Or.inl (Or.inl (Or.inr h))))

theorem rampLowerP_mem (r : CHPRP) {ρ : Rat} (hρ : r.core.ramp = some ρ) {t : Nat} (h1 : 1 ≤ t) (ht : t < r.core.T) :
    r.rampLower ρ t ∈ r.rows := by
  apply rampRowsP_mem
  simp only [CHPRP.rampRows, hρ, List.mem_append, List.mem_flatMap, List.mem_range]
  refine Or.inl ⟨t - 1, by omega, ?_⟩
  have : t - 1 + 1 = t := by omega
  simp [this]

theorem rampUpperP_mem (r : CHPRP) {ρ : Rat} (hρ : r.core.ramp = some ρ) {t : Nat} (h1 : 1 ≤ t) (ht : t < r.core.T) :
    r.rampUpper ρ t ∈ r.rows := by
  apply rampRowsP_mem
  simp only [CHPRP.rampRows, hρ, List.mem_append, List.mem_flatMap, List.mem_range]
  refine Or.inl ⟨t - 1, by omega, ?_⟩
  have : t - 1 + 1 = t := by omega
  simp [this]

theorem rampFirstLowerP_mem (r : CHPRP) {ρ : Rat} (hρ : r.core.ramp = some ρ) : r.rampFirstLower ρ ∈ r.rows := by
  apply rampRowsP_mem
  simp [CHPRP.rampRows, hρ]

theorem rampFirstUpperP_mem (r : CHPRP) {ρ : Rat} (hρ : r.core.ramp = some ρ) : r.core.rampFirstUpper ρ ∈ r.rows := by
  apply rampRowsP_mem
  simp [CHPRP.rampRows, hρ]

/-- the start terms of the upper ramp row of step `t` -/
def rampStartTerms (r : CHPRP) (ρ : Rat) (t : Nat) : List (Nat × Rat) :=
  ((List.range r.prof.S).filter fun i => decide (i ≤ t)).map fun i => (r.core.layout.start (t - i), ρ - r.core.maxCap t)

/-- the shutdown terms of the lower ramp row of step `t` -/
def rampShutTerms (r : CHPRP) (ρ : Rat) (t : Nat) : List (Nat × Rat) :=
  ((List.range r.prof.Q).filter fun i => decide (t + i < r.core.T)).map fun i => (r.shut (t + i), r.core.maxCap (t - 1) - ρ)

theorem rampUpperP_eval (r : CHPRP) (x : Vec) (ρ : Rat) (t : Nat) :
    (r.rampUpper ρ t).eval x = (r.core.rampUpper ρ t).eval x + tsum (rampStartTerms r ρ t) x := by
  simp only [eval_eq_tsum, CHPRP.rampUpper, tsum_append, rampStartTerms]

theorem rampLowerP_eval (r : CHPRP) (x : Vec) (ρ : Rat) (t : Nat) :
    (r.rampLower ρ t).eval x = (r.core.rampLower ρ t).eval x + tsum (rampShutTerms r ρ t) x := by
  simp only [eval_eq_tsum, CHPRP.rampLower, tsum_append, rampShutTerms]

theorem rampFirstLowerP_eval (r : CHPRP) (x : Vec) (ρ : Rat) :
    (r.rampFirstLower ρ).eval x = (r.core.rampFirstLower ρ).eval x +
      tsum ((List.range r.prof.Q).map fun i => (r.shut i, r.core.last - ρ)) x := by
  simp only [eval_eq_tsum, CHPRP.rampFirstLower, tsum_append]

/-- no start flag in the window of the upper ramp row: the profile-free reading holds -/
theorem ramp_upper_outside (r : CHPRP) (x : Vec) (hx : (assembleCHPP r).FeasibleRelaxed x) (ρ : Rat)
    (hρ : r.core.ramp = some ρ) (t : Nat) (h1 : 1 ≤ t) (ht : t < r.core.T)
    (hs0 : ∀ i, i < r.prof.S → i ≤ t → x (r.core.layout.start (t - i)) = 0) :
    r.core.vd x t ≤ r.core.vd x (t - 1) + (if r.core.incOn then ρ * x (r.core.layout.on t) else ρ) := by
  have h := sat_of_memP hx (rampUpperP_mem r hρ h1 ht)
  have h0 : tsum (rampStartTerms r ρ t) x = 0 := by
    apply sum_no_flag
    intro j hj
    simp only [List.mem_filter, List.mem_range, decide_eq_true_eq] at hj
    exact hs0 j hj.1 hj.2
  exact (rampUpper_sat r.core x ρ t).mp ((sat_extend (r.core.rampUpper ρ t) (rampStartTerms r ρ t) x h0).mp h)

/-- no shutdown flag in the window of the lower ramp row: the profile-free reading holds -/
theorem ramp_lower_outside (r : CHPRP) (x : Vec) (hx : (assembleCHPP r).FeasibleRelaxed x) (ρ : Rat)
    (hρ : r.core.ramp = some ρ) (t : Nat) (h1 : 1 ≤ t) (ht : t < r.core.T)
    (hq0 : ∀ i, i < r.prof.Q → t + i < r.core.T → x (r.shut (t + i)) = 0) :
    r.core.vd x (t - 1) - (if r.core.incOn then ρ * x (r.core.layout.on (t - 1)) else ρ) ≤ r.core.vd x t := by
  have h := sat_of_memP hx (rampLowerP_mem r hρ h1 ht)
  have h0 : tsum (rampShutTerms r ρ t) x = 0 := by
    apply sum_no_flag
    intro j hj
    simp only [List.mem_filter, List.mem_range, decide_eq_true_eq] at hj
    exact hq0 j hj.1 hj.2
  exact (rampLower_sat r.core x ρ t).mp ((sat_extend (r.core.rampLower ρ t) (rampShutTerms r ρ t) x h0).mp h)

/-- first step, no shutdown flag among the first `Q`: the profile-free reading of the first-step lower ramp row -/
theorem ramp_first_lower_outside (r : CHPRP) (x : Vec) (hx : (assembleCHPP r).FeasibleRelaxed x) (ρ : Rat)
    (hρ : r.core.ramp = some ρ) (hq0 : ∀ i, i < r.prof.Q → x (r.shut i) = 0) :
    (if r.core.tar = 0 then r.core.last else r.core.last - ρ) ≤ r.core.vd x 0 := by
  have h := sat_of_memP hx (rampFirstLowerP_mem r hρ)
  have h0 : tsum ((List.range r.prof.Q).map fun i => (r.shut i, r.core.last - ρ)) x = 0 := by
    apply sum_no_flag
    intro j hj
    exact hq0 j (List.mem_range.mp hj)
  exact (rampFirstLower_sat r.core x ρ).mp ((sat_extend (r.core.rampFirstLower ρ) _ x h0).mp h)

/-- the first-step upper ramp row is the profile-free one -/
theorem ramp_first_upper (r : CHPRP) (x : Vec) (hx : (assembleCHPP r).FeasibleRelaxed x) (ρ : Rat)
    (hρ : r.core.ramp = some ρ) :
    r.core.vd x 0 ≤ r.core.last + (if r.core.incOn then ρ * x (r.core.layout.on 0) else ρ) :=
  (rampFirstUpper_sat r.core x ρ).mp (sat_of_memP hx (rampFirstUpperP_mem r hρ))

/-- during a start ramp (exactly one start flag in the window, unit on) the upper ramp row is relaxed to
    `v_t − v_{t−1} ≤ max_cap_t` -/
theorem ramp_upper_in_start_ramp (r : CHPRP) (x : Vec) (hx : (assembleCHPP r).FeasibleRelaxed x) (hon : r.core.incOn = true)
    (ρ : Rat) (hρ : r.core.ramp = some ρ) (t : Nat) (h1 : 1 ≤ t) (ht : t < r.core.T) (k : Nat) (hk : k < r.prof.S) (hkt : k ≤ t)
    (hon1 : x (r.core.layout.on t) = 1) (hs : x (r.core.layout.start (t - k)) = 1)
    (hs0 : ∀ i, i < r.prof.S → i ≤ t → i ≠ k → x (r.core.layout.start (t - i)) = 0) :
    r.core.vd x t ≤ r.core.vd x (t - 1) + r.core.maxCap t := by
  have h := sat_of_memP hx (rampUpperP_mem r hρ h1 ht)
  have h1' : tsum (rampStartTerms r ρ t) x = ρ - r.core.maxCap t := by
    apply sum_one_flag _ (fun j => r.core.layout.start (t - j)) (fun _ => ρ - r.core.maxCap t) x k (startJs_nodup r t)
    · simp [hk, hkt]
    · exact hs
    · intro j hj
      simp only [List.mem_filter, List.mem_range, decide_eq_true_eq] at hj
      exact hs0 j hj.1 hj.2
  have hsat : (r.rampUpper ρ t).eval x ≤ (if r.core.incOn then 0 else ρ) := h
  have hcore : (r.core.rampUpper ρ t).eval x = r.core.vd x t - r.core.vd x (t - 1) - ρ * x (r.core.layout.on t) := by
    cases hh : r.core.heat <;>
      simp [CHPR.rampUpper, CHPR.rampDiff, CHPR.virt, CHPR.vd, Row.eval, hh, hon] <;> grind
  rw [rampUpperP_eval, h1', hcore, hon1] at hsat
  simp only [hon, if_true] at hsat
  grind

/-- during a shutdown ramp (exactly one shutdown flag in the window, unit on in step `t − 1`) the lower ramp row is
    relaxed to `v_{t−1} − v_t ≤ max_cap_{t−1}` -/
theorem ramp_lower_in_shutdown_ramp (r : CHPRP) (x : Vec) (hx : (assembleCHPP r).FeasibleRelaxed x) (hon : r.core.incOn = true)
    (ρ : Rat) (hρ : r.core.ramp = some ρ) (t : Nat) (h1 : 1 ≤ t) (ht : t < r.core.T) (k : Nat) (hk : k < r.prof.Q)
    (hkT : t + k < r.core.T) (hon1 : x (r.core.layout.on (t - 1)) = 1) (hq : x (r.shut (t + k)) = 1)
    (hq0 : ∀ i, i < r.prof.Q → t + i < r.core.T → i ≠ k → x (r.shut (t + i)) = 0) :
    r.core.vd x (t - 1) - r.core.maxCap (t - 1) ≤ r.core.vd x t := by
  have h := sat_of_memP hx (rampLowerP_mem r hρ h1 ht)
  have h1' : tsum (rampShutTerms r ρ t) x = r.core.maxCap (t - 1) - ρ := by
    apply sum_one_flag _ (fun j => r.shut (t + j)) (fun _ => r.core.maxCap (t - 1) - ρ) x k
      (List.Pairwise.filter _ List.nodup_range)
    · simp [hk, hkT]
    · exact hq
    · intro j hj
      simp only [List.mem_filter, List.mem_range, decide_eq_true_eq] at hj
      exact hq0 j hj.1 hj.2
  have hsat : (if r.core.incOn then 0 else - ρ) ≤ (r.rampLower ρ t).eval x := h
  have hcore : (r.core.rampLower ρ t).eval x = r.core.vd x t - r.core.vd x (t - 1) + ρ * x (r.core.layout.on (t - 1)) := by
    cases hh : r.core.heat <;>
      simp [CHPR.rampLower, CHPR.rampDiff, CHPR.virt, CHPR.vd, Row.eval, hh, hon] <;> grind
  rw [rampLowerP_eval, h1', hcore, hon1] at hsat
  simp only [hon, if_true] at hsat
  grind


/-! ### non-vacuity of ITEM 3: `buildCHPP` on a concrete window (evaluated by the kernel) -/
namespace Ex

/-- hourly horizon; the asset's window keeps steps 3 and 4 -/
def g : Grid := { pts := [10800, 14400], idx := [3, 4], dt := [1, 1], Dt := [3, 4], df := [1, 1] }
def gEmpty : Grid := { pts := [], idx := [], dt := [], Dt := [], df := [] }
/-- what the parent `Contract` (`min_cap 1`, `max_cap 3`) returns on the window -/
def base : AssetProblem :=
  { name := "pl", nodes := ["power"], c := [0, 0], l := [1, 1], u := [3, 3], rows := [],
    mapping := [⟨0, "pl", some "power", .d, 3, 1, false, "disp"⟩, ⟨1, "pl", some "power", .d, 4, 1, false, "disp"⟩] }
/-- `Plant` with a one-step start ramp `[1/2, 1]` and a one-step shutdown ramp `[1/2, 1/2]` -/
def p : CHPP :=
  { name := "pl", nodes := ["power"], noHeat := true, minCap := .scalar 1,
    convFactor := .scalar 1, maxShareHeat := none, ramp := some 1, startCosts := .scalar 0,
    runningCosts := .scalar 0, minRuntime := 0, timeAlreadyRunning := 0, minDowntime := 0, timeAlreadyOff := 0,
    lastDispatch := 0, startFuel := .scalar 0, fuelEfficiency := .scalar 1, consumptionIfOn := .scalar 0,
    freqMismatch := false }
def q : CHPProfP :=
  { startLo := some [1/2], startUp := some [1], shutLo := some [1/2], shutUp := none, startLoH := none, startUpH := none,
    shutLoH := none, shutUpH := none, rampFreqSec := 3600, sameFreq := true }

-- the builder succeeds: 2 power + 2 on + 2 start + 2 shutdown variables, all mapping rows at steps 3 and 4
example : (match buildCHPP p q base g [] 3600 3600 with
    | .ok P => P.c.length == 8 && P.l.length == 8 && P.u.length == 8 &&
               P.mapping.map (fun m => (m.var, m.step)) == [(0, 3), (1, 4), (2, 3), (3, 4), (4, 3), (5, 4), (6, 3), (7, 4)] &&
               P.mapping.map (fun m => m.varName) ==
                 ["disp", "disp", "bool_on", "bool_on", "bool_start", "bool_start", "bool_shutdown", "bool_shutdown"]
    | .error _ => false) = true := by decide +kernel

-- empty window: the parent's problem
example : (match buildCHPP p q base gEmpty [] 3600 3600 with
    | .ok P => P.mapping == base.mapping && P.c == base.c
    | .error _ => false) = true := by decide +kernel

end Ex


/-! ### non-vacuity of `shutdown_profile_bounds` and `shutdown_exact` -/

/-- `Plant(min 3, max 10, start ramp [1]…[2], shutdown ramp [1/2]…[1])`, five steps, was off -/
def witnessShut : CHPRP :=
  { core :=
      { name := "p", nodes := ["el"], T := 5, idx := [0, 1, 2, 3, 4],
        base := { name := "p", nodes := ["el"], c := [0, 0, 0, 0, 0], l := [3, 3, 3, 3, 3], u := [10, 10, 10, 10, 10], rows := [],
                  mapping := (List.range 5).map fun j => ⟨j, "p", some "el", .d, j, 1, false, "disp"⟩ },
        heat := false, fuel := none, conv := [1, 1, 1, 1, 1], share := none, ramp := none, last := 0,
        startCosts := [0, 0, 0, 0, 0], runningCosts := [0, 0, 0, 0, 0], R := 2, D := 0, tar := 0, tao := 0,
        incOn := true, incStart := true, fuelEff := [], consIfOn := [], startFuel := [] },
    prof := { sl := [1], su := [2], ql := [1/2], qu := [1], slh := none, suh := none, qlh := none, quh := none } }

/-- on `11100`, start at 0, shutdown flagged at 3, dispatch `1, 5, 1, 0, 0` -/
def xShut : Vec := fun j => [1, 5, 1, 0, 0, 1, 1, 1, 0, 0, 1, 0, 0, 0, 0, 0, 0, 0, 1, 0].getD j 0

theorem witnessShut_feasible : (assembleCHPP witnessShut).FeasibleRelaxed xShut := by
  unfold AssetProblem.FeasibleRelaxed InBounds
  decide +kernel

/-- step 2 is the last step before the shutdown (`k = 0`): bounded by `[1/2, 1]`, below `min_cap = 3` -/
example : witnessShut.prof.ql.getD 0 0 ≤ witnessShut.core.vd xShut 2 ∧ witnessShut.core.vd xShut 2 ≤ witnessShut.prof.qu.getD 0 0 := by
  refine shutdown_profile_bounds witnessShut xShut witnessShut_feasible rfl 2 (by decide) (by decide) 0 (by decide) (by decide)
    (by decide +kernel) (by decide +kernel) ?_ ?_
  · intro j h1 _ h3
    have h1' : j < 1 := h1
    omega
  · intro j h1 _
    have h1' : j < 1 := h1
    have : j = 0 := by omega
    subst this
    decide +kernel

/-- the shutdown flag of step 3 marks the on→off transition 2 → 3 -/
example : xShut (witnessShut.shut 3) = 1 ↔
    (xShut (witnessShut.core.layout.on 2) = 1 ∧ xShut (witnessShut.core.layout.on 3) = 0) :=
  shutdown_exact witnessShut xShut witnessShut_feasible 2 (by decide) (by decide +kernel) (by decide +kernel)
    (by decide +kernel) (by decide +kernel)

end EAO.CHPProfile

/-
`#print axioms` (scratch file importing the built module):
'EAO.CHPProfile.sum_one_flag' depends on axioms: [propext, Classical.choice, Quot.sound]
'EAO.CHPProfile.start_profile_bounds' depends on axioms: [propext, Classical.choice, Quot.sound]
'EAO.CHPProfile.shutdown_profile_bounds' depends on axioms: [propext, Classical.choice, Quot.sound]
'EAO.CHPProfile.capacity_outside_ramps' depends on axioms: [propext, Classical.choice, Quot.sound]
'EAO.CHPProfile.init_ramp_bounds' depends on axioms: [propext, Classical.choice, Quot.sound]
'EAO.CHPProfile.start_shut_flag' depends on axioms: [propext, Classical.choice, Quot.sound]
'EAO.CHPProfile.first_flag_off' depends on axioms: [propext, Classical.choice, Quot.sound]
'EAO.CHPProfile.first_flag_running' depends on axioms: [propext, Classical.choice, Quot.sound]
'EAO.CHPProfile.no_overlap' depends on axioms: [propext, Classical.choice, Quot.sound]
'EAO.CHPProfile.start_exact' depends on axioms: [propext, Classical.choice, Quot.sound]
'EAO.CHPProfile.shutdown_exact' depends on axioms: [propext, Classical.choice, Quot.sound]
'EAO.CHPProfile.last_step_witness_now_rejected' depends on axioms: [propext, Classical.choice, Quot.sound]
'EAO.CHPProfile.profile_precedence_witness' depends on axioms: [propext, Classical.choice, Quot.sound]
'EAO.CHPProfile.witnessShut_feasible' depends on axioms: [propext, Classical.choice, Quot.sound]
'EAO.CHPProfile.assembleCHPP_step' depends on axioms: [propext, Classical.choice, Quot.sound]
'EAO.CHPProfile.assembleCHPP_asset' depends on axioms: [propext, Classical.choice, Quot.sound]
'EAO.CHPProfile.resolveCHPP_cases' depends on axioms: [propext, Classical.choice, Quot.sound]
'EAO.CHPProfile.buildCHPP_cases' depends on axioms: [propext, Classical.choice, Quot.sound]
'EAO.CHPProfile.buildCHPP_window' depends on axioms: [propext, Classical.choice, Quot.sound]
'EAO.CHPProfile.buildCHPP_asset' depends on axioms: [propext, Classical.choice, Quot.sound]
'EAO.CHPProfile.buildCHPP_empty' depends on axioms: [propext, Classical.choice, Quot.sound]
'EAO.CHPProfile.ramp_upper_outside' depends on axioms: [propext, Classical.choice, Quot.sound]
'EAO.CHPProfile.ramp_lower_outside' depends on axioms: [propext, Classical.choice, Quot.sound]
'EAO.CHPProfile.ramp_first_lower_outside' depends on axioms: [propext, Classical.choice, Quot.sound]
'EAO.CHPProfile.ramp_first_upper' depends on axioms: [propext, Classical.choice, Quot.sound]
'EAO.CHPProfile.ramp_upper_in_start_ramp' depends on axioms: [propext, Classical.choice, Quot.sound]
'EAO.CHPProfile.ramp_lower_in_shutdown_ramp' depends on axioms: [propext, Classical.choice, Quot.sound]
-/
