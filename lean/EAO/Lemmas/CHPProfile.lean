import EAO.Model.CHPProfile
import EAO.Lemmas.CHPRows
import EAO.Lemmas.CHPWindow
/-!
# EAO.Lemmas.CHPProfile — the rows of `assembleCHPP` (CHP / Plant WITH start / shutdown ramp profiles):
profile precedence of the capacity rows, exact start / shutdown flags, window of the mapping.
-/
namespace EAO.CHPProfile
open EAO EAO.CHPRows EAO.CHPWindow

/-! ## ITEM 1 (a): a coefficient list with (at most) one active flag -/

/-- value of a coefficient list -/
def tsum (l : List (Nat × Rat)) (x : Vec) : Rat := (l.map fun p => p.2 * x p.1).sum

theorem eval_eq_tsum (row : Row) (x : Vec) : row.eval x = tsum row.coeffs x := rfl

theorem tsum_append (a b : List (Nat × Rat)) (x : Vec) : tsum (a ++ b) x = tsum a x + tsum b x := by
  simp [tsum, List.map_append, List.sum_append]

/-- all flags 0: the sum vanishes -/
theorem sum_no_flag (js : List Nat) (idx : Nat → Nat) (f : Nat → Rat) (x : Vec)
    (h0 : ∀ j ∈ js, x (idx j) = 0) :
    ((js.map fun j => (idx j, f j)).map fun p => p.2 * x p.1).sum = 0 := by
  induction js with
  | nil => simp
  | cons j js ih =>
    have hj : x (idx j) = 0 := h0 j (by simp)
    have := ih (fun j' hj' => h0 j' (by simp [hj']))
    simp only [List.map_cons, List.sum_cons, hj, this]
    grind

/-- exactly the flag `k` is 1: the sum is its coefficient -/
theorem sum_one_flag (js : List Nat) (idx : Nat → Nat) (f : Nat → Rat) (x : Vec) (k : Nat)
    (hnd : js.Nodup) (hk : k ∈ js) (h1 : x (idx k) = 1) (h0 : ∀ j ∈ js, j ≠ k → x (idx j) = 0) :
    ((js.map fun j => (idx j, f j)).map fun p => p.2 * x p.1).sum = f k := by
  induction js with
  | nil => simp at hk
  | cons j js ih =>
    obtain ⟨hj, hnd'⟩ := List.nodup_cons.mp hnd
    by_cases hjk : j = k
    · subst hjk
      have := sum_no_flag js idx f x (fun j' hj' => h0 j' (by simp [hj']) (by intro e; exact hj (e ▸ hj')))
      simp only [List.map_cons, List.sum_cons, h1, this]
      grind
    · have hk' : k ∈ js := by
        rcases List.mem_cons.mp hk with e | e
        · exact absurd e.symm hjk
        · exact e
      have h00 : x (idx j) = 0 := h0 j (by simp) hjk
      have := ih hnd' hk' (fun j' hj' => h0 j' (by simp [hj']))
      simp only [List.map_cons, List.sum_cons, h00, this]
      grind


/-! ## ITEM 1 (b): evaluation of the capacity rows -/

theorem tsum_virt (c : CHPR) (x : Vec) (i : Nat) : tsum (c.virt i (c.cv i)) x = c.vd x i := by
  cases hh : c.heat <;> simp [tsum, CHPR.virt, CHPR.vd, hh] <;> grind

theorem core_capLower_eval (c : CHPR) (x : Vec) (i : Nat) :
    (c.capLower i).eval x = c.vd x i - (if c.incOn then c.minCap i * x (c.layout.on (c.stepOff i)) else 0) := by
  cases hh : c.heat <;> cases ho : c.incOn <;>
    simp [CHPR.capLower, CHPR.virt, CHPR.vd, Row.eval, hh, ho] <;> grind

theorem core_capUpper_eval (c : CHPR) (x : Vec) (i : Nat) :
    (c.capUpper i).eval x = c.vd x i - (if c.incOn then c.maxCap i * x (c.layout.on (c.stepOff i)) else 0) := by
  cases hh : c.heat <;> cases ho : c.incOn <;>
    simp [CHPR.capUpper, CHPR.virt, CHPR.vd, Row.eval, hh, ho] <;> grind

theorem capLower_eval (r : CHPRP) (x : Vec) (i : Nat) :
    (r.capLower i).eval x = (r.core.capLower i).eval x +
      tsum (r.startTerms i (fun j => r.core.minCap i - r.prof.sl.getD j 0)) x +
      tsum (r.shutTerms i (fun j => r.core.minCap i - r.prof.ql.getD j 0)) x := by
  simp only [eval_eq_tsum, CHPRP.capLower, tsum_append]

theorem capUpper_eval (r : CHPRP) (x : Vec) (i : Nat) :
    (r.capUpper i).eval x = (r.core.capUpper i).eval x +
      tsum (r.startTerms i (fun j => r.core.maxCap i - r.prof.su.getD j 0)) x +
      tsum (r.shutTerms i (fun j => r.core.maxCap i - r.prof.qu.getD j 0)) x := by
  simp only [eval_eq_tsum, CHPRP.capUpper, tsum_append]

theorem capLower_sat (r : CHPRP) (x : Vec) (i : Nat) : (r.capLower i).Sat x ↔ 0 ≤ (r.capLower i).eval x := Iff.rfl

theorem capUpper_sat (r : CHPRP) (x : Vec) (i : Nat) :
    (r.capUpper i).Sat x ↔ (r.capUpper i).eval x ≤ (if r.core.incOn then 0 else r.core.maxCap i) := Iff.rfl

/-! ### the start / shutdown sums -/

theorem startJs_nodup (r : CHPRP) (i : Nat) : ((List.range r.prof.S).filter fun j => decide (j ≤ i)).Nodup :=
  List.Pairwise.filter _ List.nodup_range

theorem shutJs_nodup (r : CHPRP) (i : Nat) : ((List.range r.prof.Q).filter fun j => decide (i + j + 1 < r.core.T)).Nodup :=
  List.Pairwise.filter _ List.nodup_range

theorem startTerms_zero (r : CHPRP) (x : Vec) (i : Nat) (f : Nat → Rat)
    (hs0 : ∀ j, j < r.prof.S → j ≤ i → x (r.core.layout.start (i - j)) = 0) : tsum (r.startTerms i f) x = 0 := by
  apply sum_no_flag
  intro j hj
  simp only [List.mem_filter, List.mem_range, decide_eq_true_eq] at hj
  exact hs0 j hj.1 hj.2

theorem shutTerms_zero (r : CHPRP) (x : Vec) (i : Nat) (f : Nat → Rat)
    (hq0 : ∀ j, j < r.prof.Q → i + j + 1 < r.core.T → x (r.shut (i + j + 1)) = 0) : tsum (r.shutTerms i f) x = 0 := by
  apply sum_no_flag
  intro j hj
  simp only [List.mem_filter, List.mem_range, decide_eq_true_eq] at hj
  exact hq0 j hj.1 hj.2

theorem startTerms_one (r : CHPRP) (x : Vec) (i : Nat) (f : Nat → Rat) (k : Nat) (hk : k < r.prof.S) (hki : k ≤ i)
    (hs : x (r.core.layout.start (i - k)) = 1)
    (hs0 : ∀ j, j < r.prof.S → j ≤ i → j ≠ k → x (r.core.layout.start (i - j)) = 0) : tsum (r.startTerms i f) x = f k := by
  apply sum_one_flag _ (fun j => r.core.layout.start (i - j)) f x k (startJs_nodup r i)
  · simp [hk, hki]
  · exact hs
  · intro j hj
    simp only [List.mem_filter, List.mem_range, decide_eq_true_eq] at hj
    exact hs0 j hj.1 hj.2

theorem shutTerms_one (r : CHPRP) (x : Vec) (i : Nat) (f : Nat → Rat) (k : Nat) (hk : k < r.prof.Q) (hkT : i + k + 1 < r.core.T)
    (hq : x (r.shut (i + k + 1)) = 1)
    (hq0 : ∀ j, j < r.prof.Q → i + j + 1 < r.core.T → j ≠ k → x (r.shut (i + j + 1)) = 0) : tsum (r.shutTerms i f) x = f k := by
  apply sum_one_flag _ (fun j => r.shut (i + j + 1)) f x k (shutJs_nodup r i)
  · simp [hk, hkT]
  · exact hq
  · intro j hj
    simp only [List.mem_filter, List.mem_range, decide_eq_true_eq] at hj
    exact hq0 j hj.1 hj.2

/-! ## ITEM 1 (c): membership -/

theorem rowsP_eq (r : CHPRP) : (assembleCHPP r).rows = r.rows := rfl

theorem sat_of_memP {r : CHPRP} {x : Vec} (hx : (assembleCHPP r).FeasibleRelaxed x) {row : Row}
    (h : row ∈ r.rows) : row.Sat x := hx.2 row h

theorem capRows_mem (r : CHPRP) {row : Row} (h : row ∈ r.capRows) : row ∈ r.rows := by
  simp only [CHPRP.rows, List.mem_append]
  exact Or.inl (Or.inl (Or.inl (Or.inl (Or.inl (Or.inr h)))))

theorem capLower_mem (r : CHPRP) {i : Nat} (hi : i < r.core.n) (hf : r.firstCap ≤ i) : r.capLower i ∈ r.rows := by
  apply capRows_mem
  simp only [CHPRP.capRows, CHPRP.capSteps, List.mem_append, List.mem_map, List.mem_filter, List.mem_range, decide_eq_true_eq]
  exact Or.inl (Or.inl (Or.inl ⟨i, ⟨hi, hf⟩, rfl⟩))

theorem capUpper_mem (r : CHPRP) {i : Nat} (hi : i < r.core.n) (hf : r.firstCap ≤ i) : r.capUpper i ∈ r.rows := by
  apply capRows_mem
  simp only [CHPRP.capRows, CHPRP.capSteps, List.mem_append, List.mem_map, List.mem_filter, List.mem_range, decide_eq_true_eq]
  exact Or.inl (Or.inl (Or.inr ⟨i, ⟨hi, hf⟩, rfl⟩))

/-! ## ITEM 1 (d): profile precedence -/

/-- in the `k`-th step after a start (exactly that start flag set among those the row sees, no shutdown flag, unit
    on) the virtual dispatch lies within the `k`-th start-profile bounds — whatever `min_cap` / `max_cap` are -/
theorem start_profile_bounds (r : CHPRP) (x : Vec) (hx : (assembleCHPP r).FeasibleRelaxed x) (hon : r.core.incOn = true)
    (i : Nat) (hi : i < r.core.n) (hf : r.firstCap ≤ i) (k : Nat) (hk : k < r.prof.S) (hki : k ≤ i)
    (hon1 : x (r.core.layout.on (r.core.stepOff i)) = 1) (hs : x (r.core.layout.start (i - k)) = 1)
    (hs0 : ∀ j, j < r.prof.S → j ≤ i → j ≠ k → x (r.core.layout.start (i - j)) = 0)
    (hq0 : ∀ j, j < r.prof.Q → i + j + 1 < r.core.T → x (r.shut (i + j + 1)) = 0) :
    r.prof.sl.getD k 0 ≤ r.core.vd x i ∧ r.core.vd x i ≤ r.prof.su.getD k 0 := by
  have hl := (capLower_sat r x i).mp (sat_of_memP hx (capLower_mem r hi hf))
  have hu := (capUpper_sat r x i).mp (sat_of_memP hx (capUpper_mem r hi hf))
  rw [capLower_eval, core_capLower_eval, startTerms_one r x i _ k hk hki hs hs0, shutTerms_zero r x i _ hq0] at hl
  rw [capUpper_eval, core_capUpper_eval, startTerms_one r x i _ k hk hki hs hs0, shutTerms_zero r x i _ hq0] at hu
  simp only [hon, if_true, hon1] at hl hu
  constructor <;> grind

/-- `k + 1` steps before a shutdown: within the `k`-th shutdown-profile bounds -/
theorem shutdown_profile_bounds (r : CHPRP) (x : Vec) (hx : (assembleCHPP r).FeasibleRelaxed x) (hon : r.core.incOn = true)
    (i : Nat) (hi : i < r.core.n) (hf : r.firstCap ≤ i) (k : Nat) (hk : k < r.prof.Q) (hkT : i + k + 1 < r.core.T)
    (hon1 : x (r.core.layout.on (r.core.stepOff i)) = 1) (hq : x (r.shut (i + k + 1)) = 1)
    (hq0 : ∀ j, j < r.prof.Q → i + j + 1 < r.core.T → j ≠ k → x (r.shut (i + j + 1)) = 0)
    (hs0 : ∀ j, j < r.prof.S → j ≤ i → x (r.core.layout.start (i - j)) = 0) :
    r.prof.ql.getD k 0 ≤ r.core.vd x i ∧ r.core.vd x i ≤ r.prof.qu.getD k 0 := by
  have hl := (capLower_sat r x i).mp (sat_of_memP hx (capLower_mem r hi hf))
  have hu := (capUpper_sat r x i).mp (sat_of_memP hx (capUpper_mem r hi hf))
  rw [capLower_eval, core_capLower_eval, shutTerms_one r x i _ k hk hkT hq hq0, startTerms_zero r x i _ hs0] at hl
  rw [capUpper_eval, core_capUpper_eval, shutTerms_one r x i _ k hk hkT hq hq0, startTerms_zero r x i _ hs0] at hu
  simp only [hon, if_true, hon1] at hl hu
  constructor <;> grind

/-- outside the ramps (no flag the row sees is set): on ⇒ between min and max capacity, off ⇒ 0 -/
theorem capacity_outside_ramps (r : CHPRP) (x : Vec) (hx : (assembleCHPP r).FeasibleRelaxed x) (hon : r.core.incOn = true)
    (i : Nat) (hi : i < r.core.n) (hf : r.firstCap ≤ i)
    (hs0 : ∀ j, j < r.prof.S → j ≤ i → x (r.core.layout.start (i - j)) = 0)
    (hq0 : ∀ j, j < r.prof.Q → i + j + 1 < r.core.T → x (r.shut (i + j + 1)) = 0) :
    (x (r.core.layout.on (r.core.stepOff i)) = 1 → r.core.minCap i ≤ r.core.vd x i ∧ r.core.vd x i ≤ r.core.maxCap i) ∧
    (x (r.core.layout.on (r.core.stepOff i)) = 0 → r.core.vd x i = 0) := by
  have hl := (capLower_sat r x i).mp (sat_of_memP hx (capLower_mem r hi hf))
  have hu := (capUpper_sat r x i).mp (sat_of_memP hx (capUpper_mem r hi hf))
  rw [capLower_eval, core_capLower_eval, shutTerms_zero r x i _ hq0, startTerms_zero r x i _ hs0] at hl
  rw [capUpper_eval, core_capUpper_eval, shutTerms_zero r x i _ hq0, startTerms_zero r x i _ hs0] at hu
  simp only [hon, if_true] at hl hu
  constructor
  · intro h1; rw [h1] at hl hu; constructor <;> grind
  · intro h0; rw [h0] at hl hu; grind


/-- a unit in its start ramp at the beginning (`0 < tar < S`): the first `S − tar` steps follow the profile from
    position `tar` -/
theorem init_ramp_bounds (r : CHPRP) (x : Vec) (hx : (assembleCHPP r).FeasibleRelaxed x)
    (h1 : 0 < r.core.tar) (h2 : r.core.tar < r.prof.S) (i : Nat) (hi : i < r.prof.S - r.core.tar) :
    r.prof.sl.getD (r.core.tar + i) 0 ≤ r.core.vd x i ∧ r.core.vd x i ≤ r.prof.su.getD (r.core.tar + i) 0 := by
  have hmem : ∀ row ∈ [({ coeffs := r.core.virt i (r.core.cv i), rhs := r.prof.su.getD (r.core.tar + i) 0, kind := .U } : Row),
       { coeffs := r.core.virt i (r.core.cv i), rhs := r.prof.sl.getD (r.core.tar + i) 0, kind := .L }], row ∈ r.rows := by
    intro row hrow
    apply capRows_mem
    simp only [CHPRP.capRows, List.mem_append]
    refine Or.inr ?_
    simp only [CHPRP.initRampRows, h1, h2, and_self, if_true, List.mem_flatMap, List.mem_range]
    exact ⟨i, hi, hrow⟩
  have hu := sat_of_memP hx (hmem _ List.mem_cons_self)
  have hl := sat_of_memP hx (hmem _ (List.mem_cons_of_mem _ (List.mem_singleton.mpr rfl)))
  have hu' : tsum (r.core.virt i (r.core.cv i)) x ≤ r.prof.su.getD (r.core.tar + i) 0 := hu
  have hl' : r.prof.sl.getD (r.core.tar + i) 0 ≤ tsum (r.core.virt i (r.core.cv i)) x := hl
  rw [tsum_virt] at hu' hl'
  exact ⟨hl', hu'⟩

/-! ## ITEM 2: start and shutdown flags are defined by equalities -/

theorem startShutRows_mem (r : CHPRP) {row : Row} (h : row ∈ r.startShutRows) : row ∈ r.rows := by
  simp only [CHPRP.rows, List.mem_append]
  exact Or.inl (Or.inl (Or.inl (Or.inr h)))

theorem startShutRow_mem (r : CHPRP) {t : Nat} (ht : t + 1 < r.core.T) : r.startShutRow t ∈ r.rows := by
  apply startShutRows_mem
  simp only [CHPRP.startShutRows, List.mem_append, List.mem_map, List.mem_range]
  exact Or.inl (Or.inl ⟨t, by omega, rfl⟩)

theorem overlapRow_mem (r : CHPRP) {t : Nat} (ht : t + 1 < r.core.T) : r.overlapRow t ∈ r.rows := by
  apply startShutRows_mem
  simp only [CHPRP.startShutRows, List.mem_append, List.mem_map, List.mem_range]
  exact Or.inr ⟨t, by omega, rfl⟩

theorem firstRow_mem (r : CHPRP) : (if r.core.tar = 0 then r.core.startFirstRow else r.firstRunningRow) ∈ r.rows := by
  apply startShutRows_mem
  simp [CHPRP.startShutRows]

theorem startShutRow_sat (r : CHPRP) (x : Vec) (t : Nat) :
    (r.startShutRow t).Sat x ↔
      x (r.core.layout.on (t + 1)) - x (r.core.layout.on t) = x (r.core.layout.start (t + 1)) - x (r.shut (t + 1)) := by
  simp [CHPRP.startShutRow, Row.Sat, Row.eval]; grind

theorem firstRunningRow_sat (r : CHPRP) (x : Vec) :
    r.firstRunningRow.Sat x ↔ x (r.core.layout.on 0) + x (r.shut 0) = 1 := by
  simp [CHPRP.firstRunningRow, Row.Sat, Row.eval]; grind

theorem overlapRow_sat (r : CHPRP) (x : Vec) (t : Nat) :
    (r.overlapRow t).Sat x ↔ x (r.core.layout.start t) + x (r.shut t) ≤ 1 := by
  simp [CHPRP.overlapRow, Row.Sat, Row.eval]; grind

theorem start_shut_flag (r : CHPRP) (x : Vec) (hx : (assembleCHPP r).FeasibleRelaxed x) (t : Nat) (ht : t + 1 < r.core.T) :
    x (r.core.layout.on (t + 1)) - x (r.core.layout.on t) = x (r.core.layout.start (t + 1)) - x (r.shut (t + 1)) :=
  (startShutRow_sat r x t).mp (sat_of_memP hx (startShutRow_mem r ht))

theorem first_flag_off (r : CHPRP) (x : Vec) (hx : (assembleCHPP r).FeasibleRelaxed x) (h0 : r.core.tar = 0) :
    x (r.core.layout.start 0) = x (r.core.layout.on 0) := by
  have h := firstRow_mem r
  rw [if_pos h0] at h
  exact (startFirstRow_sat r.core x).mp (sat_of_memP hx h)

theorem first_flag_running (r : CHPRP) (x : Vec) (hx : (assembleCHPP r).FeasibleRelaxed x) (h0 : r.core.tar ≠ 0) :
    x (r.core.layout.on 0) + x (r.shut 0) = 1 := by
  have h := firstRow_mem r
  rw [if_neg h0] at h
  exact (firstRunningRow_sat r x).mp (sat_of_memP hx h)

theorem no_overlap (r : CHPRP) (x : Vec) (hx : (assembleCHPP r).FeasibleRelaxed x) (t : Nat) (ht : t + 1 < r.core.T) :
    x (r.core.layout.start t) + x (r.shut t) ≤ 1 :=
  (overlapRow_sat r x t).mp (sat_of_memP hx (overlapRow_mem r ht))

/-- with 0/1 values a start is flagged EXACTLY at off→on transitions (for steps that have an overlap row) -/
theorem start_exact (r : CHPRP) (x : Vec) (hx : (assembleCHPP r).FeasibleRelaxed x) (t : Nat) (ht : t + 2 < r.core.T)
    (ho : x (r.core.layout.on t) = 0 ∨ x (r.core.layout.on t) = 1)
    (ho' : x (r.core.layout.on (t + 1)) = 0 ∨ x (r.core.layout.on (t + 1)) = 1)
    (hs : x (r.core.layout.start (t + 1)) = 0 ∨ x (r.core.layout.start (t + 1)) = 1)
    (hq : x (r.shut (t + 1)) = 0 ∨ x (r.shut (t + 1)) = 1) :
    x (r.core.layout.start (t + 1)) = 1 ↔ (x (r.core.layout.on t) = 0 ∧ x (r.core.layout.on (t + 1)) = 1) := by
  have he := start_shut_flag r x hx t (by omega)
  have hov := no_overlap r x hx (t + 1) (by omega)
  rcases ho with ho | ho <;> rcases ho' with ho' | ho' <;> rcases hs with hs | hs <;> rcases hq with hq | hq <;>
    rw [ho, ho', hs, hq] at he <;> rw [hs, hq] at hov <;> simp only [ho, ho', hs] <;> grind

/-- with 0/1 values a shutdown is flagged EXACTLY at on→off transitions (for steps that have an overlap row) -/
theorem shutdown_exact (r : CHPRP) (x : Vec) (hx : (assembleCHPP r).FeasibleRelaxed x) (t : Nat) (ht : t + 2 < r.core.T)
    (ho : x (r.core.layout.on t) = 0 ∨ x (r.core.layout.on t) = 1)
    (ho' : x (r.core.layout.on (t + 1)) = 0 ∨ x (r.core.layout.on (t + 1)) = 1)
    (hs : x (r.core.layout.start (t + 1)) = 0 ∨ x (r.core.layout.start (t + 1)) = 1)
    (hq : x (r.shut (t + 1)) = 0 ∨ x (r.shut (t + 1)) = 1) :
    x (r.shut (t + 1)) = 1 ↔ (x (r.core.layout.on t) = 1 ∧ x (r.core.layout.on (t + 1)) = 0) := by
  have he := start_shut_flag r x hx t (by omega)
  have hov := no_overlap r x hx (t + 1) (by omega)
  rcases ho with ho | ho <;> rcases ho' with ho' | ho' <;> rcases hs with hs | hs <;> rcases hq with hq | hq <;>
    rw [ho, ho', hs, hq] at he <;> rw [hs, hq] at hov <;> simp only [ho, ho', hq] <;> grind

end EAO.CHPProfile
