import EAO.Model.Storage
/-! helper lemmas for C05 (storage physics): sums, evaluation of the fill-level rows, the chain of
    time blocks, bounds vectors, shape of a successful `buildStorage` -/
namespace EAO
open Storage

/-! ### sums -/

theorem sumTo_succ (f : Nat → Rat) (k : Nat) : sumTo f (k + 1) = sumTo f k + f k := rfl

theorem sumTo_congr (f g : Nat → Rat) (k : Nat) (h : ∀ j, j < k → f j = g j) : sumTo f k = sumTo g k := by
  induction k with
  | zero => rfl
  | succ k ih =>
    rw [sumTo_succ, sumTo_succ, ih (fun j hj => h j (by omega)), h k (by omega)]

theorem sumTo_add (f g : Nat → Rat) (k : Nat) :
    sumTo (fun j => f j + g j) k = sumTo f k + sumTo g k := by
  induction k with
  | zero => simp [sumTo]; grind
  | succ k ih => simp only [sumTo_succ, ih]; grind

/-- `Σ_{j=a}^{a+k-1} f j = S(a+k) - S(a)` -/
theorem sum_map_range' (f : Nat → Rat) (k : Nat) : ∀ a : Nat,
    ((List.range' a k).map f).sum = sumTo f (a + k) - sumTo f a := by
  induction k with
  | zero => intro a; simp; grind
  | succ k ih =>
    intro a
    rw [List.range'_succ, List.map_cons, List.sum_cons, ih (a + 1)]
    have h1 : a + 1 + k = a + (k + 1) := by omega
    rw [h1, sumTo_succ f a]
    grind

theorem getD_map_range (f : Nat → Rat) (n j : Nat) (h : j < n) : ((List.range n).map f).getD j 0 = f j := by
  simp [List.getD_eq_getElem?_getD, h]

theorem getD_app_left (l1 l2 : List Rat) (j : Nat) (h : j < l1.length) : (l1 ++ l2).getD j 0 = l1.getD j 0 := by
  simp [List.getD_eq_getElem?_getD, List.getElem?_append_left h]

theorem getD_app_right (l1 l2 : List Rat) (j : Nat) (h : l1.length ≤ j) :
    (l1 ++ l2).getD j 0 = l2.getD (j - l1.length) 0 := by
  simp [List.getD_eq_getElem?_getD, List.getElem?_append_right h]

/-! ### physical quantities -/

/-- net volume entering the reservoir in step `j` -/
def Storage.flow (p : StorageP) (n : Nat) (x : Vec) (j : Nat) : Rat :=
  if sep p then p.effIn * (-(x j)) - x (n + j) else -(x j)

/-- level after `k` steps of the window: start level + net charge + inflow -/
def Storage.lev (p : StorageP) (g : Grid) (n : Nat) (x : Vec) (k : Nat) : Rat :=
  p.startLevel + sumTo (flow p n x) k + cumInfl p g k

/-- left-hand side of the fill-level rows: net volume since the start of the block -/
theorem eval_levelCoeffs (p : StorageP) (n a i : Nat) (x : Vec) (rhs : Rat) (k : RowKind) :
    Row.eval { coeffs := levelCoeffs p n a i, rhs := rhs, kind := k } x
      = sumTo (flow p n x) (a + (i + 1 - a)) - sumTo (flow p n x) a := by
  unfold Row.eval levelCoeffs
  by_cases hs : sep p = true
  · simp only [hs, if_true, List.map_append, List.map_map, List.sum_append]
    have h1 := sum_map_range' (fun j => -1 * p.effIn * x j) (i + 1 - a) a
    have h2 := sum_map_range' (fun j => -1 * x (n + j)) (i + 1 - a) a
    have e1 : ((fun (q : Nat × Rat) => q.2 * x q.1) ∘ fun j => (j, -1 * p.effIn)) = fun j => -1 * p.effIn * x j := rfl
    have e2 : ((fun (q : Nat × Rat) => q.2 * x q.1) ∘ fun j => (n + j, (-1 : Rat))) = fun j => -1 * x (n + j) := rfl
    rw [e1, e2, h1, h2]
    have h3 : ∀ m, sumTo (flow p n x) m
        = sumTo (fun j => -1 * p.effIn * x j) m + sumTo (fun j => -1 * x (n + j)) m := by
      intro m
      rw [← sumTo_add]
      apply sumTo_congr
      intro j _
      simp only [flow, hs, if_true]
      grind
    rw [h3, h3]
    grind
  · simp only [hs, Bool.false_eq_true, if_false, List.map_map]
    have h1 := sum_map_range' (fun j => -1 * x j) (i + 1 - a) a
    have e1 : ((fun (q : Nat × Rat) => q.2 * x q.1) ∘ fun j => (j, (-1 : Rat))) = fun j => -1 * x j := rfl
    rw [e1, h1]
    have h3 : ∀ m, sumTo (flow p n x) m = sumTo (fun j => -1 * x j) m := by
      intro m
      apply sumTo_congr
      intro j _
      simp only [flow, hs, Bool.false_eq_true, if_false]
      grind
    rw [h3, h3]

/-! ### membership of the fill-level rows -/

theorem mem_upperRows (p : StorageP) (g : Grid) (n : Nat) (bl : List (Nat × Nat)) (ae : Nat × Nat)
    (hae : ae ∈ bl) (i : Nat) (h1 : ae.1 ≤ i) (h2 : i < ae.2) :
    upperRow p g n ae.1 ae.2 i ∈ upperRows p g n bl := by
  unfold upperRows
  refine List.mem_flatMap.mpr ⟨ae, hae, List.mem_map.mpr ⟨i, ?_, rfl⟩⟩
  rw [List.mem_range'_1]; omega

theorem mem_lowerRows (p : StorageP) (g : Grid) (n : Nat) (bl : List (Nat × Nat)) (ae : Nat × Nat)
    (hae : ae ∈ bl) (i : Nat) (h1 : ae.1 ≤ i) (h2 : i < ae.2) :
    lowerRow p g n ae.1 ae.2 i ∈ lowerRows p g n bl := by
  unfold lowerRows
  refine List.mem_flatMap.mpr ⟨ae, hae, List.mem_map.mpr ⟨i, ?_, rfl⟩⟩
  rw [List.mem_range'_1]; omega

/-! ### the chain of blocks -/

/-- last element of `a :: l` -/
def Storage.lastOf : Nat → List Nat → Nat
  | a, [] => a
  | _, b :: l => lastOf b l

theorem lastOf_append (a : Nat) (l : List Nat) (n : Nat) : lastOf a (l ++ [n]) = n := by
  induction l generalizing a with
  | nil => rfl
  | cons b l ih => exact ih b

theorem blockPairs_cons2 (a b : Nat) (l : List Nat) : blockPairs (a :: b :: l) = (a, b) :: blockPairs (b :: l) := rfl

theorem strictInc_append (l : List Nat) (n : Nat) : ∀ a, strictInc (a :: l) = true → (∀ v ∈ a :: l, v < n) →
    strictInc (a :: (l ++ [n])) = true := by
  induction l with
  | nil => intro a _ h; simp [strictInc]; exact h a (by simp)
  | cons b l ih =>
    intro a hs h
    simp only [strictInc, Bool.and_eq_true, decide_eq_true_eq] at hs
    simp only [List.cons_append, strictInc, Bool.and_eq_true, decide_eq_true_eq]
    exact ⟨hs.1, ih b hs.2 (fun v hv => h v (List.mem_cons_of_mem _ hv))⟩

/-- what the fill-level rows of the block `[a, e)` say (without a maximum holding duration):
    net volume since the block start between "empty" and "full", end-level value in the last row -/
def Storage.LevelIneq (p : StorageP) (g : Grid) (n : Nat) (x : Vec) (a e : Nat) : Prop :=
  ∀ i, a ≤ i → i < e →
    sumTo (flow p n x) (i + 1) - sumTo (flow p n x) a ≤ upRhs p g a e i ∧
    loRhs p g a e i ≤ sumTo (flow p n x) (i + 1) - sumTo (flow p n x) a

/-- one block: if the level at the block start is the block's start level, the level stays within
    `[0, size]` and reaches the end level at the block end -/
theorem block_levels (p : StorageP) (g : Grid) (n : Nat) (x : Vec) (a e : Nat) (hae : a < e)
    (hend : 0 ≤ p.endLevel ∧ p.endLevel ≤ p.size)
    (h0 : lev p g n x a = blockStart p a) (hI : LevelIneq p g n x a e) :
    (∀ t, a ≤ t → t < e → 0 ≤ lev p g n x (t + 1) ∧ lev p g n x (t + 1) ≤ p.size) ∧
    lev p g n x e = p.endLevel := by
  have hlast : lev p g n x e = p.endLevel := by
    obtain ⟨h1, h2⟩ := hI (e - 1) (by omega) (by omega)
    have he : e - 1 + 1 = e := by omega
    simp only [upRhs, loRhs, he, if_true, blockInfl] at h1 h2
    unfold lev at h0 ⊢
    grind
  refine ⟨?_, hlast⟩
  intro t h1 h2
  by_cases ht : t + 1 = e
  · rw [ht, hlast]; exact hend
  · obtain ⟨h3, h4⟩ := hI t h1 h2
    simp only [upRhs, loRhs, ht, if_false, blockInfl] at h3 h4
    unfold lev at h0 ⊢
    constructor <;> grind

/-- all blocks: the level is carried over the block boundaries -/
theorem chain_levels (p : StorageP) (g : Grid) (n : Nat) (x : Vec)
    (hend : 0 ≤ p.endLevel ∧ p.endLevel ≤ p.size) (l : List Nat) : ∀ a : Nat,
    strictInc (a :: l) = true → lev p g n x a = blockStart p a →
    (∀ ae ∈ blockPairs (a :: l), LevelIneq p g n x ae.1 ae.2) →
    (∀ t, a ≤ t → t < lastOf a l → 0 ≤ lev p g n x (t + 1) ∧ lev p g n x (t + 1) ≤ p.size) ∧
    (∀ e ∈ l, lev p g n x e = p.endLevel) ∧
    (∀ ae ∈ blockPairs (a :: l), lev p g n x ae.1 = blockStart p ae.1) := by
  induction l with
  | nil =>
    intro a _ _ _
    exact ⟨fun t h1 h2 => by simp [lastOf] at h2; omega, fun e he => by simp at he,
      fun ae hae => by simp [blockPairs] at hae⟩
  | cons b l ih =>
    intro a hs h0 hI
    simp only [strictInc, Bool.and_eq_true, decide_eq_true_eq] at hs
    rw [blockPairs_cons2] at hI ⊢
    obtain ⟨hb1, hb2⟩ := block_levels p g n x a b hs.1 hend h0 (hI (a, b) (by simp))
    have hb0 : lev p g n x b = blockStart p b := by
      have : b ≠ 0 := by omega
      simp [blockStart, this, hb2]
    obtain ⟨i1, i2, i3⟩ := ih b hs.2 hb0 (fun ae hae => hI ae (List.mem_cons_of_mem _ hae))
    refine ⟨?_, ?_, ?_⟩
    · intro t h1 h2
      by_cases ht : t < b
      · exact hb1 t h1 ht
      · exact i1 t (by omega) h2
    · intro e he
      rcases List.mem_cons.mp he with h | h
      · rw [h]; exact hb2
      · exact i2 e h
    · intro ae hae
      rcases List.mem_cons.mp hae with h | h
      · rw [h]; exact h0
      · exact i3 ae h

/-- every step of the window lies in exactly the block the chain assigns to it -/
theorem blockPairs_cover (l : List Nat) : ∀ a, ∀ t, a ≤ t → t < lastOf a l →
    ∃ ae ∈ blockPairs (a :: l), ae.1 ≤ t ∧ t < ae.2 := by
  induction l with
  | nil => intro a t h1 h2; simp [lastOf] at h2; omega
  | cons b l ih =>
    intro a t h1 h2
    rw [blockPairs_cons2]
    by_cases ht : t < b
    · exact ⟨(a, b), by simp, h1, ht⟩
    · obtain ⟨ae, hae, h3⟩ := ih b t (by omega) h2
      exact ⟨ae, List.mem_cons_of_mem _ hae, h3⟩

/-! ### bounds -/

theorem lowerVec_length (p : StorageP) (g : Grid) (n : Nat) : (lowerVec p g n).length = nVars p n := by
  unfold lowerVec nVars mHold nd
  by_cases hs : sep p = true <;> simp [hs] <;> omega

theorem upperVec_length (p : StorageP) (g : Grid) (n : Nat) : (upperVec p g n).length = nVars p n := by
  unfold upperVec nVars mHold nd
  by_cases hs : sep p = true <;> simp [hs] <;> omega

theorem costVec_length (p : StorageP) (g : Grid) (n : Nat) (pr : Nat → Rat) : (costVec p g n pr).length = nVars p n := by
  unfold costVec nVars mHold nd
  by_cases hs : sep p = true <;> simp [hs] <;> omega

theorem nd_le_nVars (p : StorageP) (n : Nat) : nd p n ≤ nVars p n := by
  unfold nVars mHold; omega

/-- bounds of the dispatch variables, two-variable form -/
theorem bounds_two (p : StorageP) (g : Grid) (n t : Nat) (hs : sep p = true) (ht : t < n) :
    (lowerVec p g n).getD t 0 = -(cp p g t) ∧ (upperVec p g n).getD t 0 = 0 ∧
    (lowerVec p g n).getD (n + t) 0 = 0 ∧ (upperVec p g n).getD (n + t) 0 = ct p g t := by
  unfold lowerVec upperVec
  simp only [hs, if_true]
  refine ⟨?_, ?_, ?_, ?_⟩
  · rw [getD_app_left _ _ _ (by simp; omega), getD_app_left _ _ _ (by simp; omega), getD_map_range _ _ _ ht]
  · rw [getD_app_left _ _ _ (by simp; omega), getD_app_left _ _ _ (by simp; omega), getD_map_range _ _ _ ht]
  · rw [getD_app_left _ _ _ (by simp; omega), getD_app_right _ _ _ (by simp)]
    simp only [List.length_map, List.length_range, Nat.add_sub_cancel_left]
    rw [getD_map_range _ _ _ ht]
  · rw [getD_app_left _ _ _ (by simp; omega), getD_app_right _ _ _ (by simp)]
    simp only [List.length_map, List.length_range, Nat.add_sub_cancel_left]
    rw [getD_map_range _ _ _ ht]

/-- bounds of the dispatch variables, one-variable form -/
theorem bounds_one (p : StorageP) (g : Grid) (n t : Nat) (hs : sep p = false) (ht : t < n) :
    (lowerVec p g n).getD t 0 = -(cp p g t) ∧ (upperVec p g n).getD t 0 = ct p g t := by
  unfold lowerVec upperVec
  simp only [hs, Bool.false_eq_true, if_false]
  refine ⟨?_, ?_⟩
  · rw [getD_app_left _ _ _ (by simp; omega), getD_map_range _ _ _ ht]
  · rw [getD_app_left _ _ _ (by simp; omega), getD_map_range _ _ _ ht]

/-- bounds of the boolean variables -/
theorem bounds_bool (p : StorageP) (g : Grid) (n j : Nat) (h1 : nd p n ≤ j) (h2 : j < nVars p n) :
    (lowerVec p g n).getD j 0 = 0 ∧ (upperVec p g n).getD j 0 = 1 := by
  have hl : ∀ (l1 : List Rat), l1.length = nd p n → ∀ v : Rat,
      (l1 ++ (List.range (nVars p n - nd p n)).map fun _ => v).getD j 0 = v := by
    intro l1 hl1 v
    rw [getD_app_right _ _ _ (by omega), getD_map_range _ _ _ (by omega)]
  unfold lowerVec upperVec
  constructor
  · apply hl; unfold nd; by_cases hs : sep p = true <;> simp [hs] <;> omega
  · apply hl; unfold nd; by_cases hs : sep p = true <;> simp [hs] <;> omega

/-! ### shape of a successful set-up -/

/-- a non-empty successful `buildStorage` is made of the model's parts for some block list -/
theorem buildStorage_ok (p : StorageP) (g : Grid) (T : Nat) (prices : Prices) (a : AssetProblem)
    (h : buildStorage p g T prices = .ok a) (hne : g.dt.length ≠ 0) :
    ∃ pr bl, blocksOf p g.T = .ok bl ∧ p.nodes ≠ [] ∧
      a = { name := p.name, nodes := p.nodes,
            c := costVec p g g.T pr, l := lowerVec p g g.T, u := upperVec p g g.T,
            rows := upperRows p g g.T bl ++ lowerRows p g g.T bl ++ nsRows p g g.T ++ holdRows p g g.T,
            mapping := mapping p g g.T } := by
  unfold buildStorage at h
  rw [if_neg hne] at h
  split at h
  · cases h
  · rename_i pr _
    split at h
    · cases h
    · rename_i hn
      split at h
      · cases h
      · rename_i bl hbl
        refine ⟨pr, bl, hbl, ?_, ?_⟩
        · intro h0; apply hn; simp [h0]
        · cases h; rfl

theorem lastOf_mem (l : List Nat) : ∀ a, l ≠ [] → lastOf a l ∈ l := by
  induction l with
  | nil => intro a h; exact absurd rfl h
  | cons b l ih =>
    intro a _
    cases l with
    | nil => simp [lastOf]
    | cons c l' => exact List.mem_cons_of_mem _ (ih b (by simp))

/-- the block list of a successful set-up is a chain `0 = a₀ < a₁ < … < n` -/
theorem blocksOf_ok (p : StorageP) (n : Nat) (bl : List (Nat × Nat)) (h : blocksOf p n = .ok bl) (hn : 0 < n) :
    ∃ l, bl = blockPairs (0 :: l) ∧ strictInc (0 :: l) = true ∧ lastOf 0 l = n ∧ l ≠ [] ∧
      (∀ aa, p.blocks = some aa → ∀ e ∈ aa, e = 0 ∨ e ∈ l) := by
  unfold blocksOf at h
  split at h
  · rename_i hnone
    cases h
    refine ⟨[n], rfl, ?_, rfl, by simp, ?_⟩
    · simp [strictInc]; omega
    · intro aa haa; rw [hnone] at haa; cases haa
  · rename_i aa hsome
    split at h
    · rename_i hc
      simp only [Bool.and_eq_true, List.all_eq_true, decide_eq_true_eq] at hc
      split at h
      · cases h
      · rename_i a0 tl
        split at h
        · rename_i h0
          subst h0
          cases h
          have hne : (0 :: tl).getLast? ≠ some n := by
            intro hl
            have := hc.2 n (List.mem_of_getLast? hl)
            omega
          refine ⟨tl ++ [n], ?_, strictInc_append tl n 0 hc.1 hc.2, lastOf_append 0 tl n, by simp, ?_⟩
          · unfold withEnd
            rw [if_neg hne]
            rfl
          · intro aa' haa' e he
            rw [hsome] at haa'
            cases haa'
            rcases List.mem_cons.mp he with h | h
            · exact Or.inl h
            · exact Or.inr (List.mem_append_left _ h)
        · cases h
    · cases h

/-! ### from satisfied rows to inequalities -/

/-- the holding-duration indicators lie in `[0,1]` (their bounds) -/
def Storage.IndOK (p : StorageP) (n : Nat) (x : Vec) : Prop :=
  ∀ i, i < n → 0 ≤ x (mHold p n + i) ∧ x (mHold p n + i) ≤ 1

/-- with a maximum holding duration the "full" row of step `i` reads
    `net volume since block start − level_max_i·ind_i ≤ b_i − level_max_i` -/
theorem upper_hold_ineq (p : StorageP) (g : Grid) (n : Nat) (x : Vec) (a e i : Nat) (d : Rat)
    (hmh : p.maxStoreDuration = some d) (hai : a ≤ i) (hu : (upperRow p g n a e i).Sat x) :
    sumTo (flow p n x) (i + 1) - sumTo (flow p n x) a - levelMax p e i * x (mHold p n + i)
      ≤ upRhs p g a e i - levelMax p e i := by
  unfold upperRow at hu
  rw [hmh] at hu
  simp only [Row.Sat, Row.eval, List.map_append, List.sum_append, List.map_cons, List.map_nil, List.sum_cons,
    List.sum_nil] at hu
  have he := eval_levelCoeffs p n a i x 0 .U
  unfold Row.eval at he
  simp only at he
  have hi : a + (i + 1 - a) = i + 1 := by omega
  rw [he, hi] at hu
  grind

theorem levelIneq_of_rows (p : StorageP) (g : Grid) (n : Nat) (x : Vec) (bl : List (Nat × Nat))
    (hend : 0 ≤ p.endLevel ∧ p.endLevel ≤ p.size) (hind : p.maxStoreDuration.isSome = true → IndOK p n x)
    (hbl : ∀ ae ∈ bl, ae.2 ≤ n)
    (hU : ∀ r ∈ upperRows p g n bl, r.Sat x) (hL : ∀ r ∈ lowerRows p g n bl, r.Sat x) :
    ∀ ae ∈ bl, LevelIneq p g n x ae.1 ae.2 := by
  intro ae hae i h1 h2
  have hu := hU _ (mem_upperRows p g n bl ae hae i h1 h2)
  have hl := hL _ (mem_lowerRows p g n bl ae hae i h1 h2)
  have hi : ae.1 + (i + 1 - ae.1) = i + 1 := by omega
  constructor
  · cases hmh : p.maxStoreDuration with
    | none =>
      unfold upperRow at hu
      rw [hmh] at hu
      simp only [Row.Sat] at hu
      rw [eval_levelCoeffs, hi] at hu
      exact hu
    | some d =>
      have h3 := upper_hold_ineq p g n x ae.1 ae.2 i d hmh h1 hu
      have hin : i < n := by have := hbl ae hae; omega
      have hlm : 0 ≤ levelMax p ae.2 i := by
        unfold levelMax; split
        · exact hend.1
        · exact Rat.le_trans hend.1 hend.2
      have h4 := Rat.mul_le_mul_of_nonneg_left (hind (by simp [hmh]) i hin).2 hlm
      grind
  · unfold lowerRow at hl
    simp only [Row.Sat] at hl
    rw [eval_levelCoeffs, hi] at hl
    exact hl

/-- indicator 0 forces the level to be `≤ 0` (the repaired rows bound the level itself) -/
theorem hold_zero (p : StorageP) (g : Grid) (n : Nat) (x : Vec) (a e t : Nat) (d : Rat)
    (hmh : p.maxStoreDuration = some d) (hat : a ≤ t) (h0 : lev p g n x a = blockStart p a)
    (hu : (upperRow p g n a e t).Sat x) (hind : x (mHold p n + t) = 0) : lev p g n x (t + 1) ≤ 0 := by
  have h3 := upper_hold_ineq p g n x a e t d hmh hat hu
  rw [hind] at h3
  unfold lev at h0 ⊢
  unfold upRhs levelMax blockInfl at h3
  split at h3 <;> grind

/-- a 0/1 family whose sum stays below its length contains a 0 -/
theorem exists_zero_of_sum (sel : List Nat) (y : Nat → Rat) (h01 : ∀ k ∈ sel, y k = 0 ∨ y k = 1)
    (hs : (sel.map y).sum ≤ (sel.length : Rat) - 1) : ∃ k ∈ sel, y k = 0 := by
  induction sel with
  | nil => simp at hs; exfalso; grind
  | cons a sel ih =>
    rcases h01 a (by simp) with h | h
    · exact ⟨a, by simp, h⟩
    · have hs' : (sel.map y).sum ≤ (sel.length : Rat) - 1 := by
        simp only [List.map_cons, List.sum_cons, List.length_cons, h] at hs
        have : ((sel.length + 1 : Nat) : Rat) = (sel.length : Rat) + 1 := by simp
        rw [this] at hs
        grind
      obtain ⟨k, hk, hk0⟩ := ih (fun k hk => h01 k (List.mem_cons_of_mem _ hk)) hs'
      exact ⟨k, List.mem_cons_of_mem _ hk, hk0⟩

/-- the window of a hold row reaches beyond the limit: it contains a step at which the cumulated
    length since the window start exceeds `d`, all members are relative positions inside the window -/
theorem holdWindow_exceeds (g : Grid) (n : Nat) (d : Rat) (i : Nat) (sel : List Nat)
    (h : holdWindow g n d i = some sel) : ∃ k0 ∈ sel, d < cumDtFrom g i k0 := by
  unfold holdWindow at h
  simp only at h
  split at h
  · cases h
  · rename_i k0 hk0
    cases h
    have hp := List.find?_some hk0
    have hm := List.mem_of_find?_eq_some hk0
    refine ⟨k0, ?_, ?_⟩
    · apply List.mem_filter.mpr
      exact ⟨hm, by simp⟩
    · simp only [Bool.not_eq_true', decide_eq_false_iff_not] at hp
      exact Rat.not_le.mp hp

/-- the lower fill-level rows alone (they are not touched by the holding-duration option) -/
theorem lowerIneq_of_rows (p : StorageP) (g : Grid) (n : Nat) (x : Vec) (bl : List (Nat × Nat))
    (hL : ∀ r ∈ lowerRows p g n bl, r.Sat x) :
    ∀ ae ∈ bl, ∀ i, ae.1 ≤ i → i < ae.2 →
      loRhs p g ae.1 ae.2 i ≤ sumTo (flow p n x) (i + 1) - sumTo (flow p n x) ae.1 := by
  intro ae hae i h1 h2
  have hl := hL _ (mem_lowerRows p g n bl ae hae i h1 h2)
  have hi : ae.1 + (i + 1 - ae.1) = i + 1 := by omega
  unfold lowerRow at hl
  simp only [Row.Sat] at hl
  rw [eval_levelCoeffs, hi] at hl
  exact hl

/-! ### reported fill level -/

theorem sum_map_zero_rat {α} (l : List α) : (l.map fun _ => (0 : Rat)).sum = 0 := by
  induction l with
  | nil => rfl
  | cons a l ih => simp only [List.map_cons, List.sum_cons, ih]; grind

theorem sum_filter_ite {α} (l : List α) (P : α → Bool) (q : α → Rat) :
    ((l.filter P).map q).sum = (l.map fun a => if P a then q a else 0).sum := by
  induction l with
  | nil => rfl
  | cons a l ih =>
    by_cases h : P a = true
    · simp only [List.filter_cons, h, if_true, List.map_cons, List.sum_cons, ih]
    · simp only [List.filter_cons, h, Bool.false_eq_true, if_false, List.map_cons, List.sum_cons, ih]; grind

theorem sum_range_pick (n i : Nat) (hi : i < n) (q : Nat → Rat) :
    ((List.range n).map fun k => if k = i then q k else 0).sum = q i := by
  induction n with
  | zero => omega
  | succ n ih =>
    rw [List.range_succ, List.map_append, List.sum_append]
    simp only [List.map_cons, List.map_nil, List.sum_cons, List.sum_nil]
    by_cases h : i = n
    · subst h
      have : ((List.range i).map fun k => if k = i then q k else 0) = (List.range i).map fun _ => (0 : Rat) := by
        apply List.map_congr_left
        intro k hk
        have : k ≠ i := by have := List.mem_range.mp hk; omega
        simp [this]
      rw [this, sum_map_zero_rat]
      simp; grind
    · rw [ih (by omega)]
      have : ¬ n = i := fun h' => h h'.symm
      simp [this]; grind

/-- strictly increasing step indices of the restricted grid -/
def Storage.IdxInc (g : Grid) (n : Nat) : Prop := ∀ i j, i < j → j < n → idxAt g i < idxAt g j

theorem idx_inj (g : Grid) (n : Nat) (h : IdxInc g n) (i k : Nat) (hi : i < n) (hk : k < n)
    (he : idxAt g k = idxAt g i) : k = i := by
  rcases Nat.lt_trichotomy k i with h1 | h1 | h1
  · have := h k i h1 hi; omega
  · exact h1
  · have := h i k h1 hk; omega

/-- the positions booked at full-grid step `idx i` are exactly `{i}` -/
theorem pick_hit (g : Grid) (n : Nat) (h : IdxInc g n) (i : Nat) (hi : i < n) (q : Nat → Rat) :
    (((List.range n).filter fun k => idxAt g k == idxAt g i).map q).sum = q i := by
  rw [sum_filter_ite, ← sum_range_pick n i hi q]
  congr 1
  apply List.map_congr_left
  intro k hk
  have hk' := List.mem_range.mp hk
  by_cases he : k = i
  · subst he; simp
  · have : ¬ idxAt g k = idxAt g i := fun h' => he (idx_inj g n h i k hi hk' h')
    simp [he, this]

theorem pick_miss (g : Grid) (n τ : Nat) (h : ∀ k, k < n → idxAt g k ≠ τ) (q : Nat → Rat) :
    (((List.range n).filter fun k => idxAt g k == τ).map q).sum = 0 := by
  have : (List.range n).filter (fun k => idxAt g k == τ) = [] := by
    apply List.filter_eq_nil_iff.mpr
    intro k hk
    simp [h k (List.mem_range.mp hk)]
  rw [this]; rfl

theorem firstRows_eq_self (L : List MapRow) : ∀ seen : List Nat,
    L.Pairwise (fun a b => a.var ≠ b.var) → (∀ m ∈ L, m.var ∉ seen) → firstRows L seen = L := by
  induction L with
  | nil => intro _ _ _; rfl
  | cons m L ih =>
    intro seen hp hs
    rw [List.pairwise_cons] at hp
    have h1 : seen.contains m.var = false := by
      have := hs m (by simp)
      simpa using this
    unfold firstRows
    rw [h1]
    simp only [Bool.false_eq_true, if_false]
    congr 1
    apply ih _ hp.2
    intro m' hm'
    simp only [List.mem_cons, not_or]
    exact ⟨fun h => hp.1 m' hm' h.symm, hs m' (List.mem_cons_of_mem _ hm')⟩

theorem pairwise_var_range (n off : Nat) (mk : Nat → MapRow) (hv : ∀ k, (mk k).var = off + k) :
    ((List.range n).map mk).Pairwise (fun a b => a.var ≠ b.var) := by
  rw [List.pairwise_map]
  apply List.Pairwise.imp _ (List.pairwise_lt_range)
  intro a b hab
  rw [hv, hv]; omega

/-- the dispatch rows of the storage's own mapping, first row per variable -/
theorem storageDispRows_mapping (p : StorageP) (g : Grid) (n : Nat) :
    storageDispRows (Storage.mapping p g n) p.name = dispMap p g n := by
  unfold storageDispRows Storage.mapping
  have hd : (dispMap p g n).filter (fun m => m.asset == p.name && m.kind == .d) = dispMap p g n := by
    apply List.filter_eq_self.mpr
    intro m hm
    unfold dispMap at hm
    by_cases hs : sep p = true
    · simp only [hs, if_true, List.mem_append, List.mem_map] at hm
      rcases hm with ⟨k, _, rfl⟩ | ⟨k, _, rfl⟩ <;> simp
    · simp only [hs, Bool.false_eq_true, if_false, List.mem_map] at hm
      obtain ⟨k, _, rfl⟩ := hm; simp
  have hbm : ∀ off nm, (boolMap p g n off nm).filter (fun m => m.asset == p.name && m.kind == .d) = [] := by
    intro off nm
    apply List.filter_eq_nil_iff.mpr
    intro m hm
    unfold boolMap at hm
    obtain ⟨k, _, rfl⟩ := List.mem_map.mp hm
    simp
  have hf : (dispMap p g n ++ (if hasNS p then boolMap p g n (2 * n) "bool_1" else [])
      ++ (if p.maxStoreDuration.isSome then boolMap p g n (mHold p n) "bool_2" else [])).filter
        (fun m => m.asset == p.name && m.kind == .d) = dispMap p g n := by
    rw [List.filter_append, List.filter_append, hd]
    have e1 : (if hasNS p then boolMap p g n (2 * n) "bool_1" else []).filter
        (fun m => m.asset == p.name && m.kind == .d) = [] := by
      split
      · exact hbm _ _
      · rfl
    have e2 : (if p.maxStoreDuration.isSome then boolMap p g n (mHold p n) "bool_2" else []).filter
        (fun m => m.asset == p.name && m.kind == .d) = [] := by
      split
      · exact hbm _ _
      · rfl
    rw [e1, e2]; simp
  rw [hf]
  apply firstRows_eq_self _ [] _ (fun _ _ => by simp)
  unfold dispMap
  by_cases hs : sep p = true
  · simp only [hs, if_true]
    rw [List.pairwise_append]
    refine ⟨pairwise_var_range n 0 _ (fun k => by simp), pairwise_var_range n n _ (fun k => rfl), ?_⟩
    intro a ha b hb
    obtain ⟨k, hk, rfl⟩ := List.mem_map.mp ha
    obtain ⟨k', _, rfl⟩ := List.mem_map.mp hb
    have := List.mem_range.mp hk
    simp only [ne_eq]; omega
  · simp only [hs, Bool.false_eq_true, if_false]
    exact pairwise_var_range n 0 _ (fun k => by simp)

/-- what the code reports as net volume into the reservoir at position `k` of the window -/
def Storage.repFlow (p : StorageP) (n : Nat) (x : Vec) (k : Nat) : Rat :=
  if sep p then
    (posPart (-(x k)) * p.effIn + negPart (-(x k))) + (posPart (-(x (n + k))) * p.effIn + negPart (-(x (n + k))))
  else posPart (-(x k)) * p.effIn + negPart (-(x k))

theorem filter_map_step (n : Nat) (mk : Nat → MapRow) (τ : Nat) (c : MapRow → Rat) :
    ((((List.range n).map mk).filter fun m => m.step == τ).map c).sum
      = (((List.range n).filter fun k => (mk k).step == τ).map fun k => c (mk k)).sum := by
  rw [List.filter_map, List.map_map]
  rfl

/-- increment of the reported fill level at full-grid step `τ`, for the storage's own mapping -/
theorem fillInc_mapping (p : StorageP) (g : Grid) (n : Nat) (x : Vec) (τ : Nat) (hlen : g.idx.length = n) :
    fillInc p (Storage.mapping p g n) g x τ
      = (((List.range n).filter fun k => idxAt g k == τ).map fun k => repFlow p n x k + infl p g k).sum := by
  unfold fillInc
  rw [storageDispRows_mapping, hlen]
  have hsplit : ∀ (l : List Nat) (f h : Nat → Rat),
      (l.map fun k => f k + h k).sum = (l.map f).sum + (l.map h).sum := by
    intro l f h
    induction l with
    | nil => simp; grind
    | cons a l ih => simp only [List.map_cons, List.sum_cons, ih]; grind
  rw [hsplit]
  congr 1
  unfold dispMap repFlow
  by_cases hs : sep p = true
  · simp only [hs, if_true, List.filter_append, List.map_append, List.sum_append]
    rw [filter_map_step, filter_map_step]
    exact (hsplit _ (fun k => posPart (-(x k)) * p.effIn + negPart (-(x k)))
      (fun k => posPart (-(x (n + k))) * p.effIn + negPart (-(x (n + k))))).symm
  · simp only [hs, Bool.false_eq_true, if_false]
    rw [filter_map_step]

theorem sumTo_gap (f : Nat → Rat) (a : Nat) : ∀ b, a ≤ b → (∀ τ, a ≤ τ → τ < b → f τ = 0) → sumTo f b = sumTo f a := by
  intro b
  induction b with
  | zero => intro h _; have : a = 0 := by omega
            rw [this]
  | succ b ih =>
    intro h hz
    by_cases hab : a = b + 1
    · rw [hab]
    · rw [sumTo_succ, ih (by omega) (fun τ h1 h2 => hz τ h1 (by omega)), hz b (by omega) (by omega)]
      grind

/-- cumulated increments up to the full-grid step of position `t` = sum over the positions `≤ t` -/
theorem sumTo_fillInc (p : StorageP) (g : Grid) (n : Nat) (x : Vec) (hlen : g.idx.length = n)
    (hinc : IdxInc g n) : ∀ t, t < n →
    sumTo (fillInc p (Storage.mapping p g n) g x) (idxAt g t + 1)
      = sumTo (fun k => repFlow p n x k + infl p g k) (t + 1) := by
  intro t
  induction t with
  | zero =>
    intro ht
    rw [sumTo_succ, sumTo_succ]
    have hz : sumTo (fillInc p (Storage.mapping p g n) g x) (idxAt g 0) = sumTo (fillInc p (Storage.mapping p g n) g x) 0 := by
      apply sumTo_gap _ 0 _ (by omega)
      intro τ _ h2
      rw [fillInc_mapping p g n x τ hlen]
      apply pick_miss
      intro k hk
      by_cases hk0 : k = 0
      · subst hk0; omega
      · have := hinc 0 k (by omega) hk; omega
    rw [hz, fillInc_mapping p g n x _ hlen, pick_hit g n hinc 0 ht]
    rfl
  | succ t ih =>
    intro ht
    rw [sumTo_succ, sumTo_succ _ (t + 1), ← ih (by omega)]
    have hz : sumTo (fillInc p (Storage.mapping p g n) g x) (idxAt g (t + 1))
        = sumTo (fillInc p (Storage.mapping p g n) g x) (idxAt g t + 1) := by
      have hlt := hinc t (t + 1) (by omega) ht
      apply sumTo_gap _ _ _ (by omega)
      intro τ h1 h2
      rw [fillInc_mapping p g n x τ hlen]
      apply pick_miss
      intro k hk
      by_cases hkt : k ≤ t
      · by_cases hkt' : k = t
        · subst hkt'; omega
        · have := hinc k t (by omega) (by omega); omega
      · by_cases hkt' : k = t + 1
        · subst hkt'; omega
        · have := hinc (t + 1) k (by omega) hk; omega
    rw [hz, fillInc_mapping p g n x _ hlen, pick_hit g n hinc (t + 1) ht]

/-! ### well-formedness -/

theorem blockPairs_bounds (l : List Nat) : ∀ a, strictInc (a :: l) = true →
    ∀ ae ∈ blockPairs (a :: l), a ≤ ae.1 ∧ ae.1 < ae.2 ∧ ae.2 ≤ lastOf a l := by
  induction l with
  | nil => intro a _ ae h; simp [blockPairs] at h
  | cons b l ih =>
    intro a hs ae hae
    simp only [strictInc, Bool.and_eq_true, decide_eq_true_eq] at hs
    rw [blockPairs_cons2] at hae
    have hmono : ∀ (l : List Nat) (b : Nat), strictInc (b :: l) = true → b ≤ lastOf b l := by
      intro l
      induction l with
      | nil => intro b _; exact Nat.le_refl _
      | cons c l ih' =>
        intro b hs'
        simp only [strictInc, Bool.and_eq_true, decide_eq_true_eq] at hs'
        have := ih' c hs'.2
        simp only [lastOf]; omega
    rcases List.mem_cons.mp hae with h | h
    · subst h
      have := hmono l b hs.2
      simp only [lastOf]; omega
    · have := ih b hs.2 ae h
      simp only [lastOf]; omega

theorem levelCoeffs_cols (p : StorageP) (n a i : Nat) (hi : i < n) :
    ∀ q ∈ levelCoeffs p n a i, q.1 < nd p n := by
  intro q hq
  unfold levelCoeffs at hq
  unfold nd
  by_cases hs : sep p = true
  · simp only [hs, if_true, List.mem_append, List.mem_map, List.mem_range'_1] at hq ⊢
    rcases hq with ⟨j, hj, rfl⟩ | ⟨j, hj, rfl⟩ <;> simp only <;> omega
  · simp only [hs, Bool.false_eq_true, if_false, List.mem_map, List.mem_range'_1] at hq ⊢
    obtain ⟨j, hj, rfl⟩ := hq
    simp only; omega

theorem holdWindow_lt (g : Grid) (n : Nat) (d : Rat) (i : Nat) (sel : List Nat)
    (h : holdWindow g n d i = some sel) : ∀ k ∈ sel, k < n - i := by
  unfold holdWindow at h
  simp only at h
  split at h
  · cases h
  · cases h
    intro k hk
    exact List.mem_range.mp (List.mem_filter.mp hk).1

/-- every column index of every row of a successful set-up is a variable -/
theorem storage_cols (p : StorageP) (g : Grid) (n : Nat) (l : List Nat)
    (hinc : strictInc (0 :: l) = true) (hlast : lastOf 0 l = n) :
    ∀ r ∈ upperRows p g n (blockPairs (0 :: l)) ++ lowerRows p g n (blockPairs (0 :: l)) ++ nsRows p g n ++ holdRows p g n,
      ∀ q ∈ r.coeffs, q.1 < nVars p n := by
  intro r hr q hq
  have hnd := nd_le_nVars p n
  simp only [List.mem_append] at hr
  rcases hr with ((hr | hr) | hr) | hr
  · unfold upperRows at hr
    obtain ⟨ae, hae, hr⟩ := List.mem_flatMap.mp hr
    obtain ⟨i, hi, rfl⟩ := List.mem_map.mp hr
    have hb := blockPairs_bounds l 0 hinc ae hae
    rw [hlast] at hb
    rw [List.mem_range'_1] at hi
    have hin : i < n := by omega
    unfold upperRow at hq
    split at hq
    · exact Nat.lt_of_lt_of_le (levelCoeffs_cols p n _ i hin q hq) hnd
    · rename_i d hd
      simp only [List.mem_append, List.mem_singleton] at hq
      rcases hq with hq | hq
      · exact Nat.lt_of_lt_of_le (levelCoeffs_cols p n _ i hin q hq) hnd
      · subst hq
        simp only [nVars, hd, Option.isSome_some, if_true]; omega
  · unfold lowerRows at hr
    obtain ⟨ae, hae, hr⟩ := List.mem_flatMap.mp hr
    obtain ⟨i, hi, rfl⟩ := List.mem_map.mp hr
    have hb := blockPairs_bounds l 0 hinc ae hae
    rw [hlast] at hb
    rw [List.mem_range'_1] at hi
    have hin : i < n := by omega
    exact Nat.lt_of_lt_of_le (levelCoeffs_cols p n _ i hin q hq) hnd
  · unfold nsRows at hr
    split at hr
    · rename_i hns
      have hs : sep p = true := by simp only [hasNS, Bool.and_eq_true] at hns; exact hns.2
      have hm : mHold p n = 3 * n := by simp [mHold, nd, hs, hns]; omega
      have hv : mHold p n ≤ nVars p n := by unfold nVars; omega
      simp only [List.mem_append, List.mem_map, List.mem_range] at hr
      rcases hr with ⟨i, hi, rfl⟩ | ⟨i, hi, rfl⟩
      · simp only [nsInRow, List.mem_cons, List.not_mem_nil, or_false] at hq
        rcases hq with rfl | rfl <;> simp only <;> omega
      · simp only [nsOutRow, List.mem_cons, List.not_mem_nil, or_false] at hq
        rcases hq with rfl | rfl <;> simp only <;> omega
    · simp at hr
  · unfold holdRows at hr
    split at hr
    · simp at hr
    · rename_i d hd
      obtain ⟨i, hi, hrow⟩ := List.mem_filterMap.mp hr
      have hi' := List.mem_range.mp hi
      unfold holdRow at hrow
      cases hw : holdWindow g n d i with
      | none => rw [hw] at hrow; simp at hrow
      | some sel =>
        rw [hw] at hrow
        simp only [Option.map_some, Option.some.injEq] at hrow
        subst hrow
        obtain ⟨k, hk, rfl⟩ := List.mem_map.mp hq
        have := holdWindow_lt g n d i sel hw k hk
        simp only [nVars, hd, Option.isSome_some, if_true]; omega

theorem storage_rows_noN (p : StorageP) (g : Grid) (n : Nat) (bl : List (Nat × Nat)) :
    ∀ r ∈ upperRows p g n bl ++ lowerRows p g n bl ++ nsRows p g n ++ holdRows p g n, r.kind ≠ .N := by
  intro r hr
  simp only [List.mem_append] at hr
  rcases hr with ((hr | hr) | hr) | hr
  · unfold upperRows at hr
    obtain ⟨ae, _, hr⟩ := List.mem_flatMap.mp hr
    obtain ⟨i, _, rfl⟩ := List.mem_map.mp hr
    unfold upperRow; split <;> simp
  · unfold lowerRows at hr
    obtain ⟨ae, _, hr⟩ := List.mem_flatMap.mp hr
    obtain ⟨i, _, rfl⟩ := List.mem_map.mp hr
    simp [lowerRow]
  · unfold nsRows at hr
    split at hr
    · simp only [List.mem_append, List.mem_map] at hr
      rcases hr with ⟨i, _, rfl⟩ | ⟨i, _, rfl⟩ <;> simp [nsInRow, nsOutRow]
    · simp at hr
  · unfold holdRows at hr
    split at hr
    · simp at hr
    · obtain ⟨i, _, hrow⟩ := List.mem_filterMap.mp hr
      unfold holdRow at hrow
      obtain ⟨sel, _, rfl⟩ := Option.map_eq_some_iff.mp hrow
      simp

/-- every mapping row names the storage and an existing variable; dispatch rows sit at the storage's
    nodes and at steps of the restricted grid -/
theorem storage_mapping_wf (p : StorageP) (g : Grid) (n : Nat) :
    ∀ m ∈ Storage.mapping p g n, m.asset = p.name ∧ m.var < nVars p n ∧
      (∀ nn, m.kind = .d → m.node = some nn → nn ∈ p.nodes ∧ ∃ k, k < n ∧ m.step = idxAt g k) := by
  intro m hm
  have hnd := nd_le_nVars p n
  have hin : ∀ nn, nodeIn p = some nn → nn ∈ p.nodes := by
    intro nn h; unfold nodeIn at h; exact List.mem_of_mem_head? h
  have hout : ∀ nn, nodeOut p = some nn → nn ∈ p.nodes := by
    intro nn h; unfold nodeOut at h
    split at h
    · exact List.mem_of_getElem? h
    · exact List.mem_of_mem_head? h
  unfold Storage.mapping at hm
  simp only [List.mem_append] at hm
  rcases hm with (hm | hm) | hm
  · unfold dispMap at hm
    by_cases hs : sep p = true
    · have hnd2 : nd p n = 2 * n := by simp [nd, hs]
      simp only [hs, if_true, List.mem_append, List.mem_map, List.mem_range] at hm
      rcases hm with ⟨k, hk, rfl⟩ | ⟨k, hk, rfl⟩
      · exact ⟨rfl, by simp only; omega, fun nn _ h => ⟨hin nn h, k, hk, rfl⟩⟩
      · exact ⟨rfl, by simp only; omega, fun nn _ h => ⟨hout nn h, k, hk, rfl⟩⟩
    · have hnd2 : nd p n = n := by simp [nd, hs]
      simp only [hs, Bool.false_eq_true, if_false, List.mem_map, List.mem_range] at hm
      obtain ⟨k, hk, rfl⟩ := hm
      exact ⟨rfl, by simp only; omega, fun nn _ h => ⟨hin nn h, k, hk, rfl⟩⟩
  · split at hm
    · rename_i hns
      have hs : sep p = true := by simp only [hasNS, Bool.and_eq_true] at hns; exact hns.2
      have hmh : mHold p n = 3 * n := by simp [mHold, nd, hs, hns]; omega
      have hv : mHold p n ≤ nVars p n := by unfold nVars; omega
      obtain ⟨k, hk, rfl⟩ := List.mem_map.mp hm
      have := List.mem_range.mp hk
      exact ⟨rfl, by simp only; omega, fun nn h _ => by simp at h⟩
    · simp at hm
  · split at hm
    · rename_i hsome
      obtain ⟨k, hk, rfl⟩ := List.mem_map.mp hm
      have := List.mem_range.mp hk
      refine ⟨rfl, ?_, fun nn h _ => by simp at h⟩
      simp only [nVars, hsome, if_true]; omega
    · simp at hm

/-- every mapping row (dispatch and boolean) sits at the step of a position of the restricted grid -/
theorem storage_mapping_steps (p : StorageP) (g : Grid) (n : Nat) :
    ∀ m ∈ Storage.mapping p g n, ∃ k, k < n ∧ m.step = idxAt g k := by
  intro m hm
  unfold Storage.mapping at hm
  simp only [List.mem_append] at hm
  rcases hm with (hm | hm) | hm
  · unfold dispMap at hm
    split at hm
    · simp only [List.mem_append, List.mem_map, List.mem_range] at hm
      rcases hm with ⟨k, hk, rfl⟩ | ⟨k, hk, rfl⟩ <;> exact ⟨k, hk, rfl⟩
    · simp only [List.mem_map, List.mem_range] at hm
      obtain ⟨k, hk, rfl⟩ := hm
      exact ⟨k, hk, rfl⟩
  · split at hm
    · simp only [boolMap, List.mem_map, List.mem_range] at hm
      obtain ⟨k, hk, rfl⟩ := hm
      exact ⟨k, hk, rfl⟩
    · simp at hm
  · split at hm
    · simp only [boolMap, List.mem_map, List.mem_range] at hm
      obtain ⟨k, hk, rfl⟩ := hm
      exact ⟨k, hk, rfl⟩
    · simp at hm

theorem idxAt_mem (g : Grid) (k : Nat) (hk : k < g.idx.length) : idxAt g k ∈ g.idx := by
  unfold idxAt
  rw [List.getD_eq_getElem?_getD, List.getElem?_eq_getElem hk]
  simp

end EAO
