import EAO.Model.Periodic
import EAO.Model.Readout
import EAO.Lemmas.Blocks
/-!
helper lemmas for C13: merging columns along a leader map (costs, bounds, dispatch read-out), the
leader invariant of `makePeriodic`'s loop, and the weights of `extendMinor`
-/
namespace EAO.Merge
open EAO

/-! ### sums over lists -/

theorem sum_filter_of_zero (L : List Nat) (q : Nat → Bool) (f : Nat → Rat)
    (h0 : ∀ j ∈ L, q j = false → f j = 0) :
    (L.map f).sum = ((L.filter q).map f).sum := by
  induction L with
  | nil => simp
  | cons a L ih =>
    have ih' := ih (fun j hj => h0 j (List.mem_cons_of_mem _ hj))
    cases hq : q a with
    | true => simp [hq, ih']
    | false =>
      have := h0 a (List.mem_cons_self) hq
      simp [hq, ih', this, Rat.zero_add]

theorem costAt_eq_sum_range (c : List Rat) (off : Nat) (x : Vec) :
    costAt c off x = ((List.range c.length).map fun j => c.getD j 0 * x (off + j)).sum := by
  induction c generalizing off with
  | nil => simp
  | cons a cs ih =>
    rw [costAt_cons, ih (off + 1), List.length_cons, List.range_succ_eq_map]
    simp only [List.map_cons, List.sum_cons, List.map_map, Function.comp_def, List.getD_cons_zero,
      List.getD_cons_succ, Nat.add_zero]
    congr 2
    apply List.map_congr_left
    intro j _
    rw [show off + 1 + j = off + Nat.succ j by omega]

theorem costAt_replicate_zero (n off : Nat) (y : Vec) : costAt (List.replicate n 0) off y = 0 := by
  induction n generalizing off with
  | zero => simp
  | succ n ih => rw [List.replicate_succ, costAt_cons, ih]; grind

/-! ### scattering costs into the leaders -/

@[simp] theorem length_addAt (v : List Rat) (j : Nat) (a : Rat) : (addAt v j a).length = v.length := by
  simp [addAt]

theorem addAt_cons_zero (b : Rat) (bs : List Rat) (a : Rat) : addAt (b :: bs) 0 a = (b + a) :: bs := by
  simp [addAt]

theorem addAt_cons_succ (b : Rat) (bs : List Rat) (j : Nat) (a : Rat) :
    addAt (b :: bs) (j + 1) a = b :: addAt bs j a := by
  simp [addAt]

theorem costAt_addAt (v : List Rat) (j : Nat) (a : Rat) (hj : j < v.length) (off : Nat) (y : Vec) :
    costAt (addAt v j a) off y = costAt v off y + a * y (off + j) := by
  induction v generalizing j off with
  | nil => simp at hj
  | cons b bs ih =>
    cases j with
    | zero => rw [addAt_cons_zero, costAt_cons, costAt_cons, Nat.add_zero]; grind
    | succ j =>
      rw [addAt_cons_succ, costAt_cons, costAt_cons, ih j (by simpa using hj) (off + 1),
        show off + 1 + j = off + (j + 1) by omega]
      grind

theorem getD_addAt_ne (v : List Rat) (j p : Nat) (a : Rat) (h : j ≠ p) :
    (addAt v j a).getD p 0 = v.getD p 0 := by
  simp [addAt, List.getD_eq_getElem?_getD, h]

@[simp] theorem length_scatterFrom (lead : Nat → Nat) (c : List Rat) (i : Nat) (acc : List Rat) :
    (scatterFrom lead c i acc).length = acc.length := by
  induction c generalizing i acc with
  | nil => simp [scatterFrom]
  | cons a cs ih => simp [scatterFrom, ih]

theorem costAt_scatterFrom (lead : Nat → Nat) (c : List Rat) (i : Nat) (acc : List Rat) (y : Vec)
    (h : ∀ k, k < c.length → lead (i + k) < acc.length) :
    costAt (scatterFrom lead c i acc) 0 y = costAt acc 0 y + costAt c i (fun j => y (lead j)) := by
  induction c generalizing i acc with
  | nil => simp [scatterFrom]; grind
  | cons a cs ih =>
    have h0 : lead i < acc.length := by simpa using h 0 (by simp)
    rw [scatterFrom, ih (i + 1) (addAt acc (lead i) a) (fun k hk => by
        have := h (k + 1) (by simpa using hk)
        rw [length_addAt]; rwa [show i + 1 + k = i + (k + 1) by omega]),
      costAt_addAt acc (lead i) a h0 0 y, Nat.zero_add, costAt_cons]
    grind

theorem getD_scatterFrom_off (lead : Nat → Nat) (c : List Rat) (i : Nat) (acc : List Rat) (p : Nat)
    (h : ∀ k, k < c.length → lead (i + k) ≠ p) :
    (scatterFrom lead c i acc).getD p 0 = acc.getD p 0 := by
  induction c generalizing i acc with
  | nil => simp [scatterFrom]
  | cons a cs ih =>
    rw [scatterFrom, ih (i + 1) _ (fun k hk => by
        have := h (k + 1) (by simpa using hk)
        rwa [show i + 1 + k = i + (k + 1) by omega]),
      getD_addAt_ne _ _ _ _ (by simpa using h 0 (by simp))]

@[simp] theorem length_mergedCost (lead : Nat → Nat) (c : List Rat) : (mergedCost lead c).length = c.length := by
  simp [mergedCost]

/-- costs summed into the leaders, evaluated at `y` = original costs at `y ∘ lead` -/
theorem costAt_mergedCost (lead : Nat → Nat) (c : List Rat) (y : Vec)
    (h : ∀ j, j < c.length → lead j < c.length) :
    costAt (mergedCost lead c) 0 y = costAt c 0 (fun j => y (lead j)) := by
  unfold mergedCost
  rw [costAt_scatterFrom lead c 0 _ y (fun k hk => by simpa using h k hk), costAt_replicate_zero]
  grind

/-- the merged cost vector vanishes at every non-leader -/
theorem mergedCost_nonleader (lead : Nat → Nat) (c : List Rat) (hidem : ∀ j, lead (lead j) = lead j)
    (p : Nat) (hp : isLeader lead p = false) : (mergedCost lead c).getD p 0 = 0 := by
  unfold mergedCost
  rw [getD_scatterFrom_off lead c 0 _ p (fun k _ hk => by
    have : lead p = p := by rw [← hk, Nat.zero_add, hidem]
    simp [isLeader, this] at hp)]
  simp [List.getD_eq_getElem?_getD, List.getElem?_replicate]
  split <;> rfl

/-! ### compaction onto positions -/

theorem nodup_keepOf (lead : Nat → Nat) (n : Nat) : (keepOf lead n).Nodup :=
  List.Nodup.sublist List.filter_sublist List.nodup_range

theorem mem_keepOf (lead : Nat → Nat) (n j : Nat) : j ∈ keepOf lead n ↔ j < n ∧ lead j = j := by
  simp [keepOf, isLeader, List.mem_filter, List.mem_range]

theorem costAt_map_idxOf (L : List Nat) (hL : L.Nodup) (g : Nat → Rat) (off : Nat) (z : Vec) :
    costAt (L.map g) off z = (L.map fun j => g j * z (off + L.idxOf j)).sum := by
  induction L generalizing off with
  | nil => simp
  | cons a L ih =>
    rw [List.nodup_cons] at hL
    rw [List.map_cons, costAt_cons, ih hL.2 (off + 1), List.map_cons, List.sum_cons, List.idxOf_cons_self,
      Nat.add_zero]
    congr 1
    congr 1
    apply List.map_congr_left
    intro j hj
    have hne : (a == j) = false := by
      rw [beq_eq_false_iff_ne]; intro h; exact hL.1 (h ▸ hj)
    rw [List.idxOf_cons, hne, cond_false, show off + 1 + List.idxOf j L = off + (List.idxOf j L + 1) by omega]

theorem costAt_compact (lead : Nat → Nat) (n : Nat) (m : List Rat) (hm : m.length = n)
    (hz : ∀ j, j < n → isLeader lead j = false → m.getD j 0 = 0) (z : Vec) :
    costAt (compact (keepOf lead n) m) 0 z = costAt m 0 (fun j => z ((keepOf lead n).idxOf j)) := by
  unfold compact
  rw [costAt_map_idxOf _ (nodup_keepOf lead n), costAt_eq_sum_range, hm]
  simp only [Nat.zero_add]
  unfold keepOf
  exact (sum_filter_of_zero (List.range n) (isLeader lead) _ (fun j hj hq => by
    rw [hz j (List.mem_range.mp hj) hq]; grind)).symm

/-- **costs**: summed into the leaders and compacted, at `z` = original costs at `z ∘ σ` -/
theorem costAt_merge (lead : Nat → Nat) (c : List Rat) (hidem : ∀ j, lead (lead j) = lead j)
    (hclosed : ∀ j, j < c.length → lead j < c.length) (z : Vec) :
    costAt (compact (keepOf lead c.length) (mergedCost lead c)) 0 z
      = costAt c 0 (fun j => z (sigmaOf lead c.length j)) := by
  rw [costAt_compact lead c.length _ (length_mergedCost lead c)
      (fun j _ hq => mergedCost_nonleader lead c hidem j hq) z,
    costAt_mergedCost lead c _ hclosed]
  rfl

/-! ### bounds -/

theorem getD_compact (keep : List Nat) (v : List Rat) (p : Nat) (hp : p < keep.length) :
    (compact keep v).getD p 0 = v.getD keep[p] 0 := by
  simp [compact, List.getD_eq_getElem?_getD, hp]

theorem sigma_lt (lead : Nat → Nat) (n : Nat) (hidem : ∀ j, lead (lead j) = lead j)
    (hclosed : ∀ j, j < n → lead j < n) (j : Nat) (hj : j < n) :
    sigmaOf lead n j < (keepOf lead n).length :=
  List.idxOf_lt_length_of_mem ((mem_keepOf lead n _).mpr ⟨hclosed j hj, hidem j⟩)

theorem keep_sigma (lead : Nat → Nat) (n : Nat) (hidem : ∀ j, lead (lead j) = lead j)
    (hclosed : ∀ j, j < n → lead j < n) (j : Nat) (hj : j < n) :
    (keepOf lead n)[sigmaOf lead n j]'(sigma_lt lead n hidem hclosed j hj) = lead j :=
  List.getElem_idxOf _

theorem sigma_keep (lead : Nat → Nat) (n : Nat) (p : Nat) (hp : p < (keepOf lead n).length) :
    sigmaOf lead n (keepOf lead n)[p] = p := by
  have hmem := (mem_keepOf lead n _).mp (List.getElem_mem hp)
  unfold sigmaOf
  rw [hmem.2]
  exact (nodup_keepOf lead n).idxOf_getElem p hp

/-- **bounds**: the compacted leader bounds hold at `z` iff every variable of the expanded point lies
    within its leader's bounds -/
theorem inBounds_merge (lead : Nat → Nat) (n : Nat) (lbar ubar : List Rat)
    (hidem : ∀ j, lead (lead j) = lead j) (hclosed : ∀ j, j < n → lead j < n) (z : Vec) :
    InBounds (compact (keepOf lead n) lbar) (compact (keepOf lead n) ubar) z ↔
      ∀ j, j < n → lbar.getD (lead j) 0 ≤ z (sigmaOf lead n j) ∧ z (sigmaOf lead n j) ≤ ubar.getD (lead j) 0 := by
  unfold InBounds
  constructor
  · intro h j hj
    have hp := sigma_lt lead n hidem hclosed j hj
    have := h (sigmaOf lead n j) (by simpa [compact] using hp)
    rwa [getD_compact _ _ _ hp, getD_compact _ _ _ hp, keep_sigma lead n hidem hclosed j hj] at this
  · intro h p hp
    have hp' : p < (keepOf lead n).length := by simpa [compact] using hp
    have hmem := (mem_keepOf lead n _).mp (List.getElem_mem hp')
    have := h _ hmem.1
    rw [sigma_keep lead n p hp', hmem.2] at this
    rwa [getD_compact _ _ _ hp', getD_compact _ _ _ hp']

/-! ### dispatch read-out -/

theorem dispatchOut_relabel (M : List MapRow) (σ : Nat → Nat) (a n : String) (t : Nat) (z : Vec) :
    dispatchOut (M.map fun m => { m with var := σ m.var }) a n t z
      = dispatchOut M a n t (fun j => z (σ j)) := by
  unfold dispatchOut
  induction M with
  | nil => simp
  | cons m M ih =>
    have hcond : (({ m with var := σ m.var } : MapRow).asset == a && isDisp n t { m with var := σ m.var })
        = (m.asset == a && isDisp n t m) := by simp [isDisp]
    simp only [List.map_cons, List.filter_cons, hcond]
    split
    · simp only [List.map_cons, List.sum_cons, ih]; rfl
    · exact ih

/-! ### the leader invariant of the merge loop of `makePeriodic` -/

/-- `v` and `w` have mapping rows in one and the same group `II` of the loop -/
def SharesGroup (M : List MapRow) (labels : List (Nat × Nat × Nat)) (v w : Nat) : Prop :=
  ∃ k : GroupKey, ∃ m1, m1 ∈ M ∧ ∃ m2, m2 ∈ M ∧ m1.var = v ∧ m2.var = w ∧
    inGroup labels k m1 = true ∧ inGroup labels k m2 = true

theorem mem_groupVars (M : List MapRow) (labels : List (Nat × Nat × Nat)) (out : List Nat) (k : GroupKey)
    (v : Nat) (h : v ∈ groupVars M labels out k) :
    ∃ m, m ∈ M ∧ m.var = v ∧ inGroup labels k m = true := by
  unfold groupVars at h
  have h1 := (List.mem_filter.mp h).1
  rw [List.mem_eraseDups] at h1
  obtain ⟨m, hm, rfl⟩ := List.mem_map.mp h1
  exact ⟨m, (List.mem_filter.mp hm).1, rfl, (List.mem_filter.mp hm).2⟩

theorem getD_map_range (n : Nat) (f : Nat → Nat) (v d : Nat) :
    ((List.range n).map f).getD v d = if v < n then f v else d := by
  simp only [List.getD_eq_getElem?_getD, List.getElem?_map]
  split <;> simp_all

theorem foldl_inv {α β} (f : β → α → β) (I : β → Prop) (hstep : ∀ b a, I b → I (f b a)) :
    ∀ (l : List α) (b : β), I b → I (l.foldl f b) := by
  intro l
  induction l with
  | nil => intro b hb; exact hb
  | cons a l ih => intro b hb; exact ih _ (hstep b a hb)

def LeadInv (M : List MapRow) (labels : List (Nat × Nat × Nat)) (st : MergeState) : Prop :=
  ∀ v, st.leadOf.getD v v ≠ v → SharesGroup M labels v (st.leadOf.getD v v)

theorem getD_range (n v d : Nat) : (List.range n).getD v d = if v < n then v else d := by
  simp only [List.getD_eq_getElem?_getD]
  split <;> simp_all

/-- one loop iteration either leaves the leader table alone or redirects the followers of one group -/
theorem mergeStep_leadOf (M : List MapRow) (labels : List (Nat × Nat × Nat)) (st : MergeState) (k : GroupKey) :
    (mergeStep M labels st k).leadOf = st.leadOf ∨
    ∃ lead o os, groupVars M labels st.out k = lead :: o :: os ∧
      (mergeStep M labels st k).leadOf =
        (List.range st.leadOf.length).map fun j => if (o :: os).contains j then lead else st.leadOf.getD j j := by
  unfold mergeStep
  by_cases he : st.err.isSome = true
  · left; simp only [he, if_true]
  · simp only [he, Bool.false_eq_true, if_false]
    rcases hg : groupVars M labels st.out k with _ | ⟨lead, _ | ⟨o, os⟩⟩
    · left; rfl
    · left; rfl
    · simp only
      split
      · left; rfl
      · right; exact ⟨lead, o, os, rfl, rfl⟩

theorem mergeStep_leadInv (M : List MapRow) (labels : List (Nat × Nat × Nat)) (st : MergeState) (k : GroupKey)
    (hinv : LeadInv M labels st) : LeadInv M labels (mergeStep M labels st k) := by
  intro v
  rcases mergeStep_leadOf M labels st k with h | ⟨lead, o, os, hg, h⟩
  · rw [h]; exact hinv v
  · rw [h, getD_map_range]
    split
    · split
      · rename_i hc
        intro _
        have hv : v ∈ groupVars M labels st.out k := by
          rw [hg]; exact List.mem_cons_of_mem _ (by simpa using hc)
        have hl : lead ∈ groupVars M labels st.out k := by rw [hg]; exact List.mem_cons_self
        obtain ⟨m1, hm1, hv1, hg1⟩ := mem_groupVars M labels st.out k v hv
        obtain ⟨m2, hm2, hv2, hg2⟩ := mem_groupVars M labels st.out k lead hl
        exact ⟨k, m1, hm1, m2, hm2, hv1, hv2, hg1, hg2⟩
      · exact hinv v
    · intro h; exact absurd rfl h

theorem mergeAll_leadInv (P : AssetProblem) (labels : List (Nat × Nat × Nat)) :
    LeadInv P.mapping labels (mergeAll P labels) := by
  unfold mergeAll
  apply foldl_inv (mergeStep P.mapping labels) (LeadInv P.mapping labels)
    (fun b a hb => mergeStep_leadInv P.mapping labels b a hb)
  intro v hv
  exfalso; apply hv
  show (List.range P.l.length).getD v v = v
  rw [getD_range]; split <;> rfl

theorem nanEq_true {α} [BEq α] [LawfulBEq α] (a b : Option α) (h : nanEq a b = true) :
    ∃ x, a = some x ∧ b = some x := by
  cases a <;> cases b <;> simp [nanEq] at h
  exact ⟨_, rfl, by rw [h]⟩

theorem inGroup_same (labels : List (Nat × Nat × Nat)) (k : GroupKey) (m1 m2 : MapRow)
    (h1 : inGroup labels k m1 = true) (h2 : inGroup labels k m2 = true) :
    m1.asset = m2.asset ∧ (∃ n, m1.node = some n ∧ m2.node = some n) ∧ m1.kind = m2.kind ∧
      m1.varName = m2.varName ∧ (∃ d, durOf labels m1 = some d ∧ durOf labels m2 = some d) ∧
      (∃ s, subOf labels m1 = some s ∧ subOf labels m2 = some s) := by
  simp only [inGroup, baseMask, Bool.and_eq_true, beq_iff_eq] at h1 h2
  obtain ⟨⟨⟨⟨⟨ha1, hn1⟩, hv1⟩, hk1⟩, hd1⟩, hs1⟩ := h1
  obtain ⟨⟨⟨⟨⟨ha2, hn2⟩, hv2⟩, hk2⟩, hd2⟩, hs2⟩ := h2
  obtain ⟨n1, hn1a, hn1b⟩ := nanEq_true _ _ hn1
  obtain ⟨n2, hn2a, hn2b⟩ := nanEq_true _ _ hn2
  obtain ⟨d1, hd1a, hd1b⟩ := nanEq_true _ _ hd1
  obtain ⟨d2, hd2a, hd2b⟩ := nanEq_true _ _ hd2
  obtain ⟨s1, hs1a, hs1b⟩ := nanEq_true _ _ hs1
  obtain ⟨s2, hs2a, hs2b⟩ := nanEq_true _ _ hs2
  have en : n1 = n2 := Option.some.inj (hn1b.symm.trans hn2b)
  have ed : d1 = d2 := Option.some.inj (hd1b.symm.trans hd2b)
  have es : s1 = s2 := Option.some.inj (hs1b.symm.trans hs2b)
  subst en; subst ed; subst es
  exact ⟨ha1.trans ha2.symm, ⟨n1, hn1a, hn2a⟩, hk1.trans hk2.symm, hv1.trans hv2.symm,
    ⟨d1, hd1a, hd2a⟩, ⟨s1, hs1a, hs2a⟩⟩

/-! ### weights written by `extendMinor` -/

theorem extendSteps_factors (dtFine : List Rat) (dtc : Rat) (r : MapRow) (I : List Nat) :
    (extendSteps dtFine dtc r I).map (·.factor) = I.map fun t => dtFine.getD t 0 / dtc * r.factor := by
  simp [extendSteps]

theorem extendSteps_steps (dtFine : List Rat) (dtc : Rat) (r : MapRow) (I : List Nat) :
    (extendSteps dtFine dtc r I).map (·.step) = I := by
  induction I with
  | nil => rfl
  | cons t ts ih =>
    have : extendSteps dtFine dtc r (t :: ts)
        = { r with step := t, factor := dtFine.getD t 0 / dtc * r.factor } :: extendSteps dtFine dtc r ts := rfl
    rw [this, List.map_cons, ih]

/-- every row written for a coarse row: same variable, asset, node, type, name; its step is a minor step
    and its factor is `dt_fine/dt_coarse` of that step times the factor of the coarse row -/
theorem mem_extendSteps (dtFine : List Rat) (dtc : Rat) (r : MapRow) (I : List Nat) (m : MapRow)
    (h : m ∈ extendSteps dtFine dtc r I) :
    m.step ∈ I ∧ m.factor = dtFine.getD m.step 0 / dtc * r.factor ∧ m.var = r.var ∧ m.asset = r.asset ∧
      m.node = r.node ∧ m.kind = r.kind ∧ m.varName = r.varName ∧ m.isBool = r.isBool := by
  unfold extendSteps at h
  obtain ⟨t, ht, rfl⟩ := List.mem_map.mp h
  exact ⟨ht, rfl, rfl, rfl, rfl, rfl, rfl, rfl⟩

theorem sum_map_div (L : List Rat) (d : Rat) : (L.map (· / d)).sum = L.sum / d := by
  induction L with
  | nil => simp [Rat.div_def, Rat.zero_mul]
  | cons a L ih => rw [List.map_cons, List.sum_cons, List.sum_cons, ih]; simp only [Rat.div_def]; grind

theorem sum_map_mul_right (L : List Rat) (f : Rat) : (L.map (· * f)).sum = L.sum * f := by
  induction L with
  | nil => simp [Rat.zero_mul]
  | cons a L ih => simp only [List.map_cons, List.sum_cons, ih]; grind

end EAO.Merge
