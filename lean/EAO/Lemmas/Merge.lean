import EAO.Model.Periodic
import EAO.Model.Readout
import EAO.Lemmas.Blocks
/-!
helper lemmas for C13: merging columns along a leader map (costs, bounds, dispatch read-out), the
leader invariant of `makePeriodic`'s loop, and the weights of `extendMinor`
-/
namespace EAO.Merge
open EAO

/-! ### sums over lists -/

theorem sum_filter_of_zero (L : List Nat) (q : Nat → Bool) (f : Nat → Rat)
    (h0 : ∀ j ∈ L, q j = false → f j = 0) :
    (L.map f).sum = ((L.filter q).map f).sum := by
  induction L with
  | nil => simp
  | cons a L ih =>
    have ih' := ih (fun j hj => h0 j (List.mem_cons_of_mem _ hj))
    cases hq : q a with
    | true => simp [hq, ih']
    | false =>
      have := h0 a (List.mem_cons_self) hq
      simp [hq, ih', this, Rat.zero_add]

theorem costAt_eq_sum_range (c : List Rat) (off : Nat) (x : Vec) :
    costAt c off x = ((List.range c.length).map fun j => c.getD j 0 * x (off + j)).sum := by
  induction c generalizing off with
  | nil => simp
  | cons a cs ih =>
    rw [costAt_cons, ih (off + 1), List.length_cons, List.range_succ_eq_map]
    simp only [List.map_cons, List.sum_cons, List.map_map, Function.comp_def, List.getD_cons_zero,
      List.getD_cons_succ, Nat.add_zero]
    congr 2
    apply List.map_congr_left
    intro j _
    rw [show off + 1 + j = off + Nat.succ j by omega]

theorem costAt_replicate_zero (n off : Nat) (y : Vec) : costAt (List.replicate n 0) off y = 0 := by
  induction n generalizing off with
  | zero => simp
  | succ n ih => rw [List.replicate_succ, costAt_cons, ih]; grind

/-! ### scattering costs into the leaders -/

@[simp] theorem length_addAt (v : List Rat) (j : Nat) (a : Rat) : (addAt v j a).length = v.length := by
  simp [addAt]

theorem addAt_cons_zero (b : Rat) (bs : List Rat) (a : Rat) : addAt (b :: bs) 0 a = (b + a) :: bs := by
  simp [addAt]

theorem addAt_cons_succ (b : Rat) (bs : List Rat) (j : Nat) (a : Rat) :
    addAt (b :: bs) (j + 1) a = b :: addAt bs j a := by
  simp [addAt]

theorem costAt_addAt (v : List Rat) (j : Nat) (a : Rat) (hj : j < v.length) (off : Nat) (y : Vec) :
    costAt (addAt v j a) off y = costAt v off y + a * y (off + j) := by
  induction v generalizing j off with
  | nil => simp at hj
  | cons b bs ih =>
    cases j with
    | zero => rw [addAt_cons_zero, costAt_cons, costAt_cons, Nat.add_zero]; grind
    | succ j =>
      rw [addAt_cons_succ, costAt_cons, costAt_cons, ih j (by simpa using hj) (off + 1),
        show off + 1 + j = off + (j + 1) by omega]
      grind

theorem getD_addAt_ne (v : List Rat) (j p : Nat) (a : Rat) (h : j ≠ p) :
    (addAt v j a).getD p 0 = v.getD p 0 := by
  simp [addAt, List.getD_eq_getElem?_getD, h]

@[simp] theorem length_scatterFrom (lead : Nat → Nat) (c : List Rat) (i : Nat) (acc : List Rat) :
    (scatterFrom lead c i acc).length = acc.length := by
  induction c generalizing i acc with
  | nil => simp [scatterFrom]
  | cons a cs ih => simp [scatterFrom, ih]

theorem costAt_scatterFrom (lead : Nat → Nat) (c : List Rat) (i : Nat) (acc : List Rat) (y : Vec)
    (h : ∀ k, k < c.length → lead (i + k) < acc.length) :
    costAt (scatterFrom lead c i acc) 0 y = costAt acc 0 y + costAt c i (fun j => y (lead j)) := by
  induction c generalizing i acc with
  | nil => simp [scatterFrom]; grind
  | cons a cs ih =>
    have h0 : lead i < acc.length := by simpa using h 0 (by simp)
    rw [scatterFrom, ih (i + 1) (addAt acc (lead i) a) (fun k hk => by
        have := h (k + 1) (by simpa using hk)
        rw [length_addAt]; rwa [show i + 1 + k = i + (k + 1) by omega]),
      costAt_addAt acc (lead i) a h0 0 y, Nat.zero_add, costAt_cons]
    grind

theorem getD_scatterFrom_off (lead : Nat → Nat) (c : List Rat) (i : Nat) (acc : List Rat) (p : Nat)
    (h : ∀ k, k < c.length → lead (i + k) ≠ p) :
    (scatterFrom lead c i acc).getD p 0 = acc.getD p 0 := by
  induction c generalizing i acc with
  | nil => simp [scatterFrom]
  | cons a cs ih =>
    rw [scatterFrom, ih (i + 1) _ (fun k hk => by
        have := h (k + 1) (by simpa using hk)
        rwa [show i + 1 + k = i + (k + 1) by omega]),
      getD_addAt_ne _ _ _ _ (by simpa using h 0 (by simp))]

@[simp] theorem length_mergedCost (lead : Nat → Nat) (c : List Rat) : (mergedCost lead c).length = c.length := by
  simp [mergedCost]

/-- costs summed into the leaders, evaluated at `y` = original costs at `y ∘ lead` -/
theorem costAt_mergedCost (lead : Nat → Nat) (c : List Rat) (y : Vec)
    (h : ∀ j, j < c.length → lead j < c.length) :
    costAt (mergedCost lead c) 0 y = costAt c 0 (fun j => y (lead j)) := by
  unfold mergedCost
  rw [costAt_scatterFrom lead c 0 _ y (fun k hk => by simpa using h k hk), costAt_replicate_zero]
  grind

/-- the merged cost vector vanishes at every non-leader -/
theorem mergedCost_nonleader (lead : Nat → Nat) (c : List Rat) (hidem : ∀ j, lead (lead j) = lead j)
    (p : Nat) (hp : isLeader lead p = false) : (mergedCost lead c).getD p 0 = 0 := by
  unfold mergedCost
  rw [getD_scatterFrom_off lead c 0 _ p (fun k _ hk => by
    have : lead p = p := by rw [← hk, Nat.zero_add, hidem]
    simp [isLeader, this] at hp)]
  simp [List.getD_eq_getElem?_getD, List.getElem?_replicate]
  split <;> rfl

/-! ### compaction onto positions -/

theorem nodup_keepOf (lead : Nat → Nat) (n : Nat) : (keepOf lead n).Nodup :=
  List.Nodup.sublist List.filter_sublist List.nodup_range

theorem mem_keepOf (lead : Nat → Nat) (n j : Nat) : j ∈ keepOf lead n ↔ j < n ∧ lead j = j := by
  simp [keepOf, isLeader, List.mem_filter, List.mem_range]

theorem costAt_map_idxOf (L : List Nat) (hL : L.Nodup) (g : Nat → Rat) (off : Nat) (z : Vec) :
    costAt (L.map g) off z = (L.map fun j => g j * z (off + L.idxOf j)).sum := by
  induction L generalizing off with
  | nil => simp
  | cons a L ih =>
    rw [List.nodup_cons] at hL
    rw [List.map_cons, costAt_cons, ih hL.2 (off + 1), List.map_cons, List.sum_cons, List.idxOf_cons_self,
      Nat.add_zero]
    congr 1
    congr 1
    apply List.map_congr_left
    intro j hj
    have hne : (a == j) = false := by
      rw [beq_eq_false_iff_ne]; intro h; exact hL.1 (h ▸ hj)
    rw [List.idxOf_cons, hne, cond_false, show off + 1 + List.idxOf j L = off + (List.idxOf j L + 1) by omega]

theorem costAt_compact (lead : Nat → Nat) (n : Nat) (m : List Rat) (hm : m.length = n)
    (hz : ∀ j, j < n → isLeader lead j = false → m.getD j 0 = 0) (z : Vec) :
    costAt (compact (keepOf lead n) m) 0 z = costAt m 0 (fun j => z ((keepOf lead n).idxOf j)) := by
  unfold compact
  rw [costAt_map_idxOf _ (nodup_keepOf lead n), costAt_eq_sum_range, hm]
  simp only [Nat.zero_add]
  unfold keepOf
  exact (sum_filter_of_zero (List.range n) (isLeader lead) _ (fun j hj hq => by
    rw [hz j (List.mem_range.mp hj) hq]; grind)).symm

/-- **costs**: summed into the leaders and compacted, at `z` = original costs at `z ∘ σ` -/
theorem costAt_merge (lead : Nat → Nat) (c : List Rat) (hidem : ∀ j, lead (lead j) = lead j)
    (hclosed : ∀ j, j < c.length → lead j < c.length) (z : Vec) :
    costAt (compact (keepOf lead c.length) (mergedCost lead c)) 0 z
      = costAt c 0 (fun j => z (sigmaOf lead c.length j)) := by
  rw [costAt_compact lead c.length _ (length_mergedCost lead c)
      (fun j _ hq => mergedCost_nonleader lead c hidem j hq) z,
    costAt_mergedCost lead c _ hclosed]
  rfl

/-! ### bounds -/

theorem getD_compact (keep : List Nat) (v : List Rat) (p : Nat) (hp : p < keep.length) :
    (compact keep v).getD p 0 = v.getD keep[p] 0 := by
  simp [compact, List.getD_eq_getElem?_getD, hp]

theorem sigma_lt (lead : Nat → Nat) (n : Nat) (hidem : ∀ j, lead (lead j) = lead j)
    (hclosed : ∀ j, j < n → lead j < n) (j : Nat) (hj : j < n) :
    sigmaOf lead n j < (keepOf lead n).length :=
  List.idxOf_lt_length_of_mem ((mem_keepOf lead n _).mpr ⟨hclosed j hj, hidem j⟩)

theorem keep_sigma (lead : Nat → Nat) (n : Nat) (hidem : ∀ j, lead (lead j) = lead j)
    (hclosed : ∀ j, j < n → lead j < n) (j : Nat) (hj : j < n) :
    (keepOf lead n)[sigmaOf lead n j]'(sigma_lt lead n hidem hclosed j hj) = lead j :=
  List.getElem_idxOf _

theorem sigma_keep (lead : Nat → Nat) (n : Nat) (p : Nat) (hp : p < (keepOf lead n).length) :
    sigmaOf lead n (keepOf lead n)[p] = p := by
  have hmem := (mem_keepOf lead n _).mp (List.getElem_mem hp)
  unfold sigmaOf
  rw [hmem.2]
  exact (nodup_keepOf lead n).idxOf_getElem p hp

/-- **bounds**: the compacted leader bounds hold at `z` iff every variable of the expanded point lies
    within its leader's bounds -/
theorem inBounds_merge (lead : Nat → Nat) (n : Nat) (lbar ubar : List Rat)
    (hidem : ∀ j, lead (lead j) = lead j) (hclosed : ∀ j, j < n → lead j < n) (z : Vec) :
    InBounds (compact (keepOf lead n) lbar) (compact (keepOf lead n) ubar) z ↔
      ∀ j, j < n → lbar.getD (lead j) 0 ≤ z (sigmaOf lead n j) ∧ z (sigmaOf lead n j) ≤ ubar.getD (lead j) 0 := by
  unfold InBounds
  constructor
  · intro h j hj
    have hp := sigma_lt lead n hidem hclosed j hj
    have := h (sigmaOf lead n j) (by simpa [compact] using hp)
    rwa [getD_compact _ _ _ hp, getD_compact _ _ _ hp, keep_sigma lead n hidem hclosed j hj] at this
  · intro h p hp
    have hp' : p < (keepOf lead n).length := by simpa [compact] using hp
    have hmem := (mem_keepOf lead n _).mp (List.getElem_mem hp')
    have := h _ hmem.1
    rw [sigma_keep lead n p hp', hmem.2] at this
    rwa [getD_compact _ _ _ hp', getD_compact _ _ _ hp']

/-! ### dispatch read-out -/

theorem dispatchOut_relabel (M : List MapRow) (σ : Nat → Nat) (a n : String) (t : Nat) (z : Vec) :
    dispatchOut (M.map fun m => { m with var := σ m.var }) a n t z
      = dispatchOut M a n t (fun j => z (σ j)) := by
  unfold dispatchOut
  induction M with
  | nil => simp
  | cons m M ih =>
    have hcond : (({ m with var := σ m.var } : MapRow).asset == a && isDisp n t { m with var := σ m.var })
        = (m.asset == a && isDisp n t m) := by simp [isDisp]
    simp only [List.map_cons, List.filter_cons, hcond]
    split
    · simp only [List.map_cons, List.sum_cons, ih]; rfl
    · exact ih

/-! ### the leader invariant of the merge loop of `makePeriodic` -/

/-- `v` and `w` have mapping rows in one and the same group `II` of the loop -/
def SharesGroup (M : List MapRow) (labels : List (Nat × Nat × Nat)) (v w : Nat) : Prop :=
  ∃ k : GroupKey, ∃ m1, m1 ∈ M ∧ ∃ m2, m2 ∈ M ∧ m1.var = v ∧ m2.var = w ∧
    inGroup labels k m1 = true ∧ inGroup labels k m2 = true

theorem mem_groupVars (M : List MapRow) (labels : List (Nat × Nat × Nat)) (out : List Nat) (k : GroupKey)
    (v : Nat) (h : v ∈ groupVars M labels out k) :
    ∃ m, m ∈ M ∧ m.var = v ∧ inGroup labels k m = true := by
  unfold groupVars at h
  have h1 := (List.mem_filter.mp h).1
  rw [List.mem_eraseDups] at h1
  obtain ⟨m, hm, rfl⟩ := List.mem_map.mp h1
  exact ⟨m, (List.mem_filter.mp hm).1, rfl, (List.mem_filter.mp hm).2⟩

theorem getD_map_range (n : Nat) (f : Nat → Nat) (v d : Nat) :
    ((List.range n).map f).getD v d = if v < n then f v else d := by
  simp only [List.getD_eq_getElem?_getD, List.getElem?_map]
  split <;> simp_all

theorem foldl_inv {α β} (f : β → α → β) (I : β → Prop) (hstep : ∀ b a, I b → I (f b a)) :
    ∀ (l : List α) (b : β), I b → I (l.foldl f b) := by
  intro l
  induction l with
  | nil => intro b hb; exact hb
  | cons a l ih => intro b hb; exact ih _ (hstep b a hb)

def LeadInv (M : List MapRow) (labels : List (Nat × Nat × Nat)) (st : MergeState) : Prop :=
  ∀ v, st.leadOf.getD v v ≠ v → SharesGroup M labels v (st.leadOf.getD v v)

theorem getD_range (n v d : Nat) : (List.range n).getD v d = if v < n then v else d := by
  simp only [List.getD_eq_getElem?_getD]
  split <;> simp_all

/-- one loop iteration either leaves the leader table alone or redirects the followers of one group -/
theorem mergeStep_leadOf (M : List MapRow) (labels : List (Nat × Nat × Nat)) (st : MergeState) (k : GroupKey) :
    (mergeStep M labels st k).leadOf = st.leadOf ∨
    ∃ lead o os, groupVars M labels st.out k = lead :: o :: os ∧
      (mergeStep M labels st k).leadOf =
        (List.range st.leadOf.length).map fun j => if (o :: os).contains j then lead else st.leadOf.getD j j := by
  unfold mergeStep
  by_cases he : st.err.isSome = true
  · left; simp only [he, if_true]
  · simp only [he, Bool.false_eq_true, if_false]
    rcases hg : groupVars M labels st.out k with _ | ⟨lead, _ | ⟨o, os⟩⟩
    · left; rfl
    · left; rfl
    · simp only
      split
      · left; rfl
      · right; exact ⟨lead, o, os, rfl, rfl⟩

theorem mergeStep_leadInv (M : List MapRow) (labels : List (Nat × Nat × Nat)) (st : MergeState) (k : GroupKey)
    (hinv : LeadInv M labels st) : LeadInv M labels (mergeStep M labels st k) := by
  intro v
  rcases mergeStep_leadOf M labels st k with h | ⟨lead, o, os, hg, h⟩
  · rw [h]; exact hinv v
  · rw [h, getD_map_range]
    split
    · split
      · rename_i hc
        intro _
        have hv : v ∈ groupVars M labels st.out k := by
          rw [hg]; exact List.mem_cons_of_mem _ (by simpa using hc)
        have hl : lead ∈ groupVars M labels st.out k := by rw [hg]; exact List.mem_cons_self
        obtain ⟨m1, hm1, hv1, hg1⟩ := mem_groupVars M labels st.out k v hv
        obtain ⟨m2, hm2, hv2, hg2⟩ := mem_groupVars M labels st.out k lead hl
        exact ⟨k, m1, hm1, m2, hm2, hv1, hv2, hg1, hg2⟩
      · exact hinv v
    · intro h; exact absurd rfl h

theorem mergeAll_leadInv (P : AssetProblem) (labels : List (Nat × Nat × Nat)) :
    LeadInv P.mapping labels (mergeAll P labels) := by
  unfold mergeAll
  apply foldl_inv (mergeStep P.mapping labels) (LeadInv P.mapping labels)
    (fun b a hb => mergeStep_leadInv P.mapping labels b a hb)
  intro v hv
  exfalso; apply hv
  show (List.range P.l.length).getD v v = v
  rw [getD_range]; split <;> rfl

theorem nanEq_true {α} [BEq α] [LawfulBEq α] (a b : Option α) (h : nanEq a b = true) :
    ∃ x, a = some x ∧ b = some x := by
  cases a <;> cases b <;> simp [nanEq] at h
  exact ⟨_, rfl, by rw [h]⟩

theorem inGroup_same (labels : List (Nat × Nat × Nat)) (k : GroupKey) (m1 m2 : MapRow)
    (h1 : inGroup labels k m1 = true) (h2 : inGroup labels k m2 = true) :
    m1.asset = m2.asset ∧ (∃ n, m1.node = some n ∧ m2.node = some n) ∧ m1.kind = m2.kind ∧
      m1.varName = m2.varName ∧ (∃ d, durOf labels m1 = some d ∧ durOf labels m2 = some d) ∧
      (∃ s, subOf labels m1 = some s ∧ subOf labels m2 = some s) := by
  simp only [inGroup, baseMask, Bool.and_eq_true, beq_iff_eq] at h1 h2
  obtain ⟨⟨⟨⟨⟨ha1, hn1⟩, hv1⟩, hk1⟩, hd1⟩, hs1⟩ := h1
  obtain ⟨⟨⟨⟨⟨ha2, hn2⟩, hv2⟩, hk2⟩, hd2⟩, hs2⟩ := h2
  obtain ⟨n1, hn1a, hn1b⟩ := nanEq_true _ _ hn1
  obtain ⟨n2, hn2a, hn2b⟩ := nanEq_true _ _ hn2
  obtain ⟨d1, hd1a, hd1b⟩ := nanEq_true _ _ hd1
  obtain ⟨d2, hd2a, hd2b⟩ := nanEq_true _ _ hd2
  obtain ⟨s1, hs1a, hs1b⟩ := nanEq_true _ _ hs1
  obtain ⟨s2, hs2a, hs2b⟩ := nanEq_true _ _ hs2
  have en : n1 = n2 := Option.some.inj (hn1b.symm.trans hn2b)
  have ed : d1 = d2 := Option.some.inj (hd1b.symm.trans hd2b)
  have es : s1 = s2 := Option.some.inj (hs1b.symm.trans hs2b)
  subst en; subst ed; subst es
  exact ⟨ha1.trans ha2.symm, ⟨n1, hn1a, hn2a⟩, hk1.trans hk2.symm, hv1.trans hv2.symm,
    ⟨d1, hd1a, hd2a⟩, ⟨s1, hs1a, hs2a⟩⟩

/-! ### weights written by `extendMinor` -/

theorem extendSteps_factors (dtFine : List Rat) (dtc : Rat) (r : MapRow) (I : List Nat) :
    (extendSteps dtFine dtc r I).map (·.factor) = I.map fun t => dtFine.getD t 0 / dtc * r.factor := by
  simp [extendSteps]

theorem extendSteps_steps (dtFine : List Rat) (dtc : Rat) (r : MapRow) (I : List Nat) :
    (extendSteps dtFine dtc r I).map (·.step) = I := by
  induction I with
  | nil => rfl
  | cons t ts ih =>
    have : extendSteps dtFine dtc r (t :: ts)
        = { r with step := t, factor := dtFine.getD t 0 / dtc * r.factor } :: extendSteps dtFine dtc r ts := rfl
    rw [this, List.map_cons, ih]

/-- every row written for a coarse row: same variable, asset, node, type, name; its step is a minor step
    and its factor is `dt_fine/dt_coarse` of that step times the factor of the coarse row -/
theorem mem_extendSteps (dtFine : List Rat) (dtc : Rat) (r : MapRow) (I : List Nat) (m : MapRow)
    (h : m ∈ extendSteps dtFine dtc r I) :
    m.step ∈ I ∧ m.factor = dtFine.getD m.step 0 / dtc * r.factor ∧ m.var = r.var ∧ m.asset = r.asset ∧
      m.node = r.node ∧ m.kind = r.kind ∧ m.varName = r.varName ∧ m.isBool = r.isBool := by
  unfold extendSteps at h
  obtain ⟨t, ht, rfl⟩ := List.mem_map.mp h
  exact ⟨ht, rfl, rfl, rfl, rfl, rfl, rfl, rfl⟩

theorem sum_map_div (L : List Rat) (d : Rat) : (L.map (· / d)).sum = L.sum / d := by
  induction L with
  | nil => simp [Rat.div_def, Rat.zero_mul]
  | cons a L ih => rw [List.map_cons, List.sum_cons, List.sum_cons, ih]; simp only [Rat.div_def]; grind

theorem sum_map_mul_right (L : List Rat) (f : Rat) : (L.map (· * f)).sum = L.sum * f := by
  induction L with
  | nil => simp [Rat.zero_mul]
  | cons a L ih => simp only [List.map_cons, List.sum_cons, ih]; grind

/-! ### more list lemmas -/

theorem nodup_eraseDups (L : List Nat) : L.eraseDups.Nodup := by
  generalize hn : L.length = n
  induction n using Nat.strongRecOn generalizing L with
  | _ n ih =>
    cases L with
    | nil => simp
    | cons a as =>
      rw [List.eraseDups_cons, List.nodup_cons]
      constructor
      · intro h
        rw [List.mem_eraseDups] at h
        simp at h
      · refine ih (as.filter fun b => !b == a).length ?_ _ rfl
        have := List.length_filter_le (fun b => !b == a) as
        simp at hn; omega

theorem sum_map_add' {α} (L : List α) (f g : α → Rat) :
    (L.map fun a => f a + g a).sum = (L.map f).sum + (L.map g).sum := by
  induction L with
  | nil => simp [Rat.zero_add]
  | cons a L ih => simp only [List.map_cons, List.sum_cons, ih]; grind

theorem sum_map_eq_zero {α} (L : List α) (f : α → Rat) (h : ∀ a ∈ L, f a = 0) : (L.map f).sum = 0 := by
  induction L with
  | nil => simp
  | cons a L ih =>
    rw [List.map_cons, List.sum_cons, h a List.mem_cons_self, ih (fun b hb => h b (List.mem_cons_of_mem _ hb))]
    grind

theorem sum_range_single (n a : Nat) (ha : a < n) (f : Nat → Rat) :
    ((List.range n).map fun j => if j = a then f j else 0).sum = f a := by
  induction n with
  | zero => omega
  | succ n ih =>
    rw [List.range_succ, List.map_append, List.sum_append]
    by_cases h : a = n
    · subst h
      rw [sum_map_eq_zero _ _ (fun j hj => by
        have : j < a := List.mem_range.mp hj
        simp; omega)]
      simp [Rat.zero_add, Rat.add_zero]
    · rw [ih (by omega)]
      have : ¬ n = a := fun h' => h h'.symm
      simp [this, Rat.add_zero]

theorem sum_range_ite_mem (n : Nat) (L : List Nat) (hL : L.Nodup) (hlt : ∀ j ∈ L, j < n) (f : Nat → Rat) :
    ((List.range n).map fun j => if j ∈ L then f j else 0).sum = (L.map f).sum := by
  induction L with
  | nil => simp; exact sum_map_eq_zero _ _ (fun _ _ => rfl)
  | cons a L ih =>
    rw [List.nodup_cons] at hL
    have hpt : ((List.range n).map fun j => if j ∈ a :: L then f j else 0)
        = (List.range n).map fun j => (if j = a then f j else 0) + (if j ∈ L then f j else 0) := by
      apply List.map_congr_left
      intro j _
      by_cases h1 : j = a
      · subst h1; simp [hL.1, Rat.add_zero]
      · by_cases h2 : j ∈ L <;> simp [h1, h2, Rat.zero_add, Rat.add_zero]
    rw [hpt, sum_map_add', sum_range_single n a (hlt a List.mem_cons_self),
      ih hL.2 (fun j hj => hlt j (List.mem_cons_of_mem _ hj)), List.map_cons, List.sum_cons]

theorem idxOf?_eq (L : List Nat) (j : Nat) :
    L.idxOf? j = if j ∈ L then some (L.idxOf j) else none := by
  induction L with
  | nil => simp
  | cons a L ih =>
    rw [List.idxOf?_cons, List.idxOf_cons, ih]
    by_cases h : a = j
    · subst h; simp
    · have h' : ¬ j = a := fun e => h e.symm
      have hb : (a == j) = false := by simpa using h
      by_cases hm : j ∈ L <;> simp [h, h', hm, hb]


/-! ### one merge step on the cost vector and on a row -/

theorem costAt_set (c : List Rat) (j : Nat) (s : Rat) (hj : j < c.length) (y : Vec) :
    costAt (c.set j s) 0 y = costAt c 0 y + (s - c.getD j 0) * y j := by
  have : c.set j s = addAt c j (s - c.getD j 0) := by
    unfold addAt; congr 1; grind
  rw [this, costAt_addAt c j _ hj 0 y, Nat.zero_add]

/-- moving the values of the `outs` positions (where `x` vanishes) to `x ℓ` -/
theorem costAt_redirect (c : List Rat) (outs : List Nat) (hnd : outs.Nodup) (hlt : ∀ o ∈ outs, o < c.length)
    (x : Vec) (ℓ : Nat) (hx : ∀ o ∈ outs, x o = 0) :
    costAt c 0 (fun j => if j ∈ outs then x ℓ else x j)
      = costAt c 0 x + (outs.map fun o => c.getD o 0).sum * x ℓ := by
  rw [costAt_eq_sum_range, costAt_eq_sum_range]
  have hpt : ((List.range c.length).map fun j => c.getD j 0 * (fun j => if j ∈ outs then x ℓ else x j) (0 + j))
      = (List.range c.length).map fun j => c.getD j 0 * x (0 + j) + (if j ∈ outs then c.getD j 0 * x ℓ else 0) := by
    apply List.map_congr_left
    intro j _
    simp only [Nat.zero_add]
    by_cases h : j ∈ outs
    · simp only [h, if_true, hx j h]; grind
    · simp only [h, if_false]; grind
  rw [hpt, sum_map_add', sum_range_ite_mem c.length outs hnd hlt (fun j => c.getD j 0 * x ℓ)]
  have : (outs.map fun j => c.getD j 0 * x ℓ) = (outs.map fun o => c.getD o 0).map (· * x ℓ) := by
    rw [List.map_map]; rfl
  rw [this, sum_map_mul_right]

theorem eval_addColumns (ℓ : Nat) (outs : List Nat) (r : Row) (x : Vec) (hx : ∀ o ∈ outs, x o = 0) :
    (addColumns ℓ outs r).eval x = r.eval (fun j => if j ∈ outs then x ℓ else x j) := by
  unfold addColumns Row.eval
  simp only [List.map_append, List.sum_append, List.map_map]
  induction r.coeffs with
  | nil => simp [Rat.add_zero]
  | cons p cs ih =>
    by_cases h : p.1 ∈ outs
    · have hc : outs.contains p.1 = true := by simpa using h
      simp only [List.filter_cons, hc, if_true, List.map_cons, List.sum_cons, Function.comp_def, h] at ih ⊢
      rw [← ih, hx p.1 h]; grind
    · have hc : outs.contains p.1 = false := by simpa using h
      simp only [List.filter_cons, hc, List.map_cons, List.sum_cons, Function.comp_def, h, if_false] at ih ⊢
      rw [← ih]; grind


/-! ### the loop of `makePeriodic` when the groups form a partition of the variables -/

theorem groupVars_eq (M : List MapRow) (labels : List (Nat × Nat × Nat)) (out : List Nat) (k : GroupKey) :
    groupVars M labels out k = (grp M labels k).filter fun v => !out.contains v := rfl

/-- two groups that share a variable have the same variables (one group per variable; transports, whose
    variable sits in the same position at both nodes; coarse assets whose period and duration are multiples
    of the coarse step) -/
def Partition (M : List MapRow) (labels : List (Nat × Nat × Nat)) : Prop :=
  ∀ k1 k2 v w, v ∈ grp M labels k1 → v ∈ grp M labels k2 → w ∈ grp M labels k1 → w ∈ grp M labels k2

def leadFn (st : MergeState) (j : Nat) : Nat := st.leadOf.getD j j

def Touched (st : MergeState) (v : Nat) : Prop := leadFn st v ≠ v ∨ ∃ f, f ≠ v ∧ leadFn st f = v

/-- a point restricted to the remaining variables -/
def maskOf (n : Nat) (lead : Nat → Nat) (y : Vec) : Vec := fun j => if j < n ∧ lead j = j then y j else 0

structure LoopInv (P : AssetProblem) (labels : List (Nat × Nat × Nat)) (st : MergeState) : Prop where
  len_lead : st.leadOf.length = P.l.length
  len_l : st.l.length = P.l.length
  len_c : st.c.length = P.l.length
  out_iff : ∀ j, j ∈ st.out ↔ leadFn st j ≠ j
  idem : ∀ j, leadFn st (leadFn st j) = leadFn st j
  closed : ∀ j, j < P.l.length → leadFn st j < P.l.length
  touched : ∀ v, Touched st v → ∃ k, v ∈ grp P.mapping labels k ∧
    ∀ w ∈ grp P.mapping labels k, w ∈ st.out ∨ w = leadFn st v
  newIdx : st.newIdx = P.mapping.map fun m => leadFn st m.var
  cost : ∀ y, costAt st.c 0 (maskOf P.l.length (leadFn st) y) = costAt P.c 0 (fun j => y (leadFn st j))
  rows : ∀ (i : Nat) (r0 r : Row), P.rows[i]? = some r0 → st.rows[i]? = some r →
    (∀ y, r.eval (maskOf P.l.length (leadFn st) y) = r0.eval (fun j => y (leadFn st j))) ∧
      r.rhs = r0.rhs ∧ r.kind = r0.kind
  rows_len : st.rows.length = P.rows.length
  cols : ∀ r ∈ st.rows, ∀ p ∈ r.coeffs, p.1 < P.l.length

theorem eval_congr (r : Row) (x y : Vec) (h : ∀ p ∈ r.coeffs, x p.1 = y p.1) : r.eval x = r.eval y := by
  unfold Row.eval
  congr 1
  apply List.map_congr_left
  intro p hp; rw [h p hp]

theorem mergeStep_cases (M : List MapRow) (labels : List (Nat × Nat × Nat)) (st : MergeState) (k : GroupKey) :
    mergeStep M labels st k = st ∨ (mergeStep M labels st k).err = some .index ∨
    ∃ ℓ o os, st.err = none ∧ groupVars M labels st.out k = ℓ :: o :: os ∧ (∀ v ∈ ℓ :: o :: os, v < st.l.length) ∧
      (mergeStep M labels st k).l.length = st.l.length ∧
      (mergeStep M labels st k).c = st.c.set ℓ ((ℓ :: o :: os).map fun v => st.c.getD v 0).sum ∧
      (mergeStep M labels st k).rows = st.rows.map (addColumns ℓ (o :: os)) ∧
      (mergeStep M labels st k).out = st.out ++ (o :: os) ∧
      (mergeStep M labels st k).newIdx
        = (M.zip st.newIdx).map (fun q => if (o :: os).contains q.1.var then ℓ else q.2) ∧
      (mergeStep M labels st k).leadOf
        = (List.range st.leadOf.length).map fun j => if (o :: os).contains j then ℓ else st.leadOf.getD j j := by
  unfold mergeStep
  by_cases he : st.err.isSome = true
  · left; simp only [he, if_true]
  · simp only [he, Bool.false_eq_true, if_false]
    rcases hg : groupVars M labels st.out k with _ | ⟨ℓ, _ | ⟨o, os⟩⟩
    · left; rfl
    · left; rfl
    · simp only
      split
      · right; left; rfl
      · rename_i hany
        right; right
        refine ⟨ℓ, o, os, ?_, rfl, ?_, ?_, rfl, rfl, rfl, rfl, rfl⟩
        · cases hh : st.err <;> simp_all
        · intro v hv
          have := hany
          simp only [List.any_eq_true, decide_eq_true_eq, not_exists, not_and, Nat.not_le] at this
          exact this v hv
        · simp

theorem zip_map_self {α β γ} (M : List α) (g : α → β) (h : α × β → γ) :
    (M.zip (M.map g)).map h = M.map fun m => h (m, g m) := by
  induction M with
  | nil => rfl
  | cons a M ih => simp [ih]


theorem leadFn_step (st st' : MergeState) (ℓ : Nat) (outs : List Nat) (n : Nat)
    (hlen : st.leadOf.length = n) (hout : ∀ o ∈ outs, o < n)
    (h : st'.leadOf = (List.range st.leadOf.length).map fun j => if outs.contains j then ℓ else st.leadOf.getD j j)
    (j : Nat) : leadFn st' j = if j ∈ outs then ℓ else leadFn st j := by
  unfold leadFn
  rw [h, getD_map_range, hlen]
  by_cases hj : j < n
  · simp [hj]
  · have hno : j ∉ outs := fun hm => hj (hout j hm)
    rw [if_neg hj, if_neg hno, List.getD_eq_getElem?_getD, List.getElem?_eq_none (by omega)]
    rfl

theorem loopInv_step (P : AssetProblem) (labels : List (Nat × Nat × Nat)) (hpart : Partition P.mapping labels)
    (st st' : MergeState) (k : GroupKey) (ℓ o : Nat) (os : List Nat)
    (hinv : LoopInv P labels st)
    (hg : groupVars P.mapping labels st.out k = ℓ :: o :: os)
    (hlt : ∀ v ∈ ℓ :: o :: os, v < st.l.length)
    (hl : st'.l.length = st.l.length)
    (hc : st'.c = st.c.set ℓ ((ℓ :: o :: os).map fun v => st.c.getD v 0).sum)
    (hr : st'.rows = st.rows.map (addColumns ℓ (o :: os)))
    (ho : st'.out = st.out ++ (o :: os))
    (hn : st'.newIdx = (P.mapping.zip st.newIdx).map (fun q => if (o :: os).contains q.1.var then ℓ else q.2))
    (hlead : st'.leadOf
      = (List.range st.leadOf.length).map fun j => if (o :: os).contains j then ℓ else st.leadOf.getD j j) :
    LoopInv P labels st' := by
  have n_def : st.l.length = P.l.length := hinv.len_l
  have hvars_nodup : (ℓ :: o :: os).Nodup := by
    rw [← hg, groupVars_eq]
    exact List.Nodup.sublist List.filter_sublist (nodup_eraseDups _)
  have hℓ_notin : ℓ ∉ o :: os := (List.nodup_cons.mp hvars_nodup).1
  have houts_nodup : (o :: os).Nodup := (List.nodup_cons.mp hvars_nodup).2
  have hmemvars : ∀ v, v ∈ ℓ :: o :: os → v ∈ grp P.mapping labels k ∧ v ∉ st.out := by
    intro v hv
    rw [← hg, groupVars_eq, List.mem_filter] at hv
    exact ⟨hv.1, by simpa using hv.2⟩
  have hvars_of : ∀ w, w ∈ grp P.mapping labels k → w ∉ st.out → w ∈ ℓ :: o :: os := by
    intro w hw hno
    rw [← hg, groupVars_eq, List.mem_filter]
    exact ⟨hw, by simpa using hno⟩
  have hlt' : ∀ v ∈ ℓ :: o :: os, v < P.l.length := fun v hv => n_def ▸ hlt v hv
  have hfresh : ∀ v ∈ ℓ :: o :: os, ¬ Touched st v := by
    intro v hv ht
    obtain ⟨k', hvk', hall⟩ := hinv.touched v ht
    have hvk := (hmemvars v hv).1
    have key : ∀ w ∈ ℓ :: o :: os, w = leadFn st v := by
      intro w hw
      have hwk' := hpart k k' v w hvk hvk' (hmemvars w hw).1
      rcases hall w hwk' with h | h
      · exact absurd h (hmemvars w hw).2
      · exact h
    have h1 := key ℓ List.mem_cons_self
    have h2 := key o (List.mem_cons_of_mem _ List.mem_cons_self)
    exact hℓ_notin (by rw [h1, ← h2]; exact List.mem_cons_self)
  have hself : ∀ v ∈ ℓ :: o :: os, leadFn st v = v := by
    intro v hv
    by_cases h : leadFn st v = v
    · exact h
    · exact absurd (Or.inl h) (hfresh v hv)
  have hnofoll : ∀ v ∈ ℓ :: o :: os, ∀ f, leadFn st f = v → f = v := by
    intro v hv f hf
    by_cases h : f = v
    · exact h
    · exact absurd (Or.inr ⟨f, h, hf⟩) (hfresh v hv)
  have hL : ∀ j, leadFn st' j = if j ∈ o :: os then ℓ else leadFn st j :=
    leadFn_step st st' ℓ (o :: os) P.l.length hinv.len_lead
      (fun v hv => hlt' v (List.mem_cons_of_mem _ hv)) hlead
  have hLℓ : leadFn st' ℓ = ℓ := by rw [hL, if_neg hℓ_notin]; exact hself ℓ List.mem_cons_self
  have hnotout : ∀ j, j ∉ o :: os → leadFn st j ∉ o :: os := by
    intro j hj hm
    have e := hnofoll _ (List.mem_cons_of_mem _ hm) j rfl
    rw [← e] at hm
    exact hj hm
  have hmask : ∀ y : Vec,
      (fun j => if j ∈ o :: os then maskOf P.l.length (leadFn st') y ℓ else maskOf P.l.length (leadFn st') y j)
        = maskOf P.l.length (leadFn st) (fun j => if j ∈ o :: os then y ℓ else y j) := by
    intro y; funext j
    have hmℓ : maskOf P.l.length (leadFn st') y ℓ = y ℓ := by
      unfold maskOf; rw [if_pos ⟨hlt' ℓ List.mem_cons_self, hLℓ⟩]
    by_cases hj : j ∈ o :: os
    · have hjv : j ∈ ℓ :: o :: os := List.mem_cons_of_mem _ hj
      rw [if_pos hj, hmℓ]
      unfold maskOf
      rw [if_pos ⟨hlt' j hjv, hself j hjv⟩]
      simp only [if_pos hj]
    · rw [if_neg hj]
      unfold maskOf
      rw [hL j, if_neg hj]
      simp only [if_neg hj]
  have hcomp : ∀ y : Vec, (fun j => (fun j => if j ∈ o :: os then y ℓ else y j) (leadFn st j))
      = fun j => y (leadFn st' j) := by
    intro y; funext j
    rw [hL j]
    by_cases hj : j ∈ o :: os
    · rw [if_pos hj]
      show (if leadFn st j ∈ o :: os then y ℓ else y (leadFn st j)) = y ℓ
      rw [hself j (List.mem_cons_of_mem _ hj), if_pos hj]
    · rw [if_neg hj]
      show (if leadFn st j ∈ o :: os then y ℓ else y (leadFn st j)) = y (leadFn st j)
      rw [if_neg (hnotout j hj)]
  have hzero : ∀ y : Vec, ∀ q ∈ o :: os, maskOf P.l.length (leadFn st') y q = 0 := by
    intro y q hq
    unfold maskOf
    rw [if_neg]
    intro ⟨_, h⟩
    rw [hL q, if_pos hq] at h
    exact hℓ_notin (h ▸ hq)
  refine { len_lead := ?_, len_l := ?_, len_c := ?_, out_iff := ?_, idem := ?_, closed := ?_, touched := ?_,
           newIdx := ?_, cost := ?_, rows := ?_, rows_len := ?_, cols := ?_ }
  · rw [hlead]; simp [hinv.len_lead]
  · rw [hl]; exact hinv.len_l
  · rw [hc]; simp [hinv.len_c]
  · intro j
    rw [ho, List.mem_append, hL j]
    by_cases hj : j ∈ o :: os
    · rw [if_pos hj]
      constructor
      · intro _ h; exact hℓ_notin (h ▸ hj)
      · intro _; exact Or.inr hj
    · rw [if_neg hj]
      constructor
      · rintro (h | h)
        · exact (hinv.out_iff j).mp h
        · exact absurd h hj
      · intro h; exact Or.inl ((hinv.out_iff j).mpr h)
  · intro j
    rw [hL j]
    by_cases hj : j ∈ o :: os
    · rw [if_pos hj]; exact hLℓ
    · rw [if_neg hj, hL (leadFn st j), if_neg (hnotout j hj)]; exact hinv.idem j
  · intro j hj
    rw [hL j]; split
    · exact hlt' ℓ List.mem_cons_self
    · exact hinv.closed j hj
  · intro v ht
    by_cases hv : v ∈ ℓ :: o :: os
    · refine ⟨k, (hmemvars v hv).1, fun w hw => ?_⟩
      by_cases hwo : w ∈ st.out
      · left; rw [ho]; exact List.mem_append_left _ hwo
      · have hwv := hvars_of w hw hwo
        rcases List.mem_cons.mp hwv with hwℓ | hwouts
        · right
          rw [hL v, hwℓ]
          rcases List.mem_cons.mp hv with hvℓ | hvo
          · rw [hvℓ, if_neg hℓ_notin]; exact (hself _ List.mem_cons_self).symm
          · rw [if_pos hvo]
        · left; rw [ho]; exact List.mem_append_right _ hwouts
    · have hvo : v ∉ o :: os := fun h => hv (List.mem_cons_of_mem _ h)
      have hLv : leadFn st' v = leadFn st v := by rw [hL v, if_neg hvo]
      have ht0 : Touched st v := by
        rcases ht with h | ⟨f, hfv, hf⟩
        · left; rwa [hLv] at h
        · right
          refine ⟨f, hfv, ?_⟩
          rw [hL f] at hf
          by_cases hfo : f ∈ o :: os
          · rw [if_pos hfo] at hf; exact absurd (hf ▸ List.mem_cons_self) hv
          · rwa [if_neg hfo] at hf
      obtain ⟨k', hvk', hall⟩ := hinv.touched v ht0
      refine ⟨k', hvk', fun w hw => ?_⟩
      rcases hall w hw with h | h
      · left; rw [ho]; exact List.mem_append_left _ h
      · right; rw [hLv]; exact h
  · rw [hn, hinv.newIdx, zip_map_self]
    apply List.map_congr_left
    intro m _
    rw [hL m.var]
    by_cases h : m.var ∈ o :: os
    · have hc' : (o :: os).contains m.var = true := by simpa using h
      simp only [hc', if_true, if_pos h]
    · have hc' : (o :: os).contains m.var = false := by simpa using h
      simp only [hc', if_neg h]; simp
  · intro y
    have hred := costAt_redirect st.c (o :: os) houts_nodup
      (fun q hq => by rw [hinv.len_c]; exact hlt' q (List.mem_cons_of_mem _ hq))
      (maskOf P.l.length (leadFn st') y) ℓ (hzero y)
    rw [hc, costAt_set _ _ _ (by rw [hinv.len_c]; exact hlt' ℓ List.mem_cons_self)]
    calc costAt st.c 0 (maskOf P.l.length (leadFn st') y)
            + (((ℓ :: o :: os).map fun v => st.c.getD v 0).sum - st.c.getD ℓ 0) * maskOf P.l.length (leadFn st') y ℓ
          = costAt st.c 0 (maskOf P.l.length (leadFn st') y)
            + ((o :: os).map fun v => st.c.getD v 0).sum * maskOf P.l.length (leadFn st') y ℓ := by
            rw [List.map_cons, List.sum_cons]; grind
      _ = costAt st.c 0 (fun j => if j ∈ o :: os then maskOf P.l.length (leadFn st') y ℓ
            else maskOf P.l.length (leadFn st') y j) := hred.symm
      _ = costAt st.c 0 (maskOf P.l.length (leadFn st) (fun j => if j ∈ o :: os then y ℓ else y j)) := by
            rw [hmask y]
      _ = costAt P.c 0 (fun j => (fun j => if j ∈ o :: os then y ℓ else y j) (leadFn st j)) :=
            hinv.cost _
      _ = costAt P.c 0 (fun j => y (leadFn st' j)) := by rw [hcomp y]
  · intro i r0 r' h0 h'
    rw [hr, List.getElem?_map] at h'
    cases hri : st.rows[i]? with
    | none => rw [hri] at h'; simp at h'
    | some r =>
      rw [hri] at h'
      simp only [Option.map_some, Option.some.injEq] at h'
      subst h'
      obtain ⟨hev, hrhs, hkind⟩ := hinv.rows i r0 r h0 hri
      refine ⟨fun y => ?_, hrhs, hkind⟩
      calc (addColumns ℓ (o :: os) r).eval (maskOf P.l.length (leadFn st') y)
          = r.eval (fun j => if j ∈ o :: os then maskOf P.l.length (leadFn st') y ℓ
              else maskOf P.l.length (leadFn st') y j) := eval_addColumns _ _ _ _ (hzero y)
        _ = r.eval (maskOf P.l.length (leadFn st) (fun j => if j ∈ o :: os then y ℓ else y j)) := by
              rw [hmask y]
        _ = r0.eval (fun j => (fun j => if j ∈ o :: os then y ℓ else y j) (leadFn st j)) := hev _
        _ = r0.eval (fun j => y (leadFn st' j)) := by rw [hcomp y]
  · rw [hr, List.length_map]; exact hinv.rows_len
  · intro r' hr' p hp
    rw [hr] at hr'
    obtain ⟨r, hrm, rfl⟩ := List.mem_map.mp hr'
    unfold addColumns at hp
    simp only [List.mem_append, List.mem_map, List.mem_filter] at hp
    rcases hp with h | ⟨q, _, rfl⟩
    · exact hinv.cols r hrm p h
    · exact hlt' ℓ List.mem_cons_self


/-- the state the loop starts with -/
def initState (P : AssetProblem) : MergeState :=
  { l := P.l
    u := P.u
    c := P.c
    rows := P.rows
    out := []
    newIdx := P.mapping.map (·.var)
    leadOf := List.range P.l.length
    err := none }

theorem loopInv_init (P : AssetProblem) (labels : List (Nat × Nat × Nat))
    (hlen : P.c.length = P.l.length) (hcols : ∀ r ∈ P.rows, ∀ p ∈ r.coeffs, p.1 < P.l.length) :
    LoopInv P labels (initState P) := by
  have hid : ∀ j, leadFn (initState P) j = j := by
    intro j
    show (List.range P.l.length).getD j j = j
    rw [getD_range]; split <;> rfl
  refine { len_lead := by simp [initState], len_l := rfl, len_c := hlen, out_iff := ?_, idem := ?_, closed := ?_, touched := ?_,
           newIdx := ?_, cost := ?_, rows := ?_, rows_len := rfl, cols := hcols }
  · intro j; rw [hid]; simp [initState]
  · intro j; rw [hid, hid]
  · intro j hj; rw [hid]; exact hj
  · intro v ht
    exfalso
    rcases ht with h | ⟨f, hfv, hf⟩
    · exact h (hid v)
    · rw [hid] at hf; exact hfv hf
  · show P.mapping.map (·.var) = _
    apply List.map_congr_left
    intro m _; rw [hid]
  · intro y
    apply costAt_congr
    intro j hj
    simp only [Nat.zero_add]
    unfold maskOf
    rw [hid, if_pos ⟨hlen ▸ hj, rfl⟩]
  · intro i r0 r h0 h1
    have : r = r0 := by
      have h1' : P.rows[i]? = some r := h1
      rw [h0] at h1'; exact (Option.some.inj h1').symm
    subst this
    refine ⟨fun y => ?_, rfl, rfl⟩
    apply eval_congr
    intro p hp
    have hmem : r ∈ P.rows := List.mem_of_getElem? h0
    unfold maskOf
    rw [hid, if_pos ⟨hcols r hmem p hp, rfl⟩]

theorem mergeAll_loopInv (P : AssetProblem) (labels : List (Nat × Nat × Nat))
    (hlen : P.c.length = P.l.length) (hcols : ∀ r ∈ P.rows, ∀ p ∈ r.coeffs, p.1 < P.l.length)
    (hpart : Partition P.mapping labels) (herr : (mergeAll P labels).err = none) :
    LoopInv P labels (mergeAll P labels) := by
  have key : (mergeAll P labels).err = none → LoopInv P labels (mergeAll P labels) := by
    unfold mergeAll
    apply foldl_inv (mergeStep P.mapping labels) (fun st => st.err = none → LoopInv P labels st)
    · intro st k hst herr'
      rcases mergeStep_cases P.mapping labels st k with h1 | h2 | ⟨ℓ, o, os, he, hg, hlt, hl, hc, hr, ho, hn, hlead⟩
      · rw [h1] at herr' ⊢; exact hst herr'
      · rw [h2] at herr'; cases herr'
      · exact loopInv_step P labels hpart st _ k ℓ o os (hst he) hg hlt hl hc hr ho hn hlead
    · intro _; exact loopInv_init P labels hlen hcols
  exact key herr

/-! ### the final compaction -/

theorem keepVars_eq (st : MergeState) (n : Nat) (h : ∀ j, j ∈ st.out ↔ leadFn st j ≠ j) :
    keepVars n st.out = keepOf (leadFn st) n := by
  unfold keepVars keepOf
  apply List.filter_congr
  intro j _
  unfold isLeader
  by_cases hj : j ∈ st.out
  · have := (h j).mp hj
    have hb : (leadFn st j == j) = false := by simpa using this
    simp [hj, hb]
  · have : leadFn st j = j := by
      by_cases e : leadFn st j = j
      · exact e
      · exact absurd ((h j).mpr e) hj
    have hb : (leadFn st j == j) = true := by simpa using this
    simp [hj, hb]

theorem relabelRows_ok (keep : List Nat) (M : List MapRow) (g : MapRow → Nat) (M' : List MapRow)
    (hmem : ∀ m ∈ M, g m ∈ keep) (h : relabelRows keep (M.zip (M.map g)) = .ok M') :
    M' = M.map fun m => { m with var := keep.idxOf (g m) } := by
  induction M generalizing M' with
  | nil => simp [relabelRows] at h; rw [h]; rfl
  | cons m M ih =>
    simp only [List.map_cons, List.zip_cons_cons, relabelRows, newPos, idxOf?_eq,
      if_pos (hmem m List.mem_cons_self)] at h
    cases hrest : relabelRows keep (M.zip (M.map g)) with
    | error e => rw [hrest] at h; cases h
    | ok ms =>
      rw [hrest] at h
      injection h with h
      rw [← h, ih ms (fun m' hm' => hmem m' (List.mem_cons_of_mem _ hm')) hrest, List.map_cons]

theorem eval_compactRow (keep : List Nat) (r : Row) (z : Vec) :
    (compactRow keep r).eval z = r.eval (fun j => if j ∈ keep then z (keep.idxOf j) else 0) := by
  unfold compactRow Row.eval
  simp only
  induction r.coeffs with
  | nil => simp
  | cons p cs ih =>
    by_cases h : p.1 ∈ keep
    · simp only [List.filterMap_cons, newPos, idxOf?_eq, if_pos h, Option.map_some, List.map_cons, List.sum_cons] at ih ⊢
      rw [ih]
    · simp only [List.filterMap_cons, newPos, idxOf?_eq, if_neg h, Option.map_none, List.map_cons, List.sum_cons] at ih ⊢
      rw [ih]; grind

theorem mask_keep (lead : Nat → Nat) (n : Nat) (w : Vec) :
    (fun j => if j ∈ keepOf lead n then w j else 0) = maskOf n lead w := by
  funext j
  unfold maskOf
  by_cases h : j ∈ keepOf lead n
  · rw [if_pos h, if_pos ((mem_keepOf lead n j).mp h)]
  · rw [if_neg h, if_neg (fun h' => h ((mem_keepOf lead n j).mpr h'))]

theorem costAt_compact_mask (lead : Nat → Nat) (n : Nat) (m : List Rat) (hm : m.length = n) (z : Vec) :
    costAt (compact (keepOf lead n) m) 0 z
      = costAt m 0 (maskOf n lead (fun j => z ((keepOf lead n).idxOf j))) := by
  unfold compact
  rw [costAt_map_idxOf _ (nodup_keepOf lead n), costAt_eq_sum_range, hm]
  simp only [Nat.zero_add]
  rw [sum_filter_of_zero (List.range n) (isLeader lead)
    (fun j => m.getD j 0 * maskOf n lead (fun j => z ((keepOf lead n).idxOf j)) j) (fun j _ hq => by
      unfold maskOf
      rw [if_neg (fun h' => by simp [isLeader, h'.2] at hq)]; grind)]
  show _ = ((keepOf lead n).map _).sum
  apply congrArg
  apply List.map_congr_left
  intro j hj
  unfold maskOf
  rw [if_pos ((mem_keepOf lead n j).mp hj)]


/-- what `makePeriodic` returns when it succeeds -/
theorem makePeriodic_ok (P : AssetProblem) (labels : List (Nat × Nat × Nat)) (Q : AssetProblem)
    (h : makePeriodic P labels = .ok Q) :
    (mergeAll P labels).err = none ∧ (∀ m ∈ P.mapping, m.var < P.l.length) ∧
    ∃ M', relabelRows (keepVars P.l.length (mergeAll P labels).out) (P.mapping.zip (mergeAll P labels).newIdx) = .ok M' ∧
      Q = { P with
            l := (keepVars P.l.length (mergeAll P labels).out).map fun j => (mergeAll P labels).l.getD j 0
            u := (keepVars P.l.length (mergeAll P labels).out).map fun j => (mergeAll P labels).u.getD j 0
            c := (keepVars P.l.length (mergeAll P labels).out).map fun j => (mergeAll P labels).c.getD j 0
            rows := (mergeAll P labels).rows.map (compactRow (keepVars P.l.length (mergeAll P labels).out))
            mapping := M' } := by
  unfold makePeriodic at h
  simp only at h
  split at h
  · cases h
  · rename_i herr
    split at h
    · cases h
    · rename_i hany
      split at h
      · cases h
      · rename_i M' hrel
        injection h with h
        refine ⟨herr, ?_, M', hrel, h.symm⟩
        intro m hm
        have := hany
        simp only [List.any_eq_true, decide_eq_true_eq, not_exists, not_and, Nat.not_le] at this
        exact this m hm

/-- **the literal loop is the generic merge** along its final leader map, when the groups form a partition:
    the leader map is idempotent and closed; bounds, mapping, name and nodes coincide; costs and rows coincide
    as linear functionals (rows also in right-hand side and type). -/
theorem makePeriodic_is_merge_aux (P : AssetProblem) (labels : List (Nat × Nat × Nat)) (Q : AssetProblem)
    (hlen : P.c.length = P.l.length) (hcols : ∀ r ∈ P.rows, ∀ p ∈ r.coeffs, p.1 < P.l.length)
    (hpart : Partition P.mapping labels) (h : makePeriodic P labels = .ok Q) :
    (∀ j, finalLead P labels (finalLead P labels j) = finalLead P labels j) ∧
    (∀ j, j < P.n → finalLead P labels j < P.n) ∧
    Q.l = (mergeProblem P (finalLead P labels) (mergeAll P labels).l (mergeAll P labels).u).l ∧
    Q.u = (mergeProblem P (finalLead P labels) (mergeAll P labels).l (mergeAll P labels).u).u ∧
    Q.mapping = (mergeProblem P (finalLead P labels) (mergeAll P labels).l (mergeAll P labels).u).mapping ∧
    Q.name = P.name ∧ Q.nodes = P.nodes ∧
    (∀ z, costAt Q.c 0 z
      = costAt (mergeProblem P (finalLead P labels) (mergeAll P labels).l (mergeAll P labels).u).c 0 z) ∧
    Q.rows.length = (mergeProblem P (finalLead P labels) (mergeAll P labels).l (mergeAll P labels).u).rows.length ∧
    ∀ (i : Nat) (r r' : Row), Q.rows[i]? = some r →
      (mergeProblem P (finalLead P labels) (mergeAll P labels).l (mergeAll P labels).u).rows[i]? = some r' →
      (∀ z, r.eval z = r'.eval z) ∧ r.rhs = r'.rhs ∧ r.kind = r'.kind := by
  obtain ⟨herr, hvars, M', hrel, hQ⟩ := makePeriodic_ok P labels Q h
  have inv := mergeAll_loopInv P labels hlen hcols hpart herr
  have hlead : finalLead P labels = leadFn (mergeAll P labels) := rfl
  have hn : P.n = P.l.length := hlen
  have hkeep : keepVars P.l.length (mergeAll P labels).out = keepOf (leadFn (mergeAll P labels)) P.l.length :=
    keepVars_eq _ _ inv.out_iff
  rw [hkeep] at hrel hQ
  have hn' : P.c.length = P.l.length := hlen
  have hidem := inv.idem
  have hclosed := inv.closed
  have hM' := relabelRows_ok _ P.mapping (fun m => leadFn (mergeAll P labels) m.var) M'
    (fun m hm => (mem_keepOf _ _ _).mpr ⟨hclosed _ (hvars m hm), hidem _⟩) (by rw [← inv.newIdx]; exact hrel)
  subst hQ
  rw [hlead]
  refine ⟨hidem, by rw [hn]; exact hclosed, ?_, ?_, ?_, rfl, rfl, ?_, ?_, ?_⟩
  · show _ = compact (keepOf _ P.c.length) _
    rw [hn']; rfl
  · show _ = compact (keepOf _ P.c.length) _
    rw [hn']; rfl
  · have hG : (mergeProblem P (leadFn (mergeAll P labels)) (mergeAll P labels).l (mergeAll P labels).u).mapping
        = P.mapping.map fun m => { m with var := sigmaOf (leadFn (mergeAll P labels)) P.c.length m.var } := rfl
    rw [hG, hn']; exact hM'
  · intro z
    show costAt (compact (keepOf (leadFn (mergeAll P labels)) P.l.length) (mergeAll P labels).c) 0 z
      = costAt (compact (keepOf _ P.c.length) (mergedCost _ P.c)) 0 z
    rw [costAt_compact_mask _ _ _ inv.len_c, inv.cost,
      costAt_merge (leadFn (mergeAll P labels)) P.c hidem (by rw [hn']; exact hclosed) z, hn']
    rfl
  · show ((mergeAll P labels).rows.map _).length = (P.rows.map _).length
    rw [List.length_map, List.length_map, inv.rows_len]
  · intro i r r' hr hr'
    have hr' : (P.rows.map (Row.rename (sigmaOf (leadFn (mergeAll P labels)) P.c.length)))[i]? = some r' := hr'
    have hr : ((mergeAll P labels).rows.map (compactRow (keepOf (leadFn (mergeAll P labels)) P.l.length)))[i]? = some r := hr
    rw [List.getElem?_map] at hr hr'
    cases hri : (mergeAll P labels).rows[i]? with
    | none => rw [hri] at hr; simp at hr
    | some r1 =>
      cases hr0 : P.rows[i]? with
      | none => rw [hr0] at hr'; simp at hr'
      | some r0 =>
        rw [hri] at hr; rw [hr0] at hr'
        simp only [Option.map_some, Option.some.injEq] at hr hr'
        subst hr; subst hr'
        obtain ⟨hev, hrhs, hkind⟩ := inv.rows i r0 r1 hr0 hri
        refine ⟨fun z => ?_, hrhs, hkind⟩
        rw [eval_compactRow, mask_keep, hev, eval_rename, hn']
        rfl


/-! ### a sufficient condition for the partition hypothesis, and transfer of row satisfaction -/

theorem mem_grp (M : List MapRow) (labels : List (Nat × Nat × Nat)) (k : GroupKey) (v : Nat) :
    v ∈ grp M labels k ↔ ∃ m, m ∈ M ∧ m.var = v ∧ inGroup labels k m = true := by
  unfold grp
  rw [List.mem_eraseDups, List.mem_map]
  constructor
  · rintro ⟨m, hm, rfl⟩
    exact ⟨m, (List.mem_filter.mp hm).1, rfl, (List.mem_filter.mp hm).2⟩
  · rintro ⟨m, hm, rfl, hg⟩
    exact ⟨m, List.mem_filter.mpr ⟨hm, hg⟩, rfl⟩

/-- a row lies in exactly one group: the one of its own data -/
theorem inGroup_key (labels : List (Nat × Nat × Nat)) (k : GroupKey) (m : MapRow) (h : inGroup labels k m = true) :
    k = keyOf labels m := by
  unfold keyOf
  simp only [inGroup, baseMask, Bool.and_eq_true, beq_iff_eq] at h
  obtain ⟨⟨⟨⟨⟨ha, hn⟩, hv⟩, hk⟩, hd⟩, hs⟩ := h
  obtain ⟨n1, hn1, hn2⟩ := nanEq_true _ _ hn
  obtain ⟨d1, hd1, hd2⟩ := nanEq_true _ _ hd
  obtain ⟨s1, hs1, hs2⟩ := nanEq_true _ _ hs
  cases k
  simp_all

/-- the executable check implies the partition hypothesis -/
theorem partition_of_check (M : List MapRow) (labels : List (Nat × Nat × Nat))
    (h : partitionCheck M labels = true) : Partition M labels := by
  intro k1 k2 v w hv1 hv2 hw1
  obtain ⟨m1, hm1, _, hg1⟩ := (mem_grp M labels k1 v).mp hv1
  obtain ⟨m2, hm2, _, hg2⟩ := (mem_grp M labels k2 v).mp hv2
  have e1 : k1 = keyOf labels m1 := inGroup_key labels k1 m1 hg1
  have e2 : k2 = keyOf labels m2 := inGroup_key labels k2 m2 hg2
  unfold partitionCheck at h
  have hmem : ∀ m, m ∈ M → grp M labels (keyOf labels m) ∈ ((M.map (keyOf labels)).eraseDups).map (grp M labels) :=
    fun m hm => List.mem_map.mpr ⟨keyOf labels m, List.mem_eraseDups.mpr (List.mem_map.mpr ⟨m, hm, rfl⟩), rfl⟩
  have h12 := List.all_eq_true.mp (List.all_eq_true.mp h _ (hmem m1 hm1)) _ (hmem m2 hm2)
  rw [← e1, ← e2] at h12
  simp only [Bool.or_eq_true, Bool.not_eq_true', List.any_eq_false, List.all_eq_true, List.contains_iff_mem] at h12
  rcases h12 with h0 | h1
  · exact absurd hv2 (by simpa using h0 v hv1)
  · exact h1 w hw1

/-- when every variable has a single mapping row, the groups form a partition -/
theorem partition_of_single_rows (M : List MapRow) (labels : List (Nat × Nat × Nat))
    (hM : ∀ m1 ∈ M, ∀ m2 ∈ M, m1.var = m2.var → m1 = m2) : Partition M labels := by
  intro k1 k2 v w hv1 hv2 hw1
  obtain ⟨m1, hm1, hmv1, hg1⟩ := (mem_grp M labels k1 v).mp hv1
  obtain ⟨m2, hm2, hmv2, hg2⟩ := (mem_grp M labels k2 v).mp hv2
  have e := hM m1 hm1 m2 hm2 (hmv1.trans hmv2.symm)
  subst e
  have : k1 = k2 := (inGroup_key labels k1 m1 hg1).trans (inGroup_key labels k2 m1 hg2).symm
  subst this; exact hw1

theorem sat_of_rel (r r' : Row) (z : Vec) (he : r.eval z = r'.eval z) (hr : r.rhs = r'.rhs) (hk : r.kind = r'.kind) :
    r.Sat z ↔ r'.Sat z := by
  unfold Row.Sat; rw [hk, hr, he]

theorem rows_sat_of_rel (L1 L2 : List Row) (hlen : L1.length = L2.length)
    (hrel : ∀ (i : Nat) (r r' : Row), L1[i]? = some r → L2[i]? = some r' →
      (∀ z, r.eval z = r'.eval z) ∧ r.rhs = r'.rhs ∧ r.kind = r'.kind) (z : Vec) :
    (∀ r ∈ L1, r.Sat z) ↔ ∀ r' ∈ L2, r'.Sat z := by
  constructor
  · intro h r' hr'
    obtain ⟨i, hi, rfl⟩ := List.mem_iff_getElem.mp hr'
    have hi1 : i < L1.length := by omega
    obtain ⟨he, hr, hk⟩ := hrel i L1[i] L2[i] (List.getElem?_eq_getElem hi1) (List.getElem?_eq_getElem hi)
    exact (sat_of_rel _ _ z (he z) hr hk).mp (h _ (List.getElem_mem hi1))
  · intro h r hr
    obtain ⟨i, hi, rfl⟩ := List.mem_iff_getElem.mp hr
    have hi2 : i < L2.length := by omega
    obtain ⟨he, hr, hk⟩ := hrel i L1[i] L2[i] (List.getElem?_eq_getElem hi) (List.getElem?_eq_getElem hi2)
    exact (sat_of_rel _ _ z (he z) hr hk).mpr (h _ (List.getElem_mem hi2))

end EAO.Merge
