import EAO.Lemmas.CHPUnit
/-!
# EAO.Lemmas.CHPUnitRamp — change of the main time unit for the start / shutdown ramp PROFILES (property C12)

`convertRamp` (identity / `np.interp` / weighted averaging) is linear in the profile values, and the factor
step / unit absorbs the `1/k` of the rescaled profile bounds (`u' · k = u`).  Hence the profiles on the grid
(`mkProf`) are the same before and after the change of the unit, and the constructor checks (`profCtor`) give the
rescaled raw pairs.
-/
namespace EAO.CHPUnit
open EAO

/-! ## `np.interp` is linear in `fp` -/

theorem interp_go_scale (x c : Rat) (xs : List Rat) : ∀ (xa fa : Rat) (fs : List Rat),
    interp.go x xa (fa * c) xs (fs.map (· * c)) = interp.go x xa fa xs fs * c := by
  induction xs with
  | nil => intro xa fa fs; simp [interp.go]
  | cons xb xr ih =>
    intro xa fa fs
    cases fs with
    | nil => simp [interp.go]
    | cons fb fr =>
      simp only [List.map_cons, interp.go]
      split
      · rw [Rat.div_def, Rat.div_def]; grind
      · exact ih xb fb fr

theorem interp_scale (xp fp : List Rat) (x c : Rat) :
    interp xp (fp.map (· * c)) x = interp xp fp x * c := by
  cases xp with
  | nil => simp [interp]
  | cons x0 xs =>
    cases fp with
    | nil => simp [interp]
    | cons f0 fs =>
      simp only [List.map_cons, interp]
      split
      · rfl
      · exact interp_go_scale x c xs x0 f0 fs

/-! ## `_convert_ramp` is linear in the profile -/

theorem sum_map_mul_right (l : List Rat) (c : Rat) : (l.map (· * c)).sum = l.sum * c := by
  induction l with
  | nil => simp
  | cons a t ih => simp only [List.map_cons, List.sum_cons, ih]; grind

theorem getD_map_mul (l : List Rat) (i : Nat) (c : Rat) : (l.map (· * c)).getD i 0 = l.getD i 0 * c := by
  simp only [List.getD_eq_getElem?_getD, List.getElem?_map]
  cases l[i]? <;> simp

theorem getLastD_map_mul (l : List Rat) (c : Rat) : (l.map (· * c)).getLastD 0 = l.getLastD 0 * c := by
  simp only [List.getLastD_eq_getLast?, List.getLast?_map]
  cases l.getLast? <;> simp

theorem padded_scale (l : List Rat) (m : Nat) (c : Rat) :
    l.map (· * c) ++ List.replicate m ((l.map (· * c)).getLastD 0) =
      (l ++ List.replicate m (l.getLastD 0)).map (· * c) := by
  rw [getLastD_map_mul, List.map_append, List.map_replicate]

theorem convertRamp_scale (ramp : List Rat) (stepSec rampSec : Nat) (same : Bool) (c : Rat) :
    convertRamp (ramp.map (· * c)) stepSec rampSec same = (convertRamp ramp stepSec rampSec same).map (· * c) := by
  unfold convertRamp
  simp only [List.length_map]
  split
  · rfl
  · split
    · rw [List.map_map]
      apply List.map_congr_left
      intro k _
      exact interp_scale _ _ _ _
    · rw [List.map_map, padded_scale]
      apply List.map_congr_left
      intro i _
      simp only [Function.comp, getD_map_mul, ← List.map_drop, ← List.map_take, sum_map_mul_right]
      rw [Rat.div_def, Rat.div_def]
      split <;> split <;> split <;> simp only [Rat.div_def] <;> grind

end EAO.CHPUnit
